/-
  C22 — The persistent store survives crashes at any point.   PROPERTY THEOREMS ONLY.

  PARTIAL PROOF BY DESIGN.  Full statement (`FullStatement` below): for the REAL redb file
  format and any crash, reopening succeeds and shows the state after a prefix of the history
  containing every acknowledged operation, with consistent indexes.  What is PROVED here is
  lumina's part: because every store operation is exactly ONE write transaction
  (`Crash.writeTx`), then for every backend `B`, every history of arbitrary operations, every
  crash point (between operations, inside a closure, inside `commit`, inside `abort`):

      AtomicDurableCommit B  →  the reopened state is the state after a prefix of length
                                 `returned` or `returned + 1` of the history.

  `AtomicDurableCommit B` (redb + file system: committed ⇒ durable and entirely visible,
  uncommitted ⇒ invisible, crash inside commit ⇒ all or nothing) is an explicit HYPOTHESIS,
  not an axiom and not proved: no Lean model of lumina can exhibit a torn page.  The harness
  validates it against the real redb with a fault-injecting `StorageBackend`
  (harness/src/bin/c22.rs); that enumeration supports the hypothesis, it is not the proof.

  Operations are arbitrary functions `σ → Except ε σ`; the index-consistency clause is carried
  by an arbitrary invariant `Inv` preserved by the operations (for the real operations that
  preservation is C19–C21).

  LAST SECTION (C22 × C19/C20/C21): the same theorems INSTANTIATED with the faithful redb store
  model of `Model/Store.lean` (`Model/CrashRedb.lean`: state = identity row + `Store.Tables`,
  one operation = the closure of `RedbStore::insert / remove_height / mark_as_sampled /
  update_sampling_metadata`, reopen = the closure of `RedbStore::new`).  Under the same
  hypothesis `AtomicDurableCommit`, after any crash in any history the reopened store is the
  store model's state after a prefix containing every acknowledged operation, and in it the
  C19 range invariants, the C21 chain / hash-index invariants and `Spec.C22.consistent` (on
  the canonical dump) hold: `redb_crash_reopen_partial`, `redb_crash_reopen_history_partial`.
-/
import Lumina.Proofs.Crash
import Lumina.Proofs.CrashRedb
import Lumina.Proofs.RedbCommit
import Lumina.Proofs.CrashAudit

namespace Lumina.Props.C22
open Lumina.Model.Crash Lumina.Proofs.Crash
open Lumina.Spec.C22 (specCrash specCrashSharp)

variable {D σ ε : Type}

/-- The full property, for a backend `B` standing for the real redb + file system: NO
    atomicity hypothesis.  Not provable in Lean for the real redb (it is a statement about
    redb's file format and the OS); proved below under `AtomicDurableCommit B`
    (`crash_prefix_partial`). -/
def FullStatement (B : Backend D σ) : Prop :=
  ∀ (d₀ : D) (ops : List (Op σ ε)) (d' : D) (n : Nat), CrashImage B d₀ ops d' n →
    ∃ k, n ≤ k ∧ k ≤ ops.length ∧ B.view d' = runAbs (B.view d₀) (ops.take k)

/-- without a crash the disk refines the abstract history: same final state, same results -/
theorem run_refines (B : Backend D σ) (h : AtomicDurableCommit B) (d : D) (ops : List (Op σ ε)) :
    B.view (runDisk B d ops) = runAbs (B.view d) ops ∧
    runResults B d ops = resultsAbs (B.view d) ops :=
  ⟨runDisk_view B h d ops, runResults_eq B h d ops⟩

/-- **crash_prefix** (the proved part of C22).  Whatever the operations are and wherever the
    crash hits, the image left behind shows the state after the first `k` operations, where
    `k` is the number `n` of operations that had returned, or `n + 1` (the one in flight). -/
theorem crash_prefix_partial (B : Backend D σ) (h : AtomicDurableCommit B) (d₀ : D)
    (ops : List (Op σ ε)) (d' : D) (n : Nat) (hc : CrashImage B d₀ ops d' n) :
    ∃ k, n ≤ k ∧ k ≤ n + 1 ∧ k ≤ ops.length ∧ B.view d' = runAbs (B.view d₀) (ops.take k) := by
  cases hc with
  | idle pre post hops =>
    refine ⟨pre.length, Nat.le_refl _, Nat.le_succ _, by simp [hops], ?_⟩
    rw [hops, take_length_append, runDisk_view B h]
  | inClosure pre post op d' hops hcr =>
    refine ⟨pre.length, Nat.le_refl _, Nat.le_succ _, by simp [hops], ?_⟩
    rw [hops, take_length_append, h.crash_tx_invisible _ _ hcr, runDisk_view B h]
  | inAbort pre post op e d' hops hop hcr =>
    refine ⟨pre.length, Nat.le_refl _, Nat.le_succ _, by simp [hops], ?_⟩
    rw [hops, take_length_append, h.crash_abort_invisible _ _ hcr, runDisk_view B h]
  | inCommit pre post op w d' hops hop hcr =>
    rcases h.crash_commit_atomic _ _ _ hcr with hold | hnew
    · refine ⟨pre.length, Nat.le_refl _, Nat.le_succ _, by simp [hops], ?_⟩
      rw [hops, take_length_append, hold, runDisk_view B h]
    · refine ⟨pre.length + 1, Nat.le_succ _, Nat.le_refl _, by simp [hops], ?_⟩
      rw [hops, take_succ_append, runAbs_snoc, hnew]
      rw [runDisk_view B h] at hop
      simp [applyOp, hop]

/-- under the assumption the full statement holds -/
theorem full_statement_of_atomic (B : Backend D σ) (h : AtomicDurableCommit B) :
    FullStatement (ε := ε) B := by
  intro d₀ ops d' n hc
  obtain ⟨k, h1, _, h3, h4⟩ := crash_prefix_partial B h d₀ ops d' n hc
  exact ⟨k, h1, h3, h4⟩

/-- the spec's checker accepts every crash image of the model: the observed state is among the
    states after the prefixes of length ≥ `n` (even: among the first two of them) -/
theorem crash_spec [BEq σ] [LawfulBEq σ] (B : Backend D σ) (h : AtomicDurableCommit B) (d₀ : D)
    (ops : List (Op σ ε)) (d' : D) (n : Nat) (hc : CrashImage B d₀ ops d' n) :
    specCrashSharp (prefixStates (B.view d₀) ops) n true (B.view d') = true ∧
    specCrash (prefixStates (B.view d₀) ops) n true (B.view d') = true := by
  obtain ⟨k, h1, h2, h3, h4⟩ := crash_prefix_partial B h d₀ ops d' n hc
  have hget := prefixStates_get (B.view d₀) ops k h3
  rw [← h4] at hget
  have hmem : B.view d' ∈ ((prefixStates (B.view d₀) ops).drop n).take 2 := by
    rw [List.mem_iff_getElem?]
    refine ⟨k - n, ?_⟩
    rw [List.getElem?_take]
    have : k - n < 2 := by omega
    simp only [this, ↓reduceIte, List.getElem?_drop]
    rw [show n + (k - n) = k by omega]
    exact hget
  constructor
  · simp only [specCrashSharp, Bool.true_and, List.any_eq_true, beq_iff_eq]
    exact ⟨_, hmem, rfl⟩
  · simp only [specCrash, Bool.true_and, List.any_eq_true, beq_iff_eq]
    exact ⟨_, List.mem_of_mem_take hmem, rfl⟩

/-- what the callers saw before the crash is exactly what the abstract history returns for the
    operations that had returned: every acknowledged operation is inside the surviving prefix
    (`n ≤ k`) and was acknowledged with its abstract result -/
theorem acked_results (B : Backend D σ) (h : AtomicDurableCommit B) (d₀ : D) (pre post : List (Op σ ε)) :
    runResults B d₀ (pre ++ post) = resultsAbs (B.view d₀) (pre ++ post) ∧
    (runResults B d₀ pre) = resultsAbs (B.view d₀) pre :=
  ⟨runResults_eq B h d₀ _, runResults_eq B h d₀ _⟩

/-- **Reopening succeeds and the indexes are consistent.**  `Inv` is any invariant of the
    logical state that the initial state has and every operation of the history preserves
    (index consistency, by C19–C21); `openOp` is `RedbStore::new`'s own transaction, which
    succeeds and changes nothing on states satisfying `Inv` (C23: `open_idempotent`).  Then
    after ANY crash, reopening returns `Ok`, and the reopened store shows the state after a
    prefix of length `n` or `n+1`, which satisfies `Inv`. -/
theorem crash_reopen_partial (B : Backend D σ) (h : AtomicDurableCommit B) (d₀ : D)
    (ops : List (Op σ ε)) (d' : D) (n : Nat) (hc : CrashImage B d₀ ops d' n)
    (Inv : σ → Prop) (openOp : Op σ ε)
    (hinit : Inv (B.view d₀))
    (hpres : ∀ op ∈ ops, ∀ s s', Inv s → op s = .ok s' → Inv s')
    (hopen : ∀ s, Inv s → openOp s = .ok s) :
    (reopen B openOp d').2 = .ok () ∧
    ∃ k, n ≤ k ∧ k ≤ n + 1 ∧ k ≤ ops.length ∧
      B.view (reopen B openOp d').1 = runAbs (B.view d₀) (ops.take k) ∧
      Inv (B.view (reopen B openOp d').1) := by
  obtain ⟨k, h1, h2, h3, h4⟩ := crash_prefix_partial B h d₀ ops d' n hc
  have hinv : Inv (B.view d') := by
    rw [h4]
    exact runAbs_inv Inv _ (fun op ho => hpres op (List.mem_of_mem_take ho)) _ hinit
  have hop := hopen _ hinv
  have hview : B.view (reopen B openOp d').1 = B.view d' := by
    unfold reopen; rw [writeTx_view B h]; simp [applyOp, hop]
  refine ⟨?_, k, h1, h2, h3, ?_, ?_⟩
  · unfold reopen; rw [writeTx_result]; simp [resultOf, hop]
  · rw [hview, h4]
  · rw [hview]; exact hinv

/-! ### any number of crashes -/

/-- `Lives B d incs d'`: starting from image `d`, the process lives through the incarnations
    `incs` — in each one it runs some operations (the first of which is the reopen transaction)
    and crashes when `n` of them had returned — and ends with image `d'`. -/
inductive Lives (B : Backend D σ) : D → List (List (Op σ ε) × Nat) → D → Prop where
  | nil (d : D) : Lives B d [] d
  | cons (d d1 d2 : D) (ops : List (Op σ ε)) (n : Nat) (rest : List (List (Op σ ε) × Nat))
      (hc : CrashImage B d ops d1 n) (hr : Lives B d1 rest d2) : Lives B d ((ops, n) :: rest) d2

/-- `eff` is made of one surviving prefix per incarnation, each containing every operation that
    had returned in that incarnation and at most the one in flight -/
def SurvivingPrefixes : List (List (Op σ ε) × Nat) → List (Op σ ε) → Prop
  | [], eff => eff = []
  | (ops, n) :: rest, eff =>
    ∃ k eff', n ≤ k ∧ k ≤ n + 1 ∧ k ≤ ops.length ∧ SurvivingPrefixes rest eff' ∧ eff = ops.take k ++ eff'

/-- after any number of crash/reopen cycles the state is the result of running, in order, a
    surviving prefix of every incarnation's operations -/
theorem crash_multi_partial (B : Backend D σ) (h : AtomicDurableCommit B) (d d' : D)
    (incs : List (List (Op σ ε) × Nat)) (hl : Lives B d incs d') :
    ∃ eff, SurvivingPrefixes incs eff ∧ B.view d' = runAbs (B.view d) eff := by
  induction hl with
  | nil d => exact ⟨[], rfl, rfl⟩
  | cons d d1 d2 ops n rest hc _ ih =>
    obtain ⟨k, h1, h2, h3, h4⟩ := crash_prefix_partial B h d ops d1 n hc
    obtain ⟨eff', hs, hv⟩ := ih
    refine ⟨ops.take k ++ eff', ⟨k, eff', h1, h2, h3, hs, rfl⟩, ?_⟩
    rw [runAbs_append, ← h4, hv]

/-! ### the assumption is satisfiable, the theorem is not vacuous, the discipline matters -/

/-- the ideal backend meets the assumption -/
theorem ideal_atomic (σ : Type) : AtomicDurableCommit (idealBackend σ) where
  commit_visible := fun _ _ => rfl
  abort_invisible := fun _ => rfl
  crash_tx_invisible := fun _ _ h => by simpa [idealBackend] using h
  crash_commit_atomic := fun _ _ _ h => by simpa [idealBackend] using h
  crash_abort_invisible := fun _ _ h => by simpa [idealBackend] using h

/-- so does a backend whose images carry arbitrary uncommitted garbage -/
theorem journal_atomic (σ : Type) : AtomicDurableCommit (journalBackend σ) where
  commit_visible := fun _ _ => rfl
  abort_invisible := fun _ => rfl
  crash_tx_invisible := fun _ _ h => h
  crash_commit_atomic := fun d w d' h => by
    rcases h with h | h
    · exact Or.inl h
    · right; simp [journalBackend, h]
  crash_abort_invisible := fun _ _ h => h

/-- a backend that tears commits (keeps HALF of a pair) violates the assumption — the
    hypothesis has content -/
theorem torn_not_atomic :
    ¬ AtomicDurableCommit
      ({ idealBackend (Nat × Nat) with
         crashInCommit := fun d w d' => d' = (w.1, d.2) } : Backend (Nat × Nat) (Nat × Nat)) := by
  intro h
  have := h.crash_commit_atomic (0, 0) (1, 1) (1, 0) rfl
  simp [idealBackend] at this

/-- **The discipline matters**: an operation implemented as TWO transactions has, without a
    crash, the same effect as the single-transaction one, but the image between its two
    transactions is not the state after any prefix of the history — `crash_prefix` is about
    `writeTx`, i.e. about lumina keeping each operation inside one transaction. -/
theorem two_transactions_counterexample :
    let B := idealBackend Nat
    let half : Op Nat Unit := fun s => .ok (s + 1)
    let whole : Op Nat Unit := fun s => .ok (s + 2)
    (writeTx2 B 0 half half).1 = (writeTx B 0 whole).1 ∧
    B.view (writeTx B 0 half).1 ∉ prefixStates 0 [whole] := by
  decide

/-- a concrete crash image meeting the hypotheses of `crash_prefix_partial`: three counter
    increments, crash inside the commit of the second one, new value already visible -/
example :
    let B := idealBackend Nat
    let inc : Op Nat Unit := fun s => .ok (s + 1)
    CrashImage B 0 [inc, inc, inc] 2 1 := by
  intro B inc
  exact CrashImage.inCommit (B := B) [inc] [inc] inc 2 2 rfl rfl (Or.inr rfl)

/-- … and a failing operation in flight (aborted), on the garbage-carrying backend -/
example :
    let B := journalBackend Nat
    let inc : Op Nat Unit := fun s => .ok (s + 1)
    let bad : Op Nat Unit := fun _ => .error ()
    CrashImage B (0, []) [inc, bad] (1, [7, 7]) 1 := by
  intro B inc bad
  exact CrashImage.inAbort (B := B) [inc] [] bad () (1, [7, 7]) rfl rfl rfl

/-! ## C22 × C19/C20/C21: the crash theorems instantiated with the redb store model -/

section Redb
open Lumina.Model Lumina.Model.Store Lumina.Model.CrashRedb
open Lumina.Spec.C19 (AbsStore)
open Lumina.Proofs.Store Lumina.Proofs.CrashRedb

/-- "header, hash and range indexes mutually consistent" for a state `db` of the redb store
    model, in the terms of the properties it comes from:
    C19 (sampled ⊆ stored, pruned ∩ stored = ∅ on the range table), C21 (headers stored at
    consecutive heights verify as adjacent; the hash index leads back to the same header) and
    C22's own decidable predicate on the canonical table dump (headers table = stored ranges,
    hash index = inverse of the headers table, neighbours hash-linked, sampled ⊆ stored,
    pruned disjoint, metadata only for stored heights, identity present). -/
structure StoreConsistent (v : Hdr → Hdr → Bool) (name : Hash → String) (parent : Hdr → Hash) (db : Db) : Prop where
  sampled_within_stored : ∀ h, Ranges.mem (CrashRedb.rawRanges db.tables .sampled) h →
      Ranges.mem (CrashRedb.rawRanges db.tables .header) h
  pruned_disjoint_stored : ∀ h, Ranges.mem (CrashRedb.rawRanges db.tables .pruned) h →
      ¬ Ranges.mem (CrashRedb.rawRanges db.tables .header) h
  adjacent_verify : ∀ h x y, RedbStore.getByHeight db.tables h = .ok x →
      RedbStore.getByHeight db.tables (h + 1) = .ok y → verifyAdjacent v x y = true
  hash_index : ∀ h x, RedbStore.getByHeight db.tables h = .ok x →
      x.height = h ∧ RedbStore.getByHash db.tables x.hash = .ok x ∧ RedbStore.containsHash db.tables x.hash = true
  dump_consistent : Lumina.Spec.C22.consistent (dumpOf name parent db) = true

/-- accepted adjacent headers are hash-linked: `ExtendedHeader::verify` of an adjacent pair
    checks `untrusted.last_block_id.hash == trusted.hash()`; `parent` is that projection of the
    header content.  Hypothesis on the verification oracle (it is what makes "verifies" imply
    the dump's "parent name = name of the header below"). -/
def HashLinked (v : Hdr → Hdr → Bool) (parent : Hdr → Hash) : Prop :=
  ∀ x y, x.height + 1 = y.height → v x y = true → parent y = x.hash

/-- **one transaction of the crash model is one call of the store model**: effect and result
    of `txOf v op` under `applyOp` / `resultOf` are those of `RedbStore.step v · op`, and a call
    that does not reach `write_tx` (a query, a batch rejected by the `VerifiedExtendedHeaders`
    conversion) leaves the tables alone. -/
theorem redb_tx_is_step (v : Hdr → Hdr → Bool) (op : Op) (db : Db) :
    applyOp db (txOf v op) = { db with tables := (RedbStore.step v db.tables op).1 } ∧
    (op.mutating = true →
      toRes (resultOf db (txOf v op)) (fun _ => Out.unit) = (RedbStore.step v db.tables op).2) ∧
    (issuesTx v op = false → (RedbStore.step v db.tables op).1 = db.tables) :=
  ⟨applyOp_txOf v op db, fun hm => resultOf_txOf v op hm db, noTx_unchanged v op db.tables⟩

/-- without a crash: the disk shows the store model's state after the history, and every call
    was answered with the store model's result (under `AtomicDurableCommit`) -/
theorem redb_run_refines (B : Backend D Db) (hB : AtomicDurableCommit B) (v : Hdr → Hdr → Bool)
    (d : D) (ops : List Op) (hm : ∀ op ∈ ops, op.mutating = true) :
    B.view (runDisk B d (ops.map (txOf v))) =
      { B.view d with tables := (runOps (RedbStore.step v) (B.view d).tables ops).1 } ∧
    (runResults B d (ops.map (txOf v))).map (fun r => toRes r (fun _ => Out.unit)) =
      (runOps (RedbStore.step v) (B.view d).tables ops).2 := by
  constructor
  · rw [runDisk_view B hB, runAbs_txs]
  · rw [runResults_eq B hB, resultsAbs_txs v ops hm]

/-- **C19 + C21 on the redb store model, plus the bridge to `Spec.C22.consistent`**: every
    state the store model reaches by a history (no unvalidated header stored: `ValidRun`, as in
    C19/C21) has consistent indexes in all five senses of `StoreConsistent`. -/
theorem redb_reachable_consistent (v : Hdr → Hdr → Bool) (name : Hash → String) (parent : Hdr → Hash)
    (hlink : HashLinked v parent) (ops : List Op) (hw : AllWf ops)
    (hvr : ValidRun v Lumina.Spec.C19.init ops) (ident : Nat) (hid : ident ≠ 0) :
    StoreConsistent v name parent ⟨ident, (runOps (RedbStore.step v) RedbStore.new ops).1⟩ := by
  obtain ⟨_, r⟩ := redb_run_sim v ops hw _ _ rr_init absInv_init hvr
  obtain ⟨hi, hver⟩ := abs_run_inv v ops hw _ absInv_init (absVer_init v)
  refine ⟨fun h hs => ?_, fun h hp hh => ?_, fun h x y hx hy => ?_, fun h x hx => ?_, ?_⟩
  · exact (r.memH h).2 (hi.sampled h ((r.memS h).1 hs))
  · have := hi.pruned h ((r.memP h).1 hp)
    rw [(r.memH h).1 hh] at this; cases this
  · exact redb_chain r hi v hver h x y hx hy
  · exact redb_hashIndex r hi h x hx
  · exact consistent_dump r hi v hver name parent hlink ident hid

/-- **C22 for the redb store model** (PARTIAL: `AtomicDurableCommit B` is assumed).
    `d₀` is the disk of a store right after its first `RedbStore::new` (identity `id0`, tables
    empty); `ops` is ANY history of `Store` calls (batches valid or not, removals, marks,
    metadata updates), each run as its one write transaction; the process crashes anywhere
    (between calls, inside a closure, inside `commit`, inside `abort`) when `n` calls had
    returned, leaving `d'`.  Then `RedbStore::new` on `d'` returns `Ok`, and the store it opens
    is the store model's state after the first `k` calls, `n ≤ k ≤ n + 1` (every acknowledged
    call included, at most the one in flight in doubt), with the original identity, and its
    indexes are consistent (`StoreConsistent`: C19, C21, `Spec.C22.consistent`). -/
theorem redb_crash_reopen_partial (B : Backend D Db) (hB : AtomicDurableCommit B)
    (v : Hdr → Hdr → Bool) (name : Hash → String) (parent : Hdr → Hash) (hlink : HashLinked v parent)
    (d₀ : D) (id0 : Nat) (hid : id0 ≠ 0) (hd₀ : B.view d₀ = fresh id0)
    (ops : List Op) (hw : AllWf ops) (hvr : ValidRun v Lumina.Spec.C19.init ops)
    (d' : D) (n : Nat) (hc : CrashImage B d₀ (ops.map (txOf v)) d' n) (newId : Nat) :
    (reopen B (openTx newId) d').2 = .ok () ∧
    ∃ k, n ≤ k ∧ k ≤ n + 1 ∧ k ≤ ops.length ∧
      B.view (reopen B (openTx newId) d').1 =
        ⟨id0, (runOps (RedbStore.step v) RedbStore.new (ops.take k)).1⟩ ∧
      StoreConsistent v name parent (B.view (reopen B (openTx newId) d').1) := by
  obtain ⟨hok, k, h1, h2, h3, h4, _⟩ :=
    crash_reopen_partial B hB d₀ (ops.map (txOf v)) d' n hc (fun db => db.identity = id0) (openTx newId)
      (by rw [hd₀]; rfl)
      (by
        intro op hop s s' hs hos
        obtain ⟨o, _, rfl⟩ := List.mem_map.1 hop
        rw [txOf_identity v o s s' hos]; exact hs)
      (by intro s hs; exact openTx_id newId s (by rw [hs]; exact hid))
  have hview : B.view (reopen B (openTx newId) d').1 =
      ⟨id0, (runOps (RedbStore.step v) RedbStore.new (ops.take k)).1⟩ := by
    rw [h4, ← List.map_take, runAbs_txs, hd₀]; rfl
  refine ⟨hok, k, h1, h2, by simpa using h3, hview, ?_⟩
  rw [hview]
  exact redb_reachable_consistent v name parent hlink (ops.take k) (allWf_take hw k)
    (validRun_take v ops _ hvr k) id0 hid

/-- **the same for a history with queries and rejected batches in it**, read exactly: only the
    calls with `issuesTx` reach `write_tx` (the others never touch the file), so the crash
    history is `ops.filter (issuesTx v)`, `n` counts the transactions that had returned.  The
    reopened store is the store model's state after a prefix `ops.take j` of the WHOLE history
    whose transactions are the first `k` transactions, `n ≤ k ≤ n + 1`.  Hypothesis on the
    headers as in `redb_conforms_validated`: every header handed to `insert` is validated. -/
theorem redb_crash_reopen_history_partial (B : Backend D Db) (hB : AtomicDurableCommit B)
    (v : Hdr → Hdr → Bool) (name : Hash → String) (parent : Hdr → Hash) (hlink : HashLinked v parent)
    (d₀ : D) (id0 : Nat) (hid : id0 ≠ 0) (hd₀ : B.view d₀ = fresh id0)
    (ops : List Op) (hw : AllWf ops) (hval : AllValidated ops)
    (d' : D) (n : Nat) (hc : CrashImage B d₀ ((ops.filter (issuesTx v)).map (txOf v)) d' n) (newId : Nat) :
    (reopen B (openTx newId) d').2 = .ok () ∧
    ∃ k j, n ≤ k ∧ k ≤ n + 1 ∧ k ≤ (ops.filter (issuesTx v)).length ∧ j ≤ ops.length ∧
      (ops.take j).filter (issuesTx v) = (ops.filter (issuesTx v)).take k ∧
      B.view (reopen B (openTx newId) d').1 =
        ⟨id0, (runOps (RedbStore.step v) RedbStore.new (ops.take j)).1⟩ ∧
      StoreConsistent v name parent (B.view (reopen B (openTx newId) d').1) := by
  have hw' : AllWf (ops.filter (issuesTx v)) := fun o ho => hw o (List.mem_filter.1 ho).1
  have hval' : AllValidated (ops.filter (issuesTx v)) := fun o ho => hval o (List.mem_filter.1 ho).1
  obtain ⟨hok, k, h1, h2, h3, h4, h5⟩ :=
    redb_crash_reopen_partial B hB v name parent hlink d₀ id0 hid hd₀ _ hw'
      (validRun_of_validated v _ hval' _ storedValid_init) d' n hc newId
  obtain ⟨j, hj, ej⟩ := take_filter_exists (issuesTx v) ops k h3
  refine ⟨hok, k, j, h1, h2, h3, hj, ej, ?_, h5⟩
  rw [h4, ← ej, run_filter]

/-! ### non-vacuity of the instantiated theorems -/

/-- a verification oracle that is hash-linked: the content id of a header records the hash its
    `last_block_id` points to -/
def exV : Hdr → Hdr → Bool := fun a b => decide (b.id = a.hash)
def exParent : Hdr → Hash := fun x => x.id
def hd (i height hash : Nat) : Hdr := ⟨i, height, hash, true⟩
/-- accepted span, mark, metadata, a fork header (rejected: neighbours), a batch rejected by
    the conversion, a query, an accepted append, a removal -/
def exOps : List Op :=
  [ .insert [hd 0 1 101, hd 101 2 102], .mark 2, .updMeta 1 [5, 6], .insert [hd 7 3 110],
    .insert [hd 102 3 103, hd 9 5 105], .head, .insert [hd 102 3 103], .remove 1 ]

example : HashLinked exV exParent := by
  intro x y _ h; simpa [exV, exParent] using h
example : AllWf exOps := by unfold AllWf; decide
example : AllValidated exOps := by unfold AllValidated; decide
example : ValidRun exV Lumina.Spec.C19.init exOps :=
  validRun_of_validated exV exOps (by unfold AllValidated; decide) _ storedValid_init
example : exOps.map (issuesTx exV) = [true, true, true, true, false, false, true, true] := by decide
example : (runOps (RedbStore.step exV) RedbStore.new exOps).2 =
    [.ok .unit, .ok .unit, .ok .unit, .err .neighborsVerificationFailed, .err .headersVerificationFailed,
     .ok (.hdr (hd 101 2 102)), .ok .unit, .ok .unit] := by decide

/-- crash images of that history on the ideal backend: idle after 3 calls; inside the closure
    of the 4th -/
example : CrashImage (idealBackend Db) (fresh 7) (exOps.map (txOf exV))
    (runDisk (idealBackend Db) (fresh 7) ((exOps.take 3).map (txOf exV))) 3 :=
  CrashImage.idle ((exOps.take 3).map (txOf exV)) ((exOps.drop 3).map (txOf exV)) (by
    rw [← List.map_append, List.take_append_drop])
example : CrashImage (idealBackend Db) (fresh 7) (exOps.map (txOf exV))
    (runDisk (idealBackend Db) (fresh 7) ((exOps.take 3).map (txOf exV))) 3 :=
  CrashImage.inClosure (B := idealBackend Db) ((exOps.take 3).map (txOf exV)) ((exOps.drop 4).map (txOf exV))
    (txOf exV (.insert [hd 7 3 110])) _ rfl rfl

/-- … and inside `commit` of the first call, the new state already visible -/
example : CrashImage (idealBackend Db) (fresh 7) (exOps.map (txOf exV))
    (applyOp (fresh 7) (txOf exV (.insert [hd 0 1 101, hd 101 2 102]))) 0 :=
  CrashImage.inCommit (B := idealBackend Db) [] ((exOps.drop 1).map (txOf exV))
    (txOf exV (.insert [hd 0 1 101, hd 101 2 102]))
    (applyOp (fresh 7) (txOf exV (.insert [hd 0 1 101, hd 101 2 102]))) _ rfl (by rfl) (Or.inr rfl)

end Redb

/-! ## S5 — `AtomicDurableCommit` PROVED for a model of redb 2.6.3's commit protocol

  BEGIN SECTION S5 (group S5; model `Model/RedbCommit.lean`, lemmas `Proofs/RedbCommit.lean`).

  The hypothesis `AtomicDurableCommit B` of every theorem above is here a THEOREM for the backend
  `redbBackend` built from a transcription of redb's commit path and recovery:
  two commit slots + god byte (primary bit, two-phase flag), `commit_inner` (fill the secondary
  slot / write header / [sync if two-phase] / swap primary / write header / sync), recovery on
  open (`pick_primary_for_repair`, `verify_primary_checksums`, fall back to the other slot),
  over a storage model = the one of the fault-injecting harness: everything written before the
  last completed `sync_data` is durable; of the writes after it ANY SUBSET survives; a write of
  one REGION (god byte / one 128-byte slot / one page) is atomic — the header write is even
  allowed to tear between its three regions.

  What remains ASSUMED (explicit hypotheses / stated in `design_notes/C22.md`, section S5):
    (i)   the protocol model transcribes redb faithfully (functions and lines listed at the top
          of `Model/RedbCommit.lean`); the B-tree + allocator layer is the parameter `plan` with
          hypothesis `PlanOK`: a transaction writes only pages NOT reachable from the committed
          roots, and once all its pages are written its new roots verify and hold the new state;
    (ii)  the storage / crash model (region-atomic writes, no bit rot, sync is a barrier);
    (iii) `Function.Injective H.page`: the page checksum (xxh3-128) is collision-free.
-/

section RedbProtocol
open Lumina.Model.RedbCommit Lumina.Proofs.RedbCommit

/-- **Crash atomicity of redb's one-phase durable commit** (the commit lumina uses), on the
    raw medium.  `d`: medium of an open, idle database (`Clean`); `pl`: the transaction.  For
    EVERY crash point and EVERY surviving subset of the unsynced writes (`CrashImg`), recovery
    SUCCEEDS and shows either exactly the content committed before or exactly the new state `w`
    — never a mixture.  And once `commit()` has returned (`commitDisk`), the medium is clean
    again and shows `w`. -/
theorem redb_protocol_commit_atomic {α C σ : Type} [DecidableEq C] (H : Sums α C)
    (hinj : Function.Injective H.page) (fuel : Nat) (dec : List α → σ) (d : Disk α C) (w : σ)
    (pl : Plan α C) (hc : Clean H fuel d) (hp : PlanOK H fuel dec d w pl) :
    (∀ x, CrashImg d (commitEpochs H d pl false) x →
      ∃ c, recover H fuel x = some c ∧ (some c = verify H fuel d d.primary ∨ dec c = w)) ∧
    Clean H fuel (commitDisk H d pl false) ∧
    ∃ c, recover H fuel (commitDisk H d pl false) = some c ∧ dec c = w := by
  obtain ⟨c0, hc0⟩ := hc.verified
  obtain ⟨hcl, c, hv, hd⟩ := commit_returned H fuel dec d w pl false hp
  refine ⟨fun x hx => ?_, hcl, c, ?_, hd⟩
  · rcases commit1_crash_atomic H hinj fuel dec d w pl hc hp x hx with h | ⟨c', h1, h2⟩
    · exact ⟨c0, h.trans hc0, Or.inl hc0.symm⟩
    · exact ⟨c', h1, Or.inr h2⟩
  · rw [recover_clean H hinj fuel _ hcl]; exact hv

/-- the same for the TWO-PHASE commit (redb's own repair-on-open commit uses it) -/
theorem redb_protocol_commit2_atomic {α C σ : Type} [DecidableEq C] (H : Sums α C)
    (hinj : Function.Injective H.page) (fuel : Nat) (dec : List α → σ) (d : Disk α C) (w : σ)
    (pl : Plan α C) (hc : Clean H fuel d) (hp : PlanOK H fuel dec d w pl) :
    (∀ x, CrashImg d (commitEpochs H d pl true) x →
      ∃ c, recover H fuel x = some c ∧ (some c = verify H fuel d d.primary ∨ dec c = w)) ∧
    Clean H fuel (commitDisk H d pl true) ∧
    ∃ c, recover H fuel (commitDisk H d pl true) = some c ∧ dec c = w := by
  obtain ⟨c0, hc0⟩ := hc.verified
  obtain ⟨hcl, c, hv, hd⟩ := commit_returned H fuel dec d w pl true hp
  refine ⟨fun x hx => ?_, hcl, c, ?_, hd⟩
  · rcases commit2_crash_atomic H hinj fuel dec d w pl hc hp x hx with h | ⟨c', h1, h2⟩
    · exact ⟨c0, h.trans hc0, Or.inl hc0.symm⟩
    · exact ⟨c', h1, Or.inr h2⟩
  · rw [recover_clean H hinj fuel _ hcl]; exact hv

/-- a transaction that has not reached `commit` is invisible: whatever dirty pages reached the
    medium (write-buffer eviction), recovery shows the committed content, and if the process
    lives on (abort), the database is still clean with the same content -/
theorem redb_protocol_uncommitted_invisible {α C : Type} [DecidableEq C] (H : Sums α C)
    (hinj : Function.Injective H.page) (fuel : Nat) (d : Disk α C) (hc : Clean H fuel d)
    (ws : List (Write α C)) (hws : ∀ w ∈ ws, FreePageWrite fuel d w) :
    recover H fuel (applyAll d ws) = verify H fuel d d.primary ∧
    Clean H fuel (applyAll d ws) ∧
    verify H fuel (applyAll d ws) (applyAll d ws).primary = verify H fuel d d.primary :=
  ⟨recover_free_writes H hinj fuel d hc ws hws, clean_free_writes H fuel d hc ws hws⟩

/-- redb's repair-on-open leaves a clean medium showing what recovery found -/
theorem redb_protocol_repair {α C : Type} [DecidableEq C] (H : Sums α C) (fuel : Nat)
    (d : Disk α C) (c : List α) (h : recover H fuel d = some c) :
    Clean H fuel (repair H fuel d) ∧
    verify H fuel (repair H fuel d) (repair H fuel d).primary = some c :=
  repair_clean H fuel d c h

/-- **`AtomicDurableCommit` holds for the redb protocol model.**  `redbBackend H fuel dec plan _`
    is the `Backend` whose images are media (+ "crashed since open" flag), whose `commit` is
    [repair-on-open if crashed;] the one-phase commit protocol, whose crash relations are the
    harness's fault model, and whose `view` is redb's recovery. -/
theorem redb_protocol_atomic {α C σ : Type} [DecidableEq C] (H : Sums α C)
    (hinj : Function.Injective H.page) (fuel : Nat) (dec : List α → σ)
    (plan : Disk α C → σ → Plan α C)
    (hplan : ∀ d, Clean H fuel d → ∀ w, PlanOK H fuel dec d w (plan d w)) :
    AtomicDurableCommit (redbBackend H fuel dec plan hplan) :=
  redbBackend_atomic H hinj fuel dec plan hplan

/-- **`crash_prefix_partial` on the protocol model**: the remaining assumptions are (i)–(iii)
    of the section header only.  Still `_partial`: the model is a transcription, the B-tree /
    allocator layer is the hypothesis `hplan`, crashes during repair-on-open are not modelled. -/
theorem crash_prefix_redb_protocol_partial {α C σ ε : Type} [DecidableEq C] (H : Sums α C)
    (hinj : Function.Injective H.page) (fuel : Nat) (dec : List α → σ)
    (plan : Disk α C → σ → Plan α C)
    (hplan : ∀ d, Clean H fuel d → ∀ w, PlanOK H fuel dec d w (plan d w))
    (d₀ : RD H fuel) (ops : List (Op σ ε)) (d' : RD H fuel) (n : Nat)
    (hc : CrashImage (redbBackend H fuel dec plan hplan) d₀ ops d' n) :
    ∃ k, n ≤ k ∧ k ≤ n + 1 ∧ k ≤ ops.length ∧
      (redbBackend H fuel dec plan hplan).view d' =
        runAbs ((redbBackend H fuel dec plan hplan).view d₀) (ops.take k) :=
  crash_prefix_partial _ (redb_protocol_atomic H hinj fuel dec plan hplan) d₀ ops d' n hc

/-- … and any number of crash / repair-on-open / continue cycles -/
theorem crash_multi_redb_protocol_partial {α C σ ε : Type} [DecidableEq C] (H : Sums α C)
    (hinj : Function.Injective H.page) (fuel : Nat) (dec : List α → σ)
    (plan : Disk α C → σ → Plan α C)
    (hplan : ∀ d, Clean H fuel d → ∀ w, PlanOK H fuel dec d w (plan d w))
    (d d' : RD H fuel) (incs : List (List (Op σ ε) × Nat))
    (hl : Lives (redbBackend H fuel dec plan hplan) d incs d') :
    ∃ eff, SurvivingPrefixes incs eff ∧
      (redbBackend H fuel dec plan hplan).view d' =
        runAbs ((redbBackend H fuel dec plan hplan).view d) eff :=
  crash_multi_partial _ (redb_protocol_atomic H hinj fuel dec plan hplan) d d' incs hl

section RedbProtocolStore
open Lumina.Model Lumina.Model.Store Lumina.Model.CrashRedb
open Lumina.Proofs.Store Lumina.Proofs.CrashRedb
open Lumina.Model.RedbCommit Lumina.Proofs.RedbCommit

/-- **C22 for the redb store model ON the redb protocol model**: S3's `redb_crash_reopen_partial`
    (store operations of C19–C21, `RedbStore::new` on reopen, index consistency) with the
    backend instantiated by the commit-protocol model — no `AtomicDurableCommit` hypothesis;
    `dec` decodes tree content into the logical database `Db`, `plan`/`hplan` stand for redb's
    B-tree + allocator layer. -/
theorem redb_store_on_protocol_partial {α C : Type} [DecidableEq C] (H : Sums α C)
    (hinj : Function.Injective H.page) (fuel : Nat) (dec : List α → Db)
    (plan : Disk α C → Db → Plan α C)
    (hplan : ∀ d, Clean H fuel d → ∀ w, PlanOK H fuel dec d w (plan d w))
    (v : Hdr → Hdr → Bool) (name : Hash → String) (parent : Hdr → Hash) (hlink : HashLinked v parent)
    (d₀ : RD H fuel) (id0 : Nat) (hid : id0 ≠ 0)
    (hd₀ : (redbBackend H fuel dec plan hplan).view d₀ = CrashRedb.fresh id0)
    (ops : List Store.Op) (hw : AllWf ops) (hvr : ValidRun v Lumina.Spec.C19.init ops)
    (d' : RD H fuel) (n : Nat)
    (hc : CrashImage (redbBackend H fuel dec plan hplan) d₀ (ops.map (txOf v)) d' n) (newId : Nat) :
    (reopen (redbBackend H fuel dec plan hplan) (openTx newId) d').2 = .ok () ∧
    ∃ k, n ≤ k ∧ k ≤ n + 1 ∧ k ≤ ops.length ∧
      (redbBackend H fuel dec plan hplan).view (reopen (redbBackend H fuel dec plan hplan) (openTx newId) d').1 =
        ⟨id0, (runOps (RedbStore.step v) RedbStore.new (ops.take k)).1⟩ ∧
      StoreConsistent v name parent
        ((redbBackend H fuel dec plan hplan).view (reopen (redbBackend H fuel dec plan hplan) (openTx newId) d').1) :=
  redb_crash_reopen_partial _ (redb_protocol_atomic H hinj fuel dec plan hplan) v name parent hlink
    d₀ id0 hid hd₀ ops hw hvr d' n hc newId
end RedbProtocolStore

/-- **The page-allocation hypothesis has content.**  A transaction that overwrites a page
    reachable from the committed root (violating `PlanOK.free`; everything else as in the
    theorem: clean medium, newer transaction id, the new roots verify and hold the new state
    once all pages are written, collision-free checksums) is NOT crash-atomic: if the page write
    survives and the header write does not, recovery finds the committed tree broken, falls back
    to the older slot, and shows the EMPTY database — neither the committed `[1,2,3]` nor the
    new `[9]`. -/
theorem redb_protocol_inplace_counterexample :
    Clean Example.sums 1 Example.disk1 ∧
    verify Example.sums 1 Example.disk1 Example.disk1.primary = some [[1, 2, 3]] ∧
    (Example.disk1.slots Example.disk1.primary).txid < Example.inPlace.txid ∧
    readRoots Example.sums (applyAll Example.disk1 Example.inPlace.pageWrites).pages 1 Example.inPlace.roots = some [[9]] ∧
    ∃ x, CrashImg Example.disk1 (commitEpochs Example.sums Example.disk1 Example.inPlace false) x ∧
      recover Example.sums 1 x = some [] := by
  have hv : verify Example.sums 1 Example.disk1 Example.disk1.primary = some [[1, 2, 3]] := by
    simp [verify, Example.disk1, mkSlot, readRoots, readKids, readTree, Example.sums]
  refine ⟨⟨?_, ⟨_, hv⟩, ?_⟩, hv, ?_, ?_, applyAll Example.disk1 [.page 1 ⟨[9], []⟩], ?_, ?_⟩
  · simp [Example.disk1, Slot.corrupted, mkSlot]
  · right; left; simp [Example.disk1, mkSlot]
  · simp [Example.disk1, Example.inPlace, mkSlot]
  · simp [Example.disk1, Example.inPlace, Plan.pageWrites, applyAll, Write.apply, readRoots, readKids, readTree, Example.sums]
  · left
    refine ⟨1, _, ?_, rfl⟩
    simp [Example.inPlace, Plan.pageWrites]
  · simp [applyAll, Write.apply, Example.disk1, recover, recoverSlot, pickPrimary, verify, mkSlot, Slot.corrupted,
      readRoots, readKids, readTree, Example.sums]

/-! ### non-vacuity: the hypotheses (i)–(iii) are satisfiable, concrete crash images -/

/-- a collision-free checksum, a planner meeting `PlanOK` on every clean medium, a clean medium -/
example : Function.Injective Example.sums.page ∧
    (∀ d, Clean Example.sums 1 d → ∀ w, PlanOK Example.sums 1 List.flatten d w (Example.plan 1 d w)) ∧
    Clean Example.sums 1 Example.emptyDisk :=
  ⟨Example.sums_injective, fun d _ w => Example.plan_ok 0 d w, Example.emptyDisk_clean 1⟩

/-- the commit of state `[1,2,3]` on a fresh database: the header reached the medium, the data
    page did not ("hdr" mask of the harness) -/
example :
    let d := Example.emptyDisk
    let pl := Example.plan 1 d [1, 2, 3]
    let x := applyAll d (headerWrites (stage2 false (stage1 Example.sums d pl)))
    CrashImg d (commitEpochs Example.sums d pl false) x ∧
    recover Example.sums 1 x = some [] := by
  intro d pl x
  constructor
  · left
    refine ⟨(pl.pageWrites ++ headerWrites (stage1 Example.sums d pl) ++
      headerWrites (stage2 false (stage1 Example.sums d pl))).length, _, ?_, rfl⟩
    rw [List.take_length]
    exact List.sublist_append_right _ _
  · simp [x, d, pl, applyAll_headerWrites, recover, recoverSlot, pickPrimary, verify, stage1, stage2,
      Example.emptyDisk, Example.plan, mkSlot, Slot.corrupted, readRoots, readKids, readTree, Example.sums,
      liveRoots, liveKids, Example.fresh]

/-- … and the same commit with the page AND the new header on the medium (crash just before the
    `sync_data` returns): the new state is shown -/
example :
    let d := Example.emptyDisk
    let pl := Example.plan 1 d [1, 2, 3]
    let x := applyAll d (pl.pageWrites ++ headerWrites (stage2 false (stage1 Example.sums d pl)))
    CrashImg d (commitEpochs Example.sums d pl false) x ∧
    recover Example.sums 1 x = some [[1, 2, 3]] := by
  intro d pl x
  constructor
  · left
    refine ⟨(pl.pageWrites ++ headerWrites (stage1 Example.sums d pl) ++
      headerWrites (stage2 false (stage1 Example.sums d pl))).length, _, ?_, rfl⟩
    rw [List.take_length, List.append_assoc]
    exact List.Sublist.append_left (List.sublist_append_right _ _) _
  · simp only [x, applyAll_append, applyAll_headerWrites]
    simp [d, pl, recover, recoverSlot, pickPrimary, verify, stage1, stage2,
      Example.emptyDisk, Example.plan, mkSlot, Slot.corrupted, readRoots, readKids, readTree, Example.sums,
      liveRoots, liveKids, Example.fresh, Plan.pageWrites, applyAll, Write.apply]

end RedbProtocol
/-! END SECTION S5 -/

/-! ## Audit follow-up (owner of C22): the RAW medium, and non-vacuity of `redb_store_on_protocol_partial`

  BEGIN SECTION AUDIT.  The images of `redbBackend` are elements of the subtype
  `RD = {x // Good x}` (recoverable media), so inside `crash_prefix_redb_protocol_partial` /
  `redb_store_on_protocol_partial` "reopening succeeds" is carried by the type of `d'`.  The
  theorems below compose S5's raw-medium results with the backend: EVERY raw medium that a crash
  can leave (any `CrashImg` of the commit's write epochs — any prefix of the issue order, any
  subset of the unsynced region writes — and any set of early-evicted free-page writes of a
  running or aborting transaction) is recoverable, hence IS an element of `RD` related to the
  pre-crash image by the backend's crash relation.  The subtype excludes no crash image. -/

section AuditRaw
open Lumina.Model.RedbCommit Lumina.Proofs.RedbCommit Lumina.Proofs.CrashAudit

/-- crash inside `commit()`: the raw medium `y` is recoverable and is a `crashInCommit` image -/
theorem redb_protocol_raw_commit_crash_reopens {α C σ : Type} [DecidableEq C] (H : Sums α C)
    (hinj : Function.Injective H.page) (fuel : Nat) (dec : List α → σ)
    (plan : Disk α C → σ → Plan α C)
    (hplan : ∀ d, Clean H fuel d → ∀ w, PlanOK H fuel dec d w (plan d w))
    (x : RD H fuel) (w : σ) (y : Disk α C)
    (himg : CrashImg (opened H fuel x.1)
      (commitEpochs H (opened H fuel x.1) (plan (opened H fuel x.1) w) false) y) :
    (∃ c, recover H fuel y = some c) ∧
    ∃ d' : RD H fuel, d'.1 = (y, true) ∧ (redbBackend H fuel dec plan hplan).crashInCommit x w d' := by
  have hc := (opened_clean H fuel x.1 x.2).1
  have hg : Good H fuel (y, true) :=
    raw_commit_crash_good H hinj fuel dec _ w _ hc (hplan _ hc w) y himg
  exact ⟨by simpa [Good] using hg, ⟨(y, true), hg⟩, rfl, rfl, himg⟩

/-- crash while the closure runs or while `abort()` runs: whatever dirty pages were evicted to
    free pages, the raw medium is recoverable and is a `crashInTx` / `crashInAbort` image -/
theorem redb_protocol_raw_tx_crash_reopens {α C σ : Type} [DecidableEq C] (H : Sums α C)
    (hinj : Function.Injective H.page) (fuel : Nat) (dec : List α → σ)
    (plan : Disk α C → σ → Plan α C)
    (hplan : ∀ d, Clean H fuel d → ∀ w, PlanOK H fuel dec d w (plan d w))
    (x : RD H fuel) (ws : List (Write α C))
    (hws : ∀ w ∈ ws, FreePageWrite fuel (opened H fuel x.1) w) :
    (∃ c, recover H fuel (applyAll (opened H fuel x.1) ws) = some c) ∧
    ∃ d' : RD H fuel, d'.1 = (applyAll (opened H fuel x.1) ws, true) ∧
      (redbBackend H fuel dec plan hplan).crashInTx x d' ∧
      (redbBackend H fuel dec plan hplan).crashInAbort x d' := by
  have hc := (opened_clean H fuel x.1 x.2).1
  have hg : Good H fuel (applyAll (opened H fuel x.1) ws, true) := raw_tx_crash_good H hinj fuel _ hc ws hws
  exact ⟨by simpa [Good] using hg, ⟨(_, true), hg⟩, rfl, ⟨rfl, ws, hws, rfl⟩, ⟨rfl, ws, hws, rfl⟩⟩

open Lumina.Model Lumina.Model.Store Lumina.Model.CrashRedb
open Lumina.Proofs.Store Lumina.Proofs.CrashRedb

/-- **C22 on the RAW medium** (store model of C19–C21 on the commit-protocol model): the store
    has run the calls `pre`; call `op` is in flight and its `commit()` is cut by a crash that
    leaves the raw medium `y` (ANY crash image of the commit's writes — `y` is a plain `Disk`,
    no recoverability assumed).  Then recovery of `y` succeeds, `RedbStore::new` on it returns
    `Ok`, and the reopened store shows the state after `pre` or after `pre ++ [op]`, with
    consistent indexes.  Still `_partial`: hypotheses (i)–(iii) of section S5. -/
theorem redb_store_on_protocol_raw_partial {α C : Type} [DecidableEq C] (H : Sums α C)
    (hinj : Function.Injective H.page) (fuel : Nat) (dec : List α → Db)
    (plan : Disk α C → Db → Plan α C)
    (hplan : ∀ d, Clean H fuel d → ∀ w, PlanOK H fuel dec d w (plan d w))
    (v : Hdr → Hdr → Bool) (name : Hash → String) (parent : Hdr → Hash) (hlink : HashLinked v parent)
    (d₀ : RD H fuel) (id0 : Nat) (hid : id0 ≠ 0)
    (hd₀ : (redbBackend H fuel dec plan hplan).view d₀ = CrashRedb.fresh id0)
    (pre post : List Store.Op) (op : Store.Op)
    (hw : AllWf (pre ++ op :: post)) (hvr : ValidRun v Lumina.Spec.C19.init (pre ++ op :: post))
    (w : Db)
    (hop : txOf v op ((redbBackend H fuel dec plan hplan).view
      (runDisk (redbBackend H fuel dec plan hplan) d₀ (pre.map (txOf v)))) = .ok w)
    (y : Disk α C)
    (himg : CrashImg
      (opened H fuel (runDisk (redbBackend H fuel dec plan hplan) d₀ (pre.map (txOf v))).1)
      (commitEpochs H (opened H fuel (runDisk (redbBackend H fuel dec plan hplan) d₀ (pre.map (txOf v))).1)
        (plan (opened H fuel (runDisk (redbBackend H fuel dec plan hplan) d₀ (pre.map (txOf v))).1) w) false) y)
    (newId : Nat) :
    (∃ c, recover H fuel y = some c) ∧
    ∃ d' : RD H fuel, d'.1 = (y, true) ∧
      (reopen (redbBackend H fuel dec plan hplan) (openTx newId) d').2 = .ok () ∧
      ∃ k, pre.length ≤ k ∧ k ≤ pre.length + 1 ∧
        (redbBackend H fuel dec plan hplan).view (reopen (redbBackend H fuel dec plan hplan) (openTx newId) d').1 =
          ⟨id0, (runOps (RedbStore.step v) RedbStore.new ((pre ++ op :: post).take k)).1⟩ ∧
        StoreConsistent v name parent
          ((redbBackend H fuel dec plan hplan).view (reopen (redbBackend H fuel dec plan hplan) (openTx newId) d').1) := by
  obtain ⟨hrec, d', hd', hcr⟩ := redb_protocol_raw_commit_crash_reopens H hinj fuel dec plan hplan
    (runDisk (redbBackend H fuel dec plan hplan) d₀ (pre.map (txOf v))) w y himg
  have hci : CrashImage (redbBackend H fuel dec plan hplan) d₀ ((pre ++ op :: post).map (txOf v)) d'
      (pre.map (txOf v)).length :=
    CrashImage.inCommit (pre.map (txOf v)) (post.map (txOf v)) (txOf v op) w d' (by simp) hop hcr
  rw [List.length_map] at hci
  obtain ⟨hok, k, h1, h2, _, h4, h5⟩ := redb_store_on_protocol_partial H hinj fuel dec plan hplan v name parent
    hlink d₀ id0 hid hd₀ (pre ++ op :: post) hw hvr d' pre.length hci newId
  exact ⟨hrec, d', hd', hok, k, h1, h2, h4, h5⟩

/-- **non-vacuity of the hypothesis set of `redb_store_on_protocol_partial`** (`dec`, `plan`,
    `hplan`, `hd₀`, together with a hash-linked oracle, a well-formed valid history and a crash
    image): pages carry a whole `Db` (`α := Db`), the checksum is the collision-free
    `Gen.sums Db`, the planner writes the new `Db` to one fresh page, the medium is a freshly
    created file showing `fresh 7`; the history is S3's `exOps`, crashed idle after 3 calls. -/
example :
    let H := Gen.sums Db
    let dec := Gen.dec (CrashRedb.fresh 7)
    let plan := Gen.plan (β := Db) 1
    ∃ (hplan : ∀ d, Clean H 1 d → ∀ w, PlanOK H 1 dec d w (plan d w)) (d₀ d' : RD H 1),
      Function.Injective H.page ∧ HashLinked exV exParent ∧ (7 : Nat) ≠ 0 ∧
      (redbBackend H 1 dec plan hplan).view d₀ = CrashRedb.fresh 7 ∧
      AllWf exOps ∧ ValidRun exV Lumina.Spec.C19.init exOps ∧
      CrashImage (redbBackend H 1 dec plan hplan) d₀ (exOps.map (txOf exV)) d' 3 := by
  intro H dec plan
  have hplan : ∀ d, Clean H 1 d → ∀ w, PlanOK H 1 dec d w (plan d w) :=
    fun d _ w => Gen.plan_ok (CrashRedb.fresh 7) 0 d w
  refine ⟨hplan, Gen.emptyRD (CrashRedb.fresh 7) 1,
    runDisk (redbBackend H 1 dec plan hplan) (Gen.emptyRD (CrashRedb.fresh 7) 1) ((exOps.take 3).map (txOf exV)),
    Gen.sums_injective Db, ?_, by decide, Gen.emptyRD_view (CrashRedb.fresh 7) 0, by unfold AllWf; decide,
    validRun_of_validated exV exOps (by unfold AllValidated; decide) _ storedValid_init, ?_⟩
  · intro x y _ h; simpa [exV, exParent] using h
  · exact CrashImage.idle ((exOps.take 3).map (txOf exV)) ((exOps.drop 3).map (txOf exV)) (by
      rw [← List.map_append, List.take_append_drop])


/-- **Counterexample to the assumption for redb 2.6.3's `end_repair`** (known finding
    `C22/redb-end-repair-double-crash`, reproduced on the real redb by
    `corpus/C22/redb-end-repair-double-crash.ops`).  A medium left by a FIRST crash (database was
    open: header says recovery required, on-disk allocator state stale) shows its committed
    state; a SECOND crash inside the single flush of the repair, with the header write surviving
    and the allocator write lost, leaves a medium that cannot be opened at all.  So this backend
    does not satisfy `AtomicDurableCommit`, and the full statement of C22 fails for it: no prefix
    of the history explains "unopenable".  (`crash_prefix_partial` is untouched: it assumes
    `AtomicDurableCommit`.) -/
theorem redb_end_repair_counterexample :
    let B := endRepairBackend
    let m : Medium := ⟨5, false, true⟩        -- after the first crash
    let m' : Medium := ⟨5, false, false⟩      -- second crash inside `end_repair`: header kept, allocator state lost
    B.view m = some 5 ∧ B.crashInTx m m' ∧ B.view m' = none ∧
    ¬ AtomicDurableCommit B ∧ ¬ FullStatement (ε := Unit) B := by
  intro B m m'
  have hcr : B.crashInTx m m' := ⟨false, true, rfl⟩
  have hv : B.view m = some 5 := rfl
  have hv' : B.view m' = none := rfl
  refine ⟨hv, hcr, hv', ?_, ?_⟩
  · intro h
    have := h.crash_tx_invisible m m' hcr
    rw [hv, hv'] at this
    cases this
  · intro h
    let op : Op (Option Nat) Unit := fun s => .ok s
    obtain ⟨k, _, _, hk⟩ := h m [op] m' 0 (CrashImage.inClosure (B := B) [] [] op m' rfl hcr)
    have hrun : ∀ k, runAbs (B.view m) (([op] : List (Op (Option Nat) Unit)).take k) = some 5 := by
      intro k
      cases k with
      | zero => rfl
      | succ k => simp [List.take_succ_cons, runAbs, applyOp, op, hv]
    rw [hv', hrun k] at hk
    cases hk

end AuditRaw
/-! END SECTION AUDIT -/

end Lumina.Props.C22

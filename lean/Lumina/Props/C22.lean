/-
  C22 — The persistent store survives crashes at any point.   PROPERTY THEOREMS ONLY.

  PARTIAL PROOF BY DESIGN.  Full statement (`FullStatement` below): for the REAL redb file
  format and any crash, reopening succeeds and shows the state after a prefix of the history
  containing every acknowledged operation, with consistent indexes.  What is PROVED here is
  lumina's part: because every store operation is exactly ONE write transaction
  (`Crash.writeTx`), then for every backend `B`, every history of arbitrary operations, every
  crash point (between operations, inside a closure, inside `commit`, inside `abort`):

      AtomicDurableCommit B  →  the reopened state is the state after a prefix of length
                                 `returned` or `returned + 1` of the history.

  `AtomicDurableCommit B` (redb + file system: committed ⇒ durable and entirely visible,
  uncommitted ⇒ invisible, crash inside commit ⇒ all or nothing) is an explicit HYPOTHESIS,
  not an axiom and not proved: no Lean model of lumina can exhibit a torn page.  The harness
  validates it against the real redb with a fault-injecting `StorageBackend`
  (harness/src/bin/c22.rs); that enumeration supports the hypothesis, it is not the proof.

  Operations are arbitrary functions `σ → Except ε σ`; the index-consistency clause is carried
  by an arbitrary invariant `Inv` preserved by the operations (for the real operations that
  preservation is C19–C21).
-/
import Lumina.Proofs.Crash

namespace Lumina.Props.C22
open Lumina.Model.Crash Lumina.Proofs.Crash
open Lumina.Spec.C22 (specCrash specCrashSharp)

variable {D σ ε : Type}

/-- The full property, for a backend `B` standing for the real redb + file system: NO
    atomicity hypothesis.  Not provable in Lean for the real redb (it is a statement about
    redb's file format and the OS); proved below under `AtomicDurableCommit B`
    (`crash_prefix_partial`). -/
def FullStatement (B : Backend D σ) : Prop :=
  ∀ (d₀ : D) (ops : List (Op σ ε)) (d' : D) (n : Nat), CrashImage B d₀ ops d' n →
    ∃ k, n ≤ k ∧ k ≤ ops.length ∧ B.view d' = runAbs (B.view d₀) (ops.take k)

/-- without a crash the disk refines the abstract history: same final state, same results -/
theorem run_refines (B : Backend D σ) (h : AtomicDurableCommit B) (d : D) (ops : List (Op σ ε)) :
    B.view (runDisk B d ops) = runAbs (B.view d) ops ∧
    runResults B d ops = resultsAbs (B.view d) ops :=
  ⟨runDisk_view B h d ops, runResults_eq B h d ops⟩

/-- **crash_prefix** (the proved part of C22).  Whatever the operations are and wherever the
    crash hits, the image left behind shows the state after the first `k` operations, where
    `k` is the number `n` of operations that had returned, or `n + 1` (the one in flight). -/
theorem crash_prefix_partial (B : Backend D σ) (h : AtomicDurableCommit B) (d₀ : D)
    (ops : List (Op σ ε)) (d' : D) (n : Nat) (hc : CrashImage B d₀ ops d' n) :
    ∃ k, n ≤ k ∧ k ≤ n + 1 ∧ k ≤ ops.length ∧ B.view d' = runAbs (B.view d₀) (ops.take k) := by
  cases hc with
  | idle pre post hops =>
    refine ⟨pre.length, Nat.le_refl _, Nat.le_succ _, by simp [hops], ?_⟩
    rw [hops, take_length_append, runDisk_view B h]
  | inClosure pre post op d' hops hcr =>
    refine ⟨pre.length, Nat.le_refl _, Nat.le_succ _, by simp [hops], ?_⟩
    rw [hops, take_length_append, h.crash_tx_invisible _ _ hcr, runDisk_view B h]
  | inAbort pre post op e d' hops hop hcr =>
    refine ⟨pre.length, Nat.le_refl _, Nat.le_succ _, by simp [hops], ?_⟩
    rw [hops, take_length_append, h.crash_abort_invisible _ _ hcr, runDisk_view B h]
  | inCommit pre post op w d' hops hop hcr =>
    rcases h.crash_commit_atomic _ _ _ hcr with hold | hnew
    · refine ⟨pre.length, Nat.le_refl _, Nat.le_succ _, by simp [hops], ?_⟩
      rw [hops, take_length_append, hold, runDisk_view B h]
    · refine ⟨pre.length + 1, Nat.le_succ _, Nat.le_refl _, by simp [hops], ?_⟩
      rw [hops, take_succ_append, runAbs_snoc, hnew]
      rw [runDisk_view B h] at hop
      simp [applyOp, hop]

/-- under the assumption the full statement holds -/
theorem full_statement_of_atomic (B : Backend D σ) (h : AtomicDurableCommit B) :
    FullStatement (ε := ε) B := by
  intro d₀ ops d' n hc
  obtain ⟨k, h1, _, h3, h4⟩ := crash_prefix_partial B h d₀ ops d' n hc
  exact ⟨k, h1, h3, h4⟩

/-- the spec's checker accepts every crash image of the model: the observed state is among the
    states after the prefixes of length ≥ `n` (even: among the first two of them) -/
theorem crash_spec [BEq σ] [LawfulBEq σ] (B : Backend D σ) (h : AtomicDurableCommit B) (d₀ : D)
    (ops : List (Op σ ε)) (d' : D) (n : Nat) (hc : CrashImage B d₀ ops d' n) :
    specCrashSharp (prefixStates (B.view d₀) ops) n true (B.view d') = true ∧
    specCrash (prefixStates (B.view d₀) ops) n true (B.view d') = true := by
  obtain ⟨k, h1, h2, h3, h4⟩ := crash_prefix_partial B h d₀ ops d' n hc
  have hget := prefixStates_get (B.view d₀) ops k h3
  rw [← h4] at hget
  have hmem : B.view d' ∈ ((prefixStates (B.view d₀) ops).drop n).take 2 := by
    rw [List.mem_iff_getElem?]
    refine ⟨k - n, ?_⟩
    rw [List.getElem?_take]
    have : k - n < 2 := by omega
    simp only [this, ↓reduceIte, List.getElem?_drop]
    rw [show n + (k - n) = k by omega]
    exact hget
  constructor
  · simp only [specCrashSharp, Bool.true_and, List.any_eq_true, beq_iff_eq]
    exact ⟨_, hmem, rfl⟩
  · simp only [specCrash, Bool.true_and, List.any_eq_true, beq_iff_eq]
    exact ⟨_, List.mem_of_mem_take hmem, rfl⟩

/-- what the callers saw before the crash is exactly what the abstract history returns for the
    operations that had returned: every acknowledged operation is inside the surviving prefix
    (`n ≤ k`) and was acknowledged with its abstract result -/
theorem acked_results (B : Backend D σ) (h : AtomicDurableCommit B) (d₀ : D) (pre post : List (Op σ ε)) :
    runResults B d₀ (pre ++ post) = resultsAbs (B.view d₀) (pre ++ post) ∧
    (runResults B d₀ pre) = resultsAbs (B.view d₀) pre :=
  ⟨runResults_eq B h d₀ _, runResults_eq B h d₀ _⟩

/-- **Reopening succeeds and the indexes are consistent.**  `Inv` is any invariant of the
    logical state that the initial state has and every operation of the history preserves
    (index consistency, by C19–C21); `openOp` is `RedbStore::new`'s own transaction, which
    succeeds and changes nothing on states satisfying `Inv` (C23: `open_idempotent`).  Then
    after ANY crash, reopening returns `Ok`, and the reopened store shows the state after a
    prefix of length `n` or `n+1`, which satisfies `Inv`. -/
theorem crash_reopen_partial (B : Backend D σ) (h : AtomicDurableCommit B) (d₀ : D)
    (ops : List (Op σ ε)) (d' : D) (n : Nat) (hc : CrashImage B d₀ ops d' n)
    (Inv : σ → Prop) (openOp : Op σ ε)
    (hinit : Inv (B.view d₀))
    (hpres : ∀ op ∈ ops, ∀ s s', Inv s → op s = .ok s' → Inv s')
    (hopen : ∀ s, Inv s → openOp s = .ok s) :
    (reopen B openOp d').2 = .ok () ∧
    ∃ k, n ≤ k ∧ k ≤ n + 1 ∧ k ≤ ops.length ∧
      B.view (reopen B openOp d').1 = runAbs (B.view d₀) (ops.take k) ∧
      Inv (B.view (reopen B openOp d').1) := by
  obtain ⟨k, h1, h2, h3, h4⟩ := crash_prefix_partial B h d₀ ops d' n hc
  have hinv : Inv (B.view d') := by
    rw [h4]
    exact runAbs_inv Inv _ (fun op ho => hpres op (List.mem_of_mem_take ho)) _ hinit
  have hop := hopen _ hinv
  have hview : B.view (reopen B openOp d').1 = B.view d' := by
    unfold reopen; rw [writeTx_view B h]; simp [applyOp, hop]
  refine ⟨?_, k, h1, h2, h3, ?_, ?_⟩
  · unfold reopen; rw [writeTx_result]; simp [resultOf, hop]
  · rw [hview, h4]
  · rw [hview]; exact hinv

/-! ### any number of crashes -/

/-- `Lives B d incs d'`: starting from image `d`, the process lives through the incarnations
    `incs` — in each one it runs some operations (the first of which is the reopen transaction)
    and crashes when `n` of them had returned — and ends with image `d'`. -/
inductive Lives (B : Backend D σ) : D → List (List (Op σ ε) × Nat) → D → Prop where
  | nil (d : D) : Lives B d [] d
  | cons (d d1 d2 : D) (ops : List (Op σ ε)) (n : Nat) (rest : List (List (Op σ ε) × Nat))
      (hc : CrashImage B d ops d1 n) (hr : Lives B d1 rest d2) : Lives B d ((ops, n) :: rest) d2

/-- `eff` is made of one surviving prefix per incarnation, each containing every operation that
    had returned in that incarnation and at most the one in flight -/
def SurvivingPrefixes : List (List (Op σ ε) × Nat) → List (Op σ ε) → Prop
  | [], eff => eff = []
  | (ops, n) :: rest, eff =>
    ∃ k eff', n ≤ k ∧ k ≤ n + 1 ∧ k ≤ ops.length ∧ SurvivingPrefixes rest eff' ∧ eff = ops.take k ++ eff'

/-- after any number of crash/reopen cycles the state is the result of running, in order, a
    surviving prefix of every incarnation's operations -/
theorem crash_multi_partial (B : Backend D σ) (h : AtomicDurableCommit B) (d d' : D)
    (incs : List (List (Op σ ε) × Nat)) (hl : Lives B d incs d') :
    ∃ eff, SurvivingPrefixes incs eff ∧ B.view d' = runAbs (B.view d) eff := by
  induction hl with
  | nil d => exact ⟨[], rfl, rfl⟩
  | cons d d1 d2 ops n rest hc _ ih =>
    obtain ⟨k, h1, h2, h3, h4⟩ := crash_prefix_partial B h d ops d1 n hc
    obtain ⟨eff', hs, hv⟩ := ih
    refine ⟨ops.take k ++ eff', ⟨k, eff', h1, h2, h3, hs, rfl⟩, ?_⟩
    rw [runAbs_append, ← h4, hv]

/-! ### the assumption is satisfiable, the theorem is not vacuous, the discipline matters -/

/-- the ideal backend meets the assumption -/
theorem ideal_atomic (σ : Type) : AtomicDurableCommit (idealBackend σ) where
  commit_visible := fun _ _ => rfl
  abort_invisible := fun _ => rfl
  crash_tx_invisible := fun _ _ h => by simpa [idealBackend] using h
  crash_commit_atomic := fun _ _ _ h => by simpa [idealBackend] using h
  crash_abort_invisible := fun _ _ h => by simpa [idealBackend] using h

/-- so does a backend whose images carry arbitrary uncommitted garbage -/
theorem journal_atomic (σ : Type) : AtomicDurableCommit (journalBackend σ) where
  commit_visible := fun _ _ => rfl
  abort_invisible := fun _ => rfl
  crash_tx_invisible := fun _ _ h => h
  crash_commit_atomic := fun d w d' h => by
    rcases h with h | h
    · exact Or.inl h
    · right; simp [journalBackend, h]
  crash_abort_invisible := fun _ _ h => h

/-- a backend that tears commits (keeps HALF of a pair) violates the assumption — the
    hypothesis has content -/
theorem torn_not_atomic :
    ¬ AtomicDurableCommit
      ({ idealBackend (Nat × Nat) with
         crashInCommit := fun d w d' => d' = (w.1, d.2) } : Backend (Nat × Nat) (Nat × Nat)) := by
  intro h
  have := h.crash_commit_atomic (0, 0) (1, 1) (1, 0) rfl
  simp [idealBackend] at this

/-- **The discipline matters**: an operation implemented as TWO transactions has, without a
    crash, the same effect as the single-transaction one, but the image between its two
    transactions is not the state after any prefix of the history — `crash_prefix` is about
    `writeTx`, i.e. about lumina keeping each operation inside one transaction. -/
theorem two_transactions_counterexample :
    let B := idealBackend Nat
    let half : Op Nat Unit := fun s => .ok (s + 1)
    let whole : Op Nat Unit := fun s => .ok (s + 2)
    (writeTx2 B 0 half half).1 = (writeTx B 0 whole).1 ∧
    B.view (writeTx B 0 half).1 ∉ prefixStates 0 [whole] := by
  decide

/-- a concrete crash image meeting the hypotheses of `crash_prefix_partial`: three counter
    increments, crash inside the commit of the second one, new value already visible -/
example :
    let B := idealBackend Nat
    let inc : Op Nat Unit := fun s => .ok (s + 1)
    CrashImage B 0 [inc, inc, inc] 2 1 := by
  intro B inc
  exact CrashImage.inCommit (B := B) [inc] [inc] inc 2 2 rfl rfl (Or.inr rfl)

/-- … and a failing operation in flight (aborted), on the garbage-carrying backend -/
example :
    let B := journalBackend Nat
    let inc : Op Nat Unit := fun s => .ok (s + 1)
    let bad : Op Nat Unit := fun _ => .error ()
    CrashImage B (0, []) [inc, bad] (1, [7, 7]) 1 := by
  intro B inc bad
  exact CrashImage.inAbort (B := B) [inc] [] bad () (1, [7, 7]) rfl rfl rfl

end Lumina.Props.C22

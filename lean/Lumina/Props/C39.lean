/-
  C39 — Peer tracker counts match peer states.   PROPERTY THEOREMS ONLY.

  Model: `Lumina/Model/PeerTracker.lean` (state machine `init` / `step : State → Event → State × Out`
  transcribing every `&mut self` method of `node/src/peer_tracker.rs`; passage of time is the
  event `advance`).  Spec: `Lumina/Spec/C39.lean` (decidable checkers over the OBSERVED tracker).
  `viewPeers` / `viewInfo` (`Model/PeerTrackerView.lean`) project a model state onto what the spec
  observes.  Every theorem quantifies over ALL event histories (`evs : List Event`, any length,
  any peer / connection / tag numbers, any agent strings).
-/
import Lumina.Proofs.PeerTracker

namespace Lumina.Props.C39
open Lumina.Model.PeerTracker Lumina.Proofs.PeerTracker Lumina.Spec.C39

/-- the generated constant is the number the code states: peers expire after 120 s -/
theorem expired_after_eq :
    Lumina.Gen.C39.EXPIRED_AFTER = 120 * 1000000000 ∧ expiredAfterSecs = 120 := by decide

/-- **the published peer statistics equal a recount of the tracked peers** — after any history -/
theorem info_matches_recount (evs : List Event) :
    specInfo (viewPeers (run init evs)) (viewInfo (run init evs).info) = true := by
  have h := (inv_run init evs inv_init).info
  simp only [specInfo, viewPeers, viewInfo, h, stats, recountObs, beq_iff_eq]
  congr 1
  · exact (length_filter_view _ _ view_connected _).symm
  · exact (length_filter_view _ _ (by intro p; show ((viewPeer p).connected && _) = _; rw [view_connected]; rfl) _).symm
  · exact (length_filter_view _ _ (by intro p; show ((viewPeer p).connected && _) = _; rw [view_connected]; rfl) _).symm
  · exact (length_filter_view _ _ (by intro p; show ((viewPeer p).connected && _) = _; rw [view_connected]; rfl) _).symm

/-- **the per-tag protected counts equal the number of peers protected with that tag** — for
    every tag, after any history (`protectedLen` is the model of `protected_len`) -/
theorem protected_counts_match (evs : List Event) (tag : Nat) :
    specProtected (viewPeers (run init evs)) tag (protectedLen (run init evs) tag) = true := by
  have h := (inv_run init evs inv_init).counts tag
  simp only [specProtected, viewPeers, protectedLen, beq_iff_eq]
  rw [length_filter_view _ (fun p => p.prot.contains tag) (by intro p; rfl)]
  exact h

/-- **garbage collection never forgets a connected or protected peer** — from ANY state (reachable
    or not) every connected or protected peer is still tracked, with unchanged observable
    state, after `gc` -/
theorem gc_never_forgets (s : State) :
    specGc (viewPeers s) (viewPeers (step s .gc).1) = true := by
  simp only [specGc, viewPeers, step, gc, List.all_eq_true, List.mem_map, forall_exists_index, and_imp,
    forall_apply_eq_imp_iff₂]
  intro p hp
  split
  · rename_i hk
    simp only [List.contains_eq_mem, List.mem_map, List.mem_filter, decide_eq_true_eq]
    refine ⟨p, ⟨hp, ?_⟩, rfl⟩
    rw [view_connected] at hk
    have : (viewPeer p).protectedAny = p.isProtected := rfl
    rw [this] at hk
    simp only [gcKeeps]
    cases hc : p.isConnected <;> cases hpr : p.isProtected <;> simp_all
  · rfl

/-- the same along histories: a `gc` appended to any history keeps those peers -/
theorem gc_never_forgets_history (evs : List Event) :
    specGc (viewPeers (run init evs)) (viewPeers (run init (evs ++ [.gc]))) = true := by
  have : run init (evs ++ [.gc]) = (step (run init evs) .gc).1 := by
    simp [run, List.foldl_append]
  rw [this]
  exact gc_never_forgets _

/-- no peer is tracked twice, after any history -/
theorem tracked_peers_distinct (evs : List Event) :
    specDistinct (viewPeers (run init evs)) = true := by
  have h := (inv_run init evs inv_init).nodup
  simp only [specDistinct, List.all_eq_true, beq_iff_eq]
  intro o ho
  apply filter_same_key_length (fun o : ObsPeer => o.id) _ _ o ho
  simp only [viewPeers, List.map_map]; exact h

/-- the `expect("protected flag was set but not counted")` and the `usize` underflow in `unprotect`
    are unreachable: no event panics after any history -/
theorem never_panics (evs : List Event) (e : Event) :
    (step (run init evs) e).2.panic = false :=
  step_no_panic _ e (inv_run init evs inv_init)

/-- only garbage collection forgets peers: every other event keeps every tracked peer id -/
theorem only_gc_forgets (s : State) (e : Event) (he : e ≠ .gc) :
    ∀ x ∈ ids s.peers, x ∈ ids (step s e).1.peers := by
  intro x hx
  cases e with
  | gc => exact (he rfl).elim
  | addPeerId id =>
    simp only [step, addPeerId]
    split
    · exact hx
    · simp only [ids, List.map_append, List.mem_append]; exact Or.inl hx
  | setTrusted id v =>
    simp only [step, setTrusted]; apply upsert_ids_sub _ _ _ _ x hx; intro p; rfl
  | protect id tag =>
    simp only [step, protect]; apply upsert_ids_sub _ _ _ _ x hx; intro p; rfl
  | unprotect id tag =>
    simp only [step, unprotect]
    split
    · exact hx
    · split
      · split <;> (simp only; rw [modify_ids]; exact hx; intro p; rfl)
      · simp only; rw [modify_ids]; exact hx; intro p; rfl
  | addConnection id c =>
    simp only [step, addConnection]
    split <;> (simp only; apply upsert_ids_sub _ _ _ _ x hx; intro p; rfl)
  | removeConnection id c =>
    simp only [step, removeConnection]
    split
    · exact hx
    · split <;> (simp only; rw [modify_ids]; exact hx; intro p; rfl)
  | agentVersion id a =>
    simp only [step, onAgentVersion]
    split
    · exact hx
    · split
      · simp only; rw [modify_ids]; exact hx; intro p; rfl
      · exact hx
  | ping id c r =>
    simp only [step, onPing]; rw [modify_ids]; exact hx; intro p; rfl
  | markArchival id =>
    simp only [step, markArchival]; apply upsert_ids_sub _ _ _ _ x hx; intro p; rfl
  | advance secs =>
    simp only [step, advance, ids, List.map_map]; exact hx

/-! ### non-vacuity: a concrete history exercising every kind of event -/

def sampleHistory : List Event :=
  [.addConnection 1 10, .addConnection 1 11, .setTrusted 1 true, .protect 2 0, .protect 1 0, .protect 1 3,
   .addConnection 2 20, .markArchival 2,
   .removeConnection 1 10, .addConnection 3 30, .removeConnection 3 30, .unprotect 1 0,
   .advance 200, .gc]

/-- after the sample history: peer 1 (connected, trusted, protected with tag 3) and peer 2
    (connected, archival, protected with tag 0) remain, peer 3 expired and was collected -/
example : ((run init sampleHistory).info, protectedLen (run init sampleHistory) 0,
           protectedLen (run init sampleHistory) 3, ids (run init sampleHistory).peers)
          = (⟨2, 1, 0, 1⟩, 1, 1, [1, 2]) := by decide

/-- `gc` really does forget expired, unprotected, disconnected peers (the theorem is not vacuous) -/
example : ids (run init (sampleHistory.dropLast)).peers = [1, 2, 3] := by decide

end Lumina.Props.C39

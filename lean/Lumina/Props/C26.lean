/-
  C26 — A header session returns exactly the requested range.   PROPERTY THEOREMS ONLY.

  Model: Lumina/Model/Session.lean (`HeaderSession`), instantiated with the constants generated
  from node/src/p2p/header_session.rs.  The scheduler (order of completion of the concurrent
  requests, and what each peer answers) is an ARBITRARY list of events `evs`; `Admissible` is the
  property's own assumption on it: every event answers an outstanding request either with a
  prefix (possibly empty) of the requested headers or with a header-ex error.  No bound on the
  range, on the number of events, or on their order.

  The spec (Lumina/Spec/C26.lean) is evaluated with the tracker `track`, folded over the events
  exactly as the driver does on the implementation's side.
-/
import Lumina.Proofs.Session
import Lumina.Gen.C26
import Lumina.Spec.C26

namespace Lumina.Props.C26
open Lumina.Model.Session Lumina.Proofs.Session Lumina.Spec.C26

variable {α : Type}

/-- the session configuration read from the source on every run -/
def cfg : Cfg :=
  { minAmount := Lumina.Gen.C26.MIN_AMOUNT_PER_REQ, maxAmount := Lumina.Gen.C26.MAX_AMOUNT_PER_REQ,
    maxConcurrent := Lumina.Gen.C26.MAX_CONCURRENT_REQS }

/-- the generated constants are the numbers the property (and the batching rule) state -/
theorem consts_eq : cfg.maxAmount = 64 ∧ cfg.minAmount = 8 ∧ cfg.maxConcurrent = 8 := by decide

/-- a requested range: non-empty, heights start at 1 and fit `u64` -/
def ValidRange (r : Range) : Prop := 1 ≤ r.1 ∧ r.1 ≤ r.2 ∧ r.2 ≤ U64_MAX

/-- the spec-side tracker after a schedule (what the peers delivered), as the driver folds it -/
def track (ht : α → Nat) : Track → List (Ev α) → Track
  | t, [] => t
  | t, .ok h a hs :: evs => track ht (t.deliver h a (hs.map ht)) evs
  | t, .err _ _ :: evs => track ht t evs
  | t, .fatal _ _ :: evs => track ht t evs

/-- generalisation used by the proofs below: tracker vs. model state along a schedule -/
theorem track_run (ht : α → Nat) (evs : List (Ev α)) :
    ∀ (s : State α) (t : Track), s.status = .running →
      t.received = s.responses.flatten.map ht → t.admissible = true → Admissible ht s evs →
      (run s evs).status = .running →
      (track ht t evs).received = (run s evs).responses.flatten.map ht ∧
      (track ht t evs).admissible = true ∧
      (track ht t evs).first = t.first ∧ (track ht t evs).last = t.last := by
  induction evs with
  | nil => intro s t _ h1 h2 _ _; exact ⟨h1, h2, rfl, rfl⟩
  | cons ev evs ih =>
    intro s t hrun h1 h2 hadm hfin
    have hstep_running : (step s ev).status = .running := by
      -- a non-running state is absorbing
      by_cases h : (step s ev).status = .running
      · exact h
      · exfalso
        have habs : ∀ (l : List (Ev α)) (s' : State α), s'.status ≠ .running → (run s' l).status ≠ .running := by
          intro l
          induction l with
          | nil => intro s' h'; exact h'
          | cons e l ihl =>
            intro s' h'
            have : step s' e = s' := by simp [step, h']
            simp only [run, List.foldl_cons, this]
            exact ihl s' h'
        exact habs evs (step s ev) h hfin
    cases ev with
    | fatal h a => exact absurd hadm.1 (by simp [AdmissibleEv])
    | err h a =>
      have hm : (h, a) ∈ s.tasks := hadm.1
      have hresp : (step s (.err h a)).responses = s.responses := by
        rw [step_eq s (.err h a) hrun hm]; rfl
      have := ih (step s (.err h a)) t hstep_running (by rw [hresp]; exact h1) h2 hadm.2 hfin
      simpa [track, run] using this
    | ok h a hs =>
      obtain ⟨hm, hlen, hpre⟩ := hadm.1
      have hresp : (step s (.ok h a hs)).responses.flatten.map ht
          = s.responses.flatten.map ht ++ hs.map ht := by
        rw [step_eq s (.ok h a hs) hrun hm]
        have hsn : ∀ (x : State α), (sendNextRequest x).responses = x.responses := by
          intro x
          rcases sendNextRequest_cases x with ⟨_, he⟩ | ⟨b, _, he⟩ <;> rw [he] <;> rfl
        by_cases h0 : 0 < hs.length
        · simp only [if_pos h0]
          split
          · split <;> simp [sendRequest]
          · simp [hsn]
        · have hz : hs = [] := by
            cases hs with
            | nil => rfl
            | cons _ _ => simp at h0
          simp only [if_neg h0]
          split
          · split <;> simp [sendRequest, hz]
          · simp [hsn, hz]
      have hadm' : (t.deliver h a (hs.map ht)).admissible = true := by
        simp [Track.deliver, h2, isPrefixOfRequest, hlen, hpre]
      have := ih (step s (.ok h a hs)) (t.deliver h a (hs.map ht)) hstep_running
        (by rw [hresp]; simp [Track.deliver, h1]) hadm' hadm.2 hfin
      simpa [track, run, Track.deliver] using this

/-- **Invariant, all schedules**: after any admissible schedule the session is still running (no
    panic, no failure), the heights in `to_fetch`, in outstanding requests and in received headers
    are exactly the requested range, each once, and all 8 request slots are busy while anything is
    left in `to_fetch`. -/
theorem session_inv (ht : α → Nat) (r : Range) (hr : ValidRange r) (evs : List (Ev α))
    (hadm : Admissible ht (init cfg r) evs) :
    Inv ht 64 r (run (init cfg r) evs) ∧ Full 8 (run (init cfg r) evs) := by
  have h0 := inv_init ht cfg r (by decide) hr
  exact inv_run ht 64 8 r ⟨hr.2.1, hr.2.2⟩ evs _ h0.1 h0.2 hadm

/-- the heights accounted for are a permutation of the range: a partition, each height once -/
theorem session_partition (ht : α → Nat) (r : Range) (hr : ValidRange r) (evs : List (Ev α))
    (hadm : Admissible ht (init cfg r) evs) :
    (heights ht (run (init cfg r) evs)).Perm (List.range' r.1 (r.2 - r.1 + 1)) := by
  have := (session_inv ht r hr evs hadm).1.count
  rw [rangeLen_pos hr.2.1] at this
  exact List.perm_iff_count.mpr this

/-- **Requests, all schedules**: every outstanding request — in particular every request issued
    by the last step (`issued_mem`) — is a non-empty sub-range of the not-yet-received heights of
    the requested range, of at most 64 headers (the spec's `specRequest`, with the tracker folded
    over the schedule). -/
theorem session_requests (ht : α → Nat) (r : Range) (hr : ValidRange r) (evs : List (Ev α))
    (hadm : Admissible ht (init cfg r) evs) :
    specRequests (track ht (Track.start r.1 r.2) evs) (run (init cfg r) evs).tasks = true := by
  obtain ⟨hinv, _⟩ := session_inv ht r hr evs hadm
  have h0 := inv_init ht cfg r (by decide) hr
  have htr := track_run ht evs (init cfg r) (Track.start r.1 r.2) h0.1.running
    (by
      have : (init cfg r : State α).responses = [] := by
        have hc := h0.1.count
        rw [init_eq cfg r hr]
        have : ∀ n (s : State α), s.responses = [] → (Nat.repeat sendNextRequest n s).responses = [] := by
          intro n
          induction n with
          | zero => intro s h; exact h
          | succ n ih =>
            intro s h
            rw [repeat_succ']
            rcases sendNextRequest_cases (Nat.repeat sendNextRequest n s) with ⟨_, he⟩ | ⟨b, _, he⟩ <;>
              rw [he] <;> simp [sendRequest, ih s h]
        exact this _ _ rfl
      simp [Track.start, this])
    (by simp [Track.start]; exact ⟨hr.1, hr.2.1⟩) hadm hinv.running
  obtain ⟨hrec, _, hfirst, hlast⟩ := htr
  have hfirst' : (track ht (Track.start r.1 r.2) evs).first = r.1 := hfirst
  have hlast' : (track ht (Track.start r.1 r.2) evs).last = r.2 := hlast
  simp only [specRequests, List.all_eq_true]
  intro q hq
  have hamt := hinv.amt q hq
  have hin := task_in_range ht 64 r _ hinv q hq
  rw [rangeLen_pos hr.2.1] at hin
  simp only [specRequest, Bool.and_eq_true, decide_eq_true_eq, List.all_eq_true, Bool.or_eq_true,
    hfirst', hlast']
  have hr1 := hr.2.1
  refine ⟨⟨⟨⟨hamt.1, hamt.2⟩, hin.1⟩, by omega⟩, ?_⟩
  intro x hx
  rw [hrec] at hx
  -- a received height inside the request would be counted twice
  by_cases hlt : x < q.1
  · exact Or.inl hlt
  · right
    by_cases hge : q.1 + q.2 ≤ x
    · exact hge
    · exfalso
      have hc := hinv.count x
      rw [count_heights, count_tasks_erase _ q hq] at hc
      have h1 : 0 < (taskHeights q).count x := by
        apply List.count_pos_iff.mpr
        simp [taskHeights]; omega
      have h2 : 0 < ((run (init cfg r) evs).responses.flatten.map ht).count x :=
        List.count_pos_iff.mpr hx
      have h3 : (List.range' r.1 (rangeLen r)).count x ≤ 1 := by
        rw [List.count_range_1']; split <;> omega
      omega

/-- the requests a step issues are among the outstanding requests of the state it leads to -/
theorem issued_mem (pre : State α) (ev : Ev α) (q : Req) (h : q ∈ issued pre (step pre ev) ev) :
    q ∈ (step pre ev).tasks := by
  unfold issued at h
  split at h
  · exact List.mem_of_mem_drop h
  · simp at h

/-- **Result, all schedules**: a session that completes (`tasks` drained, `run()` returns `Ok`)
    returns every height of the range exactly once in ascending order. -/
theorem session_result (ht : α → Nat) (r : Range) (hr : ValidRange r) (evs : List (Ev α))
    (hadm : Admissible ht (init cfg r) evs) (hdone : finished (run (init cfg r) evs) = true) :
    specResult (track ht (Track.start r.1 r.2) evs) ((result ht (run (init cfg r) evs)).map ht) = true := by
  obtain ⟨hinv, hfull⟩ := session_inv ht r hr evs hadm
  have htasks : (run (init cfg r) evs).tasks = [] := by
    simp only [finished, Bool.and_eq_true, List.isEmpty_iff] at hdone
    exact hdone.2
  have hnf : (run (init cfg r) evs).toFetch = none := by
    cases h : (run (init cfg r) evs).toFetch with
    | none => rfl
    | some tf => have := hfull tf h; rw [htasks] at this; simp at this
  have hres := result_eq ht 64 r _ hinv htasks hnf
  -- the tracker keeps `first`/`last`
  have hfl : ∀ (evs : List (Ev α)) (t : Track),
      (track ht t evs).first = t.first ∧ (track ht t evs).last = t.last := by
    intro evs
    induction evs with
    | nil => intro t; exact ⟨rfl, rfl⟩
    | cons ev evs ih =>
      intro t
      cases ev <;> simp only [track] <;> first | exact ih _ | (have := ih (t.deliver _ _ _); simpa [Track.deliver] using this)
  obtain ⟨hf, hl⟩ := hfl evs (Track.start r.1 r.2)
  have hf' : (track ht (Track.start r.1 r.2) evs).first = r.1 := hf
  have hl' : (track ht (Track.start r.1 r.2) evs).last = r.2 := hl
  simp only [specResult, hf', hl', hres, rangeLen_pos hr.2.1, beq_self_eq_true]

/-- the returned headers are exactly the headers that were received (nothing invented, dropped
    or duplicated by the final sort) -/
theorem session_result_perm (ht : α → Nat) (s : State α) :
    (result ht s).Perm s.responses.flatten := result_perm ht s

/-- **Progress measure**: heights received + heights still owed = length of the range, after every
    admissible schedule; the session is complete exactly when every height has been received.
    Hence every non-empty prefix answer makes strict progress and at most `len` headers are ever
    accepted: the session terminates as soon as the peers have delivered the range. -/
theorem session_progress (ht : α → Nat) (r : Range) (hr : ValidRange r) (evs : List (Ev α))
    (hadm : Admissible ht (init cfg r) evs) :
    (run (init cfg r) evs).responses.flatten.length + remaining (run (init cfg r) evs)
        = r.2 - r.1 + 1 ∧
    (finished (run (init cfg r) evs) = true ↔
      (run (init cfg r) evs).responses.flatten.length = r.2 - r.1 + 1) := by
  obtain ⟨hinv, hfull⟩ := session_inv ht r hr evs hadm
  have hperm := session_partition ht r hr evs hadm
  have hlen := hperm.length_eq
  have hsum : ∀ ts : List Req, (ts.flatMap taskHeights).length = (ts.map (·.2)).sum := by
    intro ts
    induction ts with
    | nil => rfl
    | cons t ts ih => simp [List.flatMap_cons, taskHeights, ih]
  simp only [heights, List.length_append, List.length_map, List.length_range', hsum] at hlen
  have h1 : (run (init cfg r) evs).responses.flatten.length + remaining (run (init cfg r) evs)
      = r.2 - r.1 + 1 := by
    simp only [remaining]; omega
  refine ⟨h1, ?_⟩
  simp only [finished, hinv.running, beq_self_eq_true, Bool.true_and, List.isEmpty_iff]
  constructor
  · intro ht0
    have hnf : (run (init cfg r) evs).toFetch = none := by
      cases h : (run (init cfg r) evs).toFetch with
      | none => rfl
      | some tf => have := hfull tf h; rw [ht0] at this; simp at this
    simp only [remaining, ht0, hnf, fetchHeights] at h1
    simpa using h1
  · intro hall
    have hrem : remaining (run (init cfg r) evs) = 0 := by omega
    simp only [remaining] at hrem
    cases hts : (run (init cfg r) evs).tasks with
    | nil => rfl
    | cons t ts =>
      exfalso
      have := hinv.amt t (by rw [hts]; simp)
      rw [hts] at hrem
      simp at hrem
      omega

/-! ### non-vacuity: concrete admissible schedules -/

/-- range 1..=100: batch size 13, eight requests taken from the top, `1..=9` left to fetch -/
example : (init cfg (1, 100) : State Nat).tasks
    = [(88, 13), (75, 13), (62, 13), (49, 13), (36, 13), (23, 13), (10, 13), (1, 9)] := by decide

/-- an admissible out-of-order schedule with a truncated answer, an empty answer and an error -/
example : Admissible id (init cfg (5, 12) : State Nat)
    [.ok 5 8 [5, 6, 7], .err 8 5, .ok 8 5 [], .ok 8 5 [8, 9, 10, 11, 12]] := by decide

example : result id (run (init cfg (5, 12) : State Nat)
    [.ok 5 8 [5, 6, 7], .err 8 5, .ok 8 5 [], .ok 8 5 [8, 9, 10, 11, 12]]) = [5, 6, 7, 8, 9, 10, 11, 12] := by
  decide

example : ValidRange (5, 12) := by simp [ValidRange, U64_MAX]

end Lumina.Props.C26

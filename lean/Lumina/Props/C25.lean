/-
  C25 — Syncer never re-requests history behind a pruned window edge.

  Statement (properties.jsonl): "The syncer never requests a batch of headers lying below a
  synced header that is older than the sampling window, whether that header is still stored or
  has since been pruned.  In particular, after the pruner removes the header that bounds the
  window, the syncer does not keep re-requesting the gap below it."

  Model: `Lumina.Model.SyncerGate.fetchDecision` (`Worker::fetch_next_batch`, the code AFTER the
  `fix:` commit in /repo) and the transition system `step` around it; checker:
  `Lumina.Spec.C25.specFetch`.  The code BEFORE the fix (`fetchDecisionOld`) violates the
  property (`pre_fix_counterexample`); for it only the stored-bound part holds
  (`pre_fix_stored_or_unsynced_bound_partial`).

  Hypotheses, all explicit:
    * `Inv` of the store's `BlockRanges` values (C17; preserved by every operation of the
      transition system: `history_…` needs it of the initial state only);
    * header times are monotone in the height over the synced heights (what
      `ExtendedHeader::verify` enforces for adjacent headers of the chain the store holds);
    * `inWindow h` of a stored header is the negation of "older than the sampling window".
-/
import Lumina.Proofs.SyncerGate
import Lumina.Proofs.ComposeSyncerGate
import Lumina.Gen.C25

namespace Lumina.Props.C25
open Lumina.Model.Ranges hiding Inv
open Lumina.Model.SyncerGate Lumina.Proofs.SyncerGate Lumina.Proofs.Ranges Lumina.Spec.C25

local notation "RInv" => Lumina.Model.Ranges.Inv

/-- the slow-sync threshold constant the model is instantiated with is the one in the source -/
theorem slow_sync_min_threshold : Lumina.Gen.C25.SLOW_SYNC_MIN_THRESHOLD = 50 := by decide

/-- header times are monotone in the height over the synced (stored or pruned) heights -/
def MonotoneOld (stored pruned : Ranges) (old : Nat → Bool) : Prop :=
  ∀ h1 h2, h1 ≤ h2 → (mem stored h1 ∨ mem pruned h1) → (mem stored h2 ∨ mem pruned h2) →
    old h2 = true → old h1 = true

/-- **C25, one decision.**  For EVERY state the worker can read (any stored / pruned / sampled
    sets, head, batch size, slow-sync height, peers), a batch scheduled by `fetch_next_batch`
    does not lie below any synced header — stored or pruned — that is older than the sampling
    window. -/
theorem fetch_never_below_old_synced_header (slowMin : Nat) (i : GateIn) (old : Nat → Bool) (r : Range)
    (hst : RInv i.stored) (hpr : RInv i.pruned)
    (hwin : ∀ h, mem i.stored h → i.inWindow h = (!old h))
    (hmono : MonotoneOld i.stored i.pruned old)
    (h : fetchDecision slowMin i = .ok (.request r)) :
    specFetch ⟨i.stored, i.pruned, old⟩ (.request r.1 r.2) = true :=
  fetch_request_spec hst hpr (fun x hx hw => by rw [hwin x hx] at hw; simpa using hw) hmono h

/-- stored 250..300 of a 300-chain whose headers up to 200 are old, batch size 20 -/
def exampleSyncing : GateIn where
  ongoing := false
  connectedPeers := 1
  head := some 300
  stored := [(250, 300)]
  pruned := []
  sampled := []
  batchSize := 20
  slowSync := none
  inWindow := fun h => !decide (h ≤ 200)

/-- the situation the property names: the bound 180 of the batch below the store is old and pruned -/
def examplePrunedBound : GateIn where
  ongoing := false
  connectedPeers := 1
  head := some 300
  stored := [(181, 300)]
  pruned := [(180, 180)]
  sampled := []
  batchSize := 50
  slowSync := none
  inWindow := fun h => !decide (h ≤ 200)

/-- the hypotheses are satisfiable by a state in which a request IS scheduled -/
example : fetchDecision 50 exampleSyncing = .ok (.request (230, 249)) := by rfl

/-- … and with the bound pruned and old nothing is requested -/
example : fetchDecision 50 examplePrunedBound = .ok (.idle .boundPruned) := by rfl

/-- **No panic.**  `fetch_next_batch` up to the scheduling of the request has no panic outcome
    (`u64` overflow, `expect`, debug assertion) in any state with well-formed range sets and a
    head below `u64::MAX`. -/
theorem fetch_never_panics (slowMin : Nat) (i : GateIn)
    (hst : RInv i.stored) (hpr : RInv i.pruned) (hsa : RInv i.sampled)
    (hhead : ∀ h, i.head = some h → h < U64_MAX) :
    ∃ d, fetchDecision slowMin i = .ok d :=
  fetch_total hst hpr hsa hhead

/-! ### every history -/

/-- what one output of the transition system must satisfy, judged in the state it was produced in -/
def OutOk (c : Chain) (s : State) : Out → Prop
  | .decision (.request r) => specFetch ⟨s.stored, s.pruned, c.oldS⟩ (.request r.1 r.2) = true
  | .panic => False
  | _ => True

/-- every output along a run is fine -/
def AllOk (slowMin : Nat) (c : Chain) : State → List Op → Prop
  | _, [] => True
  | s, op :: ops => OutOk c s (step slowMin c s op).2 ∧ AllOk slowMin c (step slowMin c s op).1 ops

/-- one step in a well-formed state: whatever the op, its output is fine (the chain `c` is the
    one current at that moment) -/
theorem step_out_ok (slowMin : Nat) (c : Chain)
    (hmono : ∀ h1 h2, h1 ≤ h2 → c.oldS h2 = true → c.oldS h1 = true)
    (s : State) (hg : Good s) (op : Op) : OutOk c s (step slowMin c s op).2 := by
  cases op with
  | fetch keep =>
    have hi : ∃ d, fetchDecision slowMin (gateIn c s) = .ok d :=
      fetch_total hg.stored hg.pruned hg.sampled hg.head
    obtain ⟨d, hd⟩ := hi
    cases d with
    | idle w => simp [step, hd, OutOk]
    | request r =>
      have := fetch_request_spec (old := c.oldS) (i := gateIn c s) hg.stored hg.pruned
        (fun x _ hw => by simpa [gateIn] using hw)
        (fun h1 h2 hle _ _ ho => hmono h1 h2 hle ho) hd
      simp only [step, hd, OutOk]
      exact this
  | insert r => simp only [step]; split <;> trivial
  | prune h => simp only [step]; split <;> trivial
  | sample h => simp only [step]; split <;> trivial
  | setHead h => trivial
  | setSlow h => trivial
  | setPeers n => trivial
  | setBatch n => trivial
  | cancel => trivial
  | deliver ok =>
    simp only [step]
    split
    · trivial
    · split
      · trivial
      · split <;> trivial

/-- **C25, every history.**  Start from any well-formed state (e.g. the empty one) and apply ANY
    finite sequence of: insertions of any range by anybody, pruning of ANY stored height,
    sampling marks, head announcements, slow-sync heights, peer changes, batch-size changes,
    fetch decisions (kept or cancelled), cancellations, delivered or failed batches — in any
    order.  No fetch decision along the run requests a batch below a synced (stored or pruned)
    header older than the sampling window, and none panics.  Only assumption on the chain:
    header age is monotone in the height.  (The clock is frozen along this history; see
    `history_with_ageing_never_below_old_synced_header` for histories in which time passes.) -/
theorem history_never_below_old_synced_header (slowMin : Nat) (c : Chain)
    (hmono : ∀ h1 h2, h1 ≤ h2 → c.oldS h2 = true → c.oldS h1 = true) :
    ∀ (ops : List Op) (s : State), (∀ op ∈ ops, OpWf op) → Good s → AllOk slowMin c s ops
  | [], _, _, _ => trivial
  | op :: ops, s, hwf, hg =>
    ⟨step_out_ok slowMin c hmono s hg op,
     history_never_below_old_synced_header slowMin c hmono ops _
      (fun o ho => hwf o (List.mem_cons_of_mem _ ho)) (step_good hg (hwf op (by simp)))⟩

/-- every output along a run in which TIME PASSES: each op comes with the time classes of the
    headers at the moment it is executed, and its output is judged against those -/
def AllOkAgeing (slowMin : Nat) : State → List (Chain × Op) → Prop
  | _, [] => True
  | s, (c, op) :: rest =>
    OutOk c s (step slowMin c s op).2 ∧ AllOkAgeing slowMin (step slowMin c s op).1 rest

/-- **C25, every history, with the clock running.**  As `history_never_below_old_synced_header`,
    but every operation is executed under its OWN classification of the headers into "older than
    the sampling window" / "at or before the pruning cutoff" (`Chain`): headers age between a
    request and its response, between a pruning and the next decision, … .  The classifications
    need not even be related to one another; each is only assumed monotone in the height.  Every
    fetch decision is judged against the classification current when it is taken. -/
theorem history_with_ageing_never_below_old_synced_header (slowMin : Nat) :
    ∀ (ops : List (Chain × Op)) (s : State),
      (∀ p ∈ ops, (∀ h1 h2, h1 ≤ h2 → p.1.oldS h2 = true → p.1.oldS h1 = true) ∧ OpWf p.2) →
      Good s → AllOkAgeing slowMin s ops
  | [], _, _, _ => trivial
  | (c, op) :: ops, s, hwf, hg =>
    ⟨step_out_ok slowMin c (hwf (c, op) (by simp)).1 s hg op,
     history_with_ageing_never_below_old_synced_header slowMin ops _
      (fun o ho => hwf o (List.mem_cons_of_mem _ ho)) (step_good hg (hwf (c, op) (by simp)).2)⟩

/-- non-vacuity: a request taken while the bound 201 is inside the window (edge 200), thirty days
    pass (edge 230), the batch arrives, the bound 171 of the next batch is now outside: nothing -/
example :
    let c0 : Chain := { oldS := fun h => decide (h ≤ 200), oldP := fun _ => false }
    let c1 : Chain := { oldS := fun h => decide (h ≤ 230), oldP := fun _ => false }
    let ops : List (Chain × Op) :=
      [(c0, .insert (201, 300)), (c0, .setHead 300), (c0, .setPeers 1), (c0, .setBatch 30),
       (c0, .fetch true), (c1, .deliver true), (c1, .fetch false)]
    (ops.foldl (fun (acc : State × List Out) p =>
        let r := step 50 p.1 acc.1 p.2; (r.1, acc.2 ++ [r.2])) ({}, [])).2.drop 4 =
      [.decision (.request (171, 200)), .ok, .decision (.idle .boundOutsideWindow)] := by decide

/-- the initial state of the transition system meets the invariant (non-vacuity of `Good`) -/
example : Good ({} : State) :=
  ⟨inv_nil, inv_nil, inv_nil, (fun _ h => by cases h), (fun _ h => by cases h)⟩

/-- a concrete history reaching the situation of the property: sync 181..300, prune the bound,
    decide — the decision is "nothing" -/
example :
    (run 50 { oldS := fun h => decide (h ≤ 200), oldP := fun h => decide (h ≤ 190) } {}
      [.insert (300, 300), .setHead 300, .setPeers 1, .setBatch 50, .insert (181, 299),
       .prune 181, .fetch false]).2.getLast? = some (.decision (.idle .boundPruned)) := by decide

/-! ### the code before the fix -/

/-- What holds of the code BEFORE the fix (`Err(StoreError::NotFound) => {}`): the property for
    every request whose bounding height `end + 1` is still stored, or was never synced.
    The missing case — bound synced but pruned — is `pre_fix_counterexample`. -/
theorem pre_fix_stored_or_unsynced_bound_partial (slowMin : Nat) (i : GateIn) (old : Nat → Bool) (r : Range)
    (hst : RInv i.stored) (hpr : RInv i.pruned)
    (hwin : ∀ h, mem i.stored h → i.inWindow h = (!old h))
    (hmono : MonotoneOld i.stored i.pruned old)
    (h : fetchDecisionOld slowMin i = .ok (.request r))
    (hb : mem i.stored (r.2 + 1) ∨ ¬ (mem i.stored (r.2 + 1) ∨ mem i.pruned (r.2 + 1))) :
    specFetch ⟨i.stored, i.pruned, old⟩ (.request r.1 r.2) = true :=
  fetch_request_spec_gen hst hpr (fun x hx hw => by rw [hwin x hx] at hw; simpa using hw) hmono h
    (Or.inr hb)

/-- **The property was FALSE of the code before the fix** (finding
    `C25/request-below-pruned-old-bound`, fixed in /repo): chain of 300 headers of which 1..200
    are older than the sampling window, store 181..300, height 180 pruned: the old code requests
    130..179, a batch below the old synced header 180 (and every hypothesis of
    `fetch_never_below_old_synced_header` holds of this state). -/
theorem pre_fix_counterexample :
    ∃ (i : GateIn) (old : Nat → Bool) (r : Range),
      RInv i.stored ∧ RInv i.pruned ∧ (∀ h, i.inWindow h = (!old h)) ∧
      (∀ h1 h2, h1 ≤ h2 → old h2 = true → old h1 = true) ∧
      fetchDecisionOld 50 i = .ok (.request r) ∧
      specFetch ⟨i.stored, i.pruned, old⟩ (.request r.1 r.2) = false := by
  refine ⟨examplePrunedBound, fun h => decide (h ≤ 200), (130, 179),
    inv_of_invB (by decide), inv_of_invB (by decide), fun _ => rfl, ?_, by rfl, by decide⟩
  intro h1 h2 hle h
  simp only [decide_eq_true_eq] at h ⊢
  omega

/-! ### strengthening S7: the fix costs no liveness

  C25 is a "never requests" property; the repaired gate could satisfy it by never requesting
  anything.  The two theorems below (lemmas: `Proofs/ComposeSyncerGate.lean`) show it does not
  withhold anything the sampling window needs; `Props/C38.lean`
  (`converges_under_fairness_with_pruning_partial`) uses them for convergence with the pruner
  running. -/

/-- **The sampling-window gate, including the branch added by the fix, blocks only batches outside
    the window.**  For every state the worker can read with well-formed stored / pruned sets, header
    age monotone in the height, and every pruned height outside the sampling window or with a
    synced height directly below it (what the pruner's safety condition C35 leaves behind): if
    `fetch_next_batch` returns without a request because `get_by_height(end + 1)` is stored and
    outside the window (`boundOutsideWindow`) or — the repaired branch — is `NotFound` for a synced
    height (`boundPruned`), then every height `1 ≤ m ≤ head` that is not synced is outside the
    sampling window. -/
theorem fix_costs_no_liveness (slowMin : Nat) (i : GateIn) (old : Nat → Bool) (w : Idle) (H m : Nat)
    (hst : RInv i.stored) (hpr : RInv i.pruned)
    (hwin : ∀ h, i.inWindow h = !old h)
    (hmono : ∀ h1 h2, h1 ≤ h2 → old h2 = true → old h1 = true)
    (hprh : ∀ p, mem i.pruned p → old p = true ∨ mem i.stored (p - 1) ∨ mem i.pruned (p - 1))
    (h : fetchDecision slowMin i = .ok (.idle w))
    (hw : w = .boundOutsideWindow ∨ w = .boundPruned)
    (hhead : i.head = some H) (hm1 : 1 ≤ m) (hm2 : m ≤ H)
    (hm3 : ¬ (mem i.stored m ∨ mem i.pruned m)) : old m = true :=
  Lumina.Proofs.ComposeSyncerGate.window_gate_blocks_only_outside_window hst hpr hwin hmono hprh h hw
    hhead hm1 hm2 hm3

/-- **Progress of the repaired code with pruned heights and an armed slow-sync height.**  No batch
    ongoing, a peer connected, batch size ≥ 1; pruned heights and the slow-sync height outside the
    sampling window (pruning window ≥ sampling window), some stored height inside it: whenever a
    height `1 ≤ m ≤ head` inside the window is not stored, a request IS scheduled. -/
theorem fetch_progress_with_pruned_heights (slowMin : Nat) (i : GateIn) (old : Nat → Bool) (H m : Nat)
    (hst : RInv i.stored) (hpr : RInv i.pruned) (hong : i.ongoing = false)
    (hpeers : i.connectedPeers ≠ 0) (hhead : i.head = some H) (hH : H < U64_MAX)
    (hbs : 1 ≤ i.batchSize)
    (hwin : ∀ h, i.inWindow h = !old h)
    (hmono : ∀ h1 h2, h1 ≤ h2 → old h2 = true → old h1 = true)
    (hprOld : ∀ p, mem i.pruned p → old p = true)
    (hslow : ∀ h0, i.slowSync = some h0 → old h0 = true)
    (hfresh : ∃ y, mem i.stored y ∧ old y = false)
    (hm1 : 1 ≤ m) (hm2 : m ≤ H) (hm3 : ¬ mem i.stored m) (hm4 : old m = false) :
    ∃ r, fetchDecision slowMin i = .ok (.request r) :=
  Lumina.Proofs.ComposeSyncerGate.gate_progress_pruned hst hpr hong hpeers hhead hH hbs hwin hmono
    hprOld hslow hfresh hm1 hm2 hm3 hm4

/-- non-vacuity: the situation the property names (bound 180 old and pruned, decision
    `boundPruned`) meets the hypotheses of `fix_costs_no_liveness` … -/
example : ∀ p, mem examplePrunedBound.pruned p →
    decide (p ≤ 200) = true ∨ mem examplePrunedBound.stored (p - 1) ∨ mem examplePrunedBound.pruned (p - 1) := by
  rintro p ⟨r, hr, h1, h2⟩
  simp [examplePrunedBound] at hr
  subst hr
  left
  simp at h1 h2 ⊢
  omega

/-- pruned heights 50..60 and an armed slow-sync height 70, all older than the window edge 100;
    101..179 missing and inside the window -/
def examplePrunedBelowWindow : GateIn where
  ongoing := false
  connectedPeers := 1
  head := some 300
  stored := [(180, 300)]
  pruned := [(50, 60)]
  sampled := []
  batchSize := 50
  slowSync := some 70
  inWindow := fun h => !decide (h ≤ 100)

/-- … and the repaired code does request the batch below the stored in-window bound, pruned heights
    and armed slow-sync height notwithstanding (an instance of `fetch_progress_with_pruned_heights`) -/
example : fetchDecision 50 examplePrunedBelowWindow = .ok (.request (130, 179)) := by rfl

end Lumina.Props.C25

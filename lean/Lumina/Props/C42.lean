/-
  C42 — Task join handles resolve exactly when the task ends.   PROPERTY THEOREMS ONLY.   (PARTIAL)

  Model: `Lumina/Model/Tasks.lean`; any number of tasks and cancellation tokens; `Reachable` =
  reachability by ANY list of labels.  What is NOT proved (hypothesis of the whole development, see
  the model's header): that rustc/tokio drop the task future's locals exactly at the `ended`
  transitions — in the model this is the guard-drop step being enabled exactly there.

  FULL STATEMENT (not provable in Lean, it is about rustc/tokio):
    for the real `spawn`/`spawn_cancellable`, `JoinHandle::join` completes iff the task's future
    has completed, panicked, been abandoned by `select!` on cancellation, or been dropped.
-/
import Lumina.Proofs.Tasks

namespace Lumina.Props.C42
open Lumina.Model.Tasks Lumina.Proofs.Tasks
open Lumina.Spec.C42 (Ev specSafe specLive)

/-- "A join handle resolves only after its spawned task has finished, panicked or been cancelled" -/
theorem resolved_only_after_end_partial {s : State} (h : Reachable s) (i : Nat)
    (hj : joinResolves s i = true) : ∃ t how, s.tasks[i]? = some t ∧ t.pc = .ended how := by
  unfold joinResolves at hj
  cases ht : s.tasks[i]? with
  | none => simp [ht] at hj
  | some t =>
    simp only [ht] at hj
    have := (inv_reachable h i t ht).trigEnded hj
    cases hpc : t.pc with
    | ended how => exact ⟨t, how, rfl, hpc⟩
    | ready => simp [hpc, isEnded] at this
    | checked => simp [hpc, isEnded] at this

/-- "…and always resolves after that": in an ended state the guard-drop step is enabled and
    resolves the handle -/
theorem ended_then_resolves_partial {s : State} {i : Nat} {t : MTask} {how : End}
    (ht : s.tasks[i]? = some t) (hpc : t.pc = .ended how) (hn : t.triggered = false) :
    ∃ s', step s (.dropGuard i) = some s' ∧ joinResolves s' i = true := by
  refine ⟨setTask s i { t with triggered := true }, by simp [step, ht, hpc, hn], ?_⟩
  simp [joinResolves, getElem?_setTask, getElem?_lt ht]

/-- a resolved handle stays resolved ("this must return immediately") under every later step -/
theorem resolved_is_stable_partial {s s' : State} {l : Label} (hs : step s l = some s') (i : Nat)
    (hj : joinResolves s i = true) : joinResolves s' i = true := by
  unfold joinResolves at hj ⊢
  cases ht : s.tasks[i]? with
  | none => simp [ht] at hj
  | some t =>
    simp only [ht] at hj
    obtain ⟨t', ht', htr⟩ := step_keeps_triggered hs ht hj
    simp [ht', htr]

/-- "a cancellable task stops when its token is cancelled": its next poll ends it, WITHOUT polling
    the inner future (biased `select!`) -/
theorem cancel_stops_partial {s : State} {i : Nat} {t : MTask} (ht : s.tasks[i]? = some t)
    (hc : t.cancellable = true) (htok : s.cancelled.contains t.tok = true) (hpc : t.pc = .ready) :
    step s (.begin i) = some (setTask s i { t with pc := .ended .cancelled }) := by
  have hm : t.tok ∈ s.cancelled := by simpa using htok
  simp [step, ht, hpc, isCancelled, hc, hm]

/-- … and at most ONE poll of the inner future can begin after the cancellation (the one whose
    cancellation check preceded it), in every reachable state -/
theorem at_most_one_late_poll_partial {s : State} (h : Reachable s) {i : Nat} {t : MTask}
    (ht : s.tasks[i]? = some t) : t.latePolls ≤ 1 ∧ (isCancelled s t = false → t.latePolls = 0) :=
  let g := inv_reachable h i t ht
  ⟨g.lateLe, g.lateZero⟩

/-- every step of a task whose token is cancelled strictly decreases `remaining` (≤ 3) … -/
theorem cancelled_task_variant_partial {s s' : State} {i : Nat} {t t' : MTask} {l : Label}
    (ht : s.tasks[i]? = some t) (hcan : isCancelled s t = true)
    (hl : l = .begin i ∨ (∃ b, l = .inner i b) ∨ l = .abort i ∨ l = .dropGuard i)
    (hs : step s l = some s') (ht' : s'.tasks[i]? = some t') : remaining t' < remaining t := by
  have hlt := getElem?_lt ht
  rcases hl with rfl | ⟨b, rfl⟩ | rfl | rfl
  · simp only [step, ht] at hs
    split at hs
    · rename_i hpc
      cases hs
      simp only [getElem?_setTask, ↓reduceIte, hlt] at ht'
      cases ht'
      simp only [remaining, hpc]
      split <;> omega
    · cases hs
  · simp only [step, ht] at hs
    split at hs
    · rename_i hpc
      cases b <;> simp only at hs <;> cases hs <;>
        simp only [getElem?_setTask, ↓reduceIte, hlt] at ht' <;> cases ht' <;>
        simp only [remaining, hpc] <;> (try split) <;> omega
    · cases hs
  · simp only [step, ht] at hs
    split at hs
    · rename_i hpc
      cases hs
      simp only [getElem?_setTask, ↓reduceIte, hlt] at ht'
      cases ht'
      simp only [remaining, hpc]
      split <;> omega
    · cases hs
  · simp only [step, ht] at hs
    split at hs
    · rename_i how hpc
      split at hs
      · cases hs
      · rename_i hn
        cases hs
        simp only [getElem?_setTask, ↓reduceIte, hlt] at ht'
        cases ht'
        simp [remaining, hpc, hn]
    · cases hs

/-- … and while `remaining > 0` one of its steps is enabled: under weak fairness its join handle
    resolves within 3 of its own steps -/
theorem cancelled_task_progress_partial {s : State} {i : Nat} {t : MTask}
    (ht : s.tasks[i]? = some t) (hr : 0 < remaining t) :
    (step s (.begin i)).isSome = true ∨ (∃ b, (step s (.inner i b)).isSome = true) ∨
      (step s (.dropGuard i)).isSome = true := by
  cases hpc : t.pc with
  | ready =>
    left
    simp only [step, ht, hpc, ↓reduceIte]
    split <;> simp
  | checked =>
    right; left
    exact ⟨.ready, by simp [step, ht, hpc]⟩
  | ended how =>
    right; right
    have : t.triggered = false := by
      cases h : t.triggered with
      | false => rfl
      | true => simp [remaining, hpc, h] at hr
    simp [step, ht, hpc, this]

/-- after the end nothing happens to the task any more: its state stays `ended` and the inner
    future is never polled again -/
theorem ended_is_final_partial {s s' : State} {l : Label} {i : Nat} {t t' : MTask} {how : End}
    (ht : s.tasks[i]? = some t) (hpc : t.pc = .ended how) (hs : step s l = some s')
    (ht' : s'.tasks[i]? = some t') : t'.pc = .ended how ∧ t'.polls = t.polls := by
  have hlt := getElem?_lt ht
  cases l with
  | spawn c tok =>
    simp only [step] at hs
    cases hs
    rw [List.getElem?_append_left hlt, ht] at ht'
    cases ht'
    exact ⟨hpc, rfl⟩
  | cancel tok =>
    simp only [step] at hs
    cases hs
    rw [ht] at ht'
    cases ht'
    exact ⟨hpc, rfl⟩
  | begin k =>
    simp only [step] at hs
    split at hs
    · rename_i tk htk
      split at hs
      · rename_i hk
        by_cases hik : k = i
        · subst hik; rw [ht] at htk; cases htk; rw [hpc] at hk; cases hk
        · split at hs <;> cases hs <;> simp only [getElem?_setTask, hik, ↓reduceIte] at ht' <;>
            (rw [ht] at ht'; cases ht'; exact ⟨hpc, rfl⟩)
      · cases hs
    · cases hs
  | inner k b =>
    simp only [step] at hs
    split at hs
    · rename_i tk htk
      split at hs
      · rename_i hk
        by_cases hik : k = i
        · subst hik; rw [ht] at htk; cases htk; rw [hpc] at hk; cases hk
        · cases b <;> simp only at hs <;> cases hs <;>
            simp only [getElem?_setTask, hik, ↓reduceIte] at ht' <;>
            (rw [ht] at ht'; cases ht'; exact ⟨hpc, rfl⟩)
      · cases hs
    · cases hs
  | abort k =>
    simp only [step] at hs
    split at hs
    · rename_i tk htk
      split at hs
      · rename_i hk
        by_cases hik : k = i
        · subst hik; rw [ht] at htk; cases htk; rw [hpc] at hk; cases hk
        · cases hs
          simp only [getElem?_setTask, hik, ↓reduceIte] at ht'
          rw [ht] at ht'; cases ht'; exact ⟨hpc, rfl⟩
      · cases hs
    · cases hs
  | dropGuard k =>
    simp only [step] at hs
    split at hs
    · rename_i tk htk
      split at hs
      · split at hs
        · cases hs
        · cases hs
          by_cases hik : k = i
          · subst hik
            rw [ht] at htk; cases htk
            simp only [getElem?_setTask, ↓reduceIte, hlt] at ht'
            cases ht'
            exact ⟨hpc, rfl⟩
          · simp only [getElem?_setTask, hik, ↓reduceIte] at ht'
            rw [ht] at ht'; cases ht'; exact ⟨hpc, rfl⟩
      · cases hs
    · cases hs

/-- MODEL ⊨ SPEC (clause 1, over histories): for EVERY run of the model (any number of tasks, any
    interleaving, any length) the trace of events an observer sees — spawns, polls of the inner
    futures, their drops (`ended`), completed cancellations, and joins returning as early as the
    token allows — passes the independent checker `Spec.C42.specSafe`: no `joined i` before
    `ended i`. -/
theorem trace_spec_safe_partial {ls : List Label} {s : State} {tr : List Ev}
    (h : traceOf init ls = some (s, tr)) : specSafe [] tr = true :=
  trace_safe (s := init) (seen := []) (fun i t ht _ => by simp [init] at ht) h

/-- MODEL ⊨ SPEC (clause 2, over histories): for every run that ends with no ended task left
    unresolved (the drop of the task's locals has run for all of them — weak fairness of the
    `dropGuard` steps), the trace passes `Spec.C42.specLive`: every `ended i` has its `joined i`. -/
theorem trace_spec_live_partial {ls : List Label} {s : State} {tr : List Ev}
    (h : traceOf init ls = some (s, tr))
    (hq : ∀ (i : Nat) (t : MTask), s.tasks[i]? = some t → isEnded t.pc = true → t.triggered = true) :
    specLive tr = true := by
  have inv : LiveInv s ([] ++ tr) :=
    live_run (s := init) (pre := []) ⟨by simp, fun i t ht _ => by simp [init] at ht⟩ h
  simp only [List.nil_append] at inv
  unfold specLive
  rw [List.all_eq_true]
  intro e he
  cases e with
  | ended i =>
    obtain ⟨t, ht, hend⟩ := inv.endedOnly i he
    have := inv.joinedAll i t ht (hq i t ht hend)
    simpa using this
  | _ => rfl

/-- non-vacuity of `trace_spec_live_partial`: a run with a finished, a panicked and a cancelled
    task, all resolved -/
example : ∃ s tr, traceOf init [.spawn false 0, .spawn false 0, .spawn true 1, .begin 0, .inner 0 .ready,
      .begin 1, .inner 1 .panic, .cancel 1, .begin 2, .dropGuard 0, .dropGuard 2, .dropGuard 1] = some (s, tr) ∧
    tr = [.spawn 0 false 0, .spawn 1 false 0, .spawn 2 true 1, .poll 0, .ended 0, .poll 1, .ended 1,
          .cancelDone 1, .ended 2, .joined 0, .joined 2, .joined 1] ∧
    Lumina.Spec.C42.specTrace tr = true :=
  ⟨_, _, rfl, rfl, by decide⟩

/-- NEGATIVE CONTROL (non-vacuity): with `let _ = guard;` (the guard dropped at the task's first
    poll instead of living in the future) the join handle resolves while the task is running -/
theorem guard_dropped_early_counterexample :
    ∃ (ls : List Label) (s : State) (t : MTask), runBad init ls = some s ∧ s.tasks[0]? = some t ∧
      joinResolves s 0 = true ∧ t.pc = .checked := by
  exact ⟨[.spawn false 0, .begin 0], _, _, rfl, rfl, rfl, rfl⟩

/-- a state with a cancelled task that received its one late poll, an ended-but-unresolved task,
    and a resolved one -/
def exampleState : State :=
  { tasks := [{ cancellable := true, tok := 0, pc := .ready, triggered := false, polls := 1, latePolls := 1 },
              { cancellable := false, tok := 0, pc := .ended .panicked, triggered := false, polls := 1, latePolls := 0 },
              { cancellable := true, tok := 0, pc := .ended .cancelled, triggered := true, polls := 0, latePolls := 0 }],
    cancelled := [0] }

/-- non-vacuity of the hypotheses: that state is reachable -/
example : Reachable exampleState := by
  have h : run init [.spawn true 0, .spawn false 0, .spawn true 0, .begin 0, .begin 1, .cancel 0,
      .inner 0 .pending, .inner 1 .panic, .begin 2, .dropGuard 2] = some exampleState := by decide
  exact reachable_run Reachable.init h

end Lumina.Props.C42

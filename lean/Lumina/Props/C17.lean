/-
  C17 — BlockRanges behaves as a set of heights.   PROPERTY THEOREMS ONLY.

  Model: `Lumina/Model/Ranges.lean` (every method of `BlockRangeExt` / `BlockRanges`, debug-build
  `u64` arithmetic, `debug_assert!` / `expect` as the outcome `panic`).
  Spec : `Lumina/Spec/C17.lean` (decidable checkers over observed results, independent of the model).

  Every theorem quantifies over ALL values satisfying the representation invariant `Inv`
  (any number of ranges, heights up to 2^64-1), all arguments, and (`histories_*`) all operation
  sequences.  Two shapes are given for every operation:
    * `…_ok`     the unbounded statement (`∀ h`, membership / order / cardinality), and
    * `…_specOK` `spec… input (model input) = true`, the checker the correspondence run also
                 evaluates on the implementation's own results.
-/
import Lumina.Proofs.RangesSpec
import Lumina.Gen.C17

namespace Lumina.Props.C17
open Lumina.Model.Ranges hiding Inv
open Lumina.Proofs.Ranges
open Lumina.Spec.C17

local notation "RInv" => Lumina.Model.Ranges.Inv
local notation "SCanonical" => Lumina.Spec.C17.canonical
local notation "SCard" => Lumina.Spec.C17.card
local notation "PCard" => Lumina.Proofs.Ranges.card

/-! ### the representation is canonical: equal sets have equal representations -/

/-- so "returns what the set operation returns" is *equality of representations* -/
theorem canonical_form {a b : Ranges} (ha : RInv a) (hb : RInv b) (h : ∀ x, mem a x ↔ mem b x) : a = b :=
  Lumina.Proofs.Ranges.canonical ha hb h

/-- the spec's `canonical` is the model's `Inv` -/
theorem spec_canonical_iff (rs : Ranges) : SCanonical rs = true ↔ RInv rs := canonical_iff_inv rs

theorem new_inv : RInv new := inv_nil

/-- the universe of `Not` in the source (`1..=u64::MAX`, regenerated from /repo on every run) is
    the universe of heights the property states: `[1, 2^64 - 1]` -/
theorem consts_eq : Lumina.Gen.C17.NOT_UNIVERSE_START = 1 ∧
    Lumina.Gen.C17.NOT_UNIVERSE_END = 2 ^ 64 - 1 ∧ U64_MAX = 2 ^ 64 - 1 ∧ U64MAX = 2 ^ 64 - 1 := by
  decide

/-! ### construction from a vector -/

theorem chainFrom_iff : ∀ (rest : List Range) (a : Range) (e : Nat),
    chainFrom e (a :: rest) ↔ e < a.1 ∧ acceptableVec (a :: rest) = true
  | [], a, e => by
    simp only [chainFrom, acceptableVec, validR, Bool.and_eq_true, decide_eq_true_eq]
    constructor
    · rintro ⟨h1, h2, _⟩; exact ⟨h2, h1⟩
    · rintro ⟨h2, h1⟩; exact ⟨h1, h2, trivial⟩
  | b :: rest, a, e => by
    have ih := chainFrom_iff rest b a.2
    simp only [chainFrom] at ih ⊢
    simp only [acceptableVec, validR, Bool.and_eq_true, decide_eq_true_eq] at ih ⊢
    constructor
    · rintro ⟨h1, h2, h3⟩
      have := ih.1 h3
      exact ⟨h2, ⟨h1, this.1⟩, this.2⟩
    · rintro ⟨h2, ⟨h1, h3⟩, h4⟩
      exact ⟨h1, h2, ih.2 ⟨h3, h4⟩⟩

theorem chainFrom_zero_iff (v : List Range) : chainFrom 0 v ↔ acceptableVec v = true := by
  cases v with
  | nil => simp [chainFrom, acceptableVec]
  | cons a rest =>
    rw [chainFrom_iff]
    constructor
    · exact fun h => h.2
    · intro h
      refine ⟨?_, h⟩
      cases rest with
      | nil => simp only [acceptableVec, validR, Bool.and_eq_true, decide_eq_true_eq] at h; omega
      | cons b rest => simp only [acceptableVec, validR, Bool.and_eq_true, decide_eq_true_eq] at h; omega

/-- `from_vec`: accepted exactly for valid, strictly increasing, disjoint vectors; the result is
    canonical and denotes the union; the error is the first failing check; never a panic -/
theorem fromVec_specOK (v : List Range) (hb : ∀ r ∈ v, r.2 ≤ U64_MAX) :
    specFromVec v (obsOf (fromVec v)) = true := by
  have hfi : firstInvalid v = v.find? (fun x => !Range.valid x) := by
    simp only [firstInvalid, validR_eq_valid]
  rcases fromVec_cases hb with ⟨hc, out, e, io, mo⟩ | ⟨hc, e | ⟨r, e, hf⟩⟩
  · rw [e]
    simp only [obsOf, specFromVec, (chainFrom_zero_iff v).1 hc, Bool.true_and]
    apply denotes_of io
    intro h
    apply bool_eq_of_iff
    rw [member_iff, member_iff]; exact mo h
  · rw [e]
    have : acceptableVec v = false := by
      rw [← Bool.not_eq_true]; exact fun h => hc ((chainFrom_zero_iff v).2 h)
    simp [obsOf, specFromVec, this]
  · rw [e]
    have : acceptableVec v = false := by
      rw [← Bool.not_eq_true]; exact fun h => hc ((chainFrom_zero_iff v).2 h)
    simp [obsOf, specFromVec, this, hfi, hf]

/-! ### insert / remove -/

theorem insert_ok {rs : Ranges} {r : Range} (hi : RInv rs) (hv : ValidR r) :
    ∃ rs', insertRelaxed rs r = .ok rs' ∧ RInv rs' ∧ ∀ h, mem rs' h ↔ mem rs h ∨ (r.1 ≤ h ∧ h ≤ r.2) :=
  insertRelaxed_spec hi hv

theorem remove_ok {rs : Ranges} {r : Range} (hi : RInv rs) (hv : ValidR r) :
    ∃ rs', removeRelaxed rs r = .ok rs' ∧ RInv rs' ∧ ∀ h, mem rs' h ↔ mem rs h ∧ ¬ (r.1 ≤ h ∧ h ≤ r.2) :=
  removeRelaxed_spec hi hv

theorem inR_iff (r : Range) (h : Nat) : inR r h = true ↔ r.1 ≤ h ∧ h ≤ r.2 := by
  simp [inR]

theorem insert_specOK {rs : Ranges} (hi : RInv rs) (r : Range) (hb : r.2 ≤ U64_MAX) :
    specInsert rs r (obsOf (insertRelaxed rs r)) = true := by
  by_cases hval : Range.valid r = true
  · obtain ⟨out, e, io, mo⟩ := insertRelaxed_spec hi ⟨((valid_iff r).1 hval).1, ((valid_iff r).1 hval).2, hb⟩
    rw [e]
    simp only [obsOf, specInsert, validR_eq_valid, hval, Bool.true_and]
    apply denotes_of io
    intro h
    apply bool_eq_of_iff
    rw [member_iff, Bool.or_eq_true, member_iff, inR_iff]; exact mo h
  · have hval' : Range.valid r = false := by simpa using hval
    rw [insertRelaxed_invalid hval']
    simp [obsOf, specInsert, validR_eq_valid, hval']

theorem remove_specOK {rs : Ranges} (hi : RInv rs) (r : Range) (hb : r.2 ≤ U64_MAX) :
    specRemove rs r (obsOf (removeRelaxed rs r)) = true := by
  by_cases hval : Range.valid r = true
  · obtain ⟨out, e, io, mo⟩ := removeRelaxed_spec hi ⟨((valid_iff r).1 hval).1, ((valid_iff r).1 hval).2, hb⟩
    rw [e]
    simp only [obsOf, specRemove, validR_eq_valid, hval, Bool.true_and]
    apply denotes_of io
    intro h
    apply bool_eq_of_iff
    rw [member_iff, Bool.and_eq_true, member_iff, Bool.not_eq_true', ← Bool.not_eq_true, inR_iff]
    exact mo h
  · have hval' : Range.valid r = false := by simpa using hval
    rw [removeRelaxed_invalid hval']
    simp [obsOf, specRemove, validR_eq_valid, hval']

/-! ### union / difference / intersection / complement -/

theorem union_ok {a b : Ranges} (ha : RInv a) (hb : RInv b) :
    ∃ c, add a b = .ok c ∧ RInv c ∧ ∀ h, mem c h ↔ mem a h ∨ mem b h := add_spec ha hb

theorem difference_ok {a b : Ranges} (ha : RInv a) (hb : RInv b) :
    ∃ c, sub a b = .ok c ∧ RInv c ∧ ∀ h, mem c h ↔ mem a h ∧ ¬ mem b h := sub_spec ha hb

theorem intersection_ok {a b : Ranges} (ha : RInv a) (hb : RInv b) :
    ∃ c, bitAnd a b = .ok c ∧ RInv c ∧ ∀ h, mem c h ↔ mem a h ∧ mem b h := bitAnd_spec ha hb

theorem complement_ok {a : Ranges} (ha : RInv a) :
    ∃ c, bitNot a = .ok c ∧ RInv c ∧ ∀ h, mem c h ↔ (1 ≤ h ∧ h ≤ U64_MAX) ∧ ¬ mem a h := bitNot_spec ha

theorem union_specOK {a b : Ranges} (ha : RInv a) (hb : RInv b) :
    specUnion a b (obsOf (add a b)) = true ∧ specUnion a b (obsOf (bitOr a b)) = true := by
  obtain ⟨c, e, ic, mc⟩ := add_spec ha hb
  have : specUnion a b (obsOf (add a b)) = true := by
    rw [e]
    simp only [obsOf, specUnion]
    apply denotes_of ic
    intro h
    apply bool_eq_of_iff
    rw [member_iff, Bool.or_eq_true, member_iff, member_iff]; exact mc h
  exact ⟨this, this⟩

theorem difference_specOK {a b : Ranges} (ha : RInv a) (hb : RInv b) :
    specDiff a b (obsOf (sub a b)) = true := by
  obtain ⟨c, e, ic, mc⟩ := sub_spec ha hb
  rw [e]
  simp only [obsOf, specDiff]
  apply denotes_of ic
  intro h
  apply bool_eq_of_iff
  rw [member_iff, Bool.and_eq_true, member_iff, Bool.not_eq_true', member_false_iff]; exact mc h

theorem intersection_specOK {a b : Ranges} (ha : RInv a) (hb : RInv b) :
    specInter a b (obsOf (bitAnd a b)) = true := by
  obtain ⟨c, e, ic, mc⟩ := bitAnd_spec ha hb
  rw [e]
  simp only [obsOf, specInter]
  apply denotes_of ic
  intro h
  apply bool_eq_of_iff
  rw [member_iff, Bool.and_eq_true, member_iff, member_iff]; exact mc h

theorem complement_specOK {a : Ranges} (ha : RInv a) :
    specCompl a (obsOf (bitNot a)) = true := by
  obtain ⟨c, e, ic, mc⟩ := bitNot_spec ha
  rw [e]
  simp only [obsOf, specCompl]
  apply denotes_of ic
  intro h
  apply bool_eq_of_iff
  rw [member_iff, Bool.and_eq_true, Bool.and_eq_true, Bool.not_eq_true', member_false_iff,
    decide_eq_true_eq, decide_eq_true_eq]
  exact mc h

/-! ### membership, length, head, tail -/

theorem contains_specOK (rs : Ranges) (h : Nat) : specContains rs h (contains rs h) = true := by
  simp only [specContains, beq_iff_eq]
  apply bool_eq_of_iff
  rw [contains_iff_mem, member_iff]

/-- `len` is the number of heights (`card` = length of the duplicate-free ascending list of
    members), and the `u64` sum does not overflow -/
theorem len_ok {rs : Ranges} (hi : RInv rs) :
    len rs = .ok (heights rs).length ∧ (heights rs).Pairwise (· < ·) ∧ ∀ h, h ∈ heights rs ↔ mem rs h :=
  ⟨by rw [card_eq_length_heights]; exact len_spec hi, heights_sorted hi, mem_heights rs⟩

theorem len_specOK {rs : Ranges} (hi : RInv rs) :
    specLen rs (match len rs with | .ok n => some n | .error _ => none) = true := by
  rw [len_spec hi]
  simp [specLen, spec_card_eq]

theorem isEmpty_specOK {rs : Ranges} (hi : RInv rs) : specIsEmpty rs (isEmpty rs) = true := by
  simp only [specIsEmpty, beq_iff_eq, spec_card_eq]
  apply bool_eq_of_iff
  rw [isEmpty_iff hi, beq_iff_eq, card_eq_zero_iff hi]

theorem head_specOK {rs : Ranges} (hi : RInv rs) : specHead rs (head rs) = true := by
  cases hh : head rs with
  | none =>
    have := head_eq_none_iff.1 hh
    subst this
    simp [specHead, Lumina.Spec.C17.card]
  | some x =>
    obtain ⟨h1, h2⟩ := head_spec hi hh
    simp only [specHead, Bool.and_eq_true, member_iff, List.all_eq_true, decide_eq_true_eq]
    refine ⟨h1, fun r hr => ?_⟩
    have hv := inv_validR hi hr
    exact h2 r.2 ⟨r, hr, hv.2.1, Nat.le_refl _⟩

theorem tail_specOK {rs : Ranges} (hi : RInv rs) : specTail rs (tail rs) = true := by
  cases hh : tail rs with
  | none =>
    have := tail_eq_none_iff.1 hh
    subst this
    simp [specTail, Lumina.Spec.C17.card]
  | some x =>
    obtain ⟨h1, h2⟩ := tail_spec hi hh
    simp only [specTail, Bool.and_eq_true, member_iff, List.all_eq_true, decide_eq_true_eq]
    refine ⟨h1, fun r hr => ?_⟩
    have hv := inv_validR hi hr
    exact h2 r.1 ⟨r, hr, Nat.le_refl _, hv.2.1⟩

/-! ### pop head / pop tail -/

theorem popHead_specOK {rs : Ranges} (hi : RInv rs) :
    ∃ o out, popHead rs = .ok (o, out) ∧ RInv out ∧ specPopHead rs o out = true := by
  rcases List.eq_nil_or_concat rs with h | ⟨ys, r, h⟩
  · subst h
    exact ⟨none, [], rfl, inv_nil, by simp [specPopHead, specHead, Lumina.Spec.C17.card]⟩
  · rw [List.concat_eq_append] at h
    subst h
    obtain ⟨out, e, io, mo, _⟩ := popHead_spec hi
    refine ⟨some r.2, out, e, io, ?_⟩
    have hhd : head (ys ++ [r]) = some r.2 := by simp [head]
    have h1 := head_specOK hi
    rw [hhd] at h1
    simp only [specPopHead, h1, Bool.true_and]
    apply denotes_of io
    intro h
    apply bool_eq_of_iff
    rw [member_iff, Bool.and_eq_true, member_iff, bne_iff_ne]
    exact mo h

theorem popTail_specOK {rs : Ranges} (hi : RInv rs) :
    ∃ o out, popTail rs = .ok (o, out) ∧ RInv out ∧ specPopTail rs o out = true := by
  cases rs with
  | nil => exact ⟨none, [], rfl, inv_nil, by simp [specPopTail, specTail, Lumina.Spec.C17.card]⟩
  | cons r rs =>
    obtain ⟨out, e, io, mo, _⟩ := popTail_spec hi
    refine ⟨some r.1, out, e, io, ?_⟩
    have h1 := tail_specOK hi
    simp only [tail, List.head?_cons, Option.map_some] at h1
    simp only [specPopTail, h1, Bool.true_and]
    apply denotes_of io
    intro h
    apply bool_eq_of_iff
    rw [member_iff, Bool.and_eq_true, member_iff, bne_iff_ne]
    exact mo h

/-! ### head-n / tail-n -/

/-- `tailn`: the `min n |rs|` least members — an initial segment of the ascending heights -/
theorem tailn_ok {rs : Ranges} (hi : RInv rs) (n : Nat) :
    ∃ out, tailn rs n = .ok out ∧ RInv out ∧
      (∃ post, heights rs = heights out ++ post) ∧ PCard out = min n (PCard rs) := tailn_spec hi n

/-- `headn`: the `min n |rs|` greatest members — a final segment of the ascending heights -/
theorem headn_ok {rs : Ranges} (hi : RInv rs) (n : Nat) :
    ∃ out, headn rs n = .ok out ∧ RInv out ∧
      (∃ pre, heights rs = pre ++ heights out) ∧ PCard out = min n (PCard rs) := headn_spec hi n

theorem tailn_specOK {rs : Ranges} (hi : RInv rs) (n : Nat) :
    specTailn rs n (obsOf (tailn rs n)) = true := by
  obtain ⟨out, e, io, ⟨post, hp⟩, hc⟩ := tailn_spec hi n
  rw [e]
  have hs := heights_sorted hi
  rw [hp, List.pairwise_append] at hs
  simp only [obsOf, specTailn, canonical_of_inv io, spec_card_eq, hc, beq_self_eq_true, Bool.true_and,
    List.all_eq_true, Bool.and_eq_true, Bool.or_eq_true, Bool.not_eq_true', decide_eq_true_eq]
  intro h _
  constructor
  · by_cases c : member out h = true
    · right
      rw [member_iff, ← mem_heights, hp, List.mem_append]
      exact Or.inl ((mem_heights out h).2 ((member_iff out h).1 c))
    · left; simpa using c
  · by_cases c : member rs h = true ∧ member out h = false
    · right
      intro r hr
      have hv := inv_validR io hr
      have hmem : h ∈ post := by
        have h1 : h ∈ heights rs := (mem_heights rs h).2 ((member_iff rs h).1 c.1)
        rw [hp, List.mem_append] at h1
        rcases h1 with h1 | h1
        · exact absurd ((member_iff out h).2 ((mem_heights out h).1 h1)) (by simp [c.2])
        · exact h1
      exact hs.2.2 r.2 ((mem_heights out r.2).2 ⟨r, hr, hv.2.1, Nat.le_refl _⟩) h hmem
    · left
      rw [Bool.and_eq_false_iff, Bool.not_eq_false']
      by_cases c1 : member rs h = true
      · right
        by_cases c2 : member out h = true
        · exact c2
        · exact absurd ⟨c1, by simpa using c2⟩ c
      · left; simpa using c1

theorem headn_specOK {rs : Ranges} (hi : RInv rs) (n : Nat) :
    specHeadn rs n (obsOf (headn rs n)) = true := by
  obtain ⟨out, e, io, ⟨pre, hp⟩, hc⟩ := headn_spec hi n
  rw [e]
  have hs := heights_sorted hi
  rw [hp, List.pairwise_append] at hs
  simp only [obsOf, specHeadn, canonical_of_inv io, spec_card_eq, hc, beq_self_eq_true, Bool.true_and,
    List.all_eq_true, Bool.and_eq_true, Bool.or_eq_true, Bool.not_eq_true', decide_eq_true_eq]
  intro h _
  constructor
  · by_cases c : member out h = true
    · right
      rw [member_iff, ← mem_heights, hp, List.mem_append]
      exact Or.inr ((mem_heights out h).2 ((member_iff out h).1 c))
    · left; simpa using c
  · by_cases c : member rs h = true ∧ member out h = false
    · right
      intro r hr
      have hv := inv_validR io hr
      have hmem : h ∈ pre := by
        have h1 : h ∈ heights rs := (mem_heights rs h).2 ((member_iff rs h).1 c.1)
        rw [hp, List.mem_append] at h1
        rcases h1 with h1 | h1
        · exact h1
        · exact absurd ((member_iff out h).2 ((mem_heights out h).1 h1)) (by simp [c.2])
      exact hs.2.2 h hmem r.1 ((mem_heights out r.1).2 ⟨r, hr, Nat.le_refl _, hv.2.1⟩)
    · left
      rw [Bool.and_eq_false_iff, Bool.not_eq_false']
      by_cases c1 : member rs h = true
      · right
        by_cases c2 : member out h = true
        · exact c2
        · exact absurd ⟨c1, by simpa using c2⟩ c
      · left; simpa using c1

/-! ### edges, left-of, right-of -/

theorem edges_ok {rs : Ranges} (hi : RInv rs) :
    ∃ e, edges rs = .ok e ∧ RInv e ∧
      ∀ h, mem e h ↔ mem rs h ∧ (¬ mem rs (h - 1) ∨ ¬ mem rs (h + 1)) := by
  obtain ⟨e, h1, h2, h3⟩ := edges_spec hi
  exact ⟨e, h1, h2, fun h => by rw [h3, edge_iff_boundary hi]⟩

theorem edges_specOK {rs : Ranges} (hi : RInv rs) : specEdges rs (obsOf (edges rs)) = true := by
  obtain ⟨e, h1, h2, h3⟩ := edges_ok hi
  rw [h1]
  simp only [obsOf, specEdges]
  apply denotes_of h2
  intro h
  apply bool_eq_of_iff
  rw [member_iff, Bool.and_eq_true, Bool.or_eq_true, Bool.not_eq_true', Bool.not_eq_true',
    member_iff, member_false_iff, member_false_iff]
  exact h3 h

theorem leftOf_ok {rs : Ranges} {h : Nat} (hi : RInv rs) (hh : 1 ≤ h) :
    ∃ o, leftOf rs h = .ok o ∧ (o = none → ∀ x, mem rs x → h ≤ x) ∧
      (∀ y, o = some y → mem rs y ∧ y < h ∧ ∀ x, mem rs x → x < h → x ≤ y) := leftOf_spec hi hh

theorem rightOf_ok {rs : Ranges} {h : Nat} (hi : RInv rs) (hh : 1 ≤ h) :
    ∃ o, rightOf rs h = .ok o ∧ (o = none → ∀ x, mem rs x → x ≤ h) ∧
      (∀ y, o = some y → mem rs y ∧ h < y ∧ ∀ x, mem rs x → h < x → y ≤ x) := rightOf_spec hi hh

theorem leftOf_specOK {rs : Ranges} {h : Nat} (hi : RInv rs) (hh : 1 ≤ h) :
    ∃ o, leftOf rs h = .ok o ∧ specLeftOf rs h o = true := by
  obtain ⟨o, e, hn, hs⟩ := leftOf_spec hi hh
  refine ⟨o, e, ?_⟩
  cases o with
  | none =>
    simp only [specLeftOf, List.all_eq_true, decide_eq_true_eq]
    intro r hr
    have hv := inv_validR hi hr
    exact hn rfl r.1 ⟨r, hr, Nat.le_refl _, hv.2.1⟩
  | some y =>
    obtain ⟨k1, k2, k3⟩ := hs y rfl
    simp only [specLeftOf, Bool.and_eq_true, member_iff, decide_eq_true_eq, List.all_eq_true,
      Bool.not_eq_true', meets, decide_eq_false_iff_not]
    refine ⟨⟨k1, k2⟩, fun r hr hc => ?_⟩
    have := k3 (max r.1 (y + 1)) ⟨r, hr, by omega, by omega⟩ (by omega)
    omega

theorem rightOf_specOK {rs : Ranges} {h : Nat} (hi : RInv rs) (hh : 1 ≤ h) :
    ∃ o, rightOf rs h = .ok o ∧ specRightOf rs h o = true := by
  obtain ⟨o, e, hn, hs⟩ := rightOf_spec hi hh
  refine ⟨o, e, ?_⟩
  cases o with
  | none =>
    simp only [specRightOf, List.all_eq_true, decide_eq_true_eq]
    intro r hr
    have hv := inv_validR hi hr
    exact hn rfl r.2 ⟨r, hr, hv.2.1, Nat.le_refl _⟩
  | some y =>
    obtain ⟨k1, k2, k3⟩ := hs y rfl
    simp only [specRightOf, Bool.and_eq_true, member_iff, decide_eq_true_eq, List.all_eq_true,
      Bool.not_eq_true', meets, decide_eq_false_iff_not]
    refine ⟨⟨k1, k2⟩, fun r hr hc => ?_⟩
    have := k3 (max r.1 (h + 1)) ⟨r, hr, by omega, by omega⟩ (by omega)
    omega

/-! ### balanced partition -/

/-- `partitions`: `None` exactly for the empty set; otherwise `left < middle < right`, together
    exactly the set, sizes differing by at most one; no `u64` overflow (in particular not in
    `start + middle - left_len`) -/
theorem partitions_ok {rs : Ranges} (hi : RInv rs) :
    (rs = [] ∧ partitions rs = .ok none) ∨
    (rs ≠ [] ∧ ∃ l m r, partitions rs = .ok (some (l, m, r)) ∧ RInv l ∧ RInv r ∧
      (∀ h, mem rs h ↔ mem l h ∨ h = m ∨ mem r h) ∧
      (∀ a, mem l a → a < m) ∧ (∀ b, mem r b → m < b) ∧
      PCard l + 1 + PCard r = PCard rs ∧ PCard l ≤ PCard r + 1 ∧ PCard r ≤ PCard l + 1) := by
  rcases partitions_spec hi with h | ⟨hne, l, m, r, e, il, ir, hh, c1, c2⟩
  · exact Or.inl h
  · exact Or.inr ⟨hne, l, m, r, e, il, ir, partitions_mem hh, (partitions_order hi hh).1,
      (partitions_order hi hh).2, partitions_card hh, c1, c2⟩

theorem partitions_specOK {rs : Ranges} (hi : RInv rs) :
    ∃ o, partitions rs = .ok o ∧ specPartitions rs o = true := by
  rcases partitions_ok hi with ⟨h, e⟩ | ⟨_, l, m, r, e, il, ir, hm, ho1, ho2, _, c1, c2⟩
  · subst h
    exact ⟨none, e, by simp [specPartitions, Lumina.Spec.C17.card]⟩
  · refine ⟨some (l, m, r), e, ?_⟩
    simp only [specPartitions, canonical_of_inv il, canonical_of_inv ir, spec_card_eq, Bool.true_and,
      Bool.and_eq_true, member_iff, List.all_eq_true, decide_eq_true_eq, sameOn, beq_iff_eq]
    refine ⟨⟨⟨⟨⟨(hm m).2 (Or.inr (Or.inl rfl)), ?_⟩, ?_⟩, ?_⟩, decide_eq_true c1⟩, decide_eq_true c2⟩
    · intro x hx
      have hv := inv_validR il hx
      exact ho1 x.2 ⟨x, hx, hv.2.1, Nat.le_refl _⟩
    · intro x hx
      have hv := inv_validR ir hx
      exact ho2 x.1 ⟨x, hx, Nat.le_refl _, hv.2.1⟩
    · intro h _
      apply bool_eq_of_iff
      rw [member_iff, Bool.or_eq_true, Bool.or_eq_true, member_iff, member_iff, beq_iff_eq]
      rw [hm h]
      constructor
      · rintro (h1 | h1 | h1)
        · exact Or.inl (Or.inl h1)
        · exact Or.inl (Or.inr h1)
        · exact Or.inr h1
      · rintro ((h1 | h1) | h1)
        · exact Or.inl h1
        · exact Or.inr (Or.inl h1)
        · exact Or.inr (Or.inr h1)

/-! ### all operation sequences -/

/-- **Histories.**  Starting from registers that all satisfy `Inv` (e.g. all empty), EVERY sequence
    of operations (any length, any `u64` arguments, valid or not) runs without a panic — no `u64`
    overflow, no failed `debug_assert!` / `expect` / index — and leaves every register `Inv`:
    sorted, disjoint, non-adjacent, free of height 0.  Each individual step is then characterised
    by the per-operation theorems above. -/
theorem histories_inv (ops : List Op) (hb : ∀ op ∈ ops, op.Bounded) :
    ∃ s', run ops (fun _ => []) = .ok s' ∧ ∀ i, RInv (s' i) :=
  run_inv ops (fun _ => inv_nil) hb

theorem histories_inv_from (ops : List Op) {s : St} (hs : ∀ i, RInv (s i)) (hb : ∀ op ∈ ops, op.Bounded) :
    ∃ s', run ops s = .ok s' ∧ ∀ i, RInv (s' i) :=
  run_inv ops hs hb


/-- the spec checker of the operation `op`, evaluated on the MODEL's own result from state `s`
    (the same checkers the correspondence run evaluates on the implementation's results) -/
def stepSpec (s : St) : Op → Bool
  | .new _ => true
  | .fromVec v _ => specFromVec v (obsOf (fromVec v))
  | .insert x r => specInsert (s x) r (obsOf (insertRelaxed (s x) r))
  | .remove x r => specRemove (s x) r (obsOf (removeRelaxed (s x) r))
  | .popHead x => match popHead (s x) with
    | .ok (o, out) => specPopHead (s x) o out
    | .error _ => false
  | .popTail x => match popTail (s x) with
    | .ok (o, out) => specPopTail (s x) o out
    | .error _ => false
  | .headn x n _ => specHeadn (s x) n (obsOf (headn (s x) n))
  | .tailn x n _ => specTailn (s x) n (obsOf (tailn (s x) n))
  | .edges x _ => specEdges (s x) (obsOf (edges (s x)))
  | .add x y _ => specUnion (s x) (s y) (obsOf (add (s x) (s y)))
  | .bitOr x y _ => specUnion (s x) (s y) (obsOf (bitOr (s x) (s y)))
  | .sub x y _ => specDiff (s x) (s y) (obsOf (sub (s x) (s y)))
  | .bitAnd x y _ => specInter (s x) (s y) (obsOf (bitAnd (s x) (s y)))
  | .bitNot x _ => specCompl (s x) (obsOf (bitNot (s x)))
  | .len x => specLen (s x) (match len (s x) with | .ok n => some n | .error _ => none)
  | .partitions x => match partitions (s x) with
    | .ok o => specPartitions (s x) o
    | .error _ => false
  | .leftOf x h => match leftOf (s x) h with
    | .ok o => specLeftOf (s x) h o
    | .error _ => false
  | .rightOf x h => match rightOf (s x) h with
    | .ok o => specRightOf (s x) h o
    | .error _ => false

/-- from an all-`Inv` state every operation's result passes its spec checker -/
theorem step_specOK {s : St} (hs : ∀ i, RInv (s i)) {op : Op} (hb : op.Bounded) : stepSpec s op = true := by
  cases op with
  | new d => rfl
  | fromVec v d => exact fromVec_specOK v hb
  | insert x r => exact insert_specOK (hs x) r hb
  | remove x r => exact remove_specOK (hs x) r hb
  | popHead x =>
    obtain ⟨o, out, e, _, h⟩ := popHead_specOK (hs x)
    simp only [stepSpec, e]; exact h
  | popTail x =>
    obtain ⟨o, out, e, _, h⟩ := popTail_specOK (hs x)
    simp only [stepSpec, e]; exact h
  | headn x n d => exact headn_specOK (hs x) n
  | tailn x n d => exact tailn_specOK (hs x) n
  | edges x d => exact edges_specOK (hs x)
  | add x y d => exact (union_specOK (hs x) (hs y)).1
  | bitOr x y d => exact (union_specOK (hs x) (hs y)).2
  | sub x y d => exact difference_specOK (hs x) (hs y)
  | bitAnd x y d => exact intersection_specOK (hs x) (hs y)
  | bitNot x d => exact complement_specOK (hs x)
  | len x => exact len_specOK (hs x)
  | partitions x =>
    obtain ⟨o, e, h⟩ := partitions_specOK (hs x)
    simp only [stepSpec, e]; exact h
  | leftOf x h =>
    obtain ⟨o, e, h'⟩ := leftOf_specOK (hs x) hb
    simp only [stepSpec, e]; exact h'
  | rightOf x h =>
    obtain ⟨o, e, h'⟩ := rightOf_specOK (hs x) hb
    simp only [stepSpec, e]; exact h'

/-- **Every step of every history satisfies the spec.**  For any operation sequence (any length,
    any `u64` arguments) started from empty registers and any position in it: the prefix runs
    without panic to an all-`Inv` state, and the operation at that position returns what its spec
    checker — the set-theoretic meaning of the operation — allows. -/
theorem histories_every_step_spec (pre : List Op) (op : Op) (post : List Op)
    (hb : ∀ o ∈ pre ++ op :: post, o.Bounded) :
    ∃ s, run pre (fun _ => []) = .ok s ∧ (∀ i, RInv (s i)) ∧ stepSpec s op = true := by
  obtain ⟨s, e, hs⟩ := run_inv pre (s := fun _ => []) (fun _ => inv_nil)
    (fun o ho => hb o (List.mem_append_left _ ho))
  exact ⟨s, e, hs, step_specOK hs (hb op (by simp))⟩

/-! ### the two repaired defects, on the pre-repair transcriptions -/

/-- before `fix: BlockRange::tailn …`: `(MAX-2..=MAX).tailn(10)` lost `u64::MAX`, and
    `(MAX..=MAX).tailn(2)` was the invalid range `MAX..=MAX-1` (→ `expect` panic in `BlockRanges::tailn`) -/
theorem tailn_prefix_defect :
    Range.tailnPreFix (U64_MAX - 2, U64_MAX) 10 = (U64_MAX - 2, U64_MAX - 1) ∧
    Range.tailnPreFix (U64_MAX, U64_MAX) 2 = (U64_MAX, U64_MAX - 1) ∧
    Range.tailn (U64_MAX - 2, U64_MAX) 10 = (U64_MAX - 2, U64_MAX) ∧
    Range.tailn (U64_MAX, U64_MAX) 2 = (U64_MAX, U64_MAX) := by
  decide

/-- before `fix: BlockRanges::from_vec merges adjacent ranges`: a non-canonical value was accepted -/
theorem fromVec_prefix_defect :
    (match fromVecPreFix [(1, 2), (3, 4)] with | .ok out => invB out | .error _ => true) = false ∧
    (match fromVec [(1, 2), (3, 4)] with | .ok out => out == [(1, 4)] | .error _ => false) = true := by
  decide

/-! ### non-vacuity -/

example : RInv [(1, 3), (6, 9)] := inv_of_invB (by decide)
example : RInv [(1, 2), (18446744073709551614, 18446744073709551615)] := inv_of_invB (by decide)
example : ValidR (4, 5) := ⟨by decide, by decide, by decide⟩
example : insertRelaxed [(1, 3), (6, 9)] (4, 5) = .ok [(1, 9)] := rfl
example : removeRelaxed [(1, 9)] (4, 5) = .ok [(1, 3), (6, 9)] := rfl
example : partitions [(1, 3), (6, 9)] = .ok (some ([(1, 3)], 6, [(7, 9)])) := rfl
example : (Op.insert 0 (4, 5)).Bounded := by show 5 ≤ U64_MAX; decide
example : ∃ s', run [.insert 0 (1, 3), .insert 0 (6, 9), .bitNot 0 1, .bitAnd 0 1 2, .popHead 0,
    .headn 0 2 3, .partitions 0] (fun _ => []) = .ok s' ∧ s' 0 = [(1, 3), (6, 8)] ∧ s' 2 = [] ∧
    s' 3 = [(7, 8)] := ⟨_, rfl, rfl, rfl, rfl⟩

end Lumina.Props.C17

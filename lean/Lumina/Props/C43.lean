/-
  C43 — Transaction submission keeps account sequences consistent.   PROPERTY THEOREMS ONLY.

  Model: `Lumina/Model/TxSeq.lean` (the client protocol: OnceCells, account mutex with FIFO hand-off,
  sign / estimate / broadcast loop, confirmation with rollback and re-broadcast), inputs = starts
  and node answers in ANY order (= any interleaving of any number of submissions, any answer
  script).  All theorems quantify over all input sequences `ops : List Op` from the initial state.
-/
import Lumina.Proofs.TxSeq
import Lumina.Proofs.TxSeqLedger
import Lumina.Gen.C43

namespace Lumina.Props.C43
open Lumina.Model.TxSeq Lumina.Proofs.TxSeq Lumina.Proofs.TxSeqLedger

/-
  FULL STATEMENT, proved as ONE theorem (`ledger_accepts_every_run`): "for every input history, the observer's ledger
  of `Lumina/Spec/C43.lean` (`ledgerStep`, the checker that the correspondence run evaluates on the IMPLEMENTATION's
  lines) accepts every line the model prints".  It rests on the bookkeeping equality between the ledger's own maps
  (`believed`, `lastSigned`, `accepted`, `prev`) and the model state (`Rel`, an invariant over arbitrary histories:
  `ledger_bookkeeping`), i.e. that the ledger CLASSIFIES each answer the way `believedAfter` does.
  The ledger's rules are also proved one by one on the model's own events (kept: they read more directly):
    * rule "signed with the believed sequence", "advance by one per accepted broadcast", "resync on
      mismatch", "rollback on non-sequence rejection"   — `seq_discipline` (+ `believedAfter`)
    * rule "never re-signed after acceptance"            — `never_resigned`
    * rule "pending broadcast/simulation = last signed"  — `broadcast_is_last_signed`
    * rule "evicted ⇒ re-broadcast of the accepted transaction" — `evicted_rebroadcast`,
      `rebroadcast_answer_signs_nothing`
    * the message parser behind "resync to the node's expected value" — `extractSequence_grammar`
-/

/-- the message pattern regenerated from `/repo/grpc/src/client.rs` is the one the model parses -/
theorem consts_eq : Lumina.Gen.C43.SEQUENCE_ERROR_PAT.toList = SEQUENCE_ERROR_PAT := by decide

theorem noWrong_run (ops : List Op) : NoWrong (run {} ops) := by
  suffices h : ∀ st, NoWrong st → NoWrong (run st ops) by
    exact h {} (fun j c hp => by simp [getSub, List.lookup] at hp)
  induction ops with
  | nil => intro st h; exact h
  | cons op ops ih =>
    intro st h
    obtain ⟨g, hi⟩ := inv_step st op h
    exact ih _ hi.2.2

/-- **every transaction is signed with the sequence the client believes current; the believed
    sequence advances by one per accepted broadcast, is resynchronised by a mismatch to the node's
    expected value, is set by the account query, and is rolled back to the rejected transaction's
    sequence by a rejection that is not about the sequence — and changes in no other way.**
    For every input history `ops` and every next input `op`: replaying the events of the step
    (signatures, finished submissions) from `believedAfter` (the answer rules) succeeds — each
    signature carries exactly the believed sequence of its moment — and ends in the model's
    believed sequence.  Any number of concurrent submissions, any interleaving, any answers. -/
theorem seq_discipline (ops : List Op) (op : Op) :
    let st := run {} ops
    replay (fun j => (getSub (step st op) j).accSeq) (believedAfter st op) (step st op).events
      = some (step st op).seq := by
  intro st
  obtain ⟨g, h1, h2, -⟩ := inv_step st op (noWrong_run ops)
  have : g = fun j => (getSub (step st op) j).accSeq := funext (fun j => (h1 j).symm)
  rw [← this]; exact h2

/-- non-vacuity: a history with two concurrent submissions, a mismatch, an accepted broadcast, a
    rejection with rollback: the second submission signs with 9, then (resync) 4, the third with
    the rolled-back 4 -/
example :
    let ops : List Op := [.start 0 (some 100) (some 2), .ans 0 .ok, .ans 0 (.okSeq 7), .start 1 none none,
      .ans 0 .ok, .ans 1 (.mis 4), .ans 1 (.okEst 4 10), .ans 1 .cache, .ans 1 (.rejected 5)]
    (run {} ops).seq = 4 ∧ (step (run {} ops) (.start 2 (some 1) (some 4))).events.length = 1 := by
  decide

/-- **an evicted (or unknown) transaction is re-broadcast, never re-signed**: when the status
    query of submission `i` is answered EVICTED / UNKNOWN, nothing is signed in that step, the
    table of signed transactions and the believed sequence are unchanged, and the submission's
    next request is the re-broadcast of its accepted transaction (same id = same bytes). -/
theorem evicted_rebroadcast (st : St) (i : Nat) (a : Ans) (h : (getSub st i).phase = .reqT)
    (ha : a = .evicted ∨ a = .unknown) :
    let st' := step st (.ans i a)
    st'.events = [] ∧ st'.txs = st.txs ∧ st'.seq = st.seq ∧
    (∃ nf, (getSub st' i).phase = .reqRB nf) ∧ (getSub st' i).acc = (getSub st i).acc := by
  have hp : (getSub { st with events := [] } i).phase = .reqT := h
  rcases ha with rfl | rfl
  · simp only [step, answer, hp, ansT]
    exact ⟨rfl, rfl, rfl, ⟨false, by simp [setPhase]⟩, by simp [setPhase]; rfl⟩
  · simp only [step, answer, hp, ansT]
    exact ⟨rfl, rfl, rfl, ⟨true, by simp [setPhase]⟩, by simp [setPhase]; rfl⟩

/-- and the answer to that re-broadcast never leads to a signature either -/
theorem rebroadcast_answer_signs_nothing (st : St) (i : Nat) (nf : Bool) (a : Ans)
    (h : (getSub st i).phase = .reqRB nf) :
    ∀ e ∈ (step st (.ans i a)).events, ∃ r, e = .finished i r := by
  have hp : (getSub { st with events := [] } i).phase = .reqRB nf := h
  simp only [step, answer, hp, ansRB]
  cases a <;> simp [setPhase, setSub, finish, emit]

/-- **never re-signed**: in every reachable state, every signature made during a step is for a
    submission that had NO accepted broadcast before the step — once the broadcast of a submission
    has been accepted (success or mempool-cache hit), the client never signs for it again,
    whatever the node answers afterwards (pending, evicted, unknown, rejected, errors) and whatever
    the other submissions do. -/
theorem never_resigned (ops : List Op) (op : Op) (j k : Nat) (tx : Tx)
    (h : Event.sign j k tx ∈ (step (run {} ops) op).events) :
    (getSub (run {} ops) j).acc = none :=
  (w_step (wf_run ops) op).sg j k tx h

/-- reachable states are well formed: a submission sits in the mutex queue exactly when it waits
    for the mutex, in a `OnceCell` queue exactly when it waits for that cell (each at most once),
    and a submission has an accepted transaction only in the confirmation phases -/
theorem reachable_wf (ops : List Op) : WF (run {} ops) := wf_run ops

/-- **the pending broadcast / simulation is the transaction just signed**: after any step, a
    submission whose request inside the critical section carries transaction `k` signed `k` as its
    last signature of the step, or signed nothing in this step and had the same request pending
    before.  Together with `seq_discipline`: every transaction broadcast inside the critical
    section was signed with the sequence believed current at that moment. -/
theorem broadcast_is_last_signed (st : St) (op : Op) (j k : Nat)
    (h : (getSub (step st op) j).phase = .reqB k ∨ (getSub (step st op) j).phase = .reqE k) :
    lastSign j (step st op).events = some k ∨
    (lastSign j (step st op).events = none ∧ (getSub st j).phase = (getSub (step st op) j).phase) :=
  pb_step st op j k h

/-- **`extract_sequence` on the message grammar**: for every message
    `pre ++ "account sequence mismatch, expected " ++ digits ++ "," ++ rest` in which the pattern does
    not occur earlier, the parser returns the decimal value of `digits` when it fits a `u64`, and
    fails when it does not -/
theorem extractSequence_grammar (pre ds post : List Char)
    (hfirst : ∀ k < pre.length, SEQUENCE_ERROR_PAT.isPrefixOf (pre.drop k ++ SEQUENCE_ERROR_PAT) = false)
    (hds : ds ≠ []) (hdig : ∀ c ∈ ds, isDigit c = true) :
    extractSequence (pre ++ SEQUENCE_ERROR_PAT ++ (ds ++ ',' :: post)) =
      (let v := ds.foldl (fun a c => a * 10 + (c.toNat - 48)) 0
       if v ≤ 18446744073709551615 then some v else none) := by
  unfold extractSequence
  rw [splitOnce_first _ _ _ (by decide) hfirst]
  simp only [splitOnce_comma ds post hdig]
  unfold parseU64
  have hplus := stripPlus_id ds hdig
  simp only [hplus]
  have : ds.isEmpty = false := by
    cases ds with
    | nil => exact absurd rfl hds
    | cons _ _ => rfl
  simp [this, digitsVal_eq ds 0 hdig]

example : extractSequence ("rpc error: code = Unknown desc = account sequence mismatch, expected 12, got 10: incorrect account sequence".toList) = some 12 := by
  decide

/-! ### the single-theorem form -/

/-- **The observer's ledger accepts every run of the client model.**  For EVERY input history `ops` (any number of
    concurrent submissions, any interleaving, any node answers), replaying `Spec.C43.ledgerStep` from the empty ledger
    over the lines the model prints — `oLine`: the events of each step in order and, per started submission, its pending
    request / `wait` / result, sorted by submission (the abstraction the driver's `render`/`parseLine` realise through
    strings), with the input classified by `oAnswered` (the driver's `oAns`) — never fails: every signature carries the
    believed sequence, nothing is re-signed after acceptance, every pending broadcast / simulation is the last signed
    transaction, every status query and re-broadcast is for the byte-identical accepted transaction, an evicted
    transaction's next request is its re-broadcast. -/
theorem ledger_accepts_every_run (ops : List Op) : specRun {} {} ops = true :=
  specRun_ok ops {} {} rel_init y_init wf_init noWrong_init

/-- **The bookkeeping equality, for every history**: the ledger obtained by replaying the run exists (no line is
    rejected) and its maps are the model's: `believed` = the client's believed sequence (unknown exactly while the
    account is unknown); `accepted` = the submissions with an accepted broadcast, each with that transaction's id and
    signed sequence; `lastSigned` of a submission with a broadcast / simulation pending = that transaction (as stored in
    the table of signed transactions); `prev` = the observed pending requests. -/
theorem ledger_bookkeeping (ops : List Op) :
    ∃ l, ledgerRun {} {} ops = some l ∧
      (l.believed = if (run {} ops).acct.ready then some (run {} ops).seq else none) ∧
      l.prev = oStates (run {} ops) ∧
      (∀ j, match (getSub (run {} ops) j).acc with
        | some k => ∃ tx, l.accepted.lookup j = some tx ∧ tx.id = k ∧ tx.seq = (getSub (run {} ops) j).accSeq
        | none => l.accepted.lookup j = none) ∧
      (∀ j k, isTxReq (getSub (run {} ops) j).phase k →
        ∃ otx tx, l.lastSigned.lookup j = some otx ∧ otx.id = k ∧ (run {} ops).txs[k]? = some tx ∧ otx.seq = tx.seq) := by
  obtain ⟨l, h1, h2⟩ := ledgerRun_rel ops {} {} rel_init y_init wf_init noWrong_init
  exact ⟨l, h1, h2.bel, h2.prev, h2.acc, h2.ls⟩

/-- non-vacuity: on the concrete history of `seq_discipline`'s example (two concurrent submissions, a mismatch, an
    accepted broadcast, a mempool-cache hit, a rejection with rollback, a third submission) the ledger is evaluated
    (`decide`) and accepts every line; and the ledger is not trivially accepting: the same kind of line with a signature
    carrying another sequence, or with a pending broadcast of another transaction, is rejected -/
example :
    let ops : List Op := [.start 0 (some 100) (some 2), .ans 0 .ok, .ans 0 (.okSeq 7), .start 1 none none,
      .ans 0 .ok, .ans 1 (.mis 4), .ans 1 (.okEst 4 10), .ans 1 .cache, .ans 1 (.rejected 5), .start 2 (some 1) (some 4)]
    specRun {} {} ops = true ∧ (ledgerRun {} {} ops).isSome = true := by
  decide

open Lumina.Spec.C43 in
example :
    let l : Ledger := { believed := some 7, prev := [(0, .G)] }
    (match ledgerStep l none { events := [.sign ⟨0, 8, 100, 50, 0⟩], states := [(0, .B 0)] } with
     | .ok _ => true | .error _ => false) = false ∧
    (match ledgerStep l none { events := [.sign ⟨0, 7, 100, 50, 0⟩], states := [(0, .B 1)] } with
     | .ok _ => true | .error _ => false) = false ∧
    (match ledgerStep l none { events := [.sign ⟨0, 7, 100, 50, 0⟩], states := [(0, .B 0)] } with
     | .ok _ => true | .error _ => false) = true := by
  decide

end Lumina.Props.C43

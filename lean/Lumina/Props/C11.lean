/-
  C11 — Blob share encoding round-trips and is sized correctly.   PROPERTY THEOREMS ONLY.

  For ALL blobs in the property's scope (any non-empty data below 2^32 bytes, any valid non-reserved
  namespace, share version 0 without signer or version 1 with a 20-byte signer and app version ≥ 3):
  no bound on the data length.  No idealisation (pure byte/list reasoning).
-/
import Lumina.Proofs.C11

namespace Lumina.Props.C11
open Lumina.Util Lumina.Model.Blob Lumina.Gen.C11 Lumina.Spec.C11 Lumina.Proofs.C11

/-- the generated constants are the numbers the property states -/
theorem consts_eq :
    SHARE_SIZE = 512 ∧ NS_SIZE = 29 ∧ SHARE_INFO_BYTES = 1 ∧ SEQUENCE_LEN_BYTES = 4 ∧ SIGNER_SIZE = 20 ∧
    FIRST_SPARSE_SHARE_CONTENT_SIZE = firstCap false ∧
    FIRST_SPARSE_SHARE_CONTENT_SIZE - SIGNER_SIZE = firstCap true ∧
    CONTINUATION_SPARSE_SHARE_CONTENT_SIZE = 482 ∧ SHARE_VERSION_ZERO = 0 ∧ SHARE_VERSION_ONE = 1 ∧
    MAX_SHARE_VERSION = 127 := by
  decide

/-- the model's observation of `Blob::new → to_shares → shares_len → reconstruct` -/
def obsBlob (ns data : Bytes) (sg : Option Bytes) (app : Nat) : SplitObs :=
  match Blob.new ns data sg app with
  | .error _ => .err
  | .ok b =>
    match b.toShares with
    | .error _ => .err
    | .ok shares =>
      .ok (shares.map (·.data)) b.sharesLen
        (match reconstruct shares app with
         | .ok (b', rest) => if rest.isEmpty then some (b'.ns, b'.data, b'.signer) else none
         | .error _ => none)
        (match reconstruct shares app with
         | .ok (b', _) => some b'.shareVersion
         | .error _ => none)

/-- **splitting into shares and reconstructing yields the identical blob; the shares are exactly
    those of the share format; their number is `sharesNeeded`; the reported share count equals the
    number of shares produced** — every blob in scope, any length -/
theorem blob_spec (ns data : Bytes) (sg : Option Bytes) (app : Nat) (h : inScope ns data sg app = true) :
    specBlob ns data sg (obsBlob ns data sg app) = true := by
  obtain ⟨h1, h2, h3, h4, h5⟩ := inScope_unpack ns data sg app h
  have hnew := blob_new_ok ns data sg app h1 h3 h4 h5
  have hsplit := split_eq ns data sg h1 h3 h4 (fun s hs => (h5 s hs).1)
  have hrec := reconstruct_scope (ns, data, sg) app [] h
  simp only [List.append_nil] at hrec
  have hmk : (fun d => (⟨d, false⟩ : Share)) = mkShare := rfl
  rw [hmk] at hsplit
  simp only [obsBlob, hnew, Blob.toShares, hsplit, hrec, List.isEmpty_nil, ↓reduceIte, blobOf, specBlob,
    List.map_map, Blob.sharesLen, List.length_map, expected_length, sharesNeededForBlob_eq]
  have hid : ((fun (x : Share) => x.data) ∘ mkShare) = id := by funext d; rfl
  rw [hid]
  cases sg <;> simp [SHARE_VERSION_ONE]

/-- the shares a blob in scope is split into are well-formed 512-byte shares, `sharesNeeded` many -/
theorem split_length (ns data : Bytes) (sg : Option Bytes) (app : Nat) (h : inScope ns data sg app = true) :
    ∃ shares, splitBlobToShares ns (if sg.isSome then 1 else 0) data sg = .ok shares ∧
      shares.length = sharesNeeded data.length sg.isSome := by
  obtain ⟨h1, _, h3, h4, h5⟩ := inScope_unpack ns data sg app h
  exact ⟨_, split_eq ns data sg h1 h3 h4 (fun s hs => (h5 s hs).1), by rw [List.length_map, expected_length]⟩

/-- **reconstructing all blobs from their concatenated shares interleaved with reserved-namespace
    shares (anywhere, also between the shares of one blob; parity shares included) returns them in
    order** — any number of blobs in scope, any interleaving -/
theorem reconstructAll_interleaved (app : Nat) (bs : List BlobObs) (L : List Share)
    (hs : ∀ b ∈ bs, inScope b.1 b.2.1 b.2.2 app = true)
    (hL : L.filter (fun s => !nsIsReserved s.ns) =
      (bs.map (fun b => (expectedShares b.1 b.2.1 b.2.2).map mkShare)).flatten) :
    specReconstructAll bs
      (match reconstructAll L app with
       | .ok l => some (l.map (fun b => (b.ns, b.data, b.signer)))
       | .error _ => none) = true := by
  rw [reconstructAll_of_filter app bs L hs hL]
  simp only [specReconstructAll, List.map_map, beq_iff_eq, Option.some.injEq]
  have : ((fun (b : Blob) => (b.ns, b.data, b.signer)) ∘ blobOf) = id := by funext b; rfl
  rw [this, List.map_id]

/-- The ORIGINAL `Blob::shares_len` (before the `fix:` commit) violates the property: 459 bytes with a
    signer are split into 2 shares but 1 was reported. -/
theorem sharesLenOrig_counterexample :
    let b : Blob := ⟨List.replicate 28 0 ++ [7], List.replicate 459 1, 1, some (List.replicate 20 9)⟩
    b.sharesLenOrig = 1 ∧ sharesNeeded b.data.length true = 2 := by
  simp only [Blob.sharesLenOrig, List.length_replicate, FIRST_SPARSE_SHARE_CONTENT_SIZE]
  decide

/-- non-vacuity: concrete blobs in scope, without and with signer -/
def exNs : Bytes := List.replicate 19 0 ++ List.replicate 10 7
set_option maxRecDepth 8000 in
example : inScope exNs [1, 2, 3] none 1 = true ∧ inScope exNs [1, 2, 3] (some (List.replicate 20 9)) 3 = true := by
  decide

end Lumina.Props.C11

/-
  C38 — The syncer keeps the store on the network's chain and converges.   (PARTIAL by design)

  Statement (properties.jsonl): "Running against peers that serve an honest chain plus arbitrary
  invalid, forked, truncated or failing responses, the node's store only ever contains headers
  of the honest chain, and once honest peers answer, every height in the sampling window up to
  the network head is eventually stored."

  Model: `Lumina.Model.SyncerLoop` — the syncer `Worker`'s reactions (`step`) composed from the
  abstract header store of C19/C20/C21 (`AbsStore.insert`: internal linking, placement,
  verification against the stored neighbours), the fetch decision of C24/C25
  (`SyncerGate.fetchDecision`) and what the p2p layer accepts (`p2pAccepts`: C26, C28 and
  `verify_adjacent_range`).

  SAFETY (proved, for every event sequence, by invariant):
    `store_stays_on_honest_chain`, from
      * `accepted_batch_is_honest`: a validated batch accepted by the store next to a stored
        honest header consists of honest headers (backward hash link / forward validator link),
      * `no_batch_taken_on_faith`: every batch the fetch decision schedules touches a stored header.
    Assumptions, explicit as hypotheses:
      `LinkDown` / `LinkUp` (what `verify` of ADJACENT headers binds: hash collision-freeness,
      consensus safety), heads handed over by trusted peers / header-sub are honest, batches
      passed the p2p layer (`p2pAccepts`), nothing is pruned above the stored head (`TopStored`,
      part of the start-state invariant; the runs of `store_stays_on_honest_chain` contain no
      pruning event).  WITH the pruner running (`store_stays_on_honest_chain_with_pruning_partial`,
      strengthening S7): removals satisfying C35's per-height condition interleaved arbitrarily,
      regime pruning window ≥ sampling window and fresh network heads; `TopStored` is then proved.
      Outside both regimes (a removal of the highest synced header, e.g. after a chain halt longer
      than the pruning window) a forward batch is not adjacent to anything stored and BOTH stores
      insert it without verification — not covered, see design_notes/C38.md.

  CONVERGENCE (PARTIAL: proved under an explicit fairness hypothesis, in the regime where the
  slow-sync throttle never arms).
    Building blocks: `convergence_variant_decreases_partial` (every accepted batch strictly
    decreases the number of missing heights, no insertion increases it),
    `convergence_progress_partial` (while a window height up to the head is missing, an idle
    connected worker schedules a request), `honest_answer_is_accepted_partial` (the honest headers
    of any scheduled range pass the p2p layer and the store and decrease the variant),
    `converges_when_honest_peers_answer_partial` (the run in which every scheduled request is
    answered honestly and nothing else happens reaches a full window in ≤ `missing` answers).
    ARBITRARY INTERLEAVINGS: `variant_never_increases_whatever_the_event` (the potential
    `Phi` = missing heights of `[1, M]` + staleness of the outstanding request is non-increasing
    under EVERY admissible event: adversarial answers, failures, disconnect / reconnect, heads,
    header-sub), `honest_answer_strictly_decreases_variant` (whenever an honest answer arrives),
    `side_conditions_hold_along_every_run`, and
    `converges_under_fairness_partial` / `every_known_head_is_reached_under_fairness_partial`: for
    EVERY infinite admissible event sequence satisfying `FairHonestAnswers` ("as long as the window
    is not full there is a later moment at which the connected worker is handed the honest answer
    to its outstanding request") the window up to the head is full again and again, and every
    head the worker ever knew is reached and stays reached.
  Environment assumptions (hypotheses, not provable about the node): honest peers do answer
  (`FairHonestAnswers`), tokio polls the worker and the timeouts of the header session / of
  `try_init` expire (the model is the sequence of HANDLED events), the announced heads stay below
  a bound during the run.  Still NOT proved — `ConvergenceFullStatement` as written (no side
  conditions at all: pruned heights inside the window, an armed slow-sync gate, non-monotone
  header ages); the regime with a finite pruning window, where the slow-sync throttle hands
  progress over to the daser / pruner, is outside this model.
-/
import Lumina.Proofs.SyncerLoop
import Lumina.Proofs.SyncerFair
import Lumina.Proofs.ComposeSyncerPruneC35
import Lumina.Gen.C38

namespace Lumina.Props.C38
open Lumina.Model.Store (Hdr)
open Lumina.Spec.C19 (AbsStore)
open Lumina.Model.SyncerLoop Lumina.Proofs.SyncerLoop Lumina.Proofs.SyncerFair
open Lumina.Model.Ranges (mem U64_MAX)

local notation "RInv" => Lumina.Model.Ranges.Inv

/-- the constants the driver instantiates the models with are the ones in the source -/
theorem slow_sync_min_threshold : Lumina.Gen.C38.SLOW_SYNC_MIN_THRESHOLD = 50 := by decide
theorem session_constants :
    Lumina.Gen.C38.MIN_AMOUNT_PER_REQ = 8 ∧ Lumina.Gen.C38.MAX_AMOUNT_PER_REQ = 64 ∧
      Lumina.Gen.C38.MAX_CONCURRENT_REQS = 8 := by decide

/-! ### safety -/

/-- **An accepted batch is honest.**  A batch of validated headers that the store accepts
    (internally linked, placed, verified against its stored neighbours) while the store holds
    only honest headers consists of honest headers, provided it touches a stored header (or is
    trusted as a whole): the store stays on the honest chain. -/
theorem accepted_batch_is_honest (v : Hdr → Hdr → Bool) (c : Nat → Hdr) (hd : LinkDown v c) (hu : LinkUp v c)
    (a : AbsStore) (batch : List Hdr) (hall : AllOnChain c a) (hval : ∀ x ∈ batch, x.valid = true)
    (hn : (∀ x ∈ batch, OnChain c x) ∨
      (∀ first last, batch.head? = some first → batch.getLast? = some last →
        NbStored a first.height last.height)) :
    AllOnChain c (a.insert v batch).1 :=
  insert_onchain hd hu a batch hall hval hn

/-- **No batch is taken on faith.**  In every state whose highest synced height is stored (nothing
    pruned above the head) and whose store is non-empty, a batch scheduled by `fetch_next_batch`
    is a non-empty range of real heights that touches a stored header — so the store will verify it
    against that neighbour. -/
theorem no_batch_taken_on_faith (e : Env) (s : State) (r : Lumina.Model.Ranges.Range)
    (hi : Lumina.Proofs.Store.AbsInv s.store) (htop : TopStored s.store) (hne : s.store.hdrs ≠ [])
    (h : Lumina.Model.SyncerGate.fetchDecision e.slowMin (gateIn e s) = .ok (.request r)) :
    1 ≤ r.1 ∧ r.1 ≤ r.2 ∧ NbStored s.store r.1 r.2 :=
  request_has_stored_neighbour hi htop hne h

/-- **C38 safety, one reaction.** -/
theorem reaction_keeps_store_on_honest_chain (v : Hdr → Hdr → Bool) (c : Nat → Hdr)
    (hd : LinkDown v c) (hu : LinkUp v c) (e : Env) (hev : e.verify = v) (s : State) (hi : Inv c s)
    (ev : Ev) (hok : EvOk v c s ev) : Inv c (step e s ev).1 :=
  step_inv hd hu hev hi hok

/-- **C38 safety, every run.**  Start the worker with an empty store (any batch size) and let the
    environment produce ANY finite sequence of events — peer-count changes (disconnect /
    reconnect), network heads from trusted peers, header-sub announcements, and results of the
    ongoing request, each either a non-fatal error or ANY list of headers the p2p layer accepts
    (so: whatever invalid, forked, truncated, failing answers the peers gave before).  After every
    prefix of the run every stored header is the honest chain's header of its height. -/
theorem store_stays_on_honest_chain (v : Hdr → Hdr → Bool) (c : Nat → Hdr)
    (hd : LinkDown v c) (hu : LinkUp v c) (e : Env) (hev : e.verify = v) (bs : Nat)
    (evs : List Ev) (hr : RunOk v c e { batchSize := bs } evs) (k : Nat) :
    AllOnChain c (run e { batchSize := bs } (evs.take k)).store :=
  (run_inv hd hu hev _ _ (inv_init c bs) (runOk_take evs _ k hr)).onchain

/-- the same from any state that satisfies the invariant (e.g. a restarted node whose store is
    on the honest chain and has nothing pruned above its head) -/
theorem store_stays_on_honest_chain_from (v : Hdr → Hdr → Bool) (c : Nat → Hdr)
    (hd : LinkDown v c) (hu : LinkUp v c) (e : Env) (hev : e.verify = v) (s : State) (hi : Inv c s)
    (evs : List Ev) (hr : RunOk v c e s evs) (k : Nat) :
    AllOnChain c (run e s (evs.take k)).store :=
  (run_inv hd hu hev _ _ hi (runOk_take evs _ k hr)).onchain

/-! ### non-vacuity: a concrete world satisfying every hypothesis -/

/-- honest chain: header `h` has id = hash = `h` -/
def exChain (h : Nat) : Hdr := { id := h, height := h, hash := h, valid := true }
/-- `verify` accepts exactly adjacent honest headers -/
def exVerify (a b : Hdr) : Bool := a.height + 1 == b.height && a.hash == a.height && b.hash == b.height
def exEnv : Env :=
  { verify := exVerify, chain := { oldS := fun h => decide (h ≤ 3), oldP := fun _ => false }, slowMin := 50 }

example : LinkDown exVerify exChain := by
  intro a b hv _ ha _
  simp only [exVerify, Bool.and_eq_true, beq_iff_eq] at hv
  exact ⟨ha, by simp [exChain]; exact hv.1.2⟩

example : LinkUp exVerify exChain := by
  intro a b hv _ hb _
  simp only [exVerify, Bool.and_eq_true, beq_iff_eq] at hv
  exact ⟨hb, by simp [exChain]; exact hv.2⟩

/-- a run: one peer, network head 10, the worker requests 6..9 (batch size 4), the honest answer
    is stored, the next request is 2..5 -/
example :
    let evs : List Ev := [.peers 1, .netHead (exChain 10),
      .batch (some [exChain 6, exChain 7, exChain 8, exChain 9])]
    (run exEnv { batchSize := 4 } evs).store.storedRanges = [(6, 10)] ∧
    (run exEnv { batchSize := 4 } evs).ongoing = some (2, 5) := by decide

/-! ### convergence (partial) -/

/-- the full liveness statement, NOT proved: from EVERY state satisfying the safety invariant
    (whatever is pruned, whether or not the slow-sync gate is armed, whatever the ongoing batch)
    a run exists — the environment only has to let honest peers answer — after which no height of
    the sampling window up to the network head is missing.  Without side conditions this is out
    of reach of the model (pruned heights are never re-requested, an armed slow-sync gate waits
    for the daser, which is not part of it).  What IS proved: the honest schedule from a steady
    state (`converges_when_honest_peers_answer_partial`), and — for ARBITRARY interleavings of
    other events, with "honest peers eventually answer" as the explicit hypothesis
    `FairHonestAnswers` — `converges_under_fairness_partial` below. -/
def ConvergenceFullStatement : Prop :=
  ∀ (v : Hdr → Hdr → Bool) (c : Nat → Hdr) (e : Env) (s : State) (lo H : Nat),
    Inv c s → s.head = some H → s.phase = .connected → s.peers ≠ 0 →
    1 ≤ lo → e.chain.oldS lo = false →     -- `lo` = the first height inside the sampling window
    ∃ evs : List Ev, RunOk v c e s evs ∧ missing (run e s evs).store lo H = 0

/-- **Variant.**  `missing a lo hi` = number of heights of `[lo, hi]` that are not stored.
    No insertion increases it; an accepted non-empty batch whose first height lies in `[lo, hi]`
    strictly decreases it (so: finitely many accepted batches fill any fixed range). -/
theorem convergence_variant_decreases_partial (v : Hdr → Hdr → Bool) (a : AbsStore) (b : List Hdr)
    (lo hi : Nat) :
    missing (a.insert v b).1 lo hi ≤ missing a lo hi ∧
    (∀ l h, AbsStore.insertCheck v a b = .ok (some (l, h)) → lo ≤ l → l ≤ hi →
      missing (a.insert v b).1 lo hi < missing a lo hi) :=
  ⟨missing_insert_le v a b lo hi, fun l h hc h1 h2 => missing_insert_lt v a b lo hi l h hc h1 h2⟩

/-- **Progress.**  A worker with a connected peer, no ongoing batch, nothing pruned, the slow-sync
    gate not armed and batch size ≥ 1 schedules a request whenever some height `1 ≤ m ≤ head`
    inside the sampling window is not stored (header age monotone in the height). -/
theorem convergence_progress_partial (e : Env) (s : State) (H m : Nat)
    (hi : Lumina.Proofs.Store.AbsInv s.store) (hpr : s.store.pruned = [])
    (hong : s.ongoing = none) (hpeers : s.peers ≠ 0) (hhead : s.head = some H) (hH : H < U64_MAX)
    (hbs : 1 ≤ s.batchSize) (hslow : s.slowSync = none)
    (hmono : ∀ h1 h2, h1 ≤ h2 → e.chain.oldS h2 = true → e.chain.oldS h1 = true)
    (hm1 : 1 ≤ m) (hm2 : m ≤ H) (hm3 : s.store.stored m = false) (hm4 : e.chain.oldS m = false) :
    ∃ r, (fetchNextBatch e s).2 = some r := by
  obtain ⟨ist, mst⟩ := storedRanges_spec hi
  have hpr' : s.store.prunedRanges = [] := by
    simp [AbsStore.prunedRanges, hpr, Lumina.Spec.C19.rangesOf, Lumina.Spec.C19.sup,
      Lumina.Spec.C19.runsDesc, AbsStore.isPruned]
  obtain ⟨r, hr⟩ := Lumina.Proofs.SyncerGate.gate_progress (pc := true) (slowMin := e.slowMin)
    (i := gateIn e s) (old := e.chain.oldS) (H := H) (m := m)
    ist hpr' (by simp [gateIn, hong]) hpeers hhead hH hbs hslow (fun _ => rfl) hmono hm1 hm2
    (fun hc => by rw [(mst m).1 hc] at hm3; cases hm3) hm4
  refine ⟨r, ?_⟩
  unfold fetchNextBatch
  have : Lumina.Model.SyncerGate.fetchDecision e.slowMin (gateIn e s) = .ok (.request r) := hr
  rw [this]

/-- **An honest answer always helps.**  Whatever request `fetch_next_batch` schedules in a state
    satisfying the invariant, the honest headers of exactly that range are admissible for the p2p
    layer, pass every check of the store's `insert`, and strictly decrease the number of missing
    heights of `[1, K]` (any `K` at or above the start of the batch). -/
theorem honest_answer_is_accepted_partial (v : Hdr → Hdr → Bool) (c : Nat → Hdr) (hc : HonestChain v c)
    (e : Env) (s : State) (hi : Inv c s) (hne : s.store.hdrs ≠ []) (r : Lumina.Model.Ranges.Range)
    (h : Lumina.Model.SyncerGate.fetchDecision e.slowMin (gateIn e s) = .ok (.request r))
    (K : Nat) (hK : r.1 ≤ K) :
    p2pAccepts v r (span c r.1 (r.2 + 1 - r.1)) = true ∧
    AbsStore.insertCheck v s.store (span c r.1 (r.2 + 1 - r.1)) = .ok (some (r.1, r.2)) ∧
    missing (s.store.insert v (span c r.1 (r.2 + 1 - r.1))).1 1 K < missing s.store 1 K :=
  honest_answer_progress hc hi hne h K hK

/-- **Convergence when honest peers answer** (the liveness half of C38 under its environment
    assumption, made explicit as the schedule).  From a steady state — connected, idle, store on
    the honest chain and not above the head `H`, nothing pruned, slow-sync not armed, batch size
    ≥ 1 — let the worker decide and let every request it schedules be answered with the honest
    headers of the requested range.  Then after at most `missing store 1 H` such answers the
    worker has nothing more to schedule and EVERY height of the sampling window up to the network
    head is stored; each event of the run is admissible.
    Partial: other events interleaving with the answers, the assumption that peers do answer,
    and the runtime are outside the theorem. -/
theorem converges_when_honest_peers_answer_partial (v : Hdr → Hdr → Bool) (c : Nat → Hdr)
    (hc : HonestChain v c) (e : Env) (hev : e.verify = v) (hP : ∀ h, e.chain.oldP h = false)
    (hmono : ∀ h1 h2, h1 ≤ h2 → e.chain.oldS h2 = true → e.chain.oldS h1 = true)
    (H : Nat) (s0 : State) (hs : Steady c e s0 H) :
    ∃ evs : List Ev, RunOk v c e (fetchNextBatch e s0).1 evs ∧
      evs.length ≤ missing s0.store 1 H ∧
      WindowFull e (run e (fetchNextBatch e s0).1 evs).store H ∧
      (run e (fetchNextBatch e s0).1 evs).ongoing = none :=
  honest_schedule_converges hc hev hP hmono H _ s0 hs (Nat.le_refl _)

/-- non-vacuity: the example world is an honest chain … -/
example : HonestChain exVerify exChain where
  height := fun _ => rfl
  valid := fun _ => rfl
  hashInj := fun _ _ h => h
  verifies := by
    intro a b ha hb hh
    simp only [exVerify, Bool.and_eq_true, beq_iff_eq]
    exact ⟨⟨hh, by have := ha.2; simpa [exChain] using this⟩, by have := hb.2; simpa [exChain] using this⟩

/-- … and the honest schedule from "head 10 stored, batch size 4, heights ≤ 3 outside the window"
    ends with 2..10 stored and nothing scheduled (the batch 2..5 straddles the window edge) -/
example :
    let evs : List Ev := [.peers 1, .netHead (exChain 10),
      .batch (some (span exChain 6 4)), .batch (some (span exChain 2 4))]
    (run exEnv { batchSize := 4 } evs).store.storedRanges = [(2, 10)] ∧
    (run exEnv { batchSize := 4 } evs).ongoing = none := by decide

/-! ### convergence under arbitrary interleavings, with fairness as an explicit hypothesis -/

/-- **The variant never increases, whatever the event.**  `Phi M s` = number of heights of `[1, M]`
    that are not stored, + 1 if the outstanding request already overlaps the store (a header-sub
    insertion can overtake an ongoing forward batch; the honest answer to such a request is then
    rejected with `HeaderRangeOverlap`).  In every state satisfying the safety invariant and the
    side conditions `Aux` (nothing pruned, slow-sync not armed, heads ≤ `M`) ANY admissible event —
    a disconnect / reconnect, a network head, a header-sub announcement, a failed request, ANY
    accepted answer (adversarial ones are rejected by the store and leave it unchanged, or store
    honest headers: safety) — leaves `Phi` where it is or decreases it. -/
theorem variant_never_increases_whatever_the_event (v : Hdr → Hdr → Bool) (c : Nat → Hdr) (e : Env)
    (M : Nat) (s : State) (hi : Inv c s) (ha : Aux M s) (ev : Ev) (hok : EvOk v c s ev) :
    Phi M (step e s ev).1 ≤ Phi M s :=
  step_phi_le hi ha hok

/-- **Every honest answer strictly decreases the variant**, whenever it arrives: the honest
    headers of the outstanding request either are accepted and store a missing height, or the
    request was stale and the worker replaces it by a fresh one. -/
theorem honest_answer_strictly_decreases_variant (v : Hdr → Hdr → Bool) (c : Nat → Hdr)
    (hc : HonestChain v c) (e : Env) (hev : e.verify = v) (M : Nat) (hM : M < U64_MAX) (s : State)
    (hi : Inv c s) (ha : Aux M s) (hph : s.phase = .connected) (r : Lumina.Model.Ranges.Range)
    (hon : s.ongoing = some r) :
    Phi M (step e s (.batch (some (span c r.1 (r.2 + 1 - r.1))))).1 < Phi M s :=
  honest_answer_phi_lt hc hev
    (by have : Lumina.Model.Store.U64_MAX = U64_MAX := rfl
        omega) hi ha hph hon

/-- the side conditions are not assumed along the run: they hold initially (empty store, batch
    size ≥ 1) and every admissible event preserves them, together with the safety invariant and
    "a connected worker without an outstanding request has nothing to schedule" -/
theorem side_conditions_hold_along_every_run (v : Hdr → Hdr → Bool) (c : Nat → Hdr)
    (hd : LinkDown v c) (hu : LinkUp v c) (e : Env) (hev : e.verify = v)
    (hP : ∀ h, e.chain.oldP h = false) (M bs : Nat) (hbs : 1 ≤ bs) (evs : Nat → Ev)
    (hok : ∀ k, EvOk v c (trace e { batchSize := bs } evs k) (evs k)) (hbl : ∀ k, EvBelow M (evs k))
    (k : Nat) : Good c e M (trace e { batchSize := bs } evs k) :=
  trace_good hd hu hev hP (good_init c e M bs hbs) hok hbl k

/-- **"Honest peers eventually answer", as a hypothesis on the event sequence.**  As long as some
    height of the sampling window up to the head is not stored, there is a LATER moment `j` at
    which the worker is in `connected_event_loop` and the next event is the honest answer to its
    outstanding request (if it has one — that it has one is proved, not assumed).  Nothing is
    said about the other events: between two such moments the environment may interleave
    adversarial answers, failures, disconnects / reconnects, new heads and header-sub
    announcements at will, and it may cancel (disconnect) requests before they are answered. -/
def FairHonestAnswers (c : Nat → Hdr) (e : Env) (s0 : State) (evs : Nat → Ev) : Prop :=
  ∀ i, ¬ Synced e (trace e s0 evs i) → ∃ j, i ≤ j ∧ HonestAnswerAt c (trace e s0 evs j) (evs j)

/-- **C38 convergence under fairness** (the liveness half: "once honest peers answer, every
    height in the sampling window up to the network head is eventually stored").

    For EVERY infinite sequence of events `evs` — arbitrary interleavings of peer-count changes
    (disconnect / reconnect), network heads, header-sub announcements, failed requests and ANY
    answers the p2p layer accepts — that is admissible (`EvOk`: announced heads are honest,
    batches passed the p2p layer) and `FairHonestAnswers`: from every point `i` of the run there
    is a later point `k` at which EVERY height of the sampling window up to the subjective head is
    stored (`Synced`), and the store holds only honest headers all along
    (`store_stays_on_honest_chain`).  Proof: `Phi` never increases
    (`variant_never_increases_whatever_the_event`), strictly decreases at each fair moment
    (`honest_answer_strictly_decreases_variant`), and a connected worker whose window is not full
    always has an outstanding request (`Busy` + `convergence_progress_partial`).

    ENVIRONMENT ASSUMPTIONS (hypotheses; not provable about the node):
      * `FairHonestAnswers`: honest peers do answer — infinitely often while the window is not
        full, an outstanding request is answered with the honest headers of its range before the
        environment cancels it, at a moment when the worker is connected (a peer is connected and
        `try_init` obtained an acceptable head from trusted peers);
      * that each event is handled at all: tokio polls the worker, `select!` eventually takes
        the finished request, the timeouts / back-off of the header session and of `try_init`
        expire — the model is the sequence of HANDLED events;
      * `hbl`: the announced heads stay at or below some `M < 2^64 - 1` during the run (a head
        that moves up forever starves the backward sync: the worker always fetches forward
        first; `M` is a bound, the head may move below it).
    REGIME (why this stays `_partial`): `hP` — the pruning cutoff is older than every header, so
    the slow-sync throttle (which hands progress over to the daser / pruner) never arms; pruning
    is not an event of this model (`Aux.unpruned`); `hmono` — header age is monotone in the
    height; `LinkDown` / `LinkUp` / `HonestChain` as for safety. -/
theorem converges_under_fairness_partial (v : Hdr → Hdr → Bool) (c : Nat → Hdr) (hc : HonestChain v c)
    (hd : LinkDown v c) (hu : LinkUp v c) (e : Env) (hev : e.verify = v)
    (hP : ∀ h, e.chain.oldP h = false)
    (hmono : ∀ h1 h2, h1 ≤ h2 → e.chain.oldS h2 = true → e.chain.oldS h1 = true)
    (M : Nat) (hM : M < U64_MAX) (bs : Nat) (hbs : 1 ≤ bs) (evs : Nat → Ev)
    (hok : ∀ k, EvOk v c (trace e { batchSize := bs } evs k) (evs k)) (hbl : ∀ k, EvBelow M (evs k))
    (hfair : FairHonestAnswers c e { batchSize := bs } evs) :
    ∀ i, ∃ k, i ≤ k ∧ Synced e (trace e { batchSize := bs } evs k) :=
  fair_converges hc hd hu hev hP hmono hM (good_init c e M bs hbs) hok hbl hfair

/-- the same from any state satisfying the invariants (e.g. a later point of a run), and for the
    head the worker knew at an arbitrary point `i`: every height of the sampling window up to THAT
    head is stored from some point on, for ever (new heads may enlarge the window afterwards; the
    worker catches up with them in turn) -/
theorem every_known_head_is_reached_under_fairness_partial (v : Hdr → Hdr → Bool) (c : Nat → Hdr)
    (hc : HonestChain v c) (hd : LinkDown v c) (hu : LinkUp v c) (e : Env) (hev : e.verify = v)
    (hP : ∀ h, e.chain.oldP h = false)
    (hmono : ∀ h1 h2, h1 ≤ h2 → e.chain.oldS h2 = true → e.chain.oldS h1 = true)
    (M : Nat) (hM : M < U64_MAX) (s0 : State) (hg0 : Good c e M s0) (evs : Nat → Ev)
    (hok : ∀ k, EvOk v c (trace e s0 evs k) (evs k)) (hbl : ∀ k, EvBelow M (evs k))
    (hfair : FairHonestAnswers c e s0 evs) (i H : Nat) (hH : (trace e s0 evs i).head = some H) :
    ∃ k, i ≤ k ∧ ∀ k', k ≤ k' → WindowFull e (trace e s0 evs k').store H :=
  fair_converges_to_head hc hd hu hev hP hmono hM hg0 hok hbl hfair i H hH

/-- `trace` is the `run` of the safety theorems on the first `k` events -/
theorem trace_is_run (e : Env) (s0 : State) (evs : Nat → Ev) (k : Nat) :
    trace e s0 evs k = run e s0 ((List.range k).map evs) :=
  trace_eq_run e s0 evs k

/-! non-vacuity of the fairness theorem: a concrete infinite run meeting every hypothesis, with an
    adversarial (forked, store-rejected) answer, a failure and a disconnect / reconnect
    interleaved with the honest answers -/

/-- a fork of height `h`: validated, internally consistent, different hash -/
def exFork (h : Nat) : Hdr := { id := 1000 + h, height := h, hash := 1000 + h, valid := true }

def exEvs : Nat → Ev
  | 0 => .peers 1
  | 1 => .netHead (exChain 6)                 -- connected; 5..5 requested (batch size 1)
  | 2 => .batch (some [exFork 5])             -- adversarial answer: passes the p2p layer, rejected by the store
  | 3 => .batch none                          -- the re-issued request fails
  | 4 => .batch (some (span exChain 5 1))     -- honest answer; 4..4 requested
  | 5 => .peers 0                             -- disconnect: 4..4 is cancelled
  | 6 => .peers 2
  | 7 => .netHead (exChain 6)                 -- reconnect; 4..4 re-issued
  | 8 => .batch (some (span exChain 4 1))     -- honest answer: 4..6 stored, heights ≤ 3 are outside the window
  | _ => .peers 2


theorem ex_link_down : LinkDown exVerify exChain := by
  intro a b hv _ ha _
  simp only [exVerify, Bool.and_eq_true, beq_iff_eq] at hv
  exact ⟨ha, by simp [exChain]; exact hv.1.2⟩

theorem ex_link_up : LinkUp exVerify exChain := by
  intro a b hv _ hb _
  simp only [exVerify, Bool.and_eq_true, beq_iff_eq] at hv
  exact ⟨hb, by simp [exChain]; exact hv.2⟩

theorem ex_honest_chain : HonestChain exVerify exChain where
  height := fun _ => rfl
  valid := fun _ => rfl
  hashInj := fun _ _ h => h
  verifies := by
    intro a b ha hb hh
    simp only [exVerify, Bool.and_eq_true, beq_iff_eq]
    exact ⟨⟨hh, by have := ha.2; simpa [exChain] using this⟩, by have := hb.2; simpa [exChain] using this⟩

/-- the outstanding requests of the example run (the forked answer and the failure leave the
    store unchanged and the request 5..5 is re-issued) -/
theorem ex_ongoing :
    (trace exEnv { batchSize := 1 } exEvs 2).ongoing = some (5, 5) ∧
    (trace exEnv { batchSize := 1 } exEvs 3).ongoing = some (5, 5) ∧
    (trace exEnv { batchSize := 1 } exEvs 3).store.storedRanges = [(6, 6)] ∧
    (trace exEnv { batchSize := 1 } exEvs 4).ongoing = some (5, 5) ∧
    (trace exEnv { batchSize := 1 } exEvs 4).phase = .connected ∧
    (trace exEnv { batchSize := 1 } exEvs 8).ongoing = some (4, 4) ∧
    (trace exEnv { batchSize := 1 } exEvs 8).phase = .connected := by decide

/-- every event of the example run is admissible … -/
theorem ex_admissible : ∀ k, EvOk exVerify exChain (trace exEnv { batchSize := 1 } exEvs k) (exEvs k)
  | 0 => trivial
  | 1 => ⟨⟨rfl, rfl⟩, by simp [HdrWf, exChain, Lumina.Model.Store.U64_MAX]⟩
  | 2 => ⟨fun r hr => by rw [ex_ongoing.1] at hr; injection hr with hr; subst hr; decide,
          fun x hx => by simp at hx; subst hx; simp [HdrWf, exFork, Lumina.Model.Store.U64_MAX]⟩
  | 3 => trivial
  | 4 => ⟨fun r hr => by rw [ex_ongoing.2.2.2.1] at hr; injection hr with hr; subst hr; decide,
          fun x hx => by simp [span] at hx; subst hx; simp [HdrWf, exChain, Lumina.Model.Store.U64_MAX]⟩
  | 5 => trivial
  | 6 => trivial
  | 7 => ⟨⟨rfl, rfl⟩, by simp [HdrWf, exChain, Lumina.Model.Store.U64_MAX]⟩
  | 8 => ⟨fun r hr => by rw [ex_ongoing.2.2.2.2.2.1] at hr; injection hr with hr; subst hr; decide,
          fun x hx => by simp [span] at hx; subst hx; simp [HdrWf, exChain, Lumina.Model.Store.U64_MAX]⟩
  | _ + 9 => trivial

/-- … its heads stay at or below 6 … -/
theorem ex_below : ∀ k, EvBelow 6 (exEvs k)
  | 0 => trivial
  | 1 => Nat.le_refl _
  | 2 => trivial
  | 3 => trivial
  | 4 => trivial
  | 5 => trivial
  | 6 => trivial
  | 7 => Nat.le_refl _
  | 8 => trivial
  | _ + 9 => trivial

/-- … from event 9 on the window 4..6 is full … -/
theorem ex_synced_tail : ∀ n, Synced exEnv (trace exEnv { batchSize := 1 } exEvs (n + 9))
  | 0 => ⟨6, by decide, fun m _ h2 h3 =>
      (by decide : ∀ m < 7, exEnv.chain.oldS m = false →
        (trace exEnv { batchSize := 1 } exEvs 9).store.stored m = true) m (by omega) h3⟩
  | n + 1 => by
    show Synced exEnv (step exEnv (trace exEnv { batchSize := 1 } exEvs (n + 9)) (.peers 2)).1
    exact synced_peers exEnv _ 2 (ex_synced_tail n)

/-- … and it is fair: the honest answers are events 4 and 8 -/
theorem ex_fair : FairHonestAnswers exChain exEnv { batchSize := 1 } exEvs := by
  intro i hns
  by_cases h4 : i ≤ 4
  · exact ⟨4, h4, ex_ongoing.2.2.2.2.1, fun r hr => by
      rw [ex_ongoing.2.2.2.1] at hr; injection hr with hr; subst hr; rfl⟩
  · by_cases h8 : i ≤ 8
    · exact ⟨8, h8, ex_ongoing.2.2.2.2.2.2, fun r hr => by
        rw [ex_ongoing.2.2.2.2.2.1] at hr; injection hr with hr; subst hr; rfl⟩
    · exfalso
      obtain ⟨n, rfl⟩ : ∃ n, i = n + 9 := ⟨i - 9, by omega⟩
      exact hns (ex_synced_tail n)

/-- so the theorem applies to it (and its conclusion is not reached before event 9) -/
example : ∀ i, ∃ k, i ≤ k ∧ Synced exEnv (trace exEnv { batchSize := 1 } exEvs k) :=
  converges_under_fairness_partial exVerify exChain ex_honest_chain ex_link_down ex_link_up exEnv rfl
    (fun _ => rfl) (fun h1 h2 hle h => by simp [exEnv] at h ⊢; omega) 6 (by decide) 1 (Nat.le_refl _)
    exEvs ex_admissible ex_below ex_fair

example : (trace exEnv { batchSize := 1 } exEvs 8).store.stored 4 = false := by decide

/-! ## C38 × C35 × C25 (strengthening S7): convergence with pruner removals interleaved

  The convergence theorems above are restricted to runs in which NOTHING IS PRUNED and the pruning
  cutoff is older than every header (`hP`, `Aux.unpruned`, `Aux.slow`).  Below the runs get a
  second kind of event, `EvP.prune h` = `Store::remove_height(h)` issued by the pruner
  (`stepP`, `traceP`; lemmas in `Proofs/ComposeSyncerGate.lean`, `ComposeSyncerPrune.lean`,
  `ComposeSyncerPruneC35.lean`).  A removal is admissible when it satisfies the per-height safety
  condition C35 proves of every height of every pruner batch (`PruneSafe`;
  `pruner_batches_are_admissible_removals` is the bridge from `Props.C35.batch_safe_partial`).

  REGIME of the convergence result: `hwin` — a header outside the pruning window is outside the
  sampling window (pruning window ≥ sampling window; the defaults are 7 d + 1 h and 7 d;
  `regime_from_cutoffs`).  `hP` is GONE: headers do leave the pruning window, the slow-sync height
  arms, heights are pruned.  In that regime safe removals never remove a height the window needs
  (`safe_removals_never_touch_the_sampling_window`), so the conclusion is about STORED heights, as
  before.  NOT covered (stated, not proved): pruning window < sampling window (e.g. the in-memory
  default 0) — there sampled in-window heights are removed and the slow-sync throttle hands
  progress to the daser / pruner, which this model does not contain; for that regime only the
  regime-free facts hold: the potential over SYNCED = stored ∪ pruned heights never increases and a
  removal leaves it unchanged (`removal_leaves_variant_unchanged`,
  `variant_never_increases_with_pruning`), `PrunedHist` is invariant, and the window gate incl. the
  C25 branch withholds nothing the window needs (`repaired_window_gate_costs_no_liveness`). -/

open Lumina.Proofs.ComposeSyncerPrune

/-- `traceP` is `runP` on the first `k` events, and without removals it is the `trace` above -/
theorem traceP_is_runP (e : Env) (s0 : State) (evs : Nat → EvP) (k : Nat) :
    traceP e s0 evs k = runP e s0 ((List.range k).map evs) :=
  traceP_eq_runP e s0 evs k

theorem traceP_without_removals_is_trace (e : Env) (s0 : State) (evs : Nat → Ev) :
    ∀ k, traceP e s0 (fun i => .ev (evs i)) k = trace e s0 evs k
  | 0 => rfl
  | k + 1 => by
    show (step e (traceP e s0 (fun i => .ev (evs i)) k) (evs k)).1 = (step e (trace e s0 evs k) (evs k)).1
    rw [traceP_without_removals_is_trace e s0 evs k]

/-- **Bridge from C35.**  Every height of every batch `get_next_prunable_batch` returns (C35's
    model, any well-formed store view, any cache that is right, any `Daser` oracle) is an
    admissible removal of the composed runs, when the pruner's view and the syncer model's store
    describe the same store and cutoffs. -/
theorem pruner_batches_are_admissible_removals (limit : Nat) (ps : Lumina.Model.Pruner.PStore)
    (w : Lumina.Model.Pruner.Worker) (sc pc : Nat) (refresh : Bool) (grant : Nat → Bool)
    (hs : Lumina.Proofs.Pruner.StoreInv ps) (hm : Lumina.Proofs.Pruner.ChainMono ps.time)
    (hc : Lumina.Proofs.Pruner.CacheOK ps.time w.cache sc pc) (batch : Lumina.Model.Ranges.Ranges)
    (w' : Lumina.Model.Pruner.Worker) (msgs : List Lumina.Model.Pruner.Msg)
    (hres : Lumina.Model.Pruner.getNextPrunableBatch limit ps w sc pc refresh grant = .ok (batch, w', msgs))
    (e : Env) (a : AbsStore) (hsame : SameStore ps sc pc e a) (h : Nat) (hmem : mem batch h) :
    PruneSafe e a h :=
  pruner_batch_height_is_prune_safe limit ps w sc pc refresh grant hs hm hc batch w' msgs hres e a hsame h hmem

/-- the regime hypotheses below, from the cutoffs: pruning cutoff ≤ sampling cutoff (pruning window
    ≥ sampling window) and header times increasing with the height -/
theorem regime_from_cutoffs (ps : Lumina.Model.Pruner.PStore) (sc pc : Nat) (e : Env) (a : AbsStore)
    (hsame : SameStore ps sc pc e a) (hm : Lumina.Proofs.Pruner.ChainMono ps.time)
    (h0 : ps.time 0 ≤ ps.time 1) (hcut : pc ≤ sc) :
    (∀ h, e.chain.oldP h = true → e.chain.oldS h = true) ∧
    (∀ h1 h2, h1 ≤ h2 → e.chain.oldS h2 = true → e.chain.oldS h1 = true) :=
  regime_of_cutoffs ps sc pc e a hsame hm h0 hcut

/-- **Safe removals never remove a height the window needs** (pruning window ≥ sampling window):
    a safely removable height is outside the sampling window, and every stored height inside the
    window is still stored after ANY admissible event of the composed system. -/
theorem safe_removals_never_touch_the_sampling_window (v : Hdr → Hdr → Bool) (c : Nat → Hdr) (e : Env)
    (hwin : ∀ h, e.chain.oldP h = true → e.chain.oldS h = true) (s : State) :
    (∀ h, PruneSafe e s.store h → e.chain.oldS h = true) ∧
    (∀ ev, EvOkP v c e s ev → ∀ k, s.store.stored k = true → e.chain.oldS k = false →
      (stepP e s ev).store.stored k = true) :=
  ⟨fun _ hp => pruneSafe_outside_window hwin hp,
   fun _ hok _ hk hkw => stepP_keeps_window_heights hwin hok hk hkw⟩

/-- **A safe removal stays safe** while the syncer inserts and the pruner removes other heights:
    batch computation on a snapshot + one-by-one removal interleaved with the syncer stays inside
    the admissible removals (C35 left this interleaving to an informal argument). -/
theorem removal_stays_safe_under_interleaving (e : Env) (s : State) (ev : EvP) (h : Nat)
    (hne : ev ≠ .prune h) (hp : PruneSafe e s.store h) : PruneSafe e (stepP e s ev).store h :=
  pruneSafe_stable e s ev h hne hp

/-- **A removal leaves the variant unchanged** — `PhiP M s` = number of heights of `[1, M]` that are
    not SYNCED (neither stored nor pruned: the set `calculate_range_to_fetch` works on) + staleness
    of the outstanding request.  No assumption at all. -/
theorem removal_leaves_variant_unchanged (e : Env) (M : Nat) (s : State) (h : Nat) :
    PhiP M (stepP e s (.prune h)) = PhiP M s :=
  PhiP_prune e M s h

/-- **The variant never increases, whatever the event, with pruned heights around** (either window
    order; `AuxP` = `Aux` without "nothing pruned" and "slow-sync not armed"). -/
theorem variant_never_increases_with_pruning (v : Hdr → Hdr → Bool) (c : Nat → Hdr) (e : Env)
    (M : Nat) (s : State) (hi : Inv c s) (ha : AuxP M s) (ev : EvP)
    (hok : match ev with | .ev x => EvOk v c s x | .prune _ => True) :
    PhiP M (stepP e s ev) ≤ PhiP M s := by
  cases ev with
  | ev x => exact step_phiP_le hi ha hok
  | prune h => exact Nat.le_of_eq (PhiP_prune e M s h)

/-- **Every honest answer strictly decreases the variant, with pruned heights around.** -/
theorem honest_answer_strictly_decreases_variant_with_pruning (v : Hdr → Hdr → Bool) (c : Nat → Hdr)
    (hc : HonestChain v c) (e : Env) (hev : e.verify = v) (M : Nat) (hM : M < U64_MAX) (s : State)
    (hi : Inv c s) (ha : AuxP M s) (hph : s.phase = .connected) (r : Lumina.Model.Ranges.Range)
    (hon : s.ongoing = some r) :
    PhiP M (stepP e s (.ev (.batch (some (span c r.1 (r.2 + 1 - r.1)))))) < PhiP M s :=
  honest_answer_phiP_lt hc hev
    (by have : Lumina.Model.Store.U64_MAX = U64_MAX := rfl
        omega) hi ha hph hon

/-- `PrunedHist` (every pruned height is outside the sampling window or has a synced height
    directly below it) holds along every run of syncer events and safe removals — either window
    order, no fairness -/
theorem pruned_history_invariant (v : Hdr → Hdr → Bool) (c : Nat → Hdr) (e : Env) (s0 : State)
    (h0 : PrunedHist e s0.store) (evs : Nat → EvP)
    (hok : ∀ k, EvOkP v c e (traceP e s0 evs k) (evs k)) : ∀ k, PrunedHist e (traceP e s0 evs k).store
  | 0 => h0
  | k + 1 => stepP_prunedHist (pruned_history_invariant v c e s0 h0 evs hok k) (hok k)

/-- **The C25 fix costs no liveness** (either window order).  In every state whose pruned heights
    satisfy `PrunedHist`, if `fetch_next_batch` returns without a request because of the
    sampling-window gate — the height above the next batch is stored and outside the window, or
    (the branch added by the C25 fix) it is a synced height that has since been pruned — then every
    height `1 ≤ m ≤ head` that is not synced lies outside the sampling window: the gate never
    blocks a batch that contains a height of the window. -/
theorem repaired_window_gate_costs_no_liveness (e : Env)
    (hmono : ∀ h1 h2, h1 ≤ h2 → e.chain.oldS h2 = true → e.chain.oldS h1 = true)
    (s : State) (hi : Lumina.Proofs.Store.AbsInv s.store) (hph : PrunedHist e s.store)
    (w : Lumina.Model.SyncerGate.Idle) (hw : w = .boundOutsideWindow ∨ w = .boundPruned)
    (hdec : Lumina.Model.SyncerGate.fetchDecision e.slowMin (gateIn e s) = .ok (.idle w))
    (H m : Nat) (hH : s.head = some H) (hm1 : 1 ≤ m) (hm2 : m ≤ H) (hm3 : syncedB s.store m = false) :
    e.chain.oldS m = true :=
  window_gate_costs_no_liveness hmono hi hph hw hdec hH hm1 hm2 hm3

/-- **Progress with pruned heights and an armed slow-sync height** (pruning window ≥ sampling
    window).  In a state satisfying the invariants `G3` (safety invariant; some stored header, every
    pruned height and the slow-sync height on the right side of the window edge; bounds), a
    connected worker without an ongoing batch whose window up to the head is not fully stored
    schedules a request: neither the slow-sync throttle nor the repaired window gate withholds it. -/
theorem convergence_progress_with_pruning_partial (c : Nat → Hdr) (e : Env)
    (hmono : ∀ h1 h2, h1 ≤ h2 → e.chain.oldS h2 = true → e.chain.oldS h1 = true)
    (M : Nat) (hM : M < U64_MAX) (s : State) (hg : G3 c e M s)
    (hph : s.phase = .connected) (hon : s.ongoing = none) (H : Nat) (hH : s.head = some H)
    (hnf : ¬ WindowFull e s.store H) : ∃ r, (fetchNextBatch e s).2 = some r :=
  not_full_requestsP hmono hM hg hph hon hH hnf

/-- the invariants are not assumed along the run: they hold initially (empty store, batch size ≥ 1)
    and every admissible event — the syncer's or a safe removal — preserves them -/
theorem side_conditions_hold_along_every_run_with_pruning (v : Hdr → Hdr → Bool) (c : Nat → Hdr)
    (hd : LinkDown v c) (hu : LinkUp v c) (e : Env) (hev : e.verify = v)
    (hwin : ∀ h, e.chain.oldP h = true → e.chain.oldS h = true)
    (hmono : ∀ h1 h2, h1 ≤ h2 → e.chain.oldS h2 = true → e.chain.oldS h1 = true)
    (M : Nat) (hM : M < U64_MAX) (bs : Nat) (hbs : 1 ≤ bs) (evs : Nat → EvP)
    (hok : ∀ k, EvOkP v c e (traceP e { batchSize := bs } evs k) (evs k))
    (hbl : ∀ k, EvBelowP M (evs k)) (k : Nat) : GoodP c e M (traceP e { batchSize := bs } evs k) :=
  traceP_good hwin hmono hd hu hev hM (good_initP c e M bs hbs) hok hbl k

/-- **C38 safety, with the pruner running.**  From the empty store, along EVERY sequence of the
    syncer's events and, interleaved arbitrarily, removals by the pruner that satisfy C35's
    per-height condition (`EvOkP`), after every step every stored header is the honest chain's
    header of its height — and nothing was pruned above the stored head (`TopStored` is not assumed
    any more, it is part of the invariant that is proved).  Regime: pruning window ≥ sampling
    window (`hwin`), header age monotone in the height, network heads handed over by trusted peers
    inside the sampling window (`HeadFresh`, part of `EvOkP`), heads ≤ `M`. -/
theorem store_stays_on_honest_chain_with_pruning_partial (v : Hdr → Hdr → Bool) (c : Nat → Hdr)
    (hd : LinkDown v c) (hu : LinkUp v c) (e : Env) (hev : e.verify = v)
    (hwin : ∀ h, e.chain.oldP h = true → e.chain.oldS h = true)
    (hmono : ∀ h1 h2, h1 ≤ h2 → e.chain.oldS h2 = true → e.chain.oldS h1 = true)
    (M : Nat) (hM : M < U64_MAX) (bs : Nat) (hbs : 1 ≤ bs) (evs : Nat → EvP)
    (hok : ∀ k, EvOkP v c e (traceP e { batchSize := bs } evs k) (evs k))
    (hbl : ∀ k, EvBelowP M (evs k)) (k : Nat) :
    AllOnChain c (traceP e { batchSize := bs } evs k).store ∧
      TopStored (traceP e { batchSize := bs } evs k).store :=
  let g := (side_conditions_hold_along_every_run_with_pruning v c hd hu e hev hwin hmono M hM bs hbs
    evs hok hbl k).g3.inv
  ⟨g.onchain, g.top⟩

/-- "honest peers eventually answer", for runs with removals (same wording as `FairHonestAnswers`) -/
def FairHonestAnswersP (c : Nat → Hdr) (e : Env) (s0 : State) (evs : Nat → EvP) : Prop :=
  ∀ i, ¬ Synced e (traceP e s0 evs i) → ∃ j, i ≤ j ∧ HonestAnswerAtP c (traceP e s0 evs j) (evs j)

/-- **C38 convergence under fairness, WITH PRUNING.**

    For EVERY infinite sequence of events — the syncer's events of `converges_under_fairness_partial`
    (peer-count changes, network heads, header-sub announcements, failed requests, ANY answers the
    p2p layer accepts) and, interleaved ARBITRARILY, removals `prune h` by the pruner — that is
    admissible (`EvOkP`) and fair (`FairHonestAnswersP`): from every point of the run there is a
    later point at which every height of the sampling window up to the subjective head is STORED.

    Hypotheses, spelled out:
      * `EvOkP`: syncer events as in `EvOk` (announced heads honest, batches passed the p2p layer);
        the network head handed over by trusted peers is inside the sampling window (`HeadFresh`:
        it is seconds old); every removal satisfies C35's per-height condition `PruneSafe` — what
        `Props.C35.batch_safe_partial` proves of every pruner batch (`pruner_batches_are_admissible_removals`);
      * `hwin` (REGIME): outside the pruning window ⇒ outside the sampling window, i.e. pruning
        window ≥ sampling window (defaults 7 d + 1 h / 7 d); `hmono`: header age monotone in the
        height; both time classes fixed during the run (as everywhere in C38);
      * `FairHonestAnswersP`, `hbl` (heads ≤ `M`), `HonestChain` / `LinkDown` / `LinkUp`: as before.
    NOT assumed any more: `hP` (pruning cutoff older than every header), nothing pruned, slow-sync
    not armed.  Proof: the invariants `GoodP` hold along the run; `PhiP` (over synced heights)
    never increases, is unchanged by removals and strictly decreases at each fair moment; a
    connected worker whose window is not full has an outstanding request (`BusyW`), because neither
    the slow-sync throttle nor the repaired window gate withholds a batch the window needs.

    Still `_partial`: the opposite window order (pruning window < sampling window) is not covered;
    the environment assumptions of `converges_under_fairness_partial` remain. -/
theorem converges_under_fairness_with_pruning_partial (v : Hdr → Hdr → Bool) (c : Nat → Hdr)
    (hc : HonestChain v c) (hd : LinkDown v c) (hu : LinkUp v c) (e : Env) (hev : e.verify = v)
    (hwin : ∀ h, e.chain.oldP h = true → e.chain.oldS h = true)
    (hmono : ∀ h1 h2, h1 ≤ h2 → e.chain.oldS h2 = true → e.chain.oldS h1 = true)
    (M : Nat) (hM : M < U64_MAX) (bs : Nat) (hbs : 1 ≤ bs) (evs : Nat → EvP)
    (hok : ∀ k, EvOkP v c e (traceP e { batchSize := bs } evs k) (evs k))
    (hbl : ∀ k, EvBelowP M (evs k))
    (hfair : FairHonestAnswersP c e { batchSize := bs } evs) :
    ∀ i, ∃ k, i ≤ k ∧ Synced e (traceP e { batchSize := bs } evs k) :=
  fair_convergesP hwin hmono hc hd hu hev hM (good_initP c e M bs hbs) hok hbl hfair

/-- the same from any state satisfying the invariants, for the head the worker knew at an arbitrary
    point `i`: every height of the sampling window up to THAT head is stored from some point on,
    FOR EVER — later safe removals never take it away again -/
theorem every_known_head_is_reached_with_pruning_partial (v : Hdr → Hdr → Bool) (c : Nat → Hdr)
    (hc : HonestChain v c) (hd : LinkDown v c) (hu : LinkUp v c) (e : Env) (hev : e.verify = v)
    (hwin : ∀ h, e.chain.oldP h = true → e.chain.oldS h = true)
    (hmono : ∀ h1 h2, h1 ≤ h2 → e.chain.oldS h2 = true → e.chain.oldS h1 = true)
    (M : Nat) (hM : M < U64_MAX) (s0 : State) (hg0 : GoodP c e M s0) (evs : Nat → EvP)
    (hok : ∀ k, EvOkP v c e (traceP e s0 evs k) (evs k)) (hbl : ∀ k, EvBelowP M (evs k))
    (hfair : FairHonestAnswersP c e s0 evs) (i H : Nat) (hH : (traceP e s0 evs i).head = some H) :
    ∃ k, i ≤ k ∧ ∀ k', k ≤ k' → WindowFull e (traceP e s0 evs k').store H :=
  fair_converges_to_headP hwin hmono hc hd hu hev hM hg0 hok hbl hfair i H hH

/-! non-vacuity: a concrete infinite fair run WITH A PRUNER REMOVAL while a request is outstanding,
    in which the slow-sync height arms and the C25 branch of the window gate fires -/

/-- headers of heights ≤ 3 are outside the sampling window, those ≤ 2 outside the pruning window -/
def exEnvP : Env :=
  { verify := exVerify, chain := { oldS := fun h => decide (h ≤ 3), oldP := fun h => decide (h ≤ 2) },
    slowMin := 50 }

def exEvsP : Nat → EvP
  | 0 => .ev (.peers 1)
  | 1 => .ev (.netHead (exChain 6))                  -- connected; 4..5 requested (batch size 2)
  | 2 => .ev (.batch (some (span exChain 4 2)))      -- honest answer; 2..3 requested (bound 4 is in the window)
  | 3 => .ev (.batch (some (span exChain 2 2)))      -- honest answer; 2 is outside the pruning window: slow-sync arms
  | 4 => .ev (.headerSub (exChain 8))                -- new head 8 (not adjacent to 6): 7..8 requested
  | 5 => .prune 2                                    -- the pruner removes height 2 while 7..8 is outstanding
  | 6 => .ev (.batch (some (span exChain 7 2)))      -- honest answer: 3..8 stored, 2 pruned; C25 gate: nothing below
  | _ => .ev (.peers 1)

theorem exP_regime :
    (∀ h, exEnvP.chain.oldP h = true → exEnvP.chain.oldS h = true) ∧
    (∀ h1 h2, h1 ≤ h2 → exEnvP.chain.oldS h2 = true → exEnvP.chain.oldS h1 = true) := by
  constructor
  · intro h hp; simp [exEnvP] at hp ⊢; omega
  · intro h1 h2 hle hp; simp [exEnvP] at hp ⊢; omega

/-- the run: what is stored / pruned / outstanding before events 5, 6 and 7 — the removal happens
    while the window 4..8 is not full and a request is outstanding; afterwards the decision is
    "nothing" because of the branch added by the C25 fix -/
theorem exP_states :
    (traceP exEnvP { batchSize := 2 } exEvsP 4).slowSync = some 2 ∧
    (traceP exEnvP { batchSize := 2 } exEvsP 5).store.storedRanges = [(2, 6)] ∧
    (traceP exEnvP { batchSize := 2 } exEvsP 5).ongoing = some (7, 8) ∧
    (traceP exEnvP { batchSize := 2 } exEvsP 6).store.storedRanges = [(3, 6)] ∧
    (traceP exEnvP { batchSize := 2 } exEvsP 6).store.prunedRanges = [(2, 2)] ∧
    (traceP exEnvP { batchSize := 2 } exEvsP 7).store.storedRanges = [(3, 8)] ∧
    Lumina.Model.SyncerGate.fetchDecision 50 (gateIn exEnvP (traceP exEnvP { batchSize := 2 } exEvsP 7))
      = .ok (.idle .boundPruned) :=
  ⟨by decide, by decide, by decide, by decide, by decide, by decide, by rfl⟩

theorem exP_ongoing :
    (traceP exEnvP { batchSize := 2 } exEvsP 2).ongoing = some (4, 5) ∧
    (traceP exEnvP { batchSize := 2 } exEvsP 2).phase = .connected ∧
    (traceP exEnvP { batchSize := 2 } exEvsP 3).ongoing = some (2, 3) ∧
    (traceP exEnvP { batchSize := 2 } exEvsP 3).phase = .connected ∧
    (traceP exEnvP { batchSize := 2 } exEvsP 6).ongoing = some (7, 8) ∧
    (traceP exEnvP { batchSize := 2 } exEvsP 6).phase = .connected := by decide

theorem exP_span_wf (lo n : Nat) (h : lo + n ≤ 1000) : ∀ x ∈ span exChain lo n, HdrWf x := by
  intro x hx
  simp only [span, List.mem_map, List.mem_range'_1] at hx
  obtain ⟨y, hy, rfl⟩ := hx
  simp only [HdrWf, exChain, Lumina.Model.Store.U64_MAX]
  omega

/-- every event of the example run is admissible (the removal satisfies C35's condition) … -/
theorem exP_admissible : ∀ k, EvOkP exVerify exChain exEnvP (traceP exEnvP { batchSize := 2 } exEvsP k) (exEvsP k)
  | 0 => ⟨trivial, trivial⟩
  | 1 => ⟨⟨⟨rfl, rfl⟩, by simp [HdrWf, exChain, Lumina.Model.Store.U64_MAX]⟩,
          (by decide : exEnvP.chain.oldS (exChain 6).height = false)⟩
  | 2 => ⟨⟨fun r hr => by rw [exP_ongoing.1] at hr; injection hr with hr; subst hr; decide,
          exP_span_wf 4 2 (by decide)⟩, trivial⟩
  | 3 => ⟨⟨fun r hr => by rw [exP_ongoing.2.2.1] at hr; injection hr with hr; subst hr; decide,
          exP_span_wf 2 2 (by decide)⟩, trivial⟩
  | 4 => ⟨⟨⟨rfl, rfl⟩, by simp [HdrWf, exChain, Lumina.Model.Store.U64_MAX]⟩, trivial⟩
  | 5 => ⟨by decide, by decide, Or.inl (by decide)⟩
  | 6 => ⟨⟨fun r hr => by rw [exP_ongoing.2.2.2.2.1] at hr; injection hr with hr; subst hr; decide,
          exP_span_wf 7 2 (by decide)⟩, trivial⟩
  | _ + 7 => ⟨trivial, trivial⟩

theorem exP_below : ∀ k, EvBelowP 8 (exEvsP k)
  | 0 => trivial
  | 1 => by show 6 ≤ 8; omega
  | 2 => trivial
  | 3 => trivial
  | 4 => Nat.le_refl _
  | 5 => trivial
  | 6 => trivial
  | _ + 7 => trivial

theorem exP_synced_tail : ∀ n, Synced exEnvP (traceP exEnvP { batchSize := 2 } exEvsP (n + 7))
  | 0 => ⟨8, by decide, fun m _ h2 h3 =>
      (by decide : ∀ m < 9, exEnvP.chain.oldS m = false →
        (traceP exEnvP { batchSize := 2 } exEvsP 7).store.stored m = true) m (by omega) h3⟩
  | n + 1 => by
    show Synced exEnvP (step exEnvP (traceP exEnvP { batchSize := 2 } exEvsP (n + 7)) (.peers 1)).1
    exact synced_peers exEnvP _ 1 (exP_synced_tail n)

/-- … and it is fair: the honest answers are events 2, 3 and 6 -/
theorem exP_fair : FairHonestAnswersP exChain exEnvP { batchSize := 2 } exEvsP := by
  intro i hns
  by_cases h2 : i ≤ 2
  · exact ⟨2, h2, exP_ongoing.2.1, fun r hr => by
      rw [exP_ongoing.1] at hr; injection hr with hr; subst hr; rfl⟩
  · by_cases h3 : i ≤ 3
    · exact ⟨3, h3, exP_ongoing.2.2.2.1, fun r hr => by
        rw [exP_ongoing.2.2.1] at hr; injection hr with hr; subst hr; rfl⟩
    · by_cases h6 : i ≤ 6
      · exact ⟨6, h6, exP_ongoing.2.2.2.2.2, fun r hr => by
          rw [exP_ongoing.2.2.2.2.1] at hr; injection hr with hr; subst hr; rfl⟩
      · exfalso
        obtain ⟨n, rfl⟩ : ∃ n, i = n + 7 := ⟨i - 7, by omega⟩
        exact hns (exP_synced_tail n)

/-- so the theorem applies to a run that contains a pruner removal -/
example : ∀ i, ∃ k, i ≤ k ∧ Synced exEnvP (traceP exEnvP { batchSize := 2 } exEvsP k) :=
  converges_under_fairness_with_pruning_partial exVerify exChain ex_honest_chain ex_link_down ex_link_up
    exEnvP rfl exP_regime.1 exP_regime.2 8 (by decide) 2 (by decide) exEvsP exP_admissible exP_below exP_fair

/-- the removal is real, and the window is NOT full when it happens (7 and 8 are missing) -/
example : (traceP exEnvP { batchSize := 2 } exEvsP 5).store.stored 2 = true ∧
    (traceP exEnvP { batchSize := 2 } exEvsP 6).store.stored 2 = false ∧
    (traceP exEnvP { batchSize := 2 } exEvsP 6).head = some 8 ∧
    (traceP exEnvP { batchSize := 2 } exEvsP 6).store.stored 7 = false := by decide

/-! ### the premise "trusted peers report a FRESH head" is necessary

  `store_stays_on_honest_chain_with_pruning_partial` admits the pruner's safe removals but requires
  the network head handed over by trusted peers to be inside the sampling window (`HeadFresh`, part
  of `EvOkP`).  Without it the conclusion is false — of the model and (replay
  `evidence/replays/C38-a48cf8a3a32c.ops`, found by the thorough tier) of lumina: a head older than
  both windows is the only stored header, C35's condition lets the pruner remove it, the store is
  empty, and the batch above the pruned height has no stored neighbour: `check_insertion_constraints`
  returns `(false, false)` and the store inserts whatever validated, internally linked headers an
  untrusted peer sent.  The correspondence therefore refuses a network head outside the sampling
  window (`stale-head`): the event is outside the premises of C38. -/

/-- admissibility WITHOUT the freshness premise: the syncer's events as in `EvOk`, removals safe -/
def EvOkNoFresh (v : Hdr → Hdr → Bool) (c : Nat → Hdr) (e : Env) (s : State) : EvP → Prop
  | .ev x => EvOk v c s x
  | .prune h => PruneSafe e s.store h

/-- heights ≤ 5 are outside the sampling and the pruning window -/
def exEnvStale : Env :=
  { verify := exVerify, chain := { oldS := fun h => decide (h ≤ 5), oldP := fun h => decide (h ≤ 5) }, slowMin := 50 }

/-- trusted peers report the 5-old head 5; the pruner removes it; header-sub announces 6; an
    untrusted peer answers the request for 6 with a foreign header -/
def exStaleRun : List EvP :=
  [.ev (.peers 1), .ev (.netHead (exChain 5)), .prune 5, .ev (.headerSub (exChain 6)),
   .ev (.batch (some [exFork 6]))]

/-- **Without the freshness premise the store leaves the honest chain**: every event of
    `exStaleRun` is admissible but for `HeadFresh` (honest heads, a batch the p2p layer accepts, a
    removal satisfying C35's condition; the regime hypotheses pruning window ≥ sampling window and
    monotone header age hold), and the final store holds a header that is not the honest chain's. -/
theorem stale_network_head_counterexample :
    (∀ h, exEnvStale.chain.oldP h = true → exEnvStale.chain.oldS h = true) ∧
    (∀ h1 h2, h1 ≤ h2 → exEnvStale.chain.oldS h2 = true → exEnvStale.chain.oldS h1 = true) ∧
    (∀ k, k < exStaleRun.length →
      EvOkNoFresh exVerify exChain exEnvStale (runP exEnvStale { batchSize := 1 } (exStaleRun.take k))
        (exStaleRun.getD k (.prune 0))) ∧
    ¬ AllOnChain exChain (runP exEnvStale { batchSize := 1 } exStaleRun).store := by
  refine ⟨fun h hp => hp, ?_, ?_, ?_⟩
  · intro h1 h2 hle h
    simp only [exEnvStale, decide_eq_true_eq] at h ⊢
    omega
  · intro k hk
    have hk' : k = 0 ∨ k = 1 ∨ k = 2 ∨ k = 3 ∨ k = 4 := by
      simp only [exStaleRun, List.length_cons, List.length_nil] at hk; omega
    rcases hk' with rfl | rfl | rfl | rfl | rfl
    · trivial
    · exact ⟨⟨rfl, rfl⟩, by unfold HdrWf; decide⟩
    · show PruneSafe exEnvStale _ 5
      exact ⟨by decide, by decide, Or.inl (by decide)⟩
    · exact ⟨⟨rfl, rfl⟩, by unfold HdrWf; decide⟩
    · refine ⟨fun r hr => ?_, fun x hx => ?_⟩
      · have hon : (runP exEnvStale { batchSize := 1 } (exStaleRun.take 4)).ongoing = some (6, 6) := by decide
        rw [hon] at hr
        injection hr with hr
        subst hr
        decide
      · simp at hx; subst hx; unfold HdrWf; decide
  · intro hall
    have hmem : exFork 6 ∈ (runP exEnvStale { batchSize := 1 } exStaleRun).store.hdrs := by decide
    have := (hall _ hmem).2
    revert this
    decide

end Lumina.Props.C38

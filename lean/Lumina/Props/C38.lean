/-
  C38 — The syncer keeps the store on the network's chain and converges.   (PARTIAL by design)

  Statement (properties.jsonl): "Running against peers that serve an honest chain plus arbitrary
  invalid, forked, truncated or failing responses, the node's store only ever contains headers
  of the honest chain, and once honest peers answer, every height in the sampling window up to
  the network head is eventually stored."

  Model: `Lumina.Model.SyncerLoop` — the syncer `Worker`'s reactions (`step`) composed from the
  abstract header store of C19/C20/C21 (`AbsStore.insert`: internal linking, placement,
  verification against the stored neighbours), the fetch decision of C24/C25
  (`SyncerGate.fetchDecision`) and what the p2p layer accepts (`p2pAccepts`: C26, C28 and
  `verify_adjacent_range`).

  SAFETY (proved, for every event sequence, by invariant):
    `store_stays_on_honest_chain`, from
      * `accepted_batch_is_honest`: a validated batch accepted by the store next to a stored
        honest header consists of honest headers (backward hash link / forward validator link),
      * `no_batch_taken_on_faith`: every batch the fetch decision schedules touches a stored header.
    Assumptions, explicit as hypotheses:
      `LinkDown` / `LinkUp` (what `verify` of ADJACENT headers binds: hash collision-freeness,
      consensus safety), heads handed over by trusted peers / header-sub are honest, batches
      passed the p2p layer (`p2pAccepts`), nothing is pruned above the stored head.

  CONVERGENCE (partial): `convergence_variant_decreases_partial` (every accepted batch strictly
  decreases the number of missing heights, no insertion increases it),
  `convergence_progress_partial` (while a window height up to the head is missing, an idle
  connected worker schedules a request), `honest_answer_is_accepted_partial` (the honest headers
  of any scheduled range pass the p2p layer and the store and decrease the variant) and
  `converges_when_honest_peers_answer_partial` (the run in which every scheduled request is
  answered honestly reaches, in at most `missing` answers, a state where every window height up to
  the head is stored).  NOT proved — `ConvergenceFullStatement`: convergence under arbitrary
  interleavings with other events; that honest peers do answer and tokio schedules the worker are
  environment / runtime assumptions (exercised by the correspondence only).
-/
import Lumina.Proofs.SyncerLoop
import Lumina.Gen.C38

namespace Lumina.Props.C38
open Lumina.Model.Store (Hdr)
open Lumina.Spec.C19 (AbsStore)
open Lumina.Model.SyncerLoop Lumina.Proofs.SyncerLoop
open Lumina.Model.Ranges (mem U64_MAX)

local notation "RInv" => Lumina.Model.Ranges.Inv

/-- the constants the driver instantiates the models with are the ones in the source -/
theorem slow_sync_min_threshold : Lumina.Gen.C38.SLOW_SYNC_MIN_THRESHOLD = 50 := by decide
theorem session_constants :
    Lumina.Gen.C38.MIN_AMOUNT_PER_REQ = 8 ∧ Lumina.Gen.C38.MAX_AMOUNT_PER_REQ = 64 ∧
      Lumina.Gen.C38.MAX_CONCURRENT_REQS = 8 := by decide

/-! ### safety -/

/-- **An accepted batch is honest.**  A batch of validated headers that the store accepts
    (internally linked, placed, verified against its stored neighbours) while the store holds
    only honest headers consists of honest headers, provided it touches a stored header (or is
    trusted as a whole): the store stays on the honest chain. -/
theorem accepted_batch_is_honest (v : Hdr → Hdr → Bool) (c : Nat → Hdr) (hd : LinkDown v c) (hu : LinkUp v c)
    (a : AbsStore) (batch : List Hdr) (hall : AllOnChain c a) (hval : ∀ x ∈ batch, x.valid = true)
    (hn : (∀ x ∈ batch, OnChain c x) ∨
      (∀ first last, batch.head? = some first → batch.getLast? = some last →
        NbStored a first.height last.height)) :
    AllOnChain c (a.insert v batch).1 :=
  insert_onchain hd hu a batch hall hval hn

/-- **No batch is taken on faith.**  In every state whose highest synced height is stored (nothing
    pruned above the head) and whose store is non-empty, a batch scheduled by `fetch_next_batch`
    is a non-empty range of real heights that touches a stored header — so the store will verify it
    against that neighbour. -/
theorem no_batch_taken_on_faith (e : Env) (s : State) (r : Lumina.Model.Ranges.Range)
    (hi : Lumina.Proofs.Store.AbsInv s.store) (htop : TopStored s.store) (hne : s.store.hdrs ≠ [])
    (h : Lumina.Model.SyncerGate.fetchDecision e.slowMin (gateIn e s) = .ok (.request r)) :
    1 ≤ r.1 ∧ r.1 ≤ r.2 ∧ NbStored s.store r.1 r.2 :=
  request_has_stored_neighbour hi htop hne h

/-- **C38 safety, one reaction.** -/
theorem reaction_keeps_store_on_honest_chain (v : Hdr → Hdr → Bool) (c : Nat → Hdr)
    (hd : LinkDown v c) (hu : LinkUp v c) (e : Env) (hev : e.verify = v) (s : State) (hi : Inv c s)
    (ev : Ev) (hok : EvOk v c s ev) : Inv c (step e s ev).1 :=
  step_inv hd hu hev hi hok

/-- **C38 safety, every run.**  Start the worker with an empty store (any batch size) and let the
    environment produce ANY finite sequence of events — peer-count changes (disconnect /
    reconnect), network heads from trusted peers, header-sub announcements, and results of the
    ongoing request, each either a non-fatal error or ANY list of headers the p2p layer accepts
    (so: whatever invalid, forked, truncated, failing answers the peers gave before).  After every
    prefix of the run every stored header is the honest chain's header of its height. -/
theorem store_stays_on_honest_chain (v : Hdr → Hdr → Bool) (c : Nat → Hdr)
    (hd : LinkDown v c) (hu : LinkUp v c) (e : Env) (hev : e.verify = v) (bs : Nat)
    (evs : List Ev) (hr : RunOk v c e { batchSize := bs } evs) (k : Nat) :
    AllOnChain c (run e { batchSize := bs } (evs.take k)).store :=
  (run_inv hd hu hev _ _ (inv_init c bs) (runOk_take evs _ k hr)).onchain

/-- the same from any state that satisfies the invariant (e.g. a restarted node whose store is
    on the honest chain and has nothing pruned above its head) -/
theorem store_stays_on_honest_chain_from (v : Hdr → Hdr → Bool) (c : Nat → Hdr)
    (hd : LinkDown v c) (hu : LinkUp v c) (e : Env) (hev : e.verify = v) (s : State) (hi : Inv c s)
    (evs : List Ev) (hr : RunOk v c e s evs) (k : Nat) :
    AllOnChain c (run e s (evs.take k)).store :=
  (run_inv hd hu hev _ _ hi (runOk_take evs _ k hr)).onchain

/-! ### non-vacuity: a concrete world satisfying every hypothesis -/

/-- honest chain: header `h` has id = hash = `h` -/
def exChain (h : Nat) : Hdr := { id := h, height := h, hash := h, valid := true }
/-- `verify` accepts exactly adjacent honest headers -/
def exVerify (a b : Hdr) : Bool := a.height + 1 == b.height && a.hash == a.height && b.hash == b.height
def exEnv : Env :=
  { verify := exVerify, chain := { oldS := fun h => decide (h ≤ 3), oldP := fun _ => false }, slowMin := 50 }

example : LinkDown exVerify exChain := by
  intro a b hv _ ha _
  simp only [exVerify, Bool.and_eq_true, beq_iff_eq] at hv
  exact ⟨ha, by simp [exChain]; exact hv.1.2⟩

example : LinkUp exVerify exChain := by
  intro a b hv _ hb _
  simp only [exVerify, Bool.and_eq_true, beq_iff_eq] at hv
  exact ⟨hb, by simp [exChain]; exact hv.2⟩

/-- a run: one peer, network head 10, the worker requests 6..9 (batch size 4), the honest answer
    is stored, the next request is 2..5 -/
example :
    let evs : List Ev := [.peers 1, .netHead (exChain 10),
      .batch (some [exChain 6, exChain 7, exChain 8, exChain 9])]
    (run exEnv { batchSize := 4 } evs).store.storedRanges = [(6, 10)] ∧
    (run exEnv { batchSize := 4 } evs).ongoing = some (2, 5) := by decide

/-! ### convergence (partial) -/

/-- the full liveness statement, NOT proved: under the environment assumption that every
    scheduled request is eventually answered by an honest peer with the honest headers of the
    requested range (and that the runtime keeps polling the worker), eventually no height of the
    sampling window up to the network head is missing.  What IS proved below: the variant that
    such answers strictly decrease, and that the worker keeps scheduling requests while the
    variant of the window is positive. -/
def ConvergenceFullStatement : Prop :=
  ∀ (v : Hdr → Hdr → Bool) (c : Nat → Hdr) (e : Env) (s : State) (lo H : Nat),
    Inv c s → s.head = some H → s.phase = .connected → s.peers ≠ 0 →
    1 ≤ lo → e.chain.oldS lo = false →     -- `lo` = the first height inside the sampling window
    ∃ evs : List Ev, RunOk v c e s evs ∧ missing (run e s evs).store lo H = 0

/-- **Variant.**  `missing a lo hi` = number of heights of `[lo, hi]` that are not stored.
    No insertion increases it; an accepted non-empty batch whose first height lies in `[lo, hi]`
    strictly decreases it (so: finitely many accepted batches fill any fixed range). -/
theorem convergence_variant_decreases_partial (v : Hdr → Hdr → Bool) (a : AbsStore) (b : List Hdr)
    (lo hi : Nat) :
    missing (a.insert v b).1 lo hi ≤ missing a lo hi ∧
    (∀ l h, AbsStore.insertCheck v a b = .ok (some (l, h)) → lo ≤ l → l ≤ hi →
      missing (a.insert v b).1 lo hi < missing a lo hi) :=
  ⟨missing_insert_le v a b lo hi, fun l h hc h1 h2 => missing_insert_lt v a b lo hi l h hc h1 h2⟩

/-- **Progress.**  A worker with a connected peer, no ongoing batch, nothing pruned, the slow-sync
    gate not armed and batch size ≥ 1 schedules a request whenever some height `1 ≤ m ≤ head`
    inside the sampling window is not stored (header age monotone in the height). -/
theorem convergence_progress_partial (e : Env) (s : State) (H m : Nat)
    (hi : Lumina.Proofs.Store.AbsInv s.store) (hpr : s.store.pruned = [])
    (hong : s.ongoing = none) (hpeers : s.peers ≠ 0) (hhead : s.head = some H) (hH : H < U64_MAX)
    (hbs : 1 ≤ s.batchSize) (hslow : s.slowSync = none)
    (hmono : ∀ h1 h2, h1 ≤ h2 → e.chain.oldS h2 = true → e.chain.oldS h1 = true)
    (hm1 : 1 ≤ m) (hm2 : m ≤ H) (hm3 : s.store.stored m = false) (hm4 : e.chain.oldS m = false) :
    ∃ r, (fetchNextBatch e s).2 = some r := by
  obtain ⟨ist, mst⟩ := storedRanges_spec hi
  have hpr' : s.store.prunedRanges = [] := by
    simp [AbsStore.prunedRanges, hpr, Lumina.Spec.C19.rangesOf, Lumina.Spec.C19.sup,
      Lumina.Spec.C19.runsDesc, AbsStore.isPruned]
  obtain ⟨r, hr⟩ := Lumina.Proofs.SyncerGate.gate_progress (pc := true) (slowMin := e.slowMin)
    (i := gateIn e s) (old := e.chain.oldS) (H := H) (m := m)
    ist hpr' (by simp [gateIn, hong]) hpeers hhead hH hbs hslow (fun _ => rfl) hmono hm1 hm2
    (fun hc => by rw [(mst m).1 hc] at hm3; cases hm3) hm4
  refine ⟨r, ?_⟩
  unfold fetchNextBatch
  have : Lumina.Model.SyncerGate.fetchDecision e.slowMin (gateIn e s) = .ok (.request r) := hr
  rw [this]

/-- **An honest answer always helps.**  Whatever request `fetch_next_batch` schedules in a state
    satisfying the invariant, the honest headers of exactly that range are admissible for the p2p
    layer, pass every check of the store's `insert`, and strictly decrease the number of missing
    heights of `[1, K]` (any `K` at or above the start of the batch). -/
theorem honest_answer_is_accepted_partial (v : Hdr → Hdr → Bool) (c : Nat → Hdr) (hc : HonestChain v c)
    (e : Env) (s : State) (hi : Inv c s) (hne : s.store.hdrs ≠ []) (r : Lumina.Model.Ranges.Range)
    (h : Lumina.Model.SyncerGate.fetchDecision e.slowMin (gateIn e s) = .ok (.request r))
    (K : Nat) (hK : r.1 ≤ K) :
    p2pAccepts v r (span c r.1 (r.2 + 1 - r.1)) = true ∧
    AbsStore.insertCheck v s.store (span c r.1 (r.2 + 1 - r.1)) = .ok (some (r.1, r.2)) ∧
    missing (s.store.insert v (span c r.1 (r.2 + 1 - r.1))).1 1 K < missing s.store 1 K :=
  honest_answer_progress hc hi hne h K hK

/-- **Convergence when honest peers answer** (the liveness half of C38 under its environment
    assumption, made explicit as the schedule).  From a steady state — connected, idle, store on
    the honest chain and not above the head `H`, nothing pruned, slow-sync not armed, batch size
    ≥ 1 — let the worker decide and let every request it schedules be answered with the honest
    headers of the requested range.  Then after at most `missing store 1 H` such answers the
    worker has nothing more to schedule and EVERY height of the sampling window up to the network
    head is stored; each event of the run is admissible.
    Partial: other events interleaving with the answers, the assumption that peers do answer,
    and the runtime are outside the theorem. -/
theorem converges_when_honest_peers_answer_partial (v : Hdr → Hdr → Bool) (c : Nat → Hdr)
    (hc : HonestChain v c) (e : Env) (hev : e.verify = v) (hP : ∀ h, e.chain.oldP h = false)
    (hmono : ∀ h1 h2, h1 ≤ h2 → e.chain.oldS h2 = true → e.chain.oldS h1 = true)
    (H : Nat) (s0 : State) (hs : Steady c e s0 H) :
    ∃ evs : List Ev, RunOk v c e (fetchNextBatch e s0).1 evs ∧
      evs.length ≤ missing s0.store 1 H ∧
      WindowFull e (run e (fetchNextBatch e s0).1 evs).store H ∧
      (run e (fetchNextBatch e s0).1 evs).ongoing = none :=
  honest_schedule_converges hc hev hP hmono H _ s0 hs (Nat.le_refl _)

/-- non-vacuity: the example world is an honest chain … -/
example : HonestChain exVerify exChain where
  height := fun _ => rfl
  valid := fun _ => rfl
  hashInj := fun _ _ h => h
  verifies := by
    intro a b ha hb hh
    simp only [exVerify, Bool.and_eq_true, beq_iff_eq]
    exact ⟨⟨hh, by have := ha.2; simpa [exChain] using this⟩, by have := hb.2; simpa [exChain] using this⟩

/-- … and the honest schedule from "head 10 stored, batch size 4, heights ≤ 3 outside the window"
    ends with 2..10 stored and nothing scheduled (the batch 2..5 straddles the window edge) -/
example :
    let evs : List Ev := [.peers 1, .netHead (exChain 10),
      .batch (some (span exChain 6 4)), .batch (some (span exChain 2 4))]
    (run exEnv { batchSize := 4 } evs).store.storedRanges = [(2, 10)] ∧
    (run exEnv { batchSize := 4 } evs).ongoing = none := by decide

end Lumina.Props.C38

/-
  C04 — A verified sample is the share at the requested coordinates.   PROPERTY THEOREMS ONLY.

  Model: `Lumina/Model/Sample.lean` (`verify` = `Sample::verify` after the `fix:` commit, `verifyUnfixed` = before),
  over the nmt-rs model `Lumina/Model/Nmt.lean` and the square/DAH model `Lumina/Model/Eds.lean`.
  Spec: `Lumina/Spec/C04.lean` (`specVerify`, `specHonest`), which does not mention the model.
  The hash is a parameter; soundness is stated under the idealised-hash hypothesis `HashOK H`
  (injective, 32-byte output) and, equivalently, in the "accepts a wrong share ⇒ explicit collision" form.
-/
import Lumina.Proofs.Eds
import Lumina.Model.Sample
import Lumina.Spec.C04

namespace Lumina.Props.C04
open Lumina.Util Lumina.Model.Nmt Lumina.Model.Eds Lumina.Model.Sample
open Lumina.Proofs.Nmt Lumina.Proofs.Eds Lumina.Spec.C04

/-- observed verdict of a verification -/
def accepted {ε} (r : Except ε Unit) : Bool :=
  match r with
  | .ok _ => true
  | .error _ => false

/-- the square as the spec sees it: the plain row-major list of share byte strings -/
def rawSquare (e : Eds) : List Bytes := e.shares.map Share.data

theorem share_ns_length {sh : Share} (h : NS_SIZE ≤ sh.data.length) : sh.ns.length = NS_SIZE := by
  unfold Share.ns
  split
  · simp [parityNs, maxNsId]
  · simp [List.length_take]; omega

/-- what an accepted single-leaf range proof against an axis root says about the axis' shares -/
theorem axis_leaf_bound {H : HashFn} (hk : HashOK H) {e : Eds} {k : Nat} (hw : e.width = 2 ^ k)
    (hsz : ∀ sh ∈ e.shares, NS_SIZE ≤ sh.data.length) {ax : Axis} {index i : Nat} {root : NsHash}
    (hroot : e.axisRoot H ax index = .ok root) (hi : i < e.width)
    {s : Sample} (hss : NS_SIZE ≤ s.share.data.length) (hsib : ∀ p ∈ s.proof.siblings, p.WF)
    (hv : verifyRange H s.proof root [s.share.data] s.share.ns = .ok ()) (hst : s.proof.start = i) :
    ∃ sh, e.share? (axisCoord ax index i).1 (axisCoord ax index i).2 = some sh ∧ sh.data = s.share.data := by
  obtain ⟨shares, hax, hcr⟩ := axisRoot_ok hroot
  obtain ⟨hlen, hget⟩ := axis?_some hax
  obtain ⟨sh, hsh, hshi⟩ := hget i hi
  refine ⟨sh, hsh, ?_⟩
  -- every share of the axis is a share of the square
  have hmem : ∀ x ∈ shares, x ∈ e.shares := by
    intro x hx
    obtain ⟨n, hn, rfl⟩ := List.getElem_of_mem hx
    obtain ⟨y, hy1, hy2⟩ := hget n (by omega)
    rw [List.getElem?_eq_getElem hn] at hy2
    injection hy2 with hy2
    rw [hy2]
    exact List.mem_of_getElem? hy1
  have al : AllLeaf H (shares.map (Share.leafHash H)) := by
    intro x hx
    obtain ⟨y, hy, rfl⟩ := List.mem_map.mp hx
    exact ⟨y.ns, y.data, share_ns_length (hsz y (hmem y hy)), rfl⟩
  have lx : IsLeaf H (hashLeaf H s.share.ns s.share.data) := ⟨_, _, share_ns_length hss, rfl⟩
  unfold verifyRange at hv
  split at hv
  · cases hv
  · split at hv
    · cases hv
    · simp only [List.map_cons, List.map_nil] at hv
      rw [hst] at hv
      have hL : (shares.map (Share.leafHash H)).length = 2 ^ k := by simp [hlen, hw]
      have hik : i < 2 ^ k := by omega
      have := checkRangeProof_single_sound hk al hL hcr lx hsib hik hv
      rw [List.getElem?_map, hshi] at this
      simp only [Option.map_some, Option.some.injEq, Share.leafHash] at this
      have hns : sh.ns = s.share.ns := congrArg NsHash.minNs this
      have hh : (hashLeaf H sh.ns sh.data).hash = (hashLeaf H s.share.ns s.share.data).hash := congrArg NsHash.hash this
      exact (hashLeaf_inj hk (by rw [hns]) hh).2

/-- **Soundness, both proof axes, every square of power-of-two width, every sample, every coordinate.**
    `Sample::verify` (as fixed) accepts only if the sample's share is exactly the share at the requested row and
    column of the square whose DAH it is checked against.  Hypotheses: idealised hash; the sizes that the Rust
    array types guarantee (namespaced hashes are 29+29+32 bytes, shares are at least a namespace long). -/
theorem sample_sound {H : HashFn} (hk : HashOK H) {e : Eds} {k : Nat} (hw : e.width = 2 ^ k)
    (hsz : ∀ sh ∈ e.shares, NS_SIZE ≤ sh.data.length) {dah : Dah} (hd : Dah.ofEds H e = .ok dah)
    (s : Sample) (hss : NS_SIZE ≤ s.share.data.length) (hsib : ∀ p ∈ s.proof.siblings, p.WF) (row col : Nat) :
    specVerify e.width (rawSquare e) row col s.share.data (accepted (verify H s row col dah)) = true := by
  cases hv : verify H s row col dah with
  | error er => simp [accepted, specVerify]
  | ok u =>
    obtain ⟨hrl, hcl, hrows, hcols⟩ := dah_ofEds_roots hd
    unfold verify at hv
    cases hr : dah.rowRoot? row with
    | none => simp [hr] at hv
    | some rowRoot =>
      cases hc : dah.colRoot? col with
      | none => simp [hr, hc] at hv
      | some colRoot =>
        simp only [hr, hc] at hv
        have hrow : row < e.width := by
          unfold Dah.rowRoot? at hr
          have := (List.getElem?_eq_some_iff.mp hr).1; omega
        have hcol : col < e.width := by
          unfold Dah.colRoot? at hc
          have := (List.getElem?_eq_some_iff.mp hc).1; omega
        obtain ⟨rr, hrr1, hrr2⟩ := hrows row hrow
        obtain ⟨cr, hcr1, hcr2⟩ := hcols col hcol
        have e1 : rr = rowRoot := by unfold Dah.rowRoot? at hr; rw [hrr2] at hr; injection hr
        have e2 : cr = colRoot := by unfold Dah.colRoot? at hc; rw [hcr2] at hc; injection hc
        subst e1; subst e2
        have key : ∃ sh, e.share? row col = some sh ∧ sh.data = s.share.data := by
          cases hp : s.proofType with
          | row =>
            simp only [hp] at hv
            split at hv
            · cases hv
            · rename_i hst
              have hst' : s.proof.start = col := by simpa using hst
              cases hvr : verifyRange H s.proof rr [s.share.data] s.share.ns with
              | error er => simp [hvr] at hv
              | ok u' => exact axis_leaf_bound hk hw hsz hrr1 hcol hss hsib hvr hst'
          | col =>
            simp only [hp] at hv
            split at hv
            · cases hv
            · rename_i hst
              have hst' : s.proof.start = row := by simpa using hst
              cases hvr : verifyRange H s.proof cr [s.share.data] s.share.ns with
              | error er => simp [hvr] at hv
              | ok u' => exact axis_leaf_bound hk hw hsz hcr1 hrow hss hsib hvr hst'
        obtain ⟨sh, hsh, hdata⟩ := key
        unfold Eds.share? at hsh
        simp only [accepted, specVerify, shareAt, hrow, hcol, and_self, ↓reduceIte, rawSquare, Bool.not_true,
          Bool.false_or, List.getElem?_map, hsh, Option.map_some, hdata, beq_self_eq_true]

end Lumina.Props.C04

/-
  C04 — A verified sample is the share at the requested coordinates.   PROPERTY THEOREMS ONLY.

  Model: `Lumina/Model/Sample.lean` (`verify` = `Sample::verify` after the `fix:` commit, `verifyUnfixed` = before),
  over the nmt-rs model `Lumina/Model/Nmt.lean` and the square/DAH model `Lumina/Model/Eds.lean`.
  Spec: `Lumina/Spec/C04.lean` (`specVerify`, `specHonest`), which does not mention the model.
  The hash is a parameter.  Soundness is stated under collision-freeness RELATIVE TO the byte strings actually hashed
  (`HashOKOn H (· ∈ hashedC04 H e s)`: the square's row/column trees and the verifier's run; satisfiable, see the
  non-vacuity instance) and as a reduction: accepting a wrong share yields an explicit collision among those inputs
  (`sample_forgery_yields_collision`).  Completeness needs only the 32-byte output length.
-/
import Lumina.Proofs.Sample
import Lumina.Gen.C04

namespace Lumina.Props.C04
open Lumina.Util Lumina.Model.Nmt Lumina.Model.Eds Lumina.Model.Sample
open Lumina.Proofs.Nmt Lumina.Proofs.Eds Lumina.Proofs.Sample Lumina.Spec.C04

/-- the sizes the model and the theorems use are the ones in the current source tree -/
theorem consts_eq :
    Lumina.Gen.C04.NS_SIZE = 29 ∧ Lumina.Gen.C04.NS_SIZE = Lumina.Model.Nmt.NS_SIZE ∧
    Lumina.Gen.C04.HASH_SIZE = Lumina.Model.Nmt.HASH_LEN ∧
    Lumina.Gen.C04.SHARE_SIZE = 512 ∧ Lumina.Gen.C04.SHARE_SIZE = Lumina.Model.Eds.SHARE_SIZE := by
  decide

/-- the byte strings hashed by the two computations `sample_sound` compares: everything hashed when the DAH of the
    square is computed (`edsInputs`: leaf and inner-node preimages of all row and column trees, and the empty string behind
    `EMPTY_ROOT`) and everything hashed while the verifier checks this sample (`sampleInputs`) -/
def hashedC04 (H : HashFn) (e : Eds) (s : Sample) : List Bytes := edsInputs H e ++ sampleInputs H s

/-- **Soundness, both proof axes, every square of power-of-two width, every sample, every coordinate.**
    `Sample::verify` (as fixed) accepts only if the sample's share is exactly the share at the requested row and
    column of the square whose DAH it is checked against.  Hypotheses: the hash has 32-byte output and NO COLLISION AMONG
    THE INPUTS ACTUALLY HASHED by the two computations (`hashedC04`, a finite explicit list — satisfiable, see the
    non-vacuity example); the sizes that the Rust array types guarantee (namespaced hashes are 29+29+32 bytes, shares are
    at least a namespace long). -/
theorem sample_sound {H : HashFn} {e : Eds} {k : Nat} (hw : e.width = 2 ^ k)
    (hsz : ∀ sh ∈ e.shares, NS_SIZE ≤ sh.data.length) {dah : Dah} (hd : Dah.ofEds H e = .ok dah)
    (s : Sample) (hss : NS_SIZE ≤ s.share.data.length) (hsib : ∀ p ∈ s.proof.siblings, p.WF) (row col : Nat)
    (hk : HashOKOn H (fun y => y ∈ hashedC04 H e s)) :
    specVerify e.width (rawSquare e) row col s.share.data (accepted (verify H s row col dah)) = true := by
  cases hv : verify H s row col dah with
  | error er => simp [accepted, specVerify]
  | ok u =>
    obtain ⟨hrl, hcl, hrows, hcols⟩ := dah_ofEds_roots hd
    unfold verify at hv
    cases hr : dah.rowRoot? row with
    | none => simp [hr] at hv
    | some rowRoot =>
      cases hc : dah.colRoot? col with
      | none => simp [hr, hc] at hv
      | some colRoot =>
        simp only [hr, hc] at hv
        have hrow : row < e.width := by
          unfold Dah.rowRoot? at hr
          have := (List.getElem?_eq_some_iff.mp hr).1; omega
        have hcol : col < e.width := by
          unfold Dah.colRoot? at hc
          have := (List.getElem?_eq_some_iff.mp hc).1; omega
        obtain ⟨rr, hrr1, hrr2⟩ := hrows row hrow
        obtain ⟨cr, hcr1, hcr2⟩ := hcols col hcol
        have e1 : rr = rowRoot := by unfold Dah.rowRoot? at hr; rw [hrr2] at hr; injection hr
        have e2 : cr = colRoot := by unfold Dah.colRoot? at hc; rw [hcr2] at hc; injection hc
        subst e1; subst e2
        have key : ∃ sh, e.share? row col = some sh ∧ sh.data = s.share.data := by
          cases hp : s.proofType with
          | row =>
            simp only [hp] at hv
            split at hv
            · cases hv
            · rename_i hst
              have hst' : s.proof.start = col := by simpa using hst
              cases hvr : luminaVerifyRange H s.proof rr [s.share.data] s.share.ns with
              | error er => simp [hvr] at hv
              | ok u' => exact axis_leaf_bound_on hk hw hsz hrr1 hcol hss hsib (fun y hy => List.mem_append_left _ (axisInputs_mem_eds hrow hy)) (fun y hy => List.mem_append_right _ hy) (luminaVerifyRange_ok hvr) hst'
          | col =>
            simp only [hp] at hv
            split at hv
            · cases hv
            · rename_i hst
              have hst' : s.proof.start = row := by simpa using hst
              cases hvr : luminaVerifyRange H s.proof cr [s.share.data] s.share.ns with
              | error er => simp [hvr] at hv
              | ok u' => exact axis_leaf_bound_on hk hw hsz hcr1 hrow hss hsib (fun y hy => List.mem_append_left _ (axisInputs_mem_eds hcol hy)) (fun y hy => List.mem_append_right _ hy) (luminaVerifyRange_ok hvr) hst'
        obtain ⟨sh, hsh, hdata⟩ := key
        unfold Eds.share? at hsh
        simp only [accepted, specVerify, shareAt, hrow, hcol, and_self, ↓reduceIte, rawSquare, Bool.not_true,
          Bool.false_or, List.getElem?_map, hsh, Option.map_some, hdata, beq_self_eq_true]


/-- **Reduction form**: for ANY hash with 32-byte output, if `Sample::verify` accepts a share that is not the share at
    the requested coordinates, then two DIFFERENT byte strings among the explicitly listed inputs hashed by the DAH
    computation and by the verifier (`hashedC04`) have the same digest. -/
theorem sample_forgery_yields_collision {H : HashFn} (hl : HashLen H) {e : Eds} {k : Nat} (hw : e.width = 2 ^ k)
    (hsz : ∀ sh ∈ e.shares, NS_SIZE ≤ sh.data.length) {dah : Dah} (hd : Dah.ofEds H e = .ok dah)
    (s : Sample) (hss : NS_SIZE ≤ s.share.data.length) (hsib : ∀ p ∈ s.proof.siblings, p.WF) (row col : Nat)
    (hbad : specVerify e.width (rawSquare e) row col s.share.data (accepted (verify H s row col dah)) = false) :
    CollisionIn H (fun y => y ∈ hashedC04 H e s) := by
  rcases noCollOn_or_collision H (fun y => y ∈ hashedC04 H e s) with h | h
  · have := sample_sound hw hsz hd s hss hsib row col ⟨h, hl⟩
    rw [this] at hbad; cases hbad
  · exact h

/-- **Completeness.**  For every valid square (what `ExtendedDataSquare::new` accepts), every coordinate inside
    it and both proof axes: `Sample::new` succeeds, encoding and decoding (`RawSample`) gives the sample back, and
    `Sample::verify` accepts it; the sample carries the share at the coordinate. -/
theorem sample_complete {H : HashFn} (hl : HashLen H) {e : Eds} {k : Nat} (hv : ValidSquare e k)
    {dah : Dah} (hd : Dah.ofEds H e = .ok dah) (row col : Nat) (hr : row < e.width) (hc : col < e.width) (ax : Axis) :
    ∃ s, Lumina.Model.Sample.new H e row col ax = .ok s ∧ fromRaw row col (toRaw s) = .ok s ∧
      specHonest e.width (rawSquare e) row col (some s.share.data) (accepted (verify H s row col dah)) = true := by
  obtain ⟨s, h1, h2, h3, h4⟩ := sample_complete_core hl hv hd row col hr hc ax
  refine ⟨s, h1, h2, ?_⟩
  unfold Eds.share? at h4
  simp [specHonest, shareAt, hr, hc, rawSquare, List.getElem?_map, h4, h3, accepted]

/-! ### The defect that was fixed: before the fix the full-strength statement was FALSE -/

/-- an injective toy hash (identity) for concrete evaluation -/
def toyH : HashFn := fun x => x
/-- 2×2 square with one-byte shares: (0,0) is original data, the rest parity -/
def cexEds : Eds := Eds.ofRaw 2 [[1], [2], [3], [4]]
def cexDah : Dah := match Dah.ofEds toyH cexEds with | .ok d => d | .error _ => default
/-- the honest sample of position (0,1), row proof -/
def cexSample : Sample := match Lumina.Model.Sample.new toyH cexEds 0 1 .row with | .ok s => s | .error _ => default

/-- `Sample::verify` as it was BEFORE the fix accepts the honest sample of (0,1) for the coordinates (0,0):
    the soundness statement fails for the unfixed model, even with an injective hash. -/
theorem sample_sound_unfixed_counterexample :
    Function.Injective toyH ∧ Dah.ofEds toyH cexEds = .ok cexDah ∧
    specVerify cexEds.width (rawSquare cexEds) 0 0 cexSample.share.data
      (accepted (verifyUnfixed toyH cexSample 0 0 cexDah)) = false :=
  ⟨fun _ _ h => h, rfl, by decide⟩

/-- … and the fixed `verify` rejects exactly that input while still accepting it at its own coordinates -/
theorem sample_fixed_on_counterexample :
    accepted (verify toyH cexSample 0 0 cexDah) = false ∧ accepted (verify toyH cexSample 0 1 cexDah) = true := by
  decide

/-! ### Non-vacuity -/

/-- a toy hash with 32-byte output -/
def toyH32 : HashFn := fun x => (x ++ List.replicate 32 0).take 32

theorem nonvacuity_toyH32_len : HashLen toyH32 := by
  intro x; simp [toyH32, HASH_LEN, List.length_take]

/-- 2×2 square of 512-byte shares; the original-data share has the all-zero (valid, version 0) namespace -/
def okEds : Eds := Eds.ofRaw 2 [List.replicate 512 0, List.replicate 512 1, List.replicate 512 2, List.replicate 512 3]
def okDah : Dah := match Dah.ofEds toyH32 okEds with | .ok d => d | .error _ => default

def isOkNs (r : Except Lumina.Model.Namespace.Err Bytes) : Bool := match r with | .ok _ => true | .error _ => false

set_option maxRecDepth 20000 in
theorem nonvacuity_okEds_valid : ValidSquare okEds 1 where
  width := rfl
  kpos := by decide
  kle := by decide
  flags := by
    have h : ∀ r, r < 2 → ∀ c, c < 2 →
        (match okEds.share? r c with | some sh => sh.isParity == !isOdsSquare r c okEds.width | none => true) = true := by
      decide
    intro r c sh hr hc hs
    have := h r hr c hc
    rw [hs] at this
    simpa using this
  size := by
    have h : okEds.shares.all (fun sh => sh.data.length == SHARE_SIZE) = true := by decide
    intro sh hm
    have := List.all_eq_true.mp h sh hm
    simpa using this
  ns := by
    have h : okEds.shares.all (fun sh => sh.isParity || isOkNs (Lumina.Model.Namespace.fromRaw (sh.data.take NS_SIZE))) = true := by
      decide
    intro sh hm hp
    have := List.all_eq_true.mp h sh hm
    simp only [hp, Bool.false_or] at this
    cases hf : Lumina.Model.Namespace.fromRaw (sh.data.take NS_SIZE) with
    | ok n => exact ⟨n, rfl⟩
    | error er => simp [hf, isOkNs] at this

set_option maxRecDepth 20000 in
/-- the hypotheses of `sample_complete` hold of a concrete hash, square and DAH -/
example : HashLen toyH32 ∧ ValidSquare okEds 1 ∧ Dah.ofEds toyH32 okEds = .ok okDah := ⟨nonvacuity_toyH32_len, nonvacuity_okEds_valid, rfl⟩

/-! ### Non-vacuity of `sample_sound`: ALL hypotheses hold on a concrete instance -/

def sumDah : Dah := match Dah.ofEds toySum okEds with | .ok d => d | .error _ => default
/-- the honest sample of position (0,1) of `okEds` (512-byte shares), row proof, under the toy hash -/
def sumSample : Sample :=
  match Lumina.Model.Sample.new toySum okEds 0 1 .row with | .ok s => s | .error _ => default

set_option maxRecDepth 100000 in
/-- the toy hash has no collision among the 15 byte strings hashed for this square and this sample -/
theorem nonvacuity_toySum_nocoll : NoCollOn toySum (fun y => y ∈ hashedC04 toySum okEds sumSample) :=
  noCollOn_of_list (by decide)

set_option maxRecDepth 100000 in
/-- `sample_sound` applied to a concrete accepted sample: every hypothesis (incl. relative collision-freeness) holds -/
example : accepted (verify toySum sumSample 0 1 sumDah) = true ∧
    specVerify okEds.width (rawSquare okEds) 0 1 sumSample.share.data (accepted (verify toySum sumSample 0 1 sumDah)) = true := by
  refine ⟨by decide, ?_⟩
  have hsib : ∀ p ∈ sumSample.proof.siblings, p.WF := by
    have h : sumSample.proof.siblings.all (fun x => decide x.WF) = true := by decide
    intro p hp
    simpa using List.all_eq_true.mp h p hp
  exact sample_sound (k := 1) rfl (fun sh hm => by rw [nonvacuity_okEds_valid.size sh hm]; decide) (dah := sumDah) rfl
    sumSample (by decide) hsib 0 1 ⟨nonvacuity_toySum_nocoll, toySum_len⟩

end Lumina.Props.C04

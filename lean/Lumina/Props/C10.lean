import Lumina.Gen.C10
import Lumina.Model.ShwapHasher
import Lumina.Spec.C10

namespace Lumina.Props.C10

theorem consts_eq :
    Lumina.Gen.C10.ROW_ID_MULTIHASH_CODE = Lumina.Gen.C15.ROW_ID_MULTIHASH_CODE ∧
    Lumina.Gen.C10.SAMPLE_ID_MULTIHASH_CODE = Lumina.Gen.C15.SAMPLE_ID_MULTIHASH_CODE ∧
    Lumina.Gen.C10.ROW_NAMESPACE_DATA_ID_MULTIHASH_CODE = Lumina.Gen.C15.ROW_NAMESPACE_DATA_ID_MULTIHASH_CODE ∧
    Lumina.Gen.C10.ROW_ID_CODEC = Lumina.Gen.C15.ROW_ID_CODEC ∧
    Lumina.Gen.C10.SAMPLE_ID_CODEC = Lumina.Gen.C15.SAMPLE_ID_CODEC ∧
    Lumina.Gen.C10.ROW_NAMESPACE_DATA_CODEC = Lumina.Gen.C15.ROW_NAMESPACE_DATA_CODEC ∧
    Lumina.Gen.C10.MAX_MH_SIZE = 64 := by decide

end Lumina.Props.C10

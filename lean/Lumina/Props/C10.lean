/-
  C10 — Bitswap accepts Shwap blocks only when they verify against the DAH.   PROPERTY THEOREMS ONLY.

  Model: `Lumina/Model/ShwapHasher.lean` (`multihash` = `ShwapMultihasher::hash`, `hashBlock` = the macro body,
  `getBlockContainer`), over group C's CID/identifier model (`ShwapId`) and group D3's container decoders/verifiers
  (`Decoders`: `sampleFromRaw/sampleVerify`, `rowFromRaw/rowVerify`, `rndFromRaw/rndVerify`).
  Spec: `Lumina/Spec/C10.lean`.  Parameters: prost decoding of the block and of the containers, the leopard codec,
  the hash, the header store (height ↦ DAH).
-/
import Lumina.Gen.C10
import Lumina.Proofs.ShwapHasher
import Lumina.Proofs.ShwapSound


namespace Lumina.Props.C10
open Lumina.Util Lumina.Model.Nmt Lumina.Model.Eds Lumina.Model.ShwapId Lumina.Model.Decoders Lumina.Model.ShwapHasher
open Lumina.Proofs.ShwapHasher Lumina.Proofs.ShwapSound Lumina.Proofs.Nmt Lumina.Proofs.Eds
open Lumina.Spec.C10 (specHash specContainer)

/-- the multihash codes and codecs the hasher dispatches on, and the multihash size of bitswap, re-read from /repo -/
theorem consts_eq :
    Lumina.Gen.C10.ROW_ID_MULTIHASH_CODE = Lumina.Gen.C15.ROW_ID_MULTIHASH_CODE ∧
    Lumina.Gen.C10.SAMPLE_ID_MULTIHASH_CODE = Lumina.Gen.C15.SAMPLE_ID_MULTIHASH_CODE ∧
    Lumina.Gen.C10.ROW_NAMESPACE_DATA_ID_MULTIHASH_CODE = Lumina.Gen.C15.ROW_NAMESPACE_DATA_ID_MULTIHASH_CODE ∧
    Lumina.Gen.C10.ROW_ID_CODEC = Lumina.Gen.C15.ROW_ID_CODEC ∧
    Lumina.Gen.C10.SAMPLE_ID_CODEC = Lumina.Gen.C15.SAMPLE_ID_CODEC ∧
    Lumina.Gen.C10.ROW_NAMESPACE_DATA_CODEC = Lumina.Gen.C15.ROW_NAMESPACE_DATA_CODEC ∧
    Lumina.Gen.C10.MAX_MH_SIZE = 64 := by decide

/-- an unknown multihash code is reported as such, whatever the input -/
theorem unknown_code (H : HashFn) (P : Params) (store : Nat → Option Dah) (code : Nat) (input : Bytes)
    (hc : knownCode code = false) : multihash H P store code input = .error .unknownCode := by
  unfold knownCode at hc
  simp only [Bool.or_eq_false_iff, decide_eq_false_iff_not] at hc
  unfold multihash
  rw [if_neg hc.1.1, if_neg hc.1.2, if_neg hc.2]

/-- **`Ok(h)` iff everything the property lists holds, and then `h` is the identifier hash** — for every input, every
    code, every store, every protobuf/codec behaviour, every hash. -/
theorem mh_ok_iff (H : HashFn) (P : Params) (store : Nat → Option Dah) (code : Nat) (input : Bytes) (h : Bytes) :
    multihash H P store code input = .ok h ↔ (knownCode code = true ∧ allowed H P store code input = some h) := by
  by_cases hk : knownCode code = true
  · have key : ∀ {Id C : Type} (K : Kind Id C), multihash H P store code input = hashBlock K P.decodeBlock store input →
        allowed H P store code input = K.allowed P.decodeBlock store input →
        (multihash H P store code input = .ok h ↔ (knownCode code = true ∧ allowed H P store code input = some h)) := by
      intro Id C K e1 e2
      rw [e1, e2, hk]
      rcases hashBlock_cases K P.decodeBlock store input with ⟨x, a, b⟩ | ⟨a, b⟩ | ⟨a, b⟩ <;> simp [a, b]
    rcases dispatch H P store code input hk with ⟨e1, e2⟩ | ⟨e1, e2⟩ | ⟨e1, e2⟩
    · exact key _ e1 e2
    · exact key _ e1 e2
    · exact key _ e1 e2
  · have hk' : knownCode code = false := by simpa using hk
    rw [unknown_code H P store code input hk', hk']
    simp

/-- **The property, as the spec checker, for every input**: unless the call panics (the containers' decoders and
    verifiers are shown panic-free by C16, not here), the observed outcome is exactly what the property allows —
    `UnknownMultihashCode` for an unknown code; the identifier hash iff identifier, container, stored header and
    verification all hold; an error otherwise. -/
theorem multihash_spec (H : HashFn) (P : Params) (store : Nat → Option Dah) (code : Nat) (input : Bytes)
    (hnp : multihash H P store code input ≠ .error .panic) :
    specHash (knownCode code) (allowed H P store code input) (obsOf (multihash H P store code input)) = true := by
  by_cases hk : knownCode code = true
  · have key : ∀ {Id C : Type} (K : Kind Id C), multihash H P store code input = hashBlock K P.decodeBlock store input →
        allowed H P store code input = K.allowed P.decodeBlock store input →
        specHash true (allowed H P store code input) (obsOf (multihash H P store code input)) = true := by
      intro Id C K e1 e2
      rw [e1] at hnp ⊢
      rw [e2]
      rcases hashBlock_cases K P.decodeBlock store input with ⟨x, a, b⟩ | ⟨a, b⟩ | ⟨a, _⟩
      · simp [a, b, specHash, obsOf]
      · simp [a, b, specHash, obsOf]
      · exact (hnp a).elim
    rw [hk]
    rcases dispatch H P store code input hk with ⟨e1, e2⟩ | ⟨e1, e2⟩ | ⟨e1, e2⟩
    · exact key _ e1 e2
    · exact key _ e1 e2
    · exact key _ e1 e2
  · have hk' : knownCode code = false := by simpa using hk
    rw [hk', unknown_code H P store code input hk']
    rfl

/-- non-vacuity of `multihash_spec`'s hypothesis: calls that do not panic exist for every parameter choice (e.g. the
    empty input under a known code is a plain error); accepted honest blocks occur on every correspondence run -/
example (H : HashFn) (P : Params) (store : Nat → Option Dah) (hb : P.decodeBlock [] = none) :
    multihash H P store Lumina.Gen.C15.ROW_ID_MULTIHASH_CODE [] ≠ .error .panic := by
  simp [multihash, hashBlock, hb]

/-- `get_block_container` hands the container out exactly when the block's CID equals the expected one -/
theorem container_spec (db : Bytes → Option (Bytes × Bytes)) (expected : Cid) (block : Bytes) :
    specContainer (db block) Cid.read expected (getBlockContainer db expected block) = true := by
  unfold specContainer getBlockContainer
  cases hdb : db block with
  | none => simp
  | some b =>
    obtain ⟨c, k⟩ := b
    simp only
    cases hc : Cid.read c with
    | none => simp
    | some cid =>
      by_cases he : cid = expected
      · simp [he]
      · simp [he]

/-- **Inherited soundness (C04) through bitswap**, idealised hash: when every stored header's DAH is the DAH of a
    square (`sq h`, width a power of two), a SAMPLE block for which the multihasher yields a hash carries exactly the
    share at the row and column named by the block's own CID, in the square of the header stored at the CID's height —
    whatever bytes the peer sent, whichever axis the proof uses. -/
theorem mh_sample_sound {H : HashFn} (hk : HashOK H) (P : Params) (store : Nat → Option Dah) (sq : Nat → Eds) (kk : Nat → Nat)
    (hstore : ∀ h d, store h = some d → Dah.ofEds H (sq h) = .ok d ∧ (sq h).width = 2 ^ kk h ∧
      ∀ sh ∈ (sq h).shares, NS_SIZE ≤ sh.data.length)
    (input hsh : Bytes) (hok : multihash H P store Lumina.Gen.C15.SAMPLE_ID_MULTIHASH_CODE input = .ok hsh) :
    ∃ cidB cont cid id raw s, P.decodeBlock input = some (cidB, cont) ∧ Cid.read cidB = some cid ∧
      SampleId.ofCid cid = .ok id ∧ P.decodeSample cont = some raw ∧
      sampleFromRaw id.row.index id.column raw = .ok s ∧ hsh = mhBytes id.toCid ∧
      ∃ sh, (sq id.row.eds.height).share? id.row.index id.column = some sh ∧ sh.data = s.share.data := by
  have hm : multihash H P store Lumina.Gen.C15.SAMPLE_ID_MULTIHASH_CODE input =
      hashBlock (sampleKind H P) P.decodeBlock store input := by
    unfold multihash
    rw [if_neg (by decide), if_neg (by decide), if_pos rfl]
  rw [hm] at hok
  unfold hashBlock at hok
  cases hdb : P.decodeBlock input with
  | none => simp [hdb] at hok
  | some blk =>
    obtain ⟨cidB, cont⟩ := blk
    simp only [hdb] at hok
    cases hcid : Cid.read cidB with
    | none => simp [hcid] at hok
    | some cid =>
      simp only [hcid] at hok
      cases hid : (sampleKind H P).ofCid cid with
      | error er => simp [hid] at hok
      | ok id =>
        simp only [hid] at hok
        cases hdec : (sampleKind H P).decode id cont with
        | err => simp [hdec] at hok
        | panic st => simp [hdec] at hok
        | ok s =>
          simp only [hdec] at hok
          cases hst : store ((sampleKind H P).height id) with
          | none => simp [hst] at hok
          | some dah =>
            simp only [hst] at hok
            cases hv : (sampleKind H P).verify s id dah with
            | err => simp [hv] at hok
            | panic st => simp [hv] at hok
            | ok u =>
              simp only [hv, Except.ok.injEq] at hok
              -- unpack the container decoding
              simp only [sampleKind] at hdec hst hv hid
              cases hraw : P.decodeSample cont with
              | none => simp [hraw] at hdec
              | some raw =>
                simp only [hraw] at hdec
                obtain ⟨hlen, hwf⟩ := sampleFromRaw_ok hdec
                obtain ⟨hd, hw, hsz⟩ := hstore _ _ hst
                obtain ⟨hrl, hcl, hrows, hcols⟩ := dah_ofEds_roots hd
                refine ⟨cidB, cont, cid, id, raw, s, rfl, hcid, hid, hraw, hdec, hok.symm, ?_⟩
                -- unpack the verification
                unfold sampleVerify sampleVerifyWith at hv
                cases hr : dah.rowRoot? id.row.index with
                | none => simp [hr] at hv
                | some rowRoot =>
                  cases hc : dah.colRoot? id.column with
                  | none => simp [hr, hc] at hv
                  | some colRoot =>
                    simp only [hr, hc] at hv
                    have hrow : id.row.index < (sq id.row.eds.height).width := by
                      unfold Dah.rowRoot? at hr
                      have := (List.getElem?_eq_some_iff.mp hr).1; omega
                    have hcol : id.column < (sq id.row.eds.height).width := by
                      unfold Dah.colRoot? at hc
                      have := (List.getElem?_eq_some_iff.mp hc).1; omega
                    obtain ⟨rr, hrr1, hrr2⟩ := hrows _ hrow
                    obtain ⟨cr, hcr1, hcr2⟩ := hcols _ hcol
                    have e1 : rr = rowRoot := by unfold Dah.rowRoot? at hr; rw [hrr2] at hr; injection hr
                    have e2 : cr = colRoot := by unfold Dah.colRoot? at hc; rw [hcr2] at hc; injection hc
                    subst e1; subst e2
                    have hss : NS_SIZE ≤ s.share.data.length := by rw [hlen]; decide
                    have vr_of : ∀ root, ofNmt (safeVerifyRange H s.proof root [s.share.data] s.share.ns) = .ok () →
                        verifyRange H s.proof root [s.share.data] s.share.ns = .ok () := by
                      intro root h
                      unfold safeVerifyRange at h
                      split at h
                      · simp [ofNmt] at h
                      · cases hvr : verifyRange H s.proof root [s.share.data] s.share.ns with
                        | ok u => rfl
                        | error er =>
                          rw [hvr] at h
                          cases er <;> simp [ofNmt] at h
                    cases hp : s.proofType with
                    | row =>
                      simp only [hp] at hv
                      split at hv
                      · cases hv
                      · rename_i hstart
                        have hst' : s.proof.start = id.column := by simpa using hstart
                        exact axis_leaf_bound' hk hw hsz hrr1 hcol hss hwf (vr_of _ hv) hst'
                    | col =>
                      simp only [hp] at hv
                      split at hv
                      · cases hv
                      · rename_i hstart
                        have hst' : s.proof.start = id.row.index := by simpa using hstart
                        exact axis_leaf_bound' hk hw hsz hcr1 hrow hss hwf (vr_of _ hv) hst'

end Lumina.Props.C10

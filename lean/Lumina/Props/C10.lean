/-
  C10 — Bitswap accepts Shwap blocks only when they verify against the DAH.   PROPERTY THEOREMS ONLY.

  Model: `Lumina/Model/ShwapHasher.lean` (`multihash` = `ShwapMultihasher::hash`, `hashBlock` = the macro body,
  `getBlockContainer`), over group C's CID/identifier model (`ShwapId`) and group D3's container decoders/verifiers
  (`Decoders`: `sampleFromRaw/sampleVerify`, `rowFromRaw/rowVerify`, `rndFromRaw/rndVerify`).
  Spec: `Lumina/Spec/C10.lean`.  Parameters: prost decoding of the block and of the containers, the leopard codec,
  the hash, the header store (height ↦ DAH).
-/
import Lumina.Gen.C10
import Lumina.Proofs.ShwapHasher
import Lumina.Proofs.ShwapSound
import Lumina.Proofs.ShwapSoundRows


namespace Lumina.Props.C10
open Lumina.Util Lumina.Model.Nmt Lumina.Model.Eds Lumina.Model.ShwapId Lumina.Model.Decoders Lumina.Model.ShwapHasher
open Lumina.Proofs.ShwapHasher Lumina.Proofs.ShwapSound Lumina.Proofs.ShwapSoundRows Lumina.Proofs.Nmt Lumina.Proofs.Eds
open Lumina.Spec.C10 (specHash specContainer)

/-- the multihash codes and codecs the hasher dispatches on, and the multihash size of bitswap, re-read from /repo -/
theorem consts_eq :
    Lumina.Gen.C10.ROW_ID_MULTIHASH_CODE = Lumina.Gen.C15.ROW_ID_MULTIHASH_CODE ∧
    Lumina.Gen.C10.SAMPLE_ID_MULTIHASH_CODE = Lumina.Gen.C15.SAMPLE_ID_MULTIHASH_CODE ∧
    Lumina.Gen.C10.ROW_NAMESPACE_DATA_ID_MULTIHASH_CODE = Lumina.Gen.C15.ROW_NAMESPACE_DATA_ID_MULTIHASH_CODE ∧
    Lumina.Gen.C10.ROW_ID_CODEC = Lumina.Gen.C15.ROW_ID_CODEC ∧
    Lumina.Gen.C10.SAMPLE_ID_CODEC = Lumina.Gen.C15.SAMPLE_ID_CODEC ∧
    Lumina.Gen.C10.ROW_NAMESPACE_DATA_CODEC = Lumina.Gen.C15.ROW_NAMESPACE_DATA_CODEC ∧
    Lumina.Gen.C10.MAX_MH_SIZE = 64 := by decide

/-- an unknown multihash code is reported as such, whatever the input -/
theorem unknown_code (H : HashFn) (P : Params) (store : Nat → Option Dah) (code : Nat) (input : Bytes)
    (hc : knownCode code = false) : multihash H P store code input = .error .unknownCode := by
  unfold knownCode at hc
  simp only [Bool.or_eq_false_iff, decide_eq_false_iff_not] at hc
  unfold multihash
  rw [if_neg hc.1.1, if_neg hc.1.2, if_neg hc.2]

/-- **`Ok(h)` iff everything the property lists holds, and then `h` is the identifier hash** — for every input, every
    code, every store, every protobuf/codec behaviour, every hash. -/
theorem mh_ok_iff (H : HashFn) (P : Params) (store : Nat → Option Dah) (code : Nat) (input : Bytes) (h : Bytes) :
    multihash H P store code input = .ok h ↔ (knownCode code = true ∧ allowed H P store code input = some h) := by
  by_cases hk : knownCode code = true
  · have key : ∀ {Id C : Type} (K : Kind Id C), multihash H P store code input = hashBlock K P.decodeBlock store input →
        allowed H P store code input = K.allowed P.decodeBlock store input →
        (multihash H P store code input = .ok h ↔ (knownCode code = true ∧ allowed H P store code input = some h)) := by
      intro Id C K e1 e2
      rw [e1, e2, hk]
      rcases hashBlock_cases K P.decodeBlock store input with ⟨x, a, b⟩ | ⟨a, b⟩ | ⟨a, b⟩ <;> simp [a, b]
    rcases dispatch H P store code input hk with ⟨e1, e2⟩ | ⟨e1, e2⟩ | ⟨e1, e2⟩
    · exact key _ e1 e2
    · exact key _ e1 e2
    · exact key _ e1 e2
  · have hk' : knownCode code = false := by simpa using hk
    rw [unknown_code H P store code input hk', hk']
    simp

/-- **The property, as the spec checker, for every input**: unless the call panics (the containers' decoders and
    verifiers are shown panic-free by C16, not here), the observed outcome is exactly what the property allows —
    `UnknownMultihashCode` for an unknown code; the identifier hash iff identifier, container, stored header and
    verification all hold; an error otherwise. -/
theorem multihash_spec (H : HashFn) (P : Params) (store : Nat → Option Dah) (code : Nat) (input : Bytes)
    (hnp : multihash H P store code input ≠ .error .panic) :
    specHash (knownCode code) (allowed H P store code input) (obsOf (multihash H P store code input)) = true := by
  by_cases hk : knownCode code = true
  · have key : ∀ {Id C : Type} (K : Kind Id C), multihash H P store code input = hashBlock K P.decodeBlock store input →
        allowed H P store code input = K.allowed P.decodeBlock store input →
        specHash true (allowed H P store code input) (obsOf (multihash H P store code input)) = true := by
      intro Id C K e1 e2
      rw [e1] at hnp ⊢
      rw [e2]
      rcases hashBlock_cases K P.decodeBlock store input with ⟨x, a, b⟩ | ⟨a, b⟩ | ⟨a, _⟩
      · simp [a, b, specHash, obsOf]
      · simp [a, b, specHash, obsOf]
      · exact (hnp a).elim
    rw [hk]
    rcases dispatch H P store code input hk with ⟨e1, e2⟩ | ⟨e1, e2⟩ | ⟨e1, e2⟩
    · exact key _ e1 e2
    · exact key _ e1 e2
    · exact key _ e1 e2
  · have hk' : knownCode code = false := by simpa using hk
    rw [hk', unknown_code H P store code input hk']
    rfl

/-- non-vacuity of `multihash_spec`'s hypothesis: calls that do not panic exist for every parameter choice (e.g. the
    empty input under a known code is a plain error); accepted honest blocks occur on every correspondence run -/
example (H : HashFn) (P : Params) (store : Nat → Option Dah) (hb : P.decodeBlock [] = none) :
    multihash H P store Lumina.Gen.C15.ROW_ID_MULTIHASH_CODE [] ≠ .error .panic := by
  simp [multihash, hashBlock, hb]

/-- `get_block_container` hands the container out exactly when the block's CID equals the expected one -/
theorem container_spec (db : Bytes → Option (Bytes × Bytes)) (expected : Cid) (block : Bytes) :
    specContainer (db block) Cid.read expected (getBlockContainer db expected block) = true := by
  unfold specContainer getBlockContainer
  cases hdb : db block with
  | none => simp
  | some b =>
    obtain ⟨c, k⟩ := b
    simp only
    cases hc : Cid.read c with
    | none => simp
    | some cid =>
      by_cases he : cid = expected
      · simp [he]
      · simp [he]

/-- **Inherited soundness (C04) through bitswap**: when every stored header's DAH is the DAH of a
    square (`sq h`, width a power of two), a SAMPLE block for which the multihasher yields a hash carries exactly the
    share at the row and column named by the block's own CID, in the square of the header stored at the CID's height —
    whatever bytes the peer sent, whichever axis the proof uses.  Hash hypothesis: 32-byte output and no collision on a set `S`
    that contains the byte strings hashed by `from_eds` for the stored squares (`edsInputs`) and by the verification of the
    block's own decoded sample (`sampleInputs` of `decodedSample P input`) — e.g. exactly that finite list. -/
theorem mh_sample_sound {H : HashFn} {S : Bytes → Prop} (hkS : HashOKOn H S) (P : Params) (store : Nat → Option Dah)
    (sq : Nat → Eds) (kk : Nat → Nat)
    (hstore : ∀ h d, store h = some d → Dah.ofEds H (sq h) = .ok d ∧ (sq h).width = 2 ^ kk h ∧
      (∀ sh ∈ (sq h).shares, NS_SIZE ≤ sh.data.length) ∧ ∀ y ∈ edsInputs H (sq h), S y)
    (input hsh : Bytes)
    (hVS : ∀ id s, decodedSample P input = some (id, s) → ∀ y ∈ Lumina.Proofs.Sample.sampleInputs H s, S y)
    (hok : multihash H P store Lumina.Gen.C15.SAMPLE_ID_MULTIHASH_CODE input = .ok hsh) :
    ∃ cidB cont cid id raw s, P.decodeBlock input = some (cidB, cont) ∧ Cid.read cidB = some cid ∧
      SampleId.ofCid cid = .ok id ∧ P.decodeSample cont = some raw ∧
      sampleFromRaw id.row.index id.column raw = .ok s ∧ hsh = mhBytes id.toCid ∧
      ∃ sh, (sq id.row.eds.height).share? id.row.index id.column = some sh ∧ sh.data = s.share.data := by
  have hm : multihash H P store Lumina.Gen.C15.SAMPLE_ID_MULTIHASH_CODE input =
      hashBlock (sampleKind H P) P.decodeBlock store input := by
    unfold multihash
    rw [if_neg (by decide), if_neg (by decide), if_pos rfl]
  rw [hm] at hok
  unfold hashBlock at hok
  cases hdb : P.decodeBlock input with
  | none => simp [hdb] at hok
  | some blk =>
    obtain ⟨cidB, cont⟩ := blk
    simp only [hdb] at hok
    cases hcid : Cid.read cidB with
    | none => simp [hcid] at hok
    | some cid =>
      simp only [hcid] at hok
      cases hid : (sampleKind H P).ofCid cid with
      | error er => simp [hid] at hok
      | ok id =>
        simp only [hid] at hok
        cases hdec : (sampleKind H P).decode id cont with
        | err => simp [hdec] at hok
        | panic st => simp [hdec] at hok
        | ok s =>
          simp only [hdec] at hok
          cases hst : store ((sampleKind H P).height id) with
          | none => simp [hst] at hok
          | some dah =>
            simp only [hst] at hok
            cases hv : (sampleKind H P).verify s id dah with
            | err => simp [hv] at hok
            | panic st => simp [hv] at hok
            | ok u =>
              simp only [hv, Except.ok.injEq] at hok
              -- unpack the container decoding
              simp only [sampleKind] at hdec hst hv hid
              cases hraw : P.decodeSample cont with
              | none => simp [hraw] at hdec
              | some raw =>
                simp only [hraw] at hdec
                obtain ⟨hlen, hwf⟩ := sampleFromRaw_ok hdec
                obtain ⟨hd, hw, hsz, hES⟩ := hstore _ _ hst
                obtain ⟨hrl, hcl, hrows, hcols⟩ := dah_ofEds_roots hd
                refine ⟨cidB, cont, cid, id, raw, s, rfl, hcid, hid, hraw, hdec, hok.symm, ?_⟩
                -- unpack the verification
                unfold sampleVerify sampleVerifyWith at hv
                cases hr : dah.rowRoot? id.row.index with
                | none => simp [hr] at hv
                | some rowRoot =>
                  cases hc : dah.colRoot? id.column with
                  | none => simp [hr, hc] at hv
                  | some colRoot =>
                    simp only [hr, hc] at hv
                    have hrow : id.row.index < (sq id.row.eds.height).width := by
                      unfold Dah.rowRoot? at hr
                      have := (List.getElem?_eq_some_iff.mp hr).1; omega
                    have hcol : id.column < (sq id.row.eds.height).width := by
                      unfold Dah.colRoot? at hc
                      have := (List.getElem?_eq_some_iff.mp hc).1; omega
                    obtain ⟨rr, hrr1, hrr2⟩ := hrows _ hrow
                    obtain ⟨cr, hcr1, hcr2⟩ := hcols _ hcol
                    have e1 : rr = rowRoot := by unfold Dah.rowRoot? at hr; rw [hrr2] at hr; injection hr
                    have e2 : cr = colRoot := by unfold Dah.colRoot? at hc; rw [hcr2] at hc; injection hc
                    subst e1; subst e2
                    have hss : NS_SIZE ≤ s.share.data.length := by rw [hlen]; decide
                    have vr_of : ∀ root, ofNmt (safeVerifyRange H s.proof root [s.share.data] s.share.ns) = .ok () →
                        verifyRange H s.proof root [s.share.data] s.share.ns = .ok () := by
                      intro root h
                      unfold safeVerifyRange at h
                      split at h
                      · simp [ofNmt] at h
                      · cases hvr : verifyRange H s.proof root [s.share.data] s.share.ns with
                        | ok u => rfl
                        | error er =>
                          rw [hvr] at h
                          cases er <;> simp [ofNmt] at h
                    have hds : decodedSample P input = some (id, s) := by
                      simp only [decodedSample, hdb, hcid, hid, hraw, hdec]
                    have hkk := hkS
                    have hA : ∀ (ax : Axis) (t : Nat), t < (sq id.row.eds.height).width →
                        ∀ y ∈ axisInputs H (sq id.row.eds.height) ax t, S y :=
                      fun ax t ht y hy => hES y (axisInputs_mem_eds ht hy)
                    have hV : ∀ y ∈ Lumina.Proofs.Sample.sampleInputs H s, S y := hVS id s hds
                    cases hp : s.proofType with
                    | row =>
                      simp only [hp] at hv
                      split at hv
                      · cases hv
                      · rename_i hstart
                        have hst' : s.proof.start = id.column := by simpa using hstart
                        exact Lumina.Proofs.Sample.axis_leaf_bound_on hkk hw hsz hrr1 hcol hss hwf (hA .row _ hrow) hV
                          (vr_of _ hv) hst'
                    | col =>
                      simp only [hp] at hv
                      split at hv
                      · cases hv
                      · rename_i hstart
                        have hst' : s.proof.start = id.row.index := by simpa using hstart
                        exact Lumina.Proofs.Sample.axis_leaf_bound_on hkk hw hsz hcr1 hrow hss hwf (hA .col _ hcol) hV
                          (vr_of _ hv) hst'

/-- **Inherited soundness (C05) through bitswap.**  Hash hypothesis (audit repair X1): 32-byte output and NO COLLISION
    AMONG the byte strings of `S`, where `S` contains what is actually hashed — the row and column trees of every
    stored header's square (`edsInputs`, `hstore`) and the row tree the multihasher's `Row::verify` rebuilds for this
    block (`rowBlockInputs`, `hV`); satisfiable, see the instance below.  When every stored header's DAH is the DAH of a
    square (`sq h`, any width), a ROW block for which the multihasher yields a hash carries — after `Row::from_raw`,
    whichever half the peer sent and whatever the codec made of it — exactly the shares of the row named by the
    block's own CID, in the square of the header stored at the CID's height.  The last step is C05's `row_sound_eds`
    applied to the very `verify` call of the macro (`rowVerify_bridge`: group D3's transcription accepts only what
    group D's accepts). -/
theorem mh_row_sound {H : HashFn} {S : Bytes → Prop} (hk : HashOKOn H S) (P : Params) (store : Nat → Option Dah)
    (sq : Nat → Eds)
    (hstore : ∀ h d, store h = some d → Dah.ofEds H (sq h) = .ok d ∧
      (∀ sh ∈ (sq h).shares, NS_SIZE ≤ sh.data.length) ∧ ∀ y ∈ edsInputs H (sq h), S y)
    (input hsh : Bytes) (hok : multihash H P store Lumina.Gen.C15.ROW_ID_MULTIHASH_CODE input = .ok hsh)
    (hV : ∀ y ∈ rowBlockInputs H P input, S y) :
    ∃ cidB cont cid id raw r, P.decodeBlock input = some (cidB, cont) ∧ Cid.read cidB = some cid ∧
      RowId.ofCid cid = .ok id ∧ P.decodeRow cont = some raw ∧ rowFromRaw P.codec id.index raw = .ok r ∧
      hsh = mhBytes id.toCid ∧
      ((sq id.eds.height).row? id.index).map (fun l => l.map Share.data) = some (r.map Share.data) := by
  have hm : multihash H P store Lumina.Gen.C15.ROW_ID_MULTIHASH_CODE input =
      hashBlock (rowKind H P) P.decodeBlock store input := by
    unfold multihash
    rw [if_pos rfl]
  rw [hm] at hok
  obtain ⟨cidB, cont, cid, id, r, dah, hdb, hcid, hid, hdec, hst, hv, hh⟩ := hashBlock_ok hok
  simp only [rowKind] at hid hdec hst hv hh
  cases hraw : P.decodeRow cont with
  | none => simp [hraw] at hdec
  | some raw =>
    simp only [hraw] at hdec
    obtain ⟨hd, hsz, hSq⟩ := hstore _ _ hst
    have hrs : ∀ sh ∈ (Lumina.Model.Row.Row.mk r).shares, NS_SIZE ≤ sh.data.length := by
      intro sh hm
      rw [rowFromRaw_sizes hdec sh hm]; decide
    have hk' : HashOKOn H (fun y => y ∈ Lumina.Props.C05.hashedC05 H (sq id.eds.height) ⟨r⟩) := by
      refine hk.mono (fun y hy => ?_)
      rcases List.mem_append.mp hy with h | h
      · exact hSq y h
      · exact hV y (by rw [rowBlockInputs_eq hdb hcid hid hraw hdec]; exact h)
    have hs := Lumina.Props.C05.row_sound_eds hsz hd ⟨r⟩ hrs id.index hk'
    rw [rowVerify_bridge hv] at hs
    simp only [Lumina.Proofs.Sample.accepted, Lumina.Spec.C05.specVerify, Bool.not_true, Bool.false_or,
      beq_iff_eq] at hs
    exact ⟨cidB, cont, cid, id, raw, r, hdb, hcid, hid, hraw, hdec, hh, hs⟩

/-- **Inherited soundness (C06) through bitswap.**  Hash hypothesis as for `mh_row_sound` (no collision among `S` ⊇ the
    stored squares' tree inputs and `rndBlockInputs`: the claimed leaves' preimages and the `hash_nodes` calls of the
    range-proof check of this block).  When every stored header's DAH is the DAH of a well-shaped square
    (`SquareShape`: quadrant parity flags and share sizes, established by `ExtendedDataSquare::new`), a
    ROW-NAMESPACE-DATA block for which the multihasher yields a hash passes the C06 row checker `Spec.C06.specRow` as
    *accepted*, for the namespace and the row named by the block's own CID, in the square of the header stored at the
    CID's height: the row exists, and the shares are exactly the namespace's shares of that row if the row's root range
    covers the namespace, and no shares otherwise.  The last step is C06's `row_nsdata_sound` applied to the very
    `verify` call of the macro (`rndVerify_bridge`). -/
theorem mh_row_nsdata_sound {H : HashFn} {S : Bytes → Prop} (hk : HashOKOn H S) (P : Params) (store : Nat → Option Dah)
    (sq : Nat → Eds)
    (hstore : ∀ h d, store h = some d → Dah.ofEds H (sq h) = .ok d ∧ Lumina.Proofs.NsData.SquareShape (sq h) ∧
      ∀ y ∈ edsInputs H (sq h), S y)
    (input hsh : Bytes)
    (hok : multihash H P store Lumina.Gen.C15.ROW_NAMESPACE_DATA_ID_MULTIHASH_CODE input = .ok hsh)
    (hV : ∀ y ∈ rndBlockInputs H P input, S y) :
    ∃ cidB cont cid id raw d, P.decodeBlock input = some (cidB, cont) ∧ Cid.read cidB = some cid ∧
      RowNamespaceDataId.ofCid cid = .ok id ∧ P.decodeRnd cont = some raw ∧ rndFromRaw id.ns raw = .ok d ∧
      hsh = mhBytes id.toCid ∧
      Lumina.Spec.C06.specRow (sq id.row.eds.height).width (Lumina.Proofs.Sample.rawSquare (sq id.row.eds.height))
        id.ns id.row.index (d.shares.map Share.data) true = true := by
  have hm : multihash H P store Lumina.Gen.C15.ROW_NAMESPACE_DATA_ID_MULTIHASH_CODE input =
      hashBlock (rndKind H P) P.decodeBlock store input := by
    unfold multihash
    rw [if_neg (by decide), if_pos rfl]
  rw [hm] at hok
  obtain ⟨cidB, cont, cid, id, d, dah, hdb, hcid, hid, hdec, hst, hv, hh⟩ := hashBlock_ok hok
  simp only [rndKind] at hid hdec hst hv hh
  cases hraw : P.decodeRnd cont with
  | none => simp [hraw] at hdec
  | some raw =>
    simp only [hraw] at hdec
    obtain ⟨hd, hsq, hSq⟩ := hstore _ _ hst
    have hk' : HashOKOn H (fun y => y ∈ Lumina.Props.C06.hashedC06 H (sq id.row.eds.height) [⟨d.proof, d.shares⟩] id.ns) := by
      refine hk.mono (fun y hy => ?_)
      rcases List.mem_append.mp hy with h | h
      · exact hSq y h
      · refine hV y ?_
        rw [rndBlockInputs_eq hdb hcid hid hraw hdec]
        simpa [Lumina.Proofs.NsData.nsDataInputs] using h
    have hs := Lumina.Props.C06.row_nsdata_sound hsq hd (rndId_ns_length hid) ⟨d.proof, d.shares⟩
      (rndFromRaw_proofOK hdec) id.row.index hk'
    rw [rndVerify_bridge hv] at hs
    exact ⟨cidB, cont, cid, id, raw, d, hdb, hcid, hid, hraw, hdec, hh, hs⟩

/-! ### Non-vacuity: the ported theorems APPLIED to concrete accepted blocks

Toy 32-byte hash `toySum` (group D, `Proofs/Sample.lean`; it has collisions, but none among the inputs below — `decide`),
the concrete 2×2 square `okEds` of `Props/C04`, a store holding its DAH at height 1, toy protobuf/codec parameters
standing for an honest peer's bytes.  Every hypothesis of `mh_row_sound` and `mh_row_nsdata_sound` — including the
relative collision-freeness — holds, and the theorems yield their conclusions for these blocks.  Accepted honest blocks of
all three kinds also occur on every correspondence run (`sample ok`, `row ok`, `rnd ok` ops). -/

open Lumina.Proofs.Sample (toySum toySum_len noCollOn_of_list)
open Lumina.Props.C04 (okEds)

def okRowId : RowId := ⟨⟨1⟩, 0⟩
def okRndId : RowNamespaceDataId := ⟨okRowId, List.replicate 29 0⟩
def okSampleId : SampleId := ⟨okRowId, 0⟩
/-- the DAH of `okEds` under the toy hash -/
def okSumDah : Dah := match Dah.ofEds toySum okEds with | .ok d => d | .error _ => default
def okStore : Nat → Option Dah := fun h => if h = 1 then some okSumDah else none
/-- the inclusion proof of leaf 0 of row 0 of `okEds`: its only sibling is the leaf hash of the parity share -/
def okRawProof : RawProof :=
  let sib := hashLeaf toySum parityNs (List.replicate 512 1)
  ⟨0, 1, [sib.minNs ++ sib.maxNs ++ sib.hash], [], true⟩
def okP : Params where
  decodeBlock := fun b =>
    if b = [0] then some (okRowId.toCid.toBytes, []) else if b = [1] then some (okRndId.toCid.toBytes, [])
    else if b = [2] then some (okSampleId.toCid.toBytes, []) else none
  decodeSample := fun _ => some ⟨some (List.replicate 512 0), some okRawProof, 0⟩
  decodeRow := fun _ => some ⟨[List.replicate 512 0], 0⟩
  decodeRnd := fun _ => some ⟨[List.replicate 512 0], some okRawProof⟩
  codec := ⟨fun _ _ => [List.replicate 512 0, List.replicate 512 1], fun s _ => s⟩
def yields (r : Except MhErr Bytes) (c : Cid) : Bool := match r with | .ok h => h == mhBytes c | .error _ => false

theorem yields_ok {r : Except MhErr Bytes} {c : Cid} (h : yields r c = true) : r = .ok (mhBytes c) := by
  unfold yields at h
  split at h
  · rename_i hsh
    have : hsh = mhBytes c := by simpa using h
    rw [this]
  · cases h

/-- everything hashed for the stored square and for the verification of the two blocks -/
def okHashed : List Bytes := edsInputs toySum okEds ++ rowBlockInputs toySum okP [0] ++ rndBlockInputs toySum okP [1]

set_option maxRecDepth 100000 in
/-- the toy hash has no collision among them, and they are not trivially few: the 13 inputs of the square's four trees
    (and `[]`), 3 of the verifier's row tree, 2 of the range-proof check -/
theorem nonvacuity_okHashed : NoCollOn toySum (fun y => y ∈ okHashed) ∧ okHashed.length = 18 :=
  ⟨noCollOn_of_list (by decide +kernel), by decide +kernel⟩

set_option maxRecDepth 100000 in
theorem nonvacuity_accepted :
    yields (multihash toySum okP okStore Lumina.Gen.C15.ROW_ID_MULTIHASH_CODE [0]) okRowId.toCid = true ∧
    yields (multihash toySum okP okStore Lumina.Gen.C15.ROW_NAMESPACE_DATA_ID_MULTIHASH_CODE [1]) okRndId.toCid = true ∧
    yields (multihash toySum okP okStore Lumina.Gen.C15.SAMPLE_ID_MULTIHASH_CODE [2]) okSampleId.toCid = true := by
  decide +kernel

theorem nonvacuity_okStore (h : Nat) (d : Dah) (hs : okStore h = some d) :
    Dah.ofEds toySum okEds = .ok d ∧ okEds.width = 2 ^ 1 ∧ (∀ sh ∈ okEds.shares, NS_SIZE ≤ sh.data.length) ∧
      Lumina.Proofs.NsData.SquareShape okEds ∧ ∀ y ∈ edsInputs toySum okEds, y ∈ okHashed := by
  have hd : d = okSumDah := by
    by_cases h1 : h = 1
    · simp [okStore, h1] at hs; exact hs.symm
    · simp [okStore, h1] at hs
  subst hd
  exact ⟨rfl, rfl, Lumina.Props.C06.nonvacuity_okEds_shape.size, Lumina.Props.C06.nonvacuity_okEds_shape,
    fun y hy => List.mem_append_left _ (List.mem_append_left _ hy)⟩

/-- `mh_row_sound` applied: all hypotheses hold, the accepted row block carries row 0 of the square -/
example : ∃ r : Lumina.Model.Decoders.Row, rowFromRaw okP.codec 0 ⟨[List.replicate 512 0], 0⟩ = .ok r ∧
    (okEds.row? 0).map (fun l => l.map Share.data) = some (r.map Share.data) := by
  obtain ⟨cidB, cont, cid, id, raw, r, h1, h2, h3, h4, h5, _, h7⟩ :=
    mh_row_sound ⟨nonvacuity_okHashed.1, toySum_len⟩ okP okStore (fun _ => okEds)
      (fun h d hs => ⟨(nonvacuity_okStore h d hs).1, (nonvacuity_okStore h d hs).2.2.1, (nonvacuity_okStore h d hs).2.2.2.2⟩)
      [0] _ (yields_ok nonvacuity_accepted.1)
      (fun y hy => List.mem_append_left _ (List.mem_append_right _ hy))
  have e1 : cidB = okRowId.toCid.toBytes ∧ cont = [] := by
    have : okP.decodeBlock [0] = some (okRowId.toCid.toBytes, []) := rfl
    rw [this] at h1; injection h1 with h1; injection h1 with a b; exact ⟨a.symm, b.symm⟩
  obtain ⟨rfl, rfl⟩ := e1
  have e2 : cid = okRowId.toCid := by
    have : Cid.read okRowId.toCid.toBytes = some okRowId.toCid := by decide
    rw [this] at h2; injection h2 with h2; exact h2.symm
  subst e2
  have e3 : id = okRowId := by
    have : RowId.ofCid okRowId.toCid = .ok okRowId := by rfl
    rw [this] at h3; injection h3 with h3; exact h3.symm
  subst e3
  have e4 : raw = ⟨[List.replicate 512 0], 0⟩ := by
    have : okP.decodeRow [] = some ⟨[List.replicate 512 0], 0⟩ := rfl
    rw [this] at h4; injection h4 with h4; exact h4.symm
  subst e4
  exact ⟨r, h5, h7⟩

/-- `mh_row_nsdata_sound` applied: all hypotheses hold, the accepted block passes the C06 row checker for namespace 0,
    row 0 of the square -/
example : ∃ shares : List Bytes, Lumina.Spec.C06.specRow okEds.width (Lumina.Proofs.Sample.rawSquare okEds)
    (List.replicate 29 0) 0 shares true = true := by
  obtain ⟨cidB, cont, cid, id, raw, d, h1, h2, h3, _, _, _, h7⟩ :=
    mh_row_nsdata_sound ⟨nonvacuity_okHashed.1, toySum_len⟩ okP okStore (fun _ => okEds)
      (fun h d hs => ⟨(nonvacuity_okStore h d hs).1, (nonvacuity_okStore h d hs).2.2.2.1, (nonvacuity_okStore h d hs).2.2.2.2⟩)
      [1] _ (yields_ok nonvacuity_accepted.2.1)
      (fun y hy => List.mem_append_right _ hy)
  have e1 : cidB = okRndId.toCid.toBytes := by
    have : okP.decodeBlock [1] = some (okRndId.toCid.toBytes, []) := rfl
    rw [this] at h1; injection h1 with h1; injection h1 with a b; exact a.symm
  subst e1
  have e2 : cid = okRndId.toCid := by
    have : Cid.read okRndId.toCid.toBytes = some okRndId.toCid := by decide
    rw [this] at h2; injection h2 with h2; exact h2.symm
  subst e2
  have e3 : id = okRndId := by
    have : RowNamespaceDataId.ofCid okRndId.toCid = .ok okRndId := by rfl
    rw [this] at h3; injection h3 with h3; exact h3.symm
  subst e3
  exact ⟨_, h7⟩

/-! ### `mh_sample_sound` applied to the concrete accepted SAMPLE block (block `[2]` of `okP`) -/

/-- the byte strings hashed for the stored square and by the verification of the block's decoded sample -/
def okSampleHashed : List Bytes :=
  edsInputs toySum okEds ++
    (match decodedSample okP [2] with
     | some (_, s) => Lumina.Proofs.Sample.sampleInputs toySum s
     | none => [])

set_option maxRecDepth 100000 in
theorem nonvacuity_okSampleHashed : NoCollOn toySum (fun y => y ∈ okSampleHashed) :=
  noCollOn_of_list (by decide +kernel)

/-- all hypotheses of `mh_sample_sound` hold: the accepted sample block carries the share at (0, 0) of the stored square -/
example : ∃ sh, okEds.share? okSampleId.row.index okSampleId.column = some sh := by
  have hok := yields_ok nonvacuity_accepted.2.2
  obtain ⟨_, _, _, id, _, s, _, _, _, _, _, hmh, sh, hsh, _⟩ :=
    mh_sample_sound (S := fun y => y ∈ okSampleHashed) ⟨nonvacuity_okSampleHashed, toySum_len⟩ okP okStore (fun _ => okEds)
      (fun _ => 1)
      (fun h d hs => by
        obtain ⟨h1, h2, h3, _, _⟩ := nonvacuity_okStore h d hs
        exact ⟨h1, h2, h3, fun y hy => List.mem_append_left _ hy⟩)
      [2] _
      (fun id s hds y hy => by
        apply List.mem_append_right
        simp only [hds]
        exact hy)
      hok
  exact ⟨okEds.shares.headD default, by decide +kernel⟩

end Lumina.Props.C10

/-
  C14 — Namespaces are validated, ordered and round-trip.   PROPERTY THEOREMS ONLY.

  Every theorem is of the form `spec… input (model input) = true` for ALL inputs (no bound on
  byte-string length), where `spec…` (Lumina/Spec/C14.lean) is the property stated without
  reference to the model, and the model (Lumina/Model/Namespace.lean) is what the
  correspondence check runs against the real `celestia_types::nmt::Namespace`.
-/
import Lumina.Proofs.Namespace

namespace Lumina.Props.C14
open Lumina.Util Lumina.Model.Namespace Lumina.Gen.C14 Lumina.Proofs.Namespace
open Lumina.Spec.C14

def obsOf : Except Err Ns → Obs
  | .ok b => .ok b
  | .error _ => .err

/-- the generated constants are the numbers the property states -/
theorem consts_eq :
    NS_SIZE = 29 ∧ NS_ID_SIZE = 28 ∧ NS_ID_V0_SIZE = 10 ∧ NS_VER_SIZE = 1 ∧
    MAX_PRIMARY_RESERVED = maxPrimaryReserved ∧ MIN_SECONDARY_RESERVED = minSecondaryReserved := by
  decide

/-- `new_v0` on a full 28-byte id: accepted iff the 18-byte prefix is zero; result is `0 :: id` -/
theorem newV0_full (id : Bytes) (h : id.length = 28) :
    newV0 id = if (id.take 18).all (fun x => x == 0) then .ok (0 :: id) else .error .invalidV0 := by
  unfold newV0
  simp only [NS_ID_SIZE, NS_ID_V0_SIZE, NS_SIZE, h, ↓reduceIte, any_bne_eq_not_all]
  by_cases hz : (id.take 18).all (fun x => x == 0) = true
  · simp only [hz, Bool.not_true, Bool.false_eq_true, ↓reduceIte]
    have h1 := all_beq_eq_replicate 0 _ hz
    have hl : (id.take 18).length = 18 := by simp [h]
    rw [hl] at h1
    have : id = id.take 18 ++ id.drop 18 := (List.take_append_drop 18 id).symm
    congr 1
    conv => rhs; rw [this, h1]
    simp [h, List.replicate_succ]
  · simp [hz]

/-- `new_v255` on a full 28-byte id: accepted iff the 27-byte prefix is 0xff; result is `255 :: id` -/
theorem newV255_full (id : Bytes) (h : id.length = 28) :
    newV255 id = if (id.take 27).all (fun x => x == 255) then .ok (255 :: id) else .error .invalidV255 := by
  unfold newV255
  have hne : id ≠ [] := by intro e; simp [e] at h
  have hlast : id.getLast? = some (id.getLast hne) := List.getLast?_eq_some_getLast hne
  have hdl : id.dropLast = id.take 27 := by rw [List.dropLast_eq_take, h]
  simp only [NS_ID_SIZE, h, ne_eq, not_true_eq_false, ↓reduceIte, hlast, hdl]
  by_cases hz : (id.take 27).all (fun x => x == 255) = true
  · simp only [hz, ↓reduceIte]
    have h1 := all_beq_eq_replicate 255 _ hz
    have hl : (id.take 27).length = 27 := by simp [h]
    rw [hl] at h1
    congr 1
    have hid : id = id.take 27 ++ [id.getLast hne] := by
      rw [← hdl]; exact (List.dropLast_concat_getLast hne).symm
    conv => rhs; rw [hid, h1]
    simp [constV255, NS_SIZE, NS_ID_SIZE, List.replicate_succ]
  · simp [hz]

/-- **constructed from raw bytes only if …; byte form round-trips** — all byte strings -/
theorem fromRaw_spec (bs : Bytes) : specFromRaw bs (obsOf (fromRaw bs)) = true := by
  unfold fromRaw
  by_cases hl : bs.length = 29
  · cases bs with
    | nil => simp at hl
    | cons v id =>
      have hid : id.length = 28 := by simpa using hl
      simp only [NS_SIZE, hl, ne_eq, not_true_eq_false, ↓reduceIte, new]
      by_cases hv0 : v = 0
      · subst hv0
        rw [if_pos rfl, newV0_full id hid]
        by_cases hz : (id.take 18).all (fun x => x == 0) = true
        · simp [hz, obsOf, specFromRaw, validRaw, validV0, hid]
        · simp [hz, obsOf, specFromRaw, validRaw, validV0, validV255, hid]
      · by_cases hv255 : v = 255
        · subst hv255
          rw [if_neg (by decide), if_pos rfl, newV255_full id hid]
          by_cases hz : (id.take 27).all (fun x => x == 255) = true
          · simp [hz, obsOf, specFromRaw, validRaw, validV255, hid]
          · simp [hz, obsOf, specFromRaw, validRaw, validV0, validV255, hid]
        · simp [hv0, hv255, obsOf, specFromRaw, validRaw, validV0, validV255]
  · simp [NS_SIZE, hl, obsOf, specFromRaw, validRaw, validV0, validV255]

/-- `new version id`, every version and every id length (shorthand included) -/
theorem new_spec (v : UInt8) (id : Bytes) : specNew v id (obsOf (new v id)) = true := by
  unfold new
  by_cases hid : id.length = 28
  · by_cases hv0 : v = 0
    · subst hv0
      rw [if_pos rfl, newV0_full id hid]
      by_cases hz : (id.take 18).all (fun x => x == 0) = true
      · simp [hz, obsOf, specNew, validRaw, validV0, hid]
      · simp [hz, obsOf, specNew, validRaw, validV0, validV255, hid]
    · by_cases hv255 : v = 255
      · subst hv255
        rw [if_neg (by decide), if_pos rfl, newV255_full id hid]
        by_cases hz : (id.take 27).all (fun x => x == 255) = true
        · simp [hz, obsOf, specNew, validRaw, validV255, hid]
        · simp [hz, obsOf, specNew, validRaw, validV0, validV255, hid]
      · simp [hv0, hv255, obsOf, specNew, validRaw, validV0, validV255, hid]
  · by_cases hv0 : v = 0
    · subst hv0
      simp only [↓reduceIte, newV0, NS_ID_SIZE, hid, NS_ID_V0_SIZE, NS_SIZE]
      by_cases hs : id.length ≤ 10
      · simp [hs, obsOf, specNew, hid]
      · simp [hs, obsOf, specNew, hid]
    · by_cases hv255 : v = 255
      · subst hv255
        simp [newV255, NS_ID_SIZE, hid, obsOf, specNew]
      · simp [hv0, hv255, obsOf, specNew, hid]

/-- version-0 shorthand round trip -/
theorem idV0_spec (ns : Ns) (h : ns.length = 29) : specIdV0 ns (idV0 ns) = true := by
  cases ns with
  | nil => simp at h
  | cons v t =>
    by_cases hv : v = 0
    · simp [idV0, version, specIdV0, hv, NS_SIZE, NS_ID_V0_SIZE]
    · simp [idV0, version, specIdV0, hv]

/-- ordering is the lexicographic byte order — all byte strings -/
theorem cmp_spec (a b : Bytes) : specCmp a b (cmp a b) = true := by
  unfold specCmp
  cases h : cmp a b
  · simpa using (cmp_lt_iff a b).mp h
  · simpa using (cmp_eq_iff a b).mp h
  · simpa using (cmp_gt_iff a b).mp h

/-- reserved exactly when ≤ MAX_PRIMARY_RESERVED or ≥ MIN_SECONDARY_RESERVED -/
theorem isReserved_spec (ns : Ns) : specIsReserved ns (isReserved ns) = true := by
  have hc := consts_eq
  unfold specIsReserved isReserved le ge
  rw [hc.2.2.2.2.1, hc.2.2.2.2.2]
  have h1 : (cmp ns maxPrimaryReserved != .gt) = decide (ns ≤ maxPrimaryReserved) := by
    by_cases h : cmp ns maxPrimaryReserved = .gt
    · have := (cmp_gt_iff _ _).mp h
      simp [h, List.not_le.mpr this]
    · have : ¬ maxPrimaryReserved < ns := fun hh => h ((cmp_gt_iff _ _).mpr hh)
      simp [h, List.not_lt.mp this]
  have h2 : (cmp ns minSecondaryReserved != .lt) = decide (minSecondaryReserved ≤ ns) := by
    by_cases h : cmp ns minSecondaryReserved = .lt
    · have := (cmp_lt_iff _ _).mp h
      simp [h, List.not_le.mpr this]
    · have : ¬ ns < minSecondaryReserved := fun hh => h ((cmp_lt_iff _ _).mpr hh)
      simp [h, List.not_lt.mp this]
  rw [h1, h2]
  simp

def obsOfOpt : Option Ns → Obs
  | some b => .ok b
  | none => .err

/-- serde form (canonical base64 string) round-trips for every valid namespace; the base64
    round trip itself (`b64_roundtrip`) holds for byte strings of every length -/
theorem serde_spec (ns : Ns) (h : obsOf (fromRaw ns) = .ok ns) :
    specSerde ns (obsOfOpt (deserialize (serialize ns))) = true := by
  have hr : fromRaw ns = .ok ns := by
    cases hh : fromRaw ns with
    | ok x => rw [hh] at h; simp only [obsOf, Obs.ok.injEq] at h; rw [h]
    | error e => rw [hh] at h; simp [obsOf] at h
  have hl : ns.length = 29 := by
    by_cases hl : ns.length = 29
    · exact hl
    · simp [fromRaw, NS_SIZE, hl] at hr
  simp [deserialize, serialize, b64_roundtrip, hr, hl, NS_SIZE, obsOfOpt, specSerde]

/-- non-vacuity: a concrete valid namespace, a concrete rejected one, a concrete reserved one -/
example : obsOf (fromRaw (List.replicate 19 0 ++ [1,2,3,4,5,6,7,8,9,10])) = .ok (List.replicate 19 0 ++ [1,2,3,4,5,6,7,8,9,10]) := by decide
example : obsOf (fromRaw (0 :: 1 :: List.replicate 27 0)) = .err := by decide
example : isReserved (List.replicate 28 0 ++ [4]) = true ∧ isReserved (List.replicate 27 0 ++ [1, 0]) = false := by decide

end Lumina.Props.C14

/-
  C35 — The pruner only removes blocks that are safe to remove.

  Property theorems about the model `Lumina/Model/Pruner.lean`, part 2
  (`getNextPrunableBatch` = `Worker::get_next_prunable_batch` incl. `update_cached_data` and the
  window-edge search of C36, `pruneBatch` = the removal loop of `Worker::run`, `runIteration` = one
  loop iteration), for EVERY well-formed store (any `BlockRanges` tables), every chain whose header
  times increase with height, every pair of cutoffs (both window orders), every cache-refresh
  pattern, every `Daser` oracle, and — `history_safe_partial` — every history of loop iterations
  interleaved with arbitrary changes of the store by the rest of the node, AS LONG AS THE CLOCK DOES NOT
  RUN BACKWARDS.

  PARTIAL.  The property as worded does not exclude a backward step of `Time::now()`.  The theorems
  named `…_partial` need the cached window edges to be right for the cutoffs of the call (`CacheOK`),
  which along a history is what non-decreasing cutoffs (`Admissible`) give.  Without it the property
  is FALSE of the current code: `history_safe_counterexample` (known finding
  `C35/backward-clock-stale-cached-edge`).  `FullStatement` below is the statement without the
  restriction.  The decidable checkers are those of `Lumina/Spec/C35.lean`, evaluated on the abstract
  view `viewOf` (the tables as lists of heights).
-/
import Lumina.Proofs.PrunerBatch
import Lumina.Gen.C35

namespace Lumina.Props.C35
open Lumina.Model.Ranges hiding Inv
open Lumina.Model.Pruner Lumina.Proofs.Pruner Lumina.Proofs.Ranges
open Lumina.Spec.C35

local notation "RInv" => Lumina.Model.Ranges.Inv

/-- the constant the model's `limit` is instantiated with, as regenerated from `pruner.rs` -/
theorem max_prunable_batch_size_is_512 : Lumina.Gen.C35.MAX_PRUNABLE_BATCH_SIZE = 512 := rfl

/-- a new `Worker` (`after_pruning_window = after_sampling_window = None`) has right cached edges
    for any cutoffs -/
theorem fresh_worker_cache_ok (T : Nat → Nat) (sc pc : Nat) : CacheOK T ({} : Worker).cache sc pc :=
  cacheOK_init T sc pc

/-- MAIN THEOREM (one call).  `get_next_prunable_batch` never fails and its batch passes the
    property's checker: every height of the batch is stored, outside the pruning window, and
    either outside the sampling window and sampled-or-granted, or sampled and not bordering an
    unsynced gap; no height the `Daser` refused is in it.  The cached edges stay right. -/
theorem batch_meets_spec_partial (limit : Nat) (s : PStore) (w : Worker) (sc pc : Nat) (refresh : Bool)
    (grant : Nat → Bool) (hs : StoreInv s) (hm : ChainMono s.time) (hc : CacheOK s.time w.cache sc pc) :
    ∃ batch w' msgs, getNextPrunableBatch limit s w sc pc refresh grant = .ok (batch, w', msgs) ∧
      CacheOK s.time w'.cache sc pc ∧
      batchOK (viewOf s sc pc) (answersOf msgs) (heights batch) = true := by
  obtain ⟨batch, w', tr, h1, h2, h3⟩ := getNextPrunableBatch_safe limit hs hm hc refresh grant
  exact ⟨batch, w', tr, h1, h2, batchOK_of_safe h3⟩

/-- the same in `Prop` form, for whatever the call returns -/
theorem batch_safe_partial (limit : Nat) (s : PStore) (w : Worker) (sc pc : Nat) (refresh : Bool)
    (grant : Nat → Bool) (hs : StoreInv s) (hm : ChainMono s.time) (hc : CacheOK s.time w.cache sc pc)
    (batch : Ranges) (w' : Worker) (msgs : List Msg)
    (hres : getNextPrunableBatch limit s w sc pc refresh grant = .ok (batch, w', msgs)) (h : Nat)
    (hmem : mem batch h) :
    mem s.stored h ∧ s.time h ≤ pc ∧
      ((s.time h ≤ sc ∧ (mem s.sampled h ∨ Msg.wantToPrune h true ∈ msgs)) ∨
       (mem s.sampled h ∧ ¬ BordersGap s h)) ∧
      Msg.wantToPrune h false ∉ msgs := by
  obtain ⟨b, w1, tr, h1, _, h3⟩ := getNextPrunableBatch_safe limit hs hm hc refresh grant
  rw [hres] at h1
  injection h1 with h1
  injection h1 with e1 e2
  injection e2 with e2 e3
  subst e1; subst e3
  obtain ⟨k1, k2, k3⟩ := h3.safe h hmem
  exact ⟨k1, k2, k3, fun hc' => h3.refused h hc' hmem⟩

/-- the pruner asks the `Daser` only about stored, unsampled heights, and the answers recorded in
    the trace are the `Daser`'s -/
theorem daser_asked_only_about_unsampled_partial (limit : Nat) (s : PStore) (w : Worker) (sc pc : Nat)
    (refresh : Bool) (grant : Nat → Bool) (hs : StoreInv s) (hm : ChainMono s.time)
    (hc : CacheOK s.time w.cache sc pc) (batch : Ranges) (w' : Worker) (msgs : List Msg)
    (hres : getNextPrunableBatch limit s w sc pc refresh grant = .ok (batch, w', msgs)) (h : Nat) (a : Bool)
    (hmsg : Msg.wantToPrune h a ∈ msgs) : a = grant h ∧ ¬ mem s.sampled h ∧ mem s.stored h := by
  obtain ⟨b, w1, tr, h1, _, h3⟩ := getNextPrunableBatch_safe limit hs hm hc refresh grant
  rw [hres] at h1
  injection h1 with h1
  injection h1 with e1 e2
  injection e2 with e2 e3
  subst e3
  exact h3.asked h a hmsg

/-- REMOVAL ORDER (one loop iteration).  The iteration never fails; its effect trace is, for the
    heights of the batch in ascending order, "`blockstore.remove` of every CID of the header's
    sampling metadata, then `remove_height`": the order checker passes, exactly the heights of the
    batch are removed, and the store afterwards is the store before minus the batch. -/
theorem iteration_meets_spec_partial (limit : Nat) (s : PStore) (w : Worker) (sc pc : Nat) (refresh : Bool)
    (grant : Nat → Bool) (hs : StoreInv s) (hm : ChainMono s.time) (hc : CacheOK s.time w.cache sc pc) :
    ∃ s' w' batch msgs effs, runIteration limit s w sc pc refresh grant = .ok (s', w', batch, msgs, effs) ∧
      batchOK (viewOf s sc pc) (answersOf msgs) (heights batch) = true ∧
      orderOK s.cids (project effs) [] = true ∧
      removedHeights (project effs) = heights batch ∧
      StoreInv s' ∧ CacheOK s'.time w'.cache sc pc ∧
      (∀ x, mem s'.stored x ↔ mem s.stored x ∧ ¬ mem batch x) := by
  obtain ⟨s', w', batch, msgs, k1, k2, k3, k4, k5, k6, _⟩ := runIteration_safe limit hs hm hc refresh grant
  refine ⟨s', w', batch, msgs, _, k1, batchOK_of_safe k5, ?_, ?_, k2, by rw [k3]; exact k4, k6⟩
  · rw [project_batchEffs]; exact orderOK_blocks _ _ _
  · rw [project_batchEffs]; exact removedHeights_blocks _ _

/-- every `remove_height h` in the trace of an iteration is preceded by `blockstore.remove c` for
    every CID `c` of `h`'s sampling metadata (the order checker, spelled out) -/
theorem cids_removed_before_header (s : PStore) (batch : Ranges) (pre post : List Eff) (h : Nat)
    (hsplit : batchEffs s batch = pre ++ Eff.removeHeight h :: post) (c : Nat) (hc : c ∈ s.cids h) :
    Eff.bsRemove c ∈ pre :=
  cidBefore_batchEffs s hc batch pre post hsplit

/-- HISTORIES.  From a fresh worker, along every admissible history (iterations of the pruner loop
    with arbitrary refresh flags and `Daser` answers, interleaved with arbitrary well-formed stores
    over the same chain produced by the rest of the node; cutoffs never decrease), no iteration
    fails and every iteration's batch and effect trace pass the property's checkers w.r.t. the
    store it started from. -/
theorem history_safe_partial (limit : Nat) (T : Nat → Nat) (hT : ChainMono T) (s0 : PStore) (hs : StoreInv s0)
    (ht : s0.time = T) (ops : List Op) (ha : Admissible T 0 0 ops) :
    ∃ fin outs, runOps limit { store := s0, worker := {}, sc := 0, pc := 0 } ops = some (fin, outs) ∧
      ∀ o ∈ outs,
        batchOK (viewOf o.before o.sc o.pc) (answersOf o.msgs) (heights o.batch) = true ∧
        orderOK o.before.cids (project o.effs) [] = true ∧
        removedHeights (project o.effs) = heights o.batch := by
  obtain ⟨fin, outs, h1, h2⟩ := runOps_safe limit T hT ops { store := s0, worker := {}, sc := 0, pc := 0 }
    hs ht (cacheOK_init T 0 0) ha
  refine ⟨fin, outs, h1, fun o ho => ?_⟩
  obtain ⟨k1, k2⟩ := h2 o ho
  refine ⟨batchOK_of_safe k1, ?_, ?_⟩
  · rw [k2, project_batchEffs]; exact orderOK_blocks _ _ _
  · rw [k2, project_batchEffs]; exact removedHeights_blocks _ _

/-! ### the property without the monotone-clock restriction is false -/

/-- histories as in `Admissible`, but with no condition on the cutoffs -/
def AnyClock (T : Nat → Nat) : List Op → Prop
  | [] => True
  | .env s' :: ops => StoreInv s' ∧ s'.time = T ∧ AnyClock T ops
  | .iter _ _ _ _ :: ops => AnyClock T ops

/-- C35 at full strength: `history_safe_partial` for every history, whatever the clock does -/
def FullStatement : Prop :=
  ∀ (limit : Nat) (T : Nat → Nat), ChainMono T → ∀ (s0 : PStore), StoreInv s0 → s0.time = T →
    ∀ ops : List Op, AnyClock T ops →
    ∃ fin outs, runOps limit { store := s0, worker := {}, sc := 0, pc := 0 } ops = some (fin, outs) ∧
      ∀ o ∈ outs, batchOK (viewOf o.before o.sc o.pc) (answersOf o.msgs) (heights o.batch) = true

/-- ten headers with times 10·h, all stored, none sampled -/
def cexStore : PStore := { stored := [(1, 10)], time := fun h => 10 * h }

/-- first iteration with cutoffs 75 (the `Daser` refuses everything, nothing is removed, the cached
    edges become 7), then the clock steps back: cutoffs 30, the `Daser` grants -/
def cexOps : List Op := [.iter 75 75 true (fun _ => false), .iter 30 30 true (fun _ => true)]

/-- the batch of the second iteration and the checker's verdict on it -/
def cexSecond : Option (List Nat × Bool) :=
  match runOps 512 { store := cexStore, worker := {}, sc := 0, pc := 0 } cexOps with
  | some (_, [_, o2]) =>
    some (heights o2.batch, batchOK (viewOf o2.before o2.sc o2.pc) (answersOf o2.msgs) (heights o2.batch))
  | _ => none

unseal findSlowGo in
/-- COUNTEREXAMPLE (known finding `C35/backward-clock-stale-cached-edge`).  After a backward clock
    step the pruner's batch is `1..7` although headers 4..7 (times 40..70 > 30) are inside both
    windows: the cached edges (7, right for cutoff 75) are never lowered (`update_cached_data`
    only raises them, and `find_height_after_window_fast` trusts the previous answer). -/
theorem history_safe_counterexample : cexSecond = some ([1, 2, 3, 4, 5, 6, 7], false) := by rfl

/-- hence the statement without the monotone-clock restriction does not hold of the model (and,
    by the replay `corpus/C35/backward-clock.ops`, not of the real `Worker` either) -/
theorem fullStatement_counterexample : ¬ FullStatement := by
  intro h
  obtain ⟨fin, outs, h1, h2⟩ := h 512 cexStore.time (fun a b _ hab => by show 10 * a < 10 * b; omega)
    cexStore ⟨inv_of_invB (by decide), inv_of_invB (by decide), inv_of_invB (by decide)⟩ rfl cexOps
    trivial
  have hc := history_safe_counterexample
  unfold cexSecond at hc
  rw [h1] at hc
  match outs, h2, hc with
  | [_, o2], h2, hc =>
    simp only [Option.some.injEq, Prod.mk.injEq] at hc
    have := h2 o2 (by simp)
    rw [this] at hc
    exact absurd hc.2 (by decide)

/-! ### non-vacuity -/

/-- 12 headers, times 10·h; 1..4 and 6..9 stored, 5 pruned earlier, 10..12 never synced; 1..3, 6, 7 sampled -/
def exStore : PStore :=
  { stored := [(1, 4), (6, 9)], pruned := [(5, 5)], sampled := [(1, 3), (6, 7)],
    time := fun h => 10 * h, cids := fun h => if h = 2 then [7, 8] else [] }

example : StoreInv exStore := ⟨inv_of_invB (by decide), inv_of_invB (by decide), inv_of_invB (by decide)⟩
example : ChainMono exStore.time := fun a b _ hab => by show 10 * a < 10 * b; omega
-- a cache that is right for sampling cutoff 85 / pruning cutoff 75 (and not for pruning cutoff 65)
example : CacheOK exStore.time { afterSampling := some 8, afterPruning := some 7 } 85 75 :=
  ⟨fun p hp => by cases hp; exact ⟨by decide, by decide, by decide⟩,
   fun p hp => by cases hp; exact ⟨by decide, by decide, by decide⟩⟩
example : Admissible exStore.time 0 0
    [.iter 30 20 true (fun _ => true), .env exStore, .iter 85 75 false (fun h => h != 4)] :=
  ⟨by decide, by decide, ⟨inv_of_invB (by decide), inv_of_invB (by decide), inv_of_invB (by decide)⟩, rfl,
   by decide, by decide, trivial⟩
-- the checker accepts a safe batch and rejects unsafe ones
example : batchOK (viewOf exStore 85 75) [(4, true)] [2, 3, 4, 7] = true := by decide
-- 8 is inside the pruning window (time 80 > 75)
example : batchOK (viewOf exStore 85 75) [] [8] = false := by decide
-- 4 is unsampled and the Daser refused
example : batchOK (viewOf exStore 85 75) [(4, false)] [4] = false := by decide
-- with sampling cutoff 25 height 3 is inside the sampling window: sampled, but 6 borders the gap 10.. / 4 borders nothing;
-- 9 is a sampled-or-not edge: 9 + 1 was never synced
example : batchOK (viewOf { exStore with sampled := [(1, 4), (6, 9)] } 25 95) [] [9] = false := by decide
example : batchOK (viewOf { exStore with sampled := [(1, 4), (6, 9)] } 25 95) [] [3, 4, 6, 7, 8] = true := by decide
-- the order checker rejects a header removed before its CIDs
example : orderOK exStore.cids [Ev.cid 7, Ev.height 2, Ev.cid 8] [] = false := by decide
example : orderOK exStore.cids [Ev.cid 7, Ev.cid 8, Ev.height 2] [] = true := by decide

end Lumina.Props.C35

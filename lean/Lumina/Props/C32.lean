/-
  C32 — Header-ex requests are retried boundedly and answered once.   PROPERTY THEOREMS ONLY.

  Model: Lumina/Model/Retry.lean (`run evs` = the client after an ARBITRARY sequence of events:
  requests, scheduling rounds with any peer population and any peer choice, responses / failures
  for any (request, attempt) — stale and duplicated ones included —, callers going away, stop).
  Spec: Lumina/Spec/C32.lean.
-/
import Lumina.Proofs.Retry
import Lumina.Gen.C32

namespace Lumina.Props.C32
open Lumina.Model.Retry Lumina.Proofs.Retry
open Lumina.Spec.C32 (specSends specAnswers specScheduleProgress specStopProgress specOutcomeAnswers
  specRequestAnswers specStopAnswers specQuietStep)

/-- "three" is `MAX_TRIES` -/
theorem consts_eq : Lumina.Gen.C32.MAX_TRIES = 3 ∧ Lumina.Gen.C32.MAX_TRIES = MAX_TRIES := by decide

/-- **at most three sends, at most one answer** — counted in the emitted trace, for every request id and
    every event sequence -/
theorem sends_le_three_answers_le_one (evs : List Ev) (i : Nat) :
    sendsOf i (run evs).2 ≤ 3 ∧ answersOf i (run evs).2 ≤ 1 := by
  have hs := run_inv evs
  have ht := run_tinv evs
  by_cases hi : i < (run evs).1.recs.length
  · have hmem : i ∈ (run evs).1.recs.map (·.id) := by rw [hs.ids]; exact List.mem_range.mpr hi
    obtain ⟨r, hr, hid⟩ := List.mem_map.mp hmem
    obtain ⟨h1, h2⟩ := ht.known r hr
    have := hs.recs r hr
    rw [← hid, h1, h2]
    exact ⟨this.sendsLe, this.answersLe⟩
  · obtain ⟨h1, h2⟩ := ht.fresh i (by omega)
    omega

/-- every step of every run: the requests it sends go to connected peers only, never exceed three per
    request, the third goes to an archival peer, nothing is sent for an answered request -/
theorem sends_spec (evs : List Ev) (ev : Ev) :
    specSends (knownFor (run evs).1 ev) ((step (run evs).1 ev).2.filterMap sentOf) = true :=
  step_sends_spec _ ev (run_inv evs)

/-- every step of every run: no caller is answered twice -/
theorem answers_spec (evs : List Ev) (ev : Ev) :
    specAnswers (knownFor (run evs).1 ev) ((step (run evs).1 ev).2.filterMap answeredOf) = true :=
  step_answers_spec _ ev (run_inv evs)

/-- **answered whenever peers of the required kind are connected** (1): at a scheduling step every waiting
    request whose caller is still there is sent, provided a connected peer exists (an archival one for
    the third attempt) — whatever the history, the peer population and the shuffle -/
theorem schedule_progress (evs : List Ev) (peers : List Peer) (choice : Nat → Nat) :
    specScheduleProgress (knownFor (run evs).1 (.schedule peers choice))
      (peers.any (·.connected)) (peers.any (fun p => p.connected && p.archival))
      ((step (run evs).1 (.schedule peers choice)).2.filterMap sentOf) = true :=
  schedule_progress_spec _ peers choice (run_inv evs)

/-- (2): the outcome of the outstanding attempt answers the request (one answer: the valid response or
    the final error) or puts it back in the queue with a strictly smaller measure; (3) a scheduling step
    with a suitable peer strictly decreases the measure too; the measure is at most 7: a request is
    answered after at most three send/outcome cycles -/
theorem bounded_progress (evs : List Ev) (r : Rec) (hr : r ∈ (run evs).1.recs) :
    (r.phase ≠ .done → pot r ≤ 7) ∧
    (r.phase = .inflight → ∀ res,
      let r' := (stepRec (.outcome r.id r.sends res) r).1
      (r'.phase = .done ∧ (r.closed = false → r'.answers = 1 ∧
          (stepRec (.outcome r.id r.sends res) r).2 = [.answer r.id (answerOf res)])) ∨
      (r'.phase = .pending ∧ pot r' < pot r)) ∧
    (r.phase = .pending → r.closed = false → ∀ peers choice p, p ∈ peers → kindOk r.kind p = true →
      pot (stepRec (.schedule peers choice) r).1 < pot r) := by
  have hi := (run_inv evs).recs r hr
  exact ⟨pot_le r hi, fun hp res => outcome_settles r res hi hp,
    fun hp hc peers choice p hpm hk => schedule_decreases r peers choice hi hp hc p hpm hk⟩

/-- **… or the client stops**: at stop every caller that is still there and unanswered is answered -/
theorem stop_progress (evs : List Ev) :
    specStopProgress (knownFor (run evs).1 .stop) ((step (run evs).1 .stop).2.filterMap answeredOf) = true :=
  stop_progress_spec _ (run_inv evs)

/-- **the first valid response or the final error**, for every history: when an outcome arrives, the answers
    given in that step are exactly — that outcome, to that caller, if it is for the outstanding attempt of a
    request whose caller is still there and it is a valid response or the third attempt failed; nothing for a
    stale or duplicated outcome, a retried error or a caller that went away -/
theorem outcome_answers (evs : List Ev) (id att : Nat) (res : Res) :
    specOutcomeAnswers (knownFor (run evs).1 (.outcome id att res)) id
      (match (run evs).1.recs.find? (fun r => r.id == id) with | some r => att == r.sends | none => false)
      (resKind res) ((step (run evs).1 (.outcome id att res)).2.filterMap answerPairOf) = true :=
  outcome_answers_spec _ id att res (run_inv evs)

/-- what callers are told in the other steps: a new request is answered at once only after stop (cancelled)
    or when invalid; at stop every answer is `RequestCancelled`; scheduling and a caller going away answer nobody -/
theorem other_answers (evs : List Ev) :
    (∀ v, specRequestAnswers (run evs).1.recs.length (run evs).1.stopped v
        ((step (run evs).1 (.request v)).2.filterMap answerPairOf) = true) ∧
    specStopAnswers ((step (run evs).1 .stop).2.filterMap answerPairOf) = true ∧
    (∀ p c, specQuietStep ((step (run evs).1 (.schedule p c)).2.filterMap answerPairOf) = true) ∧
    (∀ i, specQuietStep ((step (run evs).1 (.close i)).2.filterMap answerPairOf) = true) :=
  ⟨fun v => request_answers_spec _ v, stop_answers_spec _,
   fun p c => quiet_steps_spec _ _ (Or.inl ⟨p, c, rfl⟩), fun i => quiet_steps_spec _ _ (Or.inr ⟨i, rfl⟩)⟩

/-- a valid response is the answer: the first `ok` outcome of the outstanding attempt is delivered as is -/
theorem first_valid_response_is_the_answer (r : Rec) (hp : r.phase = .inflight) (hc : r.closed = false) :
    (stepRec (.outcome r.id r.sends .ok) r).2 = [.answer r.id .ok] := by
  simp [stepRec, hp, canRetry, finish, hc, answerOf]

/-- non-vacuity: a request that fails three times is sent any, any, archival and answered once with the
    last error -/
example :
    let arch : Peer := ⟨true, false, true⟩
    (run [.request true, .schedule [arch] id, .outcome 0 1 .headerNotFound, .schedule [arch] id,
          .outcome 0 2 .outboundFailure, .schedule [arch] id, .outcome 0 3 .invalidResponse,
          .schedule [arch] id]).2 =
      [.sent 0 1 .any 2 arch, .sent 0 2 .any 1 arch, .sent 0 3 .archival 0 arch, .answer 0 .invalidResponse] := by
  decide

end Lumina.Props.C32

/-
  C47 — Bech32 addresses round-trip and reject wrong kinds.   PROPERTY THEOREMS ONLY.

  Model: `Lumina/Model/Bech32.lean` (bech32 0.11.0 encode/decode + `types/src/state/address.rs`).
  Spec:  `Lumina/Spec/C47.lean` (BIP-173 reference formulation, literal prefixes, 20 bytes).
  All theorems quantify over ALL 20-byte ids / ALL strings (lists of code points), no bound.
-/
import Lumina.Proofs.Bech32
import Lumina.Gen.C47

namespace Lumina.Props.C47
open Lumina.Util Lumina.Model.Bech32 Lumina.Proofs.Bech32
open Lumina.Spec.C47 (K Obs specDisplay specRoundTrip specParse specCorrupt)

def obsOf : Except Err (Kind × Bytes) → Obs
  | .ok (k, id) => .ok (specKind k) id
  | .error _ => .err

/-- the prefixes in `/repo/types/src/consts.rs` (regenerated on every run) are the ones the
    property names, and the model's prefixes are exactly those -/
theorem consts_eq :
    Lumina.Gen.C47.PREFIX_ACCOUNT = "celestia" ∧
    Lumina.Gen.C47.PREFIX_ACCOUNT ++ Lumina.Gen.C47.PREFIX_VALIDATOR ++ Lumina.Gen.C47.PREFIX_OPERATOR = "celestiavaloper" ∧
    Lumina.Gen.C47.PREFIX_ACCOUNT ++ Lumina.Gen.C47.PREFIX_VALIDATOR ++ Lumina.Gen.C47.PREFIX_CONSENSUS = "celestiavalcons" ∧
    Lumina.Gen.C47.SIGNER_SIZE = 20 ∧ ADDRESS_SIZE = 20 ∧
    (∀ k, (specKind k).pfx = k.pfx) := by
  refine ⟨by decide, by decide, by decide, by decide, by decide, ?_⟩
  intro k; cases k <;> decide

/-- parsing a displayed address with `string_to_kind_and_id` gives back kind and id -/
theorem stringToKindAndId_addressToString (k : Kind) (id : Bytes) (h : id.length = 20) :
    stringToKindAndId (addressToString k id) = .ok (k, id) := by
  obtain ⟨h1, h2, h3, h4, -, -, -⟩ := pfx_facts k
  have hlen : (bytesToFes (id.map UInt8.toNat)).length = 32 := by
    rw [bytesToFes_length]; simp [h]
  unfold stringToKindAndId addressToString
  rw [decode_encode k.pfx _ h1 h2 (map_toNat_lt id) (by rw [hlen]; exact h4)]
  have := map_ofNat_toNat id
  simp only [List.map_map] at this
  simp [h3, ADDRESS_SIZE, h, this]

/-- **display, then parse back to the same address; other kinds are rejected** — every 20-byte id,
    every kind, every parser (`Address`, `AccAddress`, `ValAddress`, `ConsAddress`) -/
theorem roundtrip_spec (k : Kind) (id : Bytes) (h : id.length = 20) (as : Option Kind) :
    specRoundTrip (specKind k) id (as.map specKind) (obsOf (parse as (addressToString k id))) = true := by
  unfold parse parseAddress parseAs
  rw [stringToKindAndId_addressToString k id h]
  cases as with
  | none => simp [specRoundTrip, obsOf]
  | some k' =>
    by_cases hk : k = k'
    · subst hk; simp [specRoundTrip, obsOf]
    · have : specKind k' ≠ specKind k := by
        cases k <;> cases k' <;> simp_all [specKind]
      simp [specRoundTrip, obsOf, hk, this]

example : ∃ id : Bytes, id.length = 20 := ⟨List.replicate 20 7, rfl⟩

/-- **displayed as bech32 with their own prefix**: prefix, `1`, 38 lower-case alphabet characters,
    valid under the BIP-173 REFERENCE checksum -/
theorem display_spec (k : Kind) (id : Bytes) (h : id.length = 20) :
    specDisplay (specKind k) (addressToString k id) = true := by
  obtain ⟨h1, h2, h3, h4, h5, h6, h7⟩ := pfx_facts k
  have hd := map_toNat_lt id
  have hlen : (bytesToFes (id.map UInt8.toNat)).length = 32 := by
    rw [bytesToFes_length]; simp [h]
  have hfes := bytesToFes_lt _ hd
  unfold addressToString encode
  generalize hF : bytesToFes (id.map UInt8.toNat) = fes at *
  have hall : ∀ x ∈ fes ++ checksumFes BECH32_TARGET k.pfx fes, x < 32 := by
    intro x hx; rcases List.mem_append.mp hx with h | h
    · exact hfes x h
    · exact checksumFes_lt _ _ _ x h
  simp only [map_toLower_of_noUpper _ h1]
  unfold specDisplay
  rw [h5]
  simp only [List.append_assoc, List.take_left', List.drop_left', List.singleton_append, List.head?_cons,
    beq_self_eq_true, Bool.true_and]
  have hdrop : List.drop (k.pfx.length + 1)
      (k.pfx ++ 49 :: List.map charOfFe (fes ++ checksumFes BECH32_TARGET k.pfx fes)) =
      List.map charOfFe (fes ++ checksumFes BECH32_TARGET k.pfx fes) := by
    rw [show ∀ d, k.pfx ++ 49 :: d = (k.pfx ++ [49]) ++ d by simp]
    exact List.drop_left' (by simp)
  rw [hdrop]
  refine Bool.and_eq_true_iff.mpr ⟨Bool.and_eq_true_iff.mpr ⟨?_, ?_⟩, ?_⟩
  · simp [hlen, checksumFes_length]
  · rw [List.all_eq_true]
    intro c hc
    obtain ⟨v, hv, rfl⟩ := List.mem_map.mp hc
    exact (charOfFe_facts v (hall v hv)).2.2.2.2.1
  · -- reference polymod = the crate's engine = 1
    unfold Lumina.Spec.C47.checksumBech32 Lumina.Spec.C47.polymod
    have hvals : List.map Lumina.Spec.C47.charValue (List.map charOfFe (fes ++ checksumFes BECH32_TARGET k.pfx fes))
        = fes ++ checksumFes BECH32_TARGET k.pfx fes := by
      rw [List.map_map]
      conv => rhs; rw [← List.map_id (fes ++ checksumFes BECH32_TARGET k.pfx fes)]
      apply List.map_congr_left
      intro v hv
      exact (charOfFe_facts v (hall v hv)).2.2.2.2.2
    rw [hvals, ← h6, polymod_foldl_eq _ _ (by decide)]
    · rw [inputFes_append, inputFes_append]
      have := checksum_verifies (inputFes (inputHrp k.pfx) fes) BECH32_TARGET (by decide)
      unfold checksumFes inputHrp at *
      rw [this]; rfl
    · intro x hx
      rcases List.mem_append.mp hx with h | h
      · exact h7 x h
      · exact hall x h

/-- **parsing rejects other prefixes, bad checksums, wrong lengths and wrong kinds** — every
    string, every parser: whatever is accepted is literally `prefix-of-its-kind ++ "1" ++ data`,
    `data` bech32 characters with a valid (BIP-173 or BIP-350) reference checksum over (prefix,
    data) and exactly 20 bytes of payload; typed parsers accept only their own kind -/
theorem parse_spec (as : Option Kind) (s : Str) :
    specParse (as.map specKind) s (obsOf (parse as s)) = true := by
  -- reduce to the accepted case of `string_to_kind_and_id`
  cases hst : stringToKindAndId s with
  | error e =>
    cases as <;> simp [parse, parseAddress, parseAs, hst, obsOf, specParse]
  | ok r =>
    obtain ⟨k, id⟩ := r
    have hkind : ∀ k', as = some k' → k ≠ k' → specParse (as.map specKind) s (obsOf (parse as s)) = true := by
      intro k' hk' hne
      subst hk'
      simp [parse, parseAs, hst, hne, obsOf, specParse]
    have hmain : specParse (as.map specKind) s (.ok (specKind k) id) = true ∨ (∃ k', as = some k' ∧ k ≠ k') := by
      by_cases hk : ∃ k', as = some k' ∧ k ≠ k'
      · exact Or.inr hk
      · left
        have hask : (as.map specKind == none || as.map specKind == some (specKind k)) = true := by
          cases as with
          | none => simp
          | some k' =>
            have : k = k' := by
              by_cases h : k = k'
              · exact h
              · exact absurd ⟨k', rfl, h⟩ hk
            subst this; simp
        unfold stringToKindAndId at hst
        cases hdec : decode s with
        | none => simp [hdec] at hst
        | some hd =>
          obtain ⟨hrp, data⟩ := hd
          simp only [hdec] at hst
          cases hko : kindOfStr hrp with
          | none => simp [hko] at hst
          | some k2 =>
            simp only [hko] at hst
            split at hst
            · simp at hst
            · rename_i hlen
              simp only [Except.ok.injEq, Prod.mk.injEq] at hst
              obtain ⟨rfl, rfl⟩ := hst
              have hrp_eq := kindOfStr_some hrp k2 hko
              subst hrp_eq
              obtain ⟨d, hs, hvalid, h6, hres, hdata⟩ := decode_some s _ data hdec
              obtain ⟨h1, h2, h3, h4, h5, h6', h7⟩ := pfx_facts k2
              have hlen' : data.length = 20 := by
                simp only [ADDRESS_SIZE] at hlen; omega
              unfold specParse
              simp only [h5, hask, Bool.true_and]
              subst hs
              have hdrop : List.drop (k2.pfx.length + 1) (k2.pfx ++ 49 :: d) = d := by
                rw [show k2.pfx ++ 49 :: d = (k2.pfx ++ [49]) ++ d by simp]
                exact List.drop_left' (by simp)
              simp only [hdrop, List.take_left', List.drop_left', List.head?_cons, beq_self_eq_true,
                Bool.true_and, Bool.and_true, List.length_map, hlen', decide_eq_true h6]
              have hvals : d.map Lumina.Spec.C47.charValue = d.map feOfCharUnchecked :=
                List.map_congr_left (fun c hc => (validChar c (hvalid c hc)).2.2.1)
              have hlt : ∀ x ∈ hrpFes k2.pfx ++ d.map feOfCharUnchecked, x < 32 := by
                intro x hx
                rcases List.mem_append.mp hx with h | h
                · exact h7 x h
                · obtain ⟨c, hc, rfl⟩ := List.mem_map.mp h
                  exact (validChar c (hvalid c hc)).1
              refine Bool.and_eq_true_iff.mpr ⟨Bool.and_eq_true_iff.mpr ⟨Bool.and_eq_true_iff.mpr ⟨?_, ?_⟩, ?_⟩, ?_⟩
              · rw [List.all_eq_true]
                exact fun c hc => (validChar c (hvalid c hc)).2.1
              · unfold Lumina.Spec.C47.checksumOK Lumina.Spec.C47.polymod
                rw [hvals, ← h6', polymod_foldl_eq _ _ (by decide) hlt, inputFes_append]
                unfold inputHrp at hres
                rcases hres with h | h
                · rw [h]; decide
                · rw [h]; decide
              · have := fesToBytes_length ((d.take (d.length - 6)).map feOfCharUnchecked)
                rw [← hdata, hlen'] at this
                simp only [List.length_map, List.length_take] at this
                rw [Nat.min_eq_left (by omega)] at this
                simp [← this]
              · -- the returned id is the bit-string regrouping of the payload characters
                have hvals' : (d.take (d.length - 6)).map Lumina.Spec.C47.charValue
                    = (d.take (d.length - 6)).map feOfCharUnchecked :=
                  List.map_congr_left (fun c hc => (validChar c (hvalid c (List.mem_of_mem_take hc))).2.2.1)
                have hlt' : ∀ x ∈ (d.take (d.length - 6)).map feOfCharUnchecked, x < 32 := by
                  intro x hx
                  obtain ⟨c, hc, rfl⟩ := List.mem_map.mp hx
                  exact (validChar c (hvalid c (List.mem_of_mem_take hc))).1
                rw [hvals', ← fesToBytes_eq_regroup8 _ hlt', ← hdata]
                simp
    rcases hmain with h | ⟨k', hk', hne⟩
    · cases as with
      | none => simpa [parse, parseAddress, hst, obsOf] using h
      | some k' =>
        by_cases hk : k = k'
        · subst hk; simpa [parse, parseAs, hst, obsOf] using h
        · exact hkind k' rfl hk
    · exact hkind k' hk' hne

/-- **all single-character corruptions are rejected** — every kind, every 20-byte id, every
    position (prefix, separator, data, checksum) and every replacement code point (other alphabet
    characters, upper case, `1`, non-alphabet, non-ASCII).  Uses GF(2)-linearity of the checksum
    engine and the complete syndrome table of single errors over the 38 data+checksum positions,
    which also shows that no single error turns the bech32 checksum into a valid bech32m one. -/
theorem single_char_corruption_spec (k : Kind) (id : Bytes) (h : id.length = 20) (pos c : Nat) :
    specCorrupt (addressToString k id) pos c (obsOf (parse none (addressToString k id)))
      (obsOf (parse none ((addressToString k id).set pos c))) = true := by
  unfold parse parseAddress
  rw [stringToKindAndId_addressToString k id h]
  simp only [obsOf, specCorrupt]
  split
  · rename_i hcond
    simp only [Bool.and_eq_true, decide_eq_true_eq, bne_iff_ne, ne_eq] at hcond
    obtain ⟨⟨-, hpos⟩, hne⟩ := hcond
    have hc : (addressToString k id)[pos]? ≠ some c := by
      intro hh
      apply hne
      simp [List.getD, hh]
    obtain ⟨e, he⟩ := corrupt_rejected k id h pos c hpos hc
    simp [he]
  · rfl

/-- the strengthened clause bites: for "celestia1qypqxpq9qcrsszg2pvxq6rs0zqg3yyc5wgawu3" the spec accepts the
    id 01 02 … 14 and rejects any other 20-byte id (here: the last byte changed) -/
example :
    specParse none (Lumina.Spec.C47.str "celestia1qypqxpq9qcrsszg2pvxq6rs0zqg3yyc5wgawu3")
      (.ok .account [1, 2, 3, 4, 5, 6, 7, 8, 9, 10, 11, 12, 13, 14, 15, 16, 17, 18, 19, 20]) = true ∧
    specParse none (Lumina.Spec.C47.str "celestia1qypqxpq9qcrsszg2pvxq6rs0zqg3yyc5wgawu3")
      (.ok .account [1, 2, 3, 4, 5, 6, 7, 8, 9, 10, 11, 12, 13, 14, 15, 16, 17, 18, 19, 21]) = false := by
  decide +kernel

/-- the same for the three typed parsers: a single-character corruption of a displayed address
    is rejected by `AccAddress`, `ValAddress` and `ConsAddress` parsing as well -/
theorem single_char_corruption_all_parsers (k : Kind) (id : Bytes) (h : id.length = 20) (pos c : Nat)
    (hpos : pos < (addressToString k id).length) (hc : (addressToString k id)[pos]? ≠ some c)
    (as : Option Kind) :
    obsOf (parse as ((addressToString k id).set pos c)) = .err := by
  obtain ⟨e, he⟩ := corrupt_rejected k id h pos c hpos hc
  cases as <;> simp [parse, parseAddress, parseAs, he, obsOf]

end Lumina.Props.C47

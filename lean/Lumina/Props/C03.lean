/-
  C03 — Commit verification enforces the voting-power thresholds.   PROPERTY THEOREMS ONLY.

  Model: Lumina/Model/Commit.lean (`verifyCommitLight`, `verifyCommitLightTrusting`,
  `votingPowerNeeded`), run against the real `ValidatorSetExt` by the correspondence check.
  Spec:  Lumina/Spec/C03.lean (`specLightSound`, `specLightExact`, `specTrustingSound`,
  `specTrustingExact`).

  All theorems hold for EVERY validator set (any size, any powers, duplicated validators
  allowed), EVERY commit (any length, flags, addresses) and EVERY signature oracle
  `ok : Nat → Nat → Bool` (`ok i j` = "the signature of commit entry j verifies under validator
  i's key for entry j's canonical vote").  The only hypothesis, where one is needed, is what
  tendermint's `Set::new` / decoding establish: the stored total is the sum of the powers
  (`vs.total = sumPowers vs.vals`) and, for the no-panic / "exactly when" statements, that it is
  at most `MAX_TOTAL_VOTING_POWER = i64::MAX / 8` (`vs.wf`).
-/
import Lumina.Proofs.Commit
import Lumina.Gen.C03

namespace Lumina.Props.C03
open Lumina.Model.Commit Lumina.Spec.C03 Lumina.Proofs.Commit Lumina.Gen.C03

/-- the trust levels in the source are the fractions the property states: light verification
    uses the literal `TrustLevelRatio::new(2, 3)`, `DEFAULT_TRUST_LEVEL` is 1/3 -/
theorem consts_eq :
    LIGHT_NUM = 2 ∧ LIGHT_DEN = 3 ∧ DEFAULT_TRUST_NUM = 1 ∧ DEFAULT_TRUST_DEN = 3 := by decide

/-- what the driver runs -/
def light (ok : Nat → Nat → Bool) (vs : ValSet) (h ch : Nat) (sigs : List CSig) : Outcome :=
  verifyCommitLight ok LIGHT_NUM LIGHT_DEN vs h ch sigs

def trusting (ok : Nat → Nat → Bool) (vs : ValSet) (sigs : List CSig) : Outcome :=
  verifyCommitLightTrusting ok DEFAULT_TRUST_NUM DEFAULT_TRUST_DEN vs sigs

/-- `tallied > voting_power_needed` with `voting_power_needed = ⌊n·T/d⌋` IS "strictly more than
    n/d of T": the floor loses nothing -/
theorem needed_strict (t n T d : Nat) (hd : 0 < d) : n * T / d < t ↔ n * T < d * t :=
  Lumina.Proofs.Commit.needed_strict t n T d hd

/-- `voting_power_needed` returns the floor, or an error on u64 overflow / zero denominator -/
theorem votingPowerNeeded_spec (n d T : Nat) :
    votingPowerNeeded n d T =
      if n * T ≥ 2 ^ 64 then .error .neededOverflow
      else if d = 0 then .error .neededDivZero else .ok (n * T / d) := by
  simp [votingPowerNeeded, U64_LIMIT]

/-- **light soundness, any trust level**: acceptance implies that the index-aligned validators
    with commit flag and valid signature carry strictly more than `n/d` of the stored total -/
theorem light_sound_level (ok : Nat → Nat → Bool) (n d : Nat) (vs : ValSet) (h ch : Nat)
    (sigs : List CSig) (hacc : verifyCommitLight ok n d vs h ch sigs = .ok) :
    d * validPowerLight (specInput vs h ch sigs) ok > n * vs.total := by
  unfold verifyCommitLight at hacc
  split at hacc; · simp at hacc
  split at hacc; · simp at hacc
  cases hv : votingPowerNeeded n d vs.total with
  | error e => rw [hv] at hacc; simp at hacc
  | ok needed =>
    rw [hv] at hacc
    simp only at hacc
    obtain ⟨hd, hn⟩ := votingPowerNeeded_ok hv
    subst hn
    have := lightLoop_sound ok _ 0 0 vs.vals sigs hacc
    rw [Nat.zero_add, ← validPowerLight_eq ok vs h ch sigs] at this
    exact (needed_strict _ n vs.total d hd).mp this

/-- **Light commit verification never accepts a commit unless validators with valid signatures
    for that block carry strictly more than two thirds of the set's total power; a validator is
    never counted twice** (the spec sums over validator indices). -/
theorem light_sound (ok : Nat → Nat → Bool) (vs : ValSet) (h ch : Nat) (sigs : List CSig)
    (hT : vs.total = sumPowers vs.vals) :
    specLightSound (specInput vs h ch sigs) ok (decide (light ok vs h ch sigs = .ok)) = true := by
  unfold specLightSound
  by_cases hacc : light ok vs h ch sigs = .ok
  · have := light_sound_level ok LIGHT_NUM LIGHT_DEN vs h ch sigs hacc
    rw [hT, ← total_eq vs h ch sigs] at this
    simp only [LIGHT_NUM, LIGHT_DEN] at this
    simp [hacc, this]
  · simp [hacc]

/-- **When the commit is for the right height with one entry per validator and all its
    block-commit signatures are valid, it is accepted exactly when the signing power exceeds
    two thirds** (and the verdict is then never a panic). -/
theorem light_exact (ok : Nat → Nat → Bool) (vs : ValSet) (h ch : Nat) (sigs : List CSig)
    (hwf : vs.wf = true) :
    specLightExact (specInput vs h ch sigs) ok (decide (light ok vs h ch sigs = .ok)) = true := by
  unfold specLightExact
  by_cases hw : wellFormedLight (specInput vs h ch sigs) ok = true
  · simp only [hw, Bool.not_true, Bool.false_or, beq_iff_eq]
    simp only [wellFormedLight, Bool.and_eq_true, beq_iff_eq, List.all_eq_true, List.mem_range] at hw
    obtain ⟨⟨hh, hlen⟩, hall⟩ := hw
    simp only [ValSet.wf, Bool.and_eq_true, beq_iff_eq, decide_eq_true_eq] at hwf
    obtain ⟨hT, hmax⟩ := hwf
    have hlen' : vs.vals.length = sigs.length := by
      simpa [specInput] using hlen.symm
    have hh' : h = ch := by simpa [specInput] using hh
    have hav : allValid ok 0 vs.vals sigs = true := by
      apply allValid_of
      intro j hj
      have := hall j (by simpa [specInput] using hj)
      simpa [specInput, entry] using this
    have hcp : commitPow vs.vals sigs ≤ sumPowers vs.vals := commitPow_le_sum _ _
    have hb : 0 + commitPow vs.vals sigs < U64_LIMIT := by
      simp only [MAX_TOTAL_VOTING_POWER] at hmax
      simp only [U64_LIMIT]
      omega
    have hno : ¬ (LIGHT_NUM * vs.total ≥ U64_LIMIT) := by
      simp only [MAX_TOTAL_VOTING_POWER] at hmax
      simp only [LIGHT_NUM, U64_LIMIT]
      omega
    have hex := lightLoop_exact ok (LIGHT_NUM * vs.total / LIGHT_DEN) vs.vals 0 0 sigs hav hb (Nat.zero_le _)
    have hlight : light ok vs h ch sigs =
        if LIGHT_NUM * vs.total / LIGHT_DEN < commitPow vs.vals sigs then .ok
        else .err (.notEnough (commitPow vs.vals sigs) (LIGHT_NUM * vs.total / LIGHT_DEN)) := by
      unfold light verifyCommitLight votingPowerNeeded
      rw [if_neg (by simp [hlen']), if_neg (by simp [hh']), if_neg hno, if_neg (by decide)]
      simpa using hex
    rw [hlight, signingPower_eq, total_eq, ← hT]
    have hiff := needed_strict (commitPow vs.vals sigs) LIGHT_NUM vs.total LIGHT_DEN (by decide)
    simp only [LIGHT_NUM, LIGHT_DEN] at hiff ⊢
    by_cases hlt : 2 * vs.total / 3 < commitPow vs.vals sigs
    · simp [hlt, hiff.mp hlt]
    · have : ¬ (2 * vs.total < 3 * commitPow vs.vals sigs) := fun hc => hlt (hiff.mpr hc)
      simp [hlt, this]
  · simp [hw]

/-- on a set as tendermint builds it, the u64 tally of light verification cannot overflow:
    the verdict is never a (debug-build) panic, for any commit -/
theorem light_no_panic (ok : Nat → Nat → Bool) (n d : Nat) (vs : ValSet) (h ch : Nat) (sigs : List CSig)
    (hwf : vs.wf = true) : verifyCommitLight ok n d vs h ch sigs ≠ .panic := by
  simp only [ValSet.wf, Bool.and_eq_true, beq_iff_eq, decide_eq_true_eq] at hwf
  obtain ⟨hT, hmax⟩ := hwf
  unfold verifyCommitLight
  split; · simp
  split; · simp
  split
  · simp
  · apply lightLoop_no_panic
    have hcp : commitPow vs.vals sigs ≤ sumPowers vs.vals := commitPow_le_sum _ _
    simp only [MAX_TOTAL_VOTING_POWER] at hmax
    simp only [U64_LIMIT]
    omega

/-- **trusting soundness, any trust level** -/
theorem trusting_sound_level (ok : Nat → Nat → Bool) (n d : Nat) (vs : ValSet) (sigs : List CSig)
    (hacc : verifyCommitLightTrusting ok n d vs sigs = .ok) :
    d * validPowerTrusting (specInput vs 0 0 sigs) ok > n * vs.total := by
  unfold verifyCommitLightTrusting at hacc
  cases hv : votingPowerNeeded n d vs.total with
  | error e => rw [hv] at hacc; simp at hacc
  | ok needed =>
    rw [hv] at hacc
    simp only at hacc
    obtain ⟨hd, hn⟩ := votingPowerNeeded_ok hv
    subst hn
    have hP : ∀ (j vi : Nat) (v : Validator) (s : CSig), sigs[j]? = some s → s.flag = .commit →
        s.hasSig = true → findValidator vs.vals s.addr = some (vi, v) → ok vi j = true →
        signedTrusting (specInput vs 0 0 sigs) ok vi = true := by
      intro j vi v s hj hc hs hf hok
      obtain ⟨hv, ha⟩ := findValidator_some vs.vals s.addr vi v hf
      rcases List.getElem?_eq_some_iff.mp hj with ⟨hjlt, hjget⟩
      simp only [signedTrusting, List.any_eq_true, List.mem_range]
      refine ⟨j, by simpa [specInput] using hjlt, ?_⟩
      simp [specInput, entry, hjlt, hjget, toEntry, hc, hs, hok, hv, ha]
    have := trustLoop_sound ok _ vs.vals sigs (signedTrusting (specInput vs 0 0 sigs) ok) hP
      sigs [] [] 0 (by simp) (by simp) (Nat.zero_le _) (by simpa using hacc)
    have hvp : validPowerTrusting (specInput vs 0 0 sigs) ok =
        sumBelow vs.vals.length (fun i => if signedTrusting (specInput vs 0 0 sigs) ok i = true
          then (vs.vals.map (·.power)).getD i 0 else 0) := by
      simp [validPowerTrusting, specInput, power]
    rw [hvp]
    exact (needed_strict _ n vs.total d hd).mp this

/-- **Trusting verification never accepts unless distinct trusted validators with valid
    signatures carry strictly more than one third; a validator is never counted twice** -/
theorem trusting_sound (ok : Nat → Nat → Bool) (vs : ValSet) (sigs : List CSig)
    (hT : vs.total = sumPowers vs.vals) :
    specTrustingSound (specInput vs 0 0 sigs) ok (decide (trusting ok vs sigs = .ok)) = true := by
  unfold specTrustingSound
  by_cases hacc : trusting ok vs sigs = .ok
  · have := trusting_sound_level ok DEFAULT_TRUST_NUM DEFAULT_TRUST_DEN vs sigs hacc
    rw [hT, ← total_eq vs 0 0 sigs] at this
    simp only [DEFAULT_TRUST_NUM, DEFAULT_TRUST_DEN] at this
    simp only [hacc, decide_true, Bool.not_true, Bool.false_or, decide_eq_true_eq]
    exact this
  · simp [hacc]

/-- on a set as tendermint builds it, the u64 tally of trusting verification cannot overflow
    either (each trusted validator is tallied at most once), for any commit and trust level -/
theorem trusting_no_panic (ok : Nat → Nat → Bool) (n d : Nat) (vs : ValSet) (sigs : List CSig)
    (hwf : vs.wf = true) : verifyCommitLightTrusting ok n d vs sigs ≠ .panic := by
  simp only [ValSet.wf, Bool.and_eq_true, beq_iff_eq, decide_eq_true_eq] at hwf
  obtain ⟨hT, hmax⟩ := hwf
  unfold verifyCommitLightTrusting
  split
  · simp
  · apply trustLoop_no_panic
    · simp only [MAX_TOTAL_VOTING_POWER] at hmax
      simp only [U64_LIMIT]
      omega
    · exact Nat.zero_le _

/-- **When every block-commit entry carries a signature, the entries of trusted validators carry
    VALID signatures of those validators and no trusted validator is duplicated among the entries,
    trusting verification accepts exactly when the DISTINCT trusted signers' power exceeds one
    third of the trusted set's total** (and the verdict is then `NotEnoughVotingPower` or `Ok`,
    never a panic).  The early exit is covered: the loop may stop before reading the whole commit,
    the verdict is still the comparison of the WHOLE commit's trusted signing power with the
    threshold.  There is no height hypothesis: `verify_commit_light_trusting` takes no height.
    Duplicates are NOT ignored by the code: see `trusting_double_vote`. -/
theorem trusting_exact (ok : Nat → Nat → Bool) (vs : ValSet) (sigs : List CSig) (hwf : vs.wf = true) :
    specTrustingExact (specInput vs 0 0 sigs) ok (decide (trusting ok vs sigs = .ok)) = true := by
  unfold specTrustingExact
  by_cases hw : wellFormedTrusting (specInput vs 0 0 sigs) ok = true
  · simp only [hw, Bool.not_true, Bool.false_or, beq_iff_eq]
    simp only [wellFormedTrusting, Bool.and_eq_true, List.all_eq_true, List.mem_range] at hw
    obtain ⟨hall, hnd⟩ := hw
    simp only [ValSet.wf, Bool.and_eq_true, beq_iff_eq, decide_eq_true_eq] at hwf
    obtain ⟨hT, hmax⟩ := hwf
    have hnd' : (owners vs.vals sigs).Nodup := owners_nodup vs.vals sigs hnd
    have hav : allValidT ok vs.vals 0 sigs = true := by
      apply allValidT_of ok vs 0 0 sigs 0 sigs
      intro j hj
      have := hall j (by simpa [specInput] using hj)
      simpa [specInput, entry] using this
    have hle := ownerPow_le_sum vs.vals sigs hnd'
    have hb : 0 + ownerPow vs.vals sigs < U64_LIMIT := by
      simp only [MAX_TOTAL_VOTING_POWER] at hmax
      simp only [U64_LIMIT]
      omega
    have hno : ¬ (DEFAULT_TRUST_NUM * vs.total ≥ U64_LIMIT) := by
      simp only [MAX_TOTAL_VOTING_POWER] at hmax
      simp only [DEFAULT_TRUST_NUM, U64_LIMIT]
      omega
    have hex := trustLoop_prefix ok (DEFAULT_TRUST_NUM * vs.total / DEFAULT_TRUST_DEN) vs.vals [] sigs 0 [] 0
      hav hnd' (fun _ _ => by simp) hb (Nat.zero_le _)
    have htr : trusting ok vs sigs =
        if DEFAULT_TRUST_NUM * vs.total / DEFAULT_TRUST_DEN < ownerPow vs.vals sigs then .ok
        else .err (.notEnough (ownerPow vs.vals sigs) (DEFAULT_TRUST_NUM * vs.total / DEFAULT_TRUST_DEN)) := by
      unfold trusting verifyCommitLightTrusting votingPowerNeeded
      rw [if_neg hno, if_neg (by decide)]
      simpa [trustLoop] using hex
    rw [htr, trustedSigningPower_eq vs 0 0 sigs hnd', total_eq, ← hT]
    have hiff := needed_strict (ownerPow vs.vals sigs) DEFAULT_TRUST_NUM vs.total DEFAULT_TRUST_DEN (by decide)
    simp only [DEFAULT_TRUST_NUM, DEFAULT_TRUST_DEN, Nat.one_mul] at hiff ⊢
    by_cases hlt : vs.total / 3 < ownerPow vs.vals sigs
    · simp [hlt, hiff.mp hlt]
    · have : ¬ (vs.total < 3 * ownerPow vs.vals sigs) := fun hc => hlt (hiff.mpr hc)
      simp [hlt, this]
  · simp [hw]

/-- trusting soundness at ANY trust level, in spec form (what the driver evaluates on the
    implementation for the op lines whose level is not 1/3) -/
theorem trusting_sound_level_spec (ok : Nat → Nat → Bool) (n d : Nat) (vs : ValSet) (sigs : List CSig)
    (hT : vs.total = sumPowers vs.vals) :
    specTrustingSoundLevel n d (specInput vs 0 0 sigs) ok
      (decide (verifyCommitLightTrusting ok n d vs sigs = .ok)) = true := by
  unfold specTrustingSoundLevel
  by_cases hacc : verifyCommitLightTrusting ok n d vs sigs = .ok
  · have := trusting_sound_level ok n d vs sigs hacc
    rw [hT, ← total_eq vs 0 0 sigs] at this
    simp only [hacc, decide_true, Bool.not_true, Bool.false_or, decide_eq_true_eq]
    exact this
  · simp [hacc]

/-- the "exactly when" clause of trusting verification at ANY trust level `n/d`: accepted iff the
    level is usable (`d ≠ 0`, `n·total < 2^64`) and the distinct trusted signers carry strictly
    more than `n/d` of the total -/
theorem trusting_exact_level (ok : Nat → Nat → Bool) (n d : Nat) (vs : ValSet) (sigs : List CSig)
    (hwf : vs.wf = true) :
    specTrustingExactLevel n d (specInput vs 0 0 sigs) ok
      (decide (verifyCommitLightTrusting ok n d vs sigs = .ok)) = true := by
  unfold specTrustingExactLevel
  by_cases hw : wellFormedTrusting (specInput vs 0 0 sigs) ok = true
  · simp only [hw, Bool.not_true, Bool.false_or, beq_iff_eq]
    simp only [wellFormedTrusting, Bool.and_eq_true, List.all_eq_true, List.mem_range] at hw
    obtain ⟨hall, hnd⟩ := hw
    simp only [ValSet.wf, Bool.and_eq_true, beq_iff_eq, decide_eq_true_eq] at hwf
    obtain ⟨hT, hmax⟩ := hwf
    rw [total_eq, ← hT]
    by_cases hov : n * vs.total ≥ U64_LIMIT
    · have hlim : ¬ (n * vs.total < 18446744073709551616) := by simp only [U64_LIMIT] at hov; omega
      have : verifyCommitLightTrusting ok n d vs sigs = .err .neededOverflow := by
        unfold verifyCommitLightTrusting votingPowerNeeded
        rw [if_pos hov]
      simp [this, hlim]
    have hlim : n * vs.total < 18446744073709551616 := by simp only [U64_LIMIT] at hov; omega
    by_cases hd : d = 0
    · have : verifyCommitLightTrusting ok n d vs sigs = .err .neededDivZero := by
        unfold verifyCommitLightTrusting votingPowerNeeded
        rw [if_neg hov, if_pos hd]
      rw [this]
      simp [hd]
    have hdpos : 0 < d := by omega
    have hnd' : (owners vs.vals sigs).Nodup := owners_nodup vs.vals sigs hnd
    have hav : allValidT ok vs.vals 0 sigs = true := by
      apply allValidT_of ok vs 0 0 sigs 0 sigs
      intro j hj
      have := hall j (by simpa [specInput] using hj)
      simpa [specInput, entry] using this
    have hle := ownerPow_le_sum vs.vals sigs hnd'
    have hb : 0 + ownerPow vs.vals sigs < U64_LIMIT := by
      simp only [MAX_TOTAL_VOTING_POWER] at hmax
      simp only [U64_LIMIT]
      omega
    have hex := trustLoop_prefix ok (n * vs.total / d) vs.vals [] sigs 0 [] 0
      hav hnd' (fun _ _ => by simp) hb (Nat.zero_le _)
    have htr : verifyCommitLightTrusting ok n d vs sigs =
        if n * vs.total / d < ownerPow vs.vals sigs then .ok
        else .err (.notEnough (ownerPow vs.vals sigs) (n * vs.total / d)) := by
      unfold verifyCommitLightTrusting votingPowerNeeded
      rw [if_neg hov, if_neg hd]
      simpa [trustLoop] using hex
    rw [htr, trustedSigningPower_eq vs 0 0 sigs hnd']
    have hiff := needed_strict (ownerPow vs.vals sigs) n vs.total d hdpos
    by_cases hlt : n * vs.total / d < ownerPow vs.vals sigs
    · simp [hlt, hiff.mp hlt, hdpos, hlim]
    · have : ¬ (n * vs.total < d * ownerPow vs.vals sigs) := fun hc => hlt (hiff.mpr hc)
      simp [hlt, this]
  · simp [hw]

/-- **A duplicated trusted validator is an ERROR, not a skipped entry.**  Let the commit be
    `pre ++ d :: rest` where `pre` satisfies the hypothesis of `trusting_exact` and `d` is a
    block-commit entry (carrying a signature, valid or not) whose address is that of a trusted
    validator who already has a block-commit entry in `pre`.  Then, whatever follows, the
    verdict is `Ok` if the distinct trusted signers of `pre` alone already exceed one third (the
    early exit happens before `d` is read), and the "Double vote" error otherwise — never
    `NotEnoughVotingPower`, and `rest` is never counted. -/
theorem trusting_double_vote (ok : Nat → Nat → Bool) (vs : ValSet) (pre rest : List CSig) (d : CSig)
    (hwf : vs.wf = true) (hpre : wellFormedTrusting (specInput vs 0 0 pre) ok = true)
    (hd : d.flag = .commit) (hsig : d.hasSig = true)
    (hdup : ∃ s ∈ pre, s.flag = .commit ∧ s.addr = d.addr) (htr : d.addr ∈ vs.vals.map (·.addr)) :
    trusting ok vs (pre ++ d :: rest) =
      if 3 * trustedSigningPower (specInput vs 0 0 pre) > 1 * total (specInput vs 0 0 pre) then .ok
      else .err .doubleVote := by
  simp only [wellFormedTrusting, Bool.and_eq_true, List.all_eq_true, List.mem_range] at hpre
  obtain ⟨hall, hnd⟩ := hpre
  simp only [ValSet.wf, Bool.and_eq_true, beq_iff_eq, decide_eq_true_eq] at hwf
  obtain ⟨hT, hmax⟩ := hwf
  have hnd' : (owners vs.vals pre).Nodup := owners_nodup vs.vals pre hnd
  have hav : allValidT ok vs.vals 0 pre = true := by
    apply allValidT_of ok vs 0 0 pre 0 pre
    intro j hj
    have := hall j (by simpa [specInput] using hj)
    simpa [specInput, entry] using this
  have hle := ownerPow_le_sum vs.vals pre hnd'
  have hb : 0 + ownerPow vs.vals pre < U64_LIMIT := by
    simp only [MAX_TOTAL_VOTING_POWER] at hmax
    simp only [U64_LIMIT]
    omega
  have hno : ¬ (DEFAULT_TRUST_NUM * vs.total ≥ U64_LIMIT) := by
    simp only [MAX_TOTAL_VOTING_POWER] at hmax
    simp only [DEFAULT_TRUST_NUM, U64_LIMIT]
    omega
  obtain ⟨vi, v, hf⟩ := findValidatorFrom_isSome d.addr vs.vals 0 htr
  have hmem : vi ∈ owners vs.vals pre := by
    obtain ⟨s, hs, hc, ha⟩ := hdup
    exact (mem_owners vs.vals vi pre).mpr ⟨s, hs, hc, v, by rw [ha]; exact hf⟩
  have hex := trustLoop_prefix ok (DEFAULT_TRUST_NUM * vs.total / DEFAULT_TRUST_DEN) vs.vals (d :: rest) pre 0 [] 0
    hav hnd' (fun _ _ => by simp) hb (Nat.zero_le _)
  rw [trustLoop_double ok _ vs.vals _ _ _ d rest vi v hd hsig hf (by simpa using hmem)] at hex
  have htr' : trusting ok vs (pre ++ d :: rest) =
      if DEFAULT_TRUST_NUM * vs.total / DEFAULT_TRUST_DEN < ownerPow vs.vals pre then .ok
      else .err .doubleVote := by
    unfold trusting verifyCommitLightTrusting votingPowerNeeded
    rw [if_neg hno, if_neg (by decide)]
    simpa using hex
  rw [htr', trustedSigningPower_eq vs 0 0 pre hnd', total_eq, ← hT]
  have hiff := needed_strict (ownerPow vs.vals pre) DEFAULT_TRUST_NUM vs.total DEFAULT_TRUST_DEN (by decide)
  simp only [DEFAULT_TRUST_NUM, DEFAULT_TRUST_DEN, Nat.one_mul] at hiff ⊢
  by_cases hlt : vs.total / 3 < ownerPow vs.vals pre
  · simp [hlt, hiff.mp hlt]
  · have : ¬ (vs.total < 3 * ownerPow vs.vals pre) := fun hc => hlt (hiff.mpr hc)
    simp [hlt, this]

/-! ### non-vacuity -/

def v (a : UInt8) (p : Nat) : Validator := { addr := [a], power := p }
def c (a : UInt8) : CSig := { flag := .commit, addr := [a], hasSig := true }
def exSet : ValSet := { vals := [v 1 1, v 2 1, v 3 1], total := 3 }

-- a well-formed set; three equal validators: two signers are exactly 2/3 → rejected, three → accepted
example : exSet.wf = true := by decide
example : light (fun _ _ => true) exSet 5 5 [c 1, c 2, ⟨.absent, [], false⟩] = .err (.notEnough 2 2) := by decide
example : light (fun _ _ => true) exSet 5 5 [c 1, c 2, c 3] = .ok := by decide
example : wellFormedLight (specInput exSet 5 5 [c 1, c 2, c 3]) (fun _ _ => true) = true := by decide
-- trusting: one of three is exactly 1/3 → rejected; two → accepted; the same validator twice → double vote
example : trusting (fun _ _ => true) exSet [c 2] = .err (.notEnough 1 1) := by decide
example : trusting (fun _ _ => true) exSet [c 9, c 2, c 3] = .ok := by decide
example : trusting (fun _ _ => true) exSet [c 2, c 2] = .err .doubleVote := by decide
-- `trusting_exact`: its hypothesis holds for a commit with an unknown signer, an absent entry and two
-- distinct trusted signers (accepted: 2/3 > 1/3) and for one trusted signer (rejected: exactly 1/3)
example : wellFormedTrusting (specInput exSet 0 0 [c 9, ⟨.absent, [], false⟩, c 2, c 3]) (fun _ _ => true) = true := by decide
example : trustedSigningPower (specInput exSet 0 0 [c 9, ⟨.absent, [], false⟩, c 2, c 3]) = 2 := by decide
example : wellFormedTrusting (specInput exSet 0 0 [c 2]) (fun _ _ => true) = true := by decide
-- a duplicated trusted validator falsifies the hypothesis (and the code answers "Double vote")
example : wellFormedTrusting (specInput exSet 0 0 [c 2, c 2]) (fun _ _ => true) = false := by decide
-- `trusting_double_vote`: early exit before the duplicate → accepted; otherwise the double-vote error
def exSet5 : ValSet := { vals := [v 1 1, v 2 1, v 3 1, v 4 1, v 5 1], total := 5 }
example : trusting (fun _ _ => true) exSet5 ([c 2, c 3] ++ c 2 :: [c 4]) = .ok := by decide
example : trusting (fun _ _ => true) exSet5 ([c 2] ++ c 2 :: [c 3, c 4]) = .err .doubleVote := by decide

end Lumina.Props.C03

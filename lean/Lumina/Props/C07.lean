/-
  C07 — Bad-encoding fraud proofs are sound and complete.   PROPERTY THEOREMS ONLY.

  Model: `Lumina/Model/Befp.lean` (`validate` = `BadEncodingFraudProof::validate` as it is after the three `fix:`
  commits eb5a49a, 0ccaf23, 93ec7dd; `validateUnfixed` = before).  Spec: `Lumina/Spec/C07.lean`.
  Parameters: the hash `H` — 32-byte output and NO COLLISION AMONG THE BYTE STRINGS ACTUALLY HASHED (`HashOKOn H S` with `S`
  an explicit finite list: `hashedSound` = the inputs of `Dah.ofEds` for the committed square + the inputs of the
  verification of this proof's share proofs; `hashedComplete` = the former + the leaves and nodes of the re-encoded axis);
  each soundness/completeness theorem also has a reduction form "violation ⇒ explicit collision in that list".  The
  Reed–Solomon codec `C`: its decoder is assumed to recover a codeword from any half (`RecOK`); for whole honest blocks
  additionally linear, so that every axis is a codeword (C08).
-/
import Lumina.Gen.C07
import Lumina.Proofs.BefpSound
import Lumina.Proofs.BefpComplete
import Lumina.Spec.C07
import Lumina.Model.Sample

namespace Lumina.Props.C07
open Lumina.Util Lumina.Model.Nmt Lumina.Model.Eds Lumina.Model.EdsCode Lumina.Model.Befp
open Lumina.Model.Decoders (Befp ShareWithProof)
open Lumina.Proofs.Nmt Lumina.Proofs.EdsCode Lumina.Proofs.EdsExtend Lumina.Proofs.EdsLinear Lumina.Proofs.EdsCodeword
open Lumina.Proofs.Befp Lumina.Proofs.BefpSound Lumina.Proofs.BefpComplete Lumina.Proofs.Eds
open Lumina.Spec.C07 (specValidate Obs)

theorem consts_eq :
    Lumina.Gen.C07.SHARE_SIZE = 512 ∧ Lumina.Gen.C07.SHARE_SIZE = Lumina.Model.Eds.SHARE_SIZE ∧
    Lumina.Gen.C07.NS_SIZE = 29 ∧ Lumina.Gen.C07.NS_SIZE = Lumina.Model.Nmt.NS_SIZE ∧
    Lumina.Model.Decoders.NMT_LEAF_SIZE = 541 ∧ LEOPARD_ORDER = 256 := by decide

/-- the byte strings hashed by the two computations soundness compares: `DataAvailabilityHeader::from_eds` of the
    committed square, and the verification of the share proofs of this fraud proof -/
def hashedSound (H : HashFn) (e : Eds) (p : Befp) : List Bytes := edsInputs H e ++ befpInputs H p.shares

/-- … and, for completeness, additionally the leaves and inner nodes of the tree `validate` rebuilds from the re-encoded axis -/
def hashedComplete (H : HashFn) (C : Codec) (e : Eds) (p : Befp) : List Bytes :=
  edsInputs H e ++ encodingInputs H C (e.width / 2) p.index (rebuiltOf p.shares)

/-- **Soundness, per axis.**  The header commits (through `DataAvailabilityHeader::from_eds`) to a square accepted by
    `ExtendedDataSquare::new`.  If the row/column a fraud proof indicates is a Reed–Solomon codeword, the proof does not
    validate — for EVERY proof: any shares, any inclusion proofs, any positions (permuted, duplicated, substituted),
    any claimed namespaces, any mix of proof axes, any height and index.  Hash hypothesis: no collision among `hashedSound`
    (satisfiable; see `befp_sound_or_collision` for the reduction form). -/
theorem befp_sound {H : HashFn} (C : Codec) {ver : Nat} {X : List Bytes} {e : Eds}
    (hnew : edsNew ver X = .ok e) {dah : Dah} (hd : Dah.ofEds H e = .ok dah) (p : Befp) (hwf : BefpWF p) (hh : Nat)
    (hk : HashOKOn H (fun y => y ∈ hashedSound H e p))
    (hcw : p.index < e.width → IsCodeword C.enc (e.width / 2) (axisData e X p.axis p.index) ∧
      RecOK C (e.width / 2) (axisData e X p.axis p.index)) :
    validate H C p hh dah ≠ .ok () :=
  validate_rejects_codeword C (edsNew_ok hnew) hd p hwf hh hk hcw

/-- **Soundness, reduction form**: a fraud proof that validates against a codeword axis yields an EXPLICIT collision of
    the (32-byte-output) hash among the finitely many byte strings of `hashedSound` -/
theorem befp_sound_or_collision {H : HashFn} (hl : HashLen H) (C : Codec) {ver : Nat} {X : List Bytes} {e : Eds}
    (hnew : edsNew ver X = .ok e) {dah : Dah} (hd : Dah.ofEds H e = .ok dah) (p : Befp) (hwf : BefpWF p) (hh : Nat)
    (hcw : p.index < e.width → IsCodeword C.enc (e.width / 2) (axisData e X p.axis p.index) ∧
      RecOK C (e.width / 2) (axisData e X p.axis p.index))
    (hok : validate H C p hh dah = .ok ()) :
    CollisionIn H (fun y => y ∈ hashedSound H e p) := by
  rcases noCollOn_or_collision H (fun y => y ∈ hashedSound H e p) with h | h
  · exact (befp_sound C hnew hd p hwf hh ⟨h, hl⟩ hcw hok).elim
  · exact h

/-- **For an honestly encoded block no fraud proof validates.**  The block is what `from_ods` builds with a linear
    encoder whose decoder recovers codewords (the Reed–Solomon hypotheses of C08): every row and column is a codeword
    (C08 `axes_codewords`), so `befp_sound` applies to whatever axis the proof indicates. -/
theorem befp_sound_honest_block {H : HashFn} (C : Codec) {ver : Nat} {ods : List Bytes} {e : Eds}
    (hs : EncShape C.enc (isqrt ods.length)) (L : EncLinear C.enc (isqrt ods.length) 512)
    (hrec : ∀ cw, IsCodeword C.enc (isqrt ods.length) cw → RecOK C (isqrt ods.length) cw)
    (hf : fromOds C.enc ver ods = .ok e) {dah : Dah} (hd : Dah.ofEds H e = .ok dah)
    (p : Befp) (hwf : BefpWF p) (hh : Nat) (hk : HashOKOn H (fun y => y ∈ hashedSound H e p)) :
    validate H C p hh dah ≠ .ok () := by
  have x := extOK hs hf
  have hlen : ∀ s ∈ ods, s.length = 512 := x.ods_size
  generalize isqrt ods.length = k at x hs L hrec
  apply validate_rejects_codeword C x.newOK hd p hwf hh hk
  intro hidx
  have hi2 : p.index < 2 * k := by rw [← x.width]; exact hidx
  have hk2 : e.width / 2 = k := by rw [x.width]; omega
  have hdata : axisData e (extGrid C.enc k ods) p.axis p.index =
      (match p.axis with | .row => extRow C.enc k ods p.index | .col => extCol C.enc k ods p.index) := by
    unfold axisData
    cases p.axis with
    | row =>
      simp only [lineCells, List.map_map, extRow, x.width]
      apply List.map_congr_left
      intro c hc
      simp only [Function.comp_apply, cell, axisCoord]
      exact extGrid_getD C.enc k ods hi2 (List.mem_range.mp hc)
    | col =>
      simp only [lineCells, List.map_map, extCol, x.width]
      apply List.map_congr_left
      intro r hr
      simp only [Function.comp_apply, cell, axisCoord]
      exact extGrid_getD C.enc k ods (List.mem_range.mp hr) hi2
  have hcw := axes_codewords hs L x.sq hlen hi2
  have : IsCodeword C.enc k (axisData e (extGrid C.enc k ods) p.axis p.index) := by
    rw [hdata]
    cases p.axis with
    | row => exact hcw.1
    | col => exact hcw.2
  rw [hk2]
  exact ⟨this, hrec _ this⟩

/-- non-vacuity: `BefpWF` and `RecOK` are satisfiable (the real ones are exercised on every correspondence line: the
    real codec recovers real codewords, decoded proofs have 29-byte namespaces and 90-byte nodes) -/
example : BefpWF ⟨1, [none, none], 0, .row⟩ := by intro s hs; simp at hs
example (cw : List Bytes) : RecOK ⟨fun l => l, fun _ => cw⟩ 1 cw := fun _ _ _ => rfl

/-- what is observed of an outcome -/
def obsOf : Except BErr Unit → Obs
  | .ok () => .ok
  | .error .panic => .panic
  | .error (.rangeProof .panic) => .panic
  | .error _ => .err

/-- the soundness half of the spec checker holds of the model's outcome whenever the call does not panic (the
    panic-freedom of the proof verification itself is C16's subject) -/
theorem befp_spec_sound {H : HashFn} (C : Codec) {ver : Nat} {X : List Bytes} {e : Eds}
    (hnew : edsNew ver X = .ok e) {dah : Dah} (hd : Dah.ofEds H e = .ok dah) (p : Befp) (hwf : BefpWF p) (hh : Nat)
    (hk : HashOKOn H (fun y => y ∈ hashedSound H e p))
    (hidx : p.index < e.width)
    (hcw : Lumina.Spec.C07.isCodeword C.enc (axisData e X p.axis p.index) = true)
    (hrec : RecOK C (e.width / 2) (axisData e X p.axis p.index))
    (hnp : obsOf (validate H C p hh dah) ≠ .panic) (honest : Bool) :
    specValidate C.enc (some (axisData e X p.axis p.index)) honest (obsOf (validate H C p hh dah)) = true := by
  have hn := edsNew_ok hnew
  have hlen : (axisData e X p.axis p.index).length = e.width := by simp [axisData, lineCells]
  obtain ⟨j, hj1, _, hj⟩ := hn.pow
  have hw2 : 2 * (e.width / 2) = e.width := by
    obtain ⟨j', rfl⟩ : ∃ j', j = j' + 1 := ⟨j - 1, by omega⟩
    rw [hj, Nat.pow_succ]; omega
  have hcw' : IsCodeword C.enc (e.width / 2) (axisData e X p.axis p.index) := by
    simp only [Lumina.Spec.C07.isCodeword, hlen, Bool.and_eq_true, beq_iff_eq] at hcw
    exact ⟨by rw [hlen]; exact hw2.symm, hcw.2⟩
  have hne := befp_sound C hnew hd p hwf hh hk (fun _ => ⟨hcw', hrec⟩)
  simp only [specValidate, hcw, ↓reduceIte, Bool.and_eq_true, bne_iff_ne, ne_eq]
  refine ⟨hnp, ?_⟩
  cases hv : validate H C p hh dah with
  | ok u => exact (hne (by rw [hv])).elim
  | error er => cases er with
    | validation => simp [obsOf]
    | panic => simp [obsOf]
    | rangeProof e' => cases e' <;> simp [obsOf]

/-- **Completeness.**  The header commits to a square accepted by `ExtendedDataSquare::new` (well-formed, but possibly
    badly encoded) of width at most 256 (what the codec can re-encode).  If the indicated row/column is NOT a codeword,
    every honest proof validates: the header's height, at least half of that axis' shares, each with the inclusion
    proof `Sample::new` builds for its own position along whichever proof axis — every subset, every proof-axis mix,
    every axis (upper/lower rows, left/right columns).  Hash: no collision among `hashedComplete` (satisfiable; reduction
    form: `befp_complete_or_collision`); of the codec only shapes are assumed (parity shards not shorter than a namespace,
    the decoder returns as many shards as it was given). -/
theorem befp_complete {H : HashFn} (C : Codec) {ver : Nat} {X : List Bytes} {e : Eds}
    (hnew : edsNew ver X = .ok e) {dah : Dah} (hd : Dah.ofEds H e = .ok dah) (p : Befp) (hh : Nat)
    (hp : HonestProof H e p hh) (hcap : e.width ≤ 256)
    (hk : HashOKOn H (fun y => y ∈ hashedComplete H C e p))
    (hnc : ¬ IsCodeword C.enc (e.width / 2) (axisData e X p.axis p.index))
    (hencsz : ∀ l, (∀ s ∈ l, 64 ≤ s.length) → ∀ s ∈ C.enc l, NS_SIZE ≤ s.length)
    (hreclen : ∀ l, (C.recon l).length = l.length) :
    validate H C p hh dah = .ok () := by
  have hn := edsNew_ok hnew
  obtain ⟨k, hv⟩ := validSquare_of_newOK hn
  obtain ⟨hrl, hcl, _, _⟩ := Lumina.Proofs.Eds.dah_ofEds_roots hd
  have hvs := verifyShares_honest hk.hlen hv hd hp.index p.shares 0 (by rw [hp.len]; omega)
    (fun m s hm => by rw [Nat.zero_add]; exact hp.honest m s hm)
  have hce := checkEncoding_noncodeword C hn hd p.axis hp.index (rebuiltOf p.shares)
    (by simp [rebuiltOf, hp.len]) hk hnc hencsz hreclen
  unfold validate validateWith
  simp only [hrl]
  have c1 : ¬ hh ≠ p.height := by simp [hp.height]
  have c2 : ¬ e.width ≠ dah.colRoots.length := by simp [hcl]
  have c3 : ¬ e.width > 65535 := by omega
  have c4 : ¬ p.index ≥ e.width := by have := hp.index; omega
  have c5 : ¬ p.shares.length ≠ e.width := by simp [hp.len]
  have c6 : ¬ (p.shares.filter Option.isSome).length < e.width / 2 := by have := hp.count; omega
  have c7 : (Flags.fixed.capGuard && decide (e.width > LEOPARD_ORDER)) = false := by
    simp [LEOPARD_ORDER]; omega
  simp only [c1, c2, c3, c4, c5, c6, c7, ↓reduceIte, Bool.false_eq_true, hvs, hce]

/-- **Completeness, reduction form**: an honest proof of a non-codeword axis that is NOT accepted yields an explicit
    collision of the (32-byte-output) hash among the byte strings of `hashedComplete` -/
theorem befp_complete_or_collision {H : HashFn} (hl : HashLen H) (C : Codec) {ver : Nat} {X : List Bytes} {e : Eds}
    (hnew : edsNew ver X = .ok e) {dah : Dah} (hd : Dah.ofEds H e = .ok dah) (p : Befp) (hh : Nat)
    (hp : HonestProof H e p hh) (hcap : e.width ≤ 256)
    (hnc : ¬ IsCodeword C.enc (e.width / 2) (axisData e X p.axis p.index))
    (hencsz : ∀ l, (∀ s ∈ l, 64 ≤ s.length) → ∀ s ∈ C.enc l, NS_SIZE ≤ s.length)
    (hreclen : ∀ l, (C.recon l).length = l.length)
    (hrej : validate H C p hh dah ≠ .ok ()) :
    CollisionIn H (fun y => y ∈ hashedComplete H C e p) := by
  rcases noCollOn_or_collision H (fun y => y ∈ hashedComplete H C e p) with h | h
  · exact (hrej (befp_complete C hnew hd p hh hp hcap ⟨h, hl⟩ hnc hencsz hreclen)).elim
  · exact h

/-! ### the defect of the unchanged code, as a concrete witness

  A 2 × 2 square built by `from_ods` from one share with the repetition code (for `k = 1` Reed–Solomon IS the repetition
  code) and a toy hash; the fraud proof is the HONEST one for the lower row: both shares of row 1, each at its own position
  with the inclusion proof `Sample::new` builds.  The code before the fixes "proves" fraud against this honest block
  (the first rebuilt leaf is filed under the data namespace the parity bytes happen to spell); the fixed code rejects. -/

def toyH : HashFn := fun b => (b ++ List.replicate 32 0).take 32
def cexShare : Bytes := List.replicate 29 0 ++ List.replicate 483 7
def cexEds : Eds := Eds.ofRaw 2 [cexShare, cexShare, cexShare, cexShare]
def cexCodec : Codec := ⟨fun l => l, fun l => l⟩
def cexShareAt (i : Nat) : Option ShareWithProof :=
  match Lumina.Model.Sample.new toyH cexEds 1 i .row with
  | .ok s => some ⟨s.share.ns, s.share.data, s.proof, .row⟩
  | .error _ => none
def cexProof : Befp := ⟨5, [cexShareAt 0, cexShareAt 1], 1, .row⟩
def isOk {ε α} : Except ε α → Bool
  | .ok _ => true
  | .error _ => false
def cexWitness : Bool :=
  match Dah.ofEds toyH cexEds with
  | .ok dah =>
    isOk (validateUnfixed toyH cexCodec cexProof 5 dah) && !isOk (validate toyH cexCodec cexProof 5 dah) &&
    (match fromOds cexCodec.enc 1 [cexShare] with | .ok e => e == cexEds | .error _ => false)
  | .error _ => false

set_option maxRecDepth 100000 in
/-- before the fixes, an honest block (`from_ods`) + the honest proof for its lower row ⇒ `validate = Ok(())`;
    after the fixes the same proof is rejected -/
theorem befp_unfixed_lower_axis_counterexample : cexWitness = true := by decide +kernel

/-! ### Non-vacuity of `befp_sound`: ALL hypotheses hold on a concrete instance

  the same honest 2 × 2 block, the honest lower-row proof built under grpD's toy hash `toySum` (a 32-byte positional
  checksum), which has no collision among the byte strings of `hashedSound`; the decoder is the correct one for this codeword -/

open Lumina.Proofs.Sample (toySum toySum_len noCollOn_of_list)

def nvCodec : Codec := ⟨fun l => l, fun _ => [cexShare, cexShare]⟩
def nvDah : Dah := match Dah.ofEds toySum cexEds with | .ok d => d | .error _ => default
def nvShareAt (i : Nat) : Option ShareWithProof :=
  match Lumina.Model.Sample.new toySum cexEds 1 i .row with
  | .ok s => some ⟨s.share.ns, s.share.data, s.proof, .row⟩
  | .error _ => none
def nvProof : Befp := ⟨5, [nvShareAt 0, nvShareAt 1], 1, .row⟩

set_option maxRecDepth 100000 in
theorem nonvacuity_toySum_nocoll : NoCollOn toySum (fun y => y ∈ hashedSound toySum cexEds nvProof) :=
  noCollOn_of_list (by decide +kernel)

set_option maxRecDepth 100000 in
example : validate toySum nvCodec nvProof 5 nvDah ≠ .ok () := by
  have hnew : edsNew 1 [cexShare, cexShare, cexShare, cexShare] = .ok cexEds := by decide +kernel
  have hd : Dah.ofEds toySum cexEds = .ok nvDah := by decide +kernel
  have hwf : BefpWF nvProof := by
    have h : nvProof.shares.all (fun o => match o with
        | some s => decide (s.ns.length = NS_SIZE) && s.proof.siblings.all (fun q => decide q.WF)
        | none => true) = true := by decide +kernel
    intro s hs
    have := List.all_eq_true.mp h (some s) hs
    simp only [Bool.and_eq_true, decide_eq_true_eq, List.all_eq_true] at this
    exact this
  refine befp_sound nvCodec hnew hd nvProof hwf 5 ⟨nonvacuity_toySum_nocoll, toySum_len⟩ ?_
  intro _
  have haxis : axisData cexEds [cexShare, cexShare, cexShare, cexShare] nvProof.axis nvProof.index = [cexShare, cexShare] := by
    decide +kernel
  have hw : cexEds.width / 2 = 1 := rfl
  rw [haxis, hw]
  exact ⟨⟨rfl, rfl⟩, fun _ _ _ => rfl⟩

end Lumina.Props.C07

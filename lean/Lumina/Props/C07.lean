import Lumina.Gen.C07
import Lumina.Model.Befp
import Lumina.Spec.C07

namespace Lumina.Props.C07

theorem consts_eq :
    Lumina.Gen.C07.SHARE_SIZE = 512 ∧ Lumina.Gen.C07.SHARE_SIZE = Lumina.Model.Eds.SHARE_SIZE ∧
    Lumina.Gen.C07.NS_SIZE = 29 ∧ Lumina.Gen.C07.NS_SIZE = Lumina.Model.Nmt.NS_SIZE ∧
    Lumina.Model.Decoders.NMT_LEAF_SIZE = 541 := by decide

end Lumina.Props.C07

import Lumina.Gen.C34
import Lumina.Model.DaserView

namespace Lumina.Props.C34

/-- the pruner backlog at which sampling of prunable blocks pauses is the 512 the property states -/
theorem pruner_threshold_is_512 : Lumina.Gen.C34.PRUNER_THRESHOLD = 512 := by decide

end Lumina.Props.C34

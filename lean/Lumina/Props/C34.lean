/-
  C34 — Data sampling respects concurrency limits and recency order.

  Property theorems over the worker model `Lumina.Model.Daser` (transcription of
  `/repo/node/src/daser.rs`), for ALL states reachable by ANY history of stimuli (store inserts and
  removals, peer-count changes, pruner commands and reports, network answers in any order) and
  ANY output of `random_indexes`.  The property itself is the monitor `Lumina.Spec.C34`
  (`startOK`: below the limit / limit + allowance for the newest, highest eligible height, inside
  the window, not prunable under a backlog ≥ 512); `view34` is what the monitor sees of a state.
  Lemmas: `Lumina/Proofs/Daser.lean`, `Lumina/Proofs/DaserRanges.lean`.
-/
import Lumina.Gen.C34
import Lumina.Proofs.Daser

namespace Lumina.Props.C34
open Lumina.Model.Daser Lumina.Proofs.Daser
open Lumina.Model.Ranges (U64_MAX)

/-- the pruner backlog at which sampling of prunable blocks pauses is the 512 the property states -/
theorem pruner_threshold_is_512 : Lumina.Gen.C34.PRUNER_THRESHOLD = 512 := by decide

/-- (used by the shared invariant; the number itself is C33's subject) -/
theorem max_samples_is_16 : Lumina.Gen.C34.MAX_SAMPLES_NEEDED = 16 := by decide

/-- a freshly created worker (any limits, any header chain) satisfies the invariant -/
theorem init_ok (limit extra : Nat) (hdr : Nat → Hdr) :
    StateOK (init { limit := limit, extra := extra, maxSamples := Lumina.Gen.C34.MAX_SAMPLES_NEEDED,
                    prunerThreshold := Lumina.Gen.C34.PRUNER_THRESHOLD } hdr) :=
  ⟨inv_init _ _, pruner_threshold_is_512, max_samples_is_16⟩

/-- **one stimulus.**  From any state satisfying the invariant, for any stimulus with `u64` arguments and
    any outputs of `random_indexes`: the invariant holds afterwards and the monitor accepts every
    action of the worker — in particular every block it starts satisfies `Spec.C34.startOK`. -/
theorem step_accepted (s : State) (ev : Ev) (rnd : List (List (Nat × Nat))) (hs : StateOK s) (hwf : EvWF ev) :
    Lumina.Spec.C34.specOK (view34 s) ev (step s ev rnd).2 = true ∧ StateOK (step s ev rnd).1 :=
  ⟨(step_ok hs ev hwf rnd).2.1, (step_ok hs ev hwf rnd).1⟩

/-- **every history.**  Whatever the environment does, in whatever order, for however long: every
    action of the worker is accepted by the monitor. -/
theorem history_accepted (limit extra : Nat) (hdr : Nat → Hdr)
    (evs : List (Ev × List (List (Nat × Nat)))) (hwf : ∀ e ∈ evs, EvWF e.1) :
    accepts34 (init { limit := limit, extra := extra, maxSamples := Lumina.Gen.C34.MAX_SAMPLES_NEEDED,
                      prunerThreshold := Lumina.Gen.C34.PRUNER_THRESHOLD } hdr) evs = true :=
  (run_ok evs _ (init_ok limit extra hdr) hwf).1

/-- the acceptance of a start, spelled out: whenever the monitor, in view `v`, accepts a
    `metaUpd h` (the first observable action of starting block `h`), `startOK v h` holds -/
theorem accepted_start_is_ok (v : Lumina.Spec.C34.View) (h : Nat) (c : List Share) (ts : List Tok)
    (hacc : (Lumina.Spec.C34.walk v (Tok.metaUpd h c :: ts)).isSome = true) :
    Lumina.Spec.C34.startOK v h = true := by
  simp only [Lumina.Spec.C34.walk, Lumina.Spec.C34.onTok, Lumina.Spec.C34.start] at hacc
  cases hs : Lumina.Spec.C34.startOK v h
  · rw [hs] at hacc; simp at hacc
  · rfl

/-- a start cannot hide behind a missing metadata record: an accepted `SamplingStarted` event or share request of
    block `h` means that `h` is already counted as in progress (it passed `startOK` earlier) or passes `startOK` now -/
theorem accepted_activity_is_started (v : Lumina.Spec.C34.View) (h : Nat) (t : Tok) (ts : List Tok)
    (ht : (∃ w sh, t = Tok.started h w sh) ∨ (∃ sh, t = Tok.req h sh))
    (hacc : (Lumina.Spec.C34.walk v (t :: ts)).isSome = true) :
    v.inProgress h = true ∨ Lumina.Spec.C34.startOK v h = true := by
  have hp : (match Lumina.Spec.C34.partOf v h with | none => none | some v' => Lumina.Spec.C34.walk v' ts).isSome = true := by
    rcases ht with ⟨w, sh, rfl⟩ | ⟨sh, rfl⟩ <;>
      (simp only [Lumina.Spec.C34.walk, Lumina.Spec.C34.onTok] at hacc; exact hacc)
  cases hi : v.inProgress h
  · right
    cases hs : Lumina.Spec.C34.startOK v h
    · simp [Lumina.Spec.C34.partOf, Lumina.Spec.C34.start, hi, hs] at hp
    · rfl
  · exact Or.inl rfl

/-- **histories that also contain answers which are neither a sample nor a timeout** (P2p errors, undecodable or
    foreign bytes: fatal for the worker): still accepted -/
theorem history_with_bad_answers_accepted (limit extra : Nat) (hdr : Nat → Hdr) (sts : List Stim)
    (hwf : ∀ st ∈ sts, StimWF st) :
    acceptsX34 (init { limit := limit, extra := extra, maxSamples := Lumina.Gen.C34.MAX_SAMPLES_NEEDED,
                       prunerThreshold := Lumina.Gen.C34.PRUNER_THRESHOLD } hdr) sts = true :=
  (runX_ok sts _ (init_ok limit extra hdr) hwf).1

/-- what `startOK` says, clause by clause (so that the Boolean checker cannot hide anything) -/
theorem startOK_spelled_out (v : Lumina.Spec.C34.View) (h : Nat) (hok : Lumina.Spec.C34.startOK v h = true) :
    v.stored h = true ∧ v.known h = true ∧ v.inProgress h = false ∧ v.promised h = false ∧ v.timedOut h = false ∧
    (∀ x, h < x → x ≤ v.newest.getD 0 →
      ¬ (v.known x = true ∧ v.inProgress x = false ∧ v.promised x = false ∧ v.timedOut x = false)) ∧
    v.fresh h = true ∧
    ¬ (h ≤ v.highestPrunable.getD 0 ∧ 512 ≤ v.numPrunable) ∧
    (v.nInProgress < v.limit ∨ (v.newest = some h ∧ v.nInProgress < v.limit + v.extra)) := by
  simp only [Lumina.Spec.C34.startOK, Lumina.Spec.C34.eligible, Bool.and_eq_true, Bool.or_eq_true, Bool.not_eq_true',
    List.all_eq_true, decide_eq_true_eq, Bool.and_eq_false_imp, beq_iff_eq, Bool.not_eq_eq_eq_not, Bool.not_true,
    decide_eq_false_iff_not] at hok
  obtain ⟨⟨⟨⟨⟨⟨_, hst⟩, ⟨⟨⟨hk, hip⟩, hpr⟩, hto⟩⟩, habove⟩, hfr⟩, hbl⟩, hlim⟩ := hok
  refine ⟨hst, hk, hip, hpr, hto, ?_, hfr, ?_, ?_⟩
  · rintro x h1 h2 ⟨a, b, c, d⟩
    have hx : x ∈ Lumina.Spec.C34.above v h := by
      simp only [Lumina.Spec.C34.above, List.mem_range'_1]; omega
    have := habove x hx
    simp only [Lumina.Spec.C34.eligible, a, b, c, d] at this
    simp at this
  · rintro ⟨a, b⟩; exact absurd b (by have := hbl a; omega)
  · rcases hlim with hl | ⟨hn, hl⟩
    · exact Or.inl hl
    · exact Or.inr ⟨hn, hl⟩

/-- the number of blocks in progress never exceeds limit + allowance -/
theorem in_progress_bounded (s : State) (hs : StateOK s) : s.w.futs.length ≤ s.cfg.limit + s.cfg.extra :=
  hs.inv.futs_le

/-- `|ongoing| = |sampling_futs|`: `BlockRanges::len` of `ongoing` (which cannot overflow) is the number of
    sampling futures, and `ongoing` is exactly the set of their heights, one future per height -/
theorem ongoing_matches_futures (s : State) (hs : StateOK s) :
    Lumina.Model.Ranges.len s.w.ongoing = .ok s.w.futs.length ∧
    (∀ x, Lumina.Model.Ranges.mem s.w.ongoing x ↔ ∃ f ∈ s.w.futs, f.height = x) ∧
    (s.w.futs.map (·.height)).Nodup :=
  ⟨ongoing_len hs.inv, hs.inv.ongoing_eq, hs.inv.nodup⟩

/-- the queue is exactly the eligible set: known stored, not known sampled (`cand`), not timed out,
    not in progress, not promised to the pruner -/
theorem queue_is_eligible_set (s : State) (hs : StateOK s) (x : Nat) :
    Lumina.Model.Ranges.mem s.w.queue x ↔
      (Lumina.Model.Ranges.mem s.w.cand x ∧ ¬ Lumina.Model.Ranges.mem s.w.timedOut x ∧
       ¬ Lumina.Model.Ranges.mem s.w.ongoing x ∧ ¬ Lumina.Model.Ranges.mem s.w.willBePruned x) := by
  have := hs.inv.queue_eq x
  simpa using this

/-- no `expect` fails and no loop bound of the model is hit: a step of a live worker either succeeds
    or `random_indexes` does not terminate on the given draws (only `WantToPrune(0)` panics) -/
theorem no_panic (s : State) (ev : Ev) (rnd : List (List (Nat × Nat))) (hs : StateOK s) (hal : s.w.dead = false)
    (hwf : EvWF ev) (hp0 : ev ≠ .prune 0) (e : Fail) (he : stepM s ev rnd = .error e) : e = .diverge :=
  stepM_no_panic hs.inv hal hs.thr ev hwf hp0 rnd e he

/-- … and `WantToPrune(0)` does kill the worker task (`.expect("invalid height")`) -/
theorem prune_zero_panics (s : State) (rnd : List (List (Nat × Nat))) (hs : StateOK s) :
    stepM s (.prune 0) rnd = .error .panic :=
  Lumina.Proofs.Daser.prune_zero_panics hs.inv rnd

/-! ### non-vacuity: concrete histories (limit 1, allowance 1; chain of width-2 headers, height 1 outside
    the sampling window) -/

def cfg0 : Cfg := { limit := 1, extra := 1, maxSamples := Lumina.Gen.C34.MAX_SAMPLES_NEEDED,
                    prunerThreshold := Lumina.Gen.C34.PRUNER_THRESHOLD }
def hdr0 : Nat → Hdr := fun h => { width := 2, fresh := decide (1 < h) }
def s0 : State := init cfg0 hdr0
def g2 : List Share := [(0,0),(0,1),(1,0),(1,1)]

/-- headers 1..3 arrive, then a peer connects: only block 3 (the newest: limit + allowance = 2) is
    started; block 2 has to wait (1 in progress ≥ limit 1) -/
def h1 : List (Ev × List (List (Nat × Nat))) := [(.insert 1 3, []), (.peers 1, [[], []])]

set_option maxRecDepth 100000 in
example : (run s0 h1).2 = [[], [Tok.scan, Tok.metaUpd 3 g2, Tok.started 3 2 g2, Tok.req 3 g2]] := by decide

/-- a new head 4 arrives: started on the allowance (1 in progress < 1 + 1); then 4 completes successfully
    and 3 times out; 2 is started, then 1 is found outside the window and dropped for good -/
def h2 : List (Ev × List (List (Nat × Nat))) :=
  h1 ++ [(.insert 4 4, [[]]),
         (.answer 4 (0,0) false, []), (.answer 4 (0,1) false, []), (.answer 4 (1,0) false, []), (.answer 4 (1,1) false, []),
         (.answer 3 (0,0) true, []), (.answer 3 (0,1) false, []), (.answer 3 (1,0) false, []), (.answer 3 (1,1) false, [[]]),
         (.answer 2 (0,0) false, []), (.answer 2 (0,1) false, []), (.answer 2 (1,0) false, []), (.answer 2 (1,1) false, [[]])]

set_option maxRecDepth 100000 in
example : (run s0 h2).2.drop 2 =
    [[Tok.scan, Tok.metaUpd 4 g2, Tok.started 4 2 g2, Tok.req 4 g2],
     [Tok.share 4 (0,0) false], [Tok.share 4 (0,1) false], [Tok.share 4 (1,0) false],
     [Tok.share 4 (1,1) false, Tok.result 4 false, Tok.mark 4],
     [Tok.share 3 (0,0) true], [Tok.share 3 (0,1) false], [Tok.share 3 (1,0) false],
     [Tok.share 3 (1,1) false, Tok.result 3 true, Tok.metaUpd 2 g2, Tok.started 2 2 g2, Tok.req 2 g2],
     [Tok.share 2 (0,0) false], [Tok.share 2 (0,1) false], [Tok.share 2 (1,0) false],
     [Tok.share 2 (1,1) false, Tok.result 2 false, Tok.mark 2]] := by decide

set_option maxRecDepth 100000 in
example : accepts34 s0 h2 = true := by decide

/-- the monitor is not trivially accepting: in the state after `h1` (block 3 in progress, limit 1) a start
    of block 2 is rejected (over the limit), and so is a start of block 1 (not the highest, outside the window) -/
example : Lumina.Spec.C34.specOK (view34 (run s0 h1).1) (.setNumPrunable 0) [Tok.metaUpd 2 g2] = false := by decide
example : Lumina.Spec.C34.specOK (view34 (run s0 h1).1) (.setNumPrunable 0) [Tok.metaUpd 1 g2] = false := by decide

/-- … and a start that skips the metadata record is still seen: a `SamplingStarted` / request of block 2 while block 3
    fills the limit is rejected; the same actions for block 3 (in progress) are accepted -/
example : Lumina.Spec.C34.specOK (view34 (run s0 h1).1) (.setNumPrunable 0) [Tok.started 2 2 g2, Tok.req 2 g2] = false := by decide
example : Lumina.Spec.C34.specOK (view34 (run s0 h1).1) (.setNumPrunable 0) [Tok.req 2 g2] = false := by decide
example : Lumina.Spec.C34.specOK (view34 (run s0 h1).1) (.setNumPrunable 0) [Tok.started 3 2 g2, Tok.req 3 g2] = true := by decide

/-- pruner backlog: with 512 prunable blocks reported and everything up to 3 prunable, nothing starts;
    when the backlog drops to 511 the newest block starts -/
def h3 : List (Ev × List (List (Nat × Nat))) :=
  [(.setNumPrunable 512, []), (.setHighestPrunable 3, []), (.insert 1 3, []), (.peers 1, [[]]), (.setNumPrunable 511, [[], []])]

set_option maxRecDepth 100000 in
example : (run s0 h3).2 = [[], [], [], [Tok.scan], [Tok.metaUpd 3 g2, Tok.started 3 2 g2, Tok.req 3 g2]] := by decide

/-- a non-initial state satisfying the hypotheses of `step_accepted` -/
example : StateOK (run s0 h2).1 := (run_ok h2 s0 (init_ok 1 1 hdr0) (by decide)).2.2

end Lumina.Props.C34

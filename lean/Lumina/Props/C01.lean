/-
  C01 — Header validation binds signatures, validator set and DAH.   PROPERTY THEOREMS ONLY.

  Model: `validate` in Lumina/Model/HeaderVerify.lean (transcription of
  `ExtendedHeader::validate` and the `validate_basic`s it calls), run against the real code by
  the correspondence check.  Spec: Lumina/Spec/C01.lean.

  Idealised primitives are EXPLICIT HYPOTHESES, never axioms:
    `Function.Injective P.hHeader / P.hValset / P.hDah`  — collision-freeness of the three hashes
    `SigBindsMsg P`  — a signature valid for one signed content is not valid for another (same key)
    `SigUnique P`    — at most one valid signature per (key, content)
  All theorems hold for every header, every validator-set size, every signature type `S`.

  THE PROPERTY AS WORDED IS FALSE of the current code in two places (both intended CometBFT
  light-client semantics, recorded as open findings):
    * signature / timestamp of a commit entry the 2/3 tally does not consume
      (`FullStatementSig`, `mutation_sig_counterexample`; proved part: `…_partial`),
    * validator address of ANY commit entry (`FullStatementAddr`, `mutation_addr_counterexample`,
      `validate_ignores_entry_address`).
-/
import Lumina.Props.C03
import Lumina.Model.HeaderVerifyBridge
import Lumina.Model.C01Consts
import Lumina.Proofs.InjectiveWitness

namespace Lumina.Props.C01
open Lumina.Model.Commit Lumina.Model.HeaderVerify Lumina.Gen.C01 Lumina.Proofs.Commit
open Lumina.Spec.C01

/-- the constants of the source are the numbers the property (and the spec) state -/
theorem consts_eq :
    BLOCK_PROTOCOL = 11 ∧ MAX_CHAIN_ID_LEN = 50 ∧ GENESIS_HEIGHT = 1 ∧ MIN_EXTENDED_SQUARE_WIDTH = 2 ∧
    LIGHT_NUM = 2 ∧ LIGHT_DEN = 3 ∧ EXT_FACTOR = 2 ∧
    squareUpperOfSource = [(1, 128), (2, 128), (3, 128), (4, 128), (5, 128), (6, 512), (7, 512)] := by
  decide

def SigBindsMsg {S : Type} (P : Prims S) : Prop :=
  ∀ pk m m' s, P.sigValid pk m s = true → P.sigValid pk m' s = true → m = m'

def SigUnique {S : Type} (P : Prims S) : Prop :=
  ∀ pk m s s', P.sigValid pk m s = true → P.sigValid pk m s' = true → s = s'

theorem commitOut_ok (o : Outcome) : commitOut o = .ok ↔ o = .ok := by
  cases o <;> simp [commitOut]

/-- the light-verification call inside `validate` -/
def lightOf {S : Type} (P : Prims S) (c : Consts) (eh : ExtHeader S) : Outcome :=
  verifyCommitLight (sigOracle P eh) c.lightNum c.lightDen eh.valset.toValSet
    eh.header.height eh.commit.height (eh.commit.sigs.map EntryF.toCSig)

/-- **`validate` accepts exactly when** every one of its checks holds (so dropping any comparison
    changes the model and is caught by the correspondence) -/
theorem validate_ok_iff {S : Type} (P : Prims S) (c : Consts) (eh : ExtHeader S) :
    validate P c eh = .ok ↔
      (headerValidateBasic c eh.header = none ∧ commitValidateBasic c eh.commit = none ∧
       valSetValidateBasicE eh.valset = none ∧
       P.hValset eh.valset.hashed = eh.header.validatorsHash ∧
       P.hDah (eh.dah.rows ++ eh.dah.cols) = eh.header.dataHash.getD none ∧
       eh.commit.height = eh.header.height ∧
       eh.commit.blockId.hash = P.hHeader eh.header.canon ∧
       lightOf P c eh = .ok ∧
       ∃ maxW, c.maxExtWidth? eh.header.versionApp = some maxW ∧
         dahValidateBasic c.minExtWidth maxW eh.dah = none) := by
  unfold validate lightOf
  cases h1 : headerValidateBasic c eh.header with
  | some e => simp
  | none =>
  cases h2 : commitValidateBasic c eh.commit with
  | some e => simp
  | none =>
  cases h3 : valSetValidateBasicE eh.valset with
  | some e => simp
  | none =>
  by_cases h4 : P.hValset eh.valset.hashed = eh.header.validatorsHash
  case neg => simp [h4]
  by_cases h5 : P.hDah (eh.dah.rows ++ eh.dah.cols) = eh.header.dataHash.getD none
  case neg => simp [h4, h5]
  by_cases h6 : eh.commit.height = eh.header.height
  case neg => simp [h4, h5, h6]
  by_cases h7 : eh.commit.blockId.hash = P.hHeader eh.header.canon
  case neg => simp [h4, h5, h6, h7]
  simp only [h4, h5, h6, h7, ne_eq, not_true_eq_false, if_false, true_and]
  cases h8 : verifyCommitLight (sigOracle P eh) c.lightNum c.lightDen eh.valset.toValSet
      eh.header.height eh.header.height (eh.commit.sigs.map EntryF.toCSig) with
  | err e => simp [commitOut]
  | panic => simp [commitOut]
  | ok =>
    simp only [commitOut, true_and]
    cases h9 : c.maxExtWidth? eh.header.versionApp with
    | none => simp
    | some maxW =>
      cases h10 : dahValidateBasic c.minExtWidth maxW eh.dah with
      | some e => simp [h10]
      | none => simp [h10]

/-! ### mutation families decided by hashes and plain comparisons -/

/-- **any field covered by the block hash** (the 14 header fields, as `Header::hash` sees them):
    two accepted headers with the same commit block hash have the same hashed header content -/
theorem mutation_rejects_header_field {S : Type} (P : Prims S) (c : Consts) (eh eh' : ExtHeader S)
    (hinj : Function.Injective P.hHeader)
    (hacc : validate P c eh = .ok)
    (hsame : eh'.commit.blockId.hash = eh.commit.blockId.hash)
    (hdiff : eh'.header.canon ≠ eh.header.canon) :
    validate P c eh' ≠ .ok := by
  intro hacc'
  have h := ((validate_ok_iff P c eh).mp hacc).2.2.2.2.2.2.1
  have h' := ((validate_ok_iff P c eh').mp hacc').2.2.2.2.2.2.1
  exact hdiff (hinj (by rw [← h', ← h, hsame]))

/-- **any DAH row or column root** (and any other change of the DAH), data hash unchanged -/
theorem mutation_rejects_dah {S : Type} (P : Prims S) (c : Consts) (eh eh' : ExtHeader S)
    (hinj : Function.Injective P.hDah)
    (hacc : validate P c eh = .ok)
    (hsame : eh'.header.dataHash.getD none = eh.header.dataHash.getD none)
    (hdiff : eh'.dah ≠ eh.dah) :
    validate P c eh' ≠ .ok := by
  intro hacc'
  obtain ⟨_, _, _, _, h5, _, _, _, w, _, hw⟩ := (validate_ok_iff P c eh).mp hacc
  obtain ⟨_, _, _, _, h5', _, _, _, w', _, hw'⟩ := (validate_ok_iff P c eh').mp hacc'
  have hcat : eh'.dah.rows ++ eh'.dah.cols = eh.dah.rows ++ eh.dah.cols :=
    hinj (by rw [h5', h5, hsame])
  have hl : eh.dah.cols.length = eh.dah.rows.length := by
    unfold dahValidateBasic at hw
    split at hw; · simp at hw
    rename_i h; simpa using h
  have hl' : eh'.dah.cols.length = eh'.dah.rows.length := by
    unfold dahValidateBasic at hw'
    split at hw'; · simp at hw'
    rename_i h; simpa using h
  have hlen : (eh'.dah.rows ++ eh'.dah.cols).length = (eh.dah.rows ++ eh.dah.cols).length := by rw [hcat]
  simp only [List.length_append] at hlen
  have hr : eh'.dah.rows.length = eh.dah.rows.length := by omega
  obtain ⟨hrows, hcols⟩ := List.append_inj hcat hr
  apply hdiff
  cases hd : eh.dah; cases hd' : eh'.dah
  simp_all

/-- **the data hash**: with the DAH unchanged, a different data hash is rejected -/
theorem mutation_rejects_data_hash {S : Type} (P : Prims S) (c : Consts) (eh eh' : ExtHeader S)
    (hacc : validate P c eh = .ok)
    (hsame : eh'.dah = eh.dah)
    (hdiff : eh'.header.dataHash.getD none ≠ eh.header.dataHash.getD none) :
    validate P c eh' ≠ .ok := by
  intro hacc'
  have h := ((validate_ok_iff P c eh).mp hacc).2.2.2.2.1
  have h' := ((validate_ok_iff P c eh').mp hacc').2.2.2.2.1
  rw [hsame, h] at h'
  exact hdiff h'.symm

/-- **any validator key or power**, validators hash unchanged -/
theorem mutation_rejects_validator {S : Type} (P : Prims S) (c : Consts) (eh eh' : ExtHeader S)
    (hinj : Function.Injective P.hValset)
    (hacc : validate P c eh = .ok)
    (hsame : eh'.header.validatorsHash = eh.header.validatorsHash)
    (hdiff : eh'.valset.hashed ≠ eh.valset.hashed) :
    validate P c eh' ≠ .ok := by
  intro hacc'
  have h := ((validate_ok_iff P c eh).mp hacc).2.2.2.1
  have h' := ((validate_ok_iff P c eh').mp hacc').2.2.2.1
  exact hdiff (hinj (by rw [h', h, hsame]))

/-- **the commit's block id hash**, header unchanged (no hypothesis needed) -/
theorem mutation_rejects_commit_block_hash {S : Type} (P : Prims S) (c : Consts) (eh eh' : ExtHeader S)
    (hacc : validate P c eh = .ok)
    (hsame : eh'.header = eh.header)
    (hdiff : eh'.commit.blockId.hash ≠ eh.commit.blockId.hash) :
    validate P c eh' ≠ .ok := by
  intro hacc'
  have h := ((validate_ok_iff P c eh).mp hacc).2.2.2.2.2.2.1
  have h' := ((validate_ok_iff P c eh').mp hacc').2.2.2.2.2.2.1
  rw [hsame, ← h] at h'
  exact hdiff h'

/-- **the commit's height**, header unchanged (no hypothesis needed) -/
theorem mutation_rejects_commit_height {S : Type} (P : Prims S) (c : Consts) (eh eh' : ExtHeader S)
    (hacc : validate P c eh = .ok)
    (hsame : eh'.header = eh.header)
    (hdiff : eh'.commit.height ≠ eh.commit.height) :
    validate P c eh' ≠ .ok := by
  intro hacc'
  have h := ((validate_ok_iff P c eh).mp hacc).2.2.2.2.2.1
  have h' := ((validate_ok_iff P c eh').mp hacc').2.2.2.2.2.1
  rw [hsame, ← h] at h'
  exact hdiff h'

/-! ### commit entries: what the 2/3 tally consumes is bound -/

/-- model-level "entry k is consumed by the tally": the commit power before it has not exceeded
    the threshold -/
def preOK {S : Type} (c : Consts) (eh : ExtHeader S) (k : Nat) : Prop :=
  commitPow (eh.valset.toValSet.vals.take k) ((eh.commit.sigs.map EntryF.toCSig).take k) ≤
    c.lightNum * eh.valset.total / c.lightDen

/-- in an accepted header, every block-commit entry the tally consumes carries a signature that
    verifies under the index-aligned validator's key for that entry's vote -/
theorem tallied_entry_valid {S : Type} (P : Prims S) (c : Consts) (eh : ExtHeader S) (k : Nat)
    (e : EntryF S) (hacc : validate P c eh = .ok) (he : eh.commit.sigs[k]? = some e)
    (hflag : e.flag = .commit) (hpre : preOK c eh k) :
    ∃ v s, eh.valset.vals[k]? = some v ∧ e.sig = some s ∧
      P.sigValid v.pk (voteMsg eh e) s = true := by
  have hl := ((validate_ok_iff P c eh).mp hacc).2.2.2.2.2.2.2.1
  unfold lightOf verifyCommitLight at hl
  split at hl; · simp at hl
  rename_i hlen
  split at hl; · simp at hl
  cases hv : votingPowerNeeded c.lightNum c.lightDen eh.valset.toValSet.total with
  | error x => rw [hv] at hl; simp at hl
  | ok needed =>
    rw [hv] at hl
    simp only at hl
    obtain ⟨_, hn⟩ := votingPowerNeeded_ok hv
    rcases List.getElem?_eq_some_iff.mp he with ⟨hk, hget⟩
    have hlen' : eh.valset.toValSet.vals.length = (eh.commit.sigs.map EntryF.toCSig).length := by
      simpa using hlen
    have hk1 : k < (eh.commit.sigs.map EntryF.toCSig).length := by simpa using hk
    have hk2 : k < eh.valset.toValSet.vals.length := by omega
    have hf : (eh.commit.sigs.map EntryF.toCSig)[k].flag = .commit := by
      simp [hget, EntryF.toCSig, hflag]
    have := lightLoop_ok_consumed (sigOracle P eh) needed eh.valset.toValSet.vals 0 0 _ k hk1 hl hk2 hf
      (by rw [hn]; simpa [preOK, SetK.toValSet] using hpre)
    obtain ⟨_, hok⟩ := this
    simp only [Nat.zero_add] at hok
    have hk3 : k < eh.valset.vals.length := by simpa [SetK.toValSet] using hk2
    unfold sigOracle at hok
    rw [he, List.getElem?_eq_getElem hk3] at hok
    simp only at hok
    cases hs : e.sig with
    | none => rw [hs] at hok; simp at hok
    | some s =>
      rw [hs] at hok
      exact ⟨eh.valset.vals[k], s, List.getElem?_eq_getElem hk3, rfl, hok⟩

/-- replace commit entry `k` -/
def setEntry {S : Type} (eh : ExtHeader S) (k : Nat) (e' : EntryF S) : ExtHeader S :=
  { eh with commit := { eh.commit with sigs := eh.commit.sigs.set k e' } }

theorem preOK_setEntry {S : Type} (c : Consts) (eh : ExtHeader S) (k : Nat) (e' : EntryF S) :
    preOK c (setEntry eh k e') k ↔ preOK c eh k := by
  unfold preOK setEntry
  simp [List.take_set_of_le]

theorem setEntry_get {S : Type} (eh : ExtHeader S) (k : Nat) (e e' : EntryF S)
    (he : eh.commit.sigs[k]? = some e) : (setEntry eh k e').commit.sigs[k]? = some e' := by
  rcases List.getElem?_eq_some_iff.mp he with ⟨hk, _⟩
  simp [setEntry, hk]

/-- the two accepted headers of a single-entry mutation both carry a valid signature at a
    consumed position `k`, under the same key -/
theorem both_valid {S : Type} (P : Prims S) (c : Consts) (eh : ExtHeader S) (k : Nat) (e e' : EntryF S)
    (hacc : validate P c eh = .ok) (hacc' : validate P c (setEntry eh k e') = .ok)
    (he : eh.commit.sigs[k]? = some e) (hflag : e.flag = .commit) (hflag' : e'.flag = .commit)
    (hpre : preOK c eh k) :
    ∃ (v : ValK) (s s' : S), e.sig = some s ∧ e'.sig = some s' ∧
      P.sigValid v.pk (voteMsg eh e) s = true ∧ P.sigValid v.pk (voteMsg eh e') s' = true := by
  obtain ⟨v, s, hv, hs, hval⟩ := tallied_entry_valid P c eh k e hacc he hflag hpre
  obtain ⟨v', s', hv', hs', hval'⟩ := tallied_entry_valid P c (setEntry eh k e') k e' hacc'
    (setEntry_get eh k e e' he) hflag' ((preOK_setEntry c eh k e').mpr hpre)
  have hvv : v' = v := by
    have : (setEntry eh k e').valset = eh.valset := rfl
    rw [this, hv] at hv'
    exact (Option.some.inj hv').symm
  subst hvv
  exact ⟨v', s, s', hs, hs', hval, hval'⟩

/-- **any commit signature — of an entry the tally consumes** (`_partial`: see `FullStatementSig`) -/
theorem mutation_rejects_signature_partial {S : Type} (P : Prims S) (c : Consts) (eh : ExtHeader S)
    (k : Nat) (e e' : EntryF S) (hu : SigUnique P)
    (hacc : validate P c eh = .ok) (he : eh.commit.sigs[k]? = some e) (hflag : e.flag = .commit)
    (hpre : preOK c eh k)
    (hsame : e'.flag = e.flag ∧ e'.ts = e.ts) (hdiff : e'.sig ≠ e.sig) :
    validate P c (setEntry eh k e') ≠ .ok := by
  intro hacc'
  obtain ⟨v, s, s', hs, hs', hval, hval'⟩ :=
    both_valid P c eh k e e' hacc hacc' he hflag (by rw [hsame.1, hflag]) hpre
  have hm : voteMsg eh e' = voteMsg eh e := by simp [voteMsg, hsame.2]
  rw [hm] at hval'
  have := hu _ _ _ _ hval hval'
  apply hdiff
  rw [hs, hs', this]

/-- **any commit timestamp — of an entry the tally consumes** -/
theorem mutation_rejects_timestamp_partial {S : Type} (P : Prims S) (c : Consts) (eh : ExtHeader S)
    (k : Nat) (e e' : EntryF S) (hb : SigBindsMsg P)
    (hacc : validate P c eh = .ok) (he : eh.commit.sigs[k]? = some e) (hflag : e.flag = .commit)
    (hpre : preOK c eh k)
    (hsame : e'.flag = e.flag ∧ e'.sig = e.sig) (hdiff : e'.ts ≠ e.ts) :
    validate P c (setEntry eh k e') ≠ .ok := by
  intro hacc'
  obtain ⟨v, s, s', hs, hs', hval, hval'⟩ :=
    both_valid P c eh k e e' hacc hacc' he hflag (by rw [hsame.1, hflag]) hpre
  have hss : s' = s := by
    have : some s' = some s := by rw [← hs', ← hs, hsame.2]
    exact Option.some.inj this
  rw [hss] at hval'
  have := hb _ _ _ _ hval hval'
  apply hdiff
  have := congrArg VoteMsg.ts this
  simpa [voteMsg] using this.symm

/-- an accepted header's light loop ran to acceptance -/
theorem accepted_loop {S : Type} (P : Prims S) (c : Consts) (eh : ExtHeader S)
    (hacc : validate P c eh = .ok) :
    eh.valset.toValSet.vals.length = (eh.commit.sigs.map EntryF.toCSig).length ∧
    lightLoop (sigOracle P eh) (c.lightNum * eh.valset.total / c.lightDen) 0 0
      eh.valset.toValSet.vals (eh.commit.sigs.map EntryF.toCSig) = .ok := by
  have hl := ((validate_ok_iff P c eh).mp hacc).2.2.2.2.2.2.2.1
  unfold lightOf verifyCommitLight at hl
  split at hl; · simp at hl
  rename_i hlen
  split at hl; · simp at hl
  cases hv : votingPowerNeeded c.lightNum c.lightDen eh.valset.toValSet.total with
  | error x => rw [hv] at hl; simp at hl
  | ok needed =>
    rw [hv] at hl
    simp only at hl
    obtain ⟨_, hn⟩ := votingPowerNeeded_ok hv
    rw [hn] at hl
    exact ⟨by simpa using hlen, hl⟩

/-- **the commit's round, the rest of its block id (part-set header), and the chain id, height
    and block hash as signed**: two accepted headers with the same validator set and the same
    commit entries agree on everything the votes sign -/
theorem mutation_rejects_signed_commit_field {S : Type} (P : Prims S) (c : Consts) (eh eh' : ExtHeader S)
    (hb : SigBindsMsg P)
    (hacc : validate P c eh = .ok)
    (hvals : eh'.valset = eh.valset) (hsigs : eh'.commit.sigs = eh.commit.sigs)
    (hdiff : eh'.commit.round ≠ eh.commit.round ∨ eh'.commit.blockId ≠ eh.commit.blockId ∨
             eh'.header.chainId ≠ eh.header.chainId ∨ eh'.commit.height ≠ eh.commit.height) :
    validate P c eh' ≠ .ok := by
  intro hacc'
  obtain ⟨hlen, hloop⟩ := accepted_loop P c eh hacc
  obtain ⟨k, hk, hkv, hflag, hpre⟩ := lightLoop_ok_exists _ _ _ 0 0 _ hloop
  have hk' : k < eh.commit.sigs.length := by simpa using hk
  have he : eh.commit.sigs[k]? = some eh.commit.sigs[k] := List.getElem?_eq_getElem hk'
  have hf : (eh.commit.sigs[k]).flag = .commit := by simpa [EntryF.toCSig] using hflag
  have hp : preOK c eh k := by unfold preOK; rw [hpre]; exact Nat.zero_le _
  have hp' : preOK c eh' k := by unfold preOK; rw [hvals, hsigs, hpre]; exact Nat.zero_le _
  obtain ⟨v, s, hv, hs, hval⟩ := tallied_entry_valid P c eh k _ hacc he hf hp
  obtain ⟨v', s', hv', hs', hval'⟩ := tallied_entry_valid P c eh' k _ hacc' (by rw [hsigs]; exact he) hf hp'
  rw [hvals, hv] at hv'
  have hvv := Option.some.inj hv'
  rw [hs] at hs'
  have hss := Option.some.inj hs'
  subst hvv; subst hss
  have hm := hb _ _ _ _ hval hval'
  simp only [voteMsg, VoteMsg.mk.injEq] at hm
  obtain ⟨h1, h2, h3, h4, _⟩ := hm
  rcases hdiff with h | h | h | h
  · exact h h3.symm
  · exact h h4.symm
  · exact h h1.symm
  · exact h h2.symm

/-! ### the validator address of a commit entry is bound by nothing -/

/-- everything of a commit entry except the validator address -/
def entryKey {S : Type} (e : EntryF S) : Flag × Int × Option S := (e.flag, e.ts, e.sig)

/-- replace the commit entries -/
def withSigs {S : Type} (eh : ExtHeader S) (sigs' : List (EntryF S)) : ExtHeader S :=
  { eh with commit := { eh.commit with sigs := sigs' } }

theorem map_factor {α β γ : Type} (key : α → β) (g : β → γ) (l l' : List α)
    (h : l'.map key = l.map key) : l'.map (fun a => g (key a)) = l.map (fun a => g (key a)) := by
  have := congrArg (List.map g) h
  simpa [List.map_map, Function.comp_def] using this

/-- **FINDING (address)**: `validate` never reads the validator address of a commit entry: the
    verdict (including the error kind) is the same for any two headers that differ only in the
    addresses written in their commit entries -/
theorem validate_ignores_entry_address {S : Type} (P : Prims S) (c : Consts) (eh : ExtHeader S)
    (sigs' : List (EntryF S)) (h : sigs'.map entryKey = eh.commit.sigs.map entryKey) :
    validate P c (withSigs eh sigs') = validate P c eh := by
  have hlen : sigs'.length = eh.commit.sigs.length := by
    have := congrArg List.length h; simpa using this
  -- (1) commit validate_basic
  have h1 : commitValidateBasic c (withSigs eh sigs').commit = commitValidateBasic c eh.commit := by
    have hall := map_factor entryKey
      (fun (k : Flag × Int × Option S) => commitSigValidateBasic { flag := k.1, addr := [], hasSig := k.2.2.isSome })
      eh.commit.sigs sigs' h
    have hall' : sigs'.all (fun e => commitSigValidateBasic e.toCSig) =
        eh.commit.sigs.all (fun e => commitSigValidateBasic e.toCSig) := by
      have e1 : ∀ l : List (EntryF S), l.all (fun e => commitSigValidateBasic e.toCSig) =
          (l.map (fun a => commitSigValidateBasic { flag := (entryKey a).1, addr := [], hasSig := (entryKey a).2.2.isSome })).all id := by
        intro l; simp [List.all_map, entryKey, EntryF.toCSig, commitSigValidateBasic, Function.comp_def]
      rw [e1, e1, hall]
    have hemp : sigs'.isEmpty = eh.commit.sigs.isEmpty := by
      cases hs : sigs' <;> cases hs2 : eh.commit.sigs <;> simp_all
    simp only [commitValidateBasic, withSigs, hall', hemp]
  -- (2) the entries as the light loop sees them
  have h2 : (sigs'.map EntryF.toCSig).map (fun a => (a.flag, a.hasSig)) =
      (eh.commit.sigs.map EntryF.toCSig).map (fun a => (a.flag, a.hasSig)) := by
    have := map_factor entryKey (fun (k : Flag × Int × Option S) => (k.1, k.2.2.isSome)) eh.commit.sigs sigs' h
    simpa [List.map_map, Function.comp_def, EntryF.toCSig, entryKey] using this
  -- (3) the oracle
  have h3 : sigOracle P (withSigs eh sigs') = sigOracle P eh := by
    funext i j
    have hj : (sigs'.map entryKey)[j]? = (eh.commit.sigs.map entryKey)[j]? := by rw [h]
    simp only [List.getElem?_map] at hj
    simp only [sigOracle, withSigs]
    cases hs' : sigs'[j]? with
    | none =>
      rw [hs'] at hj
      cases hs : eh.commit.sigs[j]? with
      | none => rfl
      | some e => rw [hs] at hj; simp at hj
    | some e' =>
      rw [hs'] at hj
      cases hs : eh.commit.sigs[j]? with
      | none => rw [hs] at hj; simp at hj
      | some e =>
        rw [hs] at hj
        simp only [Option.map_some, Option.some.injEq, entryKey, Prod.mk.injEq] at hj
        obtain ⟨_, hts, hsig⟩ := hj
        cases hv : eh.valset.vals[i]? with
        | none => rfl
        | some v => simp only [voteMsg, hts, hsig]
  have h4 : lightOf P c (withSigs eh sigs') = lightOf P c eh := by
    have hl : ∀ needed, lightLoop (sigOracle P eh) needed 0 0 eh.valset.toValSet.vals (sigs'.map EntryF.toCSig) =
        lightLoop (sigOracle P eh) needed 0 0 eh.valset.toValSet.vals (eh.commit.sigs.map EntryF.toCSig) :=
      fun needed => lightLoop_congr _ _ _ 0 0 _ _ h2
    have hlen2 : (sigs'.map EntryF.toCSig).length = (eh.commit.sigs.map EntryF.toCSig).length := by
      simp [hlen]
    unfold lightOf verifyCommitLight
    rw [h3]
    simp only [withSigs, hlen2, hl]
  unfold validate
  rw [h1]
  have h4' : verifyCommitLight (sigOracle P (withSigs eh sigs')) c.lightNum c.lightDen
      (withSigs eh sigs').valset.toValSet (withSigs eh sigs').header.height (withSigs eh sigs').commit.height
      ((withSigs eh sigs').commit.sigs.map EntryF.toCSig) =
    verifyCommitLight (sigOracle P eh) c.lightNum c.lightDen eh.valset.toValSet eh.header.height
      eh.commit.height (eh.commit.sigs.map EntryF.toCSig) := h4
  rw [h4']
  rfl

/-! ### acceptance of honest headers; what acceptance binds -/

theorem maxExt_eq (app : Nat) :
    sourceConsts.maxExtWidth? app = (squareUpper app).map (2 * ·) := by
  match app with
  | 0 => decide
  | 1 => decide
  | 2 => decide
  | 3 => decide
  | 4 => decide
  | 5 => decide
  | 6 => decide
  | 7 => decide
  | n + 8 =>
    have h : squareUpper (n + 8) = none := by
      unfold squareUpper
      rw [if_neg (by omega), if_neg (by omega)]
    rw [h]
    simp [Consts.maxExtWidth?, sourceConsts, squareUpperOfSource, FROM_U64_TABLE, UPPER_BOUND_DISPATCH,
      SQUARE_SIZE_UPPER_BOUND_TABLE, List.lookup]

theorem c03Input_eq {S : Type} (P : Prims S) (eh : ExtHeader S) :
    c03Input (toView P eh) =
      specInput eh.valset.toValSet eh.header.height eh.commit.height (eh.commit.sigs.map EntryF.toCSig) := rfl

theorem lightOf_eq {S : Type} (P : Prims S) (eh : ExtHeader S) :
    lightOf P sourceConsts eh =
      Lumina.Props.C03.light (sigOracle P eh) eh.valset.toValSet eh.header.height eh.commit.height
        (eh.commit.sigs.map EntryF.toCSig) := rfl

set_option linter.unusedSimpArgs false in
/-- the `validate_basic` level, spec ⇔ model -/
theorem wellFormed_iff {S : Type} (P : Prims S) (eh : ExtHeader S)
    (hch : eh.commit.height = eh.header.height) :
    wellFormed (toView P eh) = true ↔
      (headerValidateBasic sourceConsts eh.header = none ∧
       commitValidateBasic sourceConsts eh.commit = none ∧
       valSetValidateBasicE eh.valset = none) := by
  have hc : sourceConsts.blockProtocol = 11 ∧ sourceConsts.maxChainIdLen = 50 ∧
      sourceConsts.genesisHeight = 1 := by decide
  obtain ⟨c1, c2, c3⟩ := hc
  unfold wellFormed headerValidateBasic commitValidateBasic valSetValidateBasicE
  rw [c1, c2, c3, hch]
  simp only [toView, SetK.toValSet, List.map_map, List.isEmpty_map]
  by_cases h1 : eh.header.versionBlock = 11
  case neg => simp [h1]
  by_cases h2 : eh.header.chainId.length > 50
  case pos =>
    have : ¬ eh.header.chainId.length ≤ 50 := by omega
    simp [h1, h2, this]
  have h2' : eh.header.chainId.length ≤ 50 := by omega
  by_cases h3 : eh.header.height = 0
  case pos => simp [h1, h2, h2', h3]
  have h3' : 1 ≤ eh.header.height := by omega
  by_cases h4 : eh.header.height = 1
  · cases h5 : eh.header.lastBlockId with
    | some b => simp [h1, h2, h2', h3, h4, h5]
    | none =>
      cases h6 : eh.commit.blockId.isZero <;> cases h7 : eh.commit.sigs.isEmpty <;>
        cases h8 : eh.commit.sigs.all (fun e => commitSigValidateBasic e.toCSig) <;>
        cases h9 : eh.valset.vals.isEmpty <;> cases h10 : eh.valset.hasProposer <;>
        simp [h1, h2, h2', h3, h4, h5, h6, h7, h8, h9, h10]
  · cases h5 : eh.header.lastBlockId with
    | none => simp [h1, h2, h2', h3, h3', h4, h5]
    | some b =>
      cases h6 : eh.commit.blockId.isZero <;> cases h7 : eh.commit.sigs.isEmpty <;>
        cases h8 : eh.commit.sigs.all (fun e => commitSigValidateBasic e.toCSig) <;>
        cases h9 : eh.valset.vals.isEmpty <;> cases h10 : eh.valset.hasProposer <;>
        simp [h1, h2, h2', h3, h3', h4, h5, h6, h7, h8, h9, h10]


theorem bound_iff {S : Type} (P : Prims S) (eh : ExtHeader S) :
    bound (toView P eh) = true ↔
      (P.hValset eh.valset.hashed = eh.header.validatorsHash ∧
       P.hDah (eh.dah.rows ++ eh.dah.cols) = eh.header.dataHash.getD none ∧
       eh.commit.height = eh.header.height ∧
       eh.commit.blockId.hash = P.hHeader eh.header.canon) := by
  simp [bound, toView, and_assoc]

theorem widthOK_iff {S : Type} (P : Prims S) (eh : ExtHeader S) :
    widthOK (toView P eh) = true ↔
      ∃ maxW, sourceConsts.maxExtWidth? eh.header.versionApp = some maxW ∧
        dahValidateBasic sourceConsts.minExtWidth maxW eh.dah = none := by
  have hmin : sourceConsts.minExtWidth = 2 := by decide
  rw [maxExt_eq, hmin]
  unfold widthOK dahValidateBasic
  simp only [toView]
  cases hsq : squareUpper eh.header.versionApp with
  | none => simp
  | some w =>
    simp only [Option.map_some, Option.some.injEq, exists_eq_left']
    by_cases h1 : eh.dah.cols.length = eh.dah.rows.length
    case neg =>
      have : ¬ eh.dah.rows.length = eh.dah.cols.length := fun h => h1 h.symm
      simp [h1, this]
    by_cases h2 : eh.dah.rows.length < 2
    case pos =>
      have : ¬ 2 ≤ eh.dah.rows.length := by omega
      simp [h1, h2, this]
    by_cases h3 : eh.dah.rows.length > 2 * w
    case pos =>
      have : ¬ eh.dah.rows.length ≤ 2 * w := by omega
      simp [h1, h2, h3, this]
    have h2' : 2 ≤ eh.dah.rows.length := by omega
    have h3' : eh.dah.rows.length ≤ 2 * w := by omega
    simp [h1, h2, h3, h2', h3']

/-- **A header produced and signed by a validator set holding the voting power is accepted by
    header validation** — for every validator-set size, powers, app version and square width. -/
theorem honest_accepts {S : Type} (P : Prims S) (eh : ExtHeader S) :
    specHonestAccepted (toView P eh) (sigOracle P eh)
      (decide (validate P sourceConsts eh = .ok)) = true := by
  unfold specHonestAccepted
  by_cases hh : honest (toView P eh) (sigOracle P eh) = true
  case neg => simp [hh]
  have hh0 := hh
  unfold honest at hh
  simp only [Bool.and_eq_true, decide_eq_true_eq, beq_iff_eq] at hh
  obtain ⟨⟨⟨⟨⟨⟨hwf, hb⟩, hwl⟩, hpow⟩, hw⟩, htot⟩, hmax⟩ := hh
  have hb' := (bound_iff P eh).mp hb
  have hwf' := (wellFormed_iff P eh hb'.2.2.1).mp hwf
  have hw' := (widthOK_iff P eh).mp hw
  have hvs : eh.valset.toValSet.wf = true := by
    simp only [ValSet.wf, Bool.and_eq_true, beq_iff_eq, decide_eq_true_eq]
    refine ⟨?_, ?_⟩
    · simpa [toView, sumPowers, SetK.toValSet] using htot
    · simpa [toView, MAX_TOTAL_VOTING_POWER, SetK.toValSet] using hmax
  have hex := Lumina.Props.C03.light_exact (sigOracle P eh) eh.valset.toValSet eh.header.height
    eh.commit.height (eh.commit.sigs.map EntryF.toCSig) hvs
  unfold Lumina.Spec.C03.specLightExact at hex
  rw [← c03Input_eq P eh, hwl] at hex
  simp only [Bool.not_true, Bool.false_or, beq_iff_eq] at hex
  have htot' : Lumina.Spec.C03.total (c03Input (toView P eh)) = (toView P eh).powers.sum := rfl
  rw [htot'] at hex
  have hlight : lightOf P sourceConsts eh = .ok := by
    rw [lightOf_eq]
    have : decide (3 * Lumina.Spec.C03.signingPower (c03Input (toView P eh)) > 2 * (toView P eh).powers.sum) = true := by
      simpa using hpow
    rw [this] at hex
    simpa using hex
  have hacc : validate P sourceConsts eh = .ok :=
    (validate_ok_iff P sourceConsts eh).mpr
      ⟨hwf'.1, hwf'.2.1, hwf'.2.2, hb'.1, hb'.2.1, hb'.2.2.1, hb'.2.2.2, hlight, hw'⟩
  simp [hacc]

/-- **Validation binds**: an accepted header is well formed, names exactly this validator set and
    this DAH, its commit is for exactly this header, and validators with valid signatures for its
    block carry more than two thirds of the set's power. -/
theorem accepted_binds {S : Type} (P : Prims S) (eh : ExtHeader S)
    (hT : eh.valset.total = sumPowers eh.valset.toValSet.vals) :
    specAcceptedBinds (toView P eh) (sigOracle P eh)
      (decide (validate P sourceConsts eh = .ok)) = true := by
  unfold specAcceptedBinds
  by_cases hacc : validate P sourceConsts eh = .ok
  case neg => simp [hacc]
  obtain ⟨h1, h2, h3, h4, h5, h6, h7, h8, h9⟩ := (validate_ok_iff P sourceConsts eh).mp hacc
  have hb : bound (toView P eh) = true := (bound_iff P eh).mpr ⟨h4, h5, h6, h7⟩
  have hwf : wellFormed (toView P eh) = true := (wellFormed_iff P eh h6).mpr ⟨h1, h2, h3⟩
  have hw : widthOK (toView P eh) = true := (widthOK_iff P eh).mpr h9
  have hs := Lumina.Props.C03.light_sound (sigOracle P eh) eh.valset.toValSet eh.header.height
    eh.commit.height (eh.commit.sigs.map EntryF.toCSig) hT
  rw [← lightOf_eq, h8, ← c03Input_eq P eh] at hs
  simp only [decide_true] at hs
  simp [hacc, hb, hwf, hw, hs]

/-- the structural part of `accepted_binds` needs no hypothesis on the stored total -/
theorem accepted_binds_structure {S : Type} (P : Prims S) (eh : ExtHeader S) :
    specAcceptedStructure (toView P eh) (decide (validate P sourceConsts eh = .ok)) = true := by
  unfold specAcceptedStructure
  by_cases hacc : validate P sourceConsts eh = .ok
  case neg => simp [hacc]
  obtain ⟨h1, h2, h3, h4, h5, h6, h7, _, h9⟩ := (validate_ok_iff P sourceConsts eh).mp hacc
  have hb : bound (toView P eh) = true := (bound_iff P eh).mpr ⟨h4, h5, h6, h7⟩
  have hwf : wellFormed (toView P eh) = true := (wellFormed_iff P eh h6).mpr ⟨h1, h2, h3⟩
  have hw : widthOK (toView P eh) = true := (widthOK_iff P eh).mpr h9
  simp [hacc, hb, hwf, hw]

/-- the spec's "entry k is consumed by the 2/3 tally" is the model's `preOK` -/
theorem tallied_preOK {S : Type} (P : Prims S) (eh : ExtHeader S) (k : Nat)
    (ht : tallied (toView P eh) k = true) : preOK sourceConsts eh k := by
  unfold tallied at ht
  simp only [Bool.and_eq_true, decide_eq_true_eq] at ht
  obtain ⟨⟨_, hk⟩, hp⟩ := ht
  have hk' : k ≤ eh.valset.toValSet.vals.length := by
    have : k < eh.valset.toValSet.vals.length := by simpa [toView] using hk
    omega
  unfold preOK
  rw [commitPow_take_eq _ _ k hk']
  have hc : sourceConsts.lightNum = 2 ∧ sourceConsts.lightDen = 3 := by decide
  rw [hc.1, hc.2, Nat.le_div_iff_mul_le (by decide)]
  have : powerBefore (toView P eh) k = Lumina.Spec.C03.sumBelow k (fun i =>
      if (((eh.commit.sigs.map EntryF.toCSig).map toEntry).getD i Lumina.Spec.C03.noVote).isCommit = true
      then (eh.valset.toValSet.vals.map (·.power)).getD i 0 else 0) := rfl
  rw [this] at hp
  have hst : (toView P eh).storedTotal = eh.valset.total := rfl
  rw [hst] at hp
  omega

/-- **any commit signature of an entry the 2/3 tally consumes** (spec-level form of
    `mutation_rejects_signature_partial`, in the terms the driver classifies with) -/
theorem mutation_rejects_signature_tallied {S : Type} (P : Prims S) (eh : ExtHeader S)
    (k : Nat) (e e' : EntryF S) (hu : SigUnique P)
    (hacc : validate P sourceConsts eh = .ok) (he : eh.commit.sigs[k]? = some e)
    (ht : tallied (toView P eh) k = true)
    (hsame : e'.flag = e.flag ∧ e'.ts = e.ts) (hdiff : e'.sig ≠ e.sig) :
    validate P sourceConsts (setEntry eh k e') ≠ .ok := by
  have hflag : e.flag = .commit := by
    unfold tallied at ht
    simp only [Bool.and_eq_true, decide_eq_true_eq] at ht
    rcases List.getElem?_eq_some_iff.mp he with ⟨hk, hget⟩
    have h := ht.1.1
    simp [Lumina.Spec.C03.entry, c03Input, toView, List.getD_eq_getElem?_getD, hk, hget, toEntry, EntryF.toCSig] at h
    exact of_decide_eq_true h
  exact mutation_rejects_signature_partial P sourceConsts eh k e e' hu hacc he hflag
    (tallied_preOK P eh k ht) hsame hdiff

/-- **any commit timestamp of an entry the 2/3 tally consumes** -/
theorem mutation_rejects_timestamp_tallied {S : Type} (P : Prims S) (eh : ExtHeader S)
    (k : Nat) (e e' : EntryF S) (hb : SigBindsMsg P)
    (hacc : validate P sourceConsts eh = .ok) (he : eh.commit.sigs[k]? = some e)
    (ht : tallied (toView P eh) k = true)
    (hsame : e'.flag = e.flag ∧ e'.sig = e.sig) (hdiff : e'.ts ≠ e.ts) :
    validate P sourceConsts (setEntry eh k e') ≠ .ok := by
  have hflag : e.flag = .commit := by
    unfold tallied at ht
    simp only [Bool.and_eq_true, decide_eq_true_eq] at ht
    rcases List.getElem?_eq_some_iff.mp he with ⟨hk, hget⟩
    have h := ht.1.1
    simp [Lumina.Spec.C03.entry, c03Input, toView, List.getD_eq_getElem?_getD, hk, hget, toEntry, EntryF.toCSig] at h
    exact of_decide_eq_true h
  exact mutation_rejects_timestamp_partial P sourceConsts eh k e e' hb hacc he hflag
    (tallied_preOK P eh k ht) hsame hdiff

/-! ### the property as worded is false: full statements and counter-witnesses -/

/-- FULL STATEMENT (signature): changing the signature of ANY commit entry makes validation fail -/
def FullStatementSig : Prop :=
  ∀ (S : Type) (P : Prims S) (eh : ExtHeader S) (k : Nat) (e e' : EntryF S),
    SigUnique P → SigBindsMsg P → validate P sourceConsts eh = .ok →
    eh.commit.sigs[k]? = some e → e'.flag = e.flag ∧ e'.ts = e.ts ∧ e'.addr = e.addr → e'.sig ≠ e.sig →
    validate P sourceConsts (setEntry eh k e') ≠ .ok

/-- FULL STATEMENT (timestamp) -/
def FullStatementTs : Prop :=
  ∀ (S : Type) (P : Prims S) (eh : ExtHeader S) (k : Nat) (e e' : EntryF S),
    SigUnique P → SigBindsMsg P → validate P sourceConsts eh = .ok →
    eh.commit.sigs[k]? = some e → e'.flag = e.flag ∧ e'.sig = e.sig ∧ e'.addr = e.addr → e'.ts ≠ e.ts →
    validate P sourceConsts (setEntry eh k e') ≠ .ok

/-- FULL STATEMENT (validator address) -/
def FullStatementAddr : Prop :=
  ∀ (S : Type) (P : Prims S) (eh : ExtHeader S) (k : Nat) (e e' : EntryF S),
    SigUnique P → SigBindsMsg P → validate P sourceConsts eh = .ok →
    eh.commit.sigs[k]? = some e → e'.flag = e.flag ∧ e'.sig = e.sig ∧ e'.ts = e.ts → e'.addr ≠ e.addr →
    validate P sourceConsts (setEntry eh k e') ≠ .ok

/-- witness: a signature IS the pair (signed content, key); the hashes are constant (the witness
    needs no collision-freeness: the statements above do not assume any) -/
abbrev WS := VoteMsg × List UInt8

def wP : Prims WS :=
  { hHeader := fun _ => none, hValset := fun _ => none, hDah := fun _ => none,
    sigValid := fun pk m s => decide (s = (m, pk)) }

theorem wP_unique : SigUnique wP := by
  intro pk m s s' h1 h2
  simp only [wP, decide_eq_true_eq] at h1 h2
  rw [h1, h2]

theorem wP_binds : SigBindsMsg wP := by
  intro pk m m' s h1 h2
  simp only [wP, decide_eq_true_eq] at h1 h2
  rw [h1] at h2
  exact (Prod.mk.inj h2).1

def wBlockId : BlockId := { hash := none, pst := 1, psh := none }
def wMsg : VoteMsg := { chainId := [], height := 2, round := 0, blockId := wBlockId, ts := 0 }
def wEntry (i : UInt8) : EntryF WS := { flag := .commit, addr := [i], ts := 0, sig := some (wMsg, [i]) }

/-- four validators of equal power, all four signed: the tally passes 2/3 after the third -/
def wEH : ExtHeader WS :=
  { header :=
      { versionBlock := 11, versionApp := 1, chainId := [], height := 2, time := 0,
        lastBlockId := some BlockId.zero, lastCommitHash := none, dataHash := none,
        validatorsHash := none, nextValidatorsHash := none, consensusHash := none, appHash := [],
        lastResultsHash := none, evidenceHash := none, proposerAddress := [] }
    commit := { height := 2, round := 0, blockId := wBlockId, sigs := [wEntry 0, wEntry 1, wEntry 2, wEntry 3] }
    valset := { vals := [⟨[0], [0], 1⟩, ⟨[1], [1], 1⟩, ⟨[2], [2], 1⟩, ⟨[3], [3], 1⟩], total := 4, hasProposer := true }
    dah := { rows := [[], []], cols := [[], []] } }

theorem wEH_accepted : validate wP sourceConsts wEH = .ok := by decide

/-- **FINDING (early exit)**: the 4th signature replaced by garbage — still accepted -/
theorem mutation_sig_counterexample : ¬ FullStatementSig := by
  intro h
  exact h WS wP wEH 3 (wEntry 3) { wEntry 3 with sig := some (wMsg, [99]) } wP_unique wP_binds
    wEH_accepted (by decide) (by decide) (by decide) (by decide)

/-- the 4th timestamp changed — still accepted -/
theorem mutation_ts_counterexample : ¬ FullStatementTs := by
  intro h
  exact h WS wP wEH 3 (wEntry 3) { wEntry 3 with ts := 7 } wP_unique wP_binds
    wEH_accepted (by decide) (by decide) (by decide) (by decide)

/-- **FINDING (address)**: the validator address of the FIRST entry (consumed by the tally)
    changed — still accepted -/
theorem mutation_addr_counterexample : ¬ FullStatementAddr := by
  intro h
  exact h WS wP wEH 0 (wEntry 0) { wEntry 0 with addr := [42] } wP_unique wP_binds
    wEH_accepted (by decide) (by decide) (by decide) (by decide)

-- non-vacuity of the `_partial` theorems: entry 0 of the witness is consumed by the tally, entry 3 is not
example : tallied (toView wP wEH) 0 = true := by decide
example : tallied (toView wP wEH) 2 = true := by decide
example : tallied (toView wP wEH) 3 = false := by decide
example : honest (toView wP wEH) (sigOracle wP wEH) = true := by decide
example : validate wP sourceConsts (setEntry wEH 1 { wEntry 1 with sig := some (wMsg, [99]) }) =
    .err (.commit .sigInvalid) := by decide


/-! ### reduction forms: an accepted mutant EXHIBITS a collision (no hypothesis on the hashes)

  `Function.Injective` on a hash is an idealisation (it IS satisfiable for the digest type used
  here, see `injective_hypotheses_satisfiable` below, but not by SHA-256).  The following forms
  assume nothing about the hashes: if a mutant in one of the hash-protected families is accepted
  next to the original, the two explicit inputs below are a collision of the respective hash. -/

theorem accepted_mutant_header_collision {S : Type} (P : Prims S) (c : Consts) (eh eh' : ExtHeader S)
    (hacc : validate P c eh = .ok) (hacc' : validate P c eh' = .ok)
    (hsame : eh'.commit.blockId.hash = eh.commit.blockId.hash)
    (hdiff : eh'.header.canon ≠ eh.header.canon) :
    eh'.header.canon ≠ eh.header.canon ∧ P.hHeader eh'.header.canon = P.hHeader eh.header.canon := by
  have h := ((validate_ok_iff P c eh).mp hacc).2.2.2.2.2.2.1
  have h' := ((validate_ok_iff P c eh').mp hacc').2.2.2.2.2.2.1
  exact ⟨hdiff, by rw [← h', ← h, hsame]⟩

theorem accepted_mutant_dah_collision {S : Type} (P : Prims S) (c : Consts) (eh eh' : ExtHeader S)
    (hacc : validate P c eh = .ok) (hacc' : validate P c eh' = .ok)
    (hsame : eh'.header.dataHash.getD none = eh.header.dataHash.getD none)
    (hdiff : eh'.dah ≠ eh.dah) :
    eh'.dah.rows ++ eh'.dah.cols ≠ eh.dah.rows ++ eh.dah.cols ∧
      P.hDah (eh'.dah.rows ++ eh'.dah.cols) = P.hDah (eh.dah.rows ++ eh.dah.cols) := by
  obtain ⟨_, _, _, _, h5, _, _, _, w, _, hw⟩ := (validate_ok_iff P c eh).mp hacc
  obtain ⟨_, _, _, _, h5', _, _, _, w', _, hw'⟩ := (validate_ok_iff P c eh').mp hacc'
  refine ⟨?_, by rw [h5', h5, hsame]⟩
  intro hcat
  have hl : eh.dah.cols.length = eh.dah.rows.length := by
    unfold dahValidateBasic at hw
    split at hw; · simp at hw
    rename_i h; simpa using h
  have hl' : eh'.dah.cols.length = eh'.dah.rows.length := by
    unfold dahValidateBasic at hw'
    split at hw'; · simp at hw'
    rename_i h; simpa using h
  have hlen : (eh'.dah.rows ++ eh'.dah.cols).length = (eh.dah.rows ++ eh.dah.cols).length := by rw [hcat]
  simp only [List.length_append] at hlen
  have hr : eh'.dah.rows.length = eh.dah.rows.length := by omega
  obtain ⟨hrows, hcols⟩ := List.append_inj hcat hr
  apply hdiff
  cases hd : eh.dah; cases hd' : eh'.dah
  simp_all

theorem accepted_mutant_validator_collision {S : Type} (P : Prims S) (c : Consts) (eh eh' : ExtHeader S)
    (hacc : validate P c eh = .ok) (hacc' : validate P c eh' = .ok)
    (hsame : eh'.header.validatorsHash = eh.header.validatorsHash)
    (hdiff : eh'.valset.hashed ≠ eh.valset.hashed) :
    eh'.valset.hashed ≠ eh.valset.hashed ∧ P.hValset eh'.valset.hashed = P.hValset eh.valset.hashed := by
  have h := ((validate_ok_iff P c eh).mp hacc).2.2.2.1
  have h' := ((validate_ok_iff P c eh').mp hacc').2.2.2.1
  exact ⟨hdiff, by rw [h', h, hsame]⟩

/-! ### the hash and signature hypotheses are jointly satisfiable, together with acceptance -/

open Lumina.Proofs.InjectiveWitness in
/-- primitives with INJECTIVE hashes (explicit self-delimiting serialisations, proved injective in
    `Proofs/InjectiveWitness.lean`) and a binding, unique signature scheme -/
def wPinj : Prims WS :=
  { hHeader := hHeaderInj, hValset := hValsetInj, hDah := hDahInj,
    sigValid := fun pk m s => decide (s = (m, pk)) }

theorem injective_hypotheses_satisfiable :
    Function.Injective wPinj.hHeader ∧ Function.Injective wPinj.hValset ∧
    Function.Injective wPinj.hDah ∧ SigUnique wPinj ∧ SigBindsMsg wPinj := by
  refine ⟨Lumina.Proofs.InjectiveWitness.hHeaderInj_inj, Lumina.Proofs.InjectiveWitness.hValsetInj_inj,
    Lumina.Proofs.InjectiveWitness.hDahInj_inj, ?_, ?_⟩
  · intro pk m s s' h1 h2
    simp only [wPinj, decide_eq_true_eq] at h1 h2
    rw [h1, h2]
  · intro pk m m' s h1 h2
    simp only [wPinj, decide_eq_true_eq] at h1 h2
    rw [h1] at h2
    exact (Prod.mk.inj h2).1

/-- the header of `wEH` with the hashes it carries COMPUTED by the injective hashes -/
def wHeaderInj : HeaderF :=
  { wEH.header with
    validatorsHash := wPinj.hValset wEH.valset.hashed
    dataHash := some (wPinj.hDah (wEH.dah.rows ++ wEH.dah.cols)) }
def wBlockIdInj : BlockId := { hash := wPinj.hHeader wHeaderInj.canon, pst := 1, psh := none }
def wMsgInj : VoteMsg := { chainId := [], height := 2, round := 0, blockId := wBlockIdInj, ts := 0 }
def wEntryInj (i : UInt8) : EntryF WS := { flag := .commit, addr := [i], ts := 0, sig := some (wMsgInj, [i]) }
def wEHinj : ExtHeader WS :=
  { wEH with
    header := wHeaderInj
    commit := { height := 2, round := 0, blockId := wBlockIdInj,
                sigs := [wEntryInj 0, wEntryInj 1, wEntryInj 2, wEntryInj 3] } }

/-- non-vacuity: with injective hashes and a binding signature scheme, an honest header IS accepted … -/
theorem wEHinj_accepted : validate wPinj sourceConsts wEHinj = .ok := by decide

-- … and the hash-protected mutants are rejected by the theorems (all hypotheses discharged)
example : validate wPinj sourceConsts { wEHinj with header := { wHeaderInj with time := 5 } } ≠ .ok :=
  mutation_rejects_header_field wPinj sourceConsts wEHinj _ injective_hypotheses_satisfiable.1
    wEHinj_accepted rfl (by decide)
example : validate wPinj sourceConsts { wEHinj with dah := { rows := [[], [1]], cols := [[], []] } } ≠ .ok :=
  mutation_rejects_dah wPinj sourceConsts wEHinj _ injective_hypotheses_satisfiable.2.2.1
    wEHinj_accepted rfl (by decide)
example : validate wPinj sourceConsts
    { wEHinj with valset := { wEHinj.valset with vals := [⟨[0], [0], 1⟩, ⟨[1], [1], 1⟩, ⟨[2], [2], 1⟩, ⟨[9], [3], 1⟩] } } ≠ .ok :=
  mutation_rejects_validator wPinj sourceConsts wEHinj _ injective_hypotheses_satisfiable.2.1
    wEHinj_accepted rfl (by decide)
example : validate wPinj sourceConsts { wEHinj with header := { wHeaderInj with time := 5 } } =
    .err .commitBlockIdHash := by decide

end Lumina.Props.C01

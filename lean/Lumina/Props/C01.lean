import Lumina.Props.C03
import Lumina.Model.HeaderVerifyBridge
import Lumina.Model.C01Consts

namespace Lumina.Props.C01
open Lumina.Model.Commit Lumina.Model.HeaderVerify Lumina.Gen.C01

theorem consts_eq :
    BLOCK_PROTOCOL = 11 ∧ MAX_CHAIN_ID_LEN = 50 ∧ GENESIS_HEIGHT = 1 ∧ MIN_EXTENDED_SQUARE_WIDTH = 2 ∧
    LIGHT_NUM = 2 ∧ LIGHT_DEN = 3 ∧ EXT_FACTOR = 2 ∧
    squareUpperOfSource = [(1, 128), (2, 128), (3, 128), (4, 128), (5, 128), (6, 512), (7, 512)] := by
  decide

end Lumina.Props.C01

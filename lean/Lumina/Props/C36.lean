/-
  C36 — Window-edge search finds the newest header outside the window.

  Property theorems about the model `Lumina/Model/Pruner.lean` (`find` = `find_height_after_window`,
  `findFast`, `findSlow`), for EVERY well-formed `BlockRanges` value (any number of ranges, any
  heights up to u64::MAX), every assignment of times that increases with height on the stored
  heights, every cutoff (ties included) and every admissible previous answer.  The decidable
  checkers are those of `Lumina/Spec/C36.lean`, evaluated on the set `heights stored`.

  `StoreOK store stored T` : the header store returns the header (time `T h`) of every height of
  `stored` (what `store.get_stored_header_ranges()` promises).
-/
import Lumina.Proofs.Pruner

namespace Lumina.Props.C36
open Lumina.Model.Ranges hiding Inv
open Lumina.Model.Pruner Lumina.Proofs.Pruner Lumina.Proofs.Ranges
open Lumina.Spec.C36

local notation "RInv" => Lumina.Model.Ranges.Inv

/-- MAIN THEOREM.  Under the property's preconditions the search never fails (no panic, no missing
    header, the binary-search loop terminates) and its answer passes the property's checker. -/
theorem find_meets_spec (store : Nat → Option Nat) (stored : Ranges) (T : Nat → Nat)
    (cutoff : Nat) (prev : Option Nat) (hi : RInv stored) (hs : StoreOK store stored T)
    (hmono : timesIncrease (heights stored) T = true)
    (hadm : admissible (heights stored) T cutoff prev = true) :
    ∃ answer, find store stored cutoff prev = .ok answer ∧
      answerOK (heights stored) T cutoff answer = true := by
  obtain ⟨o, h1, h2⟩ := find_correct partitionsOK cutoff prev hi hs
    ((timesIncrease_iff stored T).1 hmono) ((admissible_iff stored T cutoff prev).1 hadm)
  exact ⟨o, h1, (answerOK_iff stored T cutoff o).2 h2⟩

/-- the same as a statement about whatever the search returns: `specOK` holds of every result -/
theorem find_specOK (store : Nat → Option Nat) (stored : Ranges) (T : Nat → Nat)
    (cutoff : Nat) (prev : Option Nat) (hi : RInv stored) (hs : StoreOK store stored T)
    (answer : Option Nat) (hres : find store stored cutoff prev = .ok answer) :
    specOK (heights stored) T cutoff prev answer = true := by
  unfold specOK
  by_cases hpre : (timesIncrease (heights stored) T && admissible (heights stored) T cutoff prev) = true
  · rw [Bool.and_eq_true] at hpre
    obtain ⟨o, h1, h2⟩ := find_meets_spec store stored T cutoff prev hi hs hpre.1 hpre.2
    rw [hres] at h1
    cases h1
    simp [h2]
  · simp only [Bool.not_eq_true] at hpre
    simp [hpre]

/-- the answer, spelled out: a stored height, not newer than the cutoff, nothing stored above it
    is older than the cutoff -/
theorem find_some_is_edge (store : Nat → Option Nat) (stored : Ranges) (T : Nat → Nat)
    (cutoff : Nat) (prev : Option Nat) (hi : RInv stored) (hs : StoreOK store stored T)
    (hmono : Mono stored T) (hadm : Adm stored T cutoff prev) (h : Nat)
    (hres : find store stored cutoff prev = .ok (some h)) :
    mem stored h ∧ T h ≤ cutoff ∧ ∀ h', mem stored h' → h < h' → cutoff ≤ T h' := by
  obtain ⟨o, h1, h2⟩ := find_correct partitionsOK cutoff prev hi hs hmono hadm
  rw [hres] at h1
  cases h1
  exact ⟨h2.1, h2.2.1, fun h' hm hlt => Nat.le_of_not_lt (h2.2.2 h' hm hlt)⟩

/-- "It returns nothing only if no stored header is strictly older than the cutoff." -/
theorem find_none_only_if_nothing_older (store : Nat → Option Nat) (stored : Ranges) (T : Nat → Nat)
    (cutoff : Nat) (prev : Option Nat) (hi : RInv stored) (hs : StoreOK store stored T)
    (hmono : Mono stored T) (hadm : Adm stored T cutoff prev)
    (hres : find store stored cutoff prev = .ok none) :
    ∀ h, mem stored h → cutoff ≤ T h := by
  obtain ⟨o, h1, h2⟩ := find_correct partitionsOK cutoff prev hi hs hmono hadm
  rw [hres] at h1
  cases h1
  exact fun h hm => Nat.le_of_not_lt (h2 h hm)

/-- TERMINATION of the binary search (`while let Some(..) = ranges.partitions()`): on every
    well-formed `BlockRanges` whose headers are in the store the model's loop ends with an answer;
    in particular the outcome `diverge` (see `Model/Pruner.lean`) never occurs.  No assumption on
    the times. -/
theorem findSlow_terminates (store : Nat → Option Nat) (stored : Ranges) (T : Nat → Nat)
    (cutoff : Nat) (hi : RInv stored) (hs : StoreOK store stored T) :
    ∃ answer, findSlow store stored cutoff = .ok answer :=
  findSlow_total cutoff hi hs

theorem findSlow_never_diverges (store : Nat → Option Nat) (stored : Ranges) (T : Nat → Nat)
    (cutoff : Nat) (hi : RInv stored) (hs : StoreOK store stored T) :
    findSlow store stored cutoff ≠ .error .diverge := by
  obtain ⟨o, h⟩ := findSlow_total cutoff hi hs
  rw [h]; intro hc; cases hc

/-- the binary search returns exactly the greatest stored height STRICTLY older than the cutoff
    (so on a tie `time = cutoff` it answers below the tied header) -/
theorem findSlow_exact (store : Nat → Option Nat) (stored : Ranges) (T : Nat → Nat)
    (cutoff : Nat) (hi : RInv stored) (hs : StoreOK store stored T) (hmono : Mono stored T) :
    ∃ answer, findSlow store stored cutoff = .ok answer ∧
      match answer with
      | some h => mem stored h ∧ T h < cutoff ∧ ∀ h', mem stored h' → h < h' → cutoff ≤ T h'
      | none => ∀ h, mem stored h → cutoff ≤ T h := by
  obtain ⟨o, h1, h2⟩ := findSlow_correct partitionsOK cutoff hi hs hmono
  refine ⟨o, h1, ?_⟩
  cases o with
  | none => exact fun h hm => Nat.le_of_not_lt (h2 h hm)
  | some x => exact ⟨h2.1, h2.2.1, fun h' hm hlt => Nat.le_of_not_lt (h2.2.2 h' hm hlt)⟩

/-- whenever the fast path answers by itself (no binary search), the answer passes the checker -/
theorem findFast_answer_ok (store : Nat → Option Nat) (stored : Ranges) (T : Nat → Nat)
    (cutoff : Nat) (prev : Option Nat) (hi : RInv stored) (hs : StoreOK store stored T)
    (hmono : timesIncrease (heights stored) T = true)
    (hadm : admissible (heights stored) T cutoff prev = true) :
    ∃ o, findFast store stored cutoff prev = .ok o ∧
      ∀ answer, o = some answer → answerOK (heights stored) T cutoff answer = true := by
  obtain ⟨o, h1, h2⟩ := findFast_correct cutoff prev hi hs
    ((timesIncrease_iff stored T).1 hmono) ((admissible_iff stored T cutoff prev).1 hadm)
  exact ⟨o, h1, fun a ha => (answerOK_iff stored T cutoff a).2 (h2 a ha)⟩

/-- "an answer that was correct for an earlier cutoff" is admissible: if `p ≥ 1` passed the
    checker for some earlier cutoff (for whatever was stored then) and header times increase with
    height over `p` and what is stored now, then `p` is an admissible previous answer now -/
theorem admissible_of_earlier_answer (storedThen storedNow : List Nat) (T : Nat → Nat)
    (cutoffThen cutoffNow p : Nat) (hp : 1 ≤ p)
    (hwas : answerOK storedThen T cutoffThen (some p) = true) (hle : cutoffThen ≤ cutoffNow)
    (hmono : ∀ h ∈ storedNow, h ≤ p → T h ≤ T p) :
    admissible storedNow T cutoffNow (some p) = true := by
  simp only [answerOK, rightEdge, Bool.and_eq_true, decide_eq_true_eq] at hwas
  simp only [admissible, Bool.and_eq_true, decide_eq_true_eq, List.all_eq_true, Bool.or_eq_true,
    Bool.not_eq_true', decide_eq_false_iff_not]
  refine ⟨hp, fun h hm => ?_⟩
  by_cases hle' : h ≤ p
  · exact Or.inr (Nat.le_trans (hmono h hm hle') (Nat.le_trans hwas.1.2 hle))
  · exact Or.inl hle'

/-! ### ties: fast path and binary search differ exactly at `time = cutoff`, both are allowed -/

/-- heights 1..3 stored with times 10, 20, 30; cutoff 20 ties with height 2 -/
def tieStored : Ranges := [(1, 3)]
def tieTime (h : Nat) : Nat := 10 * h
def tieStore (h : Nat) : Option Nat := some (10 * h)

theorem tie_fast_answers_the_tied_header :
    findFast tieStore tieStored 20 (some 1) = .ok (some (some 2)) ∧
      answerOK (heights tieStored) tieTime 20 (some 2) = true :=
  ⟨rfl, by decide⟩

theorem tie_slow_answers_below_the_tied_header :
    findSlow tieStore tieStored 20 = .ok (some 1) ∧
      answerOK (heights tieStored) tieTime 20 (some 1) = true := by
  have hi : RInv tieStored := inv_of_invB (by decide)
  have hs : StoreOK tieStore tieStored tieTime := fun h _ => rfl
  have hm : Mono tieStored tieTime := fun a b _ _ hab => by unfold tieTime; omega
  obtain ⟨o, h1, h2⟩ := findSlow_correct partitionsOK 20 hi hs hm
  have hmem : ∀ h, mem tieStored h ↔ 1 ≤ h ∧ h ≤ 3 := fun h => by
    simp [tieStored, mem]
  have ho : o = some 1 := by
    cases o with
    | none =>
      have := h2 1 ((hmem 1).2 ⟨by omega, by omega⟩)
      simp [tieTime] at this
    | some x =>
      obtain ⟨k1, k2, k3⟩ := h2
      have hx := (hmem x).1 k1
      have := k3 2
      simp only [tieTime] at k2
      congr 1
      omega
  subst ho
  exact ⟨h1, by decide⟩

/-! ### non-vacuity: concrete states meeting the hypotheses -/

example : RInv [(1, 3), (6, 9)] := inv_of_invB (by decide)
example : StoreOK (fun h => some (10 * h)) [(1, 3), (6, 9)] (fun h => 10 * h) := fun _ _ => rfl
example : timesIncrease (heights [(1, 3), (6, 9)]) (fun h => 10 * h) = true := by decide
-- previous answer 3 (time 30) with cutoff 65; also the no-longer-stored height 4
example : admissible (heights [(1, 3), (6, 9)]) (fun h => 10 * h) 65 (some 3) = true := by decide
example : admissible (heights [(1, 3), (6, 9)]) (fun h => 10 * h) 65 (some 4) = true := by decide
-- an inadmissible one (height 7 has time 70 > 65), so the hypothesis is not always true
example : admissible (heights [(1, 3), (6, 9)]) (fun h => 10 * h) 65 (some 7) = false := by decide
-- the checker rejects wrong answers: 3 is not the edge for cutoff 65 (6 is older than 65)
example : answerOK (heights [(1, 3), (6, 9)]) (fun h => 10 * h) 65 (some 3) = false := by decide
example : answerOK (heights [(1, 3), (6, 9)]) (fun h => 10 * h) 65 (some 6) = true := by decide
example : answerOK (heights [(1, 3), (6, 9)]) (fun h => 10 * h) 65 none = false := by decide

end Lumina.Props.C36

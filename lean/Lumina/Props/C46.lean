/-
  C46 — Public data types round-trip through their wire and JSON forms.  PARTIAL by design.

  PROVED here (for all valid values, no bound on list lengths): `fromRaw (toRaw x) = x` for the conversion
  layers lumina owns — namespaced hashes / DAH, shares (with the stated parity exception), namespaces (base64
  serde form, from C14), namespace proofs (both raw forms), merkle / row / share proofs, bad-encoding fraud
  proofs, block ranges' serde form (from C17), and the hex / base64 byte serializers of `proto/src/serializers`.

  Strengthening round (last two sections): `Blob` ↔ `RawBlob` (`Blob::from_raw`, commitment = C12's model or any
  function), `Blob` ↔ its JSON fields (`custom_serde::SerdeBlob` with `index_serde`, `signer_serde`, the
  `Namespace` / `Commitment` / `base64string` field forms, `validate_blob`), and the lumina-owned part of
  `ExtendedHeader` ↔ `RawExtendedHeader` (required messages in source order, `validate()` on decode, the inverse
  `From`, the `custom_serde` JSON layer) — with exact acceptance conditions (`…_accepts_iff`).

  NOT proved (correspondence only, see registry/C46.json): prost's and serde_json's own encoders/decoders, and
  tendermint's own conversions of Header / Commit / ValidatorSet inside ExtendedHeader (abstract parameters with
  an explicit round-trip hypothesis in `eh_roundtrip`).
-/
import Lumina.Proofs.RoundTrip
import Lumina.Proofs.RoundTripExt
import Lumina.Spec.C46
import Lumina.Props.C14
import Lumina.Gen.C46

namespace Lumina.Props.C46
open Lumina.Util Lumina.Model.Nmt Lumina.Model.Eds Lumina.Model.Decoders Lumina.Model.RoundTrip
open Lumina.Proofs.RoundTrip
open Lumina.Model
open Lumina.Spec.C46 (Obs specOK specShareOK)

/-- observation of a model round trip -/
def obsOpt {α} [DecidableEq α] (x : α) : Option α → Obs
  | some y => if y = x then .same else .differs
  | none => .decodeError

theorem same_of_eq {α} [DecidableEq α] {x : α} {o : Option α} (h : o = some x) : specOK (obsOpt x o) = true := by
  subst h; simp [obsOpt, specOK]

/-! ## constants -/

theorem ns_size_tied : Lumina.Gen.C46.NS_SIZE = NS_SIZE := rfl
theorem share_size_tied : Lumina.Gen.C46.SHARE_SIZE = SHARE_SIZE := rfl
theorem hash_size_tied : Lumina.Gen.C46.HASH_SIZE = HASH_LEN := rfl

/-! ## namespaced hashes, DAH -/

theorem nshash_roundtrip (h : NsHash) (w : h.WF) : specOK (obsOpt h (NsHash.ofBytes? h.toBytes)) = true :=
  same_of_eq (ofBytes_toBytes w)

example : (⟨List.replicate 29 0, List.replicate 29 1, List.replicate 32 7⟩ : NsHash).WF := by decide

/-- every DAH (any number of roots) -/
theorem dah_roundtrip (d : Dah) (hr : ∀ h ∈ d.rowRoots, h.WF) (hc : ∀ h ∈ d.colRoots, h.WF) :
    specOK (obsOpt d (dahFromRaw (dahToRaw d))) = true :=
  same_of_eq (Lumina.Proofs.RoundTrip.dah_roundtrip d hr hc)

/-! ## shares -/

theorem share_roundtrip (s : Share) (h : ValidShare s) : specOK (obsOpt s (shareFromRaw (shareToRaw s))) = true :=
  same_of_eq (Lumina.Proofs.RoundTrip.share_roundtrip s h)

set_option maxRecDepth 100000 in
example : ValidShare ⟨List.replicate 512 0, false⟩ := ⟨rfl, by decide, ⟨List.replicate 29 0, by rfl⟩⟩

set_option maxRecDepth 100000 in
/-- the stated exception is real: a parity share comes back as the non-parity share with the same bytes -/
theorem share_parity_exception :
    shareFromRaw (shareToRaw ⟨List.replicate 512 0, true⟩) = some ⟨List.replicate 512 0, false⟩ := by decide

set_option maxRecDepth 100000 in
/-- FINDING (open): the same loss in the PROTOBUF form `shwap.Share` / `TryFrom<RawShare>`, which the property's
    exception (JSON only) does not cover -/
theorem share_parity_protobuf_counterexample :
    specOK (obsOpt (⟨List.replicate 512 0, true⟩ : Share) (shareFromRaw (shareToRaw ⟨List.replicate 512 0, true⟩))) = false := by
  rw [share_parity_exception]; decide

/-- … and it is allowed by the property's checker -/
theorem share_parity_allowed (o : Obs) : specShareOK true .json o = true := rfl

/-- the exception does not extend to the protobuf form -/
theorem share_parity_protobuf_not_excepted : specShareOK true .protobuf .differs = false := rfl

/-! ## namespaces (C14) -/

/-- base64 serde form of every valid namespace -/
theorem namespace_serde_roundtrip (ns : Bytes) (h : Namespace.fromRaw ns = .ok ns) :
    Namespace.deserialize (Namespace.serialize ns) = some ns := by
  have := Lumina.Props.C14.serde_spec ns (by rw [h]; rfl)
  cases hd : Namespace.deserialize (Namespace.serialize ns) with
  | none => rw [hd] at this; simp [Lumina.Props.C14.obsOfOpt, Lumina.Spec.C14.specSerde] at this
  | some x =>
    rw [hd] at this
    simp only [Lumina.Props.C14.obsOfOpt, Lumina.Spec.C14.specSerde, beq_iff_eq] at this
    rw [this]

/-! ## namespace proofs -/

/-- `NamespaceProof` ↔ `proof.pb.Proof` (protobuf and JSON of samples, row namespace data, fraud proofs) -/
theorem nsproof_roundtrip (p : NsProof) (h : WFProof p) : proofFromRaw (proofToRaw p) = .ok p :=
  proof_roundtrip p h

example : WFProof ⟨3, 4, [⟨List.replicate 29 0, List.replicate 29 1, List.replicate 32 7⟩], true, false, none⟩ := by
  refine ⟨by decide, by decide, ?_, rfl⟩
  intro s hs; simp at hs; subst hs; decide

/-- FINDING (open): an absence proof without a leaf — what nmt-rs `get_namespace_proof` returns for a namespace
    outside the root's range — has no wire representation: it decodes as a presence proof -/
theorem nsproof_absence_without_leaf_counterexample :
    (match proofFromRaw (proofToRaw ⟨0, 0, [], true, true, none⟩) with
     | .ok q => decide (q = (⟨0, 0, [], true, true, none⟩ : NsProof))
     | _ => true) = false := by decide

/-- `NamespaceProof` ↔ `celestia.core.v1.proof.NMTProof` (inside share proofs): proofs that ignore the max namespace -/
theorem nmtproof_roundtrip (p : NsProof) (h : WFProof p) (hi : p.ignoreMaxNs = true) :
    specOK (obsOpt p (nmtProofFromRaw (nmtProofToRaw p))) = true :=
  same_of_eq (Lumina.Proofs.RoundTrip.nmtproof_roundtrip p h hi)

/-- FINDING (open): the `NMTProof` form has no `is_max_namespace_ignored` field, a proof built with
    `ignore_max_ns = false` comes back with `true` -/
theorem nmtproof_ignore_max_ns_counterexample :
    specOK (obsOpt (⟨0, 1, [], false, false, none⟩ : NsProof)
      (nmtProofFromRaw (nmtProofToRaw ⟨0, 1, [], false, false, none⟩))) = false := by decide

/-! ## merkle, row and share proofs -/

theorem merkle_roundtrip (p : MerkleProof) (h : ValidMerkle p) :
    specOK (obsOpt p (merkleFromRaw (merkleToRaw p))) = true :=
  same_of_eq (Lumina.Proofs.RoundTrip.merkle_roundtrip p h)

example : ValidMerkle ⟨2, 5, List.replicate 32 1, [List.replicate 32 2]⟩ := by
  refine ⟨by decide, by decide, by decide, by decide, ?_⟩
  intro a ha; simp at ha; subst ha; decide

theorem rowproof_roundtrip (p : RowProof) (h : ValidRowProof p) :
    specOK (obsOpt p (rowProofFromRaw (rowProofToRaw p))) = true :=
  same_of_eq (Lumina.Proofs.RoundTrip.rowproof_roundtrip p h)

theorem shareproof_roundtrip (p : ShareProof) (h : ValidShareProof p) :
    specOK (obsOpt p (shareProofFromRaw (shareProofToRaw p))) = true :=
  same_of_eq (Lumina.Proofs.RoundTrip.shareproof_roundtrip p h)

/-- a namespaced hash, a merkle proof and an NMT proof used by the non-vacuity examples below -/
def exHash : NsHash := ⟨List.replicate 29 0, List.replicate 29 1, List.replicate 32 7⟩
def exMerkle : MerkleProof := ⟨2, 5, List.replicate 32 1, [List.replicate 32 2]⟩
def exProof : NsProof := ⟨3, 5, [exHash], true, false, none⟩

theorem exHash_wf : exHash.WF := by decide
theorem exMerkle_valid : ValidMerkle exMerkle := by
  refine ⟨by decide, by decide, by decide, by decide, ?_⟩
  intro a ha; simp [exMerkle] at ha; subst ha; decide
theorem exProof_wf : WFProof exProof := by
  refine ⟨by decide, by decide, ?_, rfl⟩
  intro s hs; simp [exProof] at hs; subst hs; exact exHash_wf

/-- a row proof for rows 2..3 with a root and a merkle proof per row -/
example : ValidRowProof ⟨[exHash, exHash], [exMerkle, exMerkle], 2, 3⟩ := by
  refine ⟨?_, ?_, by decide, by decide⟩
  · intro h hh; simp at hh; subst hh; exact exHash_wf
  · intro m hm; simp at hm; subst hm; exact exMerkle_valid

set_option maxRecDepth 100000 in
/-- a share proof with two shares, one NMT proof and a one-row row proof -/
example : ValidShareProof ⟨[List.replicate 512 0, List.replicate 512 1], List.replicate 29 0, [exProof],
    ⟨[exHash], [exMerkle], 4, 4⟩⟩ := by
  refine ⟨?_, by rfl, ?_, ?_, ?_, by decide, by decide⟩
  · intro d hd; simp at hd; rcases hd with e | e <;> subst e <;> decide
  · intro q hq; simp at hq; subst hq; exact ⟨exProof_wf, rfl⟩
  · intro h hh; simp at hh; subst hh; exact exHash_wf
  · intro m hm; simp at hm; subst hm; exact exMerkle_valid

/-! ## bad encoding fraud proofs -/

theorem befp_roundtrip (p : BefpFull) (h : ValidBefp p) : befpFromRawFull (befpToRaw p) = some p :=
  Lumina.Proofs.RoundTrip.befp_roundtrip p h

set_option maxRecDepth 100000 in
/-- a fraud proof with a header hash, one present share (namespace, 512-byte share, presence proof) and one absent -/
example : ValidBefp ⟨some (List.replicate 32 1),
    ⟨7, [some ⟨List.replicate 29 0, List.replicate 512 3, ⟨1, 2, [exHash], true, false, none⟩, .row⟩, none], 1, .col⟩⟩ := by
  refine ⟨?_, by decide, by decide, ?_⟩
  · intro h hh; simp at hh; subst hh; decide
  · intro s hs
    simp at hs
    subst hs
    refine ⟨by rfl, by decide, ⟨by decide, by decide, ?_, rfl⟩, rfl⟩
    intro x hx; simp at hx; subst hx; exact exHash_wf

/-! ## fraud proofs in JSON (`fraud_proof::Proof` ⇄ `RawFraudProof`) -/

/-- the JSON form of a fraud proof — type tag `"badencoding"` + base64 of the protobuf payload — decodes back to the
    proof, for every valid proof.  `hpb`: prost decodes what it encoded for this message (third party,
    correspondence only). -/
theorem fraud_proof_json_roundtrip (pb : PbCodec) (p : BefpFull) (hpb : PbRoundTripOn pb (befpToRaw p))
    (h : ValidBefp p) : fraudFromJson pb (fraudToJson pb p) = some p :=
  fraud_json_roundtrip pb p hpb h

/-- the serde-free half: `Proof` → `RawFraudProof` → `Proof` -/
theorem fraud_proof_raw_roundtrip (pb : PbCodec) (p : BefpFull) (hpb : PbRoundTripOn pb (befpToRaw p))
    (h : ValidBefp p) : fraudFromRaw pb (fraudToRaw pb p) = some p :=
  fraud_raw_roundtrip pb p hpb h

/-- the tag written is the one and only tag read -/
theorem fraud_proof_type_tag (pb : PbCodec) (p : BefpFull) : (fraudToJson pb p).proofType = "badencoding" := rfl

theorem fraud_proof_unknown_type_rejected (pb : PbCodec) (r : RawFraudProof) (h : r.proofType ≠ "badencoding") :
    fraudFromRaw pb r = none :=
  fraud_unknown_type_rejected pb r h

/-- a codec that meets the hypothesis for a given message -/
example (r : RawBefp) : PbRoundTripOn ⟨fun _ => [1, 2, 3], fun _ => some r⟩ r := rfl

/-! ## block ranges (C17) -/

/-- the serde form of `BlockRanges` is the transparent `Vec` of its ranges; `Deserialize` is the validating
    `from_vec`: every value satisfying the representation invariant comes back -/
theorem block_ranges_serde_roundtrip (rs : Ranges.Ranges) (h : Ranges.Inv rs) : Ranges.fromVec rs = .ok rs :=
  Lumina.Proofs.Ranges.fromVec_of_inv h

example : Ranges.Inv [(1, 3), (6, 9)] := by
  refine ⟨by simp, ?_⟩
  intro r hr
  simp at hr
  rcases hr with e | e <;> subst e <;> decide

/-! ## byte serializers of proto/src/serializers/bytes.rs -/

theorem hexstring_roundtrip (bs : Bytes) : hexUpperDecode (hexUpperEncode bs) = some bs := hex_roundtrip bs

theorem base64string_roundtrip (bs : Bytes) : Namespace.b64Decode (Namespace.b64Encode bs) = some bs :=
  Lumina.Proofs.Namespace.b64_roundtrip bs

/-! ## blobs (strengthening round): `Blob` ↔ `RawBlob` (BlobProto), `Blob` ↔ JSON -/

/-- protobuf form, for ANY commitment function `commit` (`Commitment::from_blob`): a blob whose commitment is the
    one `commit` computes for app version `av` (i.e. `Blob::validate(av)` is `Ok`), without an index, comes back
    from `Blob::from_raw(RawBlob::from(b), av)` -/
theorem blob_pb_roundtrip {C E : Type} (commit : Bytes → Bytes → Nat → Option Bytes → Nat → Except E C) (av : Nat)
    (b : BlobV C) (h : ValidBlobPb commit av b) : blobFromRaw commit (blobToRaw b) av = .ok b :=
  Lumina.Proofs.RoundTrip.blob_pb_roundtrip commit av b h

/-- the same with C12's model of `Commitment::from_blob` (any hash functions): the commitment condition is
    `Blob::validate(av) = Ok(())` as modelled for C12 -/
theorem blob_pb_roundtrip_c12 {D : Type} [DecidableEq D] (H : Merkle.HashFns D) (h : Nmt.HashFn) (av : Nat) (b : BlobV D)
    (h1 : Namespace.fromRaw b.ns = .ok b.ns) (h2 : b.shareVersion ≤ 255)
    (h3 : ∀ s, b.signer = some s → s.length = ACC_ADDRESS_LEN) (h4 : b.index = none)
    (hval : Commitment.validate H h ⟨b.ns, b.data, b.shareVersion, b.signer⟩ b.commitment av = .ok) :
    blobFromRaw (Commitment.fromBlob H h) (blobToRaw b) av = .ok b :=
  Lumina.Proofs.RoundTrip.blob_pb_roundtrip _ av b ⟨h1, h2, h3, h4, (validate_ok_iff H h _ _ av).1 hval⟩

set_option maxRecDepth 100000 in
example : ValidBlobPb (fun _ d _ _ _ => (Except.ok d : Except Unit Bytes)) 3
    ⟨List.replicate 29 0, [1, 2, 3], 1, [1, 2, 3], none, some (List.replicate 20 9)⟩ := by
  refine ⟨by rfl, by decide, ?_, rfl, rfl⟩
  intro s hs; injection hs with hs; subst hs; rfl

/-- FINDING (open, `C46/blob-index-not-on-wire`): `BlobProto` has no `index` field.  EVERY otherwise valid blob
    that carries an index (a blob retrieved from chain) decodes from its own protobuf form to a DIFFERENT value:
    the same blob without the index. -/
theorem blob_index_not_on_wire_counterexample {C E : Type}
    (commit : Bytes → Bytes → Nat → Option Bytes → Nat → Except E C) (av : Nat) (b : BlobV C) (i : Nat)
    (hi : b.index = some i)
    (h1 : Namespace.fromRaw b.ns = .ok b.ns) (h2 : b.shareVersion ≤ 255)
    (h3 : ∀ s, b.signer = some s → s.length = ACC_ADDRESS_LEN)
    (h5 : commit b.ns b.data b.shareVersion b.signer av = .ok b.commitment) :
    blobFromRaw commit (blobToRaw b) av = .ok { b with index := none } ∧ ({ b with index := none } : BlobV C) ≠ b := by
  refine ⟨blob_pb_roundtrip_upto_index commit av b h1 h2 h3 h5, ?_⟩
  intro e
  have : ({ b with index := none } : BlobV C).index = b.index := by rw [e]
  rw [hi] at this
  cases this

set_option maxRecDepth 100000 in
/-- a concrete instance (hypotheses of the counterexample theorem are satisfiable) -/
example : (⟨List.replicate 29 0, [7], 0, [7], some 5, none⟩ : BlobV Bytes).index = some 5 ∧
    Namespace.fromRaw (List.replicate 29 0) = .ok (List.replicate 29 0) := ⟨rfl, by rfl⟩

/-- exactly which raw blobs `Blob::from_raw` accepts and what it makes of them; every other raw blob is rejected
    (namespace error, share version above 255, or an error of `Commitment::from_blob`, whose first step is
    `validate_blob(share_version, signer.is_some(), Some(app_version))`) -/
theorem blob_from_raw_accepts_iff {C E : Type}
    (commit : Bytes → Bytes → Nat → Option Bytes → Nat → Except E C) (r : RawBlob) (av : Nat) (b : BlobV C) :
    blobFromRaw commit r av = .ok b ↔
      ∃ ns c, Namespace.new (UInt8.ofNat r.namespaceVersion) r.namespaceId = .ok ns ∧
        r.shareVersion ≤ 255 ∧ commit ns r.data r.shareVersion (signerOfRaw r.signer) av = .ok c ∧
        b = { ns := ns, data := r.data, shareVersion := r.shareVersion, commitment := c, index := none,
              signer := signerOfRaw r.signer } :=
  blobFromRaw_ok_iff commit r av b

/-- two consequences of the code as it is (observations, not violations of the round trip): `raw.namespace_version
    as u8` wraps, so version 256 is read as version 0; a `signer` that is not 20 bytes long is silently dropped -/
theorem blob_from_raw_lenient {C E : Type} (commit : Bytes → Bytes → Nat → Option Bytes → Nat → Except E C)
    (r : RawBlob) (av : Nat) :
    blobFromRaw commit { r with namespaceVersion := r.namespaceVersion + 256 } av = blobFromRaw commit r av ∧
    (r.signer.length ≠ ACC_ADDRESS_LEN → signerOfRaw r.signer = none) := by
  constructor
  · have : UInt8.ofNat (r.namespaceVersion + 256) = UInt8.ofNat r.namespaceVersion := by
      apply UInt8.toNat_inj.1
      simp [UInt8.toNat_ofNat']
    simp only [blobFromRaw, this]
  · intro h; simp [signerOfRaw, h]

/-- `validate_blob(share_version, has_signer, None)` accepts exactly: version 0 without signer, version 1 with -/
theorem validate_blob_no_app_spec (sv : Nat) (hs : Bool) :
    validateBlobNoApp sv hs = .ok () ↔ (sv = 0 ∧ hs = false) ∨ (sv = 1 ∧ hs = true) := by
  unfold validateBlobNoApp
  cases hs <;> by_cases h0 : sv = 0 <;> by_cases h1 : sv = 1 <;> simp [h0, h1] <;> omega

/-- JSON form (`custom_serde::SerdeBlob` and the field (de)serializers lumina owns): every blob the JSON form can
    carry serializes, and deserializes to itself — index and commitment included -/
theorem blob_json_roundtrip (b : BlobV Bytes) (h : ValidBlobJson b) :
    ∃ j, blobToJson b = some j ∧ blobFromJson j = .ok b :=
  Lumina.Proofs.RoundTrip.blob_json_roundtrip b h

set_option maxRecDepth 100000 in
example : ValidBlobJson ⟨List.replicate 29 0, [1, 2, 3], 1, List.replicate 32 4, some 77, some (List.replicate 20 9)⟩ := by
  refine ⟨by rfl, by rfl, Or.inr ⟨rfl, _, rfl, rfl⟩, ?_⟩
  intro i hi; injection hi with hi; subst hi; decide

/-- exactly which JSON objects `Deserialize for Blob` accepts: every field deserializer succeeds (valid base64
    namespace, base64 data, 32-byte base64 commitment, signer absent / null / empty or 20 bytes), `share_version`
    is a `u8`, and `validate_blob` accepts the (share version, signer) combination.  The commitment is NOT
    recomputed (a foreign 32-byte commitment is accepted; `Blob::validate` is the caller's job). -/
theorem blob_json_accepts_iff (j : JsonBlob) (b : BlobV Bytes) :
    blobFromJson j = .ok b ↔
      ∃ ns data c signer, Namespace.deserialize j.ns = some ns ∧ Namespace.b64Decode j.data = some data ∧
        commitmentFromWire j.commitment = some c ∧ signerFromWire j.signer = some signer ∧
        j.shareVersion ≤ 255 ∧ validateBlobNoApp j.shareVersion signer.isSome = .ok () ∧
        b = { ns := ns, data := data, shareVersion := j.shareVersion, commitment := c,
              index := (match j.index with | none => none | some v => indexFromWire v), signer := signer } :=
  blobFromJson_ok_iff j b

/-! ## extended headers (strengthening round): the lumina-owned conversion layer -/

section ExtendedHeader
variable {H C V RH RC RV : Type}

/-- `ExtendedHeader::try_from(RawExtendedHeader::from(eh)) = Ok(eh)` for every header that passes `validate()`,
    GIVEN that tendermint's own conversions round-trip on its three components (explicit hypotheses: they are
    third-party code, observed by the correspondence) -/
theorem eh_roundtrip (T : TmConv H C V RH RC RV) (validate : Eh H C V → Bool) (eh : Eh H C V)
    (hh : T.hFrom (T.hTo eh.header) = some eh.header)
    (hc : T.cFrom (T.cTo eh.commit) = some eh.commit)
    (hv : T.vFrom (T.vTo eh.validatorSet) = some eh.validatorSet)
    (hr : ∀ x ∈ eh.dah.rowRoots, x.WF) (hcr : ∀ x ∈ eh.dah.colRoots, x.WF)
    (hval : validate eh = true) :
    ehFromRaw T validate (ehToRaw T eh) = .ok eh :=
  Lumina.Proofs.RoundTrip.eh_roundtrip T validate eh hh hc hv hr hcr hval

/-- a conversion record meeting the hypotheses (identity conversions on naturals) and a header for it -/
example : ehFromRaw (⟨id, some, id, some, id, some⟩ : TmConv Nat Nat Nat Nat Nat Nat) (fun eh => eh.header == 5)
    (ehToRaw ⟨id, some, id, some, id, some⟩ ⟨5, 6, 7, ⟨[], []⟩⟩) = .ok ⟨5, 6, 7, ⟨[], []⟩⟩ :=
  Lumina.Proofs.RoundTrip.eh_roundtrip _ _ _ rfl rfl rfl (by simp) (by simp) rfl

/-- exactly which raw headers are accepted: all four messages present, each converts, and the assembled header
    passes `validate()`; everything else is rejected -/
theorem eh_from_raw_accepts_iff (T : TmConv H C V RH RC RV) (validate : Eh H C V → Bool)
    (r : RawEh RH RC RV) (eh : Eh H C V) :
    ehFromRaw T validate r = .ok eh ↔
      ∃ rh rc rv rd, r.header = some rh ∧ r.commit = some rc ∧ r.validatorSet = some rv ∧ r.dah = some rd ∧
        T.hFrom rh = some eh.header ∧ T.cFrom rc = some eh.commit ∧ T.vFrom rv = some eh.validatorSet ∧
        dahFromRaw rd = some eh.dah ∧ validate eh = true :=
  ehFromRaw_ok_iff T validate r eh

/-- decoding validates: whatever `TryFrom<RawExtendedHeader>` returns passes `ExtendedHeader::validate`
    (the fact the store models of C19–C21 use as `decodeHeader`) -/
theorem eh_decoded_is_valid (T : TmConv H C V RH RC RV) (validate : Eh H C V → Bool)
    (r : RawEh RH RC RV) (eh : Eh H C V) (h : ehFromRaw T validate r = .ok eh) : validate eh = true := by
  obtain ⟨_, _, _, _, _, _, _, _, _, _, _, _, hv⟩ := (ehFromRaw_ok_iff T validate r eh).1 h
  exact hv

/-- the error for a missing message, in source order: the FIRST absent message decides, provided the messages
    before it convert -/
theorem eh_missing_message_rejected (T : TmConv H C V RH RC RV) (validate : Eh H C V → Bool) (r : RawEh RH RC RV) :
    (r.header = none → ehFromRaw T validate r = .error .missingHeader) ∧
    (∀ rh h, r.header = some rh → T.hFrom rh = some h → r.commit = none →
      ehFromRaw T validate r = .error .missingCommit) ∧
    (∀ rh h rc c, r.header = some rh → T.hFrom rh = some h → r.commit = some rc → T.cFrom rc = some c →
      r.validatorSet = none → ehFromRaw T validate r = .error .missingValidatorSet) ∧
    (∀ rh h rc c rv v, r.header = some rh → T.hFrom rh = some h → r.commit = some rc → T.cFrom rc = some c →
      r.validatorSet = some rv → T.vFrom rv = some v → r.dah = none →
      ehFromRaw T validate r = .error .missingDah) := by
  refine ⟨fun h => ?_, fun rh h e1 e2 e3 => ?_, fun rh h rc c e1 e2 e3 e4 e5 => ?_,
    fun rh h rc c rv v e1 e2 e3 e4 e5 e6 e7 => ?_⟩
  · simp [ehFromRaw, h]
  · simp [ehFromRaw, e1, e2, e3]
  · simp [ehFromRaw, e1, e2, e3, e4, e5]
  · simp [ehFromRaw, e1, e2, e3, e4, e5, e6, e7]

/-- a raw header whose four messages convert but whose assembly fails `validate()` is rejected -/
theorem eh_invalid_rejected (T : TmConv H C V RH RC RV) (validate : Eh H C V → Bool)
    (rh : RH) (rc : RC) (rv : RV) (rd : RawDah) (h : H) (c : C) (v : V) (d : Dah)
    (e1 : T.hFrom rh = some h) (e2 : T.cFrom rc = some c) (e3 : T.vFrom rv = some v) (e4 : dahFromRaw rd = some d)
    (hval : validate ⟨h, c, v, d⟩ = false) :
    ehFromRaw T validate ⟨some rh, some rc, some rv, some rd⟩ = .error .invalid := by
  simp [ehFromRaw, e1, e2, e3, e4, hval]

/-- the JSON layer lumina puts around the prost-generated structures (`custom_serde::SerdeExtendedHeader`,
    `SerdeCommit`) is a pair of mutually inverse field copies: it loses and adds nothing -/
theorem eh_serde_layer_roundtrip {B S : Type} (r : RawEh RH (RawCommit B S) RV) (s : SerdeEh RH B S RV) :
    rawEhOfSerde (serdeEhOfRaw r) = r ∧ serdeEhOfRaw (rawEhOfSerde s) = s :=
  serde_eh_layer r s

end ExtendedHeader

end Lumina.Props.C46

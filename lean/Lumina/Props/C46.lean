/-
  C46 — Public data types round-trip through their wire and JSON forms.  PARTIAL by design.

  PROVED here (for all valid values, no bound on list lengths): `fromRaw (toRaw x) = x` for the conversion
  layers lumina owns — namespaced hashes / DAH, shares (with the stated parity exception), namespaces (base64
  serde form, from C14), namespace proofs (both raw forms), merkle / row / share proofs, bad-encoding fraud
  proofs, block ranges' serde form (from C17), and the hex / base64 byte serializers of `proto/src/serializers`.

  NOT proved (correspondence only, see registry/C46.json): prost's and serde_json's own encoders/decoders, and
  the tendermint types inside ExtendedHeader; blobs (`Blob` ↔ `RawBlob` recomputes the commitment: C12).
-/
import Lumina.Proofs.RoundTrip
import Lumina.Spec.C46
import Lumina.Props.C14
import Lumina.Gen.C46

namespace Lumina.Props.C46
open Lumina.Util Lumina.Model.Nmt Lumina.Model.Eds Lumina.Model.Decoders Lumina.Model.RoundTrip
open Lumina.Proofs.RoundTrip
open Lumina.Model
open Lumina.Spec.C46 (Obs specOK specShareOK)

/-- observation of a model round trip -/
def obsOpt {α} [DecidableEq α] (x : α) : Option α → Obs
  | some y => if y = x then .same else .differs
  | none => .decodeError

theorem same_of_eq {α} [DecidableEq α] {x : α} {o : Option α} (h : o = some x) : specOK (obsOpt x o) = true := by
  subst h; simp [obsOpt, specOK]

/-! ## constants -/

theorem ns_size_tied : Lumina.Gen.C46.NS_SIZE = NS_SIZE := rfl
theorem share_size_tied : Lumina.Gen.C46.SHARE_SIZE = SHARE_SIZE := rfl
theorem hash_size_tied : Lumina.Gen.C46.HASH_SIZE = HASH_LEN := rfl

/-! ## namespaced hashes, DAH -/

theorem nshash_roundtrip (h : NsHash) (w : h.WF) : specOK (obsOpt h (NsHash.ofBytes? h.toBytes)) = true :=
  same_of_eq (ofBytes_toBytes w)

example : (⟨List.replicate 29 0, List.replicate 29 1, List.replicate 32 7⟩ : NsHash).WF := by decide

/-- every DAH (any number of roots) -/
theorem dah_roundtrip (d : Dah) (hr : ∀ h ∈ d.rowRoots, h.WF) (hc : ∀ h ∈ d.colRoots, h.WF) :
    specOK (obsOpt d (dahFromRaw (dahToRaw d))) = true :=
  same_of_eq (Lumina.Proofs.RoundTrip.dah_roundtrip d hr hc)

/-! ## shares -/

theorem share_roundtrip (s : Share) (h : ValidShare s) : specOK (obsOpt s (shareFromRaw (shareToRaw s))) = true :=
  same_of_eq (Lumina.Proofs.RoundTrip.share_roundtrip s h)

set_option maxRecDepth 100000 in
example : ValidShare ⟨List.replicate 512 0, false⟩ := ⟨rfl, by decide, ⟨List.replicate 29 0, by rfl⟩⟩

set_option maxRecDepth 100000 in
/-- the stated exception is real: a parity share comes back as the non-parity share with the same bytes -/
theorem share_parity_exception :
    shareFromRaw (shareToRaw ⟨List.replicate 512 0, true⟩) = some ⟨List.replicate 512 0, false⟩ := by decide

/-- … and it is allowed by the property's checker -/
theorem share_parity_allowed (o : Obs) : specShareOK true o = true := rfl

/-! ## namespaces (C14) -/

/-- base64 serde form of every valid namespace -/
theorem namespace_serde_roundtrip (ns : Bytes) (h : Namespace.fromRaw ns = .ok ns) :
    Namespace.deserialize (Namespace.serialize ns) = some ns := by
  have := Lumina.Props.C14.serde_spec ns (by rw [h]; rfl)
  cases hd : Namespace.deserialize (Namespace.serialize ns) with
  | none => rw [hd] at this; simp [Lumina.Props.C14.obsOfOpt, Lumina.Spec.C14.specSerde] at this
  | some x =>
    rw [hd] at this
    simp only [Lumina.Props.C14.obsOfOpt, Lumina.Spec.C14.specSerde, beq_iff_eq] at this
    rw [this]

/-! ## namespace proofs -/

/-- `NamespaceProof` ↔ `proof.pb.Proof` (protobuf and JSON of samples, row namespace data, fraud proofs) -/
theorem nsproof_roundtrip (p : NsProof) (h : WFProof p) : proofFromRaw (proofToRaw p) = .ok p :=
  proof_roundtrip p h

example : WFProof ⟨3, 4, [⟨List.replicate 29 0, List.replicate 29 1, List.replicate 32 7⟩], true, false, none⟩ := by
  refine ⟨by decide, by decide, ?_, rfl⟩
  intro s hs; simp at hs; subst hs; decide

/-- FINDING (open): an absence proof without a leaf — what nmt-rs `get_namespace_proof` returns for a namespace
    outside the root's range — has no wire representation: it decodes as a presence proof -/
theorem nsproof_absence_without_leaf_counterexample :
    (match proofFromRaw (proofToRaw ⟨0, 0, [], true, true, none⟩) with
     | .ok q => decide (q = (⟨0, 0, [], true, true, none⟩ : NsProof))
     | _ => true) = false := by decide

/-- `NamespaceProof` ↔ `celestia.core.v1.proof.NMTProof` (inside share proofs): proofs that ignore the max namespace -/
theorem nmtproof_roundtrip (p : NsProof) (h : WFProof p) (hi : p.ignoreMaxNs = true) :
    specOK (obsOpt p (nmtProofFromRaw (nmtProofToRaw p))) = true :=
  same_of_eq (Lumina.Proofs.RoundTrip.nmtproof_roundtrip p h hi)

/-- FINDING (open): the `NMTProof` form has no `is_max_namespace_ignored` field, a proof built with
    `ignore_max_ns = false` comes back with `true` -/
theorem nmtproof_ignore_max_ns_counterexample :
    specOK (obsOpt (⟨0, 1, [], false, false, none⟩ : NsProof)
      (nmtProofFromRaw (nmtProofToRaw ⟨0, 1, [], false, false, none⟩))) = false := by decide

/-! ## merkle, row and share proofs -/

theorem merkle_roundtrip (p : MerkleProof) (h : ValidMerkle p) :
    specOK (obsOpt p (merkleFromRaw (merkleToRaw p))) = true :=
  same_of_eq (Lumina.Proofs.RoundTrip.merkle_roundtrip p h)

example : ValidMerkle ⟨2, 5, List.replicate 32 1, [List.replicate 32 2]⟩ := by
  refine ⟨by decide, by decide, by decide, by decide, ?_⟩
  intro a ha; simp at ha; subst ha; decide

theorem rowproof_roundtrip (p : RowProof) (h : ValidRowProof p) :
    specOK (obsOpt p (rowProofFromRaw (rowProofToRaw p))) = true :=
  same_of_eq (Lumina.Proofs.RoundTrip.rowproof_roundtrip p h)

theorem shareproof_roundtrip (p : ShareProof) (h : ValidShareProof p) :
    specOK (obsOpt p (shareProofFromRaw (shareProofToRaw p))) = true :=
  same_of_eq (Lumina.Proofs.RoundTrip.shareproof_roundtrip p h)

example : ValidShareProof ⟨[], List.replicate 29 0, [], ⟨[], [], 0, 0⟩⟩ := by
  refine ⟨by simp, by rfl, by simp, by simp, by simp, by decide, by decide⟩

/-! ## bad encoding fraud proofs -/

theorem befp_roundtrip (p : BefpFull) (h : ValidBefp p) : befpFromRawFull (befpToRaw p) = some p :=
  Lumina.Proofs.RoundTrip.befp_roundtrip p h

example : ValidBefp ⟨some (List.replicate 32 1), ⟨7, [none, none], 1, .col⟩⟩ := by
  refine ⟨?_, by decide, by decide, ?_⟩
  · intro h hh; simp at hh; subst hh; decide
  · intro s hs; simp at hs

/-! ## block ranges (C17) -/

/-- the serde form of `BlockRanges` is the transparent `Vec` of its ranges; `Deserialize` is the validating
    `from_vec`: every value satisfying the representation invariant comes back -/
theorem block_ranges_serde_roundtrip (rs : Ranges.Ranges) (h : Ranges.Inv rs) : Ranges.fromVec rs = .ok rs :=
  Lumina.Proofs.Ranges.fromVec_of_inv h

example : Ranges.Inv [(1, 3), (6, 9)] := by
  refine ⟨by simp, ?_⟩
  intro r hr
  simp at hr
  rcases hr with e | e <;> subst e <;> decide

/-! ## byte serializers of proto/src/serializers/bytes.rs -/

theorem hexstring_roundtrip (bs : Bytes) : hexUpperDecode (hexUpperEncode bs) = some bs := hex_roundtrip bs

theorem base64string_roundtrip (bs : Bytes) : Namespace.b64Decode (Namespace.b64Encode bs) = some bs :=
  Lumina.Proofs.Namespace.b64_roundtrip bs

end Lumina.Props.C46

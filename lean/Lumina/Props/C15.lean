/-
  C15 — Shwap identifiers and CIDs are bijective over valid ids.   PROPERTY THEOREMS ONLY.

  `Spec/C15.lean` states the wire layout (`parse`) and the validity of ids independently of the
  model; the theorems say that the model of the five `decode` functions IS that layout function on
  every byte string, that `encode` inverts it on every valid id, and that the CID conversions accept
  exactly the right codec / multihash code / digest.  No idealisation: pure byte arithmetic.
-/
import Lumina.Proofs.C15

namespace Lumina.Props.C15
open Lumina.Util Lumina.Model.ShwapId Lumina.Spec.C15 Lumina.Gen.C15 Lumina.Proofs.C15

/-- the generated constants are the numbers the property states -/
theorem consts_eq :
    EDS_ID_SIZE = Kind.size .eds ∧ ROW_ID_SIZE = Kind.size .row ∧ SAMPLE_ID_SIZE = Kind.size .sample ∧
    ROW_NAMESPACE_DATA_ID_SIZE = Kind.size .rowNsData ∧ NAMESPACE_DATA_ID_SIZE = Kind.size .nsData ∧
    Kind.cidCodes .row = some (ROW_ID_CODEC, ROW_ID_MULTIHASH_CODE) ∧
    Kind.cidCodes .sample = some (SAMPLE_ID_CODEC, SAMPLE_ID_MULTIHASH_CODE) ∧
    Kind.cidCodes .rowNsData = some (ROW_NAMESPACE_DATA_CODEC, ROW_NAMESPACE_DATA_ID_MULTIHASH_CODE) := by
  decide

/-- **decoding rejects wrong lengths, zero heights and invalid namespaces, and otherwise returns the
    id the bytes denote; re-encoding gives the bytes back** — every kind, EVERY byte string -/
theorem decode_spec (k : Kind) (buf : Bytes) : specDecode k buf (obsDecode (decodeK k buf)) = true := by
  rw [decodeK_eq_parse]
  unfold specDecode
  cases parse k buf <;> simp

/-- **CID conversion rejects wrong codecs, multihash codes and digests** and otherwise returns the id
    of the digest — every CID-capable kind, EVERY (codec, code, digest) -/
theorem ofCid_spec (k : Kind) (c : Cid) : specOfCid k (cidObs c) (obsCid (ofCidK k c)) = true := by
  unfold specOfCid
  rw [ofCidK_eq]
  cases k with
  | eds => rfl
  | nsData => rfl
  | row =>
    simp only [Kind.cidCodes, cidObs]
    by_cases h1 : c.codec = 30720 <;> by_cases h2 : c.mhCode = 30721 <;> simp [h1, h2]
  | sample =>
    simp only [Kind.cidCodes, cidObs]
    by_cases h1 : c.codec = 30736 <;> by_cases h2 : c.mhCode = 30737 <;> simp [h1, h2]
  | rowNsData =>
    simp only [Kind.cidCodes, cidObs]
    by_cases h1 : c.codec = 30752 <;> by_cases h2 : c.mhCode = 30753 <;> simp [h1, h2]

/-- **every valid id encodes to bytes and to a CID that decode back to the same id**: for every id
    with typed fields (u64 height, u16 indices, validated namespace): construction fails exactly for
    height 0; otherwise the encoding has the stated size and layout, decodes back to the id, the CID
    is (v1, the kind's codec, the kind's multihash code, digest = the encoding), converts back to the
    id, and its byte form re-reads (varint framing) to the same id. -/
theorem new_spec (id : Id) (hw : WellTyped id) : specNew id (obsNew id) = true := by
  obtain ⟨k, h, r, c, ns⟩ := id
  obtain ⟨hh, hr, hc, hn⟩ := hw
  simp only at hh hr hc hn
  by_cases h0 : h = 0
  · subst h0
    cases k <;> simp [obsNew, newK, EdsId.new, RowId.new, SampleId.new, RowNamespaceDataId.new,
      NamespaceDataId.new, Except.map, specNew]
  · cases k with
    | eds =>
      simp only [Kind.hasRow, Kind.hasCol, Kind.hasNs, Bool.false_eq_true, ↓reduceIte] at hr hc hn
      subst hr hc hn
      have hp := parse_eds h hh h0
      simp only [obsNew, newK, EdsId.new, h0, ↓reduceIte, Except.map, EdsId.encode, back_of_parse _ _ _ hp,
        Option.map_none, Option.bind_none, specNew, Kind.cidCodes, hp, be_length, Kind.size]
      simp [h0]
    | nsData =>
      simp only [Kind.hasRow, Kind.hasCol, Kind.hasNs, Bool.false_eq_true, ↓reduceIte] at hr hc hn
      subst hr hc
      have hp := parse_nd h ns hh h0 hn
      have hl : (be 8 h ++ ns).length = 37 := by simp [be_length, validRaw_length ns hn]
      simp only [obsNew, newK, NamespaceDataId.new, EdsId.new, h0, ↓reduceIte, Except.map, NamespaceDataId.encode,
        EdsId.encode, back_of_parse _ _ _ hp, Option.map_none, Option.bind_none, specNew, Kind.cidCodes, hp, hl,
        Kind.size]
      simp [h0]
    | row =>
      simp only [Kind.hasRow, Kind.hasCol, Kind.hasNs, Bool.false_eq_true, ↓reduceIte] at hr hc hn
      subst hc hn
      have hp := parse_row h r hh h0 hr
      have hl : (be 8 h ++ be 2 r).length = 10 := by simp [be_length]
      simp only [obsNew, newK, RowId.new, EdsId.new, h0, ↓reduceIte, Except.map, RowId.encode, RowId.toCid,
        EdsId.encode, back_of_parse _ _ _ hp, Option.map_some, Option.bind_some, specNew, Kind.cidCodes, hp, hl,
        Kind.size, ROW_ID_CODEC, ROW_ID_MULTIHASH_CODE, cidObs,
        cidBack_of_parse .row 30720 30721 _ _ rfl hp, read_toBytes_row _ hl]
      simp [h0]
    | sample =>
      simp only [Kind.hasRow, Kind.hasCol, Kind.hasNs, Bool.false_eq_true, ↓reduceIte] at hr hc hn
      subst hn
      have hp := parse_sample h r c hh h0 hr hc
      have hl : (be 8 h ++ be 2 r ++ be 2 c).length = 12 := by simp [be_length]
      simp only [obsNew, newK, SampleId.new, RowId.new, EdsId.new, h0, ↓reduceIte, Except.map, SampleId.encode,
        RowId.encode, SampleId.toCid,
        EdsId.encode, back_of_parse _ _ _ hp, Option.map_some, Option.bind_some, specNew, Kind.cidCodes, hp, hl,
        Kind.size, SAMPLE_ID_CODEC, SAMPLE_ID_MULTIHASH_CODE, cidObs,
        cidBack_of_parse .sample 30736 30737 _ _ rfl hp, read_toBytes_sample _ hl]
      simp [h0]
    | rowNsData =>
      simp only [Kind.hasRow, Kind.hasCol, Kind.hasNs, Bool.false_eq_true, ↓reduceIte] at hr hc hn
      subst hc
      have hp := parse_rnd h r ns hh h0 hr hn
      have hl : (be 8 h ++ be 2 r ++ ns).length = 39 := by simp [be_length, validRaw_length ns hn]
      simp only [obsNew, newK, RowNamespaceDataId.new, RowId.new, EdsId.new, h0, ↓reduceIte, Except.map,
        RowNamespaceDataId.encode, RowId.encode, RowNamespaceDataId.toCid,
        EdsId.encode, back_of_parse _ _ _ hp, Option.map_some, Option.bind_some, specNew, Kind.cidCodes, hp, hl,
        Kind.size, ROW_NAMESPACE_DATA_CODEC, ROW_NAMESPACE_DATA_ID_MULTIHASH_CODE, cidObs,
        cidBack_of_parse .rowNsData 30752 30753 _ _ rfl hp, read_toBytes_rnd _ hl]
      simp [h0]

/-- `WellTyped` + height ≥ 1 is the spec's `valid` -/
theorem valid_iff (id : Id) : id.valid = true ↔ (1 ≤ id.height ∧ WellTyped id) := by
  obtain ⟨k, h, r, c, ns⟩ := id
  cases k <;> simp [Id.valid, WellTyped, Kind.hasRow, Kind.hasCol, Kind.hasNs] <;> grind

/-- non-vacuity: concrete valid ids of two kinds -/
example : WellTyped ⟨.sample, 64, 7, 5, []⟩ ∧ (⟨.sample, 64, 7, 5, []⟩ : Id).valid = true := by
  refine ⟨⟨by decide, by decide, by decide, by decide⟩, by decide⟩

example : (⟨.nsData, 1, 0, 0, List.replicate 28 0 ++ [7]⟩ : Id).valid = true := by decide

end Lumina.Props.C15

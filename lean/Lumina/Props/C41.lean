/-
  C41 — Closing the redb store waits for in-flight work without hanging.   PROPERTY THEOREMS ONLY.

  The model (`Lumina/Model/Counter.lean`) is the labelled transition system of
  `Counter::wait_guards` / `CounterGuard::drop` with an UNBOUNDED number of guards; an
  interleaving is any list of labels, `Reachable` is reachability by any interleaving.
  tokio's `Notify` is the hypothesis built into the `wake` step ("a `Notified` completes exactly
  when `notify_waiters` has been called since it was created").

  * safety            `wait_safe`, `wait_safe_holders`, and for ANY Notify semantics `wait_safe_any_notify`
  * no lost wake-up   `no_lost_wakeup_partial`, `deadlock_free_partial`
  * termination       `variant_strictly_decreases`, `schedules_are_bounded`, `wait_terminates_partial`,
                      `returns_once_finished_partial`
  * model ⊨ spec      `seq_history_spec_partial` (every sequential history, every poll, judged by `Spec.C41.specPoll`)
  * Notify hypothesis `notify_hypothesis_suffices` (explicit-hypothesis form: under
                      `∀ ep e, ready ep e = tokioReady ep e` the parametrised system `stepN ready` IS `step`, so
                      every `_partial` theorem holds of it), `lossy_notify_counterexample` (it is needed)
  * negative controls `notify_before_release_counterexample` (the swapped `drop` deadlocks),
                      `arm_after_check_counterexample` (`notified()` created after the count check deadlocks)

  `_partial` = proved for the model whose `wake` step is tokio's documented `Notify` semantics (not
  verified; FULL statement = the same for the real tokio `Notify`, `Arc` and scheduler).
-/
import Lumina.Proofs.Counter
import Lumina.Gen.C41

namespace Lumina.Props.C41
open Lumina.Model.Counter Lumina.Proofs.Counter
open Lumina.Spec.C41 (Hist specPoll)

/-- tie to the source text: the loop condition of `wait_guards` is `strong_count > 1`, which the
    model's `check` step transcribes as `holders s = 0` (`holders = strong_count - 1`) -/
theorem loop_condition_const : Lumina.Gen.C41.WAIT_WHILE_STRONG_COUNT_ABOVE = 1 := by decide

/-- SAFETY.  In every reachable state (any number of guards, any interleaving): if `wait_guards`
    has returned then every guard has released its count, i.e. every blocking task that held a
    guard has finished its database work (the guard is dropped after the transaction block). -/
theorem wait_safe {s : State} (h : Reachable s) (hd : s.waiter = .done) :
    ∀ g ∈ s.guards, g = .dec ∨ g = .notified := by
  intro g hg
  have inv := inv_reachable h
  have h1 := inv.doneSafe hd g hg
  have h2 := inv.noEarly g hg
  cases g <;> simp_all

/-- the same, as the quantity the code reads: `Arc::strong_count(&counter) - 1 = 0` -/
theorem wait_safe_holders {s : State} (h : Reachable s) (hd : s.waiter = .done) : holders s = 0 := by
  have hs := wait_safe h hd
  unfold holders
  have h1 : s.guards.count .alive = 0 := List.count_eq_zero.mpr (fun hm => by
    rcases hs _ hm with h | h <;> cases h)
  have h2 : s.guards.count .early = 0 := List.count_eq_zero.mpr (fun hm => by
    rcases hs _ hm with h | h <;> cases h)
  omega

/-- NO LOST WAKE-UP.  A waiter blocked on the `Notified` it created at epoch `e`, in a state where
    every guard has finished its drop, is enabled: the notification it waits for has happened. -/
theorem no_lost_wakeup_partial {s : State} (h : Reachable s) (e : Nat) (hw : s.waiter = .awaiting e)
    (hall : ∀ g ∈ s.guards, g = .notified) :
    step s .wake = some { s with waiter := .rearming } := by
  have inv := inv_reachable h
  have hne : s.epoch ≠ e := by
    rcases inv.noLost e hw with ⟨g, hg, hga⟩ | hlt
    · have := hall g hg
      subst this
      rcases hga with h | h <;> cases h
    · omega
  simp [step, hw, hne]

/-- DEADLOCK FREEDOM.  While a wait is in progress, some step of the protocol itself (a guard's
    `take`/`notify_waiters`, or the waiter's next statement) is enabled. -/
theorem deadlock_free_partial {s : State} (h : Reachable s) (hi : s.waiter ≠ .idle) (hd : s.waiter ≠ .done) :
    ∃ l, l.isExternal = false ∧ (step s l).isSome = true :=
  progress h hi hd

/-- VARIANT.  Every step other than creating a guard / dropping the future strictly decreases
    `variant` (no reachability hypothesis needed). -/
theorem variant_strictly_decreases {s s' : State} {l : Label} (hs : step s l = some s')
    (hl : l.isExternal = false) : variant s' < variant s :=
  variant_decreases hs hl

/-- every schedule of protocol steps from `s` has at most `variant s` steps -/
theorem schedules_are_bounded {s s' : State} {ls : List Label} (hr : run s ls = some s')
    (hl : ∀ l ∈ ls, l.isExternal = false) : ls.length ≤ variant s := by
  have := run_variant hr hl
  omega

/-- TERMINATION.  From any reachable state in which a wait is in progress, every MAXIMAL schedule
    (one that stops only when no protocol step is enabled — weak fairness) ends with the wait
    returned; together with `schedules_are_bounded` every fair schedule returns within
    `variant s` steps. -/
theorem wait_terminates_partial {s s' : State} {ls : List Label} (h : Reachable s) (hi : s.waiter ≠ .idle)
    (hr : run s ls = some s') (hl : ∀ l ∈ ls, l.isExternal = false)
    (hmax : ∀ l, l.isExternal = false → step s' l = none) : s'.waiter = .done := by
  have hr' := reachable_run h hr
  have hi' := run_not_idle hr hl hi
  apply Classical.byContradiction
  intro hnd
  obtain ⟨l, hl1, hl2⟩ := progress hr' hi' hnd
  rw [hmax l hl1] at hl2
  cases hl2

/-- "…and it does return once they have finished": when every guard's drop has completed, ONE
    poll of the wait future completes it, whatever the waiter's current program point. -/
theorem returns_once_finished_partial {s : State} (h : Reachable s) (hall : ∀ g ∈ s.guards, g = .notified)
    (hi : s.waiter ≠ .idle) : (poll s).waiter = .done :=
  poll_done_of_all_notified h hall hi

/-- MODEL ⊨ SPEC on sequential histories of any length: for every list of harness operations
    (guards handed out, whole and half drops, waits, polls, cancellations, misuse) every poll result
    of the model is accepted by the independent checker `specPoll` evaluated on the history of
    operations. -/
theorem seq_history_spec_partial (ops : List SeqOp) : seqSpecAll init Hist.empty ops = true := by
  suffices H : ∀ (s : State) (h : Hist), Reachable s → Agree s h → seqSpecAll s h ops = true from
    H _ _ Reachable.init agree_init
  induction ops with
  | nil => intros; rfl
  | cons op ops ih =>
    intro s h hr ha
    simp only [seqSpecAll, Bool.and_eq_true]
    constructor
    · cases op
      case poll =>
        have := poll_spec hr ha
        generalize hout : (seqStep s .poll).2 = out at this
        cases out <;> simp_all
      all_goals
        generalize hout : (seqStep s _).2 = out
        simp only [seqStep] at hout
        (repeat' (split at hout)) <;> subst hout <;> rfl
    · exact ih _ _ (seqStep_reachable op hr) (agree_step op ha)

/-- SAFETY does not depend on `Notify` at all: for ANY semantics `ready` of the `Notified` future
    (even one that completes spuriously or never), `wait_guards` returns only after every guard
    has released its count. -/
theorem wait_safe_any_notify {ready : Nat → Nat → Bool} {s : State} (h : ReachableN ready s)
    (hd : s.waiter = .done) : ∀ g ∈ s.guards, g = .dec ∨ g = .notified := by
  intro g hg
  have inv := safe_reachableN h
  have h1 := inv.doneSafe hd g hg
  have h2 := inv.noEarly g hg
  cases g <;> simp_all

/-- THE NOTIFY HYPOTHESIS, explicit: if the `Notified` future completes exactly when
    `notify_waiters` has been called since its creation, the parametrised system coincides with
    the model (`stepN ready = step`, same reachable states), so every theorem above named
    `_partial` holds of it. -/
theorem notify_hypothesis_suffices {ready : Nat → Nat → Bool}
    (hN : ∀ ep e, ready ep e = tokioReady ep e) :
    (∀ s l, stepN ready s l = step s l) ∧ (∀ s, ReachableN ready s → Reachable s) :=
  ⟨stepN_congr hN, fun _ h => reachableN_reachable hN h⟩

/-- … and the hypothesis is needed: with a `Notify` that loses one notification, the UNCHANGED
    code deadlocks with its only guard finished. -/
theorem lossy_notify_counterexample :
    ∃ (ls : List Label) (s : State), runN lossyReady init ls = some s ∧
      s.waiter = .awaiting 0 ∧ (∀ g ∈ s.guards, g = .notified) ∧
      (∀ l, l.isExternal = false → stepN lossyReady s l = none) := by
  refine ⟨[.newGuard, .call, .arm, .check, .decr 0, .notify 0],
    { guards := [.notified], epoch := 1, waiter := .awaiting 0 }, by decide, rfl, by simp, ?_⟩
  intro l hl
  cases l <;> simp [Label.isExternal] at hl <;> simp [stepN, step, lossyReady]
  case decr i => cases i <;> simp
  case notify i => cases i <;> simp

/-- NEGATIVE CONTROL for the order inside `wait_guards` ("arm before check").  In the variant
    that creates the `Notified` only AFTER seeing `strong_count > 1`, the interleaving
      guard; wait called; W: check (count 2 ⇒ go on); G: release, notify; W: create Notified, await
    reaches a state where every guard has finished, the waiter is blocked on a `Notified` created
    after the last notification, and NO protocol step is enabled: the lost wake-up. -/
theorem arm_after_check_counterexample :
    ∃ (ls : List Label) (s : State), runLate init ls = some s ∧
      s.waiter = .awaiting 1 ∧ (∀ g ∈ s.guards, g = .notified) ∧
      (∀ l, l.isExternal = false → stepLate s l = none) := by
  refine ⟨[.newGuard, .call, .check, .decr 0, .notify 0, .rearm],
    { guards := [.notified], epoch := 1, waiter := .awaiting 1 }, by decide, rfl, by simp, ?_⟩
  intro l hl
  cases l <;> simp [Label.isExternal] at hl <;> simp [stepLate, step]
  case decr i => cases i <;> simp
  case notify i => cases i <;> simp

/-- NEGATIVE CONTROL (non-vacuity).  In the variant whose `drop` calls `notify_waiters()` BEFORE
    releasing the count, the interleaving
      guard; wait called; G: notify; W: arm, check (count still 2 ⇒ block); G: release
    reaches a state where every guard has finished, the waiter is blocked, and NO protocol step is
    enabled: `wait_guards` hangs forever.  So `no_lost_wakeup`/`deadlock_free` are not vacuous:
    they fail for this model. -/
theorem notify_before_release_counterexample :
    ∃ (ls : List Label) (s : State), runBad init ls = some s ∧
      s.waiter = .awaiting 1 ∧ (∀ g ∈ s.guards, g = .notified) ∧
      (∀ l, l.isExternal = false → stepBad s l = none) := by
  refine ⟨[.newGuard, .call, .notify 0, .arm, .check, .decr 0],
    { guards := [.notified], epoch := 1, waiter := .awaiting 1 }, by decide, rfl, by simp, ?_⟩
  intro l hl
  cases l <;> simp [Label.isExternal] at hl <;> simp [stepBad, step]
  case decr i => cases i <;> simp
  case notify i => cases i <;> simp

/-- the same wrong variant, judged by the spec: the sequential checker rejects the hang -/
theorem notify_before_release_spec_counterexample :
    specPoll { created := 1, released := [0], dropped := [0] } false = false := by decide

/-- non-vacuity of the hypotheses: a concrete reachable state with a blocked waiter and two guards,
    one released and one finished -/
example : Reachable { guards := [.dec, .notified], epoch := 1, waiter := .awaiting 0 } := by
  have h : run init [.newGuard, .newGuard, .call, .arm, .check, .decr 1, .notify 1, .decr 0] =
      some { guards := [.dec, .notified], epoch := 1, waiter := .awaiting 0 } := by decide
  exact reachable_run Reachable.init h

example : Reachable { guards := [.notified], epoch := 1, waiter := .done } := by
  have h : run init [.newGuard, .call, .arm, .check, .decr 0, .notify 0, .wake, .rearm, .check] =
      some { guards := [.notified], epoch := 1, waiter := .done } := by decide
  exact reachable_run Reachable.init h

end Lumina.Props.C41

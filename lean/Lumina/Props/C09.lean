import Lumina.Gen.C09
import Lumina.Model.ShrexEds
import Lumina.Spec.C09

namespace Lumina.Props.C09
open Lumina.Model.EdsCode

theorem const_share_size : Lumina.Gen.C09.SHARE_SIZE = 512 ∧ Lumina.Model.Eds.SHARE_SIZE = 512 := by decide

end Lumina.Props.C09

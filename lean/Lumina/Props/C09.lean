/-
  C09 — An EDS fetched over shrex matches the header's DAH.   PROPERTY THEOREMS ONLY.

  Model: `Lumina/Model/ShrexEds.lean` (`decodeAndVerify`, `encode` = the shrex `ResponseCodec` of
  `ExtendedDataSquare`), over `Lumina/Model/EdsCode.lean` (`ExtendedDataSquare::new` / `from_ods`) and group D's
  `Eds`/`Nmt` models.  Spec: `Lumina/Spec/C09.lean`, which does not mention the decoder model.

  Parameters: the hash `H` (no hypothesis for `decode_total`, `decode_sound`, `decode_complete`; collision-freeness
  `HashOK H` for `accepted_unique`) and the Reed–Solomon encoder `enc`, about which only its SHAPE is assumed
  (`EncShape`: `k` data shards give `k` parity shards).

  What "the extension of the payload" means: `decode_sound` says the returned square is `extendRaw enc k ods`, the three
  encoder passes of `from_ods` applied to the payload — by itself a statement about WHICH function of the payload is
  returned, not that this function is an erasure code.  That the extension is a two-dimensional code (every row and
  column a codeword, any half reconstructs) is C08 and needs the encoder to be LINEAR (`EncLinear`);
  `decode_returns_2d_code` states the composition explicitly.
-/
import Lumina.Gen.C09
import Lumina.Proofs.ShrexEds
import Lumina.Props.C08

namespace Lumina.Props.C09
open Lumina.Util Lumina.Model.Nmt Lumina.Model.Eds Lumina.Model.EdsCode Lumina.Model.ShrexEds
open Lumina.Proofs.Nmt Lumina.Proofs.Eds Lumina.Proofs.EdsCode Lumina.Proofs.EdsExtend Lumina.Proofs.ShrexEds
open Lumina.Spec.C09 (Obs specDecode specHonest)

/-- the constants the property talks about, re-read from /repo on every run -/
theorem consts_eq :
    Lumina.Gen.C09.SHARE_SIZE = 512 ∧ Lumina.Gen.C09.SHARE_SIZE = Lumina.Model.Eds.SHARE_SIZE ∧
    Lumina.Gen.C09.NS_SIZE = 29 ∧ Lumina.Gen.C09.NS_SIZE = Lumina.Model.Nmt.NS_SIZE ∧
    Lumina.Gen.C09.MIN_SQUARE_SIZE * 2 = MIN_EXTENDED_SQUARE_WIDTH ∧
    Lumina.Gen.C09.SHARE_VERSION_ONE = SHARE_VERSION_ONE ∧
    Lumina.Gen.C09.SQUARE_SIZE_UPPER_BOUNDS = (List.range 7).map (fun i => squareSizeUpperBound (i + 1)) := by
  decide

/-- what the harness / the spec observes of a decode outcome -/
def obsOf : Except DecErr Eds → Obs
  | .ok e => .ok e.width (e.shares.map Share.data)
  | .error .panic => .panic
  | .error _ => .err

/-- the reference extension of a payload: its 512-byte chunks as a `k × k` square, extended by the codec -/
def extOf (enc : List Bytes → List Bytes) (raw : Bytes) : List Bytes :=
  extendRaw enc (isqrt (chunks 512 raw).length) (chunks 512 raw)

/-- **No panic, for every byte string, every DAH, every app version, every codec, every hash.**  The decoder
    never reaches the `expect("EDS validated on construction")` of `from_eds` nor the `hash_nodes` panic of
    nmt-rs: what `ExtendedDataSquare::new` validated (namespace order along every row and column) is exactly what
    the tree construction needs. -/
theorem decode_total (H : HashFn) (enc : List Bytes → List Bytes) (raw : Bytes) (dah : Dah) (ver : Nat) :
    decodeAndVerify H enc raw dah ver ≠ .error .panic := by
  unfold decodeAndVerify
  split
  · simp
  · split
    · simp
    · cases hf : fromOds enc ver (chunks SHARE_SIZE raw) with
      | error er => simp
      | ok eds =>
        obtain ⟨_, _, hn⟩ := fromOds_ok hf
        obtain ⟨d, hd⟩ := hn.dah_total H
        simp only [hd]
        split <;> simp

/-- **Soundness (the property's first sentence), for every input.**  Whatever `decode_and_verify` returns satisfies
    the spec: it does not panic, and if it accepts then the payload is non-empty whole shares forming exactly the
    first quadrant of the returned square, the returned square is the codec's extension of the payload, and its
    row and column roots are exactly the header's. -/
theorem decode_sound (H : HashFn) (enc : List Bytes → List Bytes) (hs : ∀ k, EncShape enc k) (raw : Bytes) (dah : Dah)
    (ver : Nat) :
    specDecode H raw dah.rowRoots dah.colRoots (some (extOf enc raw)) (obsOf (decodeAndVerify H enc raw dah ver)) = true := by
  cases h : decodeAndVerify H enc raw dah ver with
  | error er =>
    cases er with
    | panic => exact (decode_total H enc raw dah ver h).elim
    | _ => rfl
  | ok e =>
    have ok := decode_ok h
    obtain ⟨hg, hw⟩ := ok.shape hs
    have hdata := Lumina.Proofs.ShrexEds.NewOK.data ok.newOK
    have hq := quadrant0_extGrid enc ok.sq.symm
    have hcm := commits_of_dah ok.newOK H ok.dah
    have h512 : SHARE_SIZE = 512 := rfl
    simp only [h512] at *
    simp only [obsOf, specDecode, extOf, hdata, hw, hg, hq, Bool.and_eq_true, beq_iff_eq, List.all_eq_true,
      Bool.not_eq_true', and_true]
    rw [hw, hg] at hcm
    refine ⟨⟨⟨chunks_flatten (by omega) raw, ?_⟩, ?_⟩, hcm⟩
    · exact chunks_len (by omega) raw ok.whole
    · cases hr : raw with
      | nil => exact (ok.nonempty hr).elim
      | cons a t => rfl

/-- **What an accepted payload is, in C08's terms** (composition with C08 `extend_spec`; needs the encoder to be linear):
    the returned square keeps the payload's shares as its first quadrant and every one of its rows and columns is a
    codeword of the encoder. -/
theorem decode_returns_2d_code (H : HashFn) (enc : List Bytes → List Bytes) (raw : Bytes) (dah : Dah) (ver : Nat) (e : Eds)
    (hs : EncShape enc (isqrt (chunks 512 raw).length))
    (L : Lumina.Proofs.EdsLinear.EncLinear enc (isqrt (chunks 512 raw).length) 512)
    (h : decodeAndVerify H enc raw dah ver = .ok e) :
    Lumina.Spec.C08.specExtend enc (chunks 512 raw) (.ok e.width (e.shares.map Share.data)) = true := by
  unfold decodeAndVerify at h
  split at h
  · cases h
  · split at h
    · cases h
    · cases hf : fromOds enc ver (chunks SHARE_SIZE raw) with
      | error er => simp [hf] at h
      | ok eds =>
        simp only [hf] at h
        cases hd : Dah.ofEds H eds with
        | error er => simp [hd] at h
        | ok computed =>
          simp only [hd] at h
          split at h
          · cases h
          · injection h with h
            subst h
            exact Lumina.Props.C08.extend_spec enc ver (chunks 512 raw) eds hs L hf

/-- non-vacuity of the codec hypothesis: a (useless but shape-correct) encoder exists, so `decode_sound` is not
    vacuous; the real codec's outputs satisfy the shape on every correspondence line -/
example : ∀ k, EncShape (fun row => row) k := fun _ _ h => h

/-- **The accepted payload is THE square committed by the DAH.**  Whatever codecs, app versions and payloads two accepting
    runs of the decoder used: if they accepted against the same DAH, they accepted the same payload and returned the
    same square.  So "any other payload is rejected".  Hash hypothesis: 32-byte output and no collision among the byte
    strings hashed by `from_eds` for the two returned squares (an explicit finite list; reduction form below). -/
theorem accepted_unique {H : HashFn} {enc enc' : List Bytes → List Bytes} (hs : ∀ k, EncShape enc k)
    (hs' : ∀ k, EncShape enc' k) {raw raw' : Bytes} {dah : Dah} {ver ver' : Nat} {e e' : Eds}
    (h : decodeAndVerify H enc raw dah ver = .ok e) (h' : decodeAndVerify H enc' raw' dah ver' = .ok e')
    (hk : HashOKOn H (fun y => y ∈ Lumina.Proofs.Eds.edsInputs H e ++ Lumina.Proofs.Eds.edsInputs H e')) :
    raw = raw' ∧ e = e' := by
  have ok := decode_ok h
  have ok' := decode_ok h'
  obtain ⟨hX, he⟩ := dah_binds ok.newOK ok'.newOK ok.dah ok'.dah hk
  refine ⟨?_, he⟩
  obtain ⟨hg, hw⟩ := ok.shape hs
  obtain ⟨hg', hw'⟩ := ok'.shape hs'
  have hq := quadrant0_extGrid enc ok.sq.symm
  have hq' := quadrant0_extGrid enc' ok'.sq.symm
  rw [← hg, ← hw] at hq
  rw [← hg', ← hw', ← hX, ← he] at hq'
  have hc : chunks SHARE_SIZE raw = chunks SHARE_SIZE raw' := by rw [← hq, ← hq']
  have h512 : 0 < SHARE_SIZE := by decide
  rw [← chunks_flatten h512 raw, ← chunks_flatten h512 raw', hc]

/-- reduction form: two DIFFERENT payloads accepted against one DAH yield an explicit collision of the (32-byte-output)
    hash among the byte strings hashed for the two returned squares -/
theorem accepted_unique_or_collision {H : HashFn} (hl : HashLen H) {enc enc' : List Bytes → List Bytes} (hs : ∀ k, EncShape enc k)
    (hs' : ∀ k, EncShape enc' k) {raw raw' : Bytes} {dah : Dah} {ver ver' : Nat} {e e' : Eds}
    (h : decodeAndVerify H enc raw dah ver = .ok e) (h' : decodeAndVerify H enc' raw' dah ver' = .ok e')
    (hne : raw ≠ raw') :
    CollisionIn H (fun y => y ∈ Lumina.Proofs.Eds.edsInputs H e ++ Lumina.Proofs.Eds.edsInputs H e') := by
  rcases noCollOn_or_collision H (fun y => y ∈ Lumina.Proofs.Eds.edsInputs H e ++ Lumina.Proofs.Eds.edsInputs H e') with hn | hn
  · exact (hne (accepted_unique hs hs' h h' ⟨hn, hl⟩).1).elim
  · exact hn

/-- **Completeness**: the honest payload — the original data square of a square built by `from_ods`, row-major —
    checked against that square's own DAH is accepted and the very same square is returned. -/
theorem decode_complete (H : HashFn) (enc : List Bytes → List Bytes) {ver : Nat} {ods : List Bytes} {e : Eds} {dah : Dah}
    (hall : ∀ s ∈ ods, s.length = SHARE_SIZE) (hf : fromOds enc ver ods = .ok e) (hd : Dah.ofEds H e = .ok dah) :
    decodeAndVerify H enc ods.flatten dah ver = .ok e ∧
    specHonest (obsOf (decodeAndVerify H enc ods.flatten dah ver)) = true := by
  have h512 : 0 < SHARE_SIZE := by decide
  have hch : chunks SHARE_SIZE ods.flatten = ods := chunks_of_flatten h512 ods hall
  obtain ⟨hsq, _, hn⟩ := fromOds_ok hf
  -- the square is not empty
  have hne : ods ≠ [] := by
    intro h0
    subst h0
    obtain ⟨k, hk1, _, hk⟩ := hn.pow
    have hs := hn.sq
    have h0 : (extendRaw enc (isqrt ([] : List Bytes).length) []).length = 0 := by
      simp [extendRaw, isqrt, sqrtAux]
    rw [h0] at hs
    have : e.width = 0 := by
      rcases Nat.mul_eq_zero.mp hs with h | h <;> exact h
    have := Nat.two_pow_pos k
    omega
  have hflen : ods.flatten.length = SHARE_SIZE * ods.length := flatten_length_const hall
  have hnonempty : ods.flatten.isEmpty = false := by
    cases ods with
    | nil => exact (hne rfl).elim
    | cons a t =>
      have := hall a (by simp)
      cases a with
      | nil => simp [SHARE_SIZE] at this
      | cons x xs => rfl
  have hmod : ods.flatten.length % SHARE_SIZE = 0 := by rw [hflen]; exact Nat.mul_mod_right _ _
  have : decodeAndVerify H enc ods.flatten dah ver = .ok e := by
    unfold decodeAndVerify
    simp only [hnonempty, Bool.false_eq_true, ↓reduceIte, hmod, ne_eq, not_true_eq_false, hch, hf, hd]
  exact ⟨this, by rw [this]; rfl⟩

/-- non-vacuity of `decode_complete`/`accepted_unique`'s shape: the model accepts a concrete honest 1 × 1 square
    (evaluated with a toy hash and the identity "codec"; real squares with the real codec are accepted on every
    correspondence run) -/
example :
    let share : Bytes := List.replicate 29 0 ++ List.replicate 483 7
    (fromOds (fun row => row) 1 [share]).toOption.isSome = true ∧ (∀ s ∈ [share], s.length = SHARE_SIZE) := by
  decide +kernel

end Lumina.Props.C09

/-
  C45 — Verified balances are backed by a proof to the header's app hash.  PROPERTY THEOREMS ONLY.

  Model: `Lumina/Model/AbciProofs.lean`; spec: `Lumina/Spec/C45.lean`.  Everything is proved for
  an ARBITRARY ics23 membership function `vm` (no assumption on it), every chain length, every
  key list, every response.
-/
import Lumina.Proofs.AbciProofs
import Lumina.Gen.C45

namespace Lumina.Props.C45
open Lumina.Util Lumina.Model.AbciProofs Lumina.Proofs.AbciProofs
open Lumina.Spec.C45 (linked nextRoots candidates Obs specBalance specVerify backed opsOf decimal)

/-- **`ProofChain::verify_membership` accepts only linked chains** — every `vm`, every chain
    length, every key list: `Ok(())` implies operation `i` carries key `i`, every link is
    accepted by ics23 for (root of the next link, key, current leaf), each intermediate root is
    a value the next operation commits to, the last link proves to the trusted root, and keys and
    proofs are consumed together. -/
theorem verify_membership_sound (vm : VM) (chain : ProofChain) (root : Bytes) (keys : List Bytes)
    (leaf : Bytes) :
    specVerify vm chain root keys leaf
      (match verifyMembership vm chain root keys leaf with | .ok () => true | _ => false) = true := by
  unfold specVerify
  split
  · rename_i hacc
    have : verifyMembership vm chain root keys leaf = .ok () := by
      cases hv : verifyMembership vm chain root keys leaf <;> simp_all
    have := verifyLoop_sound vm chain root keys leaf 0 this
    simpa using this
  · rfl

/-- tampering: if ics23 rejects the link of ANY operation for every candidate root, the chain is rejected
    (contrapositive form of soundness, for one-operation chains as the simplest non-vacuity witness) -/
example : ∃ vm chain root keys leaf, verifyMembership vm chain root keys leaf = .ok () :=
  ⟨fun _ _ _ _ _ => true, [⟨[1], .iavl, .exist ⟨[1], [2], none, none⟩⟩], [3], [[1]], [2], by rfl⟩

/-- completeness on the shape nodes actually send (two plain existence proofs): if ics23 accepts
    both links, the chain is accepted — the model does not reject everything -/
theorem honest_chain_accepted (vm : VM) (k0 k1 leaf root : Bytes) (s0 s1 : SpecKind)
    (e0 e1 : ExistenceProof)
    (h0 : vm (.exist e0) s0 e1.value k0 leaf = true) (h1 : vm (.exist e1) s1 root k1 e1.value = true) :
    verifyMembership vm [⟨k0, s0, .exist e0⟩, ⟨k1, s1, .exist e1⟩] root [k0, k1] leaf = .ok () := by
  simp [verifyMembership, verifyLoop, getExistenceProof, h0, h1]

def obsOf : Outcome (Except BalErr Nat) → Obs
  | .ok (.ok n) => .ok n
  | _ => .err

/-- the regenerated constants are the ones the bank key is built from -/
theorem consts_eq : Lumina.Gen.C45.BALANCES_PREFIX = 2 ∧ Lumina.Gen.C45.SIGNER_SIZE = 20 ∧
    Lumina.Spec.C45.ascii Lumina.Gen.C45.BOND_DENOM = BOND_DENOM ∧
    ∀ addr : Bytes, (bankKey addr).head? = some (UInt8.ofNat Lumina.Gen.C45.BALANCES_PREFIX) := by
  refine ⟨by decide, by decide, by decide, ?_⟩
  intro addr; simp [bankKey, Lumina.Gen.C45.BALANCES_PREFIX]

/-- the full statement of the property over the model -/
def FullStatement : Prop :=
  ∀ (vm : VM) (addr appHash : Bytes) (resp : Option AbciResponse),
    specBalance vm addr appHash resp (obsOf (getVerifiedBalance vm addr appHash resp)) = true

/-- **proved part**: whenever the node's answer has a NON-EMPTY value, a balance is reported as
    verified only if the answer carries a proof chain of exactly the two expected operations that
    links (bank key of the address, returned value) through `"bank"` to the header's app hash,
    every link accepted by ics23, and the reported amount is the returned value.  Every `vm`,
    address, app hash, response.  (Missing for `FullStatement`: the empty-value branch, where the
    code returns a "verified" zero without looking at any proof — see `balance_counterexample`.) -/
theorem balance_backed_partial (vm : VM) (addr appHash : Bytes) (resp : Option AbciResponse)
    (hne : ∀ r, resp = some r → r.value ≠ []) :
    specBalance vm addr appHash resp (obsOf (getVerifiedBalance vm addr appHash resp)) = true := by
  unfold getVerifiedBalance
  cases resp with
  | none => simp [obsOf, specBalance]
  | some r =>
    have hv := hne r rfl
    simp only []
    split
    · simp [obsOf, specBalance]
    · rename_i hcode
      have hemp : r.value.isEmpty = false := by
        cases hr : r.value with
        | nil => exact absurd hr hv
        | cons _ _ => rfl
      simp only [hemp, Bool.false_eq_true, ↓reduceIte]
      cases hch : ProofChain.tryFrom (r.proofOps.getD []) with
      | error e => simp [obsOf, specBalance]
      | ok chain =>
        simp only []
        cases hvm : verifyMembership vm chain appHash [bankKey addr, BANK] r.value with
        | panic => simp [obsOf, specBalance]
        | err e => simp [obsOf, specBalance]
        | ok u =>
          cases u
          simp only []
          cases hp : parseU64 r.value with
          | none => simp [obsOf, specBalance]
          | some n =>
            simp only [obsOf, specBalance, backed]
            unfold ProofChain.tryFrom at hch
            split at hch
            · simp at hch
            · rename_i hnonempty
              have hops := tryFromOps_eq _ _ hch
              have hlinked := verifyLoop_sound vm chain appHash _ _ 0 hvm
              simp only [List.drop_zero] at hlinked
              have hchain : chain.isEmpty = false := by
                cases chain with
                | nil => simp [linked] at hlinked
                | cons _ _ => rfl
              simp only [ne_eq, Decidable.not_not] at hcode
              simp [hcode, hops, hchain, bankKey_eq, bank_eq, hlinked, parseU64_decimal _ _ hp]

example : ∃ (resp : Option AbciResponse), (∀ r, resp = some r → r.value ≠ []) ∧
    ∃ n, obsOf (getVerifiedBalance Ics23.verifyMembership [1] [9] resp) = .ok n :=
  ⟨some ⟨0, [53, 48], some [⟨.iavl, bankKey [1], some (.exist ⟨bankKey [1], [53, 48], some [7], none⟩)⟩,
      ⟨.simple, BANK, some (.exist ⟨BANK, [7], none, some [9]⟩)⟩]⟩,
    by intro r h; cases h; decide, 50, by decide⟩

/-- **the property is FALSE of the current code**: for an answer with an empty value and no proof
    at all, `get_verified_balance` reports a verified balance of 0 — for every `vm` (even one that
    rejects everything), every address and app hash. -/
theorem balance_counterexample (vm : VM) (addr appHash : Bytes) :
    let resp : Option AbciResponse := some ⟨0, [], none⟩
    obsOf (getVerifiedBalance vm addr appHash resp) = .ok 0 ∧
    specBalance vm addr appHash resp (obsOf (getVerifiedBalance vm addr appHash resp)) = false := by
  constructor
  · rfl
  · simp [getVerifiedBalance, obsOf, specBalance, backed, opsOf]

theorem fullStatement_false : ¬ FullStatement := by
  intro h
  have := h (fun _ _ _ _ _ => false) [] [] (some ⟨0, [], none⟩)
  have h2 := (balance_counterexample (fun _ _ _ _ _ => false) [] []).2
  exact absurd (h2 ▸ this : false = true) (by decide)

end Lumina.Props.C45

/-
  C45 — Verified balances are backed by a proof to the header's app hash.  PROPERTY THEOREMS ONLY.

  Model: `Lumina/Model/AbciProofs.lean`; spec: `Lumina/Spec/C45.lean`.  Soundness is proved for
  an ARBITRARY ics23 membership function `vm` (no assumption on it), every chain length, every
  key list, every response; the tamper-rejection theorems take the binding idealisations
  `Binding` / `ProofDetermines` as explicit hypotheses (witness instance `vmW`).
-/
import Lumina.Proofs.AbciProofs
import Lumina.Gen.C45

namespace Lumina.Props.C45
open Lumina.Util Lumina.Model.AbciProofs Lumina.Proofs.AbciProofs
open Lumina.Spec.C45 (linked nextRoots candidates Obs specBalance specVerify backed opsOf decimal)

/-- **`ProofChain::verify_membership` accepts only linked chains** — every `vm`, every chain
    length, every key list: `Ok(())` implies operation `i` carries key `i`, every link is
    accepted by ics23 for (root of the next link, key, current leaf), each intermediate root is
    a value the next operation commits to, the last link proves to the trusted root, and keys and
    proofs are consumed together. -/
theorem verify_membership_sound (vm : VM) (chain : ProofChain) (root : Bytes) (keys : List Bytes)
    (leaf : Bytes) :
    specVerify vm chain root keys leaf
      (match verifyMembership vm chain root keys leaf with | .ok () => true | _ => false) = true := by
  unfold specVerify
  split
  · rename_i hacc
    have : verifyMembership vm chain root keys leaf = .ok () := by
      cases hv : verifyMembership vm chain root keys leaf <;> simp_all
    have := verifyLoop_sound vm chain root keys leaf 0 this
    simpa using this
  · rfl

/-- tampering: if ics23 rejects the link of ANY operation for every candidate root, the chain is rejected
    (contrapositive form of soundness, for one-operation chains as the simplest non-vacuity witness) -/
example : ∃ vm chain root keys leaf, verifyMembership vm chain root keys leaf = .ok () :=
  ⟨fun _ _ _ _ _ => true, [⟨[1], .iavl, .exist ⟨[1], [2], none, none⟩⟩], [3], [[1]], [2], by rfl⟩

/-- completeness on the shape nodes actually send (two plain existence proofs): if ics23 accepts
    both links, the chain is accepted — the model does not reject everything -/
theorem honest_chain_accepted (vm : VM) (k0 k1 leaf root : Bytes) (s0 s1 : SpecKind)
    (e0 e1 : ExistenceProof)
    (h0 : vm (.exist e0) s0 e1.value k0 leaf = true) (h1 : vm (.exist e1) s1 root k1 e1.value = true) :
    verifyMembership vm [⟨k0, s0, .exist e0⟩, ⟨k1, s1, .exist e1⟩] root [k0, k1] leaf = .ok () := by
  simp [verifyMembership, verifyLoop, getExistenceProof, h0, h1]

def obsOf : Outcome (Except BalErr Nat) → Obs
  | .ok (.ok n) => .ok n
  | _ => .err

/-- the regenerated constants are the ones the bank key is built from -/
theorem consts_eq : Lumina.Gen.C45.BALANCES_PREFIX = 2 ∧ Lumina.Gen.C45.SIGNER_SIZE = 20 ∧
    Lumina.Spec.C45.ascii Lumina.Gen.C45.BOND_DENOM = BOND_DENOM ∧
    ∀ addr : Bytes, (bankKey addr).head? = some (UInt8.ofNat Lumina.Gen.C45.BALANCES_PREFIX) := by
  refine ⟨by decide, by decide, by decide, ?_⟩
  intro addr; simp [bankKey, Lumina.Gen.C45.BALANCES_PREFIX]

/-- the full statement of the property over the model -/
def FullStatement : Prop :=
  ∀ (vm : VM) (addr appHash : Bytes) (resp : Option AbciResponse),
    specBalance vm addr appHash resp (obsOf (getVerifiedBalance vm addr appHash resp)) = true

/-- **proved part**: whenever the node's answer has a NON-EMPTY value, a balance is reported as
    verified only if the answer carries a proof chain of exactly the two expected operations that
    links (bank key of the address, returned value) through `"bank"` to the header's app hash,
    every link accepted by ics23, and the reported amount is the returned value.  Every `vm`,
    address, app hash, response.  (Missing for `FullStatement`: the empty-value branch, where the
    code returns a "verified" zero without looking at any proof — see `balance_counterexample`.) -/
theorem balance_backed_partial (vm : VM) (addr appHash : Bytes) (resp : Option AbciResponse)
    (hne : ∀ r, resp = some r → r.value ≠ []) :
    specBalance vm addr appHash resp (obsOf (getVerifiedBalance vm addr appHash resp)) = true := by
  unfold getVerifiedBalance
  cases resp with
  | none => simp [obsOf, specBalance]
  | some r =>
    have hv := hne r rfl
    simp only []
    split
    · simp [obsOf, specBalance]
    · rename_i hcode
      have hemp : r.value.isEmpty = false := by
        cases hr : r.value with
        | nil => exact absurd hr hv
        | cons _ _ => rfl
      simp only [hemp, Bool.false_eq_true, ↓reduceIte]
      cases hch : ProofChain.tryFrom (r.proofOps.getD []) with
      | error e => simp [obsOf, specBalance]
      | ok chain =>
        simp only []
        cases hvm : verifyMembership vm chain appHash [bankKey addr, BANK] r.value with
        | panic => simp [obsOf, specBalance]
        | err e => simp [obsOf, specBalance]
        | ok u =>
          cases u
          simp only []
          cases hp : parseU64 r.value with
          | none => simp [obsOf, specBalance]
          | some n =>
            simp only [obsOf, specBalance, backed]
            unfold ProofChain.tryFrom at hch
            split at hch
            · simp at hch
            · rename_i hnonempty
              have hops := tryFromOps_eq _ _ hch
              have hlinked := verifyLoop_sound vm chain appHash _ _ 0 hvm
              simp only [List.drop_zero] at hlinked
              have hchain : chain.isEmpty = false := by
                cases chain with
                | nil => simp [linked] at hlinked
                | cons _ _ => rfl
              simp only [ne_eq, Decidable.not_not] at hcode
              simp [hcode, hops, hchain, bankKey_eq, bank_eq, hlinked, parseU64_decimal _ _ hp]

example : ∃ (resp : Option AbciResponse), (∀ r, resp = some r → r.value ≠ []) ∧
    ∃ n, obsOf (getVerifiedBalance Ics23.verifyMembership [1] [9] resp) = .ok n :=
  ⟨some ⟨0, [53, 48], some [⟨.iavl, bankKey [1], some (.exist ⟨bankKey [1], [53, 48], some [7], none⟩)⟩,
      ⟨.simple, BANK, some (.exist ⟨BANK, [7], none, some [9]⟩)⟩]⟩,
    by intro r h; cases h; decide, 50, by decide⟩

/-- **the property is FALSE of the current code**: for an answer with an empty value and no proof
    at all, `get_verified_balance` reports a verified balance of 0 — for every `vm` (even one that
    rejects everything), every address and app hash. -/
theorem balance_counterexample (vm : VM) (addr appHash : Bytes) :
    let resp : Option AbciResponse := some ⟨0, [], none⟩
    obsOf (getVerifiedBalance vm addr appHash resp) = .ok 0 ∧
    specBalance vm addr appHash resp (obsOf (getVerifiedBalance vm addr appHash resp)) = false := by
  constructor
  · rfl
  · simp [getVerifiedBalance, obsOf, specBalance, backed, opsOf]

theorem fullStatement_false : ¬ FullStatement := by
  intro h
  have := h (fun _ _ _ _ _ => false) [] [] (some ⟨0, [], none⟩)
  have h2 := (balance_counterexample (fun _ _ _ _ _ => false) [] []).2
  exact absurd (h2 ▸ this : false = true) (by decide)

/-! ## tampering (under explicit, satisfiable idealisations of ics23) -/

theorem accepted_backed (vm : VM) (addr appHash : Bytes) (r : AbciResponse) (n : Nat) (hne : r.value ≠ [])
    (h : obsOf (getVerifiedBalance vm addr appHash (some r)) = .ok n) :
    backed vm addr appHash (some r) n = true := by
  have := balance_backed_partial vm addr appHash (some r) (by intro r' e; cases e; exact hne)
  rw [h] at this
  exact this

/-- **binding of the commitment scheme** (the idealisation of ics23 + SHA-256 under which
    "tampered values are rejected" is meaningful): under a given root and spec, at most one value
    verifies for a key — whatever proofs are presented -/
def Binding (vm : VM) : Prop :=
  ∀ (p p' : CProof) (s : SpecKind) (root key v v' : Bytes),
    vm p s root key v = true → vm p' s root key v' = true → v = v'

/-- a given proof verifies for at most one (root, value) pair per key and spec (true of ics23 by
    construction: the root is COMPUTED from the existence proof found for the key, the value is
    the one inside it) -/
def ProofDetermines (vm : VM) : Prop :=
  ∀ (p : CProof) (s : SpecKind) (key root v root' v' : Bytes),
    vm p s root key v = true → vm p s root' key v' = true → root = root' ∧ v = v'

/-- a witness instance: "the root is `key ++ 0xff :: value`" -/
def vmW : VM := fun p _ root key v =>
  match p with
  | .exist e => e.key == key && e.value == v && root == key ++ 255 :: v
  | _ => false

theorem vmW_binding : Binding vmW := by
  intro p p' s root key v v' h h'
  unfold vmW at h h'
  cases p <;> cases p' <;> simp at h h'
  obtain ⟨-, rfl⟩ := h
  obtain ⟨-, h2⟩ := h'
  have := List.append_cancel_left h2
  simpa using this

theorem vmW_proofDetermines : ProofDetermines vmW := by
  intro p s key root v root' v' h h'
  unfold vmW at h h'
  cases p <;> simp at h h'
  obtain ⟨⟨-, rfl⟩, rfl⟩ := h
  obtain ⟨⟨-, h1⟩, rfl⟩ := h'
  exact ⟨by rw [h1], h1⟩

/-- the hypotheses are satisfiable together with an accepted balance: the witness accepts an honest
    two-link answer -/
example : Binding vmW ∧ ProofDetermines vmW ∧
    obsOf (getVerifiedBalance vmW [1] (BANK ++ 255 :: (bankKey [1] ++ 255 :: [53, 48]))
      (some ⟨0, [53, 48], some [⟨.iavl, bankKey [1], some (.exist ⟨bankKey [1], [53, 48], none, none⟩)⟩,
        ⟨.simple, BANK, some (.exist ⟨BANK, bankKey [1] ++ 255 :: [53, 48], none, none⟩)⟩]⟩)) = .ok 50 :=
  ⟨vmW_binding, vmW_proofDetermines, by decide⟩

/-- the driver's transcription of ics23's top level determines (root, value) from the proof -/
theorem ics23_proofDetermines : ProofDetermines Ics23.verifyMembership := by
  intro p s key root v root' v' h h'
  unfold Ics23.verifyMembership at h h'
  cases hg : Ics23.getExistProof p key with
  | none => simp [hg] at h
  | some e =>
    simp only [hg] at h h'
    cases hc : e.calc s with
    | none => simp [hc] at h
    | some r =>
      simp only [hc, Bool.and_eq_true, beq_iff_eq] at h h'
      exact ⟨by rw [← h.2, ← h'.2], by rw [← h.1.2, ← h'.1.2]⟩

/-- **two verified answers for the same account under the same app hash carry the same value**
    (binding `vm`): a node cannot get two different balances verified against one header.  The two
    answers may carry completely different proofs; they only have to use the same specs. -/
theorem verified_value_unique (vm : VM) (hb : Binding vm) (addr appHash : Bytes) (r r' : AbciResponse)
    (n n' : Nat) (hne : r.value ≠ []) (hne' : r'.value ≠ [])
    (hspec : ∀ c c', opsOf (r.proofOps.getD []) = some c → opsOf (r'.proofOps.getD []) = some c' →
      c.map (·.spec) = c'.map (·.spec))
    (h : obsOf (getVerifiedBalance vm addr appHash (some r)) = .ok n)
    (h' : obsOf (getVerifiedBalance vm addr appHash (some r')) = .ok n') :
    r.value = r'.value ∧ n = n' := by
  obtain ⟨a0, a1, x, ho, -, -, -, hv0, hv1, hd⟩ := backed_links vm addr appHash r n (accepted_backed vm addr appHash r n hne h)
  obtain ⟨b0, b1, y, ho', -, -, -, hw0, hw1, hd'⟩ := backed_links vm addr appHash r' n' (accepted_backed vm addr appHash r' n' hne' h')
  have hs := hspec _ _ ho ho'
  simp only [List.map_cons, List.map_nil, List.cons.injEq, and_true] at hs
  obtain ⟨hs0, hs1⟩ := hs
  rw [← hs1] at hw1
  have hxy : x = y := hb _ _ _ _ _ _ _ hv1 hw1
  subst hxy
  rw [← hs0] at hw0
  have hval : r.value = r'.value := hb _ _ _ _ _ _ _ hv0 hw0
  refine ⟨hval, ?_⟩
  rw [hval, hd'] at hd
  exact (Option.some.inj hd).symm

/-- **a tampered value is rejected** (binding `vm`): if an answer is verified, the same answer with
    any other non-empty value in place of the returned one is not -/
theorem tampered_value_rejected (vm : VM) (hb : Binding vm) (addr appHash : Bytes) (r : AbciResponse)
    (n : Nat) (v' : Bytes) (hne : r.value ≠ []) (hne' : v' ≠ []) (hv : v' ≠ r.value)
    (h : obsOf (getVerifiedBalance vm addr appHash (some r)) = .ok n) :
    obsOf (getVerifiedBalance vm addr appHash (some { r with value := v' })) = .err := by
  cases hr : obsOf (getVerifiedBalance vm addr appHash (some { r with value := v' })) with
  | err => rfl
  | ok n' =>
    exfalso
    have := verified_value_unique vm hb addr appHash r { r with value := v' } n n' hne hne'
      (by intro c c' hc hc'; simp only [hc] at hc'; cases hc'; rfl) h hr
    exact hv this.1.symm

theorem bankKey_injective (a a' : Bytes) (h : bankKey a = bankKey a') : a = a' := by
  unfold bankKey at h
  simp only [List.cons_append, List.nil_append, List.cons.injEq] at h
  exact List.append_cancel_right h.2.2

/-- **a tampered key is rejected** (no hypothesis on `vm`): an answer verified for one address
    is not verified for any other address; and the first operation of a verified answer is keyed by
    the bank key of the queried address, the second by `"bank"` -/
theorem tampered_key_rejected (vm : VM) (addr addr' appHash appHash' : Bytes) (r : AbciResponse) (n : Nat)
    (hne : r.value ≠ []) (ha : addr' ≠ addr)
    (h : obsOf (getVerifiedBalance vm addr appHash (some r)) = .ok n) :
    obsOf (getVerifiedBalance vm addr' appHash' (some r)) = .err := by
  cases hr : obsOf (getVerifiedBalance vm addr' appHash' (some r)) with
  | err => rfl
  | ok n' =>
    exfalso
    obtain ⟨a0, a1, x, ho, hk, -⟩ := backed_links vm addr appHash r n (accepted_backed vm addr appHash r n hne h)
    obtain ⟨b0, b1, y, ho', hk', -⟩ := backed_links vm addr' appHash' r n' (accepted_backed vm addr' appHash' r n' hne hr)
    rw [ho] at ho'
    cases ho'
    exact ha (bankKey_injective _ _ (hk'.symm.trans hk))

/-- **a tampered root is rejected** (`vm` computes the root from the proof): an answer verified
    against one app hash is not verified against any other -/
theorem tampered_root_rejected (vm : VM) (hd : ProofDetermines vm) (addr appHash appHash' : Bytes)
    (r : AbciResponse) (n : Nat) (hne : r.value ≠ []) (ha : appHash' ≠ appHash)
    (h : obsOf (getVerifiedBalance vm addr appHash (some r)) = .ok n) :
    obsOf (getVerifiedBalance vm addr appHash' (some r)) = .err := by
  cases hr : obsOf (getVerifiedBalance vm addr appHash' (some r)) with
  | err => rfl
  | ok n' =>
    exfalso
    obtain ⟨a0, a1, x, ho, -, -, -, -, hv1, -⟩ := backed_links vm addr appHash r n (accepted_backed vm addr appHash r n hne h)
    obtain ⟨b0, b1, y, ho', -, -, -, -, hw1, -⟩ := backed_links vm addr appHash' r n' (accepted_backed vm addr appHash' r n' hne hr)
    rw [ho] at ho'
    cases ho'
    exact ha (hd _ _ _ _ _ _ _ hv1 hw1).1.symm

/-- **a tampered proof is rejected** (any `vm`): if no value committed to by the second operation
    makes both links verify, the answer is not verified -/
theorem tampered_proof_rejected (vm : VM) (addr appHash : Bytes) (r : AbciResponse) (hne : r.value ≠ [])
    (hbad : ∀ op0 op1, opsOf (r.proofOps.getD []) = some [op0, op1] → ∀ r0 ∈ candidates op1.proof,
      ¬ (vm op0.proof op0.spec r0 (bankKey addr) r.value = true ∧ vm op1.proof op1.spec appHash BANK r0 = true)) :
    obsOf (getVerifiedBalance vm addr appHash (some r)) = .err := by
  cases hr : obsOf (getVerifiedBalance vm addr appHash (some r)) with
  | err => rfl
  | ok n =>
    exfalso
    obtain ⟨a0, a1, x, ho, -, -, hx, hv0, hv1, -⟩ := backed_links vm addr appHash r n (accepted_backed vm addr appHash r n hne hr)
    exact hbad a0 a1 ho x hx ⟨hv0, hv1⟩

/-- **`verify_membership` with no keys on a non-empty chain underflows** (`current_idx - 1` with
    `current_idx = 0`: debug-build panic) -/
theorem verify_membership_no_keys_counterexample (vm : VM) (op : CommitmentOp) (chain : ProofChain)
    (root leaf : Bytes) : (match verifyMembership vm (op :: chain) root [] leaf with | .panic => true | _ => false) = true := by
  simp [verifyMembership, verifyLoop]

end Lumina.Props.C45

/-
  C18 — Store insertion constraints admit exactly the legal ranges.   PROPERTY THEOREMS ONLY.

  Model: `Lumina.Model.Ranges.checkInsertionConstraints` (transcription of
  `BlockRanges::check_insertion_constraints`, incl. the `num_of_ranges` match, the
  `debug_assert!`s and index arithmetic as `panic` outcomes).
  Spec: `Lumina.Spec.C18.specCheck` (independent of the model).
  All theorems hold for EVERY stored value satisfying the representation invariant `Inv`
  (any number of ranges, any heights up to u64::MAX) and EVERY candidate range.
-/
import Lumina.Proofs.RangesConstraints
import Lumina.Spec.C18

namespace Lumina.Props.C18
open Lumina.Model.Ranges hiding Inv
open Lumina.Proofs.Ranges
open Lumina.Spec.C18

local notation "RInv" => Lumina.Model.Ranges.Inv

/-- what the harness prints, as an observation -/
def obsOf : Res (Bool × Bool) → Obs
  | .ok (p, n) => .ok p n
  | .error (.invalid _) => .errInvalid
  | .error (.overlap _ _) => .errOverlap
  | .error (.noAdjacent _) => .errNoAdjacent
  | .error _ => .other

theorem member_eq_memB (rs : Ranges) (h : Nat) : Lumina.Spec.C17.member rs h = memB rs h := rfl

theorem validR_eq_valid (r : Range) : Lumina.Spec.C17.validR r = Range.valid r := by
  rw [Bool.eq_iff_iff, valid_iff]
  simp [Lumina.Spec.C17.validR]

theorem sharesHeight_iff {rs : Ranges} {r : Range} (hi : RInv rs) (hr : r.1 ≤ r.2) :
    sharesHeight rs r = true ↔ Overlap rs r := by
  simp only [sharesHeight, List.any_eq_true, Bool.and_eq_true, decide_eq_true_eq, Overlap, mem]
  constructor
  · rintro ⟨x, hx, h1, h2⟩
    have := (inv_validR hi hx).2.1
    exact ⟨max x.1 r.1, ⟨x, hx, by omega, by omega⟩, by omega, by omega⟩
  · rintro ⟨h, ⟨x, hx, h1, h2⟩, h3, h4⟩
    exact ⟨x, hx, by omega, by omega⟩

theorem aboveHighest_iff {rs : Ranges} {r : Range} (hi : RInv rs) :
    aboveHighest rs r = true ↔ AboveHead rs r := by
  simp only [aboveHighest, List.all_eq_true, decide_eq_true_eq, AboveHead, mem]
  constructor
  · rintro h x ⟨y, hy, h1, h2⟩; have := h y hy; omega
  · intro h x hx
    have := (inv_validR hi hx).2.1
    exact h x.2 ⟨x, hx, this, Nat.le_refl _⟩

theorem nothingStored_above {rs : Ranges} {r : Range} (h : nothingStored rs = true) : AboveHead rs r := by
  simp only [nothingStored, List.isEmpty_iff] at h
  subst h
  intro x hx; exact absurd hx (mem_nil x)

/-- **C18 (main).**  For every stored value satisfying `Inv` and every candidate range, the
    result of `check_insertion_constraints` is what the property's admission rule allows:
    admitted with the exact two flags, or the error kind determined by the rule. -/
theorem constraints_spec {rs : Ranges} (hi : RInv rs) (r : Range) (hr : r.2 ≤ U64_MAX) :
    specCheck rs r (obsOf (checkInsertionConstraints rs r)) = true := by
  by_cases hval : Range.valid r = true
  · have hv : ValidR r := ⟨((valid_iff r).1 hval).1, ((valid_iff r).1 hval).2, hr⟩
    have hsh := sharesHeight_iff hi hv.2.1 (r := r)
    have hab := aboveHighest_iff hi (r := r)
    rcases checkInsertionConstraints_cases hi hv with ⟨he, hno, hpl⟩ | ⟨⟨o, he⟩, hov⟩ | ⟨he, hno, hna, hnp, hnn⟩
    · rw [he]
      have h1 : sharesHeight rs r = false := by
        rw [← Bool.not_eq_true]; exact fun h => hno (hsh.1 h)
      have h2 : placementOk rs r = true := by
        simp only [placementOk, touchesStored, belowStored, aboveStored, member_eq_memB,
          Bool.or_eq_true, memB_iff_mem]
        rcases hpl with h | h | h
        · exact Or.inl (Or.inr (hab.2 h))
        · exact Or.inr (Or.inl h)
        · exact Or.inr (Or.inr h)
      simp [obsOf, specCheck, admitted, validR_eq_valid, hval, h1, h2, belowStored, aboveStored,
        member_eq_memB]
    · rw [he]
      simp [obsOf, specCheck, validR_eq_valid, hval, hsh.2 hov]
    · rw [he]
      have h1 : sharesHeight rs r = false := by
        rw [← Bool.not_eq_true]; exact fun h => hno (hsh.1 h)
      have h2 : placementOk rs r = false := by
        rw [← Bool.not_eq_true]
        simp only [placementOk, touchesStored, belowStored, aboveStored, member_eq_memB,
          Bool.or_eq_true, memB_iff_mem]
        rintro ((h | h) | h | h)
        · exact hna (nothingStored_above h)
        · exact hna (hab.1 h)
        · exact hnp h
        · exact hnn h
      simp [obsOf, specCheck, validR_eq_valid, hval, h1, h2]
  · have hval' : Range.valid r = false := by simpa using hval
    rw [checkInsertionConstraints_invalid hval']
    simp [obsOf, specCheck, validR_eq_valid, hval']

/-- admitted **exactly** when: valid ∧ shares no stored height ∧ (nothing stored ∨ entirely above
    the highest stored height ∨ touches a stored range) -/
theorem constraints_ok_iff {rs : Ranges} (hi : RInv rs) (r : Range) (hr : r.2 ≤ U64_MAX) :
    (∃ p n, checkInsertionConstraints rs r = .ok (p, n)) ↔ admitted rs r = true := by
  have h := constraints_spec hi r hr
  cases hc : checkInsertionConstraints rs r with
  | ok pn =>
    obtain ⟨p, n⟩ := pn
    rw [hc] at h
    simp only [obsOf, specCheck, Bool.and_eq_true] at h
    exact ⟨fun _ => h.1.1, fun _ => ⟨p, n, rfl⟩⟩
  | error e =>
    rw [hc] at h
    constructor
    · rintro ⟨p, n, hpn⟩; cases hpn
    · intro ha
      exfalso
      simp only [admitted, Bool.and_eq_true, Bool.not_eq_true'] at ha
      cases e <;> simp [obsOf, specCheck, ha.1.1, ha.1.2, ha.2] at h

/-- the two flags say exactly whether the height just below / just above the range is stored -/
theorem constraints_flags {rs : Ranges} (hi : RInv rs) (r : Range) (hr : r.2 ≤ U64_MAX) {p n : Bool}
    (hc : checkInsertionConstraints rs r = .ok (p, n)) :
    (p = true ↔ mem rs (r.1 - 1)) ∧ (n = true ↔ mem rs (r.2 + 1)) := by
  have h := constraints_spec hi r hr
  rw [hc] at h
  simp only [obsOf, specCheck, Bool.and_eq_true, beq_iff_eq, belowStored, aboveStored,
    member_eq_memB] at h
  obtain ⟨⟨_, hp⟩, hn⟩ := h
  rw [hp, hn, memB_iff_mem, memB_iff_mem]
  exact ⟨Iff.rfl, Iff.rfl⟩

/-- the error kinds: `Invalid` iff the range is invalid; otherwise `Overlap` iff it shares a stored
    height; otherwise `NoAdjacentNeighbors`; never a panic, never `Unsorted` -/
theorem constraints_error_kinds {rs : Ranges} (hi : RInv rs) (r : Range) (hr : r.2 ≤ U64_MAX) {e : Err}
    (hc : checkInsertionConstraints rs r = .error e) :
    (Range.valid r = false ∧ e = .invalid r) ∨
    (Range.valid r = true ∧ sharesHeight rs r = true ∧ ∃ o, e = .overlap r o) ∨
    (Range.valid r = true ∧ sharesHeight rs r = false ∧ placementOk rs r = false ∧ e = .noAdjacent r) := by
  by_cases hval : Range.valid r = true
  · have hv : ValidR r := ⟨((valid_iff r).1 hval).1, ((valid_iff r).1 hval).2, hr⟩
    have h := constraints_spec hi r hr
    rcases checkInsertionConstraints_cases hi hv with ⟨he, _⟩ | ⟨⟨o, he⟩, _⟩ | ⟨he, _⟩
    · rw [he] at hc; cases hc
    · rw [he] at hc h; cases hc
      simp only [obsOf, specCheck, Bool.and_eq_true] at h
      exact Or.inr (Or.inl ⟨hval, h.2, o, rfl⟩)
    · rw [he] at hc h; cases hc
      simp only [obsOf, specCheck, Bool.and_eq_true, Bool.not_eq_true'] at h
      exact Or.inr (Or.inr ⟨hval, h.1.2, h.2, rfl⟩)
  · have hval' : Range.valid r = false := by simpa using hval
    rw [checkInsertionConstraints_invalid hval'] at hc
    cases hc
    exact Or.inl ⟨hval', rfl⟩

/-- no panic (no overflow, no failed debug assertion, no out-of-bounds index, the `0 =>
    unreachable!()` arm is unreachable) on `Inv` values -/
theorem constraints_no_panic {rs : Ranges} (hi : RInv rs) (r : Range) (hr : r.2 ≤ U64_MAX) :
    checkInsertionConstraints rs r ≠ .error .panic ∧ checkInsertionConstraints rs r ≠ .error .unsorted := by
  constructor <;> intro hc
  · rcases constraints_error_kinds hi r hr hc with ⟨_, h⟩ | ⟨_, _, o, h⟩ | ⟨_, _, _, h⟩ <;> cases h
  · rcases constraints_error_kinds hi r hr hc with ⟨_, h⟩ | ⟨_, _, o, h⟩ | ⟨_, _, _, h⟩ <;> cases h

/-- an admitted range really "extends stored data": inserting it keeps `Inv` and adds exactly
    its heights (link to C17's `insert_relaxed`, which is what the stores call next) -/
theorem admitted_insert {rs : Ranges} (hi : RInv rs) (r : Range) (hr : r.2 ≤ U64_MAX) {p n : Bool}
    (hc : checkInsertionConstraints rs r = .ok (p, n)) :
    ∃ rs', insertRelaxed rs r = .ok rs' ∧ RInv rs' ∧
      (∀ h, mem rs' h ↔ mem rs h ∨ (r.1 ≤ h ∧ h ≤ r.2)) ∧
      (∀ h, r.1 ≤ h → h ≤ r.2 → ¬ mem rs h) := by
  have hadm := (constraints_ok_iff hi r hr).1 ⟨p, n, hc⟩
  simp only [admitted, Bool.and_eq_true, Bool.not_eq_true'] at hadm
  have hval : Range.valid r = true := by rw [← validR_eq_valid]; exact hadm.1.1
  have hv : ValidR r := ⟨((valid_iff r).1 hval).1, ((valid_iff r).1 hval).2, hr⟩
  obtain ⟨rs', h1, h2, h3⟩ := insertRelaxed_spec hi hv
  refine ⟨rs', h1, h2, h3, ?_⟩
  intro h h4 h5 hm
  have : sharesHeight rs r = true := (sharesHeight_iff hi hv.2.1).2 ⟨h, hm, h4, h5⟩
  rw [hadm.1.2] at this
  cases this

/-! ### non-vacuity: concrete states meeting the hypotheses, one per outcome -/

example : RInv [(1, 3), (6, 9)] := inv_of_invB rfl
example : checkInsertionConstraints [(1, 3), (6, 9)] (4, 5) = .ok (true, true) := rfl
example : checkInsertionConstraints [(1, 3), (6, 9)] (11, 12) = .ok (false, false) := rfl
example : checkInsertionConstraints [(2, 3), (5, 6)] (1, 5) = .error (.overlap (1, 5) (2, 5)) := rfl
example : checkInsertionConstraints [(1, 2), (7, 9)] (4, 4) = .error (.noAdjacent (4, 4)) := rfl
example : checkInsertionConstraints [(1, 2), (7, 9)] (0, 4) = .error (.invalid (0, 4)) := rfl
example : RInv [(1, 2), (18446744073709551614, 18446744073709551615)] := inv_of_invB (by decide)

end Lumina.Props.C18

/-
  C05 — Row retrieval returns exactly the committed row.   PROPERTY THEOREMS ONLY.

  Model: `Lumina/Model/Row.lean` (`verify`, `fromRaw`, `toRaw`; the Reed–Solomon codec is a parameter of `fromRaw`),
  over `Lumina/Model/Nmt.lean` and `Lumina/Model/Eds.lean`.  Spec: `Lumina/Spec/C05.lean`.
  Soundness under collision-freeness of the hash RELATIVE TO the byte strings actually hashed (`HashOKOn H (· ∈
  hashedC05 H e r)`: the square's row/column trees and the verifier's rebuilt row tree), and as a reduction: an accepted
  wrong row yields an explicit collision among those inputs.  The round trips are stated for a systematic encoder
  `enc` (`encodeCodec enc`) resp. a reconstructor `rec` with the MDS property `RecoversFromRight enc rec k`, for rows
  that are codewords (`RowCodeword`) — properties of the codec, not the conclusion; that the real leopard codec has
  them is validated by the correspondence, not proved.
-/
import Lumina.Proofs.Row
import Lumina.Gen.C05

namespace Lumina.Props.C05
open Lumina.Util Lumina.Model.Nmt Lumina.Model.Eds Lumina.Model.Row
open Lumina.Proofs.Nmt Lumina.Proofs.Eds Lumina.Proofs.Sample Lumina.Proofs.Row Lumina.Spec.C05
open Lumina.Model.Sample (SErr shareFromRaw shareParity)

/-- the sizes the model uses are the ones in the current source tree -/
theorem consts_eq :
    Lumina.Gen.C05.NS_SIZE = Lumina.Model.Nmt.NS_SIZE ∧ Lumina.Gen.C05.HASH_SIZE = Lumina.Model.Nmt.HASH_LEN ∧
    Lumina.Gen.C05.SHARE_SIZE = 512 ∧ Lumina.Gen.C05.SHARE_SIZE = Lumina.Model.Eds.SHARE_SIZE := by
  decide

/-- the byte strings hashed by the two computations `row_sound_eds` compares: all row and column trees of the
    square (and the empty string, preimage of `EMPTY_ROOT`), and the row tree the verifier rebuilds from the received
    shares -/
def hashedC05 (H : HashFn) (e : Eds) (r : Row) : List Bytes := edsInputs H e ++ rowInputs H r.shares

/-- **Row soundness against a committed root**, the hash collision-free on `S` ⊇ inputs of the committed tree, inputs
    of the verifier's tree, and `[]`. -/
theorem row_sound_root {H : HashFn} {S : Bytes → Prop} (hk : HashOKOn H S) (hE : S []) {committed : List Share}
    (hc : ∀ sh ∈ committed, NS_SIZE ≤ sh.data.length) (hSc : ∀ y ∈ rowInputs H committed, S y) {root : NsHash}
    (hroot : computeRoot H true (committed.map (Share.leafHash H)) = .ok root) {dah : Dah} {i : Nat}
    (hd : dah.rowRoot? i = some root) (r : Row) (hr : ∀ sh ∈ r.shares, NS_SIZE ≤ sh.data.length)
    (hSr : ∀ y ∈ rowInputs H r.shares, S y) :
    specVerify (some (committed.map Share.data)) (r.shares.map Share.data) (accepted (verify H r i dah)) = true := by
  cases hv : verify H r i dah with
  | error er => simp [accepted, specVerify]
  | ok u =>
    unfold verify at hv
    cases hp : pushLeaves H (r.shares.map Share.leaf) with
    | none => simp [hp] at hv
    | some hs =>
      simp only [hp, hd] at hv
      have hmap : hs = r.shares.map (Share.leafHash H) := by
        rw [pushLeaves_some hp]; simp [List.map_map, Share.leaf, Share.leafHash, Function.comp_def]
      subst hmap
      cases hcr : computeRoot H true (r.shares.map (Share.leafHash H)) with
      | error er => simp [hcr] at hv
      | ok t =>
        simp only [hcr] at hv
        split at hv
        · cases hv
        · rename_i hne
          have hh : t.hash = root.hash := by simpa using hne
          have hLr : ∀ sh ∈ r.shares, S (leafInput sh.ns sh.data) := fun sh hm =>
            hSr _ (List.mem_append_left _ (List.mem_map.mpr ⟨sh, hm, rfl⟩))
          have hLc : ∀ sh ∈ committed, S (leafInput sh.ns sh.data) := fun sh hm =>
            hSc _ (List.mem_append_left _ (List.mem_map.mpr ⟨sh, hm, rfl⟩))
          have hTr : ∀ y ∈ rootInputs H true ((r.shares.map (Share.leafHash H)).length + 1)
              (r.shares.map (Share.leafHash H)), S y := fun y hy =>
            hSr y (List.mem_append_right _ (by simpa using hy))
          have hTc : ∀ y ∈ rootInputs H true ((committed.map (Share.leafHash H)).length + 1)
              (committed.map (Share.leafHash H)), S y := fun y hy =>
            hSc y (List.mem_append_right _ (by simpa using hy))
          have := computeRoot_hash_inj_on hk hE (allLeafOn_of_shares hr hLr) (allLeafOn_of_shares hc hLc)
            hTr hTc hcr hroot hh
          have := leafHash_map_inj_on hk hr hc hLr hLc this
          simp [accepted, specVerify, this]

/-- **Row soundness against the DAH of a square**: accepted ⇒ the shares are exactly row `i` of the square.  The hash
    assumption: no collision among `hashedC05 H e r` (a finite, explicitly computed list) — satisfiable, see the
    non-vacuity instance below. -/
theorem row_sound_eds {H : HashFn} {e : Eds} (hsz : ∀ sh ∈ e.shares, NS_SIZE ≤ sh.data.length)
    {dah : Dah} (hd : Dah.ofEds H e = .ok dah) (r : Row) (hr : ∀ sh ∈ r.shares, NS_SIZE ≤ sh.data.length) (i : Nat)
    (hk : HashOKOn H (fun y => y ∈ hashedC05 H e r)) :
    specVerify ((e.row? i).map (fun l => l.map Share.data)) (r.shares.map Share.data)
      (accepted (verify H r i dah)) = true := by
  obtain ⟨hrl, _, hrows, _⟩ := dah_ofEds_roots hd
  by_cases hi : i < e.width
  · obtain ⟨root, hroot, hget⟩ := hrows i hi
    obtain ⟨shares, hax, hcr, _⟩ := axisRoot_ok hroot
    obtain ⟨_, hg⟩ := axis?_some hax
    have hmem : ∀ x ∈ shares, x ∈ e.shares := by
      intro x hx
      obtain ⟨n, hn, rfl⟩ := List.getElem_of_mem hx
      obtain ⟨y, hy1, hy2⟩ := hg n (by omega)
      rw [List.getElem?_eq_getElem hn] at hy2
      injection hy2 with hy2
      rw [hy2]
      exact List.mem_of_getElem? hy1
    have : e.row? i = some shares := hax
    rw [this]
    have hAx : axisInputs H e .row i = rowInputs H shares := by unfold axisInputs rowInputs; rw [hax]
    exact row_sound_root hk (List.mem_append_left _ (nil_mem_edsInputs H e)) (fun sh hs => hsz sh (hmem sh hs))
      (fun y hy => List.mem_append_left _ (axisInputs_mem_eds hi (by rw [hAx]; exact hy))) hcr hget r hr
      (fun y hy => List.mem_append_right _ hy)
  · have : dah.rowRoot? i = none := by
      unfold Dah.rowRoot?; rw [List.getElem?_eq_none_iff]; omega
    have hv : accepted (verify H r i dah) = false := by
      unfold verify
      cases hp : pushLeaves H (r.shares.map Share.leaf) with
      | none => rfl
      | some hs => simp [this, accepted]
    simp [hv, specVerify]

/-- **Soundness as a reduction** (no assumption on the hash beyond its output length): a row that is accepted although
    it is not row `i` of the square yields an explicit collision `x ≠ y`, `H x = H y` with both `x` and `y` among the
    byte strings hashed for the square's trees and the verifier's row tree. -/
theorem row_forgery_yields_collision {H : HashFn} (hl : HashLen H) {e : Eds}
    (hsz : ∀ sh ∈ e.shares, NS_SIZE ≤ sh.data.length) {dah : Dah} (hd : Dah.ofEds H e = .ok dah) (r : Row)
    (hr : ∀ sh ∈ r.shares, NS_SIZE ≤ sh.data.length) (i : Nat)
    (hbad : specVerify ((e.row? i).map (fun l => l.map Share.data)) (r.shares.map Share.data)
      (accepted (verify H r i dah)) = false) :
    CollisionIn H (fun y => y ∈ hashedC05 H e r) := by
  rcases noCollOn_or_collision H (fun y => y ∈ hashedC05 H e r) with h | h
  · have := row_sound_eds hsz hd r hr i ⟨h, hl⟩
    rw [this] at hbad; cases hbad
  · exact h

/-- the shard vector `Row::from_raw` builds from the left half has `2k` entries whose first `k` are the half -/
theorem codecInput_toRaw {r : Row} {i k : Nat} (hr : HonestRow r i k) :
    codecInput (toRaw r) = (r.shares.map Share.data).take k ++ List.replicate k (List.replicate SHARE_SIZE 0) := by
  have h2 : r.shares.length / 2 = k := by rw [hr.len]; omega
  have hl : ((r.shares.map Share.data).take k).length = k := by simp [List.length_take, hr.len]; omega
  simp only [codecInput, toRaw, h2]
  rw [if_neg (by decide), hl]

theorem codecInput_toRawRight {r : Row} {i k : Nat} (hr : HonestRow r i k) :
    codecInput (toRawRight r) = List.replicate k [] ++ (r.shares.map Share.data).drop k := by
  have h2 : r.shares.length / 2 = k := by rw [hr.len]; omega
  have hl : ((r.shares.map Share.data).drop k).length = k := by simp [List.length_drop, hr.len]; omega
  simp only [codecInput, toRawRight, h2]
  rw [if_pos trivial, hl]

/-- **Round trip from the left half.**  Codec assumption: `leopard_codec::encode` is a systematic encoder (`encodeCodec
    enc`: keeps the data half, writes `enc` of it into the parity half); row assumption: the row is a codeword of that
    encoder (true of every row of an extended square — C07/C08).  Then decoding `RawRow::from(row)` gives the row. -/
theorem row_roundtrip_left {r : Row} {i k : Nat} (hr : HonestRow r i k) (enc : List Bytes → List Bytes)
    (hcw : RowCodeword enc k (r.shares.map Share.data)) :
    fromRaw (encodeCodec enc) i (toRaw r) = .ok r := by
  have hc : encodeCodec enc (codecInput (toRaw r)) = .ok (r.shares.map Share.data) := by
    rw [codecInput_toRaw hr]
    have hl : ((r.shares.map Share.data).take k).length = k := by simp [List.length_take, hr.len]; omega
    have hlen : ((r.shares.map Share.data).take k ++ List.replicate k (List.replicate SHARE_SIZE 0)).length / 2 = k := by
      rw [List.length_append, hl, List.length_replicate]; omega
    unfold encodeCodec
    rw [hlen, List.take_left' hl, ← hcw.2, List.take_append_drop]
  unfold fromRaw
  have hl : (toRaw r).sharesHalf.length = k := by
    simp [toRaw, List.length_take, hr.len]; omega
  have hk0 : ¬ (k = 0) := by have := hr.kpos; omega
  simp only [hc, hl, hk0, ↓reduceIte]
  rw [buildShares_ok i k r.shares 0 (fun j sh hj => by simpa using hr.ok j sh hj)]

/-- **Round trip from the right half.**  Codec assumption: `leopard_codec::reconstruct` recovers every codeword of the
    encoder from its parity half (`RecoversFromRight enc rec k`, the MDS property for this erasure pattern); row
    assumption: the row is a codeword.  Then decoding the right-half message gives the row. -/
theorem row_roundtrip_right {r : Row} {i k : Nat} (hr : HonestRow r i k) (enc rec : List Bytes → List Bytes)
    (hmds : RecoversFromRight enc rec k) (hcw : RowCodeword enc k (r.shares.map Share.data)) :
    fromRaw (reconstructCodec rec) i (toRawRight r) = .ok r := by
  have hc : reconstructCodec rec (codecInput (toRawRight r)) = .ok (r.shares.map Share.data) := by
    rw [codecInput_toRawRight hr]
    unfold reconstructCodec
    rw [hmds _ hcw]
  unfold fromRaw
  have hl : (toRawRight r).sharesHalf.length = k := by
    simp [toRawRight, List.length_drop, hr.len]; omega
  have hk0 : ¬ (k = 0) := by have := hr.kpos; omega
  simp only [hc, hl, hk0, ↓reduceIte]
  rw [buildShares_ok i k r.shares 0 (fun j sh hj => by simpa using hr.ok j sh hj)]

/-- the row the square itself hands out verifies against the square's DAH (no hash assumption) -/
theorem row_honest_verifies {H : HashFn} {e : Eds} {dah : Dah} (hd : Dah.ofEds H e = .ok dah) {i : Nat}
    (hi : i < e.width) : ∃ r, Lumina.Model.Row.new e i = some r ∧ verify H r i dah = .ok () := by
  obtain ⟨_, _, hrows, _⟩ := dah_ofEds_roots hd
  obtain ⟨root, hroot, hget⟩ := hrows i hi
  obtain ⟨shares, hax, hcr, halh⟩ := axisRoot_ok hroot
  refine ⟨⟨shares⟩, by simp [Lumina.Model.Row.new, Eds.row?, hax], ?_⟩
  unfold Eds.axisLeafHashes at halh
  simp only [hax] at halh
  cases hp : pushLeaves H (shares.map Share.leaf) with
  | none => simp [hp] at halh
  | some hs =>
    simp only [hp, Except.ok.injEq] at halh
    subst halh
    have hg : dah.rowRoot? i = some root := hget
    simp [verify, hp, hg, hcr]

/-! ### Non-vacuity -/

/-- a concrete honest row (width 2, row 0): original-data share with the all-zero namespace, one parity share -/
def okRow : Row := ⟨[⟨List.replicate 512 0, false⟩, ⟨List.replicate 512 7, true⟩]⟩

def isOkNs (r : Except Lumina.Model.Namespace.Err Bytes) : Bool := match r with | .ok _ => true | .error _ => false

set_option maxRecDepth 20000 in
theorem nonvacuity_okRow_honest : HonestRow okRow 0 1 where
  len := rfl
  kpos := by decide
  ok := by
    have h : ∀ j, j < 2 →
        (match okRow.shares[j]? with
         | some sh => sh.data.length == SHARE_SIZE && (sh.isParity == !(decide (0 < 1 ∧ j < 1))) &&
             (sh.isParity || isOkNs (Lumina.Model.Namespace.fromRaw (sh.data.take NS_SIZE)))
         | none => true) = true := by decide
    intro j sh hj
    have hj2 : j < 2 := by
      have := (List.getElem?_eq_some_iff.mp hj).1
      simpa [okRow] using this
    have := h j hj2
    rw [hj] at this
    simp only [Bool.and_eq_true, beq_iff_eq, Bool.or_eq_true] at this
    refine ⟨this.1.1, this.1.2, fun hp => ?_⟩
    rcases this.2 with h1 | h1
    · rw [hp] at h1; cases h1
    · cases hf : Lumina.Model.Namespace.fromRaw (sh.data.take NS_SIZE) with
      | ok n => exact ⟨n, rfl⟩
      | error er => simp [hf, isOkNs] at h1

/-- a toy systematic encoder: parity shard = data shard with 7 added to every byte -/
def toyEnc : List Bytes → List Bytes := fun l => l.map (fun d => d.map (· + 7))
/-- its reconstructor from the parity half -/
def toyRec : List Bytes → List Bytes := fun l =>
  let p := l.drop (l.length / 2)
  p.map (fun d => d.map (· - 7)) ++ p

/-- the toy reconstructor has the MDS property the right-half round trip assumes, for every `k` -/
theorem nonvacuity_toyRec (k : Nat) : RecoversFromRight toyEnc toyRec k := by
  intro cw ⟨hlen, hcw⟩
  have hd : (cw.drop k).length = k := by simp [List.length_drop, hlen]; omega
  have h2 : (List.replicate k ([] : Bytes) ++ cw.drop k).length / 2 = k := by
    rw [List.length_append, List.length_replicate, hd]; omega
  unfold toyRec
  simp only [h2]
  have hdr : (List.replicate k ([] : Bytes) ++ cw.drop k).drop k = cw.drop k :=
    List.drop_left' (by simp)
  rw [hdr]
  have : (cw.drop k).map (fun d => d.map (· - 7)) = cw.take k := by
    rw [hcw]; unfold toyEnc
    rw [List.map_map]
    have : ((fun d : Bytes => d.map (· - 7)) ∘ fun d => d.map (· + 7)) = id := by
      funext d
      simp only [Function.comp_apply, List.map_map, id]
      have : ((fun x : UInt8 => x - 7) ∘ fun x => x + 7) = id := by
        funext x; simp only [Function.comp_apply, id]; exact UInt8.add_sub_cancel x 7
      rw [this, List.map_id]
    rw [this, List.map_id]
  rw [this, List.take_append_drop]

set_option maxRecDepth 100000 in
/-- the concrete row is a codeword of the toy encoder -/
theorem nonvacuity_okRow_codeword : RowCodeword toyEnc 1 (okRow.shares.map Share.data) := ⟨rfl, by decide⟩

/-- every hypothesis of the round-trip theorems holds on a concrete instance -/
example : fromRaw (encodeCodec toyEnc) 0 (toRaw okRow) = .ok okRow :=
  row_roundtrip_left nonvacuity_okRow_honest toyEnc nonvacuity_okRow_codeword
example : fromRaw (reconstructCodec toyRec) 0 (toRawRight okRow) = .ok okRow :=
  row_roundtrip_right nonvacuity_okRow_honest toyEnc toyRec (nonvacuity_toyRec 1) nonvacuity_okRow_codeword

/-! ### Non-vacuity of `row_sound_eds`: ALL hypotheses hold on a concrete accepted row -/

/-- 2×2 square of 512-byte shares -/
def sumEds : Eds := Eds.ofRaw 2 [List.replicate 512 0, List.replicate 512 1, List.replicate 512 2, List.replicate 512 3]
def sumDah : Dah := match Dah.ofEds toySum sumEds with | .ok d => d | .error _ => default
/-- row 1 of the square, as `Row::new` hands it out -/
def sumRow : Row := match Lumina.Model.Row.new sumEds 1 with | some r => r | none => default

set_option maxRecDepth 100000 in
/-- the toy hash has no collision among the byte strings hashed for this square and this row -/
theorem nonvacuity_toySum_nocoll : NoCollOn toySum (fun y => y ∈ hashedC05 toySum sumEds sumRow) :=
  noCollOn_of_list (by decide)

set_option maxRecDepth 100000 in
/-- `row_sound_eds` applied to a concrete ACCEPTED row: every hypothesis (incl. relative collision-freeness) holds -/
example : accepted (verify toySum sumRow 1 sumDah) = true ∧
    specVerify ((sumEds.row? 1).map (fun l => l.map Share.data)) (sumRow.shares.map Share.data)
      (accepted (verify toySum sumRow 1 sumDah)) = true := by
  refine ⟨by decide, ?_⟩
  have hsz : ∀ sh ∈ sumEds.shares, NS_SIZE ≤ sh.data.length := by
    have h : sumEds.shares.all (fun sh => decide (NS_SIZE ≤ sh.data.length)) = true := by decide
    intro sh hm; simpa using List.all_eq_true.mp h sh hm
  have hr : ∀ sh ∈ sumRow.shares, NS_SIZE ≤ sh.data.length := by
    have h : sumRow.shares.all (fun sh => decide (NS_SIZE ≤ sh.data.length)) = true := by decide
    intro sh hm; simpa using List.all_eq_true.mp h sh hm
  exact row_sound_eds hsz (dah := sumDah) rfl sumRow hr 1 ⟨nonvacuity_toySum_nocoll, toySum_len⟩

end Lumina.Props.C05

/-
  C05 — Row retrieval returns exactly the committed row.   PROPERTY THEOREMS ONLY.

  Model: `Lumina/Model/Row.lean` (`verify`, `fromRaw`, `toRaw`; the Reed–Solomon codec is a parameter of `fromRaw`),
  over `Lumina/Model/Nmt.lean` and `Lumina/Model/Eds.lean`.  Spec: `Lumina/Spec/C05.lean`.
  Soundness under the idealised hash (`HashOK`) and in "sound or explicit collision" form; the round trips take the
  codec property they need (encode extends the left half to the row / reconstruct recovers the row from the right
  half — validated against the real leopard codec by the correspondence, not proved) as a hypothesis.
-/
import Lumina.Proofs.Row
import Lumina.Gen.C05

namespace Lumina.Props.C05
open Lumina.Util Lumina.Model.Nmt Lumina.Model.Eds Lumina.Model.Row
open Lumina.Proofs.Nmt Lumina.Proofs.Eds Lumina.Proofs.Sample Lumina.Proofs.Row Lumina.Spec.C05
open Lumina.Model.Sample (SErr shareFromRaw shareParity)

/-- the sizes the model uses are the ones in the current source tree -/
theorem consts_eq :
    Lumina.Gen.C05.NS_SIZE = Lumina.Model.Nmt.NS_SIZE ∧ Lumina.Gen.C05.HASH_SIZE = Lumina.Model.Nmt.HASH_LEN ∧
    Lumina.Gen.C05.SHARE_SIZE = 512 ∧ Lumina.Gen.C05.SHARE_SIZE = Lumina.Model.Eds.SHARE_SIZE := by
  decide

/-- **Row soundness against a committed root.** -/
theorem row_sound_root {H : HashFn} (hk : HashOK H) {committed : List Share}
    (hc : ∀ sh ∈ committed, NS_SIZE ≤ sh.data.length) {root : NsHash}
    (hroot : computeRoot H true (committed.map (Share.leafHash H)) = .ok root) {dah : Dah} {i : Nat}
    (hd : dah.rowRoot? i = some root) (r : Row) (hr : ∀ sh ∈ r.shares, NS_SIZE ≤ sh.data.length) :
    specVerify (some (committed.map Share.data)) (r.shares.map Share.data) (accepted (verify H r i dah)) = true := by
  cases hv : verify H r i dah with
  | error er => simp [accepted, specVerify]
  | ok u =>
    unfold verify at hv
    cases hp : pushLeaves H (r.shares.map Share.leaf) with
    | none => simp [hp] at hv
    | some hs =>
      simp only [hp, hd] at hv
      have hmap : hs = r.shares.map (Share.leafHash H) := by
        rw [pushLeaves_some hp]; simp [List.map_map, Share.leaf, Share.leafHash, Function.comp_def]
      subst hmap
      cases hcr : computeRoot H true (r.shares.map (Share.leafHash H)) with
      | error er => simp [hcr] at hv
      | ok t =>
        simp only [hcr] at hv
        split at hv
        · cases hv
        · rename_i hne
          have hh : t.hash = root.hash := by simpa using hne
          have := computeRoot_hash_inj hk (allLeaf_of_shares hr) (allLeaf_of_shares hc) hcr hroot hh
          have := leafHash_map_inj hk hr hc this
          simp [accepted, specVerify, this]

/-- **Row soundness against the DAH of a square**: accepted ⇒ the shares are exactly row `i` of the square -/
theorem row_sound_eds {H : HashFn} (hk : HashOK H) {e : Eds} (hsz : ∀ sh ∈ e.shares, NS_SIZE ≤ sh.data.length)
    {dah : Dah} (hd : Dah.ofEds H e = .ok dah) (r : Row) (hr : ∀ sh ∈ r.shares, NS_SIZE ≤ sh.data.length) (i : Nat) :
    specVerify ((e.row? i).map (fun l => l.map Share.data)) (r.shares.map Share.data)
      (accepted (verify H r i dah)) = true := by
  obtain ⟨hrl, _, hrows, _⟩ := dah_ofEds_roots hd
  by_cases hi : i < e.width
  · obtain ⟨root, hroot, hget⟩ := hrows i hi
    obtain ⟨shares, hax, hcr, _⟩ := axisRoot_ok hroot
    obtain ⟨_, hg⟩ := axis?_some hax
    have hmem : ∀ x ∈ shares, x ∈ e.shares := by
      intro x hx
      obtain ⟨n, hn, rfl⟩ := List.getElem_of_mem hx
      obtain ⟨y, hy1, hy2⟩ := hg n (by omega)
      rw [List.getElem?_eq_getElem hn] at hy2
      injection hy2 with hy2
      rw [hy2]
      exact List.mem_of_getElem? hy1
    have : e.row? i = some shares := hax
    rw [this]
    exact row_sound_root hk (fun sh hs => hsz sh (hmem sh hs)) hcr hget r hr
  · have : dah.rowRoot? i = none := by
      unfold Dah.rowRoot?; rw [List.getElem?_eq_none_iff]; omega
    have hv : accepted (verify H r i dah) = false := by
      unfold verify
      cases hp : pushLeaves H (r.shares.map Share.leaf) with
      | none => rfl
      | some hs => simp [this, accepted]
    simp [hv, specVerify]

/-- **Round trip from the left half**: if the codec extends the left half of the row to the row (the row is a
    codeword: the property of `leopard_codec::encode` that is assumed, not proved), decoding `RawRow::from(row)` gives
    the row back -/
theorem row_roundtrip_left {r : Row} {i k : Nat} (hr : HonestRow r i k) (codec : List Bytes → CodecRes)
    (hc : codec (codecInput (toRaw r)) = .ok (r.shares.map Share.data)) :
    fromRaw codec i (toRaw r) = .ok r := by
  unfold fromRaw
  have hl : (toRaw r).sharesHalf.length = k := by
    simp [toRaw, List.length_take, hr.len]; omega
  have hk0 : ¬ (k = 0) := by have := hr.kpos; omega
  simp only [hc, hl, hk0, ↓reduceIte]
  rw [buildShares_ok i k r.shares 0 (fun j sh hj => by simpa using hr.ok j sh hj)]

/-- **Round trip from the right half**: if the codec reconstructs the row from its right half (the MDS property of
    `leopard_codec::reconstruct`, assumed), decoding the right-half message gives the row back -/
theorem row_roundtrip_right {r : Row} {i k : Nat} (hr : HonestRow r i k) (codec : List Bytes → CodecRes)
    (hc : codec (codecInput (toRawRight r)) = .ok (r.shares.map Share.data)) :
    fromRaw codec i (toRawRight r) = .ok r := by
  unfold fromRaw
  have hl : (toRawRight r).sharesHalf.length = k := by
    simp [toRawRight, List.length_drop, hr.len]; omega
  have hk0 : ¬ (k = 0) := by have := hr.kpos; omega
  simp only [hc, hl, hk0, ↓reduceIte]
  rw [buildShares_ok i k r.shares 0 (fun j sh hj => by simpa using hr.ok j sh hj)]

/-- soundness in reduction form (satisfiable by real hashes) -/
theorem row_sound_or_collision {H : HashFn} (hl : HashLen H) {e : Eds} (hsz : ∀ sh ∈ e.shares, NS_SIZE ≤ sh.data.length)
    {dah : Dah} (hd : Dah.ofEds H e = .ok dah) (r : Row) (hr : ∀ sh ∈ r.shares, NS_SIZE ≤ sh.data.length) (i : Nat) :
    specVerify ((e.row? i).map (fun l => l.map Share.data)) (r.shares.map Share.data)
      (accepted (verify H r i dah)) = true ∨ ∃ x y, x ≠ y ∧ H x = H y := by
  by_cases hinj : Function.Injective H
  · exact Or.inl (row_sound_eds ⟨hinj, hl⟩ hsz hd r hr i)
  · right
    unfold Function.Injective at hinj
    have : ∃ x y, H x = H y ∧ x ≠ y := by
      apply Classical.byContradiction
      intro hn
      apply hinj
      intro a b hab
      apply Classical.byContradiction
      intro hne
      exact hn ⟨a, b, hab, hne⟩
    obtain ⟨x, y, h1, h2⟩ := this
    exact ⟨x, y, h2, h1⟩

/-- the row the square itself hands out verifies against the square's DAH (no hash assumption) -/
theorem row_honest_verifies {H : HashFn} {e : Eds} {dah : Dah} (hd : Dah.ofEds H e = .ok dah) {i : Nat}
    (hi : i < e.width) : ∃ r, Lumina.Model.Row.new e i = some r ∧ verify H r i dah = .ok () := by
  obtain ⟨_, _, hrows, _⟩ := dah_ofEds_roots hd
  obtain ⟨root, hroot, hget⟩ := hrows i hi
  obtain ⟨shares, hax, hcr, halh⟩ := axisRoot_ok hroot
  refine ⟨⟨shares⟩, by simp [Lumina.Model.Row.new, Eds.row?, hax], ?_⟩
  unfold Eds.axisLeafHashes at halh
  simp only [hax] at halh
  cases hp : pushLeaves H (shares.map Share.leaf) with
  | none => simp [hp] at halh
  | some hs =>
    simp only [hp, Except.ok.injEq] at halh
    subst halh
    have hg : dah.rowRoot? i = some root := hget
    simp [verify, hp, hg, hcr]

/-! ### Non-vacuity -/

/-- a concrete honest row (width 2, row 0): original-data share with the all-zero namespace, one parity share -/
def okRow : Row := ⟨[⟨List.replicate 512 0, false⟩, ⟨List.replicate 512 7, true⟩]⟩

def isOkNs (r : Except Lumina.Model.Namespace.Err Bytes) : Bool := match r with | .ok _ => true | .error _ => false

set_option maxRecDepth 20000 in
theorem nonvacuity_okRow_honest : HonestRow okRow 0 1 where
  len := rfl
  kpos := by decide
  ok := by
    have h : ∀ j, j < 2 →
        (match okRow.shares[j]? with
         | some sh => sh.data.length == SHARE_SIZE && (sh.isParity == !(decide (0 < 1 ∧ j < 1))) &&
             (sh.isParity || isOkNs (Lumina.Model.Namespace.fromRaw (sh.data.take NS_SIZE)))
         | none => true) = true := by decide
    intro j sh hj
    have hj2 : j < 2 := by
      have := (List.getElem?_eq_some_iff.mp hj).1
      simpa [okRow] using this
    have := h j hj2
    rw [hj] at this
    simp only [Bool.and_eq_true, beq_iff_eq, Bool.or_eq_true] at this
    refine ⟨this.1.1, this.1.2, fun hp => ?_⟩
    rcases this.2 with h1 | h1
    · rw [hp] at h1; cases h1
    · cases hf : Lumina.Model.Namespace.fromRaw (sh.data.take NS_SIZE) with
      | ok n => exact ⟨n, rfl⟩
      | error er => simp [hf, isOkNs] at h1

/-- the codec hypothesis of the round-trip theorems is satisfiable: a (toy) codec that returns the row -/
example : fromRaw (fun _ => .ok (okRow.shares.map Share.data)) 0 (toRaw okRow) = .ok okRow :=
  row_roundtrip_left nonvacuity_okRow_honest _ rfl


end Lumina.Props.C05

/-
  C28 — Header-ex client accepts only well-formed, validated responses.  PROPERTY THEOREMS ONLY.

  Model: Lumina/Model/HeaderExClient.lean (`decode_and_verify_responses`, `is_valid`), for ALL
  requests (any kind, any amount, any origin up to and beyond `u64::MAX`) and ALL response lists
  (any length, any status codes, any validation oracle, any order).
-/
import Lumina.Proofs.HeaderExClient
import Lumina.Proofs.ComposeHeaderExValidate
import Lumina.Gen.C28
import Lumina.Spec.C28

namespace Lumina.Props.C28
open Lumina.Model.HeaderExClient Lumina.Proofs.HeaderExClient
open Lumina.Spec.C28

/-- `HASH_SIZE` (tendermint `SHA256_HASH_SIZE`) is 32 -/
theorem consts_eq : Lumina.Gen.C28.HASH_SIZE = 32 := by decide

/-- the spec's view of the entries lists the same validated headers -/
theorem validatedOf_eq (resps : List Resp) : validatedOf (resps.map toEntry) = validated resps := by
  unfold validatedOf validated
  rw [List.filterMap_map]
  rfl

/-- **`is_valid`**: a request is sent only if it names data, asks for at least one header, asks
    for exactly one when it is a head (origin 0) or a hash request, and its hash has 32 bytes -/
theorem isValid_iff (r : Request) :
    isValid 32 r = true ↔
      1 ≤ r.amount ∧
      match r.data with
      | .none => False
      | .origin n => n = 0 → r.amount = 1
      | .hash _ len => len = 32 ∧ r.amount = 1 := by
  unfold isValid
  by_cases h0 : r.amount = 0
  · simp [h0]
  · simp only [h0, ↓reduceIte]
    cases r.data with
    | none => simp
    | origin n =>
      by_cases hn : n = 0
      · simp [hn]; omega
      · simp [hn]; omega
    | hash h len => simp; omega

/-- the spec's request rules are exactly `is_valid` / `is_head_request` -/
theorem valid_spec (r : Request) :
    specValid (toKind r.data) (match r.data with | .hash _ l => l | _ => 0) r.amount
      (isValid 32 r) (isHeadRequest r) = true := by
  unfold specValid isValid isHeadRequest toKind
  by_cases h0 : r.amount = 0
  · cases r.data <;> simp [h0]
    split <;> simp [h0]
  · have h1 : 1 ≤ r.amount := by omega
    cases hd : r.data with
    | none => simp [h0]
    | origin n =>
      by_cases hn : n = 0
      · by_cases ha : r.amount = 1 <;> simp [h0, hn, h1, ha] <;> omega
      · simp [h0, hn, h1]
    | hash h len => by_cases ha : r.amount = 1 <;> simp [h0, h1, ha] <;> omega

/-- **accepts only**: whatever the client accepts is acceptable — a non-empty list of headers that
    were individually validated entries of the response; for a height request at most `amount` of
    them with heights exactly `start, start+1, …`; for a hash request a single header with that
    hash; for a head request a single header.  All requests, all response lists. -/
theorem accept_sound (req : Request) (resps : List Resp) (hs : List Hdr)
    (h : decodeAndVerify req resps = .ok hs) :
    acceptable (·.height) (·.hash) (toKind req.data) req.amount (resps.map toEntry) hs = true := by
  unfold decodeAndVerify decodeAndVerifyG at h
  by_cases he : resps.isEmpty
  · simp [he] at h
  · simp only [he, Bool.false_eq_true, ↓reduceIte] at h
    by_cases hl : resps.length > req.amount
    · simp [hl] at h
    · simp only [hl, ↓reduceIte] at h
      cases hd : decodeLoop resps [] with
      | error e => simp [hd] at h
      | ok headers =>
        simp only [hd] at h
        obtain ⟨more, hm1, hm2, hm3, hm4⟩ := decodeLoop_ok resps [] headers hd
        simp only [List.nil_append] at hm1
        subst hm1
        have hperm := sortByHeight_perm headers
        have hmem : ∀ x ∈ sortByHeight headers, (validatedOf (resps.map toEntry)).contains x = true := by
          intro x hx
          rw [validatedOf_eq]
          simpa using hm2 x (hperm.mem_iff.mp hx)
        have hlen : (sortByHeight headers).length ≤ req.amount := by
          rw [hperm.length_eq]; omega
        -- common part of `acceptable`
        have hcommon : ∀ l : List Hdr, l = sortByHeight headers → l ≠ [] →
            (!l.isEmpty && l.all (fun h => (validatedOf (resps.map toEntry)).contains h)) = true := by
          intro l hl hne
          subst hl
          simp only [Bool.and_eq_true, Bool.not_eq_true', List.isEmpty_eq_false_iff, ne_eq,
            List.all_eq_true]
          exact ⟨hne, hmem⟩
        cases hdata : req.data with
        | none => simp [hdata] at h
        | origin start =>
          simp only [hdata] at h
          by_cases hs0 : start = 0
          · simp only [hs0, ↓reduceIte] at h
            split at h
            · rename_i h1
              injection h with h
              subst h
              have hne : sortByHeight headers ≠ [] := by intro e; simp [e] at h1
              simp only [acceptable, toKind, hs0, ↓reduceIte, hcommon _ rfl hne, h1, decide_true,
                Bool.and_self]
            · cases h
          · simp only [hs0, ↓reduceIte] at h
            split at h
            · cases h
            · rename_i h0
              have hne : sortByHeight headers ≠ [] := by intro e; apply h0; simp [e]
              split at h
              · rename_i hmf
                injection h with h
                subst h
                have := heightsMatchFrom_sound _ start hmf
                simp only [acceptable, toKind, hs0, ↓reduceIte, hcommon _ rfl hne, hlen, decide_true,
                  this, beq_self_eq_true, Bool.and_self]
              · cases h
        | hash hh len =>
          simp only [hdata] at h
          split at h
          · rename_i x hsm
            split at h
            · rename_i hx
              injection h with h
              subst h
              have hc := hcommon [x] hsm.symm (by simp)
              simp only [acceptable, toKind, hsm, List.length_cons, List.length_nil, Nat.zero_add,
                decide_true, List.all_cons, hx, beq_self_eq_true, List.all_nil, Bool.and_self]
              simpa using hc
            · cases h
          · cases h

/-- **never a panic** — for any origin (including `u64::MAX`), any amount, any response list -/
theorem never_panics (req : Request) (resps : List Resp) : decodeAndVerify req resps ≠ .panic := by
  unfold decodeAndVerify decodeAndVerifyG
  split
  · simp
  · split
    · simp
    · split
      · simp
      · dsimp only
        split
        · split
          · split <;> simp
          · split
            · simp
            · simp only [↓reduceIte]; split <;> simp
        · split
          · split <;> simp
          · simp
        · simp

/-- typing fact: header heights are `u64` -/
def HeightsFit (resps : List Resp) : Prop :=
  ∀ r ∈ resps, ∀ h, r.decoded = some h → h.height ≤ U64_MAX

/-- **not by refusing everything**: a perfect response (every entry OK and validated, 1..amount
    entries, already of the requested shape) is accepted exactly as sent -/
theorem perfect_accepted (req : Request) (resps : List Resp) (hfit : HeightsFit resps)
    (hp : perfect (·.height) (·.hash) (toKind req.data) req.amount (resps.map toEntry) = true) :
    decodeAndVerify req resps = .ok (validated resps) := by
  simp only [perfect, Bool.and_eq_true, List.all_eq_true, decide_eq_true_eq, List.length_map] at hp
  obtain ⟨⟨hall, hacc⟩, hlen⟩ := hp
  have hall' : ∀ r ∈ resps, r.status = 1 ∧ r.decoded.isSome = true := by
    intro r hr
    have := hall (toEntry r) (List.mem_map_of_mem hr)
    simpa [toEntry] using this
  have hloop := decodeLoop_all resps hall' []
  simp only [List.nil_append] at hloop
  rw [validatedOf_eq] at hacc
  simp only [acceptable, Bool.and_eq_true, Bool.not_eq_true', List.isEmpty_eq_false_iff] at hacc
  obtain ⟨⟨hne, _⟩, hshape⟩ := hacc
  have hresne : resps.isEmpty = false := by
    cases resps with
    | nil => simp [validated] at hne
    | cons _ _ => rfl
  have hfitV : ∀ h ∈ validated resps, h.height ≤ U64_MAX := by
    intro h hh
    simp only [validated, List.mem_filterMap] at hh
    obtain ⟨r, hr, hrh⟩ := hh
    split at hrh
    · exact hfit r hr h hrh
    · cases hrh
  unfold decodeAndVerify decodeAndVerifyG
  simp only [hresne, Bool.false_eq_true, ↓reduceIte, hloop]
  have hnl : ¬ resps.length > req.amount := by omega
  simp only [hnl, ↓reduceIte]
  cases hdata : req.data with
  | none => simp [hdata, toKind] at hshape
  | origin start =>
    simp only [hdata, toKind] at hshape ⊢
    by_cases hs0 : start = 0
    · simp only [hs0, ↓reduceIte, decide_eq_true_eq] at hshape ⊢
      have hsort : sortByHeight (validated resps) = validated resps := by
        match hv : validated resps, hshape with
        | [x], _ => rfl
      simp [hsort, hshape]
    · simp only [hs0, ↓reduceIte, Bool.and_eq_true, decide_eq_true_eq, beq_iff_eq] at hshape ⊢
      have hsort : sortByHeight (validated resps) = validated resps :=
        sortByHeight_id _ (range'_heights_ascending _ start hshape.2)
      have hl0 : (validated resps).length ≠ 0 := by
        intro e; exact hne (List.length_eq_zero_iff.mp e)
      have hm := heightsMatchFrom_complete _ hfitV start hshape.2
      simp [hsort, hl0, hm]
  | hash hh len =>
    simp only [hdata, toKind, Bool.and_eq_true, decide_eq_true_eq, List.all_eq_true, beq_iff_eq] at hshape ⊢
    match hv : validated resps, hshape with
    | [x], hsh =>
      have : x.hash = hh := hsh.2 x (by simp)
      simp [sortByHeight, insertByHeight, this]

/-- VALUE-level statement (weaker than the property, see `client_spec_or_known` for the strict,
    response-level one): the outcome satisfies `specValue` — accepted ⇒ acceptable, never a panic,
    a perfect response is accepted as sent. -/
theorem client_spec_value_level (req : Request) (resps : List Resp) (hfit : HeightsFit resps) :
    specValue (·.height) (·.hash) (toKind req.data) req.amount (resps.map toEntry)
      (obsOf (decodeAndVerify req resps)) = true := by
  cases hout : decodeAndVerify req resps with
  | panic => exact absurd hout (never_panics req resps)
  | ok hs =>
    simp only [obsOf, specValue, Bool.and_eq_true, Bool.or_eq_true, Bool.not_eq_true', beq_iff_eq]
    refine ⟨accept_sound req resps hs hout, ?_⟩
    by_cases hp : perfect (·.height) (·.hash) (toKind req.data) req.amount (resps.map toEntry) = true
    · right
      have := perfect_accepted req resps hfit hp
      rw [hout] at this
      rw [validatedOf_eq]
      exact Outcome.ok.inj this
    · left; simpa using hp
  | err e =>
    simp only [obsOf, specValue, Bool.not_eq_true']
    by_cases hp : perfect (·.height) (·.hash) (toKind req.data) req.amount (resps.map toEntry) = true
    · have := perfect_accepted req resps hfit hp
      rw [hout] at this
      cases this
    · simpa using hp

/-! ### the strict, response-level reading ("anything else is an error") -/

theorem entries_all_good (resps : List Resp) :
    (resps.map toEntry).all good = resps.all goodB := by
  rw [List.all_map]; rfl

theorem entries_takeWhile (resps : List Resp) :
    (resps.map toEntry).takeWhile good = (resps.takeWhile goodB).map toEntry := by
  induction resps with
  | nil => rfl
  | cons r rs ih =>
    have : good (toEntry r) = goodB r := rfl
    simp only [List.map_cons, List.takeWhile_cons, this]
    split <;> simp [ih]

/-- a well-formed response is accepted, as its headers in ascending order -/
theorem wellFormed_accepted (req : Request) (resps : List Resp) (hfit : HeightsFit resps)
    (hw : wellFormed (·.height) (·.hash) (toKind req.data) req.amount (resps.map toEntry) = true) :
    decodeAndVerify req resps = .ok (sortByHeight (validated resps)) := by
  simp only [wellFormed, Bool.and_eq_true, decide_eq_true_eq, List.length_map, entries_all_good,
    validatedOf_eq, sortH_eq] at hw
  obtain ⟨⟨hall, hlen⟩, hacc⟩ := hw
  have hall' : ∀ r ∈ resps, r.status = 1 ∧ r.decoded.isSome = true := by
    intro r hr
    have := List.all_eq_true.mp hall r hr
    simpa [goodB] using this
  have hloop := decodeLoop_all resps hall' []
  simp only [List.nil_append] at hloop
  simp only [acceptable, Bool.and_eq_true, Bool.not_eq_true', List.isEmpty_eq_false_iff] at hacc
  obtain ⟨⟨hne, _⟩, hshape⟩ := hacc
  have hperm := sortByHeight_perm (validated resps)
  have hresne : resps.isEmpty = false := by
    cases resps with
    | nil => simp [validated, sortByHeight] at hne
    | cons _ _ => rfl
  have hfitS : ∀ h ∈ sortByHeight (validated resps), h.height ≤ U64_MAX := by
    intro h hh
    have hh' := hperm.mem_iff.mp hh
    simp only [validated, List.mem_filterMap] at hh'
    obtain ⟨r, hr, hrh⟩ := hh'
    split at hrh
    · exact hfit r hr h hrh
    · cases hrh
  unfold decodeAndVerify decodeAndVerifyG
  simp only [hresne, Bool.false_eq_true, ↓reduceIte, hloop]
  have hnl : ¬ resps.length > req.amount := by omega
  simp only [hnl, ↓reduceIte]
  cases hdata : req.data with
  | none => simp [hdata, toKind] at hshape
  | origin start =>
    simp only [hdata, toKind] at hshape ⊢
    by_cases hs0 : start = 0
    · simp only [hs0, ↓reduceIte, decide_eq_true_eq] at hshape ⊢
      simp [hshape]
    · simp only [hs0, ↓reduceIte, Bool.and_eq_true, decide_eq_true_eq, beq_iff_eq] at hshape ⊢
      have hl0 : (sortByHeight (validated resps)).length ≠ 0 := by
        intro e; exact hne (List.length_eq_zero_iff.mp e)
      have hm := heightsMatchFrom_complete _ hfitS start hshape.2
      simp [hl0, hm]
  | hash hh len =>
    simp only [hdata, toKind, Bool.and_eq_true, decide_eq_true_eq, List.all_eq_true, beq_iff_eq] at hshape ⊢
    match hv : sortByHeight (validated resps), hshape with
    | [x], hsh =>
      have : x.hash = hh := hsh.2 x (by simp)
      simp [this]

/-- on responses whose entries are ALL OK and validated the client meets the property strictly:
    accepted ⇔ well formed, and the accepted value is the ascending list of the headers sent -/
theorem allgood_strict (req : Request) (resps : List Resp) (hfit : HeightsFit resps)
    (hall : resps.all goodB = true) :
    specStrict (·.height) (·.hash) (toKind req.data) req.amount (resps.map toEntry)
      (obsOf (decodeAndVerify req resps)) = true := by
  cases hout : decodeAndVerify req resps with
  | panic => exact absurd hout (never_panics req resps)
  | ok hs =>
    obtain ⟨hlen, headers, hloop, hsort⟩ := ok_sorted req resps hs hout
    have hall' : ∀ r ∈ resps, r.status = 1 ∧ r.decoded.isSome = true := by
      intro r hr
      have := List.all_eq_true.mp hall r hr
      simpa [goodB] using this
    have hl := decodeLoop_all resps hall' []
    simp only [List.nil_append] at hl
    rw [hl] at hloop
    injection hloop with hloop
    subst hloop
    have hacc := accept_sound req resps hs hout
    simp only [obsOf, specStrict, wellFormed, Bool.and_eq_true, decide_eq_true_eq, List.length_map,
      entries_all_good, validatedOf_eq, sortH_eq, beq_iff_eq]
    rw [← hsort]
    exact ⟨⟨⟨hall, hlen⟩, hacc⟩, rfl⟩
  | err e =>
    simp only [obsOf, specStrict, Bool.not_eq_true']
    cases hw : wellFormed (·.height) (·.hash) (toKind req.data) req.amount (resps.map toEntry) with
    | false => rfl
    | true =>
      have := wellFormed_accepted req resps hfit hw
      rw [hout] at this
      cases this

/-- no bad entry after a good one: the response is all good, or its first entry is already bad -/
def NoBadTail (resps : List Resp) : Prop :=
  resps.takeWhile goodB = resps ∨ resps.takeWhile goodB = []

/-- FULL STATEMENT (false of lumina, see `client_spec_counterexample`):
    `∀ req resps, specStrict … (obsOf (decodeAndVerify req resps))`. -/
def FullStatement : Prop :=
  ∀ (req : Request) (resps : List Resp), HeightsFit resps →
    specStrict (·.height) (·.hash) (toKind req.data) req.amount (resps.map toEntry)
      (obsOf (decodeAndVerify req resps)) = true

/-- the strict property holds on every response without a bad entry after a good one
    (`_partial`: the complement is the known finding `C28/validated-prefix-accepted`) -/
theorem client_spec_partial (req : Request) (resps : List Resp) (hfit : HeightsFit resps)
    (hnb : NoBadTail resps) :
    specStrict (·.height) (·.hash) (toKind req.data) req.amount (resps.map toEntry)
      (obsOf (decodeAndVerify req resps)) = true := by
  rcases hnb with hall | hnone
  · apply allgood_strict req resps hfit
    rw [List.all_eq_true]
    intro r hr
    rw [← hall] at hr
    exact takeWhile_all_good resps r hr
  · -- empty, or first entry bad: an error, and the response is not well formed
    have hnw : wellFormed (·.height) (·.hash) (toKind req.data) req.amount (resps.map toEntry) = false := by
      cases resps with
      | nil => simp [wellFormed, acceptable, validatedOf, sortH]
      | cons r rs =>
        have hg : goodB r = false := by
          by_cases h : goodB r = true
          · simp [List.takeWhile_cons, h] at hnone
          · simpa using h
        have hallf : (r :: rs).all goodB = false := by simp [hg]
        simp only [wellFormed, entries_all_good, hallf, Bool.false_and]
    cases hout : decodeAndVerify req resps with
    | panic => exact absurd hout (never_panics req resps)
    | err e => simp [obsOf, specStrict, hnw]
    | ok hs =>
      exfalso
      obtain ⟨_, headers, hloop, _⟩ := ok_sorted req resps hs hout
      cases resps with
      | nil =>
        simp [decodeAndVerify, decodeAndVerifyG] at hout
      | cons r rs =>
        have hg : goodB r = false := by
          by_cases h : goodB r = true
          · simp [List.takeWhile_cons, h] at hnone
          · simpa using h
        obtain ⟨e, he⟩ := decodeLoop_first_bad r rs hg
        rw [he] at hloop
        cases hloop

/-- **C28 strictly, all requests and all response lists**: the outcome meets the property's
    response-level checker, OR the input is in the one known class `validatedPrefixClass`
    (≤ amount entries, a bad entry after good ones, the client accepts the good prefix — which on
    its own is a well-formed response — instead of an error).  The driver reports exactly this
    class under the fingerprint `C28/validated-prefix-accepted` (open finding); any other failure of
    `specStrict` is a new violation. -/
theorem client_spec_or_known (req : Request) (resps : List Resp) (hfit : HeightsFit resps) :
    specStrict (·.height) (·.hash) (toKind req.data) req.amount (resps.map toEntry)
      (obsOf (decodeAndVerify req resps)) = true ∨
    validatedPrefixClass (·.height) (·.hash) (toKind req.data) req.amount (resps.map toEntry)
      (obsOf (decodeAndVerify req resps)) = true := by
  by_cases hnb : NoBadTail resps
  · exact Or.inl (client_spec_partial req resps hfit hnb)
  · have hp : resps.takeWhile goodB ≠ [] := fun h => hnb (Or.inr h)
    have hne : resps.takeWhile goodB ≠ resps := fun h => hnb (Or.inl h)
    -- not all good, hence not well formed
    have hnotall : resps.all goodB = false := by
      cases h : resps.all goodB with
      | false => rfl
      | true =>
        exfalso; apply hne
        exact takeWhile_eq_self_of_all resps (List.all_eq_true.mp h)
    have hnw : wellFormed (·.height) (·.hash) (toKind req.data) req.amount (resps.map toEntry) = false := by
      simp only [wellFormed, entries_all_good, hnotall, Bool.false_and]
    by_cases hlen : resps.length ≤ req.amount
    · have hpre := decode_prefix true req resps hp hlen
      have hfitp : HeightsFit (resps.takeWhile goodB) := by
        intro r hr h hh
        exact hfit r (mem_of_mem_takeWhile resps r hr) h hh
      have hallp : (resps.takeWhile goodB).all goodB = true := by
        rw [List.all_eq_true]; exact takeWhile_all_good resps
      have hstrictp := allgood_strict req (resps.takeWhile goodB) hfitp hallp
      have hdv : decodeAndVerify req resps = decodeAndVerify req (resps.takeWhile goodB) := hpre
      rw [← hdv] at hstrictp
      cases hout : decodeAndVerify req resps with
      | panic => exact absurd hout (never_panics req resps)
      | err e => left; simp [obsOf, specStrict, hnw]
      | ok hs =>
        right
        rw [hout] at hstrictp
        simp only [obsOf, validatedPrefixClass, hnw, Bool.not_false, Bool.true_and, List.length_map,
          Bool.and_eq_true, decide_eq_true_eq, entries_takeWhile]
        exact ⟨hlen, hstrictp⟩
    · -- oversized: refused
      left
      have : decodeAndVerify req resps = .err .invalidResponse := by
        have hl : resps.length > req.amount := by omega
        cases resps with
        | nil => simp at hp
        | cons r rs =>
          unfold decodeAndVerify decodeAndVerifyG
          rw [if_neg (by simp), if_pos hl]
      simp [this, obsOf, specStrict, hnw]

/-- lumina does NOT meet the strict reading: `[h5, INVALID-body, h7]` for heights 5..7 is not a
    well-formed response, yet the client returns `Ok([h5])` (deliberate: partial responses are
    supported and the session re-requests the rest; unit test
    `request_range_responds_with_invalid_headaer_in_the_middle` pins it) -/
theorem client_spec_counterexample : ¬ FullStatement := by
  intro h
  have := h { data := .origin 5, amount := 3 }
    [⟨1, some ⟨5, [5], 5⟩⟩, ⟨1, none⟩, ⟨1, some ⟨7, [7], 7⟩⟩]
    (by
      intro r hr x hx
      simp only [List.mem_cons, List.mem_nil_iff, or_false] at hr
      rcases hr with rfl | rfl | rfl <;> simp at hx <;> subst hx <;> simp [U64_MAX])
  revert this
  decide

/-- the code BEFORE the `fix:` commit violated the property: a height request at `u64::MAX`
    answered with one validated header panicked (`start..start + 1` overflows) -/
theorem pre_fix_counterexample :
    decodeAndVerifyG false { data := .origin U64_MAX, amount := 1 }
      [{ status := 1, decoded := some { height := 5, hash := [0], id := 0 } }] = .panic := by
  decide

/-! ### non-vacuity -/

def h5 : Hdr := { height := 5, hash := [5], id := 5 }
def h6 : Hdr := { height := 6, hash := [6], id := 6 }
def h7 : Hdr := { height := 7, hash := [7], id := 7 }

/-- shuffled but complete: accepted in ascending order -/
example : decodeAndVerify { data := .origin 5, amount := 3 }
    [⟨1, some h7⟩, ⟨1, some h5⟩, ⟨1, some h6⟩] = .ok [h5, h6, h7] := by decide
/-- a gap: refused -/
example : decodeAndVerify { data := .origin 5, amount := 3 } [⟨1, some h5⟩, ⟨1, some h7⟩]
    = .err .invalidResponse := by decide
/-- an invalid entry after a valid one: the validated prefix is accepted -/
example : decodeAndVerify { data := .origin 5, amount := 3 } [⟨1, some h5⟩, ⟨1, none⟩, ⟨1, some h7⟩]
    = .ok [h5] := by decide
/-- a perfect response meets `perfect` and `HeightsFit` -/
example : perfect (·.height) (·.hash) (toKind (.origin 5)) 3
    ([⟨1, some h5⟩, ⟨1, some h6⟩].map toEntry) = true := by decide
example : HeightsFit [⟨1, some h5⟩, ⟨1, some h6⟩] := by
  intro r hr h hh
  simp only [List.mem_cons, List.mem_nil_iff, or_false] at hr
  rcases hr with rfl | rfl <;> simp at hh <;> subst hh <;> simp [h5, h6, U64_MAX]

/-! ### C28 × C01 (strengthening S7): the validation oracle instantiated with the model of `validate`

  `accept_sound` speaks about "validated" entries, where validated is the oracle bit
  `Resp.decoded`.  With the bit computed from the C01 model (`respOf`: the body decoded to `eh` and
  `validate eh = Ok`; lemmas in `Proofs/ComposeHeaderExValidate.lean`) every header the client
  returns — for a height, a hash or a head request alike — is the abstraction of a concrete header
  that arrived with status OK and satisfies every acceptance condition of `ExtendedHeader::validate`
  as characterised by `Props.C01.validate_ok_iff`. -/

open Lumina.Proofs.ComposeHeaderExValidate
open Lumina.Model.HeaderVerify (ExtHeader Prims Consts validate headerValidateBasic commitValidateBasic
  valSetValidateBasicE dahValidateBasic)

/-- every accepted header comes from a response with status OK whose body passes `validate` -/
theorem accepted_headers_pass_validate {S : Type} (P : Prims S) (c : Consts) (A : Abs S) (req : Request)
    (ws : List (WireResp S)) (hs : List Hdr)
    (h : decodeAndVerify req (ws.map (respOf P c A)) = .ok hs) :
    ∀ x ∈ hs, ∃ w ∈ ws, ∃ eh, w.status = 1 ∧ w.body = some eh ∧ A.f eh = x ∧ validate P c eh = .ok := by
  intro x hx
  have hacc := accept_sound req _ hs h
  simp only [acceptable, Bool.and_eq_true, List.all_eq_true] at hacc
  have hmem := hacc.1.2 x hx
  rw [validatedOf_eq] at hmem
  exact validated_from_valid P c A ws x (by simpa using hmem)

/-- **every header the client returns for a height / hash / head request satisfies the C01
    acceptance conditions**: header, commit and validator set are well formed, the header names
    exactly this validator set (`validators_hash`) and this DAH (`data_hash`), the commit is for
    exactly this header (height and block hash), validators holding more than 2/3 of the power
    signed it (`lightOf = Ok`), and the DAH has an admissible width for the header's app version -/
theorem accepted_headers_meet_c01_conditions {S : Type} (P : Prims S) (c : Consts) (A : Abs S)
    (req : Request) (ws : List (WireResp S)) (hs : List Hdr)
    (h : decodeAndVerify req (ws.map (respOf P c A)) = .ok hs) :
    ∀ x ∈ hs, ∃ eh, A.f eh = x ∧ eh.header.height = x.height ∧
      headerValidateBasic c eh.header = none ∧ commitValidateBasic c eh.commit = none ∧
      valSetValidateBasicE eh.valset = none ∧
      P.hValset eh.valset.hashed = eh.header.validatorsHash ∧
      P.hDah (eh.dah.rows ++ eh.dah.cols) = eh.header.dataHash.getD none ∧
      eh.commit.height = eh.header.height ∧
      eh.commit.blockId.hash = P.hHeader eh.header.canon ∧
      Lumina.Props.C01.lightOf P c eh = .ok ∧
      ∃ maxW, c.maxExtWidth? eh.header.versionApp = some maxW ∧
        dahValidateBasic c.minExtWidth maxW eh.dah = none := by
  intro x hx
  obtain ⟨w, _, eh, _, _, hf, hv⟩ := accepted_headers_pass_validate P c A req ws hs h x hx
  obtain ⟨h1, h2, h3, h4, h5, h6, h7, h8, h9⟩ := (Lumina.Props.C01.validate_ok_iff P c eh).mp hv
  exact ⟨eh, hf, by rw [← hf, A.height_eq], h1, h2, h3, h4, h5, h6, h7, h8, h9⟩

/-- for a HEIGHT request the `i`-th returned header is the abstraction of a validated header of
    height exactly `start + i` -/
theorem height_request_returns_validated_headers_of_requested_heights {S : Type} (P : Prims S)
    (c : Consts) (A : Abs S) (start amount : Nat) (hstart : start ≠ 0) (ws : List (WireResp S))
    (hs : List Hdr)
    (h : decodeAndVerify { data := .origin start, amount := amount } (ws.map (respOf P c A)) = .ok hs)
    (i : Nat) (hi : i < hs.length) :
    ∃ eh, A.f eh = hs[i] ∧ eh.header.height = start + i ∧ validate P c eh = .ok := by
  obtain ⟨w, _, eh, _, _, hf, hv⟩ :=
    accepted_headers_pass_validate P c A _ ws hs h hs[i] (List.getElem_mem hi)
  have hacc := accept_sound _ _ hs h
  simp only [acceptable, toKind, hstart, ↓reduceIte, Bool.and_eq_true, beq_iff_eq] at hacc
  have hh : (hs.map (·.height))[i]'(by simpa using hi) = start + i := by
    have := hacc.2.2
    simp only [this, List.getElem_range']
    omega
  refine ⟨eh, hf, ?_, hv⟩
  rw [← A.height_eq, hf]
  simpa using hh

/-! non-vacuity with C01's witness header `wEH` (accepted by `validate`) and a tampered copy -/

def exAbs : Abs Lumina.Props.C01.WS where
  f := fun eh => { height := eh.header.height, hash := [eh.commit.round], id := eh.commit.sigs.length }
  height_eq := fun _ => rfl

/-- a head request answered with the witness header: accepted … -/
example : decodeAndVerify { data := .origin 0, amount := 1 }
    ([⟨1, some Lumina.Props.C01.wEH⟩].map (respOf Lumina.Props.C01.wP Lumina.Model.HeaderVerify.sourceConsts exAbs))
      = .ok [exAbs.f Lumina.Props.C01.wEH] := by decide

/-- … the same header with a foreign `validators_hash` does not pass `validate`: refused -/
example : decodeAndVerify { data := .origin 0, amount := 1 }
    ([⟨1, some { Lumina.Props.C01.wEH with
        header := { Lumina.Props.C01.wEH.header with validatorsHash := some [7] } }⟩].map
      (respOf Lumina.Props.C01.wP Lumina.Model.HeaderVerify.sourceConsts exAbs))
      = .err .invalidResponse := by decide

end Lumina.Props.C28

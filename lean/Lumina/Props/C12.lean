/-
  C12 — Blob commitments follow the share-commitment rules.   PROPERTY THEOREMS ONLY.

  ADR-013 is stated independently in `Spec/C12.lean` (subtree width, merkle mountain range, NMT subtree
  roots of single-namespace leaf sets, RFC-6962 merkle root over them).  The theorems say that the
  model of lumina's code (its doubling loops, `f64`-free ⌈√n⌉, nmt-rs `compute_root`, tendermint
  `simple_hash_from_byte_vectors`) computes exactly that, for ALL share counts below 2^63 and all
  blobs in scope, with ARBITRARY hash functions (no collision-freeness needed: these are equalities of
  computations), and that validation accepts exactly the blobs whose stored commitment is that value.
-/
import Lumina.Proofs.C12

namespace Lumina.Props.C12
open Lumina.Util Lumina.Model.Commitment Lumina.Gen.C12 Lumina.Proofs.C12
open Lumina.Spec.C12

/-- the subtree-root threshold is 64 for every app version the code knows (1..7) -/
theorem threshold_eq : ∀ app ∈ [1, 2, 3, 4, 5, 6, 7], subtreeRootThreshold app = some 64 := by
  decide

/-- `round_up_to_power_of_2` / `round_down_to_power_of_2` are the next / previous power of two -/
theorem rounding_spec (x : Nat) (hx : x ≤ 2 ^ 64) :
    roundUpToPowerOf2 x = nextPow2 x ∧ (1 ≤ x → roundDownToPowerOf2 x = prevPow2 x) :=
  ⟨roundUp_eq x hx, fun h1 => roundDown_eq x h1 hx⟩

/-- **subtree width** = min (nextPow2 ⌈n / threshold⌉) (nextPow2 ⌈√n⌉), and it is a power of two -/
theorem subtreeWidth_spec (n th : Nat) (hn : n < 2 ^ 63) :
    Lumina.Model.Commitment.subtreeWidth n th = Lumina.Spec.C12.subtreeWidth n th ∧
    ∃ k, Lumina.Model.Commitment.subtreeWidth n th = 2 ^ k := by
  refine ⟨subtreeWidth_eq n th hn, ?_⟩
  rw [subtreeWidth_eq n th hn]
  exact subtreeWidth_pow2 n th

/-- **merkle mountain range**: for every total `n` (any u64) and every power-of-two width, the sizes
    the code produces are the greedy decomposition of the spec and satisfy the rule: they add up to
    `n`, each is a power of two of at most `w`, they never increase and strictly decrease below `w`.
    (Termination of the Rust loop is the fuel bound: every round removes at least one.) -/
theorem mmr_spec (n w k : Nat) (hn : n ≤ 2 ^ 64) (hw : w = 2 ^ k) :
    merkleMountainRangeSizes n w = mmrSizes w n n ∧ specSizes n w (merkleMountainRangeSizes n w) = true := by
  have hw1 : 1 ≤ w := by rw [hw]; exact pow_pos' k
  refine ⟨mmr_eq_spec n w hn, ?_⟩
  rw [mmr_eq_spec n w hn]
  simp only [specSizes, Bool.and_eq_true, beq_iff_eq]
  exact ⟨⟨mmr_sum w hw1 n n (Nat.le_refl _), mmr_all w k hw n n⟩, mmr_chain w hw1 n n⟩

/-- **the commitment of a share list** equals the merkle root over the NMT subtree roots of the
    mountain-range partition — all share lists shorter than 2^63, all app versions, any hashes -/
theorem commitment_spec {D : Type} (H : Lumina.Model.Merkle.HashFns D) (h : Lumina.Model.Nmt.HashFn)
    (ns : Bytes) (shares : List Bytes) (app : Nat) (happ : app ∈ [1, 2, 3, 4, 5, 6, 7])
    (hlen : shares.length < 2 ^ 63) :
    fromShares H h ns shares app = .ok (commitment H h ns shares 64) :=
  fromShares_eq H h ns shares app happ hlen

/-- **the commitment of a blob** in scope is ADR-013's value over the blob's shares -/
theorem blob_commitment_spec {D : Type} (H : Lumina.Model.Merkle.HashFns D) (h : Lumina.Model.Nmt.HashFn)
    (ns data : Bytes) (sg : Option Bytes) (app : Nat) (happ : app ∈ [1, 2, 3, 4, 5, 6, 7])
    (hs : Lumina.Spec.C11.inScope ns data sg app = true) :
    fromBlob H h ns data (if sg.isSome then 1 else 0) sg app = .ok (blobCommitment H h ns data sg 64) := by
  obtain ⟨h1, _, h3, h4, h5⟩ := Lumina.Proofs.C11.inScope_unpack ns data sg app hs
  have hsplit := Lumina.Proofs.C11.split_eq ns data sg h1 h3 h4 (fun s hs => (h5 s hs).1)
  have hval : Lumina.Model.Blob.validateBlob (if sg.isSome then 1 else 0) sg.isSome app = .ok () := by
    cases sg with
    | none => simp [Lumina.Model.Blob.validateBlob, Lumina.Gen.C11.SHARE_VERSION_ZERO, Lumina.Gen.C11.SHARE_VERSION_ONE]
    | some s =>
      have := (h5 s rfl).2
      have h' : ¬ app < 3 := by omega
      simp [Lumina.Model.Blob.validateBlob, Lumina.Gen.C11.SHARE_VERSION_ZERO, Lumina.Gen.C11.SHARE_VERSION_ONE, h']
  unfold fromBlob blobCommitment
  simp only [hval, hsplit, List.map_map]
  have hid : ((fun (x : Lumina.Model.Blob.Share) => x.data) ∘ fun d => (⟨d, false⟩ : Lumina.Model.Blob.Share)) = id := by
    funext d; rfl
  rw [hid, List.map_id]
  apply fromShares_eq H h ns _ app happ
  rw [Lumina.Proofs.C11.expected_length]
  simp only [Lumina.Spec.C11.sharesNeeded]
  split <;> omega

/-- **blob validation accepts exactly when the stored commitment equals that value** — every blob in
    scope, every stored commitment -/
theorem validate_iff {D : Type} [DecidableEq D] (H : Lumina.Model.Merkle.HashFns D) (h : Lumina.Model.Nmt.HashFn)
    (ns data : Bytes) (sg : Option Bytes) (app : Nat) (stored : D) (happ : app ∈ [1, 2, 3, 4, 5, 6, 7])
    (hs : Lumina.Spec.C11.inScope ns data sg app = true) :
    specValidate H h ns data sg 64 stored
      (match validate H h ⟨ns, data, if sg.isSome then 1 else 0, sg⟩ stored app with
       | .ok => .ok | .mismatch => .mismatch | .err _ => .err) = true := by
  unfold validate
  simp only [blob_commitment_spec H h ns data sg app happ hs]
  by_cases he : stored = blobCommitment H h ns data sg 64
  · simp [he, specValidate]
  · simp [he, specValidate]

/-- non-vacuity: a power-of-two width and an in-range total; a blob in scope -/
example : (64 : Nat) = 2 ^ 6 ∧ (5000 : Nat) ≤ 2 ^ 64 := by decide
def exNs : Bytes := List.replicate 19 0 ++ List.replicate 10 7
set_option maxRecDepth 8000 in
example : Lumina.Spec.C11.inScope exNs [1, 2, 3] none 1 = true ∧ (1 : Nat) ∈ [1, 2, 3, 4, 5, 6, 7] := by decide

end Lumina.Props.C12

/-
  C12 — Blob commitments follow the share-commitment rules.   PROPERTY THEOREMS ONLY.
-/
import Lumina.Model.Commitment
import Lumina.Spec.C12

namespace Lumina.Props.C12
open Lumina.Util Lumina.Model.Commitment Lumina.Gen.C12

/-- the subtree-root threshold is 64 for every app version the code knows (1..7) -/
theorem threshold_eq : ∀ app ∈ [1, 2, 3, 4, 5, 6, 7], subtreeRootThreshold app = some 64 := by
  decide

end Lumina.Props.C12

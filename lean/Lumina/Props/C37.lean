/-
  C37 — Header subscriptions deliver a gap-free increasing stream.   PROPERTY THEOREMS ONLY.

  Model: `Lumina/Model/Subs.lean` (`BroadcastingStore`: `init_broadcast`, `announce_insert` with the
  drain loop and `swap_remove`, `send_range`); `sentLog` is everything handed to the broadcast channel,
  `stored` the heights the inner store holds.  Spec: `Lumina/Spec/C37.lean`.
  Every theorem quantifies over ALL histories `evs : List Event` (any number and order of range
  insertions, store rejections, historical inserts and re-initialisations).

  Hypotheses (explicit, never axioms):
  * `StoreSound e` — a range the inner store ACCEPTED is a run of consecutive heights (the store verifies it);
  * `AdmRun init evs` — in addition, in the state each call is made in: pre-existing store content is loaded
    before the first head; a (re-)connection head is at least every stored height (it is the store head
    after `try_init`); `announce_insert` is called after the first head with a verified contiguous range of
    heights the store does not hold yet (the syncer fetches only missing heights).
-/
import Lumina.Proofs.Subs
import Lumina.Gen.C37

namespace Lumina.Props.C37
open Lumina.Model.Subs Lumina.Proofs.Subs Lumina.Spec.C37

/-- the broadcast channel capacity the model's "receiver keeps up" idealisation refers to -/
theorem channel_capacity_eq : Lumina.Gen.C37.HEADER_BROADCAST_CHANNEL_CAPACITY = 16 := by decide

/-- the ghost log IS the concatenation of what every call handed to the channel -/
theorem log_is_outputs (evs : List Event) :
    (run init evs).sentLog = (outputs init evs).flatMap (·.sent) := by
  simpa [init] using sentLog_outputs evs init

/-- nothing is broadcast before the syncer learns a head -/
theorem nothing_before_head (evs : List Event) (hs : ∀ e ∈ evs, StoreSound e)
    (hh : (run init evs).firstHead = none) : (run init evs).sentLog = [] := by
  rcases inv1_run evs hs with ⟨_, _, _, d⟩ | ⟨L, h0, _, b, _⟩
  · exact d
  · rw [b] at hh; cases hh

/-- **strictly increasing, consecutive heights starting at the head, each at most once**: after any
    history the stream is exactly `head, head+1, …, last_sent_height` -/
theorem stream_gap_free (evs : List Event) (hs : ∀ e ∈ evs, StoreSound e) (h0 : Nat)
    (hh : (run init evs).firstHead = some h0) :
    specStream h0 (run init evs).sentLog = true := by
  rcases inv1_run evs hs with ⟨_, b, _, _⟩ | ⟨L, h0', _, b, c⟩
  · rw [b] at hh; cases hh
  · rw [b] at hh; cases hh
    simp [specStream, c.log]

/-- the stream ends at `last_sent_height` -/
theorem stream_ends_at_last_sent (evs : List Event) (hs : ∀ e ∈ evs, StoreSound e) (h0 L : Nat)
    (hh : (run init evs).firstHead = some h0) (hL : (run init evs).lastSent = some L) :
    h0 ≤ L ∧ (run init evs).sentLog = List.range' h0 (L + 1 - h0) := by
  rcases inv1_run evs hs with ⟨a, _, _, _⟩ | ⟨L', h0', a, b, c⟩
  · rw [a] at hL; cases hL
  · rw [b] at hh; cases hh
    rw [a] at hL; cases hL
    exact ⟨c.le, c.log⟩

/-- **only after it was stored**: whatever a call broadcasts is in the store when the call returns
    (no hypotheses: any history, any event) -/
theorem sent_only_after_stored (evs : List Event) (e : Event) :
    specStored (step (run init evs) e).1.stored (step (run init evs) e).2.sent = true := by
  have := (jinv_step (run init evs) e (jinv_run evs)).2
  simpa [specStored] using this

/-- (`_partial`: holds under the environment contract `AdmRun`, see the file header; without it — e.g. a
    range inserted into the store behind the tracker's back — nothing can be promised.)
    **every height up to H once all heights up to H above the initial head have been inserted**, in
    the property's own quantifier form: for every `H`, if every height in `(head, H]` is stored then
    `H ≤ last_sent_height` — whatever the insertion order and the re-initialisations -/
theorem complete_forall_partial (evs : List Event) (ha : AdmRun init evs) (h0 L : Nat)
    (hh : (run init evs).firstHead = some h0) (hL : (run init evs).lastSent = some L) (H : Nat)
    (hall : ∀ h, h0 < h → h ≤ H → h ∈ (run init evs).stored) : H ≤ L :=
  complete_of_inv (inv1_run_adm evs init inv1_init ha) (inv3_run evs init inv3_init ha) L h0 hL hh H hall

/-- the same as the decidable checker -/
theorem complete_partial (evs : List Event) (ha : AdmRun init evs) (h0 : Nat)
    (hh : (run init evs).firstHead = some h0) :
    specComplete h0 (run init evs).stored (run init evs).sentLog = true := by
  have h1 := inv1_run_adm evs init inv1_init ha
  rcases h1 with ⟨_, b, _, _⟩ | ⟨L, h0', a, b, c⟩
  · rw [b] at hh; cases hh
  · rw [b] at hh; cases hh
    have hle := complete_forall_partial evs ha h0 L b a (reach (run init evs).stored h0 (run init evs).stored.length)
      (fun h h1 h2 => reach_spec _ _ _ h h1 h2)
    have := c.le
    simp only [specComplete, c.log, List.length_range', decide_eq_true_eq]
    omega

/-- under the admissible environment neither the `debug_assert!` nor any `expect` of
    `announce_insert` fires -/
theorem never_panics_partial (evs : List Event) (e : Event) (ha : AdmRun init (evs ++ [e])) :
    (step (run init evs) e).2.panic = false := by
  obtain ⟨h1, h2⟩ := admRun_append evs init e ha
  exact (inv3_step _ e (inv3_run evs init inv3_init h1) h2).2

/-! ### non-vacuity: an out-of-order history with a re-connection, admissible, with a non-trivial stream -/

def sampleHistory : List Event :=
  [.storeInsert [3, 4, 5], .initBroadcast 10, .announceInsert [14, 15] true, .announceInsert [12] false,
   .initBroadcast 17, .announceInsert [7, 8] true, .announceInsert [11, 12, 13] true,
   .initBroadcast 17, .announceInsert [16] true, .initBroadcast 18]

example : AdmRun init sampleHistory := by
  refine ⟨rfl, ?_, ⟨by decide, Or.inr ⟨⟨14, 1, rfl⟩, by decide⟩⟩, ⟨by decide, Or.inr ⟨⟨12, 0, rfl⟩, by decide⟩⟩,
    ?_, ⟨by decide, Or.inr ⟨⟨7, 1, rfl⟩, by decide⟩⟩, ⟨by decide, Or.inr ⟨⟨11, 2, rfl⟩, by decide⟩⟩,
    ?_, ⟨by decide, Or.inr ⟨⟨16, 0, rfl⟩, by decide⟩⟩, ?_, trivial⟩ <;> (simp only [Adm]; decide)

example : (run init sampleHistory).sentLog = [10, 11, 12, 13, 14, 15, 16, 17, 18] ∧
    (run init sampleHistory).lastSent = some 18 ∧ (run init sampleHistory).pending = [[17]] := by decide

/-- before the last two events the stream is held back at 15 because 16 is missing -/
example : (run init (sampleHistory.take 8)).sentLog = [10, 11, 12, 13, 14, 15] ∧
    (run init (sampleHistory.take 8)).pending = [[17], [17]] := by decide

/-! ### the defect that was repaired (lumina commit "fix: forward a re-connection head that directly
    follows the last sent height"): before the fix `init_broadcast` parked EVERY re-connection head -/

/-- `init_broadcast` as it was before the fix -/
def initBroadcastBeforeFix (s : State) (head : Nat) : State × Out :=
  match s.lastSent with
  | none => initBroadcast s head
  | some _ => ({ s with pending := s.pending ++ [[head]], stored := addStored s.stored [head] }, {})

/-- first head 10, then a re-connection whose head is 11: every height in (10, 11] is stored, yet the
    stream stays at 10 (until some later non-empty `announce_insert`) -/
theorem before_fix_counterexample :
    let s1 := (initBroadcast init 10).1
    let s2 := (initBroadcastBeforeFix s1 11).1
    specComplete 10 s2.stored s2.sentLog = false ∧ specComplete 10 (initBroadcast s1 11).1.stored (initBroadcast s1 11).1.sentLog = true := by
  decide

end Lumina.Props.C37

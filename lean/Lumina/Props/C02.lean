/-
  C02 — Header chain verification accepts exactly linked successors.   PROPERTY THEOREMS ONLY.

  Model: Lumina/Model/HeaderVerify.lean (`verify`, `verifyAdjacent`, `verifyRange`,
  `verifyAdjacentRange`, `verifiedTryFrom`) — run against the real `ExtendedHeader::verify*`
  and `VerifiedExtendedHeaders::try_from` by the correspondence check.
  Spec:  Lumina/Spec/C02.lean (`linkOK`, `chainOK`, `spec…`).

  Every theorem holds for ALL headers, ALL lists (any length), ALL clock values `now` and ALL
  signature oracles.  The only hypothesis (where the 1/3 tally is involved) is what tendermint
  establishes for a decoded validator set: stored total = sum of powers.
-/
import Lumina.Props.C03
import Lumina.Model.HeaderVerifyBridge
import Lumina.Gen.C02

namespace Lumina.Props.C02
open Lumina.Model.Commit Lumina.Model.HeaderVerify Lumina.Spec.C02 Lumina.Gen.C02

/-- the constants of the source are the numbers the property states: ten seconds, one third -/
theorem consts_eq :
    VERIFY_CLOCK_DRIFT = 10 * 1000000000 ∧ DEFAULT_TRUST_NUM = 1 ∧ DEFAULT_TRUST_DEN = 3 := by decide

/-- what the driver runs -/
def verifyM (ok : Oracle) (now : Int) (tr un : Hdr) : VOut :=
  verify ok VERIFY_CLOCK_DRIFT DEFAULT_TRUST_NUM DEFAULT_TRUST_DEN now tr un
def verifyAdjacentM (ok : Oracle) (now : Int) (tr un : Hdr) : VOut :=
  verifyAdjacent ok VERIFY_CLOCK_DRIFT DEFAULT_TRUST_NUM DEFAULT_TRUST_DEN now tr un
def verifyRangeFromM (oks : Nat → Oracle) (now : Int) (i : Nat) (tr : Hdr) (l : List Hdr) : VOut :=
  verifyRangeFrom oks VERIFY_CLOCK_DRIFT DEFAULT_TRUST_NUM DEFAULT_TRUST_DEN now i tr l
def verifyRangeM (oks : Nat → Oracle) (now : Int) (tr : Hdr) (l : List Hdr) : VOut :=
  verifyRange oks VERIFY_CLOCK_DRIFT DEFAULT_TRUST_NUM DEFAULT_TRUST_DEN now tr l
def verifyAdjacentRangeM (oks : Nat → Oracle) (now : Int) (tr : Hdr) (l : List Hdr) : VOut :=
  verifyAdjacentRange oks VERIFY_CLOCK_DRIFT DEFAULT_TRUST_NUM DEFAULT_TRUST_DEN now tr l
def verifiedTryFromM (oks : Nat → Oracle) (now : Int) (l : List Hdr) : VOut :=
  verifiedTryFrom oks VERIFY_CLOCK_DRIFT DEFAULT_TRUST_NUM DEFAULT_TRUST_DEN now l

theorem ofCommit_ok (o : Outcome) : ofCommit o = .ok ↔ o = .ok := by
  cases o <;> simp [ofCommit]

theorem verify_ok_iff_gen (ok : Oracle) (drift tn td : Nat) (now : Int) (tr un : Hdr) :
    verify ok drift tn td now tr un = .ok ↔
      (un.height > tr.height ∧ un.chainId = tr.chainId ∧ un.time > tr.time ∧
       un.time < now + (drift : Int) ∧
       (if tr.height + 1 = un.height then
          un.validatorsHash = tr.nextValidatorsHash ∧ un.lastHeaderHash = tr.hash
        else verifyCommitLightTrusting ok tn td tr.valset un.sigs = .ok)) := by
  unfold verify
  by_cases h1 : un.height ≤ tr.height
  case pos => simp [h1]; omega
  by_cases h2 : un.chainId = tr.chainId
  case neg => simp [h1, h2]
  by_cases h3 : un.time > tr.time
  case neg => simp [h1, h2, h3]
  by_cases h4 : un.time < now + (drift : Int)
  case neg => simp [h1, h2, h3, h4]
  have h1' : un.height > tr.height := by omega
  by_cases h5 : tr.height + 1 = un.height
  · by_cases h6 : un.validatorsHash = tr.nextValidatorsHash
    · by_cases h7 : un.lastHeaderHash = tr.hash
      · simp [h1, h2, h3, h4, h5, h6, h7, h1']
      · simp [h1, h2, h3, h4, h5, h6, h7, h1']
    · simp [h1, h2, h3, h4, h5, h6, h1']
  · simp [h1, h2, h3, h4, h5, h1', ofCommit_ok]

/-- **exact characterisation of `verify`** (model level): it succeeds iff the untrusted header
    has a greater height, the same chain id, a strictly later time that is less than ten seconds
    ahead of the clock, and — adjacent: carries the trusted header's next-validators hash and
    names the trusted header's hash as its parent; non-adjacent: trusting commit verification
    at trust level 1/3 against the TRUSTED validator set succeeds -/
theorem verify_ok_iff (ok : Oracle) (now : Int) (tr un : Hdr) :
    verifyM ok now tr un = .ok ↔
      (un.height > tr.height ∧ un.chainId = tr.chainId ∧ un.time > tr.time ∧
       un.time < now + 10000000000 ∧
       (if tr.height + 1 = un.height then
          un.validatorsHash = tr.nextValidatorsHash ∧ un.lastHeaderHash = tr.hash
        else verifyCommitLightTrusting ok 1 3 tr.valset un.sigs = .ok)) :=
  verify_ok_iff_gen ok 10000000000 1 3 now tr un

theorem trustedPower_eq (ok : Oracle) (tr un : Hdr) :
    trustedPower ok (toH tr) (toH un) =
      Lumina.Spec.C03.validPowerTrusting (specInput tr.valset 0 0 un.sigs) ok := rfl

/-- **Verifying an untrusted header against a trusted one succeeds only if** it has a greater
    height, the same chain id, a strictly later time less than ten seconds ahead of the local
    clock, and, when adjacent, names the trusted header as its parent and the trusted header's
    next validator set as its own; **a non-adjacent header instead needs valid commit signatures
    from trusted validators holding more than one third of the trusted power.** -/
theorem verify_spec (ok : Oracle) (now : Int) (tr un : Hdr)
    (hT : tr.valset.total = sumPowers tr.valset.vals) :
    specVerify ok now (toH tr) (toH un) (decide (verifyM ok now tr un = .ok)) = true := by
  unfold specVerify
  by_cases hacc : verifyM ok now tr un = .ok
  · simp only [hacc, decide_true, Bool.not_true, Bool.false_or]
    obtain ⟨h1, h2, h3, h4, h5⟩ := (verify_ok_iff ok now tr un).mp hacc
    unfold linkOK
    by_cases hadj : tr.height + 1 = un.height
    · rw [if_pos hadj] at h5
      have : (toH un).height = (toH tr).height + 1 := by simp [toH]; omega
      simp [toH, h2, h3, h4, h5.1, h5.2, hadj.symm]
    · rw [if_neg hadj] at h5
      have hs := Lumina.Props.C03.trusting_sound_level ok 1 3 tr.valset un.sigs h5
      have hne : ¬ ((toH un).height = (toH tr).height + 1) := by simp [toH]; omega
      rw [if_neg hne, trustedPower_eq]
      have htot : (toH tr).powers.sum = tr.valset.total := by
        rw [hT]; simp [toH, sumPowers]
      rw [htot]
      simp [toH, h1, h2, h3, h4]
      omega
  · simp [hacc]

/-- for ADJACENT headers the conditions are sufficient too: accepted exactly when linked -/
theorem verify_adjacent_exact (ok : Oracle) (now : Int) (tr un : Hdr) :
    specVerifyAdjacentExact ok now (toH tr) (toH un) (decide (verifyM ok now tr un = .ok)) = true := by
  unfold specVerifyAdjacentExact
  by_cases hadj : un.height = tr.height + 1
  · have hiff := verify_ok_iff ok now tr un
    rw [if_pos hadj.symm] at hiff
    have hh : (toH un).height = (toH tr).height + 1 := by simpa [toH] using hadj
    simp only [hh, decide_true, Bool.not_true, Bool.false_or, beq_iff_eq]
    unfold linkOK
    rw [if_pos hh]
    by_cases hacc : verifyM ok now tr un = .ok
    · obtain ⟨h1, h2, h3, h4, h5, h6⟩ := hiff.mp hacc
      simp [toH, hacc, h1, h2, h3, h4, h5, h6]
    · have : ¬ (un.height > tr.height ∧ un.chainId = tr.chainId ∧ un.time > tr.time ∧
          un.time < now + 10000000000 ∧ un.validatorsHash = tr.nextValidatorsHash ∧
          un.lastHeaderHash = tr.hash) := fun h => hacc (hiff.mpr h)
      simp only [hacc, decide_false, toH]
      symm
      rw [Bool.eq_false_iff]
      intro hl
      apply this
      simp only [Bool.and_eq_true, beq_iff_eq] at hl
      obtain ⟨⟨⟨⟨a, b⟩, c⟩, d⟩, e, f⟩ := hl
      exact ⟨of_decide_eq_true a, b, of_decide_eq_true c, of_decide_eq_true d, f, e⟩
  · have : ¬ ((toH un).height = (toH tr).height + 1) := by simpa [toH] using hadj
    simp [this]

/-- `verify_adjacent` = adjacency + `verify` -/
theorem verifyAdjacent_ok_iff (ok : Oracle) (now : Int) (tr un : Hdr) :
    verifyAdjacentM ok now tr un = .ok ↔ tr.height + 1 = un.height ∧ verifyM ok now tr un = .ok := by
  unfold verifyAdjacentM verifyAdjacent verifyM
  by_cases h : tr.height + 1 = un.height <;> simp [h]

/-- **`verify_adjacent` accepts exactly the adjacent linked successors** -/
theorem verifyAdjacent_exact (ok : Oracle) (now : Int) (tr un : Hdr) :
    specVerifyAdjacentOp ok now (toH tr) (toH un) (decide (verifyAdjacentM ok now tr un = .ok)) = true := by
  unfold specVerifyAdjacentOp
  rw [beq_iff_eq]
  have hiff := verifyAdjacent_ok_iff ok now tr un
  have hex := verify_adjacent_exact ok now tr un
  unfold specVerifyAdjacentExact at hex
  by_cases hadj : tr.height + 1 = un.height
  · have hh : (toH un).height = (toH tr).height + 1 := by simp [toH]; omega
    simp only [hh, decide_true, Bool.not_true, Bool.false_or, beq_iff_eq, Bool.true_and] at hex ⊢
    rw [← hex]
    by_cases hv : verifyM ok now tr un = .ok
    · simp [hv, hiff.mpr ⟨hadj, hv⟩]
    · have : ¬ verifyAdjacentM ok now tr un = .ok := fun h => hv (hiff.mp h).2
      simp [hv, this]
  · have hh : ¬ ((toH un).height = (toH tr).height + 1) := by simp [toH]; omega
    have : ¬ verifyAdjacentM ok now tr un = .ok := fun h => hadj (hiff.mp h).1
    simp [hh, this]

/-- the adjacency-enforcing part of the range loop (every step but the first) is EXACTLY the
    spec's chain condition, for lists of any length -/
theorem verifyRangeFrom_iff (oks : Nat → Oracle) (now : Int) (l : List Hdr) :
    ∀ (i : Nat) (tr : Hdr), i ≠ 0 →
      (verifyRangeFromM oks now i tr l = .ok ↔ chainOK oks now i (toH tr) (l.map toH) = true) := by
  induction l with
  | nil => intro i tr _; simp [verifyRangeFromM, verifyRangeFrom, chainOK]
  | cons un rest ih =>
    intro i tr hi
    have ih' := ih (i + 1) un (by omega)
    unfold verifyRangeFromM at ih' ⊢
    rw [verifyRangeFrom, List.map_cons, chainOK]
    by_cases hadj : tr.height + 1 = un.height
    · have hex := verify_adjacent_exact (oks i) now tr un
      unfold specVerifyAdjacentExact at hex
      have hh : (toH un).height = (toH tr).height + 1 := by simp [toH]; omega
      simp only [hh, decide_true, Bool.not_true, Bool.false_or, beq_iff_eq] at hex
      rw [if_neg (by simp [hadj])]
      by_cases hv : verifyM (oks i) now tr un = .ok
      · have hl : linkOK (oks i) now (toH tr) (toH un) = true := by rw [← hex]; simp [hv]
        unfold verifyM at hv
        rw [hv]
        simp only [hh, decide_true, hl, Bool.true_and]
        exact ih'
      · have hl : linkOK (oks i) now (toH tr) (toH un) = false := by rw [← hex]; simp [hv]
        simp only [hl, Bool.and_false, Bool.false_and, Bool.false_eq_true, iff_false]
        unfold verifyM at hv
        cases hres : verify (oks i) VERIFY_CLOCK_DRIFT DEFAULT_TRUST_NUM DEFAULT_TRUST_DEN now tr un with
        | ok => exact absurd hres hv
        | err e => simp
        | panic => simp
    · have hh : ¬ ((toH un).height = (toH tr).height + 1) := by simp [toH]; omega
      rw [if_pos ⟨hi, hadj⟩]
      simp [hh]

/-- **exact characterisation of `verify_range`**: the first element must `verify` against the
    trusted header (adjacent or not), every later element must be the linked adjacent successor
    of its predecessor -/
theorem verifyRange_ok_iff (oks : Nat → Oracle) (now : Int) (tr : Hdr) (l : List Hdr) :
    verifyRangeM oks now tr l = .ok ↔
      match l with
      | [] => True
      | un :: rest => verifyM (oks 0) now tr un = .ok ∧
          chainOK oks now 1 (toH un) (rest.map toH) = true := by
  cases l with
  | nil => simp [verifyRangeM, verifyRange, verifyRangeFrom]
  | cons un rest =>
    have ih := verifyRangeFrom_iff oks now rest 1 un (by omega)
    unfold verifyRangeFromM at ih
    unfold verifyRangeM verifyRange verifyM
    rw [verifyRangeFrom, if_neg (by simp)]
    simp only
    cases hres : verify (oks 0) VERIFY_CLOCK_DRIFT DEFAULT_TRUST_NUM DEFAULT_TRUST_DEN now tr un with
    | ok => simpa using ih
    | err e => simp
    | panic => simp

/-- **Range verification accepts a list only if every element verifies against its predecessor
    and heights are consecutive.** -/
theorem verifyRange_spec (oks : Nat → Oracle) (now : Int) (tr : Hdr) (l : List Hdr)
    (hT : tr.valset.total = sumPowers tr.valset.vals) :
    specRange oks now (toH tr) (l.map toH) (decide (verifyRangeM oks now tr l = .ok)) = true := by
  unfold specRange
  by_cases hacc : verifyRangeM oks now tr l = .ok
  · have h := (verifyRange_ok_iff oks now tr l).mp hacc
    cases l with
    | nil => simp
    | cons un rest =>
      simp only at h
      have hv := verify_spec (oks 0) now tr un hT
      unfold specVerify at hv
      simp only [h.1, decide_true, Bool.not_true, Bool.false_or] at hv
      simp [hacc, hv, h.2]
  · simp [hacc]

theorem decide_beq_of_iff {P : Prop} [Decidable P] {b : Bool} (h : P ↔ b = true) :
    (decide P == b) = true := by
  cases b <;> simp_all

theorem verifyAdjacentRange_iff (oks : Nat → Oracle) (now : Int) (tr : Hdr) (l : List Hdr) :
    verifyAdjacentRangeM oks now tr l = .ok ↔ chainOK oks now 0 (toH tr) (l.map toH) = true := by
  cases l with
  | nil => simp [verifyAdjacentRangeM, verifyAdjacentRange, chainOK]
  | cons un rest =>
    have hr := verifyRange_ok_iff oks now tr (un :: rest)
    simp only at hr
    have hex := verify_adjacent_exact (oks 0) now tr un
    unfold specVerifyAdjacentExact at hex
    unfold verifyRangeM at hr
    simp only [verifyAdjacentRangeM, verifyAdjacentRange, List.map_cons, chainOK]
    by_cases hadj : tr.height + 1 = un.height
    · have hh : (toH un).height = (toH tr).height + 1 := by simp [toH]; omega
      simp only [hh, decide_true, Bool.not_true, Bool.false_or, beq_iff_eq] at hex
      have hlink : verifyM (oks 0) now tr un = .ok ↔ linkOK (oks 0) now (toH tr) (toH un) = true := by
        rw [← hex]; simp
      simp only [hadj, ne_eq, not_true_eq_false, if_false, hh, decide_true, Bool.true_and,
        Bool.and_eq_true, Nat.zero_add]
      rw [hr, hlink]
    · have hh : ¬ ((toH un).height = (toH tr).height + 1) := by simp [toH]; omega
      simp [hadj, hh]

/-- **`verify_adjacent_range` accepts exactly the linked chains of consecutive heights** -/
theorem verifyAdjacentRange_exact (oks : Nat → Oracle) (now : Int) (tr : Hdr) (l : List Hdr) :
    specAdjacentRangeExact oks now (toH tr) (l.map toH)
      (decide (verifyAdjacentRangeM oks now tr l = .ok)) = true :=
  decide_beq_of_iff (verifyAdjacentRange_iff oks now tr l)

/-- soundness form of the same (what the driver checks on the implementation's verdict) -/
theorem verifyAdjacentRange_spec (oks : Nat → Oracle) (now : Int) (tr : Hdr) (l : List Hdr) :
    specAdjacentRange oks now (toH tr) (l.map toH)
      (decide (verifyAdjacentRangeM oks now tr l = .ok)) = true := by
  have h := verifyAdjacentRange_exact oks now tr l
  unfold specAdjacentRangeExact at h
  rw [beq_iff_eq] at h
  unfold specAdjacentRange
  rw [← h]
  cases decide (verifyAdjacentRangeM oks now tr l = .ok) <;> rfl

/-- **`VerifiedExtendedHeaders::try_from`** constructs the value exactly for the empty list and
    for lists whose tail is a linked chain of consecutive heights starting at the head -/
theorem verified_headers_exact (oks : Nat → Oracle) (now : Int) (l : List Hdr) :
    verifiedTryFromM oks now l = .ok ↔
      match l with
      | [] => True
      | head :: tail => chainOK oks now 0 (toH head) (tail.map toH) = true := by
  cases l with
  | nil => simp [verifiedTryFromM, verifiedTryFrom]
  | cons head tail =>
    have h := verifyAdjacentRange_iff oks now head tail
    unfold verifyAdjacentRangeM at h
    simpa [verifiedTryFromM, verifiedTryFrom] using h

/-! ### non-vacuity -/

def exSet : ValSet := { vals := [⟨[1], 1⟩, ⟨[2], 1⟩, ⟨[3], 1⟩], total := 3 }
def mk (height : Nat) (time : Int) (vh nvh lhh h : Nat) (sigs : List CSig) : Hdr :=
  { height := height, chainId := [99], time := time, validatorsHash := some [UInt8.ofNat vh],
    nextValidatorsHash := some [UInt8.ofNat nvh], lastHeaderHash := some [UInt8.ofNat lhh],
    hash := some [UInt8.ofNat h], valset := exSet, sigs := sigs }
def hA : Hdr := mk 5 100 1 2 9 5 []
def hB : Hdr := mk 6 200 2 2 5 6 []
def hB' : Hdr := mk 6 200 2 2 4 6 []
def cs (a : UInt8) : CSig := { flag := .commit, addr := [a], hasSig := true }
def hC : Hdr := mk 9 300 1 2 9 7 [cs 2, cs 3]
def hC' : Hdr := mk 9 300 1 2 9 7 [cs 2]

example : hA.valset.total = sumPowers hA.valset.vals := by decide
example : verifyM (fun _ _ => true) 1000 hA hB = .ok := by decide
example : verifyM (fun _ _ => true) 1000 hA hB' = .err .lastHeaderHash := by decide
example : verifyM (fun _ _ => true) 1000 hA hC = .ok := by decide
example : verifyM (fun _ _ => true) 1000 hA hC' = .err (.commit (.notEnough 1 1)) := by decide
example : verifyM (fun _ _ => true) (-10000000000 + 200) hA hB = .err .timeFuture := by decide
example : verifyRangeM (fun _ _ _ => true) 1000 hA [hB] = .ok := by decide
example : chainOK (fun _ _ _ => true) 1000 0 (toH hA) [toH hB] = true := by decide

end Lumina.Props.C02

import Lumina.Gen.C08
import Lumina.Model.EdsCode
import Lumina.Spec.C08

namespace Lumina.Props.C08
open Lumina.Model.EdsCode

theorem consts_eq :
    Lumina.Gen.C08.SHARE_SIZE = 512 ∧ Lumina.Gen.C08.SHARE_SIZE = Lumina.Model.Eds.SHARE_SIZE ∧
    Lumina.Gen.C08.NS_SIZE = 29 ∧ Lumina.Gen.C08.NS_SIZE = Lumina.Model.Nmt.NS_SIZE ∧
    Lumina.Gen.C08.MIN_SQUARE_SIZE * 2 = MIN_EXTENDED_SQUARE_WIDTH ∧
    Lumina.Gen.C08.SHARE_VERSION_ONE = SHARE_VERSION_ONE ∧
    Lumina.Gen.C08.SQUARE_SIZE_UPPER_BOUNDS = (List.range 7).map (fun i => squareSizeUpperBound (i + 1)) ∧
    Lumina.Gen.C08.SQUARE_SIZE_UPPER_BOUNDS = (List.range 7).map (fun i => Lumina.Spec.C08.maxOdsWidth (i + 1)) := by
  decide

end Lumina.Props.C08

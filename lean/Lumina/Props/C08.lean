/-
  C08 — The extended square is a two-dimensional erasure code.   PROPERTY THEOREMS ONLY.

  Model: `Lumina/Model/EdsCode.lean` (`fromOds` = `ExtendedDataSquare::from_ods`, `edsNew` = `ExtendedDataSquare::new`,
  the argument checks of `leopard_codec::encode/reconstruct`).  Spec: `Lumina/Spec/C08.lean`.
  The Reed–Solomon arithmetic is NOT modelled; what is assumed of it is stated as hypotheses:

    `EncShape enc k`       k data shards give k parity shards
    `EncLinear enc k 512`  the encoder acts bytewise as a k × k matrix over a commutative semiring structure on bytes
                           (GF(2^8) for leopard) — needed for the COLUMNS through the parity half only
    `MDS enc rec k`        the decoder returns a codeword from any ≥ k of its 2k symbols

  all three validated against the real codec by the correspondence on every run (`extend` lines: the columns of Q1 are
  re-encoded by the real codec independently and compared; `recon` lines: real reconstruct on random erasure patterns;
  `linear` lines: additivity and bytewise action), none proved about leopard's FFT.
-/
import Lumina.Gen.C08
import Lumina.Proofs.EdsMalformed
import Lumina.Proofs.EdsAccept
import Lumina.Proofs.EdsWitness

namespace Lumina.Props.C08
open Lumina.Util Lumina.Model.Nmt Lumina.Model.Eds Lumina.Model.EdsCode
open Lumina.Proofs.EdsCode Lumina.Proofs.EdsExtend Lumina.Proofs.EdsLinear Lumina.Proofs.EdsCodeword Lumina.Proofs.EdsMalformed
open Lumina.Spec.C08

theorem consts_eq :
    Lumina.Gen.C08.SHARE_SIZE = 512 ∧ Lumina.Gen.C08.SHARE_SIZE = Lumina.Model.Eds.SHARE_SIZE ∧
    Lumina.Gen.C08.NS_SIZE = 29 ∧ Lumina.Gen.C08.NS_SIZE = Lumina.Model.Nmt.NS_SIZE ∧
    Lumina.Gen.C08.MIN_SQUARE_SIZE * 2 = MIN_EXTENDED_SQUARE_WIDTH ∧
    Lumina.Gen.C08.SHARE_VERSION_ONE = SHARE_VERSION_ONE ∧
    Lumina.Gen.C08.SQUARE_SIZE_UPPER_BOUNDS = (List.range 7).map (fun i => squareSizeUpperBound (i + 1)) ∧
    Lumina.Gen.C08.SQUARE_SIZE_UPPER_BOUNDS = (List.range 7).map (fun i => maxOdsWidth (i + 1)) := by
  decide

/-- **The extension is a two-dimensional code** — for every original square, app version and linear encoder: if
    `from_ods` accepts, the returned square keeps the original square as its first quadrant and EVERY row and EVERY
    column (through the data half and through the parity half alike) is a codeword. -/
theorem extend_spec (enc : List Bytes → List Bytes) (ver : Nat) (ods : List Bytes) (e : Eds)
    (hs : EncShape enc (isqrt ods.length)) (L : EncLinear enc (isqrt ods.length) 512)
    (h : fromOds enc ver ods = .ok e) :
    specExtend enc ods (.ok e.width (e.shares.map Share.data)) = true := by
  have x := extOK hs h
  have hlen : ∀ s ∈ ods, s.length = 512 := x.ods_size
  generalize isqrt ods.length = k at x hs L
  simp only [specExtend, x.width, x.data, Bool.and_eq_true, beq_iff_eq, List.all_eq_true, List.mem_range]
  refine ⟨⟨⟨?_, extGrid_length enc k ods⟩, by omega⟩, ?_⟩
  · rw [quadrant0_eq]; exact Lumina.Proofs.ShrexEds.quadrant0_extGrid enc x.sq
  · intro i hi
    have h2 : 2 * k / 2 = k := by omega
    rw [h2, rowOf_extGrid enc k ods hi, colOf_extGrid enc k ods hi, isCodeword_iff, isCodeword_iff]
    exact axes_codewords hs L x.sq hlen hi

/-- the decoder recovers a codeword from any `k` of its `2k` symbols (erased symbols = empty strings) -/
def MDS (enc : List Bytes → List Bytes) (rec : List Bytes → List Bytes) (k : Nat) : Prop :=
  ∀ cw, IsCodeword enc k cw → (∀ s ∈ cw, s.length = 512) →
    ∀ mask : List Bool, mask.length = 2 * k → k ≤ (mask.filter id).length → rec (erase mask cw) = cw

/-- **Any half of the shares of an axis reconstructs the whole axis** — every row and column of an accepted extension,
    every erasure pattern that leaves at least half. -/
theorem any_half_reconstructs (enc rec : List Bytes → List Bytes) (ver : Nat) (ods : List Bytes) (e : Eds)
    (hs : EncShape enc (isqrt ods.length)) (L : EncLinear enc (isqrt ods.length) 512)
    (hm : MDS enc rec (isqrt ods.length)) (h : fromOds enc ver ods = .ok e)
    (ax : Axis) (i : Nat) (hi : i < e.width) (mask : List Bool) (hml : mask.length = e.width)
    (hhalf : e.width / 2 ≤ (mask.filter id).length) :
    ∃ axis, e.axis? ax i = some axis ∧
      specReconstruct (axis.map Share.data) (some (rec (erase mask (axis.map Share.data)))) = true := by
  have x := extOK hs h
  have hlen : ∀ s ∈ ods, s.length = 512 := x.ods_size
  generalize isqrt ods.length = k at x hs L hm
  have hi2 : i < 2 * k := by rw [← x.width]; exact hi
  refine ⟨_, x.newOK.axis ax hi, ?_⟩
  have hdata : (lineCells e.width (extGrid enc k ods) ax i).map Share.data =
      (match ax with | .row => extRow enc k ods i | .col => extCol enc k ods i) := by
    cases ax with
    | row =>
      simp only [lineCells, List.map_map, extRow, x.width]
      apply List.map_congr_left
      intro c hc
      simp only [Function.comp_apply, cell, axisCoord]
      exact extGrid_getD enc k ods hi2 (List.mem_range.mp hc)
    | col =>
      simp only [lineCells, List.map_map, extCol, x.width]
      apply List.map_congr_left
      intro r hr
      simp only [Function.comp_apply, cell, axisCoord]
      exact extGrid_getD enc k ods (List.mem_range.mp hr) hi2
  have hcw := axes_codewords hs L x.sq hlen hi2
  have hsz : ∀ s ∈ (lineCells e.width (extGrid enc k ods) ax i).map Share.data, s.length = 512 := by
    intro s hs'
    obtain ⟨sh, hsh, rfl⟩ := List.mem_map.mp hs'
    exact (x.newOK.cells i hi ax sh hsh).size
  have hk2 : e.width / 2 = k := by rw [x.width]; omega
  simp only [specReconstruct, beq_iff_eq, Option.some.injEq]
  apply hm
  · rw [hdata]; cases ax with
    | row => exact hcw.1
    | col => exact hcw.2
  · exact hsz
  · rw [hml, x.width]
  · rw [← hk2]; exact hhalf

/-- **Malformed extended squares are rejected by `new`**: a share count that is not a square, a width that is not a
    power of two, fewer than 2 × 2 or more than the app version's bound, a share that is not 512 bytes, a row or column
    not sorted by namespace — for every input. -/
theorem new_rejects_malformed (ver : Nat) (shares : List Bytes) (hm : malformedEds ver shares = true) :
    specRejects (malformedEds ver shares) (match edsNew ver shares with | .ok _ => true | .error _ => false) = true := by
  cases h : edsNew ver shares with
  | error er => simp [specRejects]
  | ok e => rw [new_rejects h] at hm; cases hm

/-- **Malformed original squares are rejected by `from_ods`** (same classes, stated on the original square) -/
theorem from_ods_rejects_malformed (enc : List Bytes → List Bytes) (ver : Nat) (ods : List Bytes)
    (hs : EncShape enc (isqrt ods.length)) (hm : malformedOds ver ods = true) :
    specRejects (malformedOds ver ods) (match fromOds enc ver ods with | .ok _ => true | .error _ => false) = true := by
  cases h : fromOds enc ver ods with
  | error er => simp [specRejects]
  | ok e => rw [from_ods_rejects hs h] at hm; cases hm

/-- **Valid extended squares are accepted by `new`** (the converse direction: none of the malformed classes, first-quadrant
    shares carry a supported namespace / share version ⇒ `Ok`), for every input.  So the rejection theorems are not
    satisfied by a validator that rejects everything. -/
theorem new_accepts_valid (ver : Nat) (shares : List Bytes) (hv : validEds ver shares = true) :
    specAccepts (validEds ver shares) (match edsNew ver shares with | .ok _ => true | .error _ => false) = true := by
  obtain ⟨e, he⟩ := Lumina.Proofs.EdsAccept.new_accepts hv
  simp [specAccepts, he]

/-- … and every square `new` accepts is valid: acceptance is EXACTLY validity -/
theorem new_accepts_iff_valid (ver : Nat) (shares : List Bytes) :
    (∃ e, edsNew ver shares = .ok e) ↔ validEds ver shares = true := by
  constructor
  · rintro ⟨e, he⟩
    have ok := edsNew_ok he
    unfold validEds
    rw [new_rejects he]
    simp only [Bool.not_false, Bool.true_and, List.all_eq_true, List.mem_range, Bool.or_eq_true, bne_iff_ne, ne_eq]
    intro w _
    by_cases hw : w * w = shares.length
    · right
      have hwe : w = e.width := Nat.mul_self_inj.mp (by rw [hw, ok.sq])
      subst hwe
      unfold sharesSupported
      simp only [List.all_eq_true, List.mem_range, Bool.and_eq_true, Bool.not_eq_true']
      intro r hr c hc
      have hrw : r < e.width := by omega
      have hcw : c < e.width := by omega
      have hmem : cell e.width shares r c ∈ lineCells e.width shares .row r :=
        List.mem_map.mpr ⟨c, List.mem_range.mpr hcw, rfl⟩
      have hok := ok.cells r hrw .row _ hmem
      have hpar : (cell e.width shares r c).isParity = false := by
        simp [cell, isOdsSquare, hr, hc]
      obtain ⟨n, hn⟩ := hok.ns hpar
      have hval := hok.version
      simp only [cell] at hn hval
      refine ⟨?_, ?_⟩
      · have := Lumina.Props.C14.fromRaw_spec ((shares.getD (r * e.width + c) []).take 29)
        have h29 : NS_SIZE = 29 := rfl
        rw [h29] at hn
        rw [hn] at this
        simp only [Lumina.Props.C14.obsOf, Lumina.Spec.C14.specFromRaw, Bool.and_eq_true] at this
        exact this.1
      · unfold shareValidate at hval
        have h29 : NS_SIZE = 29 := rfl
        simp only [isOdsSquare, hr, hc, decide_true, Bool.and_self, Bool.not_true, Bool.not_false, Bool.true_and, h29,
          SHARE_VERSION_ONE] at hval
        split at hval
        · cases hval
        · rename_i hcond
          simpa using hcond
    · left; exact hw
  · intro hv; exact Lumina.Proofs.EdsAccept.new_accepts hv

/-- **Limitation of lumina, not of the model**: an original square wider than 128 is rejected by `from_ods` whatever its
    contents (the GF(2^8) leopard codec handles at most 256 shards), although app versions ≥ 6 allow widths up to 512 -/
theorem from_ods_wider_than_codec_rejected (enc : List Bytes → List Bytes) (ver : Nat) (ods : List Bytes)
    (hk : 128 < isqrt ods.length) : ∀ e, fromOds enc ver ods ≠ .ok e := by
  intro e he
  obtain ⟨hsq, hle, _⟩ := Lumina.Proofs.ShrexEds.fromOds_ok he
  unfold fromOdsLeopardErr at hle
  simp only [Bool.or_eq_false_iff] at hle
  have h1 := hle.1.1
  rw [List.any_eq_false] at h1
  have hpos : 0 < isqrt ods.length := by omega
  have hmem : (ods.drop (0 * isqrt ods.length)).take (isqrt ods.length) ∈ sqRows (isqrt ods.length) ods :=
    List.mem_map.mpr ⟨0, List.mem_range.mpr hpos, rfl⟩
  have hthis := h1 _ hmem
  unfold leopardEncodeErr at hthis
  have hkn : isqrt ods.length ≤ ods.length := by
    have := Lumina.Proofs.EdsMalformed.le_mul_self (isqrt ods.length); omega
  have hlen : ((ods.drop (0 * isqrt ods.length)).take (isqrt ods.length) ++
      List.replicate (isqrt ods.length) zeroShare).length > LEOPARD_ORDER := by
    simp only [List.length_append, List.length_take, List.length_drop, List.length_replicate, LEOPARD_ORDER]; omega
  rw [if_pos hlen] at hthis
  simp at hthis

/-- the defect found by the correspondence and fixed in /repo (bcfb373): before the fix the EMPTY original square was
    not rejected — `from_ods` panicked on it -/
theorem from_ods_empty_unfixed_counterexample (enc : List Bytes → List Bytes) (ver : Nat) :
    malformedOds ver [] = true ∧ fromOdsUnfixed enc ver [] = none ∧ fromOds enc ver [] = .error .validation := by
  refine ⟨by simp [malformedOds, maxOdsWidth], by simp [fromOdsUnfixed, isqrt, sqrtAux], ?_⟩
  simp [fromOds, isqrt, sqrtAux, fromOdsLeopardErr, sqRows, sqCols, q2Rows, extendRaw, edsNew, MIN_EXTENDED_SQUARE_WIDTH]

/-- non-vacuity: the identity "codec" is shape-correct and linear (identity matrix over ℕ-valued bytes …) — the real
    hypotheses are exercised against leopard by the correspondence; here: `EncShape` is inhabited and `MDS` is
    satisfiable for it at `k = 0` -/
example : EncShape (fun row => row) 4 := fun _ h => h

/-- non-vacuity of `EncLinear`: the repetition code (parity = data) is linear, with the identity matrix over ℕ -/
example (k : Nat) : EncLinear (fun row => row) k 512 where
  F := Nat
  toF := UInt8.toNat
  toF_inj := fun a b h => UInt8.toNat_inj.mp h
  M := 1
  shape := fun _ h1 h2 => ⟨h1, h2⟩
  spec := by
    intro row _ _ j b _
    simp [Matrix.one_apply]

/-- **Joint non-vacuity at k = 1**: the repetition code (Reed–Solomon for one data symbol) with the decoder "copy the
    symbol that is present" satisfies `EncShape`, `EncLinear` AND `MDS` together.  (For k ≥ 2 the repetition code is not
    MDS; see `joint_witness_k2`.) -/
def recK1 (l : List Bytes) : List Bytes :=
  match l with
  | [a, b] => if a.isEmpty then [b, b] else [a, a]
  | _ => l

theorem joint_witness_k1 :
    EncShape (fun row => row) 1 ∧ Nonempty (EncLinear (fun row => row) 1 512) ∧ MDS (fun row => row) recK1 1 := by
  have L : EncLinear (fun row : List Bytes => row) 1 512 :=
    { F := Nat
      toF := UInt8.toNat
      toF_inj := fun a b h => UInt8.toNat_inj.mp h
      M := 1
      shape := fun _ h1 h2 => ⟨h1, h2⟩
      spec := by
        intro row _ _ j b _
        have hj : j = 0 := Fin.eq_zero j
        subst hj
        simp [Matrix.one_apply] }
  refine ⟨fun _ h => h, ⟨L⟩, ?_⟩
  intro cw hcw hsz mask hml hpres
  obtain ⟨hlen, hdrop⟩ := hcw
  match cw, hlen with
  | [a, b], _ =>
    have hb : b = a := by
      simp only [List.drop_succ_cons, List.drop_zero, List.take_succ_cons, List.take_zero, List.cons.injEq, and_true] at hdrop
      exact hdrop
    have hne : a.isEmpty = false := by
      have := hsz a (by simp)
      cases ha : a with
      | nil => rw [ha] at this; simp at this
      | cons x xs => rfl
    rw [hb]
    match mask, hml with
    | [true, true], _ => simp [erase, recK1, hne]
    | [true, false], _ => simp [erase, recK1, hne]
    | [false, true], _ => simp [erase, recK1]
    | [false, false], _ => simp at hpres

/-- **Joint non-vacuity at k = 2**: there is an encoder on 512-byte shares that is shape-correct, bytewise LINEAR over a
    field structure on bytes, and MDS — the [4,2] code `(a, b) ↦ (a, b, a + b, a + α·b)` over GF(2^8) (Mathlib's `GaloisField 2 8`
    through a bijection with bytes, `α ∉ {0, 1}`), with the decoder "the codeword consistent with the present symbols".
    So the hypotheses of `extend_spec` / `any_half_reconstructs` (and of C07's `befp_sound_honest_block`) are jointly
    satisfiable beyond the repetition code. -/
theorem joint_witness_k2 :
    ∃ (enc rec : List Bytes → List Bytes), EncShape enc 2 ∧ Nonempty (EncLinear enc 2 512) ∧ MDS enc rec 2 :=
  ⟨Lumina.Proofs.EdsWitness.enc2, Lumina.Proofs.EdsWitness.rec2, Lumina.Proofs.EdsWitness.encShape2,
    ⟨Lumina.Proofs.EdsWitness.encLinear2⟩, Lumina.Proofs.EdsWitness.mds2⟩

end Lumina.Props.C08

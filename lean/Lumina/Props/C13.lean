/-
  C13 — Merkle, row and share proofs are position-binding and sound.   PROPERTY THEOREMS ONLY.

  `H : HashFns D` is an ARBITRARY hash (any digest type `D`).  Soundness theorems assume, as explicit
  hypotheses, that `H.inner` and `H.leaf` are collision free (`InnerInj`, `LeafInj`); the
  `…_collision` forms state the same reduction contrapositively (an accepted wrong proof yields an
  explicit collision).  No hypothesis is needed for completeness or for `index < total`.
  `Spec/C13.lean` defines the tree independently (RFC 6962 by doubling + fuel); the theorems below are
  of the form `spec… input (model input) = true` for ALL inputs (no bound on tree size, proof
  length, indices).

  Share proofs: the rule of the spec is `specShareVerify` = `specShareVerifyCore` ∧ inner-node clause.
  `shareproof_verify_sound_partial` proves the CORE (counts, presence, row-proof rule, share groups bound to the square, and
  NO ABORT: a panic is a failure of the property) with the NMT binding DERIVED from the multi-leaf range-proof soundness of
  `Proofs/NmtMultiSound.lean`, under collision-freeness of the NMT hash RELATIVE to the explicit finite list of inputs it is
  applied to (`NmtMulti.shareVerifyInputs`; `HashOKOn`, satisfiable — the earlier `HashOK` was contradictory, audit X1); `shareproof_verify_sound_of_nmtBinds_partial` is the older form that takes the binding as a
  hypothesis.  The inner-node clause is evaluated on the implementation by the driver but not proved of the model
  (`ShareProofFullStatement` shows the full statement).  `shareproof_verifyOrig_counterexample`: the original code aborts.

  Models: `Lumina/Model/Merkle.lean` (MerkleProof), `Lumina/Model/RowProof.lean` (RowProof, DAH hash,
  row_proof), `Lumina/Model/ShareProof.lean` (ShareProof over `Lumina/Model/Nmt.lean`).
-/
import Lumina.Proofs.C13Share
import Lumina.Proofs.NmtMultiShare
import Lumina.Proofs.NmtMultiShareBuild
import Lumina.Proofs.NmtMultiToy
import Lumina.Props.C04   -- only for the concrete square of the non-vacuity example

namespace Lumina.Props.C13
open Lumina.Util Lumina.Model.Merkle Lumina.Proofs.Merkle Lumina.Proofs.C13
open Lumina.Spec.C13
open Lumina.Model.RowProof (RowProof)

variable {D : Type}

/-! ## the RFC-6962 tree of the spec is the tree the code builds -/

/-- "largest power of two smaller than n" (doubling) = `n.next_power_of_two() / 2` for every n ≥ 2 -/
theorem split_point_is_rfc6962 (n : Nat) (h : 2 ≤ n) : largestPow2Below n = splitPoint n :=
  largestPow2Below_eq n h

/-- `simple_hash_from_byte_vectors` computes the RFC-6962 Merkle Tree Hash, for every leaf list -/
theorem root_is_rfc6962 (H : HashFns D) (L : List Bytes) : root H L = treeRoot H L :=
  (treeRoot_eq_root H L).symm

/-! ## MerkleProof -/

/-- **accepted only if index < total** — every proof, every leaf, every root, any hash -/
theorem merkle_verify_index_below_total [DecidableEq D] (H : HashFns D) (p : Proof D) (leaf : Bytes) (rt : D) :
    specVerifyIndex (obsOf p) (resOf (p.verify H leaf rt)) = true := by
  cases hv : p.verify H leaf rt with
  | ok =>
    obtain ⟨_, hlt, _, _⟩ := (verify_ok_iff H p leaf rt).1 hv
    simp [specVerifyIndex, resOf, obsOf, hlt]
  | err e => simp [specVerifyIndex, resOf]
  | panic => simp [specVerifyIndex, resOf]

/-- **accepted only if the leaf is at that index of the tree with that count and root**, and the
    inner nodes are the audit path (any altered inner node is rejected) — all leaf lists, all proofs -/
theorem merkle_verify_sound [DecidableEq D] (H : HashFns D) (hinj : InnerInj H) (hleaf : LeafInj H)
    (L : List Bytes) (p : Proof D) (leaf : Bytes) (rt : D) :
    specVerify H L (obsOf p) leaf rt (resOf (p.verify H leaf rt)) = true := by
  cases hv : p.verify H leaf rt with
  | err e => simp [specVerify, resOf]
  | panic => simp [specVerify, resOf]
  | ok =>
    simp only [specVerify, resOf, obsOf]
    by_cases hc : rt = treeRoot H L ∧ p.total = L.length
    · obtain ⟨hr, ht⟩ := hc
      rw [treeRoot_eq_root] at hr
      subst hr
      obtain ⟨h1, h2, h3⟩ := verify_sound H hinj hleaf L p leaf hv ht
      simp [h1, h2, h3, auditPath_eq]
    · have : (rt == treeRoot H L && p.total == L.length) = false := by
        simp only [Bool.and_eq_false_iff, beq_eq_false_iff_ne, ne_eq]
        by_cases h : rt = treeRoot H L
        · exact Or.inr (fun h' => hc ⟨h, h'⟩)
        · exact Or.inl h
      simp [this]

/-- the same as an implication, in the model's own terms -/
theorem merkle_sound [DecidableEq D] (H : HashFns D) (hinj : InnerInj H) (hleaf : LeafInj H)
    (L : List Bytes) (p : Proof D) (leaf : Bytes)
    (hv : p.verify H leaf (root H L) = .ok) (ht : p.total = L.length) :
    p.index < p.total ∧ L[p.index]? = some leaf :=
  let ⟨a, b, _⟩ := verify_sound H hinj hleaf L p leaf hv ht
  ⟨a, b⟩

/-- reduction form: a proof accepted for a leaf that is NOT at that index yields a hash collision -/
theorem merkle_sound_collision [DecidableEq D] (H : HashFns D) (L : List Bytes) (p : Proof D) (leaf : Bytes)
    (hv : p.verify H leaf (root H L) = .ok) (ht : p.total = L.length)
    (hwrong : L[p.index]? ≠ some leaf) : Collision H := by
  apply Classical.byContradiction
  intro hn
  obtain ⟨hl, hi⟩ := (not_collision_iff H).1 hn
  exact hwrong (merkle_sound H hi hl L p leaf hv ht).2

/-- **proofs built by `MerkleProof::new` verify**: built iff `i < |L|`; index, count, leaf hash, aunts
    (= RFC audit path) and root (= RFC tree hash) are right; `verify` accepts.  No hash hypothesis.
    (`|L| ≤ 2^63`: a `Vec` cannot be longer; beyond it `next_power_of_two` overflows.) -/
theorem merkle_new_complete [DecidableEq D] (H : HashFns D) (L : List Bytes) (i : Nat)
    (hsz : L.length ≤ 2 ^ 63) :
    specNew H L i
      (match Proof.new H i L with
       | .error _ => .err
       | .ok (p, rt) => .ok (obsOf p) rt (resOf (p.verify H (L.getD i []) rt))) = true := by
  by_cases hi : i < L.length
  · obtain ⟨p, hnew, h1, h2, h3, h4, h5⟩ := new_verifies H L i hi hsz
    rw [hnew]
    simp only
    rw [h5]
    simp [specNew, obsOf, resOf, hi, h1, h2, h3, h4, treeRoot_eq_root, auditPath_eq]
  · have : Proof.new H i L = .error .indexOutOfRange := by
      unfold Proof.new; rw [if_pos (by omega)]
    rw [this]
    simp only [specNew, decide_eq_true_eq]
    omega

/-- The ORIGINAL `verify` (before the `fix:` commit) violates the property: the one-leaf tree `[x]`,
    proof `(index = 5, total = 1, no aunts)` is accepted although 5 ≥ 1. -/
theorem merkle_verifyOrig_counterexample :
    let p : Proof Term := { index := 5, total := 1, leafHash := .leaf [1], aunts := [] }
    p.verifyOrig termFns [1] (root termFns [[1]]) = .ok ∧
      specVerifyIndex (obsOf p) (resOf (p.verifyOrig termFns [1] (root termFns [[1]]))) = false := by
  have hr : root termFns [[1]] = Term.leaf [1] := by rw [root_singleton]; rfl
  simp only [hr]
  decide

/-! ## RowProof -/

/-- **row proofs fail if any proven root or inner node is altered or the number of roots does not
    match the claimed row span** (and never abort): for every row proof whose merkle proofs carry
    `total ≤ 2^63` (guaranteed by the wire decoding, `total: i64`), every DAH root list `all` and
    every data root. -/
theorem rowproof_verify_sound [DecidableEq D] (H : HashFns D) (hinj : InnerInj H) (hleaf : LeafInj H)
    (all : List Bytes) (rp : RowProof D) (rt : Option D)
    (hb : ∀ p ∈ rp.proofs, p.total ≤ 2 ^ 63) :
    specRowVerify H all (rowObsOf rp) rt (rowResOf (Lumina.Model.RowProof.verify H rp rt)) = true := by
  unfold Lumina.Model.RowProof.verify
  by_cases h1 : rp.rowRoots.length ≠ rp.proofs.length
  · simp [h1, specRowVerify, rowResOf]
  · rw [if_neg h1]
    by_cases h2 : rp.endRow < rp.startRow
    · simp [h2, specRowVerify, rowResOf]
    · rw [if_neg h2]
      by_cases h3 : rp.endRow - rp.startRow + 1 ≠ rp.proofs.length
      · simp [h3, specRowVerify, rowResOf]
      · rw [if_neg h3]
        cases rt with
        | none => simp [specRowVerify, rowResOf]
        | some r =>
          simp only
          have hnp := verifyLoop_ne_panic H r rp.rowRoots rp.proofs hb
          cases hl : Lumina.Model.RowProof.verifyLoop (fun p leaf r => p.verify H leaf r) r rp.rowRoots rp.proofs with
          | panic => exact absurd hl hnp
          | err e => simp [specRowVerify, rowResOf]
          | ok =>
            have hall := verifyLoop_ok H r rp.rowRoots rp.proofs hl
            simp only [ne_eq, Decidable.not_not] at h1 h3
            simp only [specRowVerify, rowResOf, rowObsOf, List.length_map, Option.isSome_some,
              Bool.and_true, Bool.and_eq_true, decide_eq_true_eq, beq_iff_eq, Bool.or_eq_true,
              Bool.not_eq_true', beq_eq_false_iff_ne, ne_eq, Option.some.injEq]
            refine ⟨⟨⟨decide_eq_true (by omega), by omega⟩, by omega⟩, ?_⟩
            by_cases hr : r = treeRoot H all
            · right
              rw [treeRoot_eq_root] at hr
              subst hr
              exact bindsAll_of_ok H hinj hleaf all rp.rowRoots rp.proofs hall
            · left; exact hr

/-- **row proofs built from a DAH verify against its hash**: for every DAH (any numbers of row and
    column roots with `rows ≤ all`), every `start`, `end`: the proof is built iff the range lies
    inside the rows (or is empty), proves rows `start..=end` in order with their RFC audit paths,
    the DAH hash is the RFC tree hash of rows ++ cols, and `verify` accepts (an empty range is
    refused by `verify`).  No hash hypothesis. -/
theorem rowproof_build_complete [DecidableEq D] (H : HashFns D) (rows cols : List Bytes) (s e : Nat)
    (hsz : (rows ++ cols).length ≤ 2 ^ 63) :
    specRowBuild H rows cols s e
      (match Lumina.Model.RowProof.rowProof H rows cols s e with
       | .error _ => .err
       | .ok rp => .ok (rowObsOf rp) (Lumina.Model.RowProof.dahHash H rows cols)
            (rowResOf (Lumina.Model.RowProof.verify H rp (some (Lumina.Model.RowProof.dahHash H rows cols))))) = true := by
  unfold Lumina.Model.RowProof.rowProof
  by_cases hse : s ≤ e
  · by_cases hin : e < rows.length
    · have hpre : ∀ i, i < rows.length → (rows ++ cols)[i]? = rows[i]? := by
        intro i hi; rw [List.getElem?_append_left hi]
      obtain ⟨ps, rs, hl, hrl, hpl, hpo, hv⟩ :=
        rowProofLoop_ok H rows (rows ++ cols) hsz hpre (by simp) (e + 1 - s) s (by omega)
      rw [hl]
      simp only
      have hver : Lumina.Model.RowProof.verify H
          { rowRoots := rs, proofs := ps, startRow := s, endRow := e }
          (some (Lumina.Model.RowProof.dahHash H rows cols)) = .ok := by
        unfold Lumina.Model.RowProof.verify
        simp only
        rw [if_neg (by omega), if_neg (by omega), if_neg (by omega)]
        exact verifyLoop_all_ok H _ rs ps hv
      rw [hver]
      simp only [specRowBuild, rowObsOf, rowResOf, Lumina.Model.RowProof.dahHash, treeRoot_eq_root,
        beq_self_eq_true, Bool.true_and, if_pos hse, hpo, Bool.and_true, Bool.and_eq_true,
        decide_eq_true_eq, beq_iff_eq]
      exact ⟨hin, by omega⟩
    · rw [rowProofLoop_err H rows (rows ++ cols) (e + 1 - s) s (by omega) (by omega)]
      simp only [specRowBuild, decide_eq_true_eq]
      omega
  · have hr : List.range' s (e + 1 - s) = [] := by
      have : e + 1 - s = 0 := by omega
      rw [this]; rfl
    rw [hr]
    simp only [Lumina.Model.RowProof.rowProofLoop]
    have hver : Lumina.Model.RowProof.verify H
        ({ rowRoots := [], proofs := [], startRow := s, endRow := e } : RowProof D)
        (some (Lumina.Model.RowProof.dahHash H rows cols)) = .err .startGtEnd := by
      unfold Lumina.Model.RowProof.verify
      simp only [List.length_nil, ne_eq, not_true_eq_false, ↓reduceIte]
      rw [if_pos (by omega)]
    rw [hver]
    simp [specRowBuild, rowObsOf, rowResOf, Lumina.Model.RowProof.dahHash, treeRoot_eq_root, hse]

/-- The ORIGINAL `RowProof::verify` violates the property: for the full `u16` span `0..=65535` with no
    roots and no proofs, `end_row - start_row + 1` overflows `u16` — abort in a debug build (and in a
    release build the wrapped value 0 equals the number of proofs: the EMPTY proof is accepted). -/
theorem rowproof_verifyOrig_counterexample :
    let rp : RowProof Term := { rowRoots := [], proofs := [], startRow := 0, endRow := 65535 }
    Lumina.Model.RowProof.verifyOrig termFns rp (some .empty) = .panic ∧
      specRowVerify termFns [] (rowObsOf rp) (some .empty)
        (rowResOf (Lumina.Model.RowProof.verifyOrig termFns rp (some .empty))) = false := by
  decide

/-! ## ShareProof -/

open Lumina.Model.ShareProof (ShareProof) in
/-- the share-proof property with the share-group binding (last conjunct of `specShareVerify`) supplied by the caller:
    everything else — one presence proof with non-empty range per row root, share count = sum of the ranges, the whole
    row-proof property, the wiring of each share group to the row root proven at the merkle proof's index — needs only
    the collision-freeness of the DAH tree hash.  Used by both theorems below. -/
theorem shareproof_verify_sound_of_slices [DecidableEq D] (H : HashFns D) (h : Lumina.Model.Nmt.HashFn)
    (hinj : InnerInj H) (hleaf : LeafInj H) (w : Nat) (sq all : List Bytes)
    (sp : ShareProof D) (rt : Option D) (hb : ∀ p ∈ sp.rowProof.proofs, p.total ≤ 2 ^ 63)
    (hr90 : ∀ r ∈ sp.rowProof.rowRoots, r.length = 90) (hu32 : ∀ p ∈ sp.shareProofs, Lumina.Proofs.Decoders.U32 p)
    (hsb : Lumina.Model.ShareProof.rangeLoop h sp.namespaceId sp.data sp.shareProofs sp.rowProof.rowRoots = .ok →
      bindsAll H all sp.rowProof.rowRoots (sp.rowProof.proofs.map obsOf) = true →
      (∀ p ∈ sp.rowProof.proofs, p.total = all.length) →
      sp.shareProofs.length = sp.rowProof.rowRoots.length → sp.rowProof.rowRoots.length = sp.rowProof.proofs.length →
      slicesBound w sq sp.namespaceId sp.data (sp.shareProofs.map nobsOf) (sp.rowProof.proofs.map obsOf) = true) :
    specShareVerifyCore H w sq all (shareObsOf sp) rt
      (shareResOf (Lumina.Model.ShareProof.verify H h sp rt)) = true := by
  unfold Lumina.Model.ShareProof.verify Lumina.Model.ShareProof.verifyWith
  by_cases h1 : sp.shareProofs.length ≠ sp.rowProof.rowRoots.length
  · simp [h1, specShareVerifyCore, shareResOf]
  · rw [if_neg h1]
    cases hs : Lumina.Model.ShareProof.sharesNeeded 0 sp.shareProofs with
    | error o =>
      have := sharesNeeded_error_ne_ok sp.shareProofs 0
      have hnp := sharesNeeded_error_ne_panic sp.shareProofs 0
      cases o <;> simp_all [specShareVerifyCore, shareResOf]
    | ok needed =>
      simp only
      by_cases h2 : needed ≠ sp.data.length
      · simp [h2, specShareVerifyCore, shareResOf]
      · rw [if_neg h2]
        have hrow := rowproof_verify_sound H hinj hleaf all sp.rowProof rt hb
        cases hr : Lumina.Model.RowProof.verify H sp.rowProof rt with
        | panic => rw [hr] at hrow; simp [specRowVerify, rowResOf] at hrow
        | err e => simp [specShareVerifyCore, shareResOf]
        | ok =>
          rw [hr] at hrow
          simp only
          have hnopanic := rangeLoop_ne_panic h sp.namespaceId sp.shareProofs sp.rowProof.rowRoots sp.data
            (by have := (sharesNeeded_ok sp.shareProofs 0 needed hs).2
                simp only [ne_eq, Decidable.not_not] at h2
                omega) hr90 hu32
          cases hl : Lumina.Model.ShareProof.rangeLoop h sp.namespaceId sp.data sp.shareProofs sp.rowProof.rowRoots with
          | panic => exact absurd hl hnopanic
          | err e => simp [specShareVerifyCore, shareResOf]
          | ok =>
            obtain ⟨ha, hsum⟩ := sharesNeeded_ok sp.shareProofs 0 needed hs
            simp only [ne_eq, Decidable.not_not] at h1 h2
            have hrow' : specRowVerify H all (rowObsOf sp.rowProof) rt .ok = true := hrow
            simp only [specShareVerifyCore, shareResOf, shareObsOf, List.length_map, Bool.and_eq_true, beq_iff_eq,
              Bool.or_eq_true, Bool.not_eq_true']
            refine ⟨⟨⟨⟨?_, ha⟩, by omega⟩, hrow'⟩, ?_⟩
            · simpa [rowObsOf] using h1
            · by_cases hc : (rt == some (treeRoot H all) &&
                  (rowObsOf sp.rowProof).proofs.all (fun p => p.total == all.length)) = true
              · right
                simp only [Bool.and_eq_true, beq_iff_eq, List.all_eq_true] at hc
                obtain ⟨hrt, htot⟩ := hc
                -- the row-proof spec gives the binding of every proven root
                simp only [specRowVerify, Bool.and_eq_true, Bool.or_eq_true, Bool.not_eq_true',
                  beq_eq_false_iff_ne, ne_eq] at hrow'
                obtain ⟨⟨⟨⟨_, hlr⟩, hlp⟩, _⟩, hbind⟩ := hrow'
                have hbind' : bindsAll H all sp.rowProof.rowRoots (sp.rowProof.proofs.map obsOf) = true := by
                  cases hbind with
                  | inl hne => exact absurd hrt hne
                  | inr hbd => exact hbd
                have htot' : ∀ p ∈ sp.rowProof.proofs, p.total = all.length := by
                  intro p hp
                  have := htot (obsOf p) (by simp only [rowObsOf]; exact List.mem_map_of_mem hp)
                  simpa [obsOf] using this
                have hlen : sp.rowProof.rowRoots.length = sp.rowProof.proofs.length := by
                  simp only [rowObsOf, List.length_map, beq_iff_eq] at hlr hlp
                  omega
                exact hsb hl hbind' htot' h1 hlen
              · left
                simpa using hc


open Lumina.Model.ShareProof (ShareProof) in
/-- the older, hypothesis-carrying form: the binding of the proven shares to the square rests on `NmtBinds h w sq all`
    ("`all` are the NMT roots of the axes of `sq`, and an nmt-rs range proof accepted against such a root, for a range
    inside the axis, proves exactly that range under its namespace").  Superseded by `shareproof_verify_sound`, which
    derives the binding; kept because it is independent of how the square is represented. -/
theorem shareproof_verify_sound_of_nmtBinds_partial [DecidableEq D] (H : HashFns D) (h : Lumina.Model.Nmt.HashFn)
    (hinj : InnerInj H) (hleaf : LeafInj H) (w : Nat) (sq all : List Bytes) (hn : NmtBinds h w sq all)
    (sp : ShareProof D) (rt : Option D) (hb : ∀ p ∈ sp.rowProof.proofs, p.total ≤ 2 ^ 63)
    (hr90 : ∀ r ∈ sp.rowProof.rowRoots, r.length = 90) (hu32 : ∀ p ∈ sp.shareProofs, Lumina.Proofs.Decoders.U32 p) :
    specShareVerifyCore H w sq all (shareObsOf sp) rt
      (shareResOf (Lumina.Model.ShareProof.verify H h sp rt)) = true :=
  shareproof_verify_sound_of_slices H h hinj hleaf w sq all sp rt hb hr90 hu32
    (fun hl hbind htot h1 hlen => slicesBound_of_ok H h w sq all hn sp.namespaceId sp.shareProofs
      sp.rowProof.rowRoots sp.rowProof.proofs sp.data hl hbind htot h1 hlen)

open Lumina.Model.ShareProof (ShareProof) in
open Lumina.Model.Eds (Eds Dah) in
/-- **share proofs fail if any proven root or share is altered or the counts do not match, and never abort** — the
    CORE of the rule (`specShareVerifyCore`; PARTIAL only in that the inner-node clause of `specShareVerify` is not proved
    of the model, see `ShareProofFullStatement`), at full strength otherwise: for every extended square `e` of
    power-of-two width with the quadrant parity flags and shares of at least 29 bytes (what `ExtendedDataSquare::new`
    establishes: `SquareShape`), its DAH, every share proof and every data root, `specShareVerifyCore` holds of the
    model's verdict, with `sq` = the raw square and `all` = the DAH's row and column roots.  The NMT binding is derived
    (`NmtMulti.nmtBinds_of_eds_on`, from the multi-leaf range-proof soundness `NmtMulti.checkRangeProof_multi_sound_on`).
    Hash hypotheses (both satisfiable, see the non-vacuity example at the end of the file): collision-free DAH tree
    hash (`InnerInj`, `LeafInj` over an abstract digest type) and `HashOKOn h S`: the NMT hash has 32-byte output and NO
    COLLISION AMONG THE INPUTS `S = NmtMulti.shareVerifyInputs h e ns data proofs` — the explicit finite list of byte
    strings hashed when the DAH of `e` is computed (`Eds.edsInputs`: every leaf and inner node of every row and column
    tree, and the empty string) and when this proof is verified (`NmtMulti.shareLoopInputs`: the leaf preimages of the
    presented shares under the claimed namespace and the `hash_nodes` inputs of each `check_range_proof`).
    Rust type invariants as hypotheses: merkle-proof totals ≤ 2^63 (i64 wire type), 29-byte namespace, 90-byte NMT
    siblings and row roots, `u32` range bounds.
    What is NOT claimed because nmt-rs does not bind it: ranges with `end > width` (the spec conditions on
    `end ≤ w`): a range proof carries no tree size, the verifier derives the shape from `(start, #siblings)`, so a
    range claimed beyond the real width can be accepted for shares that sit elsewhere (see `design_notes/C13.md`). -/
theorem shareproof_verify_sound_partial [DecidableEq D] (H : HashFns D) (h : Lumina.Model.Nmt.HashFn)
    (hinj : InnerInj H) (hleaf : LeafInj H)
    (e : Eds) (k : Nat) (hsq : Lumina.Proofs.NsData.SquareShape e) (hw : e.width = 2 ^ k)
    (dah : Dah) (hd : Dah.ofEds h e = .ok dah)
    (sp : ShareProof D) (rt : Option D)
    (hk : Lumina.Proofs.Nmt.HashOKOn h
      (fun y => y ∈ Lumina.Proofs.NmtMulti.shareVerifyInputs h e sp.namespaceId sp.data sp.shareProofs))
    (hb : ∀ p ∈ sp.rowProof.proofs, p.total ≤ 2 ^ 63)
    (hns : sp.namespaceId.length = 29) (hwf : ∀ p ∈ sp.shareProofs, ∀ x ∈ p.siblings, x.WF)
    (hr90 : ∀ r ∈ sp.rowProof.rowRoots, r.length = 90) (hu32 : ∀ p ∈ sp.shareProofs, Lumina.Proofs.Decoders.U32 p) :
    specShareVerifyCore H e.width (Lumina.Proofs.Sample.rawSquare e) dah.allRootsBytes (shareObsOf sp) rt
      (shareResOf (Lumina.Model.ShareProof.verify H h sp rt)) = true :=
  shareproof_verify_sound_of_slices H h hinj hleaf e.width _ _ sp rt hb hr90 hu32
    (fun hl hbind htot h1 hlen =>
      Lumina.Proofs.NmtMulti.slicesBound_of_ok_on H h _ e.width _ _
        (Lumina.Proofs.NmtMulti.nmtBinds_of_eds_on hk hsq hw hd
          (fun y hy => List.mem_append_left _ hy))
        sp.namespaceId hns sp.shareProofs sp.rowProof.rowRoots sp.rowProof.proofs sp.data hwf
        (fun y hy => List.mem_append_right _ hy) hl hbind htot h1 hlen)

/-- **reduction form with an explicit collision**: for ANY NMT hash with 32-byte output (e.g. SHA-256), either the
    core of the share-proof rule holds of the verdict, or the hash has a collision `x ≠ y`, `h x = h y` with BOTH `x`
    and `y` in the explicit finite list `NmtMulti.shareVerifyInputs` of inputs hashed by the DAH computation of the square
    and by the verification of this very proof.  (The right disjunct is false of a concrete hash unless such a collision
    really occurs among those few inputs — unlike "`h` is not injective", which holds of every 32-byte function.) -/
theorem shareproof_verify_sound_or_collision_partial [DecidableEq D] (H : HashFns D) (h : Lumina.Model.Nmt.HashFn)
    (hinj : InnerInj H) (hleaf : LeafInj H) (hl : Lumina.Proofs.Nmt.HashLen h)
    (e : Lumina.Model.Eds.Eds) (k : Nat) (hsq : Lumina.Proofs.NsData.SquareShape e) (hw : e.width = 2 ^ k)
    (dah : Lumina.Model.Eds.Dah) (hd : Lumina.Model.Eds.Dah.ofEds h e = .ok dah)
    (sp : Lumina.Model.ShareProof.ShareProof D) (rt : Option D) (hb : ∀ p ∈ sp.rowProof.proofs, p.total ≤ 2 ^ 63)
    (hns : sp.namespaceId.length = 29) (hwf : ∀ p ∈ sp.shareProofs, ∀ x ∈ p.siblings, x.WF)
    (hr90 : ∀ r ∈ sp.rowProof.rowRoots, r.length = 90) (hu32 : ∀ p ∈ sp.shareProofs, Lumina.Proofs.Decoders.U32 p) :
    specShareVerifyCore H e.width (Lumina.Proofs.Sample.rawSquare e) dah.allRootsBytes (shareObsOf sp) rt
      (shareResOf (Lumina.Model.ShareProof.verify H h sp rt)) = true ∨
    Lumina.Proofs.Nmt.CollisionIn h
      (fun y => y ∈ Lumina.Proofs.NmtMulti.shareVerifyInputs h e sp.namespaceId sp.data sp.shareProofs) := by
  rcases Lumina.Proofs.Nmt.noCollOn_or_collision h
      (fun y => y ∈ Lumina.Proofs.NmtMulti.shareVerifyInputs h e sp.namespaceId sp.data sp.shareProofs) with hn | hc
  · exact Or.inl (shareproof_verify_sound_partial H h hinj hleaf e k hsq hw dah hd sp rt ⟨hn, hl⟩ hb hns hwf hr90 hu32)
  · exact Or.inr hc

/-- the contrapositive reading: a share proof that is ACCEPTED although its shares are not the claimed in-width range of
    the proven axis under the claimed namespace (or any other violation of the core rule) yields an explicit collision
    of the NMT hash among the inputs hashed by the DAH computation and by this verification -/
theorem shareproof_core_violation_yields_collision [DecidableEq D] (H : HashFns D) (h : Lumina.Model.Nmt.HashFn)
    (hinj : InnerInj H) (hleaf : LeafInj H) (hl : Lumina.Proofs.Nmt.HashLen h)
    (e : Lumina.Model.Eds.Eds) (k : Nat) (hsq : Lumina.Proofs.NsData.SquareShape e) (hw : e.width = 2 ^ k)
    (dah : Lumina.Model.Eds.Dah) (hd : Lumina.Model.Eds.Dah.ofEds h e = .ok dah)
    (sp : Lumina.Model.ShareProof.ShareProof D) (rt : Option D) (hb : ∀ p ∈ sp.rowProof.proofs, p.total ≤ 2 ^ 63)
    (hns : sp.namespaceId.length = 29) (hwf : ∀ p ∈ sp.shareProofs, ∀ x ∈ p.siblings, x.WF)
    (hr90 : ∀ r ∈ sp.rowProof.rowRoots, r.length = 90) (hu32 : ∀ p ∈ sp.shareProofs, Lumina.Proofs.Decoders.U32 p)
    (hbad : specShareVerifyCore H e.width (Lumina.Proofs.Sample.rawSquare e) dah.allRootsBytes (shareObsOf sp) rt
      (shareResOf (Lumina.Model.ShareProof.verify H h sp rt)) = false) :
    ∃ x y, x ∈ Lumina.Proofs.NmtMulti.shareVerifyInputs h e sp.namespaceId sp.data sp.shareProofs ∧
      y ∈ Lumina.Proofs.NmtMulti.shareVerifyInputs h e sp.namespaceId sp.data sp.shareProofs ∧ x ≠ y ∧ h x = h y := by
  rcases shareproof_verify_sound_or_collision_partial H h hinj hleaf hl e k hsq hw dah hd sp rt hb hns hwf hr90 hu32
    with ht | hc
  · rw [hbad] at ht; cases ht
  · exact hc

/-- The full share-proof rule of `Spec/C13.lean` (`specShareVerify` = `specShareVerifyCore` ∧ the inner-node clause
    `siblingsBound`: each in-width group's NMT siblings together with its shares recompute the proven row root).
    PROVED of the model: the core (`shareproof_verify_sound_partial`).  NOT yet proved of the model: the inner-node
    clause — it needs "nmt-rs `check_range_proof` accepted against the root of a perfect tree ⇒ the left-to-right
    recomputation over that tree reproduces the root", which (like the share binding) holds only up to collisions of
    the NMT hash and belongs with the NMT range-proof soundness lemmas being reworked (audit X1).  The clause IS
    evaluated on every implementation result by the driver (`specShareVerify`, SHA-256). -/
def ShareProofFullStatement {D : Type} [DecidableEq D] (H : HashFns D) (h : Lumina.Model.Nmt.HashFn)
    (e : Lumina.Model.Eds.Eds) (dah : Lumina.Model.Eds.Dah) (sp : Lumina.Model.ShareProof.ShareProof D)
    (rt : Option D) : Prop :=
  specShareVerify H h e.width (Lumina.Proofs.Sample.rawSquare e) dah.allRootsBytes
    { data := sp.data, ns := sp.namespaceId,
      sproofs := sp.shareProofs.map (fun p => { start := p.start, end_ := p.end_, isAbsence := p.isAbsence,
                                                 siblings := p.siblings.map Lumina.Model.Nmt.NsHash.toBytes }),
      row := rowObsOf sp.rowProof } rt
    (shareResOf (Lumina.Model.ShareProof.verify H h sp rt)) = true

/-- The ORIGINAL `ShareProof::verify` (before /repo 292f2b8) violates the property: two range proofs of 2^31 leaves
    each make the `u32` sum `shares_needed` overflow — the verification of a decodable proof ABORTS (debug build; in a
    release build the sum wraps to 0, an empty `data` passes the count check and slicing it panics).  Whatever the
    hashes, roots and data are. -/
theorem shareproof_verifyOrig_counterexample :
    let p : Lumina.Model.Nmt.NsProof := ⟨0, 2147483648, [], true, false, none⟩
    let sp : Lumina.Model.ShareProof.ShareProof Term :=
      { data := [], namespaceId := [], shareProofs := [p, p],
        rowProof := { rowRoots := [[], []], proofs := [], startRow := 0, endRow := 1 } }
    Lumina.Model.ShareProof.verifyOrig termFns (fun _ => []) sp none = .panic ∧
      specShareVerifyCore termFns 2 [] [] (shareObsOf sp) none
        (shareResOf (Lumina.Model.ShareProof.verifyOrig termFns (fun _ => []) sp none)) = false := by
  decide

open Lumina.Model.ShareProof (ShareProof) in
open Lumina.Model.Eds (Eds Dah) in
/-- **share proofs built from a DAH verify against its hash** (the honest construction: for `ranges.length` consecutive
    rows starting at `r0`, the shares of a column range and `row_nmt(row).build_range_proof(range)`, plus
    `dah.row_proof(r0..=r0+len-1)`): for every square with the quadrant parity flags, shares of at least 29 bytes and
    width ≤ 65535 whose DAH exists, every non-empty list of non-empty in-width ranges inside the square whose shares all
    carry the namespace `ns`, the proof is built and `ShareProof::verify` accepts it against `dah.hash()`.
    Needs only that the NMT hash has 32-byte output (so that a root survives `to_array`/`from_raw`); no collision
    hypothesis.  Rests on `NmtMulti.range_complete` (multi-leaf range-proof completeness for any tree size). -/
theorem shareproof_build_complete [DecidableEq D] (H : HashFns D) (h : Lumina.Model.Nmt.HashFn)
    (hl : Lumina.Proofs.Nmt.HashLen h) (e : Eds) (hsq : Lumina.Proofs.NsData.SquareShape e) (hw : e.width ≤ 65535)
    (dah : Dah) (hd : Dah.ofEds h e = .ok dah) (ns : Bytes) (r0 : Nat) (ranges : List (Nat × Nat))
    (hne : ranges ≠ []) (hrows : r0 + ranges.length ≤ e.width)
    (hrg : ∀ i s en shares, ranges[i]? = some (s, en) → e.row? (r0 + i) = some shares →
      s < en ∧ en ≤ e.width ∧ ∀ sh ∈ (shares.drop s).take (en - s), sh.ns = ns) :
    specShareBuildVerifies
      (match Lumina.Model.ShareProof.build H h e dah ns r0 ranges with
       | .ok sp => shareResOf (Lumina.Model.ShareProof.verify H h sp
           (some (Lumina.Model.RowProof.dahHash H (dah.rowRoots.map Lumina.Model.Nmt.NsHash.toBytes)
             (dah.colRoots.map Lumina.Model.Nmt.NsHash.toBytes))))
       | .err => .err
       | .panic => .panic) = true := by
  obtain ⟨hrl, hcl, _, _⟩ := Lumina.Proofs.Eds.dah_ofEds_roots hd
  have hlen1 : 1 ≤ ranges.length := by
    cases ranges with
    | nil => exact absurd rfl hne
    | cons a t => simp
  have hall : dah.allRootsBytes = dah.rowRoots.map Lumina.Model.Nmt.NsHash.toBytes ++
      dah.colRoots.map Lumina.Model.Nmt.NsHash.toBytes := by
    unfold Dah.allRootsBytes; rw [List.map_append]
  have hsz : (dah.rowRoots.map Lumina.Model.Nmt.NsHash.toBytes ++
      dah.colRoots.map Lumina.Model.Nmt.NsHash.toBytes).length ≤ 2 ^ 63 := by
    simp only [List.length_append, List.length_map, hrl, hcl]; omega
  have hrb := rowproof_build_complete H (dah.rowRoots.map Lumina.Model.Nmt.NsHash.toBytes)
    (dah.colRoots.map Lumina.Model.Nmt.NsHash.toBytes) r0 (r0 + ranges.length - 1) hsz
  cases hrp : Lumina.Model.RowProof.rowProof H (dah.rowRoots.map Lumina.Model.Nmt.NsHash.toBytes)
      (dah.colRoots.map Lumina.Model.Nmt.NsHash.toBytes) r0 (r0 + ranges.length - 1) with
  | error er =>
    rw [hrp] at hrb
    simp only [specRowBuild, List.length_map, hrl, decide_eq_true_eq] at hrb
    omega
  | ok rp =>
    rw [hrp] at hrb
    have hse : r0 ≤ r0 + ranges.length - 1 := by omega
    simp only [specRowBuild, hse, ↓reduceIte, Bool.and_eq_true, beq_iff_eq, decide_eq_true_eq, rowObsOf,
      List.length_map] at hrb
    obtain ⟨⟨⟨_, hst⟩, hen⟩, ⟨⟨⟨_, hrrl⟩, hpo⟩, hver⟩⟩ := hrb
    have hrv : Lumina.Model.RowProof.verify H rp (some (Lumina.Model.RowProof.dahHash H
        (dah.rowRoots.map Lumina.Model.Nmt.NsHash.toBytes) (dah.colRoots.map Lumina.Model.Nmt.NsHash.toBytes))) = .ok := by
      cases hv : Lumina.Model.RowProof.verify H rp (some (Lumina.Model.RowProof.dahHash H
        (dah.rowRoots.map Lumina.Model.Nmt.NsHash.toBytes) (dah.colRoots.map Lumina.Model.Nmt.NsHash.toBytes))) with
      | ok => rfl
      | err er => rw [hv] at hver; simp [rowResOf] at hver
      | panic => rw [hv] at hver; simp [rowResOf] at hver
    rw [← hall] at hpo
    obtain ⟨d, ps, hbl, hpsl, hdl, hsn, hrloop⟩ := Lumina.Proofs.NmtMulti.buildLoop_ok H hl hd hsq.size hw ns ranges r0
      rp.rowRoots (rp.proofs.map obsOf) hrows (by omega) hpo hrg
    have hbuild : Lumina.Model.ShareProof.build H h e dah ns r0 ranges =
        .ok { data := d, namespaceId := ns, shareProofs := ps, rowProof := rp } := by
      unfold Lumina.Model.ShareProof.build
      simp only [hbl, hrp]
    rw [hbuild]
    simp only
    have hd32 : 0 + d.length ≤ Lumina.Model.ShareProof.u32Max := by
      have h1 : ranges.length * e.width ≤ 65535 * 65535 := Nat.mul_le_mul (by omega) hw
      simp [Lumina.Model.ShareProof.u32Max]; omega
    have hsn0 := hsn 0 hd32
    unfold Lumina.Model.ShareProof.verify Lumina.Model.ShareProof.verifyWith
    simp only
    rw [if_neg (by omega), hsn0]
    simp only
    rw [if_neg (by omega), hrv]
    simp only
    rw [hrloop]
    rfl

/-- the unconditional part: whatever the NMT is, an accepted share proof has one presence range
    proof with a non-empty range per proven row root, exactly as many shares as the ranges add up
    to, and an accepted row proof (hence all of `rowproof_verify_sound`) -/
theorem shareproof_verify_structure [DecidableEq D] (H : HashFns D) (h : Lumina.Model.Nmt.HashFn)
    (sp : Lumina.Model.ShareProof.ShareProof D) (rt : Option D)
    (hv : Lumina.Model.ShareProof.verify H h sp rt = .ok) :
    sp.shareProofs.length = sp.rowProof.rowRoots.length ∧
    (∀ p ∈ sp.shareProofs, p.isAbsence = false ∧ p.start < p.end_) ∧
    ((sp.shareProofs.map (fun p => p.end_ - p.start)).sum = sp.data.length) ∧
    Lumina.Model.RowProof.verify H sp.rowProof rt = .ok := by
  unfold Lumina.Model.ShareProof.verify Lumina.Model.ShareProof.verifyWith at hv
  by_cases h1 : sp.shareProofs.length ≠ sp.rowProof.rowRoots.length
  · simp [h1] at hv
  · rw [if_neg h1] at hv
    cases hs : Lumina.Model.ShareProof.sharesNeeded 0 sp.shareProofs with
    | error o =>
      have := sharesNeeded_error_ne_ok sp.shareProofs 0
      rw [hs] at hv this; cases o <;> simp at hv this
    | ok needed =>
      rw [hs] at hv
      simp only at hv
      by_cases h2 : needed ≠ sp.data.length
      · simp [h2] at hv
      · rw [if_neg h2] at hv
        cases hr : Lumina.Model.RowProof.verify H sp.rowProof rt with
        | panic => rw [hr] at hv; simp at hv
        | err e => rw [hr] at hv; simp at hv
        | ok =>
          obtain ⟨ha, hsum⟩ := sharesNeeded_ok sp.shareProofs 0 needed hs
          simp only [ne_eq, Decidable.not_not] at h1 h2
          refine ⟨h1, ?_, ?_, rfl⟩
          · intro p hp
            simp only [List.all_eq_true, List.mem_map, forall_exists_index, and_imp,
              forall_apply_eq_imp_iff₂, Bool.and_eq_true, Bool.not_eq_true', decide_eq_true_eq] at ha
            exact ha p hp
          · simp only [List.map_map] at hsum
            have : (fun p => p.end_ - p.start) ∘ nobsOf = fun (p : Lumina.Model.Nmt.NsProof) => p.end_ - p.start := rfl
            rw [this] at hsum
            omega

/-! ## non-vacuity -/

/-- the collision-freeness hypotheses are satisfiable (free term algebra) … -/
example : InnerInj termFns ∧ LeafInj termFns ∧ LeafNeInner termFns :=
  ⟨termFns_innerInj, termFns_leafInj, termFns_leafNeInner⟩

/-- … and `merkle_sound`'s hypotheses are met by a concrete non-trivial proof: leaf 2 of a 3-leaf
    tree (right spine), built by the model of `MerkleProof::new` -/
example :
    let L : List Bytes := [[1], [2], [3]]
    let p : Proof Term := { index := 2, total := 3, leafHash := .leaf [3],
                            aunts := [.inner (.leaf [1]) (.leaf [2])] }
    p.verify termFns [3] (.inner (.inner (.leaf [1]) (.leaf [2])) (.leaf [3])) = .ok ∧ p.total = L.length := by
  decide

/-- a row proof meeting `rowproof_verify_sound`'s bound, accepted by the model -/
example :
    let rp : RowProof Term :=
      { rowRoots := [[7]], proofs := [{ index := 0, total := 2, leafHash := .leaf [7], aunts := [.leaf [8]] }],
        startRow := 0, endRow := 0 }
    (∀ p ∈ rp.proofs, p.total ≤ 2 ^ 63) ∧
      Lumina.Model.RowProof.verify termFns rp (some (.inner (.leaf [7]) (.leaf [8]))) = .ok := by
  decide

/-! ### non-vacuity of `shareproof_verify_sound_partial` — ALL hypotheses, including the hash hypothesis

Concrete 2×2 square of 512-byte shares (`Props/C04`), toy 32-byte NMT hash `NmtMulti.toyH` (polynomial hash), free term
algebra for the DAH tree.  The toy hash is collision-free on the 20-odd inputs of `shareVerifyInputs` (checked by kernel
evaluation), so `HashOKOn` holds; the model accepts the honest proof; the main theorem applies and says something. -/

open Lumina.Props.C04 (okEds nonvacuity_okEds_valid) in
open Lumina.Proofs.NmtMulti (toyH) in
/-- the DAH of the concrete square under the toy hash -/
def okDahT : Lumina.Model.Eds.Dah :=
  match Lumina.Model.Eds.Dah.ofEds toyH okEds with
  | .ok d => d
  | .error _ => default

open Lumina.Props.C04 (okEds nonvacuity_okEds_valid) in
open Lumina.Proofs.NmtMulti (toyH) in
/-- the honest share proof for share (0,0) of the concrete square, built by the model of the honest construction -/
def okShareProof : Lumina.Model.ShareProof.ShareProof Term :=
  match Lumina.Model.ShareProof.build termFns toyH okEds okDahT (List.replicate 29 0) 0 [(0, 1)] with
  | .ok sp => sp
  | _ => ⟨[], [], [], ⟨[], [], 0, 0⟩⟩

/-- the data root the concrete proof is verified against -/
def okDataRoot : Term :=
  Lumina.Model.RowProof.dahHash termFns (okDahT.rowRoots.map Lumina.Model.Nmt.NsHash.toBytes)
    (okDahT.colRoots.map Lumina.Model.Nmt.NsHash.toBytes)

open Lumina.Props.C04 (okEds nonvacuity_okEds_valid) in
open Lumina.Proofs.NmtMulti (toyH toyH_len hashOKOn_of_list shareVerifyInputs) in
set_option maxRecDepth 100000 in
/-- every hypothesis of `shareproof_verify_sound_partial` is met — in particular the toy hash has no collision among
    the inputs `shareVerifyInputs` — the model ACCEPTS the proof, and the theorem, applied, yields the core rule for an
    accepted proof (its shares are the claimed range of the proven row) -/
example :
    Lumina.Model.ShareProof.verify termFns toyH okShareProof (some okDataRoot) = .ok ∧
    specShareVerifyCore termFns okEds.width (Lumina.Proofs.Sample.rawSquare okEds) okDahT.allRootsBytes
      (shareObsOf okShareProof) (some okDataRoot) .ok = true := by
  have hdah : Lumina.Model.Eds.Dah.ofEds toyH okEds = .ok okDahT := by
    have h : (match Lumina.Model.Eds.Dah.ofEds toyH okEds with | .ok _ => true | .error _ => false) = true := by
      decide +kernel
    unfold okDahT
    cases hd : Lumina.Model.Eds.Dah.ofEds toyH okEds with
    | ok d => rfl
    | error e => rw [hd] at h; cases h
  have hshape : Lumina.Proofs.NsData.SquareShape okEds :=
    ⟨nonvacuity_okEds_valid.flags, fun sh hm => by rw [nonvacuity_okEds_valid.size sh hm]; decide⟩
  have hok : Lumina.Proofs.Nmt.HashOKOn toyH
      (fun y => y ∈ shareVerifyInputs toyH okEds okShareProof.namespaceId okShareProof.data okShareProof.shareProofs) :=
    hashOKOn_of_list toyH_len (by decide +kernel)
  have hacc : Lumina.Model.ShareProof.verify termFns toyH okShareProof (some okDataRoot) = .ok := by decide +kernel
  have hmain := shareproof_verify_sound_partial termFns toyH termFns_innerInj termFns_leafInj okEds 1 hshape rfl
    okDahT hdah okShareProof (some okDataRoot) hok (by decide +kernel) (by decide +kernel) (by decide +kernel)
    (by decide +kernel) (by unfold Lumina.Proofs.Decoders.U32; decide +kernel)
  rw [hacc] at hmain
  exact ⟨hacc, hmain⟩

open Lumina.Props.C04 (toyH32 okEds okDah nonvacuity_okEds_valid nonvacuity_toyH32_len) in
/-- the hypotheses of `shareproof_build_complete` are met by the concrete square, row 0, range 0..1 of the all-zero
    namespace (the proof it builds is `okShareProof` above) -/
example : okEds.width ≤ 65535 ∧ ([(0, 1)] : List (Nat × Nat)) ≠ [] ∧ 0 + ([(0, 1)] : List (Nat × Nat)).length ≤ okEds.width ∧
    (∀ i s en shares, ([(0, 1)] : List (Nat × Nat))[i]? = some (s, en) → okEds.row? (0 + i) = some shares →
      s < en ∧ en ≤ okEds.width ∧ ∀ sh ∈ (shares.drop s).take (en - s), sh.ns = List.replicate 29 0) := by
  refine ⟨by decide, by decide, by decide, ?_⟩
  intro i s en shares hi hrow
  cases i with
  | succ j => simp at hi
  | zero =>
    simp only [List.getElem?_cons_zero, Option.some.injEq, Prod.mk.injEq] at hi
    obtain ⟨rfl, rfl⟩ := hi
    have h2 : okEds.row? (0 + 0) = some [⟨List.replicate 512 0, false⟩, ⟨List.replicate 512 1, true⟩] := by decide +kernel
    rw [h2] at hrow
    injection hrow with hrow
    subst hrow
    decide +kernel

end Lumina.Props.C13

/-
  C29 — Header-ex server answers every request correctly without crashing.   PROPERTY THEOREMS ONLY.

  Model: Lumina/Model/HeaderExServer.lean (`serve false …` = the handler after the `fix:` commit
  that replaced `origin + amount` by `origin.saturating_add(amount)`; `serve true …` = before).
  Spec: Lumina/Spec/C29.lean.
-/
import Lumina.Proofs.HeaderExServer
import Lumina.Gen.C29

namespace Lumina.Props.C29
open Lumina.Util Lumina.Model.HeaderExServer Lumina.Proofs.HeaderExServer Lumina.Gen.C29
open Lumina.Model.Framing (HeaderRequest ReqData)
open Lumina.Spec.C29 (Entry Obs Req specServe storedAt storedWithHash isHead isRunFrom)

def obsOf : Outcome → Obs
  | .responses rs => .responses (rs.map toResp)
  | .panic => .panic
  | .nothing => .responses []

def reqOf (r : HeaderRequest) : Req :=
  match r.data with
  | .none => .noData r.amount
  | .origin o => .origin o r.amount
  | .hash h => .hash h r.amount

/-- stored heights are tendermint heights (at most `i64::MAX`) -/
def StoreInv (s : Store) : Prop := ∀ e ∈ s, e.height < 2 ^ 63

/-- request fields are `u64`s -/
def ReqInv (r : HeaderRequest) : Prop :=
  r.amount < 2 ^ 64 ∧ match r.data with | .origin o => o < 2 ^ 64 | _ => True

/-- the cap the property quotes -/
theorem consts_eq : MAX_HEADERS_AMOUNT_RESPONSE = 512 := by decide

/-- **every request, every store**: no panic, and the answer is the one the property prescribes
    (head / longest run capped at min(amount, 512) / by hash / single invalid) -/
theorem serve_spec (s : Store) (r : HeaderRequest) (hs : StoreInv s) (hr : ReqInv r) :
    specServe (s.map toEntry) (reqOf r) (obsOf (serve false MAX_HEADERS_AMOUNT_RESPONSE s false r)) = true := by
  obtain ⟨amount, data⟩ := r
  obtain ⟨ha, hd⟩ := hr
  simp only at ha hd
  rw [consts_eq]
  cases data with
  | none => simp [serve, isValid, reqOf, obsOf, specServe, toResp]
  | hash h =>
    by_cases ha0 : amount = 0
    · simp [serve, isValid, reqOf, obsOf, specServe, toResp, ha0]
    · by_cases hbad : h.length ≠ 32 ∨ amount > 1
      · have : ¬ (h.length = 32 ∧ amount = 1) := by omega
        simp [serve, isValid, reqOf, obsOf, specServe, toResp, ha0, hbad, this, HASH_SIZE]
      · have hok : h.length = 32 ∧ amount = 1 := by omega
        simp only [serve, isValid, reqOf, obsOf, specServe, HASH_SIZE, hok]
        simp only [Bool.false_eq_true, ↓reduceIte, ne_eq, not_true_eq_false, and_self, storedWithHash_eq]
        cases getByHash s h <;> simp [respOf, toResp]
  | origin o =>
    simp only at hd
    by_cases ha0 : amount = 0
    · simp [serve, isValid, reqOf, obsOf, specServe, toResp, ha0]
    · by_cases ho : o = 0
      · subst ho
        by_cases ha1 : amount = 1
        · subst ha1
          by_cases hse : s = []
          · subst hse; simp [serve, isValid, reqOf, obsOf, specServe, getHead, respOf, toResp]
          · obtain ⟨m, hm, hmem, hall⟩ := getHead_spec s hse
            have : s.isEmpty = false := by cases s <;> simp_all
            simp [serve, isValid, reqOf, obsOf, specServe, this, hm, respOf, toResp]
            exact isHead_of_max s m hmem hall
        · have : amount > 1 := by omega
          simp [serve, isValid, reqOf, obsOf, specServe, toResp, ha0, ha1, this]
      · -- height request
        have hv : isValid { amount := amount, data := .origin o } = true := by
          simp [isValid, ha0, ho]
        simp only [serve, hv, reqOf, specServe, ha0, ho, Bool.false_eq_true, ↓reduceIte, Bool.not_true,
          byHeight, Bool.false_and]
        obtain ⟨h1, h2, h3⟩ := collect_spec s (min (o + min amount 512) U64_MAX - o) o
        cases hg : getByHeight s o with
        | none =>
          have hnone : (storedAt (s.map toEntry) o).isNone = true := by rw [storedAt_eq, hg]; rfl
          have hc : collect s o (min (o + min amount 512) U64_MAX - o) = [] := by
            cases (min (o + min amount 512) U64_MAX - o) <;> simp [collect, hg]
          simp [hnone, hc, obsOf, toResp]
        | some e =>
          have hsome : (storedAt (s.map toEntry) o).isNone = false := by rw [storedAt_eq, hg]; rfl
          have ⟨hmem, hh⟩ := getByHeight_height s o e hg
          have ho63 : o < 2 ^ 63 := by have := hs e hmem; omega
          have hn : min (o + min amount 512) U64_MAX - o = min amount 512 := by
            unfold U64_MAX; omega
          rw [hn] at h1 h2 h3 ⊢
          have hne := collect_nonempty s o (min amount 512) e hg (by omega)
          have hnotempty : (collect s o (min amount 512)).isEmpty = false := by
            cases hc : collect s o (min amount 512) with
            | nil => rw [hc] at hne; simp at hne
            | cons a t => rfl
          simp only [hsome, Bool.false_eq_true, ↓reduceIte, hnotempty, obsOf, List.length_map, h2,
            Bool.and_true, Bool.and_eq_true, decide_eq_true_eq, Bool.or_eq_true, beq_iff_eq,
            Option.isNone_iff_eq_none]
          exact ⟨⟨hne, h1⟩, h3⟩

/-- the same statement read as "never panics" -/
theorem serve_no_panic (s : Store) (r : HeaderRequest) (stopping : Bool) :
    serve false MAX_HEADERS_AMOUNT_RESPONSE s stopping r ≠ .panic := by
  unfold serve byHeight
  split
  · simp
  · split
    · simp
    · split <;> (try split) <;> simp

/-- the handler BEFORE the fix: an origin within `amount` of `u64::MAX` overflows `origin + amount`
    (debug-build panic) — the finding repaired by the `fix:` commit -/
theorem unfixed_overflow_counterexample :
    serve true 512 [] false { amount := 1, data := .origin U64_MAX } = .panic := by decide

/-- once stopping, requests are dropped without an answer -/
theorem stopped_is_silent (c : Bool) (s : Store) (r : HeaderRequest) :
    serve c MAX_HEADERS_AMOUNT_RESPONSE s true r = .nothing := rfl

/-- non-vacuity: a store with a gap, a height request across it -/
example : StoreInv [⟨5, [1], [50]⟩, ⟨6, [2], [60]⟩, ⟨8, [3], [80]⟩] := by
  intro e he; simp at he; rcases he with h | h | h <;> subst h <;> decide
example : serve false 512 [⟨5, [1], [50]⟩, ⟨6, [2], [60]⟩, ⟨8, [3], [80]⟩] false ⟨10, .origin 5⟩ =
    .responses [.ok [50], .ok [60]] := by decide

end Lumina.Props.C29

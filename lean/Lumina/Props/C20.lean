/-
  C20 — Failed store operations leave the store unchanged.
-/
import Lumina.Model.Store
import Lumina.Gen.C20

open Lumina.Model.Store

namespace Lumina.Props.C20

/-- the models are of schema version 3 of the redb store -/
theorem schema_version : Lumina.Gen.C20.SCHEMA_VERSION = 3 := by decide

def cexV : Hdr → Hdr → Bool := fun _ _ => true
def hd (i height hash : Nat) : Hdr := ⟨i, height, hash, true⟩
/-- heights 1, 2 stored -/
def cexStore : MemStore := (MemStore.stepWith false cexV MemStore.new (.insert [hd 0 1 100, hd 1 2 101])).1
/-- a batch 3..4 whose second header repeats the hash of the stored header 1 -/
def cexBatch : List Hdr := [hd 2 3 102, hd 3 4 100]

/-- FINDING (code before the `fix:` commit, `precheck = false`): the in-memory store rejects the
    batch with `HashExists`, but `get_by_height(3)` answers differently afterwards. -/
theorem mem_prefix_counterexample :
    (MemStore.stepWith false cexV cexStore (.insert cexBatch)).2 = .err (.hashExists 100) ∧
    (MemStore.stepWith false cexV (MemStore.stepWith false cexV cexStore (.insert cexBatch)).1 (.getByHeight 3)).2
      = .ok (.hdr (hd 2 3 102)) ∧
    (MemStore.stepWith false cexV cexStore (.getByHeight 3)).2 = .err .notFound := by
  decide

end Lumina.Props.C20

/-
  C20 — Failed store operations leave the store unchanged.

  For both store models: whenever a call returns an error, the STATE after the call is the
  state before it (hence every query answers the same, and a rejected batch can be corrected
  and inserted again).  In-memory store: for every reachable state (any history), proved for
  the code AFTER the `fix:` commit f29ec8a (hash pre-check in `insert`); the code before it
  violates the property (`mem_prefix_counterexample`).  Redb store: for every state whatsoever,
  from `write_tx` as written (commit only when the closure returned `Ok`) and the redb contract
  that `abort` discards the transaction's working copy (`RedbStore.WriteTxn`).
-/
import Lumina.Proofs.StoreHist
import Lumina.Gen.C20

open Lumina.Model.Store Lumina.Spec.C19
open Lumina.Model
open Lumina.Proofs.Store

namespace Lumina.Props.C20

/-- the models are of schema version 3 of the redb store -/
theorem schema_version : Lumina.Gen.C20.SCHEMA_VERSION = 3 := by decide

/-- IN-MEMORY STORE: after any history, a call that fails (any error kind: constraints,
    neighbour verification, header verification, duplicate hash anywhere in the batch, not
    found) leaves the state exactly as it was. -/
theorem mem_failed_op_unchanged (v : Hdr → Hdr → Bool) (ops : List Op) (op : Op)
    (hw : AllWf ops) (hop : op.wf = true) :
    let m := (runOps (MemStore.step v) MemStore.new ops).1
    (MemStore.step v m op).2.isErr = true → (MemStore.step v m op).1 = m := by
  obtain ⟨_, r, hi⟩ := mem_run_sim v ops hw _ _ rm_init absInv_init
  exact (mem_step_sim r hi v op hop).2.2

/-- … therefore every query answers the same before and after the failed call -/
theorem mem_failed_op_observations_unchanged (v : Hdr → Hdr → Bool) (ops : List Op) (op q : Op)
    (hw : AllWf ops) (hop : op.wf = true) :
    let m := (runOps (MemStore.step v) MemStore.new ops).1
    (MemStore.step v m op).2.isErr = true →
      (MemStore.step v (MemStore.step v m op).1 q).2 = (MemStore.step v m q).2 := by
  intro m h
  rw [mem_failed_op_unchanged v ops op hw hop h]

/-- … and a rejected batch can be corrected and re-inserted: the store behaves on the next
    call as if the failed call had never been made -/
theorem mem_failed_op_then (v : Hdr → Hdr → Bool) (ops : List Op) (op next : Op)
    (hw : AllWf ops) (hop : op.wf = true) :
    let m := (runOps (MemStore.step v) MemStore.new ops).1
    (MemStore.step v m op).2.isErr = true →
      MemStore.step v (MemStore.step v m op).1 next = MemStore.step v m next := by
  intro m h
  rw [mem_failed_op_unchanged v ops op hw hop h]

/-- REDB STORE: in ANY state a failed call leaves the committed tables unchanged.  Stated on
    `RedbStore.stepL`, the transcription of `write_tx` as written (begin, run the closure on the
    transaction, `if res.is_ok() { commit } else { abort }`), for EVERY `dirty` = whatever the
    failing closure had already written into the transaction.  Uses lumina's branch and the redb
    contract `WriteTxn.abort` (abort discards the working copy; crash behaviour is C22). -/
theorem redb_failed_op_unchanged (dirty : Tables → Tables) (v : Hdr → Hdr → Bool) (t : Tables) (op : Op) :
    (RedbStore.stepL dirty v t op).2.isErr = true → (RedbStore.stepL dirty v t op).1 = t :=
  redb_errL_unchanged dirty v t op

/-- `write_tx` as written realises the all-or-nothing summary `RedbStore.step` that the
    refinement theorems of C19/C21 and the driver use, whatever a failing closure leaves behind -/
theorem redb_write_tx_realises_summary (dirty : Tables → Tables) (v : Hdr → Hdr → Bool) (t : Tables) (op : Op) :
    RedbStore.stepL dirty v t op = RedbStore.step v t op :=
  stepL_eq_step dirty v t op

/-- … hence the statement on the summary too -/
theorem redb_summary_failed_op_unchanged (v : Hdr → Hdr → Bool) (t : Tables) (op : Op) :
    (RedbStore.step v t op).2.isErr = true → (RedbStore.step v t op).1 = t :=
  redb_err_unchanged v t op

/-- the in-memory store never panics (a panic could leave a partial mutation behind) -/
theorem mem_no_panic (v : Hdr → Hdr → Bool) (ops : List Op) (op : Op)
    (hw : AllWf ops) (hop : op.wf = true) :
    (MemStore.step v (runOps (MemStore.step v) MemStore.new ops).1 op).2 ≠ .err .panic := by
  obtain ⟨_, r, hi⟩ := mem_run_sim v ops hw _ _ rm_init absInv_init
  rw [(mem_step_sim r hi v op hop).1]
  exact abs_never_panics v _ op

/-! ### the finding (code before the `fix:` commit) and non-vacuity -/

def cexV : Hdr → Hdr → Bool := fun _ _ => true
def hd (i height hash : Nat) : Hdr := ⟨i, height, hash, true⟩
/-- heights 1, 2 stored -/
def cexStore : MemStore := (MemStore.stepWith false cexV MemStore.new (.insert [hd 0 1 100, hd 1 2 101])).1
/-- a batch 3..4 whose second header repeats the hash of the stored header 1 -/
def cexBatch : List Hdr := [hd 2 3 102, hd 3 4 100]

/-- FINDING (code before the fix, `precheck = false`): the in-memory store rejects the batch
    with `HashExists`, but `get_by_height(3)` answers differently afterwards. -/
theorem mem_prefix_counterexample :
    (MemStore.stepWith false cexV cexStore (.insert cexBatch)).2 = .err (.hashExists 100) ∧
    (MemStore.stepWith false cexV (MemStore.stepWith false cexV cexStore (.insert cexBatch)).1 (.getByHeight 3)).2
      = .ok (.hdr (hd 2 3 102)) ∧
    (MemStore.stepWith false cexV cexStore (.getByHeight 3)).2 = .err .notFound := by
  decide

/-- the same call on the fixed code: same error, state untouched -/
example : (MemStore.step cexV cexStore (.insert cexBatch)).2 = .err (.hashExists 100) ∧
    (MemStore.step cexV cexStore (.insert cexBatch)).1.headers = cexStore.headers ∧
    (MemStore.step cexV (MemStore.step cexV cexStore (.insert cexBatch)).1 (.getByHeight 3)).2 = .err .notFound := by
  decide

/-- failing calls of every kind exist (the hypotheses of the theorems are not vacuous) -/
example : (MemStore.step cexV cexStore (.insert [hd 1 2 101])).2 = .err (.constraintsNotMet .overlap) ∧
    (MemStore.step cexV cexStore (.insert [hd 7 9 107, hd 9 11 109])).2 = .err .headersVerificationFailed ∧
    (MemStore.step (fun _ _ => false) cexStore (.insert [hd 2 3 102])).2 = .err .neighborsVerificationFailed ∧
    (MemStore.step cexV cexStore (.remove 7)).2 = .err .notFound ∧
    (RedbStore.stepL id cexV RedbStore.new (.mark 3)).2 = .err .notFound := by
  decide

/-- the redb theorem is about lumina's branch, not true by construction: a `write_tx` that
    committed on the error path too would publish the partial writes of a failing closure -/
def writeTxCommitAlways {α : Type} (dirty : Tables → Tables) (f : Tables → Except Err (Tables × α)) (t : Tables) :
    Tables × Except Err α :=
  let (tx, res) := (RedbStore.beginWrite t).run f dirty
  (tx.commit, res)

example : ∃ (dirty : Tables → Tables) (t : Tables),
    (toRes (writeTxCommitAlways dirty (RedbStore.removeHeightTx 7) t).2 (fun _ => Out.unit)).isErr = true ∧
    (writeTxCommitAlways dirty (RedbStore.removeHeightTx 7) t).1 ≠ t :=
  ⟨fun t => { t with headers := [(9, hd 9 9 109)] }, RedbStore.new, by decide, by
    intro h
    have : (writeTxCommitAlways (fun t => { t with headers := [(9, hd 9 9 109)] })
        (RedbStore.removeHeightTx 7) RedbStore.new).1.headers = RedbStore.new.headers := by rw [h]
    revert this; decide⟩

end Lumina.Props.C20

/-
  C21 — Stored headers always form fork-free hash-linked segments.

  In every reachable state of both store models (any history, any verification oracle `v`):
  * any two headers stored at consecutive heights verify as adjacent (`verifyAdjacent`, the
    model of `ExtendedHeader::verify_adjacent` over the oracle);
  * a header stored at a height has that height, and looking its hash up returns that same
    header (`get_by_hash`, `has`).
  `v` is time-independent here (the real check also compares with the clock; an accepted pair
  stays accepted as time passes).
-/
import Lumina.Proofs.StoreStrict
import Lumina.Proofs.ComposeStoreVerify
import Lumina.Gen.C21

open Lumina.Model.Store Lumina.Spec.C19
open Lumina.Model
open Lumina.Proofs.Store

namespace Lumina.Props.C21

/-- the models are of schema version 3 of the redb store -/
theorem schema_version : Lumina.Gen.C21.SCHEMA_VERSION = 3 := by decide

/-- the abstract store keeps the chain invariant along every history -/
theorem abs_chain_invariant (v : Hdr → Hdr → Bool) (ops : List Op) (hw : AllWf ops) :
    AbsVer v (runOps (AbsStore.step v) init ops).1 :=
  (abs_run_inv v ops hw _ absInv_init (absVer_init v)).2

/-- IN-MEMORY STORE, adjacency: after any history, headers stored at heights `h` and `h + 1`
    verify as adjacent. -/
theorem mem_adjacent_verify (v : Hdr → Hdr → Bool) (ops : List Op) (hw : AllWf ops) (h : Nat) (x y : Hdr) :
    let m := (runOps (MemStore.step v) MemStore.new ops).1
    m.getByHeight h = .ok x → m.getByHeight (h + 1) = .ok y → verifyAdjacent v x y = true := by
  intro m hx hy
  obtain ⟨_, r, hi⟩ := mem_run_sim v ops hw _ _ rm_init absInv_init
  exact mem_chain r hi v (abs_chain_invariant v ops hw) h x y hx hy

/-- IN-MEMORY STORE, hash index: after any history, the header stored at height `h` has height
    `h`, and `get_by_hash` / `has` of its hash give that same header. -/
theorem mem_hash_index (v : Hdr → Hdr → Bool) (ops : List Op) (hw : AllWf ops) (h : Nat) (x : Hdr) :
    let m := (runOps (MemStore.step v) MemStore.new ops).1
    m.getByHeight h = .ok x → x.height = h ∧ m.getByHash x.hash = .ok x ∧ m.containsHash x.hash = true := by
  intro m hx
  obtain ⟨_, r, hi⟩ := mem_run_sim v ops hw _ _ rm_init absInv_init
  exact mem_hashIndex r hi h x hx

/-- REDB STORE, adjacency, FULL (no hypothesis on the headers): after any history, headers that
    `get_by_height` returns for `h` and `h + 1` verify as adjacent.  Through the strict abstract
    store (`Proofs/StoreStrict.lean`): the redb store conforms to it in every history, and its
    states keep the chain invariant. -/
theorem redb_adjacent_verify (v : Hdr → Hdr → Bool) (ops : List Op) (hw : AllWf ops) (h : Nat) (x y : Hdr) :
    let t := (runOps (RedbStore.step v) RedbStore.new ops).1
    RedbStore.getByHeight t h = .ok x → RedbStore.getByHeight t (h + 1) = .ok y →
      verifyAdjacent v x y = true := by
  intro t hx hy
  obtain ⟨_, r, hi, hv⟩ := redb_runS_sim v ops hw _ _ rr_init absInv_init (absVer_init v)
  exact redb_chain r hi v hv h x y hx hy

/-- REDB STORE, hash index, FULL: a header `get_by_height(h)` returns has height `h`, and
    `get_by_hash` / `has` of its hash give that same header -/
theorem redb_hash_index (v : Hdr → Hdr → Bool) (ops : List Op) (hw : AllWf ops) (h : Nat) (x : Hdr) :
    let t := (runOps (RedbStore.step v) RedbStore.new ops).1
    RedbStore.getByHeight t h = .ok x →
      x.height = h ∧ RedbStore.getByHash t x.hash = .ok x ∧ RedbStore.containsHash t x.hash = true := by
  intro t hx
  obtain ⟨_, r, hi, _⟩ := redb_runS_sim v ops hw _ _ rr_init absInv_init (absVer_init v)
  exact redb_hashIndex r hi h x hx

/-! ### non-vacuity: stored consecutive headers exist, and a fork header next to a stored
    neighbour is refused -/

def exV : Hdr → Hdr → Bool := fun a b => decide (b.id = a.id + 1)
def hd (i height hash : Nat) : Hdr := ⟨i, height, hash, true⟩
def exOps : List Op := [ .insert [hd 1 1 101, hd 2 2 102], .insert [hd 4 4 104], .insert [hd 3 3 103],
                         .remove 2, .insert [hd 20 2 120], .insert [hd 2 2 102] ]

example : AllWf exOps := by unfold AllWf; decide
example : (runOps (MemStore.step exV) MemStore.new exOps).2 =
    [.ok .unit, .ok .unit, .ok .unit, .ok .unit, .err .neighborsVerificationFailed, .ok .unit] := by decide
example : (MemStore.step exV (runOps (MemStore.step exV) MemStore.new exOps).1 (.getByHeight 2)).2 = .ok (.hdr (hd 2 2 102)) ∧
    (MemStore.step exV (runOps (MemStore.step exV) MemStore.new exOps).1 (.getByHeight 3)).2 = .ok (.hdr (hd 3 3 103)) := by
  decide


/-! ## C21 × C02 (strengthening S7): the oracle instantiated with the real check

  Everything above holds for an ARBITRARY oracle `v`.  Below the oracle is the C02 model of
  `ExtendedHeader::verify` (`Lumina.Model.HeaderVerify.verify`, characterised by
  `Lumina.Props.C02.verify_ok_iff`), read through a content projection
  `C : Content` (`C.c : Store.Hdr → HeaderVerify.Hdr`, heights agree), and the conclusion is the
  CONCRETE linkage of C02 between any two consecutive stored headers: height + 1, same chain id,
  strictly later time, `validators_hash = trusted.next_validators_hash`,
  `last_block_id.hash = trusted.hash` — "fork-free hash-linked segments".

  ROLE OF THE CLOCK.  `verify` also demands `untrusted.time < now + 10 s`.  That conjunct is
  checked when a pair is verified, i.e. AT INSERTION TIME ONLY; it is not an invariant of the
  stored data with respect to later clock readings (`stored_pair_can_fail_a_later_clock_check`).
  Therefore the histories below give EVERY OPERATION ITS OWN ORACLE (`runOpsV`); an oracle is
  admissible (`ClockSound`) when each `true` it returns is an `Ok` of the C02 model at SOME clock
  reading — nothing is assumed about how the clock moves between or inside store calls.  The five
  clock-free conditions are invariant (`*_consecutive_headers_linked`); the clock-dependent one
  survives only in the weak form "below the LARGEST clock reading used so far + 10 s"
  (`*_consecutive_time_below_latest_clock`).  With one oracle for the whole history `runOpsV` is the
  `runOps` of the theorems above (`clocked_run_generalises_runOps`). -/

open Lumina.Proofs.ComposeStoreVerify

/-- the store models' `verify_adjacent` over the instantiated oracle IS the C02 model's
    `verify_adjacent` on the contents -/
theorem verifyAdjacent_instantiated (C : Content) (sig : Hdr → Hdr → HeaderVerify.Oracle) (now : Int)
    (x y : Hdr) :
    verifyAdjacent (verifyAt C sig now) x y = true ↔
      Lumina.Props.C02.verifyAdjacentM (sig x y) now (C.c x) (C.c y) = .ok := by
  rw [Lumina.Props.C02.verifyAdjacent_ok_iff, C.height_eq, C.height_eq]
  unfold verifyAdjacent verifyAt
  by_cases h : x.height + 1 = y.height <;> simp [h]

/-- DIRECT INSTANTIATION of `mem_adjacent_verify` (one clock reading for the whole history):
    consecutive stored headers satisfy the concrete linkage conditions of C02 -/
theorem mem_adjacent_linked_fixed_clock (C : Content) (sig : Hdr → Hdr → HeaderVerify.Oracle) (now : Int)
    (ops : List Op) (hw : AllWf ops) (h : Nat) (x y : Hdr) :
    let m := (runOps (MemStore.step (verifyAt C sig now)) MemStore.new ops).1
    m.getByHeight h = .ok x → m.getByHeight (h + 1) = .ok y →
      (C.c y).height = (C.c x).height + 1 ∧ (C.c y).chainId = (C.c x).chainId ∧
      (C.c x).time < (C.c y).time ∧ (C.c y).validatorsHash = (C.c x).nextValidatorsHash ∧
      (C.c y).lastHeaderHash = (C.c x).hash := by
  intro m hx hy
  have hv := mem_adjacent_verify (verifyAt C sig now) ops hw h x y hx hy
  have hadj : x.height + 1 = y.height := by
    unfold verifyAdjacent at hv
    split at hv
    · cases hv
    · rename_i hne; simpa using hne
  have hv' : verifyAt C sig now x y = true := by
    unfold verifyAdjacent at hv
    split at hv
    · cases hv
    · exact hv
  exact (verifyAt_adjacent hv' hadj).1

/-- the same for the redb store (no hypothesis on the headers: `redb_adjacent_verify`) -/
theorem redb_adjacent_linked_fixed_clock (C : Content) (sig : Hdr → Hdr → HeaderVerify.Oracle) (now : Int)
    (ops : List Op) (hw : AllWf ops) (h : Nat) (x y : Hdr) :
    let t := (runOps (RedbStore.step (verifyAt C sig now)) RedbStore.new ops).1
    RedbStore.getByHeight t h = .ok x → RedbStore.getByHeight t (h + 1) = .ok y →
      (C.c y).height = (C.c x).height + 1 ∧ (C.c y).chainId = (C.c x).chainId ∧
      (C.c x).time < (C.c y).time ∧ (C.c y).validatorsHash = (C.c x).nextValidatorsHash ∧
      (C.c y).lastHeaderHash = (C.c x).hash := by
  intro t hx hy
  have hv := redb_adjacent_verify (verifyAt C sig now) ops hw h x y hx hy
  have hadj : x.height + 1 = y.height := by
    unfold verifyAdjacent at hv
    split at hv
    · cases hv
    · rename_i hne; simpa using hne
  have hv' : verifyAt C sig now x y = true := by
    unfold verifyAdjacent at hv
    split at hv
    · cases hv
    · exact hv
  exact (verifyAt_adjacent hv' hadj).1

/-- a history whose operations all use the same oracle is a history of the theorems above -/
theorem clocked_run_generalises_runOps {σ : Type} (step : (Hdr → Hdr → Bool) → σ → Op → σ × Res)
    (v : Hdr → Hdr → Bool) (ops : List Op) (s : σ) :
    runOpsV step s (ops.map (fun op => (v, op))) = runOps (step v) s ops :=
  runOpsV_const step v ops s

/-- **IN-MEMORY STORE, fork-free hash-linked segments, any clock behaviour.**  After ANY history in
    which every operation ran with its own verification oracle, each sound for the real check at
    some clock reading, the headers stored at heights `h` and `h + 1` satisfy the concrete linkage
    conditions of C02. -/
theorem mem_consecutive_headers_linked (C : Content) (sig : Hdr → Hdr → HeaderVerify.Oracle)
    (ops : List VOp) (hw : AllWfV ops) (hs : ∀ p ∈ ops, ClockSound C sig p.1) (h : Nat) (x y : Hdr) :
    let m := (runOpsV MemStore.step MemStore.new ops).1
    m.getByHeight h = .ok x → m.getByHeight (h + 1) = .ok y →
      (C.c y).height = (C.c x).height + 1 ∧ (C.c y).chainId = (C.c x).chainId ∧
      (C.c x).time < (C.c y).time ∧ (C.c y).validatorsHash = (C.c x).nextValidatorsHash ∧
      (C.c y).lastHeaderHash = (C.c x).hash := by
  intro m hx hy
  obtain ⟨hi, hv⟩ := absV_run_inv (L := linkB C) ops init hw
    (fun p hp => soundFor_link (hs p hp)) absInv_init (absVer_init _)
  obtain ⟨_, r⟩ := memV_run_sim ops _ _ hw rm_init absInv_init
  exact of_decide_eq_true (mem_pair r hi hv h x y hx hy)

/-- **REDB STORE, fork-free hash-linked segments, any clock behaviour** (every header handed to
    `insert` is validated: the documented precondition of the store, cf. `redb_adjacent_verify`, which needs no such hypothesis for a fixed oracle). -/
theorem redb_consecutive_headers_linked_partial (C : Content) (sig : Hdr → Hdr → HeaderVerify.Oracle)
    (ops : List VOp) (hw : AllWfV ops) (hval : AllValidatedV ops)
    (hs : ∀ p ∈ ops, ClockSound C sig p.1) (h : Nat) (x y : Hdr) :
    let t := (runOpsV RedbStore.step RedbStore.new ops).1
    RedbStore.getByHeight t h = .ok x → RedbStore.getByHeight t (h + 1) = .ok y →
      (C.c y).height = (C.c x).height + 1 ∧ (C.c y).chainId = (C.c x).chainId ∧
      (C.c x).time < (C.c y).time ∧ (C.c y).validatorsHash = (C.c x).nextValidatorsHash ∧
      (C.c y).lastHeaderHash = (C.c x).hash := by
  intro t hx hy
  obtain ⟨hi, hv⟩ := absV_run_inv (L := linkB C) ops init hw
    (fun p hp => soundFor_link (hs p hp)) absInv_init (absVer_init _)
  obtain ⟨_, r⟩ := redbV_run_sim ops _ _ hw hval rr_init absInv_init storedValid_init
  exact of_decide_eq_true (redb_pair r hi hv h x y hx hy)

/-- **What is left of the clock condition.**  If every clock reading used by the history is `≤ N`
    (e.g. `N` = the latest reading of a monotone clock), the upper header of every consecutive
    stored pair has `time < N + 10 s`.  (A header stored WITHOUT a stored neighbour was never
    compared with the clock: `insert` only verifies pairs.) -/
theorem mem_consecutive_time_below_latest_clock (C : Content) (sig : Hdr → Hdr → HeaderVerify.Oracle)
    (N : Int) (ops : List VOp) (hw : AllWfV ops) (hs : ∀ p ∈ ops, ClockSoundBelow C sig N p.1)
    (h : Nat) (x y : Hdr) :
    let m := (runOpsV MemStore.step MemStore.new ops).1
    m.getByHeight h = .ok x → m.getByHeight (h + 1) = .ok y → (C.c y).time < N + 10000000000 := by
  intro m hx hy
  obtain ⟨hi, hv⟩ := absV_run_inv (L := linkBelowB C N) ops init hw
    (fun p hp => soundFor_linkBelow (hs p hp)) absInv_init (absVer_init _)
  obtain ⟨_, r⟩ := memV_run_sim ops _ _ hw rm_init absInv_init
  exact (of_decide_eq_true (mem_pair r hi hv h x y hx hy)).2

theorem redb_consecutive_time_below_latest_clock_partial (C : Content) (sig : Hdr → Hdr → HeaderVerify.Oracle)
    (N : Int) (ops : List VOp) (hw : AllWfV ops) (hval : AllValidatedV ops)
    (hs : ∀ p ∈ ops, ClockSoundBelow C sig N p.1) (h : Nat) (x y : Hdr) :
    let t := (runOpsV RedbStore.step RedbStore.new ops).1
    RedbStore.getByHeight t h = .ok x → RedbStore.getByHeight t (h + 1) = .ok y →
      (C.c y).time < N + 10000000000 := by
  intro t hx hy
  obtain ⟨hi, hv⟩ := absV_run_inv (L := linkBelowB C N) ops init hw
    (fun p hp => soundFor_linkBelow (hs p hp)) absInv_init (absVer_init _)
  obtain ⟨_, r⟩ := redbV_run_sim ops _ _ hw hval rr_init absInv_init storedValid_init
  exact (of_decide_eq_true (redb_pair r hi hv h x y hx hy)).2

/-- **Fork-freeness, spelled out** (in-memory store).  If the abstract hash is the hash of the
    content (`HashFaithful`), then the parent a stored header NAMES (`last_block_id.hash`), if it
    is stored at all — at whatever height —, is the header stored directly below it: the store
    holds no second header claiming to be that parent, and no header whose named parent sits
    elsewhere. -/
theorem mem_named_parent_is_the_header_below (C : Content) (hf : C.HashFaithful)
    (sig : Hdr → Hdr → HeaderVerify.Oracle) (ops : List VOp) (hw : AllWfV ops)
    (hs : ∀ p ∈ ops, ClockSound C sig p.1) (h k : Nat) (x y z : Hdr) :
    let m := (runOpsV MemStore.step MemStore.new ops).1
    m.getByHeight h = .ok x → m.getByHeight (h + 1) = .ok y → m.getByHeight k = .ok z →
      (C.c z).hash = (C.c y).lastHeaderHash → z = x ∧ k = h := by
  intro m hx hy hz hq
  have hl := mem_consecutive_headers_linked C sig ops hw hs h x y hx hy
  obtain ⟨hi, _⟩ := absV_run_inv (L := linkB C) ops init hw
    (fun p hp => soundFor_link (hs p hp)) absInv_init (absVer_init _)
  obtain ⟨_, r⟩ := memV_run_sim ops _ _ hw rm_init absInv_init
  obtain ⟨hxh, hxq, _⟩ := mem_hashIndex r hi h x hx
  obtain ⟨hzh, hzq, _⟩ := mem_hashIndex r hi k z hz
  have e : z.hash = x.hash := hf z x (by rw [hq, hl.2.2.2.2])
  rw [e, hxq] at hzq
  injection hzq with hzq
  subst hzq
  exact ⟨rfl, by omega⟩

/-! ### non-vacuity of the instantiation: a concrete content map, two clock readings, a fork -/

/-- content of the example headers: time `100 · height`, one validator-set hash throughout,
    `hash() = [hash]`, `last_header_hash() = [id]` (the `id` of an example header is the hash number
    of the parent it names) -/
def exContent : Content where
  c := fun x =>
    { height := x.height, chainId := [99], time := 100 * (x.height : Int),
      validatorsHash := some [1], nextValidatorsHash := some [1],
      lastHeaderHash := some [UInt8.ofNat x.id], hash := some [UInt8.ofNat x.hash],
      valset := { vals := [], total := 0 }, sigs := [] }
  height_eq := fun _ => rfl

def exSig : Hdr → Hdr → HeaderVerify.Oracle := fun _ _ _ _ => false

/-- heights 1..3 hash-linked (101 ← 102 ← 103); `hd 77 2 120` is a fork of height 2 naming parent 77.
    Clock readings: 1000 ns for the first three operations, then the clock jumps BACK to −10¹² ns. -/
def exVOps : List VOp :=
  [ (verifyAt exContent exSig 1000, .insert [hd 100 1 101, hd 101 2 102]),
    (verifyAt exContent exSig 1000, .insert [hd 102 3 103]),
    (verifyAt exContent exSig 1000, .remove 2),
    (verifyAt exContent exSig (-1000000000000), .insert [hd 77 2 120]),
    (verifyAt exContent exSig 2000, .insert [hd 101 2 102]) ]

example : AllWfV exVOps := by unfold AllWfV; decide
example : ∀ p ∈ exVOps, ClockSound exContent exSig p.1 := by
  intro p hp
  simp only [exVOps, List.mem_cons, List.not_mem_nil, or_false] at hp
  rcases hp with rfl | rfl | rfl | rfl | rfl <;> exact verifyAt_clockSound _ _ _
example : (runOpsV MemStore.step MemStore.new exVOps).2 =
    [.ok .unit, .ok .unit, .ok .unit, .err .neighborsVerificationFailed, .ok .unit] := by decide
example :
    (MemStore.step exV (runOpsV MemStore.step MemStore.new exVOps).1 (.getByHeight 2)).2 = .ok (.hdr (hd 101 2 102)) ∧
    (MemStore.step exV (runOpsV MemStore.step MemStore.new exVOps).1 (.getByHeight 3)).2 = .ok (.hdr (hd 102 3 103)) := by
  decide

/-- a history whose last operation runs while the clock reads −10¹² ns -/
def exVOpsBack : List VOp :=
  exVOps.take 2 ++ [(verifyAt exContent exSig (-1000000000000), .mark 1)]

/-- **The `now` bound is an insertion-time check, not an invariant**: the pair stored at heights
    1, 2 by the first operation (clock 1000 ns) is still stored after an operation whose clock
    reads −10¹² ns — a reading at which `verify` REJECTS that very pair (`time from the future`),
    while the clock-free linkage of course still holds. -/
theorem stored_pair_can_fail_a_later_clock_check :
    (MemStore.step exV (runOpsV MemStore.step MemStore.new exVOpsBack).1 (.getByHeight 1)).2
      = .ok (.hdr (hd 100 1 101)) ∧
    (MemStore.step exV (runOpsV MemStore.step MemStore.new exVOpsBack).1 (.getByHeight 2)).2
      = .ok (.hdr (hd 101 2 102)) ∧
    Lumina.Props.C02.verifyM (exSig (hd 100 1 101) (hd 101 2 102)) (-1000000000000)
      (exContent.c (hd 100 1 101)) (exContent.c (hd 101 2 102)) = .err .timeFuture := by decide

end Lumina.Props.C21

/-
  C21 — Stored headers always form fork-free hash-linked segments.

  In every reachable state of both store models (any history, any verification oracle `v`):
  * any two headers stored at consecutive heights verify as adjacent (`verifyAdjacent`, the
    model of `ExtendedHeader::verify_adjacent` over the oracle);
  * a header stored at a height has that height, and looking its hash up returns that same
    header (`get_by_hash`, `has`).
  `v` is time-independent here (the real check also compares with the clock; an accepted pair
  stays accepted as time passes).
-/
import Lumina.Proofs.StoreHist
import Lumina.Gen.C21

open Lumina.Model.Store Lumina.Spec.C19
open Lumina.Model
open Lumina.Proofs.Store

namespace Lumina.Props.C21

/-- the models are of schema version 3 of the redb store -/
theorem schema_version : Lumina.Gen.C21.SCHEMA_VERSION = 3 := by decide

/-- the abstract store keeps the chain invariant along every history -/
theorem abs_chain_invariant (v : Hdr → Hdr → Bool) (ops : List Op) (hw : AllWf ops) :
    AbsVer v (runOps (AbsStore.step v) init ops).1 :=
  (abs_run_inv v ops hw _ absInv_init (absVer_init v)).2

/-- IN-MEMORY STORE, adjacency: after any history, headers stored at heights `h` and `h + 1`
    verify as adjacent. -/
theorem mem_adjacent_verify (v : Hdr → Hdr → Bool) (ops : List Op) (hw : AllWf ops) (h : Nat) (x y : Hdr) :
    let m := (runOps (MemStore.step v) MemStore.new ops).1
    m.getByHeight h = .ok x → m.getByHeight (h + 1) = .ok y → verifyAdjacent v x y = true := by
  intro m hx hy
  obtain ⟨_, r, hi⟩ := mem_run_sim v ops hw _ _ rm_init absInv_init
  exact mem_chain r hi v (abs_chain_invariant v ops hw) h x y hx hy

/-- IN-MEMORY STORE, hash index: after any history, the header stored at height `h` has height
    `h`, and `get_by_hash` / `has` of its hash give that same header. -/
theorem mem_hash_index (v : Hdr → Hdr → Bool) (ops : List Op) (hw : AllWf ops) (h : Nat) (x : Hdr) :
    let m := (runOps (MemStore.step v) MemStore.new ops).1
    m.getByHeight h = .ok x → x.height = h ∧ m.getByHash x.hash = .ok x ∧ m.containsHash x.hash = true := by
  intro m hx
  obtain ⟨_, r, hi⟩ := mem_run_sim v ops hw _ _ rm_init absInv_init
  exact mem_hashIndex r hi h x hx

/-- REDB STORE, adjacency (as long as only validated headers are stored) -/
theorem redb_adjacent_verify (v : Hdr → Hdr → Bool) (ops : List Op) (hw : AllWf ops)
    (hvr : ValidRun v init ops) (h : Nat) (x y : Hdr) :
    let t := (runOps (RedbStore.step v) RedbStore.new ops).1
    RedbStore.getByHeight t h = .ok x → RedbStore.getByHeight t (h + 1) = .ok y →
      verifyAdjacent v x y = true := by
  intro t hx hy
  obtain ⟨_, r⟩ := redb_run_sim v ops hw _ _ rr_init absInv_init hvr
  have hi := (abs_run_inv v ops hw _ absInv_init (absVer_init v)).1
  exact redb_chain r hi v (abs_chain_invariant v ops hw) h x y hx hy

/-- REDB STORE, hash index -/
theorem redb_hash_index (v : Hdr → Hdr → Bool) (ops : List Op) (hw : AllWf ops)
    (hvr : ValidRun v init ops) (h : Nat) (x : Hdr) :
    let t := (runOps (RedbStore.step v) RedbStore.new ops).1
    RedbStore.getByHeight t h = .ok x →
      x.height = h ∧ RedbStore.getByHash t x.hash = .ok x ∧ RedbStore.containsHash t x.hash = true := by
  intro t hx
  obtain ⟨_, r⟩ := redb_run_sim v ops hw _ _ rr_init absInv_init hvr
  have hi := (abs_run_inv v ops hw _ absInv_init (absVer_init v)).1
  exact redb_hashIndex r hi h x hx

/-! ### non-vacuity: stored consecutive headers exist, and a fork header next to a stored
    neighbour is refused -/

def exV : Hdr → Hdr → Bool := fun a b => decide (b.id = a.id + 1)
def hd (i height hash : Nat) : Hdr := ⟨i, height, hash, true⟩
def exOps : List Op := [ .insert [hd 1 1 101, hd 2 2 102], .insert [hd 4 4 104], .insert [hd 3 3 103],
                         .remove 2, .insert [hd 20 2 120], .insert [hd 2 2 102] ]

example : AllWf exOps := by unfold AllWf; decide
example : (runOps (MemStore.step exV) MemStore.new exOps).2 =
    [.ok .unit, .ok .unit, .ok .unit, .ok .unit, .err .neighborsVerificationFailed, .ok .unit] := by decide
example : (MemStore.step exV (runOps (MemStore.step exV) MemStore.new exOps).1 (.getByHeight 2)).2 = .ok (.hdr (hd 2 2 102)) ∧
    (MemStore.step exV (runOps (MemStore.step exV) MemStore.new exOps).1 (.getByHeight 3)).2 = .ok (.hdr (hd 3 3 103)) := by
  decide

end Lumina.Props.C21

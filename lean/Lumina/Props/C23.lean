/-
  C23 — Redb schema migration preserves stored ranges.   PROPERTY THEOREMS ONLY.

  Model: `Lumina/Model/RedbSchema.lean` (`openDb` = `RedbStore::new`: version gate, both
  migrations, table creation, one write transaction committed on `Ok` / aborted on `Err`).
  Spec : `Lumina/Spec/C23.lean` (`specOpen`, `specReopen`; schema layouts by version, written
  with the literal on-disk names).

  All theorems are for EVERY database snapshot: any schema version, any content of the v1
  table and of `STORE.RANGES` (legal or illegal vectors, any other keys), any combination of
  existing/missing tables.  No size bound.
-/
import Lumina.Proofs.RedbSchema

namespace Lumina.Props.C23
open Lumina.Model.RedbSchema Lumina.Gen.C23 Lumina.Proofs.RedbSchema
open Lumina.Spec.C23

/-- what the spec observes of the model's `RedbStore::new` -/
def obsOf (newId : Nat) (db : Db) : Obs :=
  let r := openDb newId db
  { ok := (match r.2 with
           | .ok _ => true
           | .error _ => false)
    after := r.1
    stored := toOpt (reportStored r.1)
    sampled := toOpt (reportSampled r.1) }

/-- the constants generated from the current source are the numbers / on-disk names the
    property and the old databases use -/
theorem consts_eq :
    SCHEMA_VERSION = 3 ∧ V1V2_GATE = 2 ∧ V1V2_FROM = 1 ∧ V1V2_TARGET = 2 ∧
    V2V3_GATE = 3 ∧ V2V3_FROM = 2 ∧ V2V3_TARGET = 3 ∧
    HEADER_RANGES_KEY = "KEY.HEADER_RANGES" ∧ SAMPLED_RANGES_KEY = "KEY.SAMPLED_RANGES" ∧
    PRUNED_RANGES_KEY = "KEY.PRUNED_RANGES" ∧
    V2_SAMPLED_RANGES_KEY = "KEY.ACCEPTED_SAMPING_RANGES" ∧
    RANGES_TABLE_NAME = "STORE.RANGES" ∧ V1_HEIGHT_RANGES_TABLE_NAME = "STORE.HEIGHT_RANGES" ∧
    SCHEMA_VERSION_TABLE_NAME = "STORE.SCHEMA_VERSION" := by
  decide

/-- the four keys are pairwise different (were the v2 and v3 sampled keys equal, the migration's
    final `remove` would delete the data it had just written) -/
theorem keys_distinct :
    V2_SAMPLED_RANGES_KEY ≠ SAMPLED_RANGES_KEY ∧ V2_SAMPLED_RANGES_KEY ≠ HEADER_RANGES_KEY ∧
    V2_SAMPLED_RANGES_KEY ≠ PRUNED_RANGES_KEY ∧ SAMPLED_RANGES_KEY ≠ HEADER_RANGES_KEY ∧
    SAMPLED_RANGES_KEY ≠ PRUNED_RANGES_KEY ∧ HEADER_RANGES_KEY ≠ PRUNED_RANGES_KEY := by
  decide

/-! ### the property -/

set_option linter.unusedSimpArgs false

/-- **A database with a newer schema version is refused without modification.** -/
theorem newer_refused (newId : Nat) (db : Db) (v : Nat) (hv : db.version = some v) (hgt : v > 3) :
    openDb newId db = (db, .error (.incompatible v)) := by
  simp [openDb, openTx_newer newId db v hv hgt]

/-- whatever the reason, a refused open leaves the database exactly as it was (the single
    write transaction is aborted) -/
theorem refused_unchanged (newId : Nat) (db : Db) (e : Err) (h : (openDb newId db).2 = .error e) :
    (openDb newId db).1 = db := by
  unfold openDb at h ⊢
  split <;> simp_all

/-- **Opening an older (v1, v2) or current (v3) database whose sampled vector is readable
    succeeds, leaves it at version 3, and the stored and sampled ranges it held are reported
    unchanged** (a stored vector that was unreadable before stays unreadable). -/
theorem migrate_preserves (newId : Nat) (db : Db) (v : Nat) (hv : db.version = some v)
    (h1 : 1 ≤ v) (h3 : v ≤ 3) (hs : heldSampled db ≠ none) :
    ∃ db', openDb newId db = (db', .ok ()) ∧ db'.version = some 3 ∧
      toOpt (reportStored db') = heldStored db ∧ toOpt (reportSampled db') = heldSampled db := by
  have hH : HEADER_RANGES_KEY = "KEY.HEADER_RANGES" := by decide
  have hS : SAMPLED_RANGES_KEY = "KEY.SAMPLED_RANGES" := by decide
  have hv' : v = 1 ∨ v = 2 ∨ v = 3 := by omega
  rcases hv' with rfl | rfl | rfl
  · -- v1
    have hheld := heldSampled_v12 db (Or.inl hv)
    have hleg : legalA db = true := by
      cases hl : legalA db with
      | true => rfl
      | false => rw [hheld, hl] at hs; simp at hs
    refine ⟨afterV1 newId db, ?_, ?_, ?_, ?_⟩
    · simp [openDb, openTx_v1 newId db hv, hleg]
    · simp [afterV1, createTables]
    · simp only [reportStored, report, getRanges, afterV1, createTables, Option.getD_some,
        get_remove_ne _ _ _ hH_ne_A, get_insert_ne _ _ _ _ hH_ne_S, get_insert_self,
        toOpt_fromVec, heldStored, hv]
    · simp only [reportSampled, report, getRanges, afterV1, createTables, Option.getD_some,
        get_remove_ne _ _ _ hS_ne_A, get_insert_self, toOpt_fromVec, hheld, hleg, reading]
      unfold legalA at hleg
      simp [hleg]
      exact merge_legal_idem _ hleg
  · -- v2
    have hheld := heldSampled_v12 db (Or.inr hv)
    have hleg : legalA db = true := by
      cases hl : legalA db with
      | true => rfl
      | false => rw [hheld, hl] at hs; simp at hs
    refine ⟨afterV2 newId db, ?_, ?_, ?_, ?_⟩
    · simp [openDb, openTx_v2 newId db hv, hleg]
    · simp [afterV2, createTables]
    · simp only [reportStored, report, getRanges, afterV2, createTables, Option.getD_some,
        get_remove_ne _ _ _ hH_ne_A, get_insert_ne _ _ _ _ hH_ne_S, toOpt_fromVec]
      simp only [heldStored, hv, underKey_eq, hH]
    · simp only [reportSampled, report, getRanges, afterV2, createTables, Option.getD_some,
        get_remove_ne _ _ _ hS_ne_A, get_insert_self, toOpt_fromVec, hheld, hleg, reading]
      unfold legalA at hleg
      simp [hleg]
      exact merge_legal_idem _ hleg
  · -- v3
    refine ⟨createTables newId db, ?_, ?_, ?_, ?_⟩
    · simp [openDb, openTx_v3 newId db hv]
    · simp [createTables, hv]
    · simp only [reportStored, report, getRanges, createTables, Option.getD_some,
        toOpt_fromVec, heldStored, hv, underKey_eq, hH]
    · simp only [reportSampled, report, getRanges, createTables, Option.getD_some,
        toOpt_fromVec, heldSampled, hv, underKey_eq, hS]

/-- a v3 database opens whatever its vectors look like, and both reports are unchanged -/
theorem v3_opens (newId : Nat) (db : Db) (hv : db.version = some 3) :
    openDb newId db = (createTables newId db, .ok ()) ∧
      toOpt (reportStored (createTables newId db)) = heldStored db ∧
      toOpt (reportSampled (createTables newId db)) = heldSampled db := by
  have hH : HEADER_RANGES_KEY = "KEY.HEADER_RANGES" := by decide
  have hS : SAMPLED_RANGES_KEY = "KEY.SAMPLED_RANGES" := by decide
  refine ⟨by simp [openDb, openTx_v3 newId db hv], ?_, ?_⟩
  · simp only [reportStored, report, getRanges, createTables, Option.getD_some,
      toOpt_fromVec, heldStored, hv, underKey_eq, hH]
  · simp only [reportSampled, report, getRanges, createTables, Option.getD_some,
      toOpt_fromVec, heldSampled, hv, underKey_eq, hS]

/-- an old database is refused only when the sampled vector it holds is unreadable (and then
    with a stored-data error); by `refused_unchanged` it is then not modified -/
theorem old_refused_only_if_unreadable (newId : Nat) (db : Db) (v : Nat) (hv : db.version = some v)
    (h1 : 1 ≤ v) (h3 : v ≤ 3) (e : Err) (h : (openDb newId db).2 = .error e) :
    heldSampled db = none ∧ e = .storedData := by
  have hv' : v = 1 ∨ v = 2 ∨ v = 3 := by omega
  rcases hv' with rfl | rfl | rfl
  · rw [heldSampled_v12 db (Or.inl hv)]
    cases hl : legalA db <;> simp [openDb, openTx_v1 newId db hv, hl] at h ⊢
    exact h.symm
  · rw [heldSampled_v12 db (Or.inr hv)]
    cases hl : legalA db <;> simp [openDb, openTx_v2 newId db hv, hl] at h ⊢
    exact h.symm
  · simp [openDb, openTx_v3 newId db hv] at h

/-- **The property, as the spec states it, for every database and every generated identity.** -/
theorem spec_all (newId : Nat) (db : Db) : specOpen db (obsOf newId db) = true := by
  cases hv : db.version with
  | none =>
    simp [specOpen, hv, obsOf, openDb, openTx_fresh newId db hv, createTables]
  | some v =>
    by_cases hgt : v > 3
    · have := newer_refused newId db v hv hgt
      match v, hgt with
      | v + 1, hgt => simp [specOpen, hv, obsOf, this, hgt]
    · have hv' : v = 0 ∨ v = 1 ∨ v = 2 ∨ v = 3 := by omega
      rcases hv' with rfl | rfl | rfl | rfl
      · simp [specOpen, hv]
      · cases hl : legalA db with
        | true =>
          have hs : heldSampled db ≠ none := by rw [heldSampled_v12 db (Or.inl hv), hl]; simp
          obtain ⟨db', hopen, hver, hst, hsa⟩ := migrate_preserves newId db 1 hv (by omega) (by omega) hs
          simp [specOpen, hv, obsOf, hopen, hver, hst, hsa]
        | false =>
          have hs : heldSampled db = none := by rw [heldSampled_v12 db (Or.inl hv), hl]; simp
          simp [specOpen, hv, obsOf, openDb, openTx_v1 newId db hv, hl, hs]
      · cases hl : legalA db with
        | true =>
          have hs : heldSampled db ≠ none := by rw [heldSampled_v12 db (Or.inr hv), hl]; simp
          obtain ⟨db', hopen, hver, hst, hsa⟩ := migrate_preserves newId db 2 hv (by omega) (by omega) hs
          simp [specOpen, hv, obsOf, hopen, hver, hst, hsa]
        | false =>
          have hs : heldSampled db = none := by rw [heldSampled_v12 db (Or.inr hv), hl]; simp
          simp [specOpen, hv, obsOf, openDb, openTx_v2 newId db hv, hl, hs]
      · obtain ⟨hopen, hst, hsa⟩ := v3_opens newId db hv
        have hver : (createTables newId db).version = some 3 := by simp [createTables, hv]
        simp [specOpen, hv, obsOf, hopen, hst, hsa, hver]

/-- **Opening is idempotent:** a database that was opened successfully opens again
    successfully, with nothing changed (whatever key the second open would have generated). -/
theorem open_idempotent (n1 n2 : Nat) (db db' : Db) (h : openDb n1 db = (db', .ok ())) :
    openDb n2 db' = (db', .ok ()) := by
  have hshape : Opened db' := by
    cases hv : db.version with
    | none =>
      simp only [openDb, openTx_fresh n1 db hv, Prod.mk.injEq, and_true] at h
      rw [← h]; exact createTables_opened _ _ rfl
    | some v =>
      by_cases hgt : v > 3
      · rw [newer_refused n1 db v hv hgt] at h; simp at h
      · have hv' : v = 0 ∨ v = 1 ∨ v = 2 ∨ v = 3 := by omega
        rcases hv' with rfl | rfl | rfl | rfl
        · simp [openDb, openTx_v0 n1 db hv] at h
        · cases hl : legalA db <;> simp [openDb, openTx_v1 n1 db hv, hl] at h
          rw [← h]; exact createTables_opened _ _ rfl
        · cases hl : legalA db <;> simp [openDb, openTx_v2 n1 db hv, hl] at h
          rw [← h]; exact createTables_opened _ _ rfl
        · simp only [openDb, openTx_v3 n1 db hv, Prod.mk.injEq, and_true] at h
          rw [← h]; exact createTables_opened _ _ hv
  simp [openDb, openTx_v3 n2 db' hshape.1, createTables_fixed n2 db' hshape]

/-- the spec's re-open clause holds of the model -/
theorem reopen_spec (n1 n2 : Nat) (db : Db) (h : (obsOf n1 db).ok = true) :
    specReopen (obsOf n1 db).after (obsOf n2 (obsOf n1 db).after).ok (obsOf n2 (obsOf n1 db).after).after = true := by
  have hopen : openDb n1 db = ((openDb n1 db).1, .ok ()) := by
    simp only [obsOf] at h
    cases hr : (openDb n1 db).2 with
    | error e => rw [hr] at h; simp at h
    | ok u => cases u; exact Prod.ext rfl hr
  have h2 := open_idempotent n1 n2 db _ hopen
  simp [specReopen, obsOf, h2]

/-- the open never touches the pruned ranges or any unrelated key of `STORE.RANGES` -/
theorem other_keys_untouched (newId : Nat) (db : Db) (k : String)
    (hH : k ≠ HEADER_RANGES_KEY) (hS : k ≠ SAMPLED_RANGES_KEY) (hA : k ≠ V2_SAMPLED_RANGES_KEY) :
    ((openDb newId db).1.ranges.getD []).get k = (db.ranges.getD []).get k := by
  cases hv : db.version with
  | none => simp [openDb, openTx_fresh newId db hv, createTables]
  | some v =>
    by_cases hgt : v > 3
    · rw [newer_refused newId db v hv hgt]
    · have hv' : v = 0 ∨ v = 1 ∨ v = 2 ∨ v = 3 := by omega
      rcases hv' with rfl | rfl | rfl | rfl
      · simp [openDb, openTx_v0 newId db hv]
      · cases hl : legalA db <;>
          simp [openDb, openTx_v1 newId db hv, hl, afterV1, createTables,
            get_remove_ne _ _ _ hA, get_insert_ne _ _ _ _ hS, get_insert_ne _ _ _ _ hH]
      · cases hl : legalA db <;>
          simp [openDb, openTx_v2 newId db hv, hl, afterV2, createTables,
            get_remove_ne _ _ _ hA, get_insert_ne _ _ _ _ hS]
      · simp [openDb, openTx_v3 newId db hv, createTables]

/-- in particular the pruned ranges are reported unchanged -/
theorem pruned_unchanged (newId : Nat) (db : Db) :
    reportPruned (openDb newId db).1 = reportPruned db := by
  simp only [reportPruned, report, getRanges]
  rw [other_keys_untouched newId db PRUNED_RANGES_KEY hP_ne_H hP_ne_S hP_ne_A]

/-- a v1 table built by any sequence of B-tree inserts (as the driver and redb build it) is in
    key order, which is the order `migrate_v1_to_v2` reads it in -/
theorem v1_table_key_ordered (es : List (Nat × (Nat × Nat))) :
    KeyOrdered (es.foldl (fun t e => hrInsert t e.1 e.2) []) := by
  suffices h : ∀ t, KeyOrdered t → KeyOrdered (es.foldl (fun t e => hrInsert t e.1 e.2) t) from h [] trivial
  induction es with
  | nil => intro t ht; exact ht
  | cons e rest ih => intro t ht; exact ih _ (hrInsert_keyOrdered t e.1 e.2 ht)

/-! ### non-vacuity: concrete databases meeting the hypotheses above -/

/-- a v1 database with three ranges inserted out of key order -/
def exV1 : Db :=
  { version := some 1
    heightRanges := some ([(5, (7, 9)), (2, (1, 3)), (9, (20, 20))].foldl (fun t e => hrInsert t e.1 e.2) [])
    ranges := none, heights := true, headers := true, sampling := false, identity := none }

/-- a v2 database with stored and (old-key) sampled ranges and an unrelated key -/
def exV2 : Db :=
  { version := some 2, heightRanges := none
    ranges := some [("KEY.ACCEPTED_SAMPING_RANGES", [(123, 124)]), ("KEY.HEADER_RANGES", [(1, 200)]),
                    ("KEY.PRUNED_RANGES", [(201, 210)])]
    heights := true, headers := true, sampling := true, identity := some (some 7) }

example : heldSampled exV1 ≠ none ∧ heldStored exV1 = some [(1, 3), (7, 9), (20, 20)] := by decide
example : heldSampled exV2 = some [(123, 124)] ∧ heldStored exV2 = some [(1, 200)] := by decide
example : (obsOf 0 exV1).ok = true ∧ (obsOf 0 exV1).stored = some [(1, 3), (7, 9), (20, 20)] := by decide
example : (obsOf 0 exV2).sampled = some [(123, 124)] ∧ (obsOf 0 exV2).after.version = some 3 := by decide
/-- touching ranges `[1..3],[4..6]` are the set `[1..6]`: reported (and re-stored) in canonical form -/
example : (obsOf 0 { exV2 with ranges := some [("KEY.ACCEPTED_SAMPING_RANGES", [(1, 3), (4, 6), (9, 9)])] }).sampled
    = some [(1, 6), (9, 9)] := by decide
/-- a newer database (hypotheses of `newer_refused`) -/
example : ({ exV2 with version := some 5 } : Db).version = some 5 ∧ 5 > 3 := by decide
/-- an old database that IS refused: its sampled vector `[(5,4)]` is unreadable -/
example : (obsOf 0 { exV2 with ranges := some [("KEY.ACCEPTED_SAMPING_RANGES", [(5, 4)])] }).ok = false := by decide
/-- the spec is not trivially true: it rejects an observation that loses the sampled ranges -/
example : specOpen exV2 { (obsOf 0 exV2) with sampled := some [] } = false := by decide
/-- … and one that "refuses" a newer database but modifies it -/
example : specOpen { exV2 with version := some 4 }
    { ok := false, after := { exV2 with version := some 3 }, stored := none, sampled := none } = false := by decide

end Lumina.Props.C23

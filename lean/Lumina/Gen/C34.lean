-- GENERATED on every run by tools/gen_consts.py from the current /repo tree. Do not edit.
namespace Lumina.Gen.C34

/-- `MAX_SAMPLES_NEEDED` from `node/src/daser.rs` -/
def MAX_SAMPLES_NEEDED : Nat := 16
/-- `PRUNER_THRESHOLD` from `node/src/daser.rs` -/
def PRUNER_THRESHOLD : Nat := 512
/-- `DEFAULT_CONCURENCY_LIMIT` from `node/src/daser.rs` -/
def DEFAULT_CONCURENCY_LIMIT : Nat := 3
/-- `DEFAULT_ADDITIONAL_HEADER_SUB_CONCURENCY` from `node/src/daser.rs` -/
def DEFAULT_ADDITIONAL_HEADER_SUB_CONCURENCY : Nat := 5

end Lumina.Gen.C34

-- GENERATED on every run by tools/gen_consts.py from the current /repo tree. Do not edit.
namespace Lumina.Gen.C10

/-- `ROW_ID_MULTIHASH_CODE` from `types/src/row.rs` -/
def ROW_ID_MULTIHASH_CODE : Nat := 30721
/-- `ROW_ID_CODEC` from `types/src/row.rs` -/
def ROW_ID_CODEC : Nat := 30720
/-- `SAMPLE_ID_MULTIHASH_CODE` from `types/src/sample.rs` -/
def SAMPLE_ID_MULTIHASH_CODE : Nat := 30737
/-- `SAMPLE_ID_CODEC` from `types/src/sample.rs` -/
def SAMPLE_ID_CODEC : Nat := 30736
/-- `ROW_NAMESPACE_DATA_ID_MULTIHASH_CODE` from `types/src/row_namespace_data.rs` -/
def ROW_NAMESPACE_DATA_ID_MULTIHASH_CODE : Nat := 30753
/-- `ROW_NAMESPACE_DATA_CODEC` from `types/src/row_namespace_data.rs` -/
def ROW_NAMESPACE_DATA_CODEC : Nat := 30752
/-- `MAX_MH_SIZE` from `node/src/p2p.rs` -/
def MAX_MH_SIZE : Nat := 64

end Lumina.Gen.C10

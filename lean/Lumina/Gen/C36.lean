-- GENERATED on every run by tools/gen_consts.py from the current /repo tree. Do not edit.
namespace Lumina.Gen.C36


end Lumina.Gen.C36

-- GENERATED on every run by tools/gen_consts.py from the current /repo tree. Do not edit.
namespace Lumina.Gen.C07

/-- `NS_SIZE` from `types/src/nmt.rs` -/
def NS_SIZE : Nat := 29
/-- `SHARE_SIZE` from `types/src/consts.rs` -/
def SHARE_SIZE : Nat := 512

end Lumina.Gen.C07

-- GENERATED on every run by tools/gen_consts.py from the current /repo tree. Do not edit.
namespace Lumina.Gen.C31

/-- `MAX_PEERS` from `node/src/p2p/header_ex/client.rs` -/
def MAX_PEERS : Nat := 10
/-- `MIN_HEAD_RESPONSES` from `node/src/p2p/header_ex/client.rs` -/
def MIN_HEAD_RESPONSES : Nat := 2

end Lumina.Gen.C31

-- GENERATED on every run by tools/gen_consts.py from the current /repo tree. Do not edit.
namespace Lumina.Gen.C40

/-- `ROOT_HASH_WINDOW` from `node/src/p2p/shrex/pool_tracker.rs` -/
def ROOT_HASH_WINDOW : Nat := 10
/-- `POOL_VALIDATION_TIMEOUT` from `node/src/p2p/shrex/pool_tracker.rs` (nanoseconds) -/
def POOL_VALIDATION_TIMEOUT : Nat := 120000000000

end Lumina.Gen.C40

-- GENERATED on every run by tools/gen_consts.py from the current /repo tree. Do not edit.
namespace Lumina.Gen.C14

/-- `NS_VER_SIZE` from `types/src/nmt.rs` -/
def NS_VER_SIZE : Nat := 1
/-- `NS_ID_SIZE` from `types/src/nmt.rs` -/
def NS_ID_SIZE : Nat := 28
/-- `NS_SIZE` from `types/src/nmt.rs` -/
def NS_SIZE : Nat := 29
/-- `NS_ID_V0_SIZE` from `types/src/nmt.rs` -/
def NS_ID_V0_SIZE : Nat := 10
/-- `MAX_PRIMARY_RESERVED_ID` from `types/src/nmt.rs` -/
def MAX_PRIMARY_RESERVED_ID : List Nat := [0, 0, 0, 0, 0, 0, 0, 0, 0, 255]
/-- `MIN_SECONDARY_RESERVED_ID` from `types/src/nmt.rs` -/
def MIN_SECONDARY_RESERVED_ID : Nat := 0

end Lumina.Gen.C14

-- GENERATED on every run by tools/gen_consts.py from the current /repo tree. Do not edit.
namespace Lumina.Gen.C12

/-- `SUBTREE_ROOT_THRESHOLDS` from `types/src/consts.rs` -/
def SUBTREE_ROOT_THRESHOLDS : List (Nat × Nat) := [(1, 64), (2, 64), (3, 64), (4, 64), (5, 64), (6, 64), (7, 64)]
/-- `SUBTREE_ROOT_THRESHOLD_TABLE` from `types/src/consts.rs` -/
def SUBTREE_ROOT_THRESHOLD_TABLE : List (Nat × Nat) := [(1, 1), (2, 2), (3, 3), (4, 4), (5, 5), (6, 6), (7, 7)]

end Lumina.Gen.C12

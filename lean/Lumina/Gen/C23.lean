-- GENERATED on every run by tools/gen_consts.py from the current /repo tree. Do not edit.
namespace Lumina.Gen.C23

/-- `SCHEMA_VERSION` from `node/src/store/redb_store.rs` -/
def SCHEMA_VERSION : Nat := 3
/-- `SAMPLED_RANGES_KEY` from `node/src/store/redb_store.rs` -/
def SAMPLED_RANGES_KEY : String := "KEY.SAMPLED_RANGES"
/-- `HEADER_RANGES_KEY` from `node/src/store/redb_store.rs` -/
def HEADER_RANGES_KEY : String := "KEY.HEADER_RANGES"
/-- `PRUNED_RANGES_KEY` from `node/src/store/redb_store.rs` -/
def PRUNED_RANGES_KEY : String := "KEY.PRUNED_RANGES"
/-- `V2_SAMPLED_RANGES_KEY` from `node/src/store/redb_store.rs` -/
def V2_SAMPLED_RANGES_KEY : String := "KEY.ACCEPTED_SAMPING_RANGES"
/-- `V1V2_GATE` from `node/src/store/redb_store.rs` -/
def V1V2_GATE : Nat := 2
/-- `V1V2_FROM` from `node/src/store/redb_store.rs` -/
def V1V2_FROM : Nat := 1
/-- `V1V2_TARGET` from `node/src/store/redb_store.rs` -/
def V1V2_TARGET : Nat := 2
/-- `V2V3_GATE` from `node/src/store/redb_store.rs` -/
def V2V3_GATE : Nat := 3
/-- `V2V3_FROM` from `node/src/store/redb_store.rs` -/
def V2V3_FROM : Nat := 2
/-- `V2V3_TARGET` from `node/src/store/redb_store.rs` -/
def V2V3_TARGET : Nat := 3
/-- `RANGES_TABLE_NAME` from `node/src/store/redb_store.rs` -/
def RANGES_TABLE_NAME : String := "STORE.RANGES"
/-- `V1_HEIGHT_RANGES_TABLE_NAME` from `node/src/store/redb_store.rs` -/
def V1_HEIGHT_RANGES_TABLE_NAME : String := "STORE.HEIGHT_RANGES"
/-- `SCHEMA_VERSION_TABLE_NAME` from `node/src/store/redb_store.rs` -/
def SCHEMA_VERSION_TABLE_NAME : String := "STORE.SCHEMA_VERSION"

end Lumina.Gen.C23

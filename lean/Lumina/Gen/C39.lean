-- GENERATED on every run by tools/gen_consts.py from the current /repo tree. Do not edit.
namespace Lumina.Gen.C39

/-- `EXPIRED_AFTER` from `node/src/peer_tracker.rs` (nanoseconds) -/
def EXPIRED_AFTER : Nat := 120000000000
/-- `GC_INTERVAL` from `node/src/peer_tracker.rs` (nanoseconds) -/
def GC_INTERVAL : Nat := 30000000000

end Lumina.Gen.C39

-- GENERATED on every run by tools/gen_consts.py from the current /repo tree. Do not edit.
namespace Lumina.Gen.C08

/-- `NS_SIZE` from `types/src/nmt.rs` -/
def NS_SIZE : Nat := 29
/-- `SHARE_SIZE` from `types/src/consts.rs` -/
def SHARE_SIZE : Nat := 512
/-- `MIN_SQUARE_SIZE` from `types/src/consts.rs` -/
def MIN_SQUARE_SIZE : Nat := 1
/-- `SHARE_VERSION_ONE` from `types/src/consts.rs` -/
def SHARE_VERSION_ONE : Nat := 1
/-- `SQUARE_SIZE_UPPER_BOUNDS` from `types/src/consts.rs` -/
def SQUARE_SIZE_UPPER_BOUNDS : List (Nat) := [(128), (128), (128), (128), (128), (512), (512)]

end Lumina.Gen.C08

-- GENERATED on every run by tools/gen_consts.py from the current /repo tree. Do not edit.
namespace Lumina.Gen.C01

/-- `BLOCK_PROTOCOL` from `types/src/consts.rs` -/
def BLOCK_PROTOCOL : Nat := 11
/-- `MAX_CHAIN_ID_LEN` from `types/src/consts.rs` -/
def MAX_CHAIN_ID_LEN : Nat := 50
/-- `GENESIS_HEIGHT` from `types/src/block.rs` -/
def GENESIS_HEIGHT : Nat := 1
/-- `MIN_EXTENDED_SQUARE_WIDTH` from `types/src/consts.rs` -/
def MIN_EXTENDED_SQUARE_WIDTH : Nat := 2
/-- `SQUARE_SIZE_UPPER_BOUND_TABLE` from `types/src/consts.rs` -/
def SQUARE_SIZE_UPPER_BOUND_TABLE : List (Nat × Nat) := [(1, 128), (2, 128), (3, 128), (4, 128), (5, 128), (6, 512), (7, 512)]
/-- `FROM_U64_TABLE` from `types/src/consts.rs` -/
def FROM_U64_TABLE : List (Nat × Nat) := [(1, 1), (2, 2), (3, 3), (4, 4), (5, 5), (6, 6), (7, 7)]
/-- `UPPER_BOUND_DISPATCH` from `types/src/consts.rs` -/
def UPPER_BOUND_DISPATCH : List (Nat × Nat) := [(1, 1), (2, 2), (3, 3), (4, 4), (5, 5), (6, 6), (7, 7)]
/-- `EXT_FACTOR` from `types/src/consts.rs` -/
def EXT_FACTOR : Nat := 2
/-- `LIGHT_NUM` from `types/src/validator_set.rs` -/
def LIGHT_NUM : Nat := 2
/-- `LIGHT_DEN` from `types/src/validator_set.rs` -/
def LIGHT_DEN : Nat := 3

end Lumina.Gen.C01

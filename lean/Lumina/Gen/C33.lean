-- GENERATED on every run by tools/gen_consts.py from the current /repo tree. Do not edit.
namespace Lumina.Gen.C33

/-- `MAX_SAMPLES_NEEDED` from `node/src/daser.rs` -/
def MAX_SAMPLES_NEEDED : Nat := 16
/-- `PRUNER_THRESHOLD` from `node/src/daser.rs` -/
def PRUNER_THRESHOLD : Nat := 512

end Lumina.Gen.C33

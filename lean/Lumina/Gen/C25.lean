-- GENERATED on every run by tools/gen_consts.py from the current /repo tree. Do not edit.
namespace Lumina.Gen.C25

/-- `SLOW_SYNC_MIN_THRESHOLD` from `node/src/syncer.rs` -/
def SLOW_SYNC_MIN_THRESHOLD : Nat := 50

end Lumina.Gen.C25

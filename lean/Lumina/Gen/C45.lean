-- GENERATED on every run by tools/gen_consts.py from the current /repo tree. Do not edit.
namespace Lumina.Gen.C45

/-- `SIGNER_SIZE` from `types/src/consts.rs` -/
def SIGNER_SIZE : Nat := 20
/-- `BOND_DENOM` from `types/src/state/tx.rs` -/
def BOND_DENOM : String := "utia"
/-- `BALANCES_PREFIX` from `grpc/src/client.rs` -/
def BALANCES_PREFIX : Nat := 2

end Lumina.Gen.C45

-- GENERATED on every run by tools/gen_consts.py from the current /repo tree. Do not edit.
namespace Lumina.Gen.C41

/-- `WAIT_WHILE_STRONG_COUNT_ABOVE` from `node/src/utils/counter.rs` -/
def WAIT_WHILE_STRONG_COUNT_ABOVE : Nat := 1

end Lumina.Gen.C41

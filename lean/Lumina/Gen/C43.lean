-- GENERATED on every run by tools/gen_consts.py from the current /repo tree. Do not edit.
namespace Lumina.Gen.C43

/-- `SEQUENCE_ERROR_PAT` from `grpc/src/client.rs` -/
def SEQUENCE_ERROR_PAT : String := "account sequence mismatch, expected "

end Lumina.Gen.C43

-- GENERATED on every run by tools/gen_consts.py from the current /repo tree. Do not edit.
namespace Lumina.Gen.C30

/-- `REQUEST_SIZE_LIMIT` from `node/src/p2p/header_ex.rs` -/
def REQUEST_SIZE_LIMIT : Nat := 1024
/-- `RESPONSE_SIZE_LIMIT` from `node/src/p2p/header_ex.rs` -/
def RESPONSE_SIZE_LIMIT : Nat := 10485760

end Lumina.Gen.C30

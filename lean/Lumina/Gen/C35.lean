-- GENERATED on every run by tools/gen_consts.py from the current /repo tree. Do not edit.
namespace Lumina.Gen.C35

/-- `MAX_PRUNABLE_BATCH_SIZE` from `node/src/pruner.rs` -/
def MAX_PRUNABLE_BATCH_SIZE : Nat := 512

end Lumina.Gen.C35

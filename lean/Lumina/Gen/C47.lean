-- GENERATED on every run by tools/gen_consts.py from the current /repo tree. Do not edit.
namespace Lumina.Gen.C47

/-- `PREFIX_ACCOUNT` from `types/src/consts.rs` -/
def PREFIX_ACCOUNT : String := "celestia"
/-- `PREFIX_VALIDATOR` from `types/src/consts.rs` -/
def PREFIX_VALIDATOR : String := "val"
/-- `PREFIX_OPERATOR` from `types/src/consts.rs` -/
def PREFIX_OPERATOR : String := "oper"
/-- `PREFIX_CONSENSUS` from `types/src/consts.rs` -/
def PREFIX_CONSENSUS : String := "cons"
/-- `SIGNER_SIZE` from `types/src/consts.rs` -/
def SIGNER_SIZE : Nat := 20

end Lumina.Gen.C47

-- GENERATED on every run by tools/gen_consts.py from the current /repo tree. Do not edit.
namespace Lumina.Gen.C17

/-- `NOT_UNIVERSE_START` from `node/src/block_ranges.rs` -/
def NOT_UNIVERSE_START : Nat := 1
/-- `NOT_UNIVERSE_END` from `node/src/block_ranges.rs` -/
def NOT_UNIVERSE_END : Nat := 18446744073709551615

end Lumina.Gen.C17

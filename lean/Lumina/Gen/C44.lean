-- GENERATED on every run by tools/gen_consts.py from the current /repo tree. Do not edit.
namespace Lumina.Gen.C44

/-- `STORE_IF_IDX_ABOVE` from `grpc/grpc-macros/src/lib.rs` -/
def STORE_IF_IDX_ABOVE : Nat := 0
/-- `SWAP_WITH_POSITION` from `grpc/grpc-macros/src/lib.rs` -/
def SWAP_WITH_POSITION : Nat := 0

end Lumina.Gen.C44

-- GENERATED on every run by tools/gen_consts.py from the current /repo tree. Do not edit.
namespace Lumina.Gen.C21

/-- `SCHEMA_VERSION` from `node/src/store/redb_store.rs` -/
def SCHEMA_VERSION : Nat := 3

end Lumina.Gen.C21

-- GENERATED on every run by tools/gen_consts.py from the current /repo tree. Do not edit.
namespace Lumina.Gen.C29

/-- `MAX_HEADERS_AMOUNT_RESPONSE` from `node/src/p2p/header_ex/server.rs` -/
def MAX_HEADERS_AMOUNT_RESPONSE : Nat := 512

end Lumina.Gen.C29

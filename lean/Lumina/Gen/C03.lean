-- GENERATED on every run by tools/gen_consts.py from the current /repo tree. Do not edit.
namespace Lumina.Gen.C03

/-- `LIGHT_NUM` from `types/src/validator_set.rs` -/
def LIGHT_NUM : Nat := 2
/-- `LIGHT_DEN` from `types/src/validator_set.rs` -/
def LIGHT_DEN : Nat := 3
/-- `DEFAULT_TRUST_NUM` from `types/src/trust_level.rs` -/
def DEFAULT_TRUST_NUM : Nat := 1
/-- `DEFAULT_TRUST_DEN` from `types/src/trust_level.rs` -/
def DEFAULT_TRUST_DEN : Nat := 3

end Lumina.Gen.C03

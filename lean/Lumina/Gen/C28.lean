-- GENERATED on every run by tools/gen_consts.py from the current /repo tree. Do not edit.
namespace Lumina.Gen.C28

/-- `HASH_SIZE` from `types/src/consts.rs` -/
def HASH_SIZE : Nat := 32

end Lumina.Gen.C28

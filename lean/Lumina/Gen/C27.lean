-- GENERATED on every run by tools/gen_consts.py from the current /repo tree. Do not edit.
namespace Lumina.Gen.C27

/-- `MIN_AMOUNT_PER_REQ` from `node/src/p2p/header_session.rs` -/
def MIN_AMOUNT_PER_REQ : Nat := 8
/-- `MAX_AMOUNT_PER_REQ` from `node/src/p2p/header_session.rs` -/
def MAX_AMOUNT_PER_REQ : Nat := 64
/-- `MAX_CONCURRENT_REQS` from `node/src/p2p/header_session.rs` -/
def MAX_CONCURRENT_REQS : Nat := 8
/-- `HASH_SIZE` from `types/src/consts.rs` -/
def HASH_SIZE : Nat := 32

end Lumina.Gen.C27

-- GENERATED on every run by tools/gen_consts.py from the current /repo tree. Do not edit.
namespace Lumina.Gen.C11

/-- `SHARE_SIZE` from `types/src/consts.rs` -/
def SHARE_SIZE : Nat := 512
/-- `SHARE_INFO_BYTES` from `types/src/consts.rs` -/
def SHARE_INFO_BYTES : Nat := 1
/-- `SEQUENCE_LEN_BYTES` from `types/src/consts.rs` -/
def SEQUENCE_LEN_BYTES : Nat := 4
/-- `SHARE_VERSION_ZERO` from `types/src/consts.rs` -/
def SHARE_VERSION_ZERO : Nat := 0
/-- `SHARE_VERSION_ONE` from `types/src/consts.rs` -/
def SHARE_VERSION_ONE : Nat := 1
/-- `MAX_SHARE_VERSION` from `types/src/consts.rs` -/
def MAX_SHARE_VERSION : Nat := 127
/-- `SIGNER_SIZE` from `types/src/consts.rs` -/
def SIGNER_SIZE : Nat := 20
/-- `FIRST_SPARSE_SHARE_CONTENT_SIZE` from `types/src/consts.rs` -/
def FIRST_SPARSE_SHARE_CONTENT_SIZE : Nat := 478
/-- `CONTINUATION_SPARSE_SHARE_CONTENT_SIZE` from `types/src/consts.rs` -/
def CONTINUATION_SPARSE_SHARE_CONTENT_SIZE : Nat := 482
/-- `NS_SIZE` from `types/src/nmt.rs` -/
def NS_SIZE : Nat := 29

end Lumina.Gen.C11

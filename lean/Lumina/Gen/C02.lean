-- GENERATED on every run by tools/gen_consts.py from the current /repo tree. Do not edit.
namespace Lumina.Gen.C02

/-- `VERIFY_CLOCK_DRIFT` from `types/src/extended_header.rs` (nanoseconds) -/
def VERIFY_CLOCK_DRIFT : Nat := 10000000000
/-- `DEFAULT_TRUST_NUM` from `types/src/trust_level.rs` -/
def DEFAULT_TRUST_NUM : Nat := 1
/-- `DEFAULT_TRUST_DEN` from `types/src/trust_level.rs` -/
def DEFAULT_TRUST_DEN : Nat := 3

end Lumina.Gen.C02

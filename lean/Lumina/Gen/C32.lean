-- GENERATED on every run by tools/gen_consts.py from the current /repo tree. Do not edit.
namespace Lumina.Gen.C32

/-- `MAX_TRIES` from `node/src/p2p/header_ex/client.rs` -/
def MAX_TRIES : Nat := 3

end Lumina.Gen.C32

-- GENERATED on every run by tools/gen_consts.py from the current /repo tree. Do not edit.
namespace Lumina.Gen.C38

/-- `SLOW_SYNC_MIN_THRESHOLD` from `node/src/syncer.rs` -/
def SLOW_SYNC_MIN_THRESHOLD : Nat := 50
/-- `MIN_AMOUNT_PER_REQ` from `node/src/p2p/header_session.rs` -/
def MIN_AMOUNT_PER_REQ : Nat := 8
/-- `MAX_AMOUNT_PER_REQ` from `node/src/p2p/header_session.rs` -/
def MAX_AMOUNT_PER_REQ : Nat := 64
/-- `MAX_CONCURRENT_REQS` from `node/src/p2p/header_session.rs` -/
def MAX_CONCURRENT_REQS : Nat := 8

end Lumina.Gen.C38

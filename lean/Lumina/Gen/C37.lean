-- GENERATED on every run by tools/gen_consts.py from the current /repo tree. Do not edit.
namespace Lumina.Gen.C37

/-- `HEADER_BROADCAST_CHANNEL_CAPACITY` from `node/src/node/subscriptions.rs` -/
def HEADER_BROADCAST_CHANNEL_CAPACITY : Nat := 16

end Lumina.Gen.C37

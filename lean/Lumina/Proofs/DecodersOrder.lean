/-
  C16 helper lemmas, part 1: the byte-lexicographic order on namespaces, namespace-ordered
  node lists (`MonoA`), what `hash_nodes` does to the namespace range of a contiguous segment
  (`Summ`), and `compute_root` over ordered leaves never reaching the `hash_nodes` panic.
-/
import Lumina.Model.Decoders

namespace Lumina.Proofs.Decoders
open Lumina.Util Lumina.Model.Nmt

/-! ## `ltB` / `leB` form a total preorder -/

theorem ltB_irrefl : ∀ a : Bytes, ltB a a = false := by
  intro a; induction a with
  | nil => rfl
  | cons x xs ih => simp [ltB, ih]

theorem ltB_asymm : ∀ a b : Bytes, ltB a b = true → ltB b a = false := by
  intro a; induction a with
  | nil => intro b h; cases b <;> simp_all [ltB]
  | cons x xs ih =>
    intro b h
    cases b with
    | nil => simp [ltB] at h
    | cons y ys =>
      simp only [ltB] at h ⊢
      by_cases h1 : x < y
      · have : ¬ y < x := by
          intro h2; exact absurd (UInt8.lt_trans h1 h2) (UInt8.lt_irrefl _)
        have h3 : y ≠ x := by intro e; subst e; exact UInt8.lt_irrefl _ h1
        simp [this, h3]
      · simp [h1] at h
        obtain ⟨e, h2⟩ := h
        subst e
        simp [h1, ih ys h2]

theorem ltB_cotrans : ∀ c a : Bytes, ltB c a = true → ∀ b, ltB c b = true ∨ ltB b a = true := by
  intro c; induction c with
  | nil =>
    intro a h b
    cases a with
    | nil => simp [ltB] at h
    | cons x xs =>
      cases b with
      | nil => right; simp [ltB]
      | cons y ys => left; simp [ltB]
  | cons z zs ih =>
    intro a h b
    cases a with
    | nil => simp [ltB] at h
    | cons x xs =>
      cases b with
      | nil => right; simp [ltB]
      | cons y ys =>
        simp only [ltB] at h ⊢
        by_cases hzx : z < x
        · by_cases hzy : z < y
          · left; simp [hzy]
          · by_cases ezy : z = y
            · subst ezy; right; simp [hzx]
            · have hyz : y < z := by
                rcases UInt8.lt_or_lt_of_ne ezy with h | h
                · exact absurd h hzy
                · exact h
              right; simp [UInt8.lt_trans hyz hzx]
        · simp [hzx] at h
          obtain ⟨e, h2⟩ := h
          subst e
          by_cases hzy : z < y
          · left; simp [hzy]
          · by_cases ezy : z = y
            · subst ezy
              rcases ih xs h2 ys with h3 | h3
              · left; simp [hzy, h3]
              · right; simp [hzy, h3]
            · have hyz : y < z := by
                rcases UInt8.lt_or_lt_of_ne ezy with h | h
                · exact absurd h hzy
                · exact h
              right; simp [hyz]

theorem leB_refl (a : Bytes) : leB a a = true := by simp [leB, ltB_irrefl]

theorem leB_total {a b : Bytes} (h : leB a b = false) : leB b a = true := by
  simp only [leB, Bool.not_eq_false', Bool.not_eq_true'] at h ⊢
  exact ltB_asymm _ _ h

theorem leB_trans {a b c : Bytes} (h1 : leB a b = true) (h2 : leB b c = true) : leB a c = true := by
  simp only [leB, Bool.not_eq_true'] at h1 h2 ⊢
  cases h : ltB c a with
  | false => rfl
  | true =>
    rcases ltB_cotrans c a h b with h3 | h3
    · rw [h3] at h2; cases h2
    · rw [h3] at h1; cases h1

theorem not_ltB_of_leB {a b : Bytes} (h : leB a b = true) : ltB b a = false := by
  simpa [leB] using h

theorem leB_of_not_ltB {a b : Bytes} (h : ltB b a = false) : leB a b = true := by
  simp [leB, h]

/-! ## namespace-ordered node lists -/

/-- `min_namespace() <= max_namespace()` -/
def Ord1 (x : NsHash) : Prop := leB x.minNs x.maxNs = true

/-- every node covers a well-formed range and consecutive nodes are in namespace order -/
def MonoA : List NsHash → Prop
  | [] => True
  | [x] => Ord1 x
  | x :: y :: r => Ord1 x ∧ leB x.maxNs y.minNs = true ∧ MonoA (y :: r)

theorem monoA_cons {x : NsHash} {xs : List NsHash} :
    MonoA (x :: xs) ↔ Ord1 x ∧ (∀ y, xs.head? = some y → leB x.maxNs y.minNs = true) ∧ MonoA xs := by
  cases xs with
  | nil => simp [MonoA]
  | cons y r => simp [MonoA]

theorem monoA_append {xs ys : List NsHash} :
    MonoA (xs ++ ys) ↔ MonoA xs ∧ MonoA ys ∧
      (∀ a b, xs.getLast? = some a → ys.head? = some b → leB a.maxNs b.minNs = true) := by
  induction xs with
  | nil => simp [MonoA]
  | cons x xs ih =>
    rw [List.cons_append, monoA_cons, monoA_cons, ih]
    cases xs with
    | nil =>
      simp only [List.nil_append, List.getLast?_singleton, Option.some.injEq, List.head?_nil, MonoA]
      constructor
      · rintro ⟨h1, h2, _, h4, _⟩
        exact ⟨⟨h1, by simp, trivial⟩, h4, by intro a b ha hb; subst ha; exact h2 b hb⟩
      · rintro ⟨⟨h1, _, _⟩, h4, h5⟩
        exact ⟨h1, fun y hy => h5 x y rfl hy, trivial, h4, by simp⟩
    | cons z zs =>
      simp only [List.cons_append, List.head?_cons, Option.some.injEq, List.getLast?_cons_cons]
      constructor
      · rintro ⟨h1, h2, h3, h4, h5⟩
        exact ⟨⟨h1, h2, h3⟩, h4, h5⟩
      · rintro ⟨⟨h1, h2, h3⟩, h4, h5⟩
        exact ⟨h1, h2, h3, h4, h5⟩

theorem monoA_singleton {x : NsHash} : MonoA [x] ↔ Ord1 x := by simp [MonoA]

/-- the first node's minimum is below every node's minimum and maximum -/
theorem monoA_head_le : ∀ {xs : List NsHash} {a y : NsHash}, MonoA xs → xs.head? = some a → y ∈ xs →
    leB a.minNs y.minNs = true ∧ leB a.minNs y.maxNs = true := by
  intro xs
  induction xs with
  | nil => intro a y _ h; simp at h
  | cons x xs ih =>
    intro a y hm ha hy
    simp only [List.head?_cons, Option.some.injEq] at ha
    subst ha
    rw [monoA_cons] at hm
    obtain ⟨h1, h2, h3⟩ := hm
    rcases List.mem_cons.mp hy with e | hy'
    · subst e; exact ⟨leB_refl _, h1⟩
    · cases xs with
      | nil => simp at hy'
      | cons z zs =>
        have hz := h2 z rfl
        have := ih h3 rfl hy'
        have hxz : leB x.minNs z.minNs = true := leB_trans h1 hz
        exact ⟨leB_trans hxz this.1, leB_trans hxz this.2⟩

/-- every node's maximum is below the last node's maximum -/
theorem monoA_le_last : ∀ {xs : List NsHash} {b y : NsHash}, MonoA xs → xs.getLast? = some b → y ∈ xs →
    leB y.maxNs b.maxNs = true := by
  intro xs
  induction xs with
  | nil => intro b y _ h; simp at h
  | cons x xs ih =>
    intro b y hm hb hy
    rw [monoA_cons] at hm
    obtain ⟨h1, h2, h3⟩ := hm
    cases xs with
    | nil =>
      simp at hb hy
      subst hb; subst hy; exact leB_refl _
    | cons z zs =>
      rw [List.getLast?_cons_cons] at hb
      rcases List.mem_cons.mp hy with e | hy'
      · subst e
        have hz := h2 z rfl
        have hzl := ih h3 hb (List.mem_cons_self)
        have := (monoA_head_le h3 rfl (List.mem_cons_self (a := z) (l := zs))).2
        exact leB_trans (leB_trans hz this) hzl
      · exact ih h3 hb hy'

/-! ## the namespace range of a hashed segment -/

/-- `h` carries the namespace range that `hash_nodes` computes for the contiguous segment `seg`:
    its minimum is the first node's minimum, its maximum at most the last node's maximum -/
def Summ (h : NsHash) (seg : List NsHash) : Prop :=
  ∃ a b, seg.head? = some a ∧ seg.getLast? = some b ∧ h.minNs = a.minNs ∧ leB h.maxNs b.maxNs = true

theorem summ_singleton (x : NsHash) : Summ x [x] := ⟨x, x, rfl, rfl, rfl, leB_refl _⟩

theorem Summ.ne_nil {h : NsHash} {seg : List NsHash} (s : Summ h seg) : seg ≠ [] := by
  obtain ⟨a, _, ha, _⟩ := s
  intro e; subst e; simp at ha

/-- `hash_nodes` on the roots of two adjacent segments of an ordered node list does not panic, and
    its result carries the range of the joined segment -/
theorem hashNodes_summ {H : HashFn} {ign : Bool} {l r : NsHash} {segL segR : List NsHash}
    (hl : Summ l segL) (hr : Summ r segR) (hm : MonoA (segL ++ segR)) :
    ∃ h, hashNodes H ign l r = .ok h ∧ Summ h (segL ++ segR) := by
  obtain ⟨aL, bL, haL, hbL, hlmin, hlmax⟩ := hl
  obtain ⟨aR, bR, haR, hbR, hrmin, hrmax⟩ := hr
  have hmm := monoA_append.mp hm
  obtain ⟨hmL, hmR, hbd⟩ := hmm
  have hbnd : leB bL.maxNs aR.minNs = true := hbd bL aR hbL haR
  have hneL : segL ≠ [] := by intro e; subst e; simp at haL
  have hneR : segR ≠ [] := by intro e; subst e; simp at haR
  have hhead : (segL ++ segR).head? = some aL := by
    cases segL with
    | nil => exact absurd rfl hneL
    | cons x xs => simpa using haL
  have hlast : (segL ++ segR).getLast? = some bR := by
    rw [List.getLast?_append, hbR]; rfl
  have haLmem : aL ∈ segL ++ segR := List.mem_of_mem_head? hhead
  have hbLmem : bL ∈ segL ++ segR := List.mem_append_left _ (List.mem_of_getLast? hbL)
  have haRmem : aR ∈ segL ++ segR := List.mem_append_right _ (List.mem_of_mem_head? haR)
  have hbRmem : bR ∈ segL ++ segR := List.mem_append_right _ (List.mem_of_getLast? hbR)
  -- no panic
  have hnp : ltB r.minNs l.maxNs = false := by
    apply not_ltB_of_leB
    rw [hrmin]
    exact leB_trans hlmax hbnd
  -- min
  have hminle : leB l.minNs r.minNs = true := by
    rw [hlmin, hrmin]; exact (monoA_head_le hm hhead haRmem).1
  have hlmaxle : leB l.maxNs bR.maxNs = true := leB_trans hlmax (monoA_le_last hm hlast hbLmem)
  unfold hashNodes
  simp only [hnp, Bool.false_eq_true, ↓reduceIte]
  refine ⟨_, rfl, aL, bR, hhead, hlast, ?_, ?_⟩
  · show minB l.minNs r.minNs = aL.minNs
    unfold minB; rw [hminle]; exact hlmin
  · show leB (if (ign && l.minNs == maxNsId) = true then maxNsId
        else if (ign && r.minNs == maxNsId) = true then l.maxNs else maxB l.maxNs r.maxNs) bR.maxNs = true
    by_cases c1 : (ign && l.minNs == maxNsId) = true
    · simp only [c1, ↓reduceIte]
      have : l.minNs = maxNsId := by
        simp only [Bool.and_eq_true, beq_iff_eq] at c1; exact c1.2
      rw [← this, hlmin]
      exact (monoA_head_le hm hhead hbRmem).2
    · simp only [c1, Bool.false_eq_true, ↓reduceIte]
      by_cases c2 : (ign && r.minNs == maxNsId) = true
      · simp only [c2, ↓reduceIte]; exact hlmaxle
      · simp only [c2, Bool.false_eq_true, ↓reduceIte]
        unfold maxB
        by_cases c3 : leB l.maxNs r.maxNs = true
        · simp only [c3, ↓reduceIte]; exact hrmax
        · simp only [c3, Bool.false_eq_true, ↓reduceIte]; exact hlmaxle

end Lumina.Proofs.Decoders

/-
  Lemmas about the pruner model, part 2 (C35): cached window edges, `get_next_prunable_batch`,
  the removal loop.  Core Lean only.
-/
import Lumina.Proofs.Pruner
import Lumina.Spec.C35

namespace Lumina.Proofs.Pruner
open Lumina.Model.Ranges hiding Inv
open Lumina.Model.Pruner
open Lumina.Proofs.Ranges

local notation "RInv" => Lumina.Model.Ranges.Inv

attribute [local simp] ok_bind err_bind map_ok map_err pure_eq throw_eq

/-! ### vocabulary -/

/-- the three tables of the store are well-formed `BlockRanges` -/
structure StoreInv (s : PStore) : Prop where
  stored : RInv s.stored
  pruned : RInv s.pruned
  sampled : RInv s.sampled

/-- header times increase with height along the chain -/
def ChainMono (T : Nat → Nat) : Prop := ∀ a b, 1 ≤ a → a < b → T a < T b

theorem ChainMono.le {T} (hm : ChainMono T) {a b : Nat} (ha : 1 ≤ a) (hab : a ≤ b) : T a ≤ T b := by
  rcases Nat.eq_or_lt_of_le hab with h | h
  · subst h; exact Nat.le_refl _
  · exact Nat.le_of_lt (hm a b ha h)

/-- a cached window edge: a height whose own header is not newer than the cutoff -/
def EdgeOK (T : Nat → Nat) (cutoff : Nat) (e : Option Nat) : Prop :=
  ∀ p, e = some p → 1 ≤ p ∧ p ≤ U64_MAX ∧ T p ≤ cutoff

/-- the cached window edges are right for the cutoffs `sc` (sampling) and `pc` (pruning) -/
structure CacheOK (T : Nat → Nat) (c : Cache) (sc pc : Nat) : Prop where
  sampling : EdgeOK T sc c.afterSampling
  pruning : EdgeOK T pc c.afterPruning

theorem EdgeOK.mono {T c c' e} (h : EdgeOK T c e) (hc : c ≤ c') : EdgeOK T c' e :=
  fun p hp => ⟨(h p hp).1, (h p hp).2.1, Nat.le_trans (h p hp).2.2 hc⟩

theorem CacheOK.mono {T c sc pc sc' pc'} (h : CacheOK T c sc pc) (h1 : sc ≤ sc') (h2 : pc ≤ pc') :
    CacheOK T c sc' pc' := ⟨h.sampling.mono h1, h.pruning.mono h2⟩

theorem cacheOK_init (T : Nat → Nat) (sc pc : Nat) : CacheOK T {} sc pc :=
  ⟨fun p hp => (by cases hp), fun p hp => (by cases hp)⟩

/-- `h` is inside the area `1..=edge` -/
def InArea (e : Option Nat) (h : Nat) : Prop := ∃ p, e = some p ∧ h ≤ p

theorem lookup_storeOK (s : PStore) : StoreOK s.lookup s.stored s.time := by
  intro h hm
  simp [PStore.lookup, (contains_iff_mem s.stored h).2 hm]

theorem mono_of_chain {s : PStore} (hi : RInv s.stored) (hm : ChainMono s.time) : Mono s.stored s.time :=
  fun a b ha _ hab => hm a b (mem_bounds hi ha).1 hab

theorem adm_of_edge {s : PStore} (hi : RInv s.stored) (hm : ChainMono s.time) {cutoff : Nat} {e : Option Nat}
    (he : EdgeOK s.time cutoff e) : Adm s.stored s.time cutoff e := by
  cases e with
  | none => trivial
  | some p =>
    obtain ⟨h1, _, h3⟩ := he p rfl
    exact ⟨h1, fun h hmem hle => Nat.le_trans (hm.le (mem_bounds hi hmem).1 hle) h3⟩

/-! ### `update_cached_data` -/

theorem find_edge {s : PStore} (hi : RInv s.stored) (hm : ChainMono s.time) {cutoff : Nat} {e : Option Nat}
    (he : EdgeOK s.time cutoff e) :
    ∃ a, find s.lookup s.stored cutoff e = .ok a ∧ EdgeOK s.time cutoff a := by
  obtain ⟨a, h1, h2⟩ := find_correct partitionsOK cutoff e hi (lookup_storeOK s) (mono_of_chain hi hm)
    (adm_of_edge hi hm he)
  refine ⟨a, h1, ?_⟩
  intro p hp
  subst hp
  have := mem_bounds hi h2.1
  exact ⟨this.1, this.2, h2.2.1⟩

theorem keepRight_ok {stored : Ranges} (hi : RInv stored) {T cutoff} {e : Option Nat} (he : EdgeOK T cutoff e) :
    keepRight stored e = .ok () := by
  cases e with
  | none => rfl
  | some p =>
    obtain ⟨o, h1, _⟩ := rightOf_spec (h := p) hi (he p rfl).1
    simp [keepRight, h1, liftR_ok]

theorem updateCachedData_spec {s : PStore} (hi : RInv s.stored) (hm : ChainMono s.time) {c : Cache}
    {sc pc : Nat} (hc : CacheOK s.time c sc pc) (refresh : Bool) :
    ∃ c' msgs, updateCachedData s c sc pc refresh = .ok (c', msgs) ∧ CacheOK s.time c' sc pc ∧
      ∀ m ∈ msgs, ∃ h, m = Msg.updateHighest h := by
  unfold updateCachedData
  cases refresh with
  | false => exact ⟨c, [], rfl, hc, fun m hm => by cases hm⟩
  | true =>
    obtain ⟨aS, h1, h2⟩ := find_edge hi hm hc.sampling
    obtain ⟨aP, h3, h4⟩ := find_edge hi hm hc.pruning
    simp only [Bool.not_true, Bool.false_eq_true, ↓reduceIte, h1, h3]
    -- the cache after the two monotone updates
    have hc1 : CacheOK s.time (if optLt c.afterSampling aS then { c with afterSampling := aS } else c) sc pc := by
      split
      · exact ⟨h2, hc.pruning⟩
      · exact hc
    generalize (if optLt c.afterSampling aS then { c with afterSampling := aS } else c) = c1 at hc1 ⊢
    by_cases hlt : optLt c1.afterPruning aP = true
    · simp only [hlt, ↓reduceIte]
      have hc2 : CacheOK s.time { c1 with afterPruning := aP } sc pc := ⟨hc1.sampling, h4⟩
      rw [keepRight_ok hi hc2.sampling, keepRight_ok hi hc2.pruning]
      refine ⟨_, _, rfl, hc2, ?_⟩
      intro m hmm
      cases aP with
      | none => cases hmm
      | some x => exact ⟨x, by simpa using hmm⟩
    · simp only [hlt, Bool.false_eq_true, ↓reduceIte]
      rw [keepRight_ok hi hc1.sampling, keepRight_ok hi hc1.pruning]
      exact ⟨_, _, rfl, hc1, fun m hmm => by cases hmm⟩

/-! ### the `BlockRanges` algebra -/

theorem areaUpTo_spec {T cutoff} {e : Option Nat} (he : EdgeOK T cutoff e) :
    ∃ a, areaUpTo e = .ok a ∧ RInv a ∧ ∀ h, mem a h ↔ 1 ≤ h ∧ InArea e h := by
  cases e with
  | none =>
    refine ⟨[], rfl, inv_nil, fun h => ?_⟩
    simp [mem_nil, InArea]
  | some p =>
    obtain ⟨h1, h2, _⟩ := he p rfl
    have hv : ValidR (1, p) := ⟨Nat.le_refl _, h1, h2⟩
    obtain ⟨a, k1, k2, k3⟩ := insertRelaxed_spec inv_nil hv
    refine ⟨a, by simp [areaUpTo, ofRange, k1, expectOk_ok, liftR_ok], k2, fun h => ?_⟩
    rw [k3]
    simp [mem_nil, InArea]

/-- `lo + card rs ≤ hi + 1` for a well-formed value living inside `[lo, hi]` -/
theorem card_between : ∀ {rs : Ranges}, RInv rs → ∀ lo hi, (∀ r ∈ rs, lo ≤ r.1 ∧ r.2 ≤ hi) → lo ≤ hi + 1 →
    lo + card rs ≤ hi + 1
  | [], _, lo, hi, _, h => by simpa using h
  | r :: rs, hinv, lo, hi, hb, _ => by
    obtain ⟨h1, hv, hrs⟩ := inv_cons.1 hinv
    unfold ValidR at hv
    have hr := hb r (by simp)
    have ih := card_between hrs (r.2 + 1) hi
      (fun x hx => ⟨by have := h1 x hx; omega, (hb x (List.mem_cons_of_mem _ hx)).2⟩) (by omega)
    rw [card_cons]
    omega

/-- a "boundary" height of the synced set: the height below or above it was never synced -/
def BordersGap (s : PStore) (h : Nat) : Prop :=
  ¬ (mem s.stored (h - 1) ∨ mem s.pruned (h - 1)) ∨ ¬ (mem s.stored (h + 1) ∨ mem s.pruned (h + 1))

/-- the two sets computed by `get_next_prunable_batch` -/
theorem batchSets_spec {s : PStore} (hs : StoreInv s) {c : Cache} {sc pc : Nat} (hc : CacheOK s.time c sc pc) :
    ∃ A P, batchSets s c = .ok (A, P) ∧ RInv A ∧ RInv P ∧
      (∀ h, mem A h ↔ mem s.stored h ∧ InArea c.afterPruning h ∧ InArea c.afterSampling h) ∧
      (∀ h, mem P h ↔ mem s.stored h ∧ InArea c.afterPruning h ∧ ¬ InArea c.afterSampling h ∧
        ¬ BordersGap s h ∧ mem s.sampled h) ∧
      card A + card P ≤ U64_MAX := by
  obtain ⟨nsa, a1, a2, a3⟩ := areaUpTo_spec hc.sampling
  obtain ⟨pa, b1, b2, b3⟩ := areaUpTo_spec hc.pruning
  obtain ⟨syn, c1, c2, c3⟩ := add_spec hs.pruned hs.stored
  obtain ⟨ed, d1, d2, d3⟩ := edges_spec c2
  obtain ⟨cand, e1, e2, e3⟩ := bitAnd_spec hs.stored b2
  obtain ⟨A, f1, f2, f3⟩ := bitAnd_spec e2 a2
  obtain ⟨t1, g1, g2, g3⟩ := sub_spec e2 f2
  obtain ⟨t2, i1, i2, i3⟩ := sub_spec g2 d2
  obtain ⟨P, j1, j2, j3⟩ := bitAnd_spec i2 hs.sampled
  have hA : ∀ h, mem A h ↔ mem s.stored h ∧ InArea c.afterPruning h ∧ InArea c.afterSampling h := by
    intro h
    rw [f3, e3, b3, a3]
    constructor
    · rintro ⟨⟨k1, _, k2⟩, _, k3⟩; exact ⟨k1, k2, k3⟩
    · rintro ⟨k1, k2, k3⟩
      have := (mem_bounds hs.stored k1).1
      exact ⟨⟨k1, this, k2⟩, this, k3⟩
  have hP : ∀ h, mem P h ↔ mem s.stored h ∧ InArea c.afterPruning h ∧ ¬ InArea c.afterSampling h ∧
      ¬ BordersGap s h ∧ mem s.sampled h := by
    intro h
    rw [j3, i3, g3, hA, e3, b3, d3, edge_iff_boundary c2, c3, c3, c3]
    unfold BordersGap
    constructor
    · rintro ⟨⟨⟨⟨k1, _, k2⟩, k3⟩, k4⟩, k5⟩
      refine ⟨k1, k2, fun hc' => k3 ⟨k1, k2, hc'⟩, ?_, k5⟩
      rintro (hb | hb)
      · exact k4 ⟨Or.inr k1, Or.inl (fun hx => hb (hx.elim Or.inr Or.inl))⟩
      · exact k4 ⟨Or.inr k1, Or.inr (fun hx => hb (hx.elim Or.inr Or.inl))⟩
    · rintro ⟨k1, k2, k3, k4, k5⟩
      have hb := (mem_bounds hs.stored k1).1
      refine ⟨⟨⟨⟨k1, hb, k2⟩, fun hx => k3 hx.2.2⟩, ?_⟩, k5⟩
      rintro ⟨_, hx | hx⟩
      · exact k4 (Or.inl (fun hy => hx (hy.elim Or.inr Or.inl)))
      · exact k4 (Or.inr (fun hy => hx (hy.elim Or.inr Or.inl)))
  refine ⟨A, P, ?_, f2, j2, hA, hP, ?_⟩
  · simp [batchSets, a1, b1, c1, d1, e1, f1, g1, i1, j1, liftR_ok]
  · -- `A` lives at or below the sampling edge, `P` strictly above it
    cases hsamp : c.afterSampling with
    | none =>
      have : A = [] := by
        cases A with
        | nil => rfl
        | cons r rest =>
          have hv := inv_validR f2 (r := r) (by simp)
          have hm : mem (r :: rest) r.1 := ⟨r, by simp, Nat.le_refl _, hv.2.1⟩
          obtain ⟨_, _, p, hp, _⟩ := (hA r.1).1 hm
          rw [hsamp] at hp; cases hp
      subst this
      have := card_le j2
      simpa using this
    | some p =>
      obtain ⟨p1, p2, _⟩ := hc.sampling p hsamp
      have hAb : 1 + card A ≤ p + 1 := by
        apply card_between f2 1 p _ (by omega)
        intro r hr
        have hv := inv_validR f2 hr
        have hm : mem A r.2 := ⟨r, hr, hv.2.1, Nat.le_refl _⟩
        obtain ⟨_, _, q, hq, hle⟩ := (hA r.2).1 hm
        rw [hsamp] at hq; cases hq
        exact ⟨hv.1, hle⟩
      have hPb : (p + 1) + card P ≤ U64_MAX + 1 := by
        apply card_between j2 (p + 1) U64_MAX _ (by omega)
        intro r hr
        have hv := inv_validR j2 hr
        have hm : mem P r.1 := ⟨r, hr, Nat.le_refl _, hv.2.1⟩
        have hn := ((hP r.1).1 hm).2.2.1
        refine ⟨?_, hv.2.2⟩
        apply Nat.lt_of_not_le
        intro hle
        exact hn ⟨p, hsamp, hle⟩
      omega

/-! ### the `Daser` loop -/

theorem insertPoint_spec {batch : Ranges} (hi : RInv batch) {h : Nat} (h1 : 1 ≤ h) (h2 : h ≤ U64_MAX) :
    ∃ b, liftR (expectOk (insertRelaxed batch (h, h))) = .ok b ∧ RInv b ∧
      ∀ x, mem b x ↔ mem batch x ∨ x = h := by
  obtain ⟨b, k1, k2, k3⟩ := insertRelaxed_spec hi (r := (h, h)) ⟨h1, Nat.le_refl _, h2⟩
  refine ⟨b, by simp [k1, expectOk_ok, liftR_ok], k2, fun x => ?_⟩
  rw [k3]
  constructor
  · rintro (hx | ⟨hx1, hx2⟩)
    · exact Or.inl hx
    · exact Or.inr (Nat.le_antisymm hx2 hx1)
  · rintro (hx | hx)
    · exact Or.inl hx
    · subst hx; exact Or.inr ⟨Nat.le_refl _, Nat.le_refl _⟩

/-- The loop over the heights beyond both windows: total; the batch only grows, by heights of the
    list that are sampled or granted; the trace grows by one `WantToPrune` per unsampled height
    visited, carrying the oracle's answer; a height added without being sampled was granted. -/
theorem daserLoop_spec (limit : Nat) (sampled : Ranges) (grant : Nat → Bool) :
    ∀ (hs : List Nat) (batch : Ranges) (tr : List Msg), RInv batch → (∀ h ∈ hs, 1 ≤ h ∧ h ≤ U64_MAX) →
    ∃ b ext, daserLoop limit sampled grant hs batch tr = .ok (b, tr ++ ext) ∧ RInv b ∧
      (∀ x, mem batch x → mem b x) ∧
      (∀ x, mem b x → mem batch x ∨ (x ∈ hs ∧ (mem sampled x ∨ Msg.wantToPrune x true ∈ ext))) ∧
      (∀ m ∈ ext, ∃ x ∈ hs, ¬ mem sampled x ∧ m = Msg.wantToPrune x (grant x)) ∧
      (∀ x, Msg.wantToPrune x false ∈ ext → mem b x → mem batch x)
  | [], batch, tr, hi, _ => ⟨batch, [], by simp [daserLoop], hi, fun _ h => h, fun _ h => Or.inl h,
      fun m hm => (by cases hm), fun _ _ h => h⟩
  | h :: rest, batch, tr, hi, hv => by
    have hvr : ∀ x ∈ rest, 1 ≤ x ∧ x ≤ U64_MAX := fun x hx => hv x (List.mem_cons_of_mem _ hx)
    obtain ⟨hh1, hh2⟩ := hv h (by simp)
    unfold daserLoop
    rw [len_spec hi, liftR_ok]
    by_cases hfull : (card batch == limit) = true
    · exact ⟨batch, [], by simp [hfull], hi, fun _ hx => hx, fun _ hx => Or.inl hx,
        fun m hm => (by cases hm), fun _ _ hx => hx⟩
    · simp only [hfull, Bool.false_eq_true, ↓reduceIte]
      by_cases hsam : contains sampled h = true
      · have hms := (contains_iff_mem sampled h).1 hsam
        obtain ⟨b1, k1, k2, k3⟩ := insertPoint_spec hi hh1 hh2
        obtain ⟨b, ext, r1, r2, r3, r4, r5, r6⟩ := daserLoop_spec limit sampled grant rest b1 tr k2 hvr
        refine ⟨b, ext, by simp [hsam, k1, r1], r2, fun x hx => r3 x ((k3 x).2 (Or.inl hx)), ?_, ?_, ?_⟩
        · intro x hx
          rcases r4 x hx with hx1 | ⟨hx1, hx2⟩
          · rcases (k3 x).1 hx1 with hx3 | hx3
            · exact Or.inl hx3
            · subst hx3; exact Or.inr ⟨by simp, Or.inl hms⟩
          · exact Or.inr ⟨List.mem_cons_of_mem _ hx1, hx2⟩
        · intro m hm
          obtain ⟨x, hx1, hx2⟩ := r5 m hm
          exact ⟨x, List.mem_cons_of_mem _ hx1, hx2⟩
        · intro x hx hb
          rcases (k3 x).1 (r6 x hx hb) with hx3 | hx3
          · exact hx3
          · -- `x = h` is sampled, so it was never asked
            subst hx3
            obtain ⟨y, _, hy2, hy3⟩ := r5 _ hx
            injection hy3 with e1 e2
            subst e1
            exact absurd hms hy2
      · have hns : ¬ mem sampled h := fun hc => hsam ((contains_iff_mem sampled h).2 hc)
        simp only [hsam, Bool.false_eq_true, ↓reduceIte]
        by_cases hg : grant h = true
        · obtain ⟨b1, k1, k2, k3⟩ := insertPoint_spec hi hh1 hh2
          obtain ⟨b, ext, r1, r2, r3, r4, r5, r6⟩ :=
            daserLoop_spec limit sampled grant rest b1 (tr ++ [Msg.wantToPrune h (grant h)]) k2 hvr
          refine ⟨b, Msg.wantToPrune h (grant h) :: ext, by simp [hg, k1] at r1 ⊢; simpa [hg] using r1, r2,
            fun x hx => r3 x ((k3 x).2 (Or.inl hx)), ?_, ?_, ?_⟩
          · intro x hx
            rcases r4 x hx with hx1 | ⟨hx1, hx2⟩
            · rcases (k3 x).1 hx1 with hx3 | hx3
              · exact Or.inl hx3
              · subst hx3; exact Or.inr ⟨by simp, Or.inr (by simp [hg])⟩
            · exact Or.inr ⟨List.mem_cons_of_mem _ hx1, hx2.elim Or.inl (fun h' => Or.inr (List.mem_cons_of_mem _ h'))⟩
          · intro m hm
            rcases List.mem_cons.1 hm with hm1 | hm1
            · exact ⟨h, by simp, hns, hm1⟩
            · obtain ⟨x, hx1, hx2⟩ := r5 m hm1
              exact ⟨x, List.mem_cons_of_mem _ hx1, hx2⟩
          · intro x hx hb
            rcases List.mem_cons.1 hx with hx1 | hx1
            · -- the head message is a grant
              rw [hg] at hx1; cases hx1
            · rcases (k3 x).1 (r6 x hx1 hb) with hx3 | hx3
              · exact hx3
              · -- `x = h` was granted; a refusal of `h` later in the trace would carry `grant h = true`
                subst hx3
                obtain ⟨y, _, _, hy3⟩ := r5 _ hx1
                injection hy3 with e1 e2
                subst e1
                rw [hg] at e2
                cases e2
        · have hgf : grant h = false := by simpa using hg
          obtain ⟨b, ext, r1, r2, r3, r4, r5, r6⟩ :=
            daserLoop_spec limit sampled grant rest batch (tr ++ [Msg.wantToPrune h (grant h)]) hi hvr
          refine ⟨b, Msg.wantToPrune h (grant h) :: ext, by simp [hgf] at r1 ⊢; simpa [hgf] using r1, r2, r3, ?_, ?_, ?_⟩
          · intro x hx
            rcases r4 x hx with hx1 | ⟨hx1, hx2⟩
            · exact Or.inl hx1
            · exact Or.inr ⟨List.mem_cons_of_mem _ hx1, hx2.elim Or.inl (fun h' => Or.inr (List.mem_cons_of_mem _ h'))⟩
          · intro m hm
            rcases List.mem_cons.1 hm with hm1 | hm1
            · exact ⟨h, by simp, hns, hm1⟩
            · obtain ⟨x, hx1, hx2⟩ := r5 m hm1
              exact ⟨x, List.mem_cons_of_mem _ hx1, hx2⟩
          · intro x hx hb
            rcases List.mem_cons.1 hx with hx1 | hx1
            · -- `x = h`: refused now, so it can only be in `b` if it was in `batch` or was added later,
              -- which would need `grant h = true` or `h` sampled
              injection hx1 with e0 _
              subst e0
              rcases r4 x hb with hb1 | ⟨_, hb2 | hb2⟩
              · exact hb1
              · exact absurd hb2 hns
              · obtain ⟨y, _, _, hy3⟩ := r5 _ hb2
                injection hy3 with e1 e2
                subst e1
                rw [hgf] at e2
                cases e2
            · exact r6 x hx1 hb

/-! ### `get_next_prunable_batch` -/

/-- what the property demands of a batch and of the conversation with the `Daser` -/
structure BatchSafe (s : PStore) (sc pc : Nat) (grant : Nat → Bool) (batch : Ranges) (tr : List Msg) : Prop where
  inv : RInv batch
  /-- stored, outside the pruning window, and either outside the sampling window and sampled or
      granted, or sampled and not bordering an unsynced gap -/
  safe : ∀ h, mem batch h → mem s.stored h ∧ s.time h ≤ pc ∧
    ((s.time h ≤ sc ∧ (mem s.sampled h ∨ Msg.wantToPrune h true ∈ tr)) ∨
     (mem s.sampled h ∧ ¬ BordersGap s h))
  /-- never a height the `Daser` refused -/
  refused : ∀ h, Msg.wantToPrune h false ∈ tr → ¬ mem batch h
  /-- the answers in the trace are the oracle's; only stored, unsampled heights are asked about -/
  asked : ∀ h a, Msg.wantToPrune h a ∈ tr → a = grant h ∧ ¬ mem s.sampled h ∧ mem s.stored h

theorem time_le_of_inArea {s : PStore} (hs : StoreInv s) (hm : ChainMono s.time) {cutoff : Nat} {e : Option Nat}
    (he : EdgeOK s.time cutoff e) {h : Nat} (hst : mem s.stored h) (ha : InArea e h) : s.time h ≤ cutoff := by
  obtain ⟨p, hp, hle⟩ := ha
  exact Nat.le_trans (hm.le (mem_bounds hs.stored hst).1 hle) (he p hp).2.2

theorem getNextPrunableBatch_safe (limit : Nat) {s : PStore} (hs : StoreInv s) (hm : ChainMono s.time)
    {w : Worker} {sc pc : Nat} (hc : CacheOK s.time w.cache sc pc) (refresh : Bool) (grant : Nat → Bool) :
    ∃ batch w' tr, getNextPrunableBatch limit s w sc pc refresh grant = .ok (batch, w', tr) ∧
      CacheOK s.time w'.cache sc pc ∧ BatchSafe s sc pc grant batch tr := by
  obtain ⟨c', msgs0, u1, u2, u3⟩ := updateCachedData_spec hs.stored hm hc refresh
  obtain ⟨A, P, s1, s2, s3, s4, s5, s6⟩ := batchSets_spec hs u2
  obtain ⟨out, t1, t2, ⟨pre, t3⟩, _⟩ := headn_spec s3 limit
  have hval : ∀ h ∈ (heights A).reverse, 1 ≤ h ∧ h ≤ U64_MAX := fun h hh =>
    mem_bounds s2 ((mem_heights A h).1 (List.mem_reverse.1 hh))
  obtain ⟨b, ext, r1, r2, r3, r4, r5, r6⟩ := daserLoop_spec limit s.sampled grant _ out [] t2 hval
  have hadd : addU64 (card A) (card P) = .ok (card A + card P) := by simp [addU64, s6]
  have hout : ∀ h, mem out h → mem P h := fun h hh =>
    (mem_heights P h).1 (by rw [t3]; exact List.mem_append_right _ ((mem_heights out h).2 hh))
  have hmemA : ∀ h, h ∈ (heights A).reverse → mem A h := fun h hh =>
    (mem_heights A h).1 (List.mem_reverse.1 hh)
  obtain ⟨pn, tr1, hX, htr1⟩ : ∃ pn tr1,
      (if (w.prevNum != card A + card P) = true then (card A + card P, [Msg.updateNum (card A + card P)])
        else (w.prevNum, ([] : List Msg))) = (pn, tr1) ∧ ∀ m ∈ tr1, m = Msg.updateNum (card A + card P) := by
    by_cases hne : (w.prevNum != card A + card P) = true
    · refine ⟨card A + card P, [Msg.updateNum (card A + card P)], by simp only [hne, ↓reduceIte], ?_⟩
      intro m hm
      simpa using hm
    · refine ⟨w.prevNum, [], by simp only [hne, Bool.false_eq_true, ↓reduceIte], ?_⟩
      intro m hm
      cases hm
  have heq : getNextPrunableBatch limit s w sc pc refresh grant =
      .ok (b, { cache := c', prevNum := pn }, msgs0 ++ tr1 ++ ext) := by
    simp only [getNextPrunableBatch, u1, s1, len_spec s2, len_spec s3, hadd, t1, r1, liftR_ok, ok_bind,
      pure_eq, List.nil_append, hX]
  have hW : ∀ h a, Msg.wantToPrune h a ∈ msgs0 ++ tr1 ++ ext → Msg.wantToPrune h a ∈ ext := by
    intro h a hmem
    rcases List.mem_append.1 hmem with hmem1 | hmem1
    · rcases List.mem_append.1 hmem1 with hmem2 | hmem2
      · obtain ⟨x, hx⟩ := u3 _ hmem2; cases hx
      · have := htr1 _ hmem2; cases this
    · exact hmem1
  refine ⟨b, _, _, heq, u2, ⟨r2, ?_, ?_, ?_⟩⟩
  · intro h hb
    rcases r4 h hb with hb1 | ⟨hb1, hb2⟩
    · obtain ⟨k1, k2, _, k4, k5⟩ := (s5 h).1 (hout h hb1)
      exact ⟨k1, time_le_of_inArea hs hm u2.pruning k1 k2, Or.inr ⟨k5, k4⟩⟩
    · obtain ⟨k1, k2, k3⟩ := (s4 h).1 (hmemA h hb1)
      refine ⟨k1, time_le_of_inArea hs hm u2.pruning k1 k2,
        Or.inl ⟨time_le_of_inArea hs hm u2.sampling k1 k3, hb2.elim Or.inl (fun hx => Or.inr ?_)⟩⟩
      exact List.mem_append_right _ hx
  · intro h hmem hb
    have hx := hW h false hmem
    have := r6 h hx hb
    obtain ⟨y, hy1, _, hy3⟩ := r5 _ hx
    injection hy3 with e1 _
    subst e1
    exact ((s5 h).1 (hout h this)).2.2.1 ((s4 h).1 (hmemA h hy1)).2.2
  · intro h a hmem
    obtain ⟨y, hy1, hy2, hy3⟩ := r5 _ (hW h a hmem)
    injection hy3 with e1 e2
    subst e1
    exact ⟨e2, hy2, ((s4 h).1 (hmemA h hy1)).1⟩

/-! ### the removal loop -/

/-- what removing one header does: its metadata CIDs out of the blockstore, then the header -/
def stepEffs (s : PStore) (h : Nat) : List Eff := (s.cids h).map Eff.bsRemove ++ [Eff.removeHeight h]

def rangeEffs (s : PStore) (r : Range) : List Eff :=
  (List.range' r.1 (r.2 + 1 - r.1)).flatMap (stepEffs s) ++ [Eff.prunedEvent r.1 r.2]

/-- the complete effect trace of removing a batch, from the store as it was before -/
def batchEffs (s : PStore) (batch : Ranges) : List Eff := batch.flatMap (rangeEffs s)

theorem removeHeight_spec {s : PStore} (hs : StoreInv s) {h : Nat} (hm : mem s.stored h) :
    ∃ s', s.removeHeight h = .ok s' ∧ StoreInv s' ∧ s'.time = s.time ∧
      (∀ x, mem s'.stored x ↔ mem s.stored x ∧ x ≠ h) ∧ (∀ x, mem s'.pruned x ↔ mem s.pruned x ∨ x = h) ∧
      (∀ x, mem s'.sampled x ↔ mem s.sampled x ∧ x ≠ h) ∧ (∀ x, x ≠ h → s'.cids x = s.cids x) := by
  obtain ⟨b1, b2⟩ := mem_bounds hs.stored hm
  have hv : ValidR (h, h) := ⟨b1, Nat.le_refl _, b2⟩
  obtain ⟨st, k1, k2, k3⟩ := removeRelaxed_spec hs.stored hv
  obtain ⟨sa, l1, l2, l3⟩ := removeRelaxed_spec hs.sampled hv
  obtain ⟨pr, m1, m2, m3⟩ := insertRelaxed_spec hs.pruned hv
  have hpt : ∀ x, (h ≤ x ∧ x ≤ h) ↔ x = h := fun x => ⟨fun ⟨a, b⟩ => Nat.le_antisymm b a, fun e => by subst e; exact ⟨Nat.le_refl _, Nat.le_refl _⟩⟩
  refine ⟨{ s with stored := st, sampled := sa, pruned := pr, cids := fun x => if x = h then [] else s.cids x },
    by simp [PStore.removeHeight, (contains_iff_mem s.stored h).2 hm, k1, l1, m1, expectOk_ok, liftR_ok],
    ⟨k2, m2, l2⟩, rfl, ?_, ?_, ?_, ?_⟩
  · intro x; show mem st x ↔ _; rw [k3]; exact and_congr_right fun _ => not_congr (hpt x)
  · intro x; show mem pr x ↔ _; rw [m3]; exact or_congr_right (hpt x)
  · intro x; show mem sa x ↔ _; rw [l3]; exact and_congr_right fun _ => not_congr (hpt x)
  · intro x hx; show (if x = h then [] else s.cids x) = _; simp [hx]

theorem pruneHeights_spec (s0 : PStore) :
    ∀ (hs : List Nat) (s : PStore) (acc : List Eff), StoreInv s → hs.Pairwise (· < ·) →
      (∀ x ∈ hs, mem s.stored x ∧ s.cids x = s0.cids x) → s.time = s0.time →
      ∃ s', pruneHeights s hs acc = .ok (s', acc ++ hs.flatMap (stepEffs s0)) ∧ StoreInv s' ∧
        s'.time = s0.time ∧ (∀ x, mem s'.stored x ↔ mem s.stored x ∧ x ∉ hs) ∧
        (∀ x, mem s'.pruned x ↔ mem s.pruned x ∨ x ∈ hs) ∧
        (∀ x, mem s'.sampled x ↔ mem s.sampled x ∧ x ∉ hs) ∧ (∀ x, x ∉ hs → s'.cids x = s.cids x)
  | [], s, acc, hi, _, _, ht => ⟨s, by simp [pruneHeights], hi, ht, by simp, by simp, by simp, fun _ _ => rfl⟩
  | h :: rest, s, acc, hi, hp, hall, ht => by
    obtain ⟨hm, hc⟩ := hall h (by simp)
    obtain ⟨s1, k1, k2, k3, k4, k5, k6, k7⟩ := removeHeight_spec hi hm
    have hp' := List.pairwise_cons.1 hp
    have hall' : ∀ x ∈ rest, mem s1.stored x ∧ s1.cids x = s0.cids x := by
      intro x hx
      have hne : x ≠ h := by have := hp'.1 x hx; omega
      obtain ⟨a, b⟩ := hall x (List.mem_cons_of_mem _ hx)
      exact ⟨(k4 x).2 ⟨a, hne⟩, by rw [k7 x hne, b]⟩
    obtain ⟨s', r1, r2, r3, r4, r5, r6, r7⟩ :=
      pruneHeights_spec s0 rest s1 (acc ++ stepEffs s0 h) k2 hp'.2 hall' (by rw [k3, ht])
    refine ⟨s', ?_, r2, r3, ?_, ?_, ?_, ?_⟩
    · simp only [pruneHeights, pruneHeight, (contains_iff_mem s.stored h).2 hm, Bool.not_true,
        Bool.false_eq_true, ↓reduceIte, k1]
      rw [show (s.cids h).map Eff.bsRemove ++ [Eff.removeHeight h] = stepEffs s0 h by simp [stepEffs, hc]]
      rw [r1]
      simp [List.flatMap_cons, List.append_assoc]
    · intro x; rw [r4, k4]; simp only [List.mem_cons, not_or]; exact ⟨fun ⟨⟨a, b⟩, c⟩ => ⟨a, b, c⟩, fun ⟨a, b, c⟩ => ⟨⟨a, b⟩, c⟩⟩
    · intro x; rw [r5, k5]; simp only [List.mem_cons]; exact ⟨fun h' => h'.elim (fun h'' => h''.elim Or.inl (fun e => Or.inr (Or.inl e))) (fun e => Or.inr (Or.inr e)), fun h' => h'.elim (fun a => Or.inl (Or.inl a)) (fun e => e.elim (fun e' => Or.inl (Or.inr e')) Or.inr)⟩
    · intro x; rw [r6, k6]; simp only [List.mem_cons, not_or]; exact ⟨fun ⟨⟨a, b⟩, c⟩ => ⟨a, b, c⟩, fun ⟨a, b, c⟩ => ⟨⟨a, b⟩, c⟩⟩
    · intro x hx
      simp only [List.mem_cons, not_or] at hx
      rw [r7 x hx.2, k7 x hx.1]

theorem pruneBatch_spec (s0 : PStore) :
    ∀ (batch : Ranges) (s : PStore) (acc : List Eff), StoreInv s → RInv batch →
      (∀ x, mem batch x → mem s.stored x ∧ s.cids x = s0.cids x) → s.time = s0.time →
      ∃ s', pruneBatch s batch acc = .ok (s', acc ++ batchEffs s0 batch) ∧ StoreInv s' ∧
        s'.time = s0.time ∧ (∀ x, mem s'.stored x ↔ mem s.stored x ∧ ¬ mem batch x) ∧
        (∀ x, mem s'.pruned x ↔ mem s.pruned x ∨ mem batch x) ∧
        (∀ x, mem s'.sampled x ↔ mem s.sampled x ∧ ¬ mem batch x) ∧
        (∀ x, ¬ mem batch x → s'.cids x = s.cids x)
  | [], s, acc, hi, _, _, ht => ⟨s, by simp [pruneBatch, batchEffs], hi, ht, by simp [mem_nil], by simp [mem_nil],
      by simp [mem_nil], fun _ _ => rfl⟩
  | r :: rest, s, acc, hi, hb, hall, ht => by
    obtain ⟨hlt, hv, hb'⟩ := inv_cons.1 hb
    unfold ValidR at hv
    have hmr : ∀ x, x ∈ List.range' r.1 (r.2 + 1 - r.1) ↔ r.1 ≤ x ∧ x ≤ r.2 := by
      intro x; rw [List.mem_range'_1]; omega
    have hsorted : (List.range' r.1 (r.2 + 1 - r.1)).Pairwise (· < ·) := List.pairwise_lt_range'
    obtain ⟨s1, k1, k2, k3, k4, k5, k6, k7⟩ := pruneHeights_spec s0 _ s [] hi hsorted
      (fun x hx => hall x ((mem_cons r rest x).2 (Or.inl ((hmr x).1 hx)))) ht
    have hall' : ∀ x, mem rest x → mem s1.stored x ∧ s1.cids x = s0.cids x := by
      intro x hx
      obtain ⟨y, hy, hy1, hy2⟩ := hx
      have hgap := hlt y hy
      have hnr : x ∉ List.range' r.1 (r.2 + 1 - r.1) := fun hc => by have := (hmr x).1 hc; omega
      obtain ⟨a, b⟩ := hall x ((mem_cons r rest x).2 (Or.inr ⟨y, hy, hy1, hy2⟩))
      exact ⟨(k4 x).2 ⟨a, hnr⟩, by rw [k7 x hnr, b]⟩
    obtain ⟨s', r1, r2, r3, r4, r5, r6, r7⟩ :=
      pruneBatch_spec s0 rest s1 (acc ++ rangeEffs s0 r) k2 hb' hall' k3
    refine ⟨s', ?_, r2, r3, ?_, ?_, ?_, ?_⟩
    · simp only [pruneBatch, pruneRange, k1, List.nil_append, hv.2.1, ↓reduceIte]
      rw [show (List.range' r.1 (r.2 + 1 - r.1)).flatMap (stepEffs s0) ++ [Eff.prunedEvent r.1 r.2] = rangeEffs s0 r from rfl, r1]
      simp [batchEffs, List.flatMap_cons, List.append_assoc]
    · intro x; rw [r4, k4, mem_cons, hmr]
      exact ⟨fun ⟨⟨a, b⟩, c⟩ => ⟨a, fun hc => hc.elim b c⟩, fun ⟨a, b⟩ => ⟨⟨a, fun hc => b (Or.inl hc)⟩, fun hc => b (Or.inr hc)⟩⟩
    · intro x; rw [r5, k5, mem_cons, hmr]
      exact ⟨fun h' => h'.elim (fun h'' => h''.elim Or.inl (fun e => Or.inr (Or.inl e))) (fun e => Or.inr (Or.inr e)), fun h' => h'.elim (fun a => Or.inl (Or.inl a)) (fun e => e.elim (fun e' => Or.inl (Or.inr e')) Or.inr)⟩
    · intro x; rw [r6, k6, mem_cons, hmr]
      exact ⟨fun ⟨⟨a, b⟩, c⟩ => ⟨a, fun hc => hc.elim b c⟩, fun ⟨a, b⟩ => ⟨⟨a, fun hc => b (Or.inl hc)⟩, fun hc => b (Or.inr hc)⟩⟩
    · intro x hx
      rw [mem_cons, not_or] at hx
      rw [r7 x hx.2, k7 x (fun hc => hx.1 ((hmr x).1 hc))]

/-! ### one iteration of the pruner loop -/

theorem runIteration_safe (limit : Nat) {s : PStore} (hs : StoreInv s) (hm : ChainMono s.time)
    {w : Worker} {sc pc : Nat} (hc : CacheOK s.time w.cache sc pc) (refresh : Bool) (grant : Nat → Bool) :
    ∃ s' w' batch msgs, runIteration limit s w sc pc refresh grant = .ok (s', w', batch, msgs, batchEffs s batch) ∧
      StoreInv s' ∧ s'.time = s.time ∧ CacheOK s.time w'.cache sc pc ∧ BatchSafe s sc pc grant batch msgs ∧
      (∀ x, mem s'.stored x ↔ mem s.stored x ∧ ¬ mem batch x) ∧
      (∀ x, mem s'.pruned x ↔ mem s.pruned x ∨ mem batch x) := by
  obtain ⟨batch, w', tr, h1, h2, h3⟩ := getNextPrunableBatch_safe limit hs hm hc refresh grant
  obtain ⟨s', k1, k2, k3, k4, k5, _, _⟩ := pruneBatch_spec s batch s [] hs h3.inv
    (fun x hx => ⟨(h3.safe x hx).1, rfl⟩) rfl
  exact ⟨s', w', batch, tr, by simp [runIteration, h1, k1], k2, k3, h2, h3, k4, k5⟩

/-! ### histories -/

/-- what happens to the pruner over time -/
inductive Op where
  /-- the rest of the node (syncer, daser, …) has changed the store: any well-formed store over
      the same chain -/
  | env (s : PStore)
  /-- one iteration of the pruner's loop: cutoffs `now − window`, whether the cached edges were
      refreshed, the `Daser`'s answers -/
  | iter (sc pc : Nat) (refresh : Bool) (grant : Nat → Bool)

structure Sys where
  store : PStore
  worker : Worker
  /-- the cutoffs of the latest iteration -/
  sc : Nat
  pc : Nat

structure Outcome where
  before : PStore
  sc : Nat
  pc : Nat
  grant : Nat → Bool
  batch : Ranges
  msgs : List Msg
  effs : List Eff

/-- run a history; `none` if some iteration fails (panic / missing header) -/
def runOps (limit : Nat) : Sys → List Op → Option (Sys × List Outcome)
  | sys, [] => some (sys, [])
  | sys, .env s' :: ops => runOps limit { sys with store := s' } ops
  | sys, .iter sc pc rf g :: ops =>
    match runIteration limit sys.store sys.worker sc pc rf g with
    | .error _ => none
    | .ok (s', w', batch, msgs, effs) =>
      match runOps limit { store := s', worker := w', sc := sc, pc := pc } ops with
      | none => none
      | some (fin, outs) => some (fin, ⟨sys.store, sc, pc, g, batch, msgs, effs⟩ :: outs)

/-- histories the property speaks about: every store the environment produces is well-formed and
    over the same chain (`time = T`); the clock does not run backwards (cutoffs never decrease) -/
def Admissible (T : Nat → Nat) : Nat → Nat → List Op → Prop
  | _, _, [] => True
  | sc, pc, .env s' :: ops => StoreInv s' ∧ s'.time = T ∧ Admissible T sc pc ops
  | sc0, pc0, .iter sc pc _ _ :: ops => sc0 ≤ sc ∧ pc0 ≤ pc ∧ Admissible T sc pc ops

def OutcomeSafe (o : Outcome) : Prop :=
  BatchSafe o.before o.sc o.pc o.grant o.batch o.msgs ∧ o.effs = batchEffs o.before o.batch

theorem runOps_safe (limit : Nat) (T : Nat → Nat) (hT : ChainMono T) :
    ∀ (ops : List Op) (sys : Sys), StoreInv sys.store → sys.store.time = T →
      CacheOK T sys.worker.cache sys.sc sys.pc → Admissible T sys.sc sys.pc ops →
      ∃ fin outs, runOps limit sys ops = some (fin, outs) ∧ ∀ o ∈ outs, OutcomeSafe o
  | [], sys, _, _, _, _ => ⟨sys, [], rfl, fun o ho => by cases ho⟩
  | .env s' :: ops, sys, _, _, hc, ha => by
    obtain ⟨a1, a2, a3⟩ := ha
    exact runOps_safe limit T hT ops { sys with store := s' } a1 a2 hc a3
  | .iter sc pc rf g :: ops, sys, hi, ht, hc, ha => by
    obtain ⟨a1, a2, a3⟩ := ha
    have hc' : CacheOK sys.store.time sys.worker.cache sc pc := by rw [ht]; exact hc.mono a1 a2
    obtain ⟨s', w', batch, msgs, k1, k2, k3, k4, k5, _, _⟩ :=
      runIteration_safe limit hi (by rw [ht]; exact hT) hc' rf g
    obtain ⟨fin, outs, r1, r2⟩ := runOps_safe limit T hT ops { store := s', worker := w', sc := sc, pc := pc }
      k2 (by rw [k3, ht]) (by rw [← ht]; exact k4) a3
    refine ⟨fin, ⟨sys.store, sc, pc, g, batch, msgs, batchEffs sys.store batch⟩ :: outs,
      by simp [runOps, k1, r1], ?_⟩
    intro o ho
    rcases List.mem_cons.1 ho with ho1 | ho1
    · subst ho1; exact ⟨k5, rfl⟩
    · exact r2 o ho1

/-! ### the decidable checkers of `Spec/C35.lean` -/

open Lumina.Spec.C35

/-- the abstract view of a store: the sets as lists of heights -/
def viewOf (s : PStore) (sc pc : Nat) : View :=
  { stored := heights s.stored, pruned := heights s.pruned, sampled := heights s.sampled,
    time := s.time, sc := sc, pc := pc }

/-- the `Daser`'s answers in a message trace -/
def answersOf (tr : List Msg) : List (Nat × Bool) :=
  tr.filterMap fun m => match m with
    | .wantToPrune h a => some (h, a)
    | _ => none

theorem mem_answersOf (tr : List Msg) (h : Nat) (a : Bool) :
    (h, a) ∈ answersOf tr ↔ Msg.wantToPrune h a ∈ tr := by
  simp only [answersOf, List.mem_filterMap]
  constructor
  · rintro ⟨m, hm, he⟩
    cases m with
    | wantToPrune h' a' => simp only [Option.some.injEq, Prod.mk.injEq] at he; obtain ⟨rfl, rfl⟩ := he; exact hm
    | updateHighest _ => cases he
    | updateNum _ => cases he
  · intro hm; exact ⟨_, hm, rfl⟩

theorem containsH (rs : Ranges) (h : Nat) : (heights rs).contains h = true ↔ mem rs h := by
  rw [List.contains_iff_mem, mem_heights]

theorem containsH_false (rs : Ranges) (h : Nat) : (heights rs).contains h = false ↔ ¬ mem rs h := by
  rw [← containsH, Bool.not_eq_true]

theorem bordersGap_iff (s : PStore) (sc pc h : Nat) :
    (viewOf s sc pc).bordersGap h = true ↔ BordersGap s h := by
  simp only [View.bordersGap, View.synced, viewOf, Bool.or_eq_true, Bool.not_eq_true', Bool.or_eq_false_iff,
    containsH_false, BordersGap, not_or]

/-- a safe batch passes the property's checker -/
theorem batchOK_of_safe {s : PStore} {sc pc : Nat} {grant : Nat → Bool} {batch : Ranges} {tr : List Msg}
    (hb : BatchSafe s sc pc grant batch tr) :
    batchOK (viewOf s sc pc) (answersOf tr) (heights batch) = true := by
  simp only [batchOK, Bool.and_eq_true, List.all_eq_true, mem_heights]
  constructor
  · intro h hmem
    obtain ⟨h1, h2, h3⟩ := hb.safe h hmem
    have hst : (viewOf s sc pc).stored.contains h = true := (containsH s.stored h).2 h1
    have hpw : (viewOf s sc pc).insidePruningWindow h = false := by
      show decide (pc < s.time h) = false
      exact decide_eq_false (by omega)
    have hgr : ∀ x, (answersOf tr).contains (x, true) = true ↔ Msg.wantToPrune x true ∈ tr := fun x => by
      rw [List.contains_iff_mem, mem_answersOf]
    simp only [View.removable, hst, hpw, Bool.not_false, Bool.and_self, Bool.true_and, Bool.and_eq_true]
    rcases h3 with ⟨k1, k2⟩ | ⟨k1, k2⟩
    · have hsw : (viewOf s sc pc).insideSamplingWindow h = false := by
        show decide (sc < s.time h) = false
        exact decide_eq_false (by omega)
      have : ((viewOf s sc pc).sampled.contains h || (answersOf tr).contains (h, true)) = true := by
        rw [Bool.or_eq_true]
        exact k2.elim (fun a => Or.inl ((containsH s.sampled h).2 a)) (fun a => Or.inr ((hgr h).2 a))
      simp only [hsw, Bool.false_eq_true, ↓reduceIte, this, and_self]
    · have hsm : (viewOf s sc pc).sampled.contains h = true := (containsH s.sampled h).2 k1
      have hbg : (viewOf s sc pc).bordersGap h = false := by
        rw [← Bool.not_eq_true, bordersGap_iff]; exact k2
      simp only [hsm, hbg, Bool.not_false, Bool.and_self, Bool.true_or, ite_self, and_self]
  · rintro ⟨h, a⟩ hmem
    cases a with
    | true => simp
    | false =>
      have := hb.refused h ((mem_answersOf tr h false).1 hmem)
      simp only [Bool.false_or, Bool.not_eq_true', List.contains_eq_mem, decide_eq_false_iff_not, mem_heights]
      exact this

/-- the store / blockstore part of an effect trace -/
def project : List Eff → List Ev
  | [] => []
  | .bsRemove c :: rest => Ev.cid c :: project rest
  | .removeHeight h :: rest => Ev.height h :: project rest
  | .prunedEvent _ _ :: rest => project rest

theorem project_append (a b : List Eff) : project (a ++ b) = project a ++ project b := by
  induction a with
  | nil => rfl
  | cons e a ih => cases e <;> simp [project, ih]

/-- one header's block of events -/
def block (cids : Nat → List Nat) (h : Nat) : List Ev := (cids h).map Ev.cid ++ [Ev.height h]

theorem project_stepEffs (s : PStore) (h : Nat) : project (stepEffs s h) = block s.cids h := by
  simp only [stepEffs, block, project_append]
  congr 1
  induction s.cids h with
  | nil => rfl
  | cons c cs ih => simp [project, ih]

theorem project_flatMap_step (s : PStore) (hs : List Nat) :
    project (hs.flatMap (stepEffs s)) = hs.flatMap (block s.cids) := by
  induction hs with
  | nil => rfl
  | cons h hs ih => simp [List.flatMap_cons, project_append, project_stepEffs, ih]

theorem project_batchEffs (s : PStore) (batch : Ranges) :
    project (batchEffs s batch) = (heights batch).flatMap (block s.cids) := by
  induction batch with
  | nil => rfl
  | cons r rest ih =>
    simp only [batchEffs, List.flatMap_cons, project_append, heights, List.flatMap_append] at ih ⊢
    rw [ih]
    simp [rangeEffs, project_append, project_flatMap_step, project]

theorem orderOK_cids (cids : Nat → List Nat) (cs : List Nat) (rest : List Ev) (seen : List Nat) :
    orderOK cids (cs.map Ev.cid ++ rest) seen = orderOK cids rest (cs.reverse ++ seen) := by
  induction cs generalizing seen with
  | nil => rfl
  | cons c cs ih => simp [orderOK, ih]

theorem orderOK_blocks (cids : Nat → List Nat) : ∀ (hs : List Nat) (seen : List Nat),
    orderOK cids (hs.flatMap (block cids)) seen = true
  | [], _ => rfl
  | h :: hs, seen => by
    simp only [List.flatMap_cons, block, List.append_assoc, orderOK_cids, List.singleton_append, orderOK,
      Bool.and_eq_true, List.all_eq_true]
    refine ⟨fun c hc => ?_, orderOK_blocks cids hs _⟩
    simp [hc]

theorem removedHeights_append (a b : List Ev) : removedHeights (a ++ b) = removedHeights a ++ removedHeights b := by
  induction a with
  | nil => rfl
  | cons e a ih => cases e <;> simp [removedHeights, ih]

theorem removedHeights_blocks (cids : Nat → List Nat) (hs : List Nat) :
    removedHeights (hs.flatMap (block cids)) = hs := by
  induction hs with
  | nil => rfl
  | cons h hs ih =>
    have : removedHeights ((cids h).map Ev.cid) = [] := by
      induction cids h with
      | nil => rfl
      | cons c cs ih' => simp [removedHeights, ih']
    simp [List.flatMap_cons, block, removedHeights_append, this, removedHeights, ih]

/-! ### "CIDs first", spelled out on the trace -/

/-- in `l`, every occurrence of `remove_height h` has `blockstore.remove c` somewhere before it -/
def CidBefore (c h : Nat) (l : List Eff) : Prop :=
  ∀ pre post, l = pre ++ Eff.removeHeight h :: post → Eff.bsRemove c ∈ pre

theorem block_split (cs : List Nat) (x h : Nat) : ∀ (pre rest : List Eff),
    cs.map Eff.bsRemove ++ [Eff.removeHeight x] = pre ++ Eff.removeHeight h :: rest →
    pre = cs.map Eff.bsRemove ∧ x = h := by
  induction cs with
  | nil =>
    intro pre rest he
    cases pre with
    | nil => simp only [List.map_nil, List.nil_append, List.cons.injEq, Eff.removeHeight.injEq] at he; exact ⟨rfl, he.1⟩
    | cons e p => simp at he
  | cons c0 cs ih =>
    intro pre rest he
    cases pre with
    | nil => simp at he
    | cons e p =>
      simp only [List.map_cons, List.cons_append, List.cons.injEq] at he
      obtain ⟨k1, k2⟩ := ih p rest he.2
      exact ⟨by rw [← he.1, k1]; rfl, k2⟩

theorem cidBefore_step (s : PStore) {c h : Nat} (hc : c ∈ s.cids h) (x : Nat) {tail : List Eff}
    (ht : CidBefore c h tail) : CidBefore c h (stepEffs s x ++ tail) := by
  intro pre post he
  rcases List.append_eq_append_iff.1 he with ⟨a', k1, k2⟩ | ⟨c', k1, k2⟩
  · -- the occurrence lies in `tail`
    rw [k1]
    exact List.mem_append_right _ (ht a' post k2)
  · -- the occurrence lies in the block of `x`
    cases c' with
    | nil =>
      simp only [List.nil_append] at k2
      rw [List.append_nil] at k1
      rw [← k1]
      have := ht [] post k2.symm
      cases this
    | cons e c'' =>
      simp only [List.cons_append, List.cons.injEq] at k2
      obtain ⟨e1, _⟩ := k2
      subst e1
      obtain ⟨r1, r2⟩ := block_split (s.cids x) x h pre c'' k1
      subst r2
      rw [r1]
      exact List.mem_map.2 ⟨c, hc, rfl⟩

theorem cidBefore_event {c h a b : Nat} {tail : List Eff} (ht : CidBefore c h tail) :
    CidBefore c h (Eff.prunedEvent a b :: tail) := by
  intro pre post he
  cases pre with
  | nil => simp at he
  | cons e p =>
    simp only [List.cons_append, List.cons.injEq] at he
    exact List.mem_cons_of_mem _ (ht p post he.2)

theorem cidBefore_steps (s : PStore) {c h : Nat} (hc : c ∈ s.cids h) : ∀ (hs : List Nat) {tail : List Eff},
    CidBefore c h tail → CidBefore c h (hs.flatMap (stepEffs s) ++ tail)
  | [], _, ht => by simpa using ht
  | x :: xs, tail, ht => by
    simp only [List.flatMap_cons, List.append_assoc]
    exact cidBefore_step s hc x (cidBefore_steps s hc xs ht)

theorem cidBefore_batchEffs (s : PStore) {c h : Nat} (hc : c ∈ s.cids h) :
    ∀ batch : Ranges, CidBefore c h (batchEffs s batch)
  | [] => fun pre post he => by simp [batchEffs] at he
  | r :: rest => by
    simp only [batchEffs, List.flatMap_cons, rangeEffs, List.append_assoc, List.singleton_append]
    exact cidBefore_steps s hc _ (cidBefore_event (cidBefore_batchEffs s hc rest))

end Lumina.Proofs.Pruner

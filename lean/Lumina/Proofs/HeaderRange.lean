/-
  Lemmas about the `get_verified_headers_range` model: composition of the session invariant
  (Proofs/Session.lean) with the client acceptance theorems (Props/C28.lean).
-/
import Lumina.Proofs.Session
import Lumina.Props.C28
import Lumina.Model.HeaderRange

namespace Lumina.Proofs.HeaderRange
open Lumina.Model.Session (State Ev Cfg step init result Range Req)
open Lumina.Model.HeaderExClient (Hdr Resp Request Err isValid decodeAndVerifyG decodeAndVerify Outcome toKind toEntry)
open Lumina.Model.HeaderRange
open Lumina.Proofs.Session (Inv Full AdmissibleEv inv_step task_in_range)

abbrev ht : Hdr → Nat := (·.height)

/-- the header-ex client's answer to a height request is a prefix of the request -/
theorem clientAnswer_ok (net : Net) (b : Beh) (h a : Nat) (hs : List Hdr) (hh : 1 ≤ h)
    (hok : clientAnswer 32 true net b h a = .ok hs) :
    hs.length ≤ a ∧ hs.map ht = List.range' h hs.length := by
  simp only [clientAnswer] at hok
  split at hok
  · cases hok
  · have hacc := Lumina.Props.C28.accept_sound _ _ hs hok
    have hne : h ≠ 0 := by omega
    simp only [Lumina.Spec.C28.acceptable, toKind, hne, ↓reduceIte, Bool.and_eq_true,
      decide_eq_true_eq, beq_iff_eq] at hacc
    exact ⟨hacc.2.1, hacc.2.2⟩

theorem clientAnswer_no_panic (net : Net) (b : Beh) (h a : Nat) :
    clientAnswer 32 true net b h a ≠ .panic := by
  simp only [clientAnswer]
  split
  · simp
  · exact Lumina.Props.C28.never_panics _ _

/-- (S9) whatever completes a task with `Ok(hs)` — the client, or a foreign `Ok(vec![])` — hands the
    session a prefix of the request -/
theorem answer_ok (net : Net) (b : Beh) (h a : Nat) (hs : List Hdr) (hh : 1 ≤ h)
    (hok : answer 32 true net b h a = some (.ok hs)) :
    hs.length ≤ a ∧ hs.map ht = List.range' h hs.length := by
  cases b with
  | dropped => simp [answer] at hok
  | emptyOk =>
    simp only [answer, Option.some.injEq, Outcome.ok.injEq] at hok
    subst hok
    simp
  | full => exact clientAnswer_ok net _ h a hs hh (by simpa [answer] using hok)
  | atMost k => exact clientAnswer_ok net _ h a hs hh (by simpa [answer] using hok)
  | notFound => exact clientAnswer_ok net _ h a hs hh (by simpa [answer] using hok)
  | invalid => exact clientAnswer_ok net _ h a hs hh (by simpa [answer] using hok)

theorem answer_no_panic (net : Net) (b : Beh) (h a : Nat) :
    answer 32 true net b h a ≠ some .panic := by
  cases b <;> simp [answer, clientAnswer_no_panic]

/-- a progressing behaviour is one of the real client's: the answer is the client's -/
theorem answer_progressing (net : Net) (b : Beh) (hb : b.progressing = true) (h a : Nat) :
    answer 32 true net b h a = some (clientAnswer 32 true net b h a) := by
  cases b <;> simp [answer, Beh.progressing] at hb ⊢

/-- once the session has stopped running (a non-HeaderEx error was returned) the drive is over -/
theorem drive_stopped (net : Net) (fuel j : Nat) (s : State Hdr) (h : s.status ≠ .running) :
    drive 32 true net fuel j s = .done s j := by
  cases fuel <;> simp [drive, h]

theorem validated_map_ok {β : Type} (l : List β) (f : β → Hdr) :
    Lumina.Proofs.HeaderExClient.validated (l.map (fun x => ({ status := 1, decoded := some (f x) } : Resp)))
      = l.map f := by
  induction l with
  | nil => rfl
  | cons x xs ih =>
    simp only [List.map_cons]
    rw [Lumina.Proofs.HeaderExClient.validated_cons_ok _ _ (f x) (by simp [Lumina.Model.HeaderExClient.toValidated]), ih]

/-- the client accepts a non-empty prefix `h, …, h+m-1` of the chain sent by a peer, as it is -/
theorem decode_chain_prefix (h a m : Nat) (hh : 1 ≤ h) (hm : 1 ≤ m) (hma : m ≤ a)
    (hfit : h + m - 1 ≤ U64_MAX) :
    decodeAndVerifyG true { data := .origin h, amount := a }
      ((List.range' h m).map (fun x => ({ status := 1, decoded := some (chainHdr x) } : Resp)))
      = .ok ((List.range' h m).map chainHdr) := by
  have hall : ∀ r ∈ (List.range' h m).map (fun x => ({ status := 1, decoded := some (chainHdr x) } : Resp)),
      r.status = 1 ∧ r.decoded.isSome = true := by
    intro r hr
    simp only [List.mem_map] at hr
    obtain ⟨x, _, rfl⟩ := hr
    simp
  have hloop := Lumina.Proofs.HeaderExClient.decodeLoop_all _ hall []
  rw [validated_map_ok] at hloop
  simp only [List.nil_append] at hloop
  have hheights : ((List.range' h m).map chainHdr).map (·.height) = List.range' h ((List.range' h m).map chainHdr).length := by
    simp [chainHdr, Function.comp_def]
  have hsort : Lumina.Model.HeaderExClient.sortByHeight ((List.range' h m).map chainHdr) = (List.range' h m).map chainHdr :=
    Lumina.Proofs.HeaderExClient.sortByHeight_id _
      (Lumina.Proofs.HeaderExClient.range'_heights_ascending _ h hheights)
  have hmatch : Lumina.Model.HeaderExClient.heightsMatchFrom h ((List.range' h m).map chainHdr) = true := by
    apply Lumina.Proofs.HeaderExClient.heightsMatchFrom_complete _ _ h hheights
    intro x hx
    simp only [List.mem_map, List.mem_range'_1] at hx
    obtain ⟨y, hy, rfl⟩ := hx
    simp only [chainHdr]
    have : Lumina.Model.HeaderExClient.U64_MAX = U64_MAX := rfl
    omega
  have hn : h ≠ 0 := by omega
  have h0 : m ≠ 0 := by omega
  have hgt : ¬ a < m := by omega
  simp [decodeAndVerifyG, hloop, hsort, hmatch, hn, h0, hgt]

/-- a peer that holds the requested headers and delivers at least one of them: the client hands
    the session a non-empty prefix of the requested chain headers -/
theorem clientAnswer_progress (net : Net) (b : Beh) (hb : b.progressing = true) (h a : Nat)
    (hh : 1 ≤ h) (ha : 1 ≤ a) (ha512 : a ≤ PEER_CAP)
    (hcov : h + a - 1 ≤ net.chainLen) (hfit : h + a - 1 ≤ U64_MAX) :
    ∃ m, 1 ≤ m ∧ m ≤ a ∧ clientAnswer 32 true net b h a = .ok ((List.range' h m).map chainHdr) := by
  have hvalid : isValid 32 { data := .origin h, amount := a } = true := by
    have h0 : a ≠ 0 := by omega
    have hn : h ≠ 0 := by omega
    simp [isValid, h0, hn]
  have havail : (if 1 ≤ h ∧ h ≤ net.chainLen then min (min a PEER_CAP) (net.chainLen - h + 1) else 0) = a := by
    have : 1 ≤ h ∧ h ≤ net.chainLen := ⟨hh, by omega⟩
    simp only [this, and_self, ↓reduceIte]
    omega
  cases b with
  | notFound => simp [Beh.progressing] at hb
  | invalid => simp [Beh.progressing] at hb
  | emptyOk => simp [Beh.progressing] at hb
  | dropped => simp [Beh.progressing] at hb
  | full =>
    refine ⟨a, ha, Nat.le_refl _, ?_⟩
    have hresps : peerResps net .full h a
        = (List.range' h a).map (fun x => ({ status := 1, decoded := some (chainHdr x) } : Resp)) := by
      have h0 : a ≠ 0 := by omega
      simp only [peerResps, havail, h0, ↓reduceIte]
    unfold clientAnswer
    simp only [hvalid, Bool.not_true, Bool.false_eq_true, ↓reduceIte, hresps]
    exact decode_chain_prefix h a a hh ha (Nat.le_refl _) hfit
  | atMost k =>
    simp only [Beh.progressing, decide_eq_true_eq] at hb
    refine ⟨min a k, by omega, by omega, ?_⟩
    have hresps : peerResps net (.atMost k) h a
        = (List.range' h (min a k)).map (fun x => ({ status := 1, decoded := some (chainHdr x) } : Resp)) := by
      have h0 : min a k ≠ 0 := by omega
      simp only [peerResps, havail, h0, ↓reduceIte]
    unfold clientAnswer
    simp only [hvalid, Bool.not_true, Bool.false_eq_true, ↓reduceIte, hresps]
    exact decode_chain_prefix h a (min a k) hh (by omega) (by omega) (by omega)

/-- `getD` inside the list -/
theorem getD_mem {β : Type} (l : List β) (i : Nat) (d : β) (h : i < l.length) : l.getD i d ∈ l := by
  rw [List.getD_eq_getElem?_getD, List.getElem?_eq_getElem h]
  exact List.getElem_mem h

/-- driving the session with the simulated client keeps the session invariant: no panic, and if
    the drive ends, either a non-HeaderEx error stopped the session (`failed`; S9: a dropped
    responder) or the session has completed -/
theorem drive_inv (net : Net) (r : Range) (hr : 1 ≤ r.1 ∧ r.1 ≤ r.2 ∧ r.2 ≤ Lumina.Model.Session.U64_MAX) :
    ∀ (fuel j : Nat) (s : State Hdr), Inv ht 64 r s → Full 8 s →
      drive 32 true net fuel j s ≠ .panic ∧
      ∀ s' steps, drive 32 true net fuel j s = .done s' steps →
        s'.status = .failed ∨ (Inv ht 64 r s' ∧ Full 8 s' ∧ s'.tasks = []) := by
  intro fuel
  induction fuel with
  | zero =>
    intro j s hinv hfull
    simp only [drive]
    split
    · rename_i hc
      refine ⟨by simp, ?_⟩
      intro s' steps he
      simp only [Driven.done.injEq] at he
      obtain ⟨rfl, _⟩ := he
      rcases hc with hc | hc
      · exact absurd hinv.running hc
      · exact Or.inr ⟨hinv, hfull, List.isEmpty_iff.mp hc⟩
    · exact ⟨by simp, by intro s' steps he; cases he⟩
  | succ fuel ih =>
    intro j s hinv hfull
    simp only [drive]
    split
    · rename_i hc
      refine ⟨by simp, ?_⟩
      intro s' steps he
      simp only [Driven.done.injEq] at he
      obtain ⟨rfl, _⟩ := he
      rcases hc with hc | hc
      · exact absurd hinv.running hc
      · exact Or.inr ⟨hinv, hfull, List.isEmpty_iff.mp hc⟩
    · rename_i hc
      have hne : s.tasks ≠ [] := by
        intro e; apply hc; right; simp [e]
      have hlen : 0 < s.tasks.length := List.length_pos_iff.mpr hne
      have hidx : (cyc net.order j 0) % s.tasks.length < s.tasks.length := Nat.mod_lt _ hlen
      have hmem := getD_mem s.tasks _ (0, 0) hidx
      generalize s.tasks.getD ((cyc net.order j 0) % s.tasks.length) (0, 0) = t at hmem ⊢
      have hin := task_in_range ht 64 r s hinv t hmem
      have ht1 : 1 ≤ t.1 := by omega
      cases hans : answer 32 true net (cyc net.beh j .full) t.1 t.2 with
      | none =>
        -- the responder was dropped: `run` returns the non-HeaderEx error
        simp only
        have hst : (step s (.fatal t.1 t.2)).status = .failed := by
          simp [step, hinv.running, Ev.req, hmem]
        have hnr : (step s (.fatal t.1 t.2)).status ≠ .running := by rw [hst]; decide
        rw [drive_stopped net fuel (j + 1) _ hnr]
        refine ⟨by simp, ?_⟩
        intro s' steps he
        simp only [Driven.done.injEq] at he
        obtain ⟨rfl, _⟩ := he
        exact Or.inl hst
      | some o =>
        cases o with
        | panic => exact absurd hans (answer_no_panic _ _ _ _)
        | ok hs =>
          simp only
          obtain ⟨hl, hp⟩ := answer_ok net _ t.1 t.2 hs ht1 hans
          have hadm : AdmissibleEv ht s (.ok t.1 t.2 hs) := ⟨hmem, hl, hp⟩
          obtain ⟨i1, i2⟩ := inv_step ht 64 8 r ⟨hr.2.1, hr.2.2⟩ s _ hinv hfull hadm
          exact ih (j + 1) _ i1 i2
        | err e =>
          simp only
          have hadm : AdmissibleEv ht s (.err t.1 t.2) := hmem
          obtain ⟨i1, i2⟩ := inv_step ht 64 8 r ⟨hr.2.1, hr.2.2⟩ s _ hinv hfull hadm
          exact ih (j + 1) _ i1 i2

/-- every received header is the served chain's header of its height -/
def ChainOnly (s : State Hdr) : Prop := ∀ x ∈ s.responses.flatten, x = chainHdr x.height

/-- with peers that hold the whole range and deliver at least one requested header per answer
    (full or truncated, any order), the drive completes within `remaining` further steps and only
    chain headers are received -/
theorem drive_served (net : Net) (r : Range)
    (hr : 1 ≤ r.1 ∧ r.1 ≤ r.2 ∧ r.2 ≤ Lumina.Model.Session.U64_MAX) (hcov : r.2 ≤ net.chainLen)
    (hprog : ∀ j, (cyc net.beh j .full).progressing = true) :
    ∀ (fuel j : Nat) (s : State Hdr), Inv ht 64 r s → Full 8 s → ChainOnly s →
      Lumina.Proofs.Session.remaining s ≤ fuel →
      ∃ s' steps, drive 32 true net fuel j s = .done s' steps ∧
        Inv ht 64 r s' ∧ Full 8 s' ∧ s'.tasks = [] ∧ ChainOnly s' ∧
        steps ≤ j + Lumina.Proofs.Session.remaining s := by
  intro fuel
  induction fuel with
  | zero =>
    intro j s hinv hfull hch hrem
    have ht0 := Lumina.Proofs.Session.remaining_zero_tasks ht 64 r s hinv (by omega)
    exact ⟨s, j, by simp [drive, ht0], hinv, hfull, ht0, hch, by omega⟩
  | succ fuel ih =>
    intro j s hinv hfull hch hrem
    by_cases hc : s.status ≠ .running ∨ s.tasks.isEmpty = true
    · have ht0 : s.tasks = [] := by
        rcases hc with hc | hc
        · exact absurd hinv.running hc
        · exact List.isEmpty_iff.mp hc
      exact ⟨s, j, by simp [drive, ht0], hinv, hfull, ht0, hch, by omega⟩
    · simp only [drive, hc, ↓reduceIte]
      have hne : s.tasks ≠ [] := by
        intro e; apply hc; right; simp [e]
      have hlen : 0 < s.tasks.length := List.length_pos_iff.mpr hne
      have hidx : (cyc net.order j 0) % s.tasks.length < s.tasks.length := Nat.mod_lt _ hlen
      have hmem := getD_mem s.tasks _ (0, 0) hidx
      generalize s.tasks.getD ((cyc net.order j 0) % s.tasks.length) (0, 0) = t at hmem ⊢
      have hin := task_in_range ht 64 r s hinv t hmem
      have hamt := hinv.amt t hmem
      have hrl : Lumina.Model.Session.rangeLen r = r.2 - r.1 + 1 := Lumina.Proofs.Session.rangeLen_pos hr.2.1
      rw [hrl] at hin
      have hU : Lumina.Model.Session.U64_MAX = U64_MAX := rfl
      obtain ⟨m, hm1, hma, hans⟩ := clientAnswer_progress net _ (hprog j) t.1 t.2 (by omega) hamt.1
        (by simp only [PEER_CAP]; omega) (by omega) (by omega)
      rw [answer_progressing net _ (hprog j), hans]
      simp only
      have hadm : AdmissibleEv ht s (.ok t.1 t.2 ((List.range' t.1 m).map chainHdr)) :=
        ⟨hmem, by simpa using hma, by simp [chainHdr, Function.comp_def]⟩
      obtain ⟨i1, i2⟩ := inv_step ht 64 8 r ⟨hr.2.1, hr.2.2⟩ s _ hinv hfull hadm
      have hflat := Lumina.Proofs.Session.step_ok_flatten s t.1 t.2 ((List.range' t.1 m).map chainHdr)
        hinv.running hmem
      have hch' : ChainOnly (step s (.ok t.1 t.2 ((List.range' t.1 m).map chainHdr))) := by
        intro x hx
        rw [hflat, List.mem_append] at hx
        rcases hx with hx | hx
        · exact hch x hx
        · simp only [List.mem_map] at hx
          obtain ⟨y, _, rfl⟩ := hx
          rfl
      have hl1 := Lumina.Proofs.Session.inv_length ht 64 r s hinv
      have hl2 := Lumina.Proofs.Session.inv_length ht 64 r _ i1
      rw [hflat] at hl2
      simp only [List.length_append, List.length_map, List.length_range'] at hl2
      obtain ⟨s', steps, h1, h2, h3, h4, h5, h6⟩ := ih (j + 1) _ i1 i2 hch' (by omega)
      exact ⟨s', steps, h1, h2, h3, h4, h5, by omega⟩

end Lumina.Proofs.HeaderRange

/-
  Refinement of the in-memory store model (`MemStore`) to the abstract store: evaluation lemmas
  for every step of `InMemoryStoreInner::insert`, the relation `Rm`, and the per-operation
  simulation (results equal, relation preserved, failed operations leave the state unchanged).
-/
import Lumina.Proofs.StoreAbs
import Lumina.Proofs.RangesConstraints

open Lumina.Model.Store Lumina.Spec.C19
open Lumina.Model
open Lumina.Proofs.Ranges

namespace Lumina.Proofs.Store

local notation "RInv" => Lumina.Model.Ranges.Inv

theorem verifyRangeGo_false (v : Hdr → Hdr → Bool) (t : Hdr) (us : List Hdr) :
    verifyRangeGo v t us false = chainOK v (t :: us) := by
  induction us generalizing t with
  | nil => simp [verifyRangeGo, chainOK]
  | cons u rest ih =>
    simp only [verifyRangeGo, chainOK, ih]
    by_cases h1 : t.height + 1 = u.height
    · by_cases h2 : v t u = true
      · simp [h1, h2]
      · simp [h1, h2]
    · simp [h1]

theorem tryIntoVerified_eq (v : Hdr → Hdr → Bool) (batch : List Hdr) :
    tryIntoVerified v batch = if chainOK v batch then .ok batch else .error .headersVerificationFailed := by
  cases batch with
  | nil => simp [tryIntoVerified, chainOK]
  | cons a rest =>
    cases rest with
    | nil => simp [tryIntoVerified, verifyAdjacentRange, chainOK]
    | cons b rest2 =>
      simp only [tryIntoVerified, verifyAdjacentRange, verifyRangeGo, verifyRangeGo_false]
      by_cases h1 : a.height + 1 = b.height
      · by_cases h2 : v a b = true
        · simp [h1, h2, chainOK]
        · simp [h1, h2, chainOK]
      · simp [h1, chainOK]

theorem contains_eq (m : AMap Nat ν) (k : Nat) : AMap.contains m k = (AMap.get m k).isSome := rfl

theorem checkHashes_eq (s : MemStore) (seen known : List Hash) (l : List Hdr)
    (hk : ∀ q, (AMap.contains s.headers q || seen.contains q) = known.contains q) :
    MemStore.checkHashes s seen l =
      match firstDupHash known l with
      | some q => .error (.hashExists q)
      | none => .ok () := by
  induction l generalizing seen known with
  | nil => simp [MemStore.checkHashes, firstDupHash]
  | cons a rest ih =>
    simp only [MemStore.checkHashes, firstDupHash, hk a.hash]
    by_cases h : known.contains a.hash = true
    · simp only [h, if_true]
    · have h' : known.contains a.hash = false := by simpa using h
      simp only [h', Bool.false_eq_true, if_false]
      apply ih
      intro q
      have := hk q
      simp only [List.contains_cons]
      rw [← this]
      cases AMap.contains s.headers q <;> cases (q == a.hash) <;> simp

/-- the mutation loop of `insert` succeeds on fresh heights and fresh, pairwise different hashes,
    and adds exactly the batch to both maps -/
theorem insertLoop_spec (s : MemStore) (l : List Hdr)
    (h1 : ∀ x ∈ l, AMap.get s.heightToHash x.height = none)
    (h2 : (l.map (·.height)).Nodup)
    (h3 : ∀ x ∈ l, AMap.get s.headers x.hash = none)
    (h4 : (l.map (·.hash)).Nodup) :
    ∃ s', MemStore.insertLoop s l = (s', .ok ()) ∧
      s'.headerRanges = s.headerRanges ∧ s'.sampledRanges = s.sampledRanges ∧
      s'.prunedRanges = s.prunedRanges ∧ s'.samplingData = s.samplingData ∧
      (∀ q x, AMap.get s'.headers q = some x ↔ ((x ∈ l ∧ x.hash = q) ∨ AMap.get s.headers q = some x)) ∧
      (∀ h q, AMap.get s'.heightToHash h = some q ↔
        ((∃ x ∈ l, x.height = h ∧ x.hash = q) ∨ AMap.get s.heightToHash h = some q)) := by
  induction l generalizing s with
  | nil => exact ⟨s, by simp [MemStore.insertLoop]⟩
  | cons a rest ih =>
    simp only [List.map_cons, List.nodup_cons] at h2 h4
    have ha1 := h1 a (by simp)
    have ha3 := h3 a (by simp)
    simp only [MemStore.insertLoop, contains_eq, ha1, ha3, Option.isSome_none, Bool.false_eq_true, if_false]
    have hne1 : ∀ x ∈ rest, x.height ≠ a.height := by
      intro x hx e; apply h2.1; rw [← e]; exact List.mem_map_of_mem hx
    have hne3 : ∀ x ∈ rest, x.hash ≠ a.hash := by
      intro x hx e; apply h4.1; rw [← e]; exact List.mem_map_of_mem hx
    obtain ⟨s', e, r1, r2, r3, r4, r5, r6⟩ := ih
      { s with headers := AMap.insert s.headers a.hash a,
               heightToHash := AMap.insert s.heightToHash a.height a.hash }
      (by intro x hx; simp only [get_insert, hne1 x hx, if_false]; exact h1 x (List.mem_cons_of_mem _ hx))
      h2.2
      (by intro x hx; simp only [get_insert, hne3 x hx, if_false]; exact h3 x (List.mem_cons_of_mem _ hx))
      h4.2
    refine ⟨s', e, r1, r2, r3, r4, ?_, ?_⟩
    · intro q x
      rw [r5 q x, get_insert]
      constructor
      · rintro (⟨hx, e⟩ | h)
        · exact Or.inl ⟨List.mem_cons_of_mem _ hx, e⟩
        · by_cases hq : q = a.hash
          · simp only [hq, if_true] at h
            left; exact ⟨by simp [← Option.some.inj h], by rw [hq, ← Option.some.inj h]⟩
          · simp only [hq, if_false] at h; exact Or.inr h
      · rintro (⟨hx, eq1⟩ | h)
        · rcases List.mem_cons.1 hx with e2 | e2
          · rw [e2] at eq1 ⊢; right; rw [if_pos eq1.symm]
          · exact Or.inl ⟨e2, eq1⟩
        · right
          by_cases hq : q = a.hash
          · subst hq; rw [ha3] at h; cases h
          · simp only [hq, if_false]; exact h
    · intro h q
      rw [r6 h q, get_insert]
      constructor
      · rintro (⟨x, hx, e1, e2⟩ | hh)
        · exact Or.inl ⟨x, List.mem_cons_of_mem _ hx, e1, e2⟩
        · by_cases hq : h = a.height
          · simp only [hq, if_true] at hh
            left; exact ⟨a, by simp, hq.symm, Option.some.inj hh⟩
          · simp only [hq, if_false] at hh; exact Or.inr hh
      · rintro (⟨x, hx, e1, e2⟩ | hh)
        · rcases List.mem_cons.1 hx with e3 | e3
          · rw [e3] at e1 e2; right; rw [if_pos e1.symm, e2]
          · exact Or.inl ⟨x, e3, e1, e2⟩
        · right
          by_cases hq : h = a.height
          · subst hq; rw [ha1] at hh; cases hh
          · simp only [hq, if_false]; exact hh
theorem all_iff_above (a : AbsStore) (rs : Ranges.Ranges) (hm : ∀ h, Ranges.mem rs h ↔ a.stored h = true)
    (lo hi : Nat) :
    (a.hdrs.all fun x => decide (x.height < lo)) = true ↔ AboveHead rs (lo, hi) := by
  simp only [List.all_eq_true, decide_eq_true_eq, AboveHead]
  constructor
  · intro h k hk
    obtain ⟨x, hx, e⟩ := (stored_iff a k).1 ((hm k).1 hk)
    rw [← e]; exact h x hx
  · intro h x hx
    exact h x.height ((hm _).2 ((stored_iff a _).2 ⟨x, hx, rfl⟩))

theorem any_iff_overlap (a : AbsStore) (rs : Ranges.Ranges) (hm : ∀ h, Ranges.mem rs h ↔ a.stored h = true)
    (lo hi : Nat) :
    (a.hdrs.any fun x => between lo hi x.height) = true ↔ Overlap rs (lo, hi) := by
  simp only [List.any_eq_true, between, Bool.and_eq_true, decide_eq_true_eq, Overlap]
  constructor
  · rintro ⟨x, hx, h1, h2⟩
    exact ⟨x.height, (hm _).2 ((stored_iff a _).2 ⟨x, hx, rfl⟩), h1, h2⟩
  · rintro ⟨k, hk, h1, h2⟩
    obtain ⟨x, hx, e⟩ := (stored_iff a k).1 ((hm k).1 hk)
    exact ⟨x, hx, by omega, by omega⟩

theorem memB_eq_stored (a : AbsStore) (rs : Ranges.Ranges) (hm : ∀ h, Ranges.mem rs h ↔ a.stored h = true)
    (k : Nat) : Ranges.memB rs k = a.stored k := by
  rw [Bool.eq_iff_iff, memB_iff_mem, hm]

/-- E2: `check_insertion_constraints` on the stored ranges is the abstract `placement` -/
theorem constraints_eq (a : AbsStore) (rs : Ranges.Ranges) (hinv : RInv rs)
    (hm : ∀ h, Ranges.mem rs h ↔ a.stored h = true) (lo hi : Nat) (hhi : hi ≤ U64_MAX) :
    constraints (Ranges.checkInsertionConstraints rs (lo, hi)) =
      match AbsStore.placement a lo hi with
      | .error e => .error e
      | .ok () => .ok (a.stored (lo - 1), a.stored (hi + 1)) := by
  by_cases hval : 1 ≤ lo ∧ lo ≤ hi
  · have hv : ValidR (lo, hi) := ⟨hval.1, hval.2, hhi⟩
    have hc2 : (lo == 0 || decide (lo > hi)) = false := by
      simp; omega
    unfold AbsStore.placement
    rw [hc2]
    simp only [Bool.false_eq_true, if_false]
    have hall := all_iff_above a rs hm lo hi
    have hany := any_iff_overlap a rs hm lo hi
    rcases checkInsertionConstraints_cases hinv hv with ⟨e, h1, h2⟩ | ⟨⟨o, e⟩, h1⟩ | ⟨e, h1, h2, h3, h4⟩
    · rw [e]
      have c1 : (a.hdrs.any fun x => between lo hi x.height) = false := by
        rw [← Bool.not_eq_true, hany]; exact h1
      have c2 : (!(a.hdrs.all fun x => decide (x.height < lo)) && !a.stored (lo - 1) && !a.stored (hi + 1)) = false := by
        rcases h2 with h2 | h2 | h2
        · rw [hall.2 h2]; simp
        · rw [(hm _).1 h2]; simp
        · rw [(hm _).1 h2]; simp
      simp only [c1, c2, Bool.and_false, Bool.false_eq_true, if_false, constraints]
      rw [memB_eq_stored a rs hm, memB_eq_stored a rs hm]
    · rw [e]
      have c1 : (a.hdrs.any fun x => between lo hi x.height) = true := hany.2 h1
      have c0 : (a.hdrs.all fun x => decide (x.height < lo)) = false := by
        rw [← Bool.not_eq_true, hall]
        intro hab
        obtain ⟨k, hk, k1, k2⟩ := h1
        have := hab k hk
        simp at k1 this; omega
      simp [c1, c0, constraints, rerrKind]
    · rw [e]
      have c1 : (a.hdrs.any fun x => between lo hi x.height) = false := by
        rw [← Bool.not_eq_true, hany]; exact h1
      have c0 : (a.hdrs.all fun x => decide (x.height < lo)) = false := by
        rw [← Bool.not_eq_true, hall]; exact h2
      have c3 : a.stored (lo - 1) = false := by
        rw [← Bool.not_eq_true, ← hm]; exact h3
      have c4 : a.stored (hi + 1) = false := by
        rw [← Bool.not_eq_true, ← hm]; exact h4
      simp [c1, c0, c3, c4, constraints, rerrKind]
  · have hinvalid : Ranges.Range.valid (lo, hi) = false := by
      rw [← Bool.not_eq_true, valid_iff]; exact hval
    rw [checkInsertionConstraints_invalid hinvalid]
    have hc2 : (lo == 0 || decide (lo > hi)) = true := by
      simp; omega
    simp [AbsStore.placement, hc2, constraints, rerrKind]
/-- refinement relation between the in-memory store model and the abstract store -/
structure Rm (m : MemStore) (a : AbsStore) : Prop where
  invH : RInv m.headerRanges
  invS : RInv m.sampledRanges
  invP : RInv m.prunedRanges
  memH : ∀ h, Ranges.mem m.headerRanges h ↔ a.stored h = true
  memS : ∀ h, Ranges.mem m.sampledRanges h ↔ h ∈ a.sampled
  memP : ∀ h, Ranges.mem m.prunedRanges h ↔ h ∈ a.pruned
  hth : ∀ h, AMap.get m.heightToHash h = (a.atHeight h).map (·.hash)
  hdr : ∀ q, AMap.get m.headers q = a.byHash q
  md : ∀ h, AMap.get m.samplingData h = a.metaOf h

theorem u64max_eq : Lumina.Model.Store.U64_MAX = Ranges.U64_MAX := rfl

theorem mem_getByHeight {m : MemStore} {a : AbsStore} (r : Rm m a) (hi : AbsInv a) (h : Nat) :
    m.getByHeight h = match a.atHeight h with
      | some x => .ok x
      | none => .error .notFound := by
  unfold MemStore.getByHeight
  rw [r.hth h]
  cases hx : a.atHeight h with
  | none => simp
  | some x =>
    simp only [Option.map_some]
    rw [r.hdr x.hash]
    have : a.byHash x.hash = some x := (byHash_some hi x.hash x).2 ⟨((atHeight_some hi h x).1 hx).1, rfl⟩
    rw [this]

theorem stored_eq_atHeight (a : AbsStore) (h : Nat) : a.stored h = (a.atHeight h).isSome := rfl

/-- E3: the neighbour verification of the in-memory store is the abstract `prevOK`/`nextOK` -/
theorem mem_verifyNeighbours {m : MemStore} {a : AbsStore} (r : Rm m a) (hi : AbsInv a)
    (v : Hdr → Hdr → Bool) (first last : Hdr) (hlo : 1 ≤ first.height) :
    m.verifyAgainstNeighbours v (if a.stored (first.height - 1) then some first else none)
        (if a.stored (last.height + 1) then some last else none) =
      if !AbsStore.prevOK v a first || !AbsStore.nextOK v a last then .error .neighborsVerificationFailed
      else .ok () := by
  unfold MemStore.verifyAgainstNeighbours AbsStore.prevOK AbsStore.nextOK
  rw [stored_eq_atHeight, stored_eq_atHeight]
  cases hp : a.atHeight (first.height - 1) with
  | none =>
    cases hn : a.atHeight (last.height + 1) with
    | none => simp [Bind.bind, Except.bind, pure, Except.pure]
    | some n =>
      have hb := hi.bounds n ((atHeight_some hi _ n).1 hn).1
      have hh := ((atHeight_some hi _ n).1 hn).2
      have hs : succ64 last.height = .ok (last.height + 1) := by
        unfold succ64; rw [if_pos (by omega)]
      simp only [Option.isSome_none, Bool.false_eq_true, if_false, Option.isSome_some, if_true]
      simp only [Bind.bind, Except.bind, pure, Except.pure, hs, MemStore.neighbour, mem_getByHeight r hi, hn]
      by_cases hv : v last n = true
      · simp [hv]
      · have hv' : v last n = false := by simpa using hv
        simp [hv', throw, throwThe, MonadExceptOf.throw]
  | some p =>
    have hpred : pred64 first.height = .ok (first.height - 1) := by
      unfold pred64; rw [if_pos hlo]
    cases hn : a.atHeight (last.height + 1) with
    | none =>
      simp only [Option.isSome_none, Bool.false_eq_true, if_false, Option.isSome_some, if_true]
      simp only [Bind.bind, Except.bind, pure, Except.pure, hpred, MemStore.neighbour, mem_getByHeight r hi, hp]
      by_cases hv : v p first = true
      · simp [hv]
      · have hv' : v p first = false := by simpa using hv
        simp [hv', throw, throwThe, MonadExceptOf.throw]
    | some n =>
      have hb := hi.bounds n ((atHeight_some hi _ n).1 hn).1
      have hh := ((atHeight_some hi _ n).1 hn).2
      have hs : succ64 last.height = .ok (last.height + 1) := by
        unfold succ64; rw [if_pos (by omega)]
      simp only [Option.isSome_none, Bool.false_eq_true, if_false, Option.isSome_some, if_true]
      simp only [Bind.bind, Except.bind, pure, Except.pure, hpred, hs, MemStore.neighbour, mem_getByHeight r hi, hp, hn]
      by_cases hv1 : v p first = true
      · by_cases hv2 : v last n = true
        · simp [hv1, hv2]
        · have hv' : v last n = false := by simpa using hv2
          simp [hv1, hv', throw, throwThe, MonadExceptOf.throw]
      · have hv' : v p first = false := by simpa using hv1
        simp [hv', throw, throwThe, MonadExceptOf.throw]
theorem byHash_isSome (a : AbsStore) (q : Hash) :
    (a.byHash q).isSome = (a.hdrs.map (·.hash)).contains q := by
  rw [Bool.eq_iff_iff]
  unfold AbsStore.byHash
  rw [List.find?_isSome, List.contains_eq_mem, decide_eq_true_eq, List.mem_map]
  constructor
  · rintro ⟨x, hx, e⟩; exact ⟨x, hx, by simpa using e⟩
  · rintro ⟨x, hx, e⟩; exact ⟨x, hx, by simpa using e⟩

theorem added_stored (v : Hdr → Hdr → Bool) (a : AbsStore) (batch : List Hdr) (first last : Hdr)
    (ok : InsertOK v a batch first last) (h : Nat) :
    (added a batch first.height last.height).stored h = true ↔
      (a.stored h = true ∨ (first.height ≤ h ∧ h ≤ last.height)) := by
  obtain ⟨b1, b2, b3⟩ := batch_heights v batch first last ok.chain ok.hd ok.lst
  rw [stored_iff, stored_iff]
  simp only [added, List.mem_append]
  constructor
  · rintro ⟨x, hx | hx, e⟩
    · exact Or.inl ⟨x, hx, e⟩
    · have := b2 x hx; right; omega
  · rintro (⟨x, hx, e⟩ | ⟨h1, h2⟩)
    · exact ⟨x, Or.inl hx, e⟩
    · obtain ⟨x, hx, e⟩ := b3 h h1 h2
      exact ⟨x, Or.inr hx, e⟩

theorem map_hash_some (o : Option Hdr) (q : Hash) :
    o.map (·.hash) = some q ↔ ∃ x, o = some x ∧ x.hash = q := by
  cases o <;> simp

/-- the commit part of `insert` on an accepted batch -/
theorem mem_insertCommit {m : MemStore} {a : AbsStore} (r : Rm m a) (hi : AbsInv a)
    (v : Hdr → Hdr → Bool) (batch : List Hdr) (first last : Hdr)
    (ok : InsertOK v a batch first last) (hwf : ∀ x ∈ batch, x.height ≤ U64_MAX) :
    ∃ m', MemStore.insertCommit m batch (first.height, last.height) = (m', .ok ()) ∧
      Rm m' (added a batch first.height last.height) := by
  obtain ⟨b1, b2, b3⟩ := batch_heights v batch first last ok.chain ok.hd ok.lst
  have nd := (firstDup_none _ _).1 ok.nodup
  have hi' : AbsInv (added a batch first.height last.height) := added_inv v a batch first last ok hi hwf
  have hfreshH : ∀ x ∈ batch, AMap.get m.heightToHash x.height = none := by
    intro x hx
    rw [r.hth]
    have : a.atHeight x.height = none := by
      unfold AbsStore.atHeight
      rw [List.find?_eq_none]
      intro y hy
      have := ok.disjoint y hy
      have := b2 x hx
      simp; omega
    rw [this]; rfl
  have hfreshQ : ∀ x ∈ batch, AMap.get m.headers x.hash = none := by
    intro x hx
    rw [r.hdr]
    have h1 := nd.1 x hx
    cases hb : a.byHash x.hash with
    | none => rfl
    | some y =>
      exfalso; apply h1
      have := (byHash_some hi x.hash y).1 hb
      rw [← this.2]; exact List.mem_map_of_mem this.1
  obtain ⟨s1, e1, r1, r2, r3, r4, r5, r6⟩ := insertLoop_spec m batch hfreshH b1 hfreshQ nd.2
  have hlast : last.height ≤ U64_MAX := hwf last (last_of_mem ok.lst)
  have hv : ValidR (first.height, last.height) := ⟨ok.lo_pos, ok.lo_le, hlast⟩
  obtain ⟨hr, eh, ihr, mhr⟩ := insertRelaxed_spec (rs := s1.headerRanges) (r := (first.height, last.height))
    (by rw [r1]; exact r.invH) hv
  obtain ⟨sr, es, isr, msr⟩ := removeRelaxed_spec (rs := s1.sampledRanges) (r := (first.height, last.height))
    (by rw [r2]; exact r.invS) hv
  obtain ⟨pr, ep, ipr, mpr⟩ := removeRelaxed_spec (rs := s1.prunedRanges) (r := (first.height, last.height))
    (by rw [r3]; exact r.invP) hv
  refine ⟨{ s1 with headerRanges := hr, sampledRanges := sr, prunedRanges := pr }, ?_, ?_⟩
  · simp only [MemStore.insertCommit, e1, eh, es, ep, expectR]
  · constructor
    · exact ihr
    · exact isr
    · exact ipr
    · intro h
      rw [mhr h, r1, r.memH h, added_stored v a batch first last ok h]
    · intro h
      rw [msr h, r2, r.memS h]
      simp only [added, List.mem_filter, between, Bool.not_eq_true', Bool.and_eq_false_iff,
        decide_eq_false_iff_not]
      constructor
      · rintro ⟨h1, h2⟩; refine ⟨h1, ?_⟩; simp at h2 ⊢; omega
      · rintro ⟨h1, h2⟩; refine ⟨h1, ?_⟩; simp at h2 ⊢; omega
    · intro h
      rw [mpr h, r3, r.memP h]
      simp only [added, List.mem_filter, between, Bool.not_eq_true', Bool.and_eq_false_iff,
        decide_eq_false_iff_not]
      constructor
      · rintro ⟨h1, h2⟩; refine ⟨h1, ?_⟩; simp at h2 ⊢; omega
      · rintro ⟨h1, h2⟩; refine ⟨h1, ?_⟩; simp at h2 ⊢; omega
    · intro h
      apply Option.ext
      intro q
      show AMap.get s1.heightToHash h = some q ↔ _
      rw [r6 h q, r.hth h, map_hash_some, map_hash_some]
      constructor
      · rintro (⟨x, hx, e1, e2⟩ | ⟨x, hx, e⟩)
        · exact ⟨x, (atHeight_some hi' h x).2 ⟨by simp [added, hx], e1⟩, e2⟩
        · have := (atHeight_some hi h x).1 hx
          exact ⟨x, (atHeight_some hi' h x).2 ⟨by simp [added, this.1], this.2⟩, e⟩
      · rintro ⟨x, hx, e⟩
        have := (atHeight_some hi' h x).1 hx
        simp only [added, List.mem_append] at this
        rcases this.1 with hm | hm
        · exact Or.inr ⟨x, (atHeight_some hi h x).2 ⟨hm, this.2⟩, e⟩
        · exact Or.inl ⟨x, hm, this.2, e⟩
    · intro q
      apply Option.ext
      intro x
      show AMap.get s1.headers q = some x ↔ _
      rw [r5 q x, r.hdr q, byHash_some hi, byHash_some hi']
      simp only [added, List.mem_append]
      constructor
      · rintro (⟨h1, h2⟩ | ⟨h1, h2⟩)
        · exact ⟨Or.inr h1, h2⟩
        · exact ⟨Or.inl h1, h2⟩
      · rintro ⟨h1 | h1, h2⟩
        · exact Or.inr ⟨h1, h2⟩
        · exact Or.inl ⟨h1, h2⟩
    · intro h
      show AMap.get s1.samplingData h = _
      rw [r4, r.md h]; rfl
/-- `InMemoryStore::insert` against the abstract checks: same error with the state untouched,
    or the batch is committed and the relation holds for the abstract post-state -/
theorem mem_insert_sim {m : MemStore} {a : AbsStore} (r : Rm m a) (hi : AbsInv a)
    (v : Hdr → Hdr → Bool) (batch : List Hdr) (hwf : ∀ x ∈ batch, x.height ≤ U64_MAX) :
    match AbsStore.insertCheck v a batch with
    | .error e => MemStore.insert v m batch = (m, .error e)
    | .ok none => MemStore.insert v m batch = (m, .ok ())
    | .ok (some (lo, hi')) => ∃ m', MemStore.insert v m batch = (m', .ok ()) ∧ Rm m' (added a batch lo hi') := by
  cases batch with
  | nil => simp [AbsStore.insertCheck, MemStore.insert, MemStore.insertWith, tryIntoVerified, MemStore.insertVerifiedWith]
  | cons b rest =>
    have hlast : ((b :: rest).getLast?).isSome := by simp
    obtain ⟨last, hl⟩ := Option.isSome_iff_exists.1 hlast
    have hf : (b :: rest).head? = some b := rfl
    unfold MemStore.insert MemStore.insertWith
    rw [tryIntoVerified_eq]
    unfold AbsStore.insertCheck
    simp only [hf, hl]
    by_cases hc : chainOK v (b :: rest) = true
    · simp only [hc, Bool.not_true, Bool.false_eq_true, if_false, if_true]
      unfold MemStore.insertVerifiedWith
      simp only [hf, hl]
      have hlw : last.height ≤ U64_MAX := hwf last (last_of_mem hl)
      rw [constraints_eq a m.headerRanges r.invH r.memH b.height last.height hlw]
      cases hp : AbsStore.placement a b.height last.height with
      | error e => simp
      | ok u =>
        simp only
        obtain ⟨p1, p2, p3⟩ := placement_ok a _ _ hp
        rw [mem_verifyNeighbours r hi v b last p1]
        by_cases hn : (!AbsStore.prevOK v a b || !AbsStore.nextOK v a last) = true
        · simp only [hn, if_true]
        · simp only [hn, if_false]
          rw [checkHashes_eq m [] (a.hdrs.map (·.hash)) (b :: rest)
            (by intro q; simp only [List.contains_nil, Bool.or_false]
                rw [contains_eq, r.hdr q, byHash_isSome])]
          cases hd : firstDupHash (a.hdrs.map (·.hash)) (b :: rest) with
          | some q => simp
          | none =>
            simp only
            have ok : InsertOK v a (b :: rest) b last := by
              refine ⟨hf, hl, hc, p1, p2, p3, ?_, ?_, hd⟩
              · intro p hp'
                simp only [AbsStore.prevOK, AbsStore.nextOK, hp'] at hn
                simp at hn; exact hn.1
              · intro n hn'
                simp only [AbsStore.prevOK, AbsStore.nextOK, hn'] at hn
                simp at hn; exact hn.2
            exact mem_insertCommit r hi v (b :: rest) b last ok hwf
    · simp [hc]
theorem contains_eq_stored {m : MemStore} {a : AbsStore} (r : Rm m a) (h : Nat) :
    Ranges.contains m.headerRanges h = a.stored h := by
  rw [Bool.eq_iff_iff, contains_iff_mem, r.memH]

theorem find?_filter_key {α : Type} (f : α → Nat) (l : List α) (h k : Nat) :
    (l.filter (fun x => f x != h)).find? (fun x => f x == k) =
      if k = h then none else l.find? (fun x => f x == k) := by
  rw [List.find?_filter]
  by_cases e : k = h
  · subst e
    simp only [if_true, List.find?_eq_none]
    intro x _; simp
  · simp only [e, if_false]
    congr 1
    funext x
    by_cases e2 : f x = k
    · simp [e2, e]
    · simp [e2]

theorem removed_atHeight (a : AbsStore) (h k : Nat) :
    (removed a h).atHeight k = if k = h then none else a.atHeight k := by
  unfold AbsStore.atHeight removed
  exact find?_filter_key (fun x : Hdr => x.height) a.hdrs h k

theorem removed_metaOf (a : AbsStore) (h k : Nat) :
    (removed a h).metaOf k = if k = h then none else a.metaOf k := by
  unfold AbsStore.metaOf removed
  simp only
  rw [find?_filter_key (fun p : Nat × List Cid => p.1) a.metas h k]
  by_cases e : k = h <;> simp [e]

theorem mem_remove_sim {m : MemStore} {a : AbsStore} (r : Rm m a) (hi : AbsInv a) (h : Nat) :
    (a.stored h = false ∧ m.removeHeight h = (m, .error .notFound)) ∨
    (a.stored h = true ∧ ∃ m', m.removeHeight h = (m', .ok ()) ∧ Rm m' (removed a h)) := by
  cases hs : a.stored h with
  | false =>
    left; refine ⟨rfl, ?_⟩
    unfold MemStore.removeHeight
    rw [contains_eq_stored r, hs]; rfl
  | true =>
    right; refine ⟨rfl, ?_⟩
    obtain ⟨x, hx, ex⟩ := (stored_iff a h).1 hs
    have hat : a.atHeight h = some x := (atHeight_some hi h x).2 ⟨hx, ex⟩
    have hbh : a.byHash x.hash = some x := (byHash_some hi x.hash x).2 ⟨hx, rfl⟩
    have hb := hi.bounds x hx
    have hv : ValidR (h, h) := ⟨by omega, Nat.le_refl _, by rw [← ex]; exact hb.2⟩
    obtain ⟨hr, eh, ihr, mhr⟩ := removeRelaxed_spec (rs := m.headerRanges) (r := (h, h)) r.invH hv
    obtain ⟨sr, es, isr, msr⟩ := removeRelaxed_spec (rs := m.sampledRanges) (r := (h, h)) r.invS hv
    obtain ⟨pr, ep, ipr, mpr⟩ := insertRelaxed_spec (rs := m.prunedRanges) (r := (h, h)) r.invP hv
    have hi' : AbsInv (removed a h) := by
      have := remove_inv a h hi; rw [remove_ok a h hs] at this; exact this
    refine ⟨{ m with samplingData := AMap.erase m.samplingData h,
                     heightToHash := AMap.erase m.heightToHash h,
                     headers := AMap.erase m.headers x.hash,
                     headerRanges := hr, sampledRanges := sr, prunedRanges := pr }, ?_, ?_⟩
    · unfold MemStore.removeHeight
      rw [contains_eq_stored r, hs]
      simp only [Bool.not_true, Bool.false_eq_true, if_false, r.hth h, hat, Option.map_some,
        contains_eq, r.hdr, hbh, Option.isSome_some, eh, es, ep, expectR]
    · constructor
      · exact ihr
      · exact isr
      · exact ipr
      · intro k
        rw [mhr k, r.memH k, removed_stored]
        simp only; constructor
        · rintro ⟨h1, h2⟩; exact ⟨h1, by omega⟩
        · rintro ⟨h1, h2⟩; exact ⟨h1, by omega⟩
      · intro k
        rw [msr k, r.memS k]
        simp only [removed, List.mem_filter, bne_iff_ne, ne_eq]
        constructor
        · rintro ⟨h1, h2⟩; exact ⟨h1, by omega⟩
        · rintro ⟨h1, h2⟩; exact ⟨h1, by omega⟩
      · intro k
        rw [mpr k, r.memP k]
        simp only [removed, List.mem_cons]
        constructor
        · rintro (h1 | h1); exact Or.inr h1; exact Or.inl (by omega)
        · rintro (h1 | h1); exact Or.inr (by omega); exact Or.inl h1
      · intro k
        show AMap.get (AMap.erase m.heightToHash h) k = _
        rw [get_erase, removed_atHeight, r.hth k]
        by_cases e : k = h <;> simp [e]
      · intro q
        show AMap.get (AMap.erase m.headers x.hash) q = _
        rw [get_erase, r.hdr q]
        apply Option.ext
        intro y
        rw [byHash_some hi']
        simp only [removed, List.mem_filter, bne_iff_ne, ne_eq]
        by_cases e : q = x.hash
        · simp only [e, if_true]
          constructor
          · intro hn; cases hn
          · rintro ⟨⟨hy, hne⟩, e2⟩
            exfalso; apply hne
            have : y = x := nodup_map_inj (fun z : Hdr => z.hash) a.hdrs hi.nodupQ y hy x hx e2
            rw [this, ex]
        · simp only [e, if_false]
          rw [byHash_some hi]
          constructor
          · rintro ⟨hy, e2⟩
            refine ⟨⟨hy, ?_⟩, e2⟩
            intro e3
            have : y = x := nodup_map_inj (fun z : Hdr => z.height) a.hdrs hi.nodupH y hy x hx (by rw [e3, ex])
            apply e; rw [← e2, this]
          · rintro ⟨⟨hy, _⟩, e2⟩; exact ⟨hy, e2⟩
      · intro k
        show AMap.get (AMap.erase m.samplingData h) k = _
        rw [get_erase, removed_metaOf, r.md k]

theorem mem_mark_sim {m : MemStore} {a : AbsStore} (r : Rm m a) (hi : AbsInv a) (h : Nat) :
    (a.stored h = false ∧ m.markAsSampled h = (m, .error .notFound)) ∨
    (a.stored h = true ∧ ∃ m', m.markAsSampled h = (m', .ok ()) ∧ Rm m' { a with sampled := h :: a.sampled }) := by
  cases hs : a.stored h with
  | false =>
    left; refine ⟨rfl, ?_⟩
    unfold MemStore.markAsSampled MemStore.containsHeight
    rw [contains_eq_stored r, hs]; rfl
  | true =>
    right; refine ⟨rfl, ?_⟩
    obtain ⟨x, hx, ex⟩ := (stored_iff a h).1 hs
    have hb := hi.bounds x hx
    have hv : ValidR (h, h) := ⟨by omega, Nat.le_refl _, by rw [← ex]; exact hb.2⟩
    obtain ⟨sr, es, isr, msr⟩ := insertRelaxed_spec (rs := m.sampledRanges) (r := (h, h)) r.invS hv
    refine ⟨{ m with sampledRanges := sr }, ?_, ?_⟩
    · unfold MemStore.markAsSampled MemStore.containsHeight
      rw [contains_eq_stored r, hs]
      simp only [Bool.not_true, Bool.false_eq_true, if_false, es, expectR]
    · refine ⟨r.invH, isr, r.invP, r.memH, ?_, r.memP, r.hth, r.hdr, r.md⟩
      intro k
      rw [msr k, r.memS k]
      simp only [List.mem_cons]
      constructor
      · rintro (h1 | h1); exact Or.inr h1; exact Or.inl (by omega)
      · rintro (h1 | h1); exact Or.inr (by omega); exact Or.inl h1

theorem updated_metaOf (a : AbsStore) (h k : Nat) (entry : List Cid) :
    AbsStore.metaOf { a with metas := (h, entry) :: a.metas.filter (fun p => p.1 != h) } k =
      if k = h then some entry else a.metaOf k := by
  unfold AbsStore.metaOf
  simp only [List.find?_cons]
  by_cases e : k = h
  · subst e; simp
  · have : (h == k) = false := by simp; omega
    simp only [this, e, if_false]
    rw [find?_filter_key (fun p : Nat × List Cid => p.1) a.metas h k]
    simp [e]

theorem mem_updMeta_sim {m : MemStore} {a : AbsStore} (r : Rm m a) (h : Nat) (cids : List Cid) :
    (a.stored h = false ∧ m.updateSamplingMetadata h cids = (m, .error .notFound) ∧
        a.updateMeta h cids = (a, .err .notFound)) ∨
    (a.stored h = true ∧ ∃ m' a', m.updateSamplingMetadata h cids = (m', .ok ()) ∧
        a.updateMeta h cids = (a', .ok .unit) ∧ Rm m' a' ∧ a'.hdrs = a.hdrs) := by
  cases hs : a.stored h with
  | false =>
    left; refine ⟨rfl, ?_, ?_⟩
    · unfold MemStore.updateSamplingMetadata MemStore.containsHeight
      rw [contains_eq_stored r, hs]; rfl
    · simp [AbsStore.updateMeta, hs]
  | true =>
    right; refine ⟨rfl, ?_⟩
    have key : ∀ entry : List Cid,
        (m.updateSamplingMetadata h cids = ({ m with samplingData := AMap.insert m.samplingData h entry }, .ok ())) →
        (a.updateMeta h cids = ({ a with metas := (h, entry) :: a.metas.filter (fun p => p.1 != h) }, .ok .unit)) →
        ∃ m' a', m.updateSamplingMetadata h cids = (m', .ok ()) ∧
          a.updateMeta h cids = (a', .ok .unit) ∧ Rm m' a' ∧ a'.hdrs = a.hdrs := by
      intro entry e1 e2
      refine ⟨_, _, e1, e2, ?_, rfl⟩
      refine ⟨r.invH, r.invS, r.invP, r.memH, r.memS, r.memP, r.hth, r.hdr, ?_⟩
      intro k
      show AMap.get (AMap.insert m.samplingData h entry) k = _
      rw [get_insert, updated_metaOf, r.md k]
    cases hm : a.metaOf h with
    | none =>
      apply key cids
      · unfold MemStore.updateSamplingMetadata MemStore.containsHeight
        rw [contains_eq_stored r, hs, r.md h, hm]
        simp
      · simp [AbsStore.updateMeta, hs, hm]
    | some prev =>
      apply key (appendDedup prev cids)
      · unfold MemStore.updateSamplingMetadata MemStore.containsHeight
        rw [contains_eq_stored r, hs, r.md h, hm]
        simp
      · simp [AbsStore.updateMeta, hs, hm]
/-- a range list with the invariant whose members are exactly a finite set with bounds is the
    canonical representation `rangesOf` of that set -/
theorem ranges_eq_rangesOf (rs : Ranges.Ranges) (hinv : RInv rs) (p : Nat → Bool) (l : List Nat)
    (hm : ∀ h, Ranges.mem rs h ↔ p h = true) (hl : ∀ h, p h = true → h ∈ l)
    (hb : ∀ h ∈ l, h ≤ U64_MAX) : rs = rangesOf p (sup l) := by
  have h0 : p 0 = false := by
    rw [← Bool.not_eq_true, ← hm]
    intro hmem; have := mem_bounds hinv hmem; omega
  have hsup : sup l ≤ Ranges.U64_MAX := by
    by_cases e : l = []
    · subst e; simp [sup, Ranges.U64_MAX]
    · exact hb _ (sup_mem l e)
  obtain ⟨i2, m2⟩ := rangesOf_inv p (sup l) h0 hsup
  apply canonical hinv i2
  intro h
  rw [hm h, m2 h]
  constructor
  · intro hp; exact ⟨mem_sup l h (hl h hp), hp⟩
  · intro hp; exact hp.2

theorem mem_storedRanges {m : MemStore} {a : AbsStore} (r : Rm m a) (hi : AbsInv a) :
    m.headerRanges = a.storedRanges := by
  unfold AbsStore.storedRanges
  apply ranges_eq_rangesOf m.headerRanges r.invH a.stored _ r.memH
  · intro h hs
    obtain ⟨x, hx, e⟩ := (stored_iff a h).1 hs
    rw [← e]; exact List.mem_map_of_mem hx
  · intro h hh
    obtain ⟨x, hx, e⟩ := List.mem_map.1 hh
    rw [← e]; exact (hi.bounds x hx).2

theorem mem_sampledRanges {m : MemStore} {a : AbsStore} (r : Rm m a) (hi : AbsInv a) :
    m.sampledRanges = a.sampledRanges := by
  unfold AbsStore.sampledRanges
  apply ranges_eq_rangesOf m.sampledRanges r.invS a.isSampled a.sampled
  · intro h; rw [r.memS]; simp [AbsStore.isSampled]
  · intro h hs; simpa [AbsStore.isSampled] using hs
  · intro h hh
    obtain ⟨x, hx, e⟩ := (stored_iff a h).1 (hi.sampled h hh)
    rw [← e]; exact (hi.bounds x hx).2

theorem mem_prunedRanges {m : MemStore} {a : AbsStore} (r : Rm m a) (hi : AbsInv a) :
    m.prunedRanges = a.prunedRanges := by
  unfold AbsStore.prunedRanges
  apply ranges_eq_rangesOf m.prunedRanges r.invP a.isPruned a.pruned
  · intro h; rw [r.memP]; simp [AbsStore.isPruned]
  · intro h hs; simpa [AbsStore.isPruned] using hs
  · intro h hh; exact (hi.prunedB h hh).2

/-- the head of ranges that denote the stored set is the abstract head height -/
theorem head_eq_headHeight (rs : Ranges.Ranges) (hinv : RInv rs) (a : AbsStore)
    (hm : ∀ h, Ranges.mem rs h ↔ a.stored h = true) : Ranges.head rs = a.headHeight := by
  unfold AbsStore.headHeight
  by_cases he : a.hdrs = []
  · simp only [he, List.isEmpty_nil, if_true]
    rw [head_eq_none_iff]
    cases hrs : Ranges.head rs with
    | none => exact head_eq_none_iff.1 hrs
    | some x =>
      exfalso
      have := (head_spec hinv hrs).1
      rw [hm] at this
      obtain ⟨y, hy, _⟩ := (stored_iff a x).1 this
      rw [he] at hy; cases hy
  · have hne : a.hdrs.isEmpty = false := by
      cases hh : a.hdrs with
      | nil => exact absurd hh he
      | cons _ _ => rfl
    simp only [hne, Bool.false_eq_true, if_false]
    have hl : a.hdrs.map (·.height) ≠ [] := by simpa using he
    have hsm := sup_mem _ hl
    obtain ⟨y, hy, ey⟩ := List.mem_map.1 hsm
    have hmem : Ranges.mem rs (sup (a.hdrs.map (·.height))) := by
      rw [hm, stored_iff]; exact ⟨y, hy, ey⟩
    cases hrs : Ranges.head rs with
    | none =>
      exfalso
      rw [head_eq_none_iff] at hrs
      subst hrs; exact mem_nil _ hmem
    | some x =>
      obtain ⟨h1, h2⟩ := head_spec hinv hrs
      have le1 := h2 _ hmem
      rw [hm, stored_iff] at h1
      obtain ⟨z, hz, ez⟩ := h1
      have le2 := mem_sup (a.hdrs.map (·.height)) x (by rw [← ez]; exact List.mem_map_of_mem hz)
      congr 1; omega

theorem toHeadersRange_eq (lo hi : Bound) (head : Nat) :
    toHeadersRange lo hi head = match AbsStore.resolve lo hi head with
      | some p => .ok p
      | none => .error .notFound := by
  unfold toHeadersRange AbsStore.resolve
  cases lo with
  | unbounded =>
    cases hi with
    | unbounded => simp [Bind.bind, Except.bind, pure, Except.pure]
    | included y =>
      by_cases c : y ≤ head
      · have : ¬ y > head := by omega
        simp [Bind.bind, Except.bind, pure, Except.pure, c, this]
      · have : y > head := by omega
        simp [Bind.bind, Except.bind, pure, Except.pure, c, this, throw, throwThe, MonadExceptOf.throw]
    | excluded y =>
      by_cases c : y ≤ head + 1
      · have : ¬ y > head + 1 := by omega
        by_cases c0 : y = 0
        · subst c0; simp [Bind.bind, Except.bind, pure, Except.pure]
        · simp [Bind.bind, Except.bind, pure, Except.pure, c, this, c0]
      · have : y > head + 1 := by omega
        simp [Bind.bind, Except.bind, pure, Except.pure, c, this, throw, throwThe, MonadExceptOf.throw]
  | included x =>
    by_cases cx : 1 ≤ x ∧ x ≤ head
    · have cx' : (decide (x > head) || x == 0) = false := by simp; omega
      cases hi with
      | unbounded => simp [Bind.bind, Except.bind, pure, Except.pure, cx, cx']
      | included y =>
        by_cases c : y ≤ head
        · have : ¬ y > head := by omega
          simp [Bind.bind, Except.bind, pure, Except.pure, c, this, cx, cx']
        · have : y > head := by omega
          simp [Bind.bind, Except.bind, pure, Except.pure, c, this, cx, cx', throw, throwThe, MonadExceptOf.throw]
      | excluded y =>
        by_cases c : y ≤ head + 1
        · have : ¬ y > head + 1 := by omega
          by_cases c0 : y = 0
          · subst c0; simp [Bind.bind, Except.bind, pure, Except.pure, cx, cx']
          · simp [Bind.bind, Except.bind, pure, Except.pure, c, this, c0, cx, cx']
        · have : y > head + 1 := by omega
          simp [Bind.bind, Except.bind, pure, Except.pure, c, this, cx, cx', throw, throwThe, MonadExceptOf.throw]
    · have cx' : (decide (x > head) || x == 0) = true := by simp; omega
      cases hi <;> simp [Bind.bind, Except.bind, cx, cx', throw, throwThe, MonadExceptOf.throw]
  | excluded x =>
    by_cases cx : x < head
    · have cx' : ¬ x ≥ head := by omega
      cases hi with
      | unbounded => simp [Bind.bind, Except.bind, pure, Except.pure, cx, cx']
      | included y =>
        by_cases c : y ≤ head
        · have : ¬ y > head := by omega
          simp [Bind.bind, Except.bind, pure, Except.pure, c, this, cx, cx']
        · have : y > head := by omega
          simp [Bind.bind, Except.bind, pure, Except.pure, c, this, cx, cx', throw, throwThe, MonadExceptOf.throw]
      | excluded y =>
        by_cases c : y ≤ head + 1
        · have : ¬ y > head + 1 := by omega
          by_cases c0 : y = 0
          · subst c0; simp [Bind.bind, Except.bind, pure, Except.pure, cx, cx']
          · simp [Bind.bind, Except.bind, pure, Except.pure, c, this, c0, cx, cx']
        · have : y > head + 1 := by omega
          simp [Bind.bind, Except.bind, pure, Except.pure, c, this, cx, cx', throw, throwThe, MonadExceptOf.throw]
    · have cx' : x ≥ head := by omega
      cases hi <;> simp [Bind.bind, Except.bind, cx, cx', throw, throwThe, MonadExceptOf.throw]

theorem getRangeGo_eq (a : AbsStore) (f : Nat → Except Err Hdr)
    (hf : ∀ h, f h = match a.atHeight h with | some x => .ok x | none => .error .notFound)
    (s n : Nat) (acc : List Hdr) :
    getRangeGo f s n acc = match a.span s n with
      | some l => .ok (acc.reverse ++ l)
      | none => .error .notFound := by
  induction n generalizing s acc with
  | zero => simp [getRangeGo, AbsStore.span]
  | succ n ih =>
    unfold getRangeGo AbsStore.span
    rw [hf s]
    cases hx : a.atHeight s with
    | none => simp
    | some x =>
      simp only
      rw [ih (s + 1) (x :: acc)]
      cases a.span (s + 1) n <;> simp

/-- `Store::get_range` over any store whose `head_height` / `get_by_height` agree with the abstract store -/
theorem getRange_eq (a : AbsStore) (hh : Except Err Nat) (f : Nat → Except Err Hdr)
    (hhh : hh = match a.headHeight with | some h => .ok h | none => .error .notFound)
    (hf : ∀ h, f h = match a.atHeight h with | some x => .ok x | none => .error .notFound)
    (lo hi : Bound) :
    toRes (getRange hh f lo hi) .hdrs = a.getRange lo hi := by
  unfold toRes getRange AbsStore.getRange
  rw [hhh]
  cases a.headHeight with
  | none => simp [Bind.bind, Except.bind]
  | some head =>
    simp only [Bind.bind, Except.bind]
    rw [toHeadersRange_eq]
    cases AbsStore.resolve lo hi head with
    | none => simp
    | some p =>
      obtain ⟨s, e⟩ := p
      simp only
      rw [getRangeGo_eq a f hf]
      cases a.span s (e + 1 - s) <;> simp
theorem mem_headHeight {m : MemStore} {a : AbsStore} (r : Rm m a) :
    m.getHeadHeight = match a.headHeight with | some h => .ok h | none => .error .notFound := by
  unfold MemStore.getHeadHeight
  rw [head_eq_headHeight m.headerRanges r.invH a r.memH]
  cases a.headHeight <;> rfl

/-- per-operation simulation of the in-memory store by the abstract store: equal results,
    the relation is preserved, and a failed call leaves the state untouched (C20) -/
theorem mem_step_sim {m : MemStore} {a : AbsStore} (r : Rm m a) (hi : AbsInv a)
    (v : Hdr → Hdr → Bool) (op : Op) (hwf : op.wf = true) :
    (MemStore.step v m op).2 = (AbsStore.step v a op).2 ∧
    Rm (MemStore.step v m op).1 (AbsStore.step v a op).1 ∧
    ((MemStore.step v m op).2.isErr = true → (MemStore.step v m op).1 = m) := by
  cases op with
  | insert batch =>
    have hw : ∀ x ∈ batch, x.height ≤ U64_MAX := by
      simpa [Op.wf] using hwf
    have sim := mem_insert_sim r hi v batch hw
    have e0 : MemStore.insert v m batch = MemStore.insertWith true v m batch := rfl
    rw [e0] at sim
    simp only [MemStore.step, MemStore.stepWith, AbsStore.step, AbsStore.insert]
    cases hc : AbsStore.insertCheck v a batch with
    | error e =>
      rw [hc] at sim; simp only at sim
      simp [sim, toRes, r, Res.isErr]
    | ok o =>
      cases o with
      | none =>
        rw [hc] at sim; simp only at sim
        simp [sim, toRes, r, Res.isErr]
      | some p =>
        obtain ⟨lo, hi'⟩ := p
        rw [hc] at sim; simp only at sim
        obtain ⟨m', e, r'⟩ := sim
        simp only [e, toRes, Res.isErr]
        exact ⟨trivial, r', fun h => by cases h⟩
  | remove h =>
    simp only [MemStore.step, MemStore.stepWith, AbsStore.step]
    rcases mem_remove_sim r hi h with ⟨hs, e⟩ | ⟨hs, m', e, r'⟩
    · simp [e, remove_err a h hs, toRes, r, Res.isErr]
    · simp [e, remove_ok a h hs, toRes, Res.isErr]; exact r'
  | mark h =>
    simp only [MemStore.step, MemStore.stepWith, AbsStore.step]
    rcases mem_mark_sim r hi h with ⟨hs, e⟩ | ⟨hs, m', e, r'⟩
    · simp [e, AbsStore.mark, hs, toRes, r, Res.isErr]
    · simp [e, AbsStore.mark, hs, toRes, Res.isErr]; exact r'
  | updMeta h cids =>
    simp only [MemStore.step, MemStore.stepWith, AbsStore.step]
    rcases mem_updMeta_sim r h cids with ⟨hs, e, e2⟩ | ⟨hs, m', a', e, e2, r', _⟩
    · simp [e, e2, toRes, r, Res.isErr]
    · simp [e, e2, toRes, Res.isErr]; exact r'
  | getByHeight h =>
    simp only [MemStore.step, MemStore.stepWith, AbsStore.step]
    refine ⟨?_, r, fun _ => trivial⟩
    rw [mem_getByHeight r hi]
    cases a.atHeight h <;> rfl
  | hasAt h =>
    simp only [MemStore.step, MemStore.stepWith, AbsStore.step]
    refine ⟨?_, r, fun _ => trivial⟩
    simp only [MemStore.containsHeight]
    rw [contains_eq_stored r]
  | getByHash q =>
    simp only [MemStore.step, MemStore.stepWith, AbsStore.step]
    refine ⟨?_, r, fun _ => trivial⟩
    simp only [MemStore.getByHash]
    rw [r.hdr q]
    cases a.byHash q <;> rfl
  | has q =>
    simp only [MemStore.step, MemStore.stepWith, AbsStore.step]
    refine ⟨?_, r, fun _ => trivial⟩
    simp only [MemStore.containsHash, contains_eq]
    rw [r.hdr q]
  | getMeta h =>
    simp only [MemStore.step, MemStore.stepWith, AbsStore.step]
    refine ⟨?_, r, fun _ => trivial⟩
    simp only [MemStore.getSamplingMetadata, MemStore.containsHeight, contains_eq_stored r, r.md h]
    cases a.stored h <;> rfl
  | head =>
    simp only [MemStore.step, MemStore.stepWith, AbsStore.step]
    refine ⟨?_, r, fun _ => trivial⟩
    simp only [MemStore.getHead, mem_headHeight r]
    cases a.headHeight with
    | none => rfl
    | some h =>
      simp only [Bind.bind, Except.bind]
      rw [mem_getByHeight r hi]
      cases a.atHeight h <;> rfl
  | headHeight =>
    simp only [MemStore.step, MemStore.stepWith, AbsStore.step]
    refine ⟨?_, r, fun _ => trivial⟩
    rw [mem_headHeight r]
    cases a.headHeight <;> rfl
  | getRange lo hi' =>
    simp only [MemStore.step, MemStore.stepWith, AbsStore.step]
    refine ⟨?_, r, fun _ => trivial⟩
    exact getRange_eq a _ _ (mem_headHeight r) (mem_getByHeight r hi) lo hi'
  | storedRanges =>
    simp only [MemStore.step, MemStore.stepWith, AbsStore.step]
    refine ⟨?_, r, fun _ => trivial⟩
    rw [mem_storedRanges r hi]
  | sampledRanges =>
    simp only [MemStore.step, MemStore.stepWith, AbsStore.step]
    refine ⟨?_, r, fun _ => trivial⟩
    rw [mem_sampledRanges r hi]
  | prunedRanges =>
    simp only [MemStore.step, MemStore.stepWith, AbsStore.step]
    refine ⟨?_, r, fun _ => trivial⟩
    rw [mem_prunedRanges r hi]
end Lumina.Proofs.Store

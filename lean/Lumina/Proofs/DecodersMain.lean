/-
  C16 helper lemmas, part 4: per-decoder no-panic lemmas assembled from the walk theorem.
-/
import Lumina.Proofs.DecodersWalk

namespace Lumina.Proofs.Decoders
open Lumina.Util Lumina.Model.Eds Lumina.Model.Decoders
open Lumina.Model.Nmt hiding validateShape

/-! ## outcome plumbing -/

theorem bind_noPanic {α β} {x : Out α} {f : α → Out β} (hx : x.isPanic = false)
    (hf : ∀ a, x = .ok a → (f a).isPanic = false) : (x.bind f).isPanic = false := by
  cases x with
  | ok a => exact hf a rfl
  | err => rfl
  | panic s => cases hx

theorem collectOut_noPanic {α β} (f : α → Out β) : ∀ (l : List α), (∀ x ∈ l, (f x).isPanic = false) →
    (collectOut f l).isPanic = false := by
  intro l
  induction l with
  | nil => intro _; rfl
  | cons x xs ih =>
    intro h
    have hx := h x List.mem_cons_self
    have hxs := ih (fun y hy => h y (List.mem_cons_of_mem _ hy))
    unfold collectOut
    cases hfx : f x with
    | err => rfl
    | panic s => rw [hfx] at hx; cases hx
    | ok y =>
      simp only
      cases hc : collectOut f xs with
      | ok ys => rfl
      | err => rfl
      | panic s => rw [hc] at hxs; cases hxs

/-- elements of a successful `collectOut` come from successful calls -/
theorem collectOut_mem {α β} (f : α → Out β) : ∀ (l : List α) (ys : List β), collectOut f l = .ok ys →
    ∀ y ∈ ys, ∃ x ∈ l, f x = .ok y := by
  intro l
  induction l with
  | nil => intro ys h y hy; simp [collectOut] at h; subst h; simp at hy
  | cons x xs ih =>
    intro ys h y hy
    unfold collectOut at h
    cases hfx : f x with
    | err => simp [hfx] at h
    | panic s => simp [hfx] at h
    | ok y0 =>
      simp only [hfx] at h
      cases hc : collectOut f xs with
      | err => simp [hc] at h
      | panic s => simp [hc] at h
      | ok ys0 =>
        simp only [hc, Out.ok.injEq] at h
        subst h
        rcases List.mem_cons.mp hy with e | hy'
        · subst e; exact ⟨x, List.mem_cons_self, hfx⟩
        · obtain ⟨x', hx', hfx'⟩ := ih ys0 hc y hy'
          exact ⟨x', List.mem_cons_of_mem _ hx', hfx'⟩

theorem ofNmt_noPanic {α} {r : Except Lumina.Model.Nmt.Err α} (h : r ≠ .error .panic) : (ofNmt r).isPanic = false := by
  cases r with
  | ok a => rfl
  | error e =>
    cases e <;> first | rfl | exact absurd rfl h

/-! ## proofs: `u32` fields -/

/-- `start` and `end` are `u32` in Rust -/
def U32 (p : NsProof) : Prop := p.start < 2 ^ 32 ∧ p.end_ < 2 ^ 32

theorem ofRaw_u32 {st en : Nat} {nodes : List Bytes} {lf : Bytes} {ign : Bool} {p : NsProof}
    (h : NsProof.ofRaw st en nodes lf ign = some p) : U32 p := by
  unfold NsProof.ofRaw at h
  cases hp : parseNodes nodes with
  | none => simp [hp] at h
  | some sibs =>
    simp only [hp] at h
    by_cases hl : lf.isEmpty = true
    · simp only [hl, ↓reduceIte, Option.some.injEq] at h
      subst h
      exact ⟨Nat.mod_lt _ (by decide), Nat.mod_lt _ (by decide)⟩
    · simp only [hl, Bool.false_eq_true, ↓reduceIte] at h
      cases hf : NsHash.ofBytes? lf with
      | none => simp [hf] at h
      | some l =>
        simp only [hf, Option.some.injEq] at h
        subst h
        exact ⟨Nat.mod_lt _ (by decide), Nat.mod_lt _ (by decide)⟩

theorem proofFromRaw_u32 {rp : RawProof} {p : NsProof} (h : proofFromRaw rp = .ok p) : U32 p := by
  unfold proofFromRaw at h
  cases ho : NsProof.ofRaw rp.start rp.end_ rp.nodes rp.leafHash rp.ign with
  | none => simp [ho] at h
  | some q =>
    simp only [ho, Out.ok.injEq] at h
    subst h
    exact ofRaw_u32 ho

theorem proofFromRaw_noPanic (rp : RawProof) : (proofFromRaw rp).isPanic = false := by
  unfold proofFromRaw; split <;> rfl

/-! ## lumina's wrappers around nmt-rs never panic -/

theorem validateShape_sibs {p : NsProof} {a b : Bytes} (hv : validateShape p a b = true) :
    computeNumLeftSiblings p.start ≤ p.siblings.length ∧ MonoA p.siblings := by
  unfold validateShape at hv
  generalize computeNumLeftSiblings p.start = nl at hv ⊢
  by_cases c1 : nl > p.siblings.length
  · simp [c1] at hv
  · simp only [c1, ↓reduceIte] at hv
    by_cases c2 : p.siblings.any (fun s => ltB s.maxNs s.minNs) = true
    · simp [c2] at hv
    · simp only [c2, Bool.false_eq_true, ↓reduceIte] at hv
      by_cases c3 : siblingsOrdered p.siblings = true
      · exact ⟨by omega, monoA_of_checks _ (by simpa using c2) c3⟩
      · simp [c3] at hv

theorem hashLeaf_range (H : HashFn) (ns d : Bytes) : (hashLeaf H ns d).minNs = ns ∧ (hashLeaf H ns d).maxNs = ns :=
  ⟨rfl, rfl⟩

/-- the shape-validated `check_range_proof` call shared by all wrappers -/
theorem checkRangeProof_shape_ne_panic (H : HashFn) {p : NsProof} {first last : Bytes}
    (hv : validateShape p first last = true) (root : NsHash) (leaves : List NsHash)
    (he : p.start + leaves.length ≤ 2 ^ 32) (hm : MonoA leaves)
    (hfirst : ∀ x, leaves.head? = some x → x.minNs = first)
    (hlast : ∀ x, leaves.getLast? = some x → x.maxNs = last) :
    checkRangeProof H p.ignoreMaxNs root leaves p.siblings p.start ≠ .error .panic := by
  apply checkRangeProof_ne_panic _ _ _ _ _ _ he
  by_cases hne : leaves = []
  · subst hne
    simp only [List.append_nil, List.take_append_drop]
    exact (validateShape_sibs hv).2
  · exact (validateShape_chain hv hne hm hfirst hlast).2

theorem safeVerifyRange_ne_panic (H : HashFn) (p : NsProof) (hu : U32 p) (root : NsHash) (rawLeaves : List Bytes)
    (ns : Bytes) : safeVerifyRange H p root rawLeaves ns ≠ .error .panic := by
  unfold safeVerifyRange
  by_cases hv : validateShape p ns ns = true
  · simp only [hv, Bool.not_true, Bool.false_eq_true, ↓reduceIte]
    unfold verifyRange
    by_cases ha : p.isAbsence = true
    · simp [ha]
    · simp only [ha, Bool.false_eq_true, ↓reduceIte]
      by_cases hl : rawLeaves.length ≠ p.rangeLen
      · simp [hl]
      · simp only [hl, ↓reduceIte]
        have hl' : rawLeaves.length = p.end_ - p.start := by
          simp only [ne_eq, Decidable.not_not] at hl; exact hl
        apply checkRangeProof_shape_ne_panic H hv
        · rw [List.length_map, hl']; have := hu.1; have := hu.2; omega
        · exact monoA_const ns _ (by
            intro x hx
            obtain ⟨d, _, rfl⟩ := List.mem_map.mp hx
            exact hashLeaf_range H ns d)
        · intro x hx
          have := List.mem_of_mem_head? hx
          obtain ⟨d, _, rfl⟩ := List.mem_map.mp this
          rfl
        · intro x hx
          have := List.mem_of_getLast? hx
          obtain ⟨d, _, rfl⟩ := List.mem_map.mp this
          rfl
  · simp [hv]

theorem safeVerifyCompleteNamespace_ne_panic (H : HashFn) (p : NsProof) (hu : U32 p) (root : NsHash)
    (rawLeaves : List Bytes) (ns : Bytes) :
    safeVerifyCompleteNamespace H p root rawLeaves ns ≠ .error .panic := by
  unfold safeVerifyCompleteNamespace
  by_cases hso : completeNsShapeOk p ns = true
  case neg => simp [hso]
  case pos =>
    simp only [hso, Bool.not_true, Bool.false_eq_true, ↓reduceIte]
    have hshape := hso
    unfold completeNsShapeOk at hshape
    unfold verifyCompleteNamespace
    by_cases hlen : (!p.isAbsence && decide (rawLeaves.length ≠ p.rangeLen)) = true
    · have hlen' := hlen
      simp only [Bool.and_eq_true, Bool.not_eq_true', decide_eq_true_eq] at hlen'
      simp [hlen']
    · simp only [hlen, Bool.false_eq_true, ↓reduceIte]
      unfold verifyNamespace
      by_cases h1 : (root.isEmptyRoot H && rawLeaves.isEmpty) = true
      · simp [h1]
      · simp only [h1, Bool.false_eq_true, ↓reduceIte]
        by_cases ha : p.isAbsence = true
        · simp only [ha, ↓reduceIte]
          by_cases hc : (!root.contains H ns) = true
          · simp [hc]
          · simp only [hc, Bool.false_eq_true, ↓reduceIte]
            cases hleaf : p.leaf with
            | none => simp
            | some leaf =>
              simp only
              rw [ha, hleaf] at hshape
              simp only [↓reduceIte] at hshape
              have hord : ltB leaf.maxNs leaf.minNs = false := by
                by_cases c : ltB leaf.maxNs leaf.minNs = true
                · simp [c] at hshape
                · simpa using c
              simp only [hord, Bool.false_eq_true, ↓reduceIte] at hshape
              by_cases h2 : (!rawLeaves.isEmpty) = true
              · simp [h2]
              · simp only [h2, Bool.false_eq_true, ↓reduceIte]
                by_cases h3 : leB leaf.minNs ns = true
                · simp [h3]
                · simp only [h3, Bool.false_eq_true, ↓reduceIte]
                  have hnl := (validateShape_sibs hshape).1
                  have h4 : ¬ (computeNumLeftSiblings p.start > 0 ∧ p.siblings.length < computeNumLeftSiblings p.start) := by
                    omega
                  simp only [h4, ↓reduceIte]
                  have key : checkRangeProof H p.ignoreMaxNs root [leaf] p.siblings p.start ≠ .error .panic := by
                    apply checkRangeProof_shape_ne_panic H hshape
                    · simp; have := hu.1; omega
                    · exact leB_of_not_ltB hord
                    · intro x hx; simp at hx; subst hx; rfl
                    · intro x hx; simp at hx; subst hx; rfl
                  repeat' split
                  all_goals first | exact key | simp
        · simp only [ha, Bool.false_eq_true, ↓reduceIte]
          have ha' : p.isAbsence = false := by simpa using ha
          rw [ha'] at hshape hlen
          simp only [Bool.false_eq_true, ↓reduceIte, Bool.not_false, Bool.true_and, decide_eq_true_eq,
            Decidable.not_not] at hshape hlen
          by_cases hc : (!root.contains H ns) = true
          · simp [hc]
          · simp only [hc, Bool.false_eq_true, ↓reduceIte]
            have hnl := (validateShape_sibs hshape).1
            have hcr : nmtCheckRangeProof H p.ignoreMaxNs root (rawLeaves.map (hashLeaf H ns)) p.siblings p.start
                ≠ .error .panic := by
              unfold nmtCheckRangeProof
              split
              · split <;> simp
              · split
                · split <;> simp
                · split
                  · simp
                  · have hcpc : checkProofCompleteness (rawLeaves.map (hashLeaf H ns)) p.siblings
                        (computeNumLeftSiblings p.start) ≠ .error .panic := by
                      unfold checkProofCompleteness
                      have : ¬ (computeNumLeftSiblings p.start ≠ 0 ∧ p.siblings.length < computeNumLeftSiblings p.start) := by
                        omega
                      simp [this]
                    simp only
                    cases hcp : checkProofCompleteness (rawLeaves.map (hashLeaf H ns)) p.siblings
                        (computeNumLeftSiblings p.start) with
                    | error e =>
                      simp only
                      intro hcontra
                      injection hcontra with hcontra
                      subst hcontra
                      exact hcpc hcp
                    | ok complete =>
                      simp only
                      have hck : checkRangeProof H p.ignoreMaxNs root (rawLeaves.map (hashLeaf H ns)) p.siblings p.start
                          ≠ .error .panic := by
                        apply checkRangeProof_shape_ne_panic H hshape
                        · rw [List.length_map, hlen]; unfold NsProof.rangeLen; have := hu.1; have := hu.2; omega
                        · exact monoA_const ns _ (by
                            intro x hx
                            obtain ⟨d, _, rfl⟩ := List.mem_map.mp hx
                            exact hashLeaf_range H ns d)
                        · intro x hx
                          have := List.mem_of_mem_head? hx
                          obtain ⟨d, _, rfl⟩ := List.mem_map.mp this
                          rfl
                        · intro x hx
                          have := List.mem_of_getLast? hx
                          obtain ⟨d, _, rfl⟩ := List.mem_map.mp this
                          rfl
                      cases hcr2 : checkRangeProof H p.ignoreMaxNs root (rawLeaves.map (hashLeaf H ns)) p.siblings p.start with
                      | error e =>
                        simp only
                        intro hcontra
                        injection hcontra with hcontra
                        subst hcontra
                        exact hck hcr2
                      | ok u => simp
            cases hn : nmtCheckRangeProof H p.ignoreMaxNs root (rawLeaves.map (hashLeaf H ns)) p.siblings p.start with
            | error e =>
              simp only
              intro hcontra
              injection hcontra with hcontra
              subst hcontra
              exact hcr hn
            | ok c => simp only; split <;> simp

end Lumina.Proofs.Decoders

/-
  Glue for the C33 × C10 composition ("a block marked sampled really had its shares checked"):

  * `sampleCid h p`          : the CID `P2p::get_sample(row, col, height)` asks bitswap for (`sample_cid`);
  * `sampleId_of_mh`         : the sample identifier a multihash denotes is unique — if the multihash of the identifier
                               parsed from a block's own CID equals the multihash of the requested CID, the block's
                               identifier is the requested (height, row, column) (`u64` height, `u16` coordinates);
  * `accepted_block_is_committed_share` : C10 `mh_sample_sound` re-targeted from "the block's own CID" to "the requested
                               CID" through `sampleId_of_mh`; the hash is assumed collision-free only RELATIVE TO a set `S`
                               containing the inputs hashed for the stored squares and for the accepted block
                               (`StoreCommits`, `sampleBlockInputs`; audit repair X1 — the former `HashOK` was contradictory).
-/
import Lumina.Props.C10
import Lumina.Proofs.C15
import Lumina.Proofs.ShwapSoundRows

namespace Lumina.Proofs.SampledShares
open Lumina.Util Lumina.Model.Nmt Lumina.Model.Eds Lumina.Model.ShwapId Lumina.Model.Decoders Lumina.Model.ShwapHasher
open Lumina.Proofs.C15 Lumina.Gen.C15 Lumina.Proofs.Nmt

/-- `sample_cid(row, col, height)` of `node/src/p2p/shwap.rs`: the CID of `SampleId::new(row, col, height)` -/
def sampleCid (h : Nat) (p : Nat × Nat) : Cid := (SampleId.mk ⟨⟨h⟩, p.1⟩ p.2).toCid

theorem sampleId_encode_length (id : SampleId) : id.encode.length = 12 := by
  simp [SampleId.encode, RowId.encode, EdsId.encode, be_length]

/-- the fields of a decoded sample identifier are a `u64` and two `u16` -/
theorem sampleId_decode_bounds {buf : Bytes} {id : SampleId} (h : SampleId.decode buf = .ok id) :
    id.row.eds.height < 256 ^ 8 ∧ id.row.index < 256 ^ 2 ∧ id.column < 256 ^ 2 := by
  unfold SampleId.decode at h
  split at h
  · cases h
  · cases hr : RowId.decode (buf.take ROW_ID_SIZE) with
    | error e => simp [hr] at h
    | ok r =>
      simp only [hr, Except.ok.injEq] at h
      subst h
      unfold RowId.decode at hr
      split at hr
      · cases hr
      · rename_i hl
        cases he : EdsId.decode ((buf.take ROW_ID_SIZE).take EDS_ID_SIZE) with
        | error e => simp [he] at hr
        | ok eds =>
          simp only [he, Except.ok.injEq] at hr
          subst hr
          unfold EdsId.decode at he
          split at he
          · cases he
          · rename_i hl8
            unfold EdsId.new at he
            split at he
            · cases he
            · simp only [Except.ok.injEq] at he
              subst he
              refine ⟨?_, ?_, ?_⟩
              · have := ofBe_lt ((buf.take ROW_ID_SIZE).take EDS_ID_SIZE)
                have hl8' : ((buf.take ROW_ID_SIZE).take EDS_ID_SIZE).length = 8 := by
                  simpa [EDS_ID_SIZE] using hl8
                rw [hl8'] at this
                exact this
              · have := ofBe_lt (((buf.take ROW_ID_SIZE).drop EDS_ID_SIZE).take 2)
                have hle : (((buf.take ROW_ID_SIZE).drop EDS_ID_SIZE).take 2).length ≤ 2 := by
                  simp [List.length_take]; omega
                exact Nat.lt_of_lt_of_le this (Nat.pow_le_pow_right (by decide) hle)
              · have := ofBe_lt ((buf.drop ROW_ID_SIZE).take 2)
                have hle : ((buf.drop ROW_ID_SIZE).take 2).length ≤ 2 := by
                  simp [List.length_take]; omega
                exact Nat.lt_of_lt_of_le this (Nat.pow_le_pow_right (by decide) hle)

theorem be_inj {w a b : Nat} (ha : a < 256 ^ w) (hb : b < 256 ^ w) (e : be w a = be w b) : a = b := by
  have := congrArg ofBe e
  rw [ofBe_be, ofBe_be, Nat.mod_eq_of_lt ha, Nat.mod_eq_of_lt hb] at this
  exact this

/-- **the identifier a sample multihash denotes is unique** -/
theorem sampleId_of_mh {cid : Cid} {id : SampleId} (hid : SampleId.ofCid cid = .ok id) {h : Nat} {p : Nat × Nat}
    (hh : h < 2 ^ 64) (hr : p.1 < 2 ^ 16) (hc : p.2 < 2 ^ 16)
    (e : mhBytes id.toCid = mhBytes (sampleCid h p)) : id = ⟨⟨⟨h⟩, p.1⟩, p.2⟩ := by
  -- bounds of the parsed identifier
  have hb : id.row.eds.height < 256 ^ 8 ∧ id.row.index < 256 ^ 2 ∧ id.column < 256 ^ 2 := by
    unfold SampleId.ofCid Lumina.Model.ShwapId.ofCid at hid
    split at hid
    · cases hid
    · split at hid
      · cases hid
      · split at hid
        · cases hid
        · cases hd : SampleId.decode cid.digest with
          | error er => simp [hd] at hid
          | ok id' =>
            simp only [hd, Except.ok.injEq] at hid
            subst hid
            exact sampleId_decode_bounds hd
  -- equal multihash bytes: equal digests
  have hl1 := sampleId_encode_length id
  have hl2 := sampleId_encode_length ⟨⟨⟨h⟩, p.1⟩, p.2⟩
  simp only [mhBytes, sampleCid, SampleId.toCid, hl1, hl2] at e
  have e' : id.encode = (SampleId.mk ⟨⟨h⟩, p.1⟩ p.2).encode := List.append_cancel_left e
  simp only [SampleId.encode, RowId.encode, EdsId.encode] at e'
  obtain ⟨e1, e2⟩ := List.append_inj e' (by simp [be_length])
  obtain ⟨e3, e4⟩ := List.append_inj e1 (by simp [be_length])
  have k1 := be_inj hb.1 (by simpa using hh) e3
  have k2 := be_inj hb.2.1 (by simpa using hr) e4
  have k3 := be_inj hb.2.2 (by simpa using hc) e2
  obtain ⟨⟨⟨hh'⟩, ri⟩, ci⟩ := id
  simp only at k1 k2 k3
  subst k1; subst k2; subst k3
  rfl

/-- the byte strings hashed when the multihasher verifies this block as a SAMPLE block: the leaf preimage and the
    `hash_nodes` calls of the range-proof check of the decoded sample (`[]` when it does not decode: nothing is hashed) -/
def sampleBlockInputs (H : HashFn) (P : Params) (blk : Bytes) : List Bytes :=
  match Lumina.Proofs.ShwapSound.decodedSample P blk with
  | some (_, s) => Lumina.Proofs.Sample.sampleInputs H s
  | none => []

/-- every header a store holds commits (through its DAH) to the square `sq` of its height, and the byte strings hashed
    for that square's row and column trees belong to `S` (the set the hash is assumed collision-free on) -/
def StoreCommits (H : HashFn) (S : Bytes → Prop) (sq : Nat → Eds) (kk : Nat → Nat) (store : Nat → Option Dah) : Prop :=
  ∀ h d, store h = some d → Dah.ofEds H (sq h) = .ok d ∧ (sq h).width = 2 ^ kk h ∧
    (∀ sh ∈ (sq h).shares, NS_SIZE ≤ sh.data.length) ∧ ∀ y ∈ Lumina.Proofs.Eds.edsInputs H (sq h), S y

/-- the data of a block is the committed share at `(p.1, p.2)` of the square of height `h` -/
def CarriesCommittedShare (P : Params) (sq : Nat → Eds) (h : Nat) (p : Nat × Nat) (blk : Bytes) : Prop :=
  ∃ cidB cont raw smp sh, P.decodeBlock blk = some (cidB, cont) ∧ P.decodeSample cont = some raw ∧
    sampleFromRaw p.1 p.2 raw = .ok smp ∧ (sq h).share? p.1 p.2 = some sh ∧ sh.data = smp.share.data

theorem decodedSample_eq {P : Params} {blk cidB cont : Bytes} {cid : Cid} {id : SampleId} {raw : RawSample}
    {s : Lumina.Model.Sample.Sample} (h1 : P.decodeBlock blk = some (cidB, cont)) (h2 : Cid.read cidB = some cid)
    (h3 : SampleId.ofCid cid = .ok id) (h4 : P.decodeSample cont = some raw)
    (h5 : sampleFromRaw id.row.index id.column raw = .ok s) :
    Lumina.Proofs.ShwapSound.decodedSample P blk = some (id, s) := by
  simp only [Lumina.Proofs.ShwapSound.decodedSample, h1, h2, h3, h4, h5]

/-- C10 `mh_sample_sound`, for the REQUESTED CID: a block for which the multihasher yields the multihash of
    `sample_cid(p.1, p.2, h)` carries the committed share at `(p.1, p.2)` of the square of height `h`.  Hash hypothesis
    (audit repair X1): 32-byte output and no collision among `S` ⊇ the inputs hashed for the stored squares
    (`StoreCommits`) and by the verification of this block (`sampleBlockInputs`). -/
theorem accepted_block_is_committed_share {H : HashFn} {S : Bytes → Prop} (hk : HashOKOn H S) (P : Params)
    {store : Nat → Option Dah} {sq : Nat → Eds} {kk : Nat → Nat} (hstore : StoreCommits H S sq kk store) {h : Nat}
    {p : Nat × Nat} (hh : h < 2 ^ 64) (hr : p.1 < 2 ^ 16) (hc : p.2 < 2 ^ 16) {blk : Bytes}
    (hok : multihash H P store SAMPLE_ID_MULTIHASH_CODE blk = .ok (mhBytes (sampleCid h p)))
    (hV : ∀ y ∈ sampleBlockInputs H P blk, S y) :
    CarriesCommittedShare P sq h p blk := by
  obtain ⟨cidB, cont, cid, id, raw, smp, h1, h2, h3, h4, h5, h6, sh, h7, h8⟩ :=
    Lumina.Props.C10.mh_sample_sound hk P store sq kk hstore blk _
      (fun id s hd y hy => hV y (by simp only [sampleBlockInputs, hd]; exact hy)) hok
  have hid := sampleId_of_mh h3 hh hr hc h6.symm
  subst hid
  exact ⟨cidB, cont, raw, smp, sh, h1, h4, h5, h7, h8⟩

end Lumina.Proofs.SampledShares

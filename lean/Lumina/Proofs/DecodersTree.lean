/-
  C16 helper lemmas, part 2: shape of the RFC-6962 tree that `check_range_proof_inner` walks —
  the split point `next_smaller_po2`, the number of right siblings of a leaf (`rsib`), and the
  correctness of nmt-rs `compute_tree_size`: the tree size it reconstructs from the number of
  right siblings has exactly that many right siblings for the last proven leaf.
-/
import Lumina.Proofs.DecodersOrder

namespace Lumina.Proofs.Decoders
open Lumina.Util Lumina.Model.Nmt

theorem npo2_aux_spec (n : Nat) : ∀ (fuel a : Nat), (a = 0 ∨ 2 ^ (a - 1) < n) → n ≤ 2 ^ (a + fuel) →
    ∃ b, nextPowerOfTwoAux n fuel (2 ^ a) = 2 ^ b ∧ n ≤ 2 ^ b ∧ (b = 0 ∨ 2 ^ (b - 1) < n) := by
  intro fuel
  induction fuel with
  | zero => intro a h1 h2; exact ⟨a, rfl, by simpa using h2, h1⟩
  | succ f ih =>
    intro a h1 h2
    unfold nextPowerOfTwoAux
    by_cases h : n ≤ 2 ^ a
    · simp only [h, ↓reduceIte]; exact ⟨a, rfl, h, h1⟩
    · simp only [h, ↓reduceIte]
      have : 2 * 2 ^ a = 2 ^ (a + 1) := by rw [Nat.pow_succ]; omega
      rw [this]
      apply ih (a + 1)
      · right; simp; omega
      · have : a + 1 + f = a + (f + 1) := by omega
        rw [this]; exact h2

theorem nsp2_spec (n : Nat) (h : 2 ≤ n) : ∃ m, nextSmallerPo2 n = 2 ^ m ∧ 2 ^ m < n ∧ n ≤ 2 ^ (m + 1) := by
  have hn : n ≤ 2 ^ (0 + n) := by simpa using Nat.le_of_lt Nat.lt_two_pow_self
  obtain ⟨b, hb1, hb2, hb3⟩ := npo2_aux_spec n n 0 (Or.inl rfl) hn
  have hb0 : b ≠ 0 := by
    intro e; subst e; simp at hb2; omega
  rcases hb3 with e | hb3
  · exact absurd e hb0
  · refine ⟨b - 1, ?_, hb3, ?_⟩
    · unfold nextSmallerPo2 nextPowerOfTwo
      have : (2:Nat) ^ 0 = 1 := rfl
      rw [← this, hb1]
      have : b = (b - 1) + 1 := by omega
      rw [this, Nat.pow_succ]; simp
    · have : b - 1 + 1 = b := by omega
      rw [this]; exact hb2

/-- bounds of the split point -/
theorem nsp2_bounds (n : Nat) (h : 2 ≤ n) : 1 ≤ nextSmallerPo2 n ∧ nextSmallerPo2 n < n ∧ n ≤ 2 * nextSmallerPo2 n := by
  obtain ⟨m, h1, h2, h3⟩ := nsp2_spec n h
  rw [h1]
  refine ⟨Nat.one_le_two_pow, h2, ?_⟩
  rw [Nat.pow_succ] at h3; omega

theorem nsp2_unique (n a : Nat) (h : 2 ≤ n) (h1 : 2 ^ a < n) (h2 : n ≤ 2 * 2 ^ a) : nextSmallerPo2 n = 2 ^ a := by
  obtain ⟨m, e, h3, h4⟩ := nsp2_spec n h
  rw [e]
  have h4' : n ≤ 2 ^ (m + 1) := h4
  have h2' : n ≤ 2 ^ (a + 1) := by rw [Nat.pow_succ]; omega
  have l1 : 2 ^ a < 2 ^ (m + 1) := Nat.lt_of_lt_of_le h1 h4'
  have l2 : 2 ^ m < 2 ^ (a + 1) := Nat.lt_of_lt_of_le h3 h2'
  have := (Nat.pow_lt_pow_iff_right (by decide : 1 < 2)).mp l1
  have := (Nat.pow_lt_pow_iff_right (by decide : 1 < 2)).mp l2
  have : m = a := by omega
  rw [this]

/-- number of right siblings of leaf `i` in the RFC-6962 tree with `n` leaves (the recursion of
    `check_range_proof_inner`) -/
def rsib (n i : Nat) : Nat :=
  if h : n ≤ 1 then 0
  else
    if nextSmallerPo2 n ≤ i then rsib (n - nextSmallerPo2 n) (i - nextSmallerPo2 n)
    else 1 + rsib (nextSmallerPo2 n) i
termination_by n
decreasing_by
  · have := nsp2_bounds n (by omega); omega
  · have := nsp2_bounds n (by omega); omega

theorem rsib_le_one (n i : Nat) (h : n ≤ 1) : rsib n i = 0 := by
  rw [rsib]; simp [h]

theorem rsib_unfold (n i : Nat) (h : 2 ≤ n) :
    rsib n i = if nextSmallerPo2 n ≤ i then rsib (n - nextSmallerPo2 n) (i - nextSmallerPo2 n)
               else 1 + rsib (nextSmallerPo2 n) i := by
  rw [rsib]
  have : ¬ n ≤ 1 := by omega
  simp [this]

theorem rsib_last : ∀ n, 1 ≤ n → rsib n (n - 1) = 0 := by
  intro n
  induction n using Nat.strongRecOn with
  | _ n ih =>
    intro h
    by_cases h1 : n ≤ 1
    · exact rsib_le_one _ _ h1
    · have hb := nsp2_bounds n (by omega)
      rw [rsib_unfold n _ (by omega)]
      have : nextSmallerPo2 n ≤ n - 1 := by omega
      simp only [this, ↓reduceIte]
      have e : n - 1 - nextSmallerPo2 n = (n - nextSmallerPo2 n) - 1 := by omega
      rw [e]
      exact ih _ (by omega) (by omega)

theorem nsp2_two : nextSmallerPo2 2 = 1 := by decide

/-- pairing up the leaves: the tree over `n` leaves is the tree over `⌈n/2⌉` pairs -/
theorem rsib_halve : ∀ n i, 1 ≤ n → i < n →
    rsib n i = (if i % 2 = 0 ∧ i + 1 < n then 1 else 0) + rsib ((n + 1) / 2) (i / 2) := by
  intro n
  induction n using Nat.strongRecOn with
  | _ n ih =>
    intro i hn hi
    by_cases h1 : n = 1
    · subst h1
      have : i = 0 := by omega
      subst this
      simp [rsib_le_one]
    by_cases h2 : n = 2
    · subst h2
      rw [rsib_unfold 2 i (by omega), nsp2_two]
      have hc : i = 0 ∨ i = 1 := by omega
      rcases hc with e | e <;> subst e <;> simp [rsib_le_one]
    -- n ≥ 3
    have hn3 : 3 ≤ n := by omega
    obtain ⟨m, hk, hk1, hk2⟩ := nsp2_spec n (by omega)
    have hm : 1 ≤ m := by
      rcases Nat.eq_zero_or_pos m with e | e
      · subst e; simp at hk2; omega
      · exact e
    obtain ⟨m', rfl⟩ : ∃ m', m = m' + 1 := ⟨m - 1, by omega⟩
    have hkk : (2:Nat) ^ (m' + 1) = 2 * 2 ^ m' := by rw [Nat.pow_succ]; omega
    have hkk2 : (2:Nat) ^ (m' + 1 + 1) = 4 * 2 ^ m' := by rw [Nat.pow_succ, hkk]; omega
    have hp : 1 ≤ 2 ^ m' := Nat.one_le_two_pow
    generalize hP : 2 ^ m' = P at *
    rw [hkk] at hk hk1
    rw [hkk2] at hk2
    have hn' : 2 ≤ (n + 1) / 2 := by omega
    have hk' : nextSmallerPo2 ((n + 1) / 2) = P := by
      rw [← hP]; apply nsp2_unique _ _ hn' <;> rw [hP] <;> omega
    rw [rsib_unfold n i (by omega), rsib_unfold ((n + 1) / 2) (i / 2) hn', hk, hk']
    by_cases hik : 2 * P ≤ i
    · have : P ≤ i / 2 := by omega
      simp only [hik, this, ↓reduceIte]
      rw [ih (n - 2 * P) (by omega) (i - 2 * P) (by omega) (by omega)]
      have e1 : (n - 2 * P + 1) / 2 = (n + 1) / 2 - P := by omega
      have e2 : (i - 2 * P) / 2 = i / 2 - P := by omega
      have e3 : (i - 2 * P) % 2 = i % 2 := by omega
      rw [e1, e2, e3]
      have e4 : (i - 2 * P + 1 < n - 2 * P) ↔ (i + 1 < n) := by omega
      simp only [e4]
    · have : ¬ P ≤ i / 2 := by omega
      simp only [hik, this, ↓reduceIte]
      rw [ih (2 * P) (by omega) i (by omega) (by omega)]
      have e1 : (2 * P + 1) / 2 = P := by omega
      rw [e1]
      have e4 : (i % 2 = 0 ∧ i + 1 < 2 * P) ↔ (i % 2 = 0 ∧ i + 1 < n) := by omega
      simp only [e4]
      omega

/-- number of zero bits among the `j` low bits of `r` -/
def zerosLow : Nat → Nat → Nat
  | _, 0 => 0
  | r, j + 1 => (if r % 2 = 0 then 1 else 0) + zerosLow (r / 2) j

/-- a tree whose last leaf index has its `j` low bits set: the low bits of the leaf index decide -/
theorem rsib_fill : ∀ j g q r, q ≤ g → r < 2 ^ j →
    rsib (2 ^ j * g + 2 ^ j) (2 ^ j * q + r) = zerosLow r j + rsib (g + 1) q := by
  intro j
  induction j with
  | zero =>
    intro g q r hq hr
    have : r = 0 := by simpa using hr
    subst this
    simp [zerosLow]
  | succ j ih =>
    intro g q r hq hr
    have hp : 1 ≤ 2 ^ j := Nat.one_le_two_pow
    have e2 : (2:Nat) ^ (j + 1) = 2 * 2 ^ j := by rw [Nat.pow_succ]; omega
    rw [e2] at hr ⊢
    have hmul : 2 ^ j * q ≤ 2 ^ j * g := Nat.mul_le_mul_left _ hq
    generalize hP : 2 ^ j = P at *
    generalize hA : P * g = A at *
    generalize hB : P * q = B at *
    have eA : 2 * P * g = 2 * A := by rw [← hA, Nat.mul_assoc]
    have eB : 2 * P * q = 2 * B := by rw [← hB, Nat.mul_assoc]
    rw [eA, eB]
    rw [rsib_halve (2 * A + 2 * P) (2 * B + r) (by omega) (by omega)]
    have e3 : (2 * A + 2 * P + 1) / 2 = A + P := by omega
    have e4 : (2 * B + r) / 2 = B + r / 2 := by omega
    rw [e3, e4]
    have := ih g q (r / 2) hq (by omega)
    rw [hA, hB] at this
    rw [this]
    simp only [zerosLow]
    have e5 : ((2 * B + r) % 2 = 0 ∧ 2 * B + r + 1 < 2 * A + 2 * P) ↔ r % 2 = 0 := by omega
    simp only [e5]
    omega

/-- zero bits of `b * 2^j + r`: the top bit is counted last -/
theorem zerosLow_top : ∀ j r b, r < 2 ^ j → b < 2 →
    zerosLow (b * 2 ^ j + r) (j + 1) = zerosLow r j + (if b = 0 then 1 else 0) := by
  intro j
  induction j with
  | zero =>
    intro r b hr hb
    have : r = 0 := by simpa using hr
    subst this
    simp only [Nat.pow_zero, Nat.mul_one, Nat.add_zero, zerosLow]
    have : b = 0 ∨ b = 1 := by omega
    rcases this with e | e <;> subst e <;> simp
  | succ j ih =>
    intro r b hr hb
    have e2 : (2:Nat) ^ (j + 1) = 2 * 2 ^ j := by rw [Nat.pow_succ]; omega
    rw [e2] at hr
    have hp : 1 ≤ 2 ^ j := Nat.one_le_two_pow
    have step : zerosLow (b * 2 ^ (j + 1) + r) (j + 1 + 1)
        = (if (b * 2 ^ (j + 1) + r) % 2 = 0 then 1 else 0) + zerosLow ((b * 2 ^ (j + 1) + r) / 2) (j + 1) := rfl
    rw [step]
    have e3 : (b * 2 ^ (j + 1) + r) % 2 = r % 2 := by
      rw [e2]
      have : b * (2 * 2 ^ j) = 2 * (b * 2 ^ j) := by rw [Nat.mul_left_comm]
      rw [this]; omega
    have e4 : (b * 2 ^ (j + 1) + r) / 2 = b * 2 ^ j + r / 2 := by
      rw [e2]
      have : b * (2 * 2 ^ j) = 2 * (b * 2 ^ j) := by rw [Nat.mul_left_comm]
      rw [this]; omega
    rw [e3, e4, ih (r / 2) b (by omega) hb]
    have step2 : zerosLow r (j + 1) = (if r % 2 = 0 then 1 else 0) + zerosLow (r / 2) j := rfl
    rw [step2]; omega

theorem cts_loop (e : Nat) (he : e < 2 ^ 32) : ∀ fuel j rem T, j ≤ 31 →
    computeTreeSizeAux fuel rem (2 ^ j * (e / 2 ^ j) + (2 ^ j - 1)) (2 ^ j) = .ok T →
    ∀ r, r < 2 ^ j → rsib T (2 ^ j * (e / 2 ^ j) + r) = rem + zerosLow r j := by
  intro fuel
  induction fuel with
  | zero => intro j rem T _ h; simp [computeTreeSizeAux] at h
  | succ fuel ih =>
    intro j rem T hj h r hr
    have hp : 1 ≤ 2 ^ j := Nat.one_le_two_pow
    have hpj : 2 ^ j ≤ 2 ^ 31 := Nat.pow_le_pow_right (by decide) hj
    have e2 : (2:Nat) ^ (j + 1) = 2 ^ j * 2 := by rw [Nat.pow_succ]
    have hQ : e / 2 ^ j / 2 = e / (2 ^ j * 2) := by rw [Nat.div_div_eq_div_mul]
    have hfill := rsib_fill j (e / 2 ^ j) (e / 2 ^ j) r (Nat.le_refl _) hr
    have htop := zerosLow_top j r ((e / 2 ^ j) % 2) hr (by omega)
    have hihj := ih (j + 1)
    rw [e2] at hihj
    generalize hq : e / 2 ^ j = q at *
    generalize hP : 2 ^ j = P at *
    have h0 : (P - 1) / P = 0 := Nat.div_eq_of_lt (by omega)
    have hdiv : (P * q + (P - 1)) / P = q := by
      rw [Nat.mul_add_div (by omega), h0]; rfl
    unfold computeTreeSizeAux at h
    by_cases hrem : rem = 0
    · subst hrem
      simp only [↓reduceIte, Except.ok.injEq] at h
      subst h
      have e3 : P * q + (P - 1) + 1 = P * q + P := by omega
      have hl := rsib_last (q + 1) (by omega)
      rw [Nat.add_sub_cancel] at hl
      rw [e3, hfill, hl]; simp
    · simp only [hrem, ↓reduceIte] at h
      have hm0 : P ≠ 0 := by omega
      simp only [hm0, ↓reduceIte, hdiv] at h
      have hmask : P * 2 % USIZE_MOD = P * 2 := by
        apply Nat.mod_eq_of_lt; unfold USIZE_MOD; omega
      rw [hmask] at h
      have hq2 : q = 2 * (q / 2) + q % 2 := by omega
      have e5 : P * 2 * (q / 2) = 2 * (P * (q / 2)) := by rw [Nat.mul_assoc, Nat.mul_left_comm]
      have hb : q % 2 = 0 ∨ q % 2 = 1 := by omega
      -- the two shapes of `P * q`
      have hPq : P * q = 2 * (P * (q / 2)) + (q % 2) * P := by
        conv => lhs; rw [hq2]
        rw [Nat.mul_add, Nat.mul_left_comm, Nat.mul_comm P (q % 2)]
      have hidx : (if (q % 2 == 0) = true then P * q + (P - 1) + P else P * q + (P - 1))
          = P * 2 * (q / 2) + (P * 2 - 1) := by
        rcases hb with hb | hb
        · rw [hb] at hPq
          simp only [hb, beq_self_eq_true, ↓reduceIte, hPq, e5]; omega
        · rw [hb] at hPq
          have : ((1:Nat) == 0) = false := rfl
          simp only [hb, this, Bool.false_eq_true, ↓reduceIte, hPq, e5]; omega
      rw [hidx] at h
      by_cases hmax : P * 2 * (q / 2) + (P * 2 - 1) = U32_MAX
      · simp [hmax] at h
      · simp only [hmax, ↓reduceIte] at h
        have hj1 : j + 1 ≤ 31 := by
          by_cases hj31 : j = 31
          · exfalso
            subst hj31
            have hP' : P = 2 ^ 31 := hP.symm
            have : q / 2 = 0 := by
              rw [hQ, hP']; exact Nat.div_eq_of_lt (by simpa using he)
            rw [this, hP'] at hmax
            exact hmax (by decide)
          · omega
        rw [hQ] at h
        have hih := hihj _ T hj1 h ((q % 2) * P + r) (by rcases hb with hb | hb <;> rw [hb] <;> omega)
        rw [htop] at hih
        have eidx : P * 2 * (e / (P * 2)) + (q % 2 * P + r) = P * q + r := by
          rw [← hQ, hPq, e5]; omega
        rw [eidx] at hih
        rw [hih]
        rcases hb with hb | hb
        · simp [hb]; omega
        · simp [hb]

theorem computeTreeSizeAux_ge : ∀ (fuel rem idx mask T : Nat),
    computeTreeSizeAux fuel rem idx mask = .ok T → idx + 1 ≤ T := by
  intro fuel
  induction fuel with
  | zero => intro rem idx mask T h; simp [computeTreeSizeAux] at h
  | succ f ih =>
    intro rem idx mask T h
    unfold computeTreeSizeAux at h
    by_cases hr : rem = 0
    · simp [hr] at h; omega
    · simp only [hr, ↓reduceIte] at h
      generalize (if mask = 0 then true else idx / mask % 2 == 0) = hit at h
      by_cases hm : (if hit = true then idx + mask else idx) = U32_MAX
      · simp [hm] at h
      · simp only [hm, ↓reduceIte] at h
        have := ih _ _ _ _ h
        cases hit <;> simp at this <;> omega

/-- `compute_tree_size` returns a size that contains the last proven leaf -/
theorem computeTreeSize_gt {nr e T : Nat} (h : computeTreeSize nr e = .ok T) : e < T := by
  have := computeTreeSizeAux_ge _ _ _ _ _ h
  omega

/-- `compute_tree_size` is correct: in the tree it reconstructs, the last proven leaf has exactly
    the given number of right siblings -/
theorem computeTreeSize_rsib {nr e T : Nat} (he : e < 2 ^ 32) (h : computeTreeSize nr e = .ok T) :
    rsib T e = nr := by
  have h' : computeTreeSizeAux (nr + 70) nr (2 ^ 0 * (e / 2 ^ 0) + (2 ^ 0 - 1)) (2 ^ 0) = .ok T := by
    simpa [computeTreeSize] using h
  have := cts_loop e he (nr + 70) 0 nr T (by omega) h' 0 (by simp)
  simpa [zerosLow] using this

end Lumina.Proofs.Decoders

/-
  Facts about `Lumina.Model.Ranges` operations used by the daser proofs (C33, C34):
  `pop_head`, `head` after insertion / removal, membership as Boolean functions.
  (The shared lemma files `Proofs/Ranges*.lean` are owned by another group: imported, not edited.)
-/
import Lumina.Proofs.Ranges
import Lumina.Proofs.RangesConstraints

namespace Lumina.Proofs.DaserRanges
open Lumina.Model.Ranges hiding Inv
open Lumina.Proofs.Ranges

local notation "RInv" => Lumina.Model.Ranges.Inv

attribute [local simp] ok_bind err_bind map_ok map_err pure_eq throw_eq

theorem contains_false_iff (rs : Ranges) (h : Nat) : contains rs h = false ↔ ¬ mem rs h := by
  rw [← contains_iff_mem]; cases contains rs h <;> simp

/-- Boolean membership functions are equal when the denoted sets are related accordingly -/
theorem contains_eq_of_iff {a : Ranges} {f : Nat → Bool} (h : ∀ x, mem a x ↔ f x = true) :
    (fun x => contains a x) = f := by
  funext x
  cases hf : f x
  · exact (contains_false_iff a x).2 (fun hm => by have := (h x).1 hm; simp [hf] at this)
  · exact (contains_iff_mem a x).2 ((h x).2 hf)

theorem not_mem_zero {rs : Ranges} (hi : RInv rs) : ¬ mem rs 0 := fun hm => by
  have := mem_bounds hi hm; omega

theorem validR_single {h : Nat} (h1 : 1 ≤ h) (h2 : h ≤ U64_MAX) : ValidR (h, h) := ⟨h1, Nat.le_refl _, h2⟩

/-- `Range.len` of a valid range -/
theorem len_valid {r : Range} (hv : ValidR r) : Range.len r = .ok (r.2 - r.1 + 1) := by
  obtain ⟨h1, h2, h3⟩ := hv
  simp only [Range.len, checkedSub, h2, if_true, addU64]
  rw [if_pos (by omega)]

/-- `pop_head` on an `Inv` value: returns and removes the greatest member -/
theorem popHead_spec {rs : Ranges} (hi : RInv rs) :
    (rs = [] ∧ popHead rs = .ok (none, rs)) ∨
    ∃ h rs', popHead rs = .ok (some h, rs') ∧ RInv rs' ∧ mem rs h ∧ (∀ x, mem rs x → x ≤ h) ∧
      ∀ x, mem rs' x ↔ mem rs x ∧ x ≠ h := by
  rcases List.eq_nil_or_concat rs with rfl | ⟨ys, last, rfl⟩
  · left; exact ⟨rfl, rfl⟩
  · right
    rw [List.concat_eq_append] at hi ⊢
    have hv : ValidR last := inv_validR hi (by simp)
    obtain ⟨hys, _, hsep⟩ := inv_append.1 hi
    have hle := inv_le_last hi
    have hv' := hv
    obtain ⟨v1, v2, v3⟩ := hv'
    have hmemlast : mem (ys ++ [last]) last.2 := ⟨last, by simp, v2, Nat.le_refl _⟩
    have hmax : ∀ x, mem (ys ++ [last]) x → x ≤ last.2 := by
      rintro x ⟨y, hy, _, h2⟩; have := hle y hy; omega
    by_cases hl : last.2 - last.1 + 1 = 1
    · refine ⟨last.2, ys, ?_, hys, hmemlast, hmax, ?_⟩
      · simp [popHead, len_valid hv, hl]
      · intro x
        rw [mem_append, mem_singleton]
        constructor
        · intro hx
          refine ⟨Or.inl hx, ?_⟩
          obtain ⟨y, hy, _, h2⟩ := hx
          have := hsep y hy last (by simp); omega
        · rintro ⟨hx | hx, hne⟩
          · exact hx
          · omega
    · have hlt : last.1 < last.2 := by omega
      refine ⟨last.2, ys ++ [(last.1, last.2 - 1)], ?_, ?_, hmemlast, hmax, ?_⟩
      · simp only [popHead, List.getLast?_concat, len_valid hv, subU64, ok_bind, List.dropLast_concat]
        have h1 : (last.2 - last.1 + 1 == 1) = false := by simpa using hl
        rw [h1, if_neg (by simp), if_pos (by omega)]
        rfl
      · refine inv_append.2 ⟨hys, inv_singleton.2 ⟨v1, by simp; omega, by simp; omega⟩, ?_⟩
        intro x hx y hy
        simp at hy; subst hy
        exact hsep x hx last (by simp)
      · intro x
        rw [mem_append, mem_append, mem_singleton, mem_singleton]
        constructor
        · rintro (hx | hx)
          · refine ⟨Or.inl hx, ?_⟩
            obtain ⟨y, hy, _, h2⟩ := hx
            have := hsep y hy last (by simp); omega
          · simp at hx; exact ⟨Or.inr ⟨hx.1, by omega⟩, by omega⟩
        · rintro ⟨hx | hx, hne⟩
          · exact Or.inl hx
          · right; simp; omega

/-- the head is characterised by being the greatest member -/
theorem head_eq_some_iff {rs : Ranges} (hi : RInv rs) {x : Nat} :
    head rs = some x ↔ mem rs x ∧ ∀ h, mem rs h → h ≤ x := by
  constructor
  · exact head_spec hi
  · rintro ⟨hm, hmax⟩
    cases hh : head rs with
    | none => rw [head_eq_none_iff] at hh; subst hh; exact absurd hm (mem_nil x)
    | some y =>
      obtain ⟨hy, hymax⟩ := head_spec hi hh
      have := hmax y hy; have := hymax x hm
      congr 1; omega

theorem head_eq_none_iff' {rs : Ranges} (hi : RInv rs) : head rs = none ↔ ∀ x, ¬ mem rs x := by
  rw [head_eq_none_iff]
  constructor
  · rintro rfl; exact mem_nil
  · intro h
    cases rs with
    | nil => rfl
    | cons r rs =>
      exfalso
      have hv := inv_validR hi (r := r) (by simp)
      exact h r.1 ⟨r, by simp, Nat.le_refl _, hv.2.1⟩

/-- greatest `y < h` with `p y`, searched downwards -/
def findBelow (p : Nat → Bool) (h : Nat) : Option Nat := (List.range h).reverse.find? p

theorem findBelow_succ (p : Nat → Bool) (h : Nat) :
    findBelow p (h + 1) = if p h then some h else findBelow p h := by
  simp [findBelow, List.range_succ, List.find?_cons]
  cases p h <;> simp

theorem findBelow_spec (p : Nat → Bool) : ∀ h,
    match findBelow p h with
    | some y => y < h ∧ p y = true ∧ ∀ z, y < z → z < h → p z = false
    | none => ∀ z, z < h → p z = false
  | 0 => by simp [findBelow]
  | h + 1 => by
    rw [findBelow_succ]
    cases hp : p h
    · simp only [Bool.false_eq_true, if_false]
      have ih := findBelow_spec p h
      cases hf : findBelow p h with
      | none =>
        rw [hf] at ih
        intro z hz
        by_cases hzh : z = h
        · subst hzh; exact hp
        · exact ih z (by omega)
      | some y =>
        rw [hf] at ih
        refine ⟨by omega, ih.2.1, ?_⟩
        intro z h1 h2
        by_cases hzh : z = h
        · subst hzh; exact hp
        · exact ih.2.2 z h1 (by omega)
    · simp only [if_true]
      exact ⟨by omega, hp, fun z h1 h2 => by omega⟩

/-- head after inserting a valid range -/
theorem head_insert {rs rs' : Ranges} {r : Range} (hi' : RInv rs') (hi : RInv rs) (hv : ValidR r)
    (hm : ∀ h, mem rs' h ↔ mem rs h ∨ (r.1 ≤ h ∧ h ≤ r.2)) :
    head rs' = some (max r.2 ((head rs).getD 0)) := by
  rw [head_eq_some_iff hi']
  obtain ⟨v1, v2, v3⟩ := hv
  cases hh : head rs with
  | none =>
    have hn := (head_eq_none_iff' hi).1 hh
    simp only [Option.getD_none, Nat.max_zero]
    refine ⟨(hm _).2 (Or.inr ⟨v2, Nat.le_refl _⟩), ?_⟩
    intro x hx
    rcases (hm x).1 hx with hx | hx
    · exact absurd hx (hn x)
    · exact hx.2
  | some y =>
    obtain ⟨hy, hymax⟩ := head_spec hi hh
    simp only [Option.getD_some]
    refine ⟨?_, ?_⟩
    · by_cases hc : y ≤ r.2
      · rw [Nat.max_eq_left hc]; exact (hm _).2 (Or.inr ⟨v2, Nat.le_refl _⟩)
      · rw [Nat.max_eq_right (by omega)]; exact (hm _).2 (Or.inl hy)
    · intro x hx
      rcases (hm x).1 hx with hx | hx
      · have := hymax x hx; omega
      · omega

/-- head after removing one stored height -/
theorem head_remove {rs rs' : Ranges} {h : Nat} (hi' : RInv rs') (hi : RInv rs)
    (hm : ∀ x, mem rs' x ↔ mem rs x ∧ x ≠ h) :
    head rs' = if head rs == some h then findBelow (fun x => contains rs x) h else head rs := by
  cases hh : head rs with
  | none =>
    have hn := (head_eq_none_iff' hi).1 hh
    simp only [beq_iff_eq, reduceCtorEq, if_false]
    rw [head_eq_none_iff' hi']
    intro x hx; exact hn x ((hm x).1 hx).1
  | some y =>
    obtain ⟨hy, hymax⟩ := head_spec hi hh
    by_cases hyh : y = h
    · subst hyh
      simp only [beq_self_eq_true, if_true]
      have hs := findBelow_spec (fun x => contains rs x) y
      cases hf : findBelow (fun x => contains rs x) y with
      | none =>
        rw [hf] at hs
        rw [head_eq_none_iff' hi']
        intro x hx
        obtain ⟨h1, h2⟩ := (hm x).1 hx
        have := hymax x h1
        have := hs x (by omega)
        exact (contains_false_iff rs x).1 this h1
      | some z =>
        rw [hf] at hs
        rw [head_eq_some_iff hi']
        refine ⟨(hm z).2 ⟨(contains_iff_mem rs z).1 hs.2.1, by omega⟩, ?_⟩
        intro x hx
        obtain ⟨h1, h2⟩ := (hm x).1 hx
        have := hymax x h1
        by_cases hzx : z < x
        · exact absurd h1 ((contains_false_iff rs x).1 (hs.2.2 x hzx (by omega)))
        · omega
    · have : (some y == some h) = false := by simp [hyh]
      rw [this]
      simp only [Bool.false_eq_true, if_false]
      rw [head_eq_some_iff hi']
      refine ⟨(hm y).2 ⟨hy, hyh⟩, fun x hx => hymax x ((hm x).1 hx).1⟩

end Lumina.Proofs.DaserRanges

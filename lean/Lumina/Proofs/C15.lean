/-
  Lemmas for C15: big-endian encode/decode round trips (`be`/`ofBe` for every width and value),
  and the per-kind statement "the model's decode = the spec's parse".
-/
import Lumina.Model.ShwapIdK
import Lumina.Props.C14

namespace Lumina.Proofs.C15
open Lumina.Util Lumina.Model.ShwapId Lumina.Spec.C15 Lumina.Gen.C15

theorem toNat_ofNat (n : Nat) : (UInt8.ofNat n).toNat = n % 256 := rfl

theorem foldl_acc (r : Bytes) : ∀ acc : Nat,
    r.foldl (fun acc b => acc * 256 + b.toNat) acc = acc * 256 ^ r.length + r.foldl (fun acc b => acc * 256 + b.toNat) 0 := by
  induction r with
  | nil => intro acc; simp
  | cons b r ih =>
    intro acc
    simp only [List.foldl_cons, List.length_cons]
    rw [ih (acc * 256 + b.toNat), ih (0 * 256 + b.toNat)]
    rw [Nat.pow_succ, Nat.add_mul, Nat.zero_mul, Nat.zero_add, Nat.mul_assoc, Nat.mul_comm 256 (256 ^ r.length), Nat.add_assoc]

theorem ofBe_cons (b : UInt8) (r : Bytes) : ofBe (b :: r) = b.toNat * 256 ^ r.length + ofBe r := by
  unfold ofBe
  simp only [List.foldl_cons]
  rw [foldl_acc r]
  simp

theorem ofBe_eq_beVal (bs : Bytes) : ofBe bs = beVal bs := by
  induction bs with
  | nil => rfl
  | cons b r ih => rw [ofBe_cons, beVal, ih]

theorem ofBe_lt (bs : Bytes) : ofBe bs < 256 ^ bs.length := by
  induction bs with
  | nil => simp [ofBe]
  | cons b r ih =>
    rw [ofBe_cons, List.length_cons, Nat.pow_succ]
    have hb : b.toNat < 256 := UInt8.toNat_lt b
    have : b.toNat * 256 ^ r.length ≤ 255 * 256 ^ r.length := Nat.mul_le_mul_right _ (by omega)
    omega

theorem be_length (w n : Nat) : (be w n).length = w := by
  induction w with
  | zero => rfl
  | succ w ih => simp [be, ih]

theorem ofBe_be (w n : Nat) : ofBe (be w n) = n % 256 ^ w := by
  induction w with
  | zero => simp [be, ofBe, Nat.mod_one]
  | succ w ih =>
    rw [be, ofBe_cons, be_length, ih, toNat_ofNat, Nat.pow_succ, Nat.mod_mul]
    rw [Nat.mod_mod_of_dvd _ (by decide : 256 ∣ 256)] 
    rw [Nat.mul_comm]; omega

theorem be_mod (w : Nat) : ∀ n, be w (n % 256 ^ w) = be w n := by
  induction w with
  | zero => intro n; rfl
  | succ w ih =>
    intro n
    simp only [be]
    congr 1
    · congr 1
      have hp : 0 < 256 ^ w := Nat.pow_pos (by decide)
      rw [Nat.pow_succ, Nat.mod_mul, Nat.mul_comm (256 ^ w), Nat.add_mul_div_right _ _ hp]
      rw [Nat.div_eq_of_lt (Nat.mod_lt _ hp), Nat.zero_add, Nat.mod_mod]
    · rw [← ih (n % 256 ^ (w + 1)), ← ih n]
      congr 1
      rw [Nat.pow_succ]
      exact Nat.mod_mul_right_mod n (256 ^ w) 256

theorem be_ofBe (bs : Bytes) : be bs.length (ofBe bs) = bs := by
  induction bs with
  | nil => rfl
  | cons b r ih =>
    rw [List.length_cons, be, ofBe_cons]
    congr 1
    · apply UInt8.toNat_inj.1
      have hp : 0 < 256 ^ r.length := Nat.pow_pos (by decide)
      rw [toNat_ofNat, Nat.add_comm, Nat.add_mul_div_right _ _ hp,
        Nat.div_eq_of_lt (ofBe_lt r), Nat.zero_add, Nat.mod_mod]
      exact Nat.mod_eq_of_lt (UInt8.toNat_lt b)
    · rw [← be_mod, Nat.add_comm, Nat.add_mul_mod_self_right, Nat.mod_eq_of_lt (ofBe_lt r), ih]

theorem be_ofBe' (w : Nat) (bs : Bytes) (h : bs.length = w) : be w (ofBe bs) = bs := by
  subst h; exact be_ofBe bs

/-- `Namespace::from_raw` accepts exactly the spec's valid shapes and returns the bytes -/
theorem fromRaw_iff (bs : Bytes) :
    Lumina.Model.Namespace.fromRaw bs = (if Lumina.Spec.C14.validRaw bs then .ok bs else
      Lumina.Model.Namespace.fromRaw bs) ∧
    (Lumina.Spec.C14.validRaw bs = false → ∃ e, Lumina.Model.Namespace.fromRaw bs = .error e) := by
  have h := Lumina.Props.C14.fromRaw_spec bs
  cases hr : Lumina.Model.Namespace.fromRaw bs with
  | ok x =>
    rw [hr] at h
    simp only [Lumina.Props.C14.obsOf, Lumina.Spec.C14.specFromRaw, Bool.and_eq_true, beq_iff_eq] at h
    obtain ⟨hv, hx⟩ := h
    subst hx
    simp [hv]
  | error e =>
    rw [hr] at h
    simp only [Lumina.Props.C14.obsOf, Lumina.Spec.C14.specFromRaw, Bool.not_eq_true'] at h
    simp [h]

def obsDecode (r : Except Err (Id × Bytes)) : Option (Id × Bytes) := r.toOption

theorem take_take_drop (buf : Bytes) (a b : Nat) : buf.take a ++ (buf.drop a).take b = buf.take (a + b) := by
  rw [List.take_add]

theorem eds_decode (buf : Bytes) (h : buf.length = 8) :
    EdsId.decode buf = if beVal buf = 0 then .error .zeroBlockHeight else .ok ⟨beVal buf⟩ := by
  unfold EdsId.decode EdsId.new
  simp only [EDS_ID_SIZE, h, ne_eq, not_true_eq_false, ↓reduceIte, ofBe_eq_beVal]

theorem decodeK_eds (buf : Bytes) : obsDecode (decodeK .eds buf) = (parse .eds buf).map (fun id => (id, buf)) := by
  unfold decodeK parse
  by_cases h : buf.length = 8
  · have ht : buf.take 8 = buf := by rw [← h]; exact List.take_length
    rw [eds_decode buf h]
    simp only [Kind.size, h, ne_eq, not_true_eq_false, ↓reduceIte, ht, Kind.hasRow, Kind.hasCol, Kind.hasNs,
      Bool.false_eq_true, Bool.false_and]
    by_cases hz : beVal buf = 0
    · simp [hz, obsDecode, Except.map, Except.toOption]
    · simp only [hz, ↓reduceIte, obsDecode, Except.map, Except.toOption, idOfEds, EdsId.encode, Option.map_some]
      rw [← ofBe_eq_beVal, be_ofBe' 8 buf h]
  · simp [EdsId.decode, EDS_ID_SIZE, Kind.size, h, obsDecode, Except.map, Except.toOption]

theorem row_decode (buf : Bytes) (h : buf.length = 10) :
    RowId.decode buf = if beVal (buf.take 8) = 0 then .error .zeroBlockHeight
      else .ok ⟨⟨beVal (buf.take 8)⟩, beVal ((buf.drop 8).take 2)⟩ := by
  unfold RowId.decode
  have h8 : (buf.take 8).length = 8 := by simp [h]
  simp only [ROW_ID_SIZE, h, ne_eq, not_true_eq_false, ↓reduceIte, EDS_ID_SIZE, eds_decode _ h8]
  by_cases hz : beVal (buf.take 8) = 0
  · simp [hz]
  · simp [hz, ofBe_eq_beVal]

theorem row_encode_decode (buf : Bytes) (h : 10 ≤ buf.length) :
    be 8 (beVal (buf.take 8)) ++ be 2 (beVal ((buf.drop 8).take 2)) = buf.take 10 := by
  rw [← ofBe_eq_beVal, ← ofBe_eq_beVal, be_ofBe' 8 _ (by simp; omega), be_ofBe' 2 _ (by simp; omega)]
  exact take_take_drop buf 8 2

theorem decodeK_row (buf : Bytes) : obsDecode (decodeK .row buf) = (parse .row buf).map (fun id => (id, buf)) := by
  unfold decodeK parse
  by_cases h : buf.length = 10
  · rw [row_decode buf h]
    have ht : buf.take 10 = buf := by rw [← h]; exact List.take_length
    simp only [Kind.size, h, ne_eq, not_true_eq_false, ↓reduceIte, Kind.hasRow, Kind.hasCol, Kind.hasNs,
      Bool.false_eq_true, Bool.false_and]
    by_cases hz : beVal (buf.take 8) = 0
    · simp [hz, obsDecode, Except.map, Except.toOption]
    · simp only [hz, ↓reduceIte, obsDecode, Except.map, Except.toOption, idOfRow, RowId.encode, EdsId.encode, Option.map_some]
      rw [row_encode_decode buf (by omega), ht]
  · simp [RowId.decode, ROW_ID_SIZE, Kind.size, h, obsDecode, Except.map, Except.toOption]

theorem take_take_of_le (buf : Bytes) (a b : Nat) (h : a ≤ b) : (buf.take b).take a = buf.take a := by
  rw [List.take_take, Nat.min_eq_left h]

theorem drop_take_take (buf : Bytes) : ((buf.take 10).drop 8).take 2 = (buf.drop 8).take 2 := by
  rw [List.drop_take]; simp [List.take_take]

theorem decodeK_sample (buf : Bytes) :
    obsDecode (decodeK .sample buf) = (parse .sample buf).map (fun id => (id, buf)) := by
  unfold decodeK parse
  by_cases h : buf.length = 12
  · have h10 : (buf.take 10).length = 10 := by simp [h]
    have ht : buf.take 12 = buf := by rw [← h]; exact List.take_length
    unfold SampleId.decode
    simp only [SAMPLE_ID_SIZE, ROW_ID_SIZE, h, ne_eq, not_true_eq_false, ↓reduceIte, row_decode _ h10,
      take_take_of_le buf 8 10 (by decide), drop_take_take,
      Kind.size, Kind.hasRow, Kind.hasCol, Kind.hasNs, Bool.false_eq_true, Bool.false_and]
    by_cases hz : beVal (buf.take 8) = 0
    · simp [hz, obsDecode, Except.map, Except.toOption]
    · simp only [hz, ↓reduceIte, obsDecode, Except.map, Except.toOption, idOfSample, SampleId.encode, RowId.encode, EdsId.encode,
        Option.map_some, ofBe_eq_beVal]
      have e : be 2 (beVal ((buf.drop 10).take 2)) = (buf.drop 10).take 2 := by
        rw [← ofBe_eq_beVal, be_ofBe' 2 _ (by simp; omega)]
      rw [row_encode_decode buf (by omega), e, take_take_drop buf 10 2, ht]
  · simp [SampleId.decode, SAMPLE_ID_SIZE, Kind.size, h, obsDecode, Except.map, Except.toOption]

theorem decodeK_rnd (buf : Bytes) :
    obsDecode (decodeK .rowNsData buf) = (parse .rowNsData buf).map (fun id => (id, buf)) := by
  unfold decodeK parse
  by_cases h : buf.length = 39
  · have h10 : (buf.take 10).length = 10 := by simp [h]
    unfold RowNamespaceDataId.decode
    simp only [ROW_NAMESPACE_DATA_ID_SIZE, ROW_ID_SIZE, h, ne_eq, not_true_eq_false, ↓reduceIte, row_decode _ h10,
      take_take_of_le buf 8 10 (by decide), drop_take_take,
      Kind.size, Kind.hasRow, Kind.hasCol, Kind.hasNs, Bool.false_eq_true, Bool.true_and]
    by_cases hz : beVal (buf.take 8) = 0
    · simp [hz, obsDecode, Except.map, Except.toOption]
    · simp only [hz, ↓reduceIte]
      obtain ⟨hf1, hf2⟩ := fromRaw_iff (buf.drop 10)
      by_cases hv : Lumina.Spec.C14.validRaw (buf.drop 10) = true
      · rw [hf1]
        simp only [hv, ↓reduceIte, obsDecode, Except.map, Except.toOption, idOfRnd, RowNamespaceDataId.encode, RowId.encode, EdsId.encode,
          Bool.not_true, Bool.false_eq_true, Option.map_some]
        rw [row_encode_decode buf (by omega), List.take_append_drop]
      · have hv' : Lumina.Spec.C14.validRaw (buf.drop 10) = false := by simpa using hv
        obtain ⟨e, he⟩ := hf2 hv'
        simp [he, hv', obsDecode, Except.map, Except.toOption]
  · simp [RowNamespaceDataId.decode, ROW_NAMESPACE_DATA_ID_SIZE, Kind.size, h, obsDecode, Except.map, Except.toOption]

theorem decodeK_nd (buf : Bytes) :
    obsDecode (decodeK .nsData buf) = (parse .nsData buf).map (fun id => (id, buf)) := by
  unfold decodeK parse
  by_cases h : buf.length = 37
  · have h8 : (buf.take 8).length = 8 := by simp [h]
    unfold NamespaceDataId.decode
    simp only [NAMESPACE_DATA_ID_SIZE, EDS_ID_SIZE, h, ne_eq, not_true_eq_false, ↓reduceIte, eds_decode _ h8,
      Kind.size, Kind.hasRow, Kind.hasCol, Kind.hasNs, Bool.false_eq_true, Bool.true_and]
    by_cases hz : beVal (buf.take 8) = 0
    · simp [hz, obsDecode, Except.map, Except.toOption]
    · simp only [hz, ↓reduceIte]
      obtain ⟨hf1, hf2⟩ := fromRaw_iff (buf.drop 8)
      by_cases hv : Lumina.Spec.C14.validRaw (buf.drop 8) = true
      · rw [hf1]
        simp only [hv, ↓reduceIte, obsDecode, Except.map, Except.toOption, idOfNd, NamespaceDataId.encode, EdsId.encode,
          Bool.not_true, Bool.false_eq_true, Option.map_some]
        rw [← ofBe_eq_beVal, be_ofBe' 8 _ h8, List.take_append_drop]
      · have hv' : Lumina.Spec.C14.validRaw (buf.drop 8) = false := by simpa using hv
        obtain ⟨e, he⟩ := hf2 hv'
        simp [he, hv', obsDecode, Except.map, Except.toOption]
  · simp [NamespaceDataId.decode, NAMESPACE_DATA_ID_SIZE, Kind.size, h, obsDecode, Except.map, Except.toOption]

theorem decodeK_eq_parse (k : Kind) (buf : Bytes) :
    obsDecode (decodeK k buf) = (parse k buf).map (fun id => (id, buf)) := by
  cases k
  · exact decodeK_eds buf
  · exact decodeK_row buf
  · exact decodeK_sample buf
  · exact decodeK_rnd buf
  · exact decodeK_nd buf

theorem beVal_be (w n : Nat) (h : n < 256 ^ w) : beVal (be w n) = n := by
  rw [← ofBe_eq_beVal, ofBe_be, Nat.mod_eq_of_lt h]

theorem take_be_append (w n : Nat) (r : Bytes) : (be w n ++ r).take w = be w n := by
  rw [List.take_append_of_le_length (by rw [be_length]; exact Nat.le_refl _), List.take_of_length_le (by rw [be_length]; exact Nat.le_refl _)]

theorem drop_be_append (w n : Nat) (r : Bytes) : (be w n ++ r).drop w = r := by
  rw [List.drop_append_of_le_length (by rw [be_length]; exact Nat.le_refl _), List.drop_of_length_le (by rw [be_length]; exact Nat.le_refl _)]
  rfl


def obsCid (r : Option (Except CidErr Id)) : Option Id := r.bind Except.toOption

theorem map_pair_eq_some {id : Id} {buf re : Bytes} {o : Option Id}
    (h : some (id, re) = o.map (fun i => (i, buf))) : o = some id := by
  cases o with
  | none => simp at h
  | some j => simp at h; simp [h.1]

theorem map_pair_eq_none {buf : Bytes} {o : Option Id}
    (h : (none : Option (Id × Bytes)) = o.map (fun i => (i, buf))) : o = none := by
  cases o with
  | none => rfl
  | some j => simp at h

theorem decode_row_parse (buf : Bytes) :
    ((RowId.decode buf).map idOfRow).toOption = parse .row buf := by
  have := decodeK_eq_parse .row buf
  cases hd : RowId.decode buf with
  | ok x => simp only [decodeK, hd, obsDecode, Except.map, Except.toOption] at this; exact (map_pair_eq_some this).symm
  | error e => simp only [decodeK, hd, obsDecode, Except.map, Except.toOption] at this; exact (map_pair_eq_none this).symm

theorem decode_sample_parse (buf : Bytes) :
    ((SampleId.decode buf).map idOfSample).toOption = parse .sample buf := by
  have := decodeK_eq_parse .sample buf
  cases hd : SampleId.decode buf with
  | ok x => simp only [decodeK, hd, obsDecode, Except.map, Except.toOption] at this; exact (map_pair_eq_some this).symm
  | error e => simp only [decodeK, hd, obsDecode, Except.map, Except.toOption] at this; exact (map_pair_eq_none this).symm

theorem decode_rnd_parse (buf : Bytes) :
    ((RowNamespaceDataId.decode buf).map idOfRnd).toOption =
      parse .rowNsData buf := by
  have := decodeK_eq_parse .rowNsData buf
  cases hd : RowNamespaceDataId.decode buf with
  | ok x => simp only [decodeK, hd, obsDecode, Except.map, Except.toOption] at this; exact (map_pair_eq_some this).symm
  | error e => simp only [decodeK, hd, obsDecode, Except.map, Except.toOption] at this; exact (map_pair_eq_none this).symm

/-- the common `TryFrom<CidGeneric>` shape accepts exactly: right codec, right multihash code and a
    digest the spec's `parse` accepts (which includes the length) -/
theorem ofCid_generic {α : Type} (k : Kind) (codec mh : Nat) (decode : Bytes → Except Err α) (f : α → Id)
    (hdec : ∀ buf, ((decode buf).map f).toOption = parse k buf) (c : Cid) :
    obsCid (some ((Lumina.Model.ShwapId.ofCid codec k.size mh decode c).map f)) =
      if c.codec = codec ∧ c.mhCode = mh then parse k c.digest else none := by
  unfold Lumina.Model.ShwapId.ofCid
  by_cases h1 : c.codec = codec
  · by_cases h2 : c.digest.length = k.size
    · by_cases h3 : c.mhCode = mh
      · have := hdec c.digest
        simp only [h1, h2, h3, ne_eq, not_true_eq_false, ↓reduceIte, and_self]
        cases hd : decode c.digest with
        | ok x => rw [hd] at this; simp [obsCid, Except.map, Except.toOption, Option.bind, ← this]
        | error e => rw [hd] at this; simp [obsCid, Except.map, Except.toOption, Option.bind, ← this]
      · simp [h1, h2, h3, obsCid, Except.map, Except.toOption, Option.bind]
    · have : parse k c.digest = none := by simp [parse, h2]
      simp [h1, h2, obsCid, Except.map, Except.toOption, Option.bind, this]
  · simp [h1, obsCid, Except.map, Except.toOption, Option.bind]

/-- `TryFrom<CidGeneric>` per kind, against the property's literal codec / multihash code numbers -/
theorem ofCidK_eq (k : Kind) (c : Cid) :
    obsCid (ofCidK k c) =
      match k.cidCodes with
      | none => none
      | some (codec, code) => if c.codec = codec ∧ c.mhCode = code then parse k c.digest else none := by
  cases k with
  | eds => rfl
  | nsData => rfl
  | row =>
    exact ofCid_generic .row ROW_ID_CODEC ROW_ID_MULTIHASH_CODE RowId.decode idOfRow
      decode_row_parse c
  | sample =>
    exact ofCid_generic .sample SAMPLE_ID_CODEC SAMPLE_ID_MULTIHASH_CODE SampleId.decode idOfSample
      decode_sample_parse c
  | rowNsData =>
    exact ofCid_generic .rowNsData ROW_NAMESPACE_DATA_CODEC ROW_NAMESPACE_DATA_ID_MULTIHASH_CODE
      RowNamespaceDataId.decode idOfRnd
      decode_rnd_parse c

theorem read_toBytes_row (d : Bytes) (hd : d.length = 10) :
    Cid.read (Cid.toBytes ⟨1, 30720, 30721, d⟩) = some ⟨1, 30720, 30721, d⟩ := by
  have e1 : varint 1 = [1] := by decide
  have e2 : varint 30720 = [0x80, 0xF0, 0x01] := by decide
  have e3 : varint 30721 = [0x81, 0xF0, 0x01] := by decide
  have e4 : varint 10 = [10] := by decide
  simp only [Cid.toBytes, hd, e1, e2, e3, e4, List.cons_append, List.nil_append]
  simp [Cid.read, readVarint, readVarintGo, hd]
  rw [← hd]; exact List.take_length

theorem read_toBytes_sample (d : Bytes) (hd : d.length = 12) :
    Cid.read (Cid.toBytes ⟨1, 30736, 30737, d⟩) = some ⟨1, 30736, 30737, d⟩ := by
  have e1 : varint 1 = [1] := by decide
  have e2 : varint 30736 = [0x90, 0xF0, 0x01] := by decide
  have e3 : varint 30737 = [0x91, 0xF0, 0x01] := by decide
  have e4 : varint 12 = [12] := by decide
  simp only [Cid.toBytes, hd, e1, e2, e3, e4, List.cons_append, List.nil_append]
  simp [Cid.read, readVarint, readVarintGo, hd]
  rw [← hd]; exact List.take_length

theorem read_toBytes_rnd (d : Bytes) (hd : d.length = 39) :
    Cid.read (Cid.toBytes ⟨1, 30752, 30753, d⟩) = some ⟨1, 30752, 30753, d⟩ := by
  have e1 : varint 1 = [1] := by decide
  have e2 : varint 30752 = [0xA0, 0xF0, 0x01] := by decide
  have e3 : varint 30753 = [0xA1, 0xF0, 0x01] := by decide
  have e4 : varint 39 = [39] := by decide
  simp only [Cid.toBytes, hd, e1, e2, e3, e4, List.cons_append, List.nil_append]
  simp [Cid.read, readVarint, readVarintGo, hd]
  rw [← hd]; exact List.take_length

/-- ids whose fields have the Rust types (u64 height, u16 indices, validated namespace); the
    height may be 0 -/
def WellTyped (id : Id) : Prop :=
  id.height < 2 ^ 64 ∧
  (if id.kind.hasRow then id.row < 2 ^ 16 else id.row = 0) ∧
  (if id.kind.hasCol then id.col < 2 ^ 16 else id.col = 0) ∧
  (if id.kind.hasNs then Lumina.Spec.C14.validRaw id.ns = true else id.ns = [])

/-- the model's observation of construct → encode → decode → CID → back → re-read -/
def obsNew (id : Id) : NewObs :=
  match newK id with
  | .error _ => .err
  | .ok (bytes, cid) =>
    .ok bytes ((obsDecode (decodeK id.kind bytes)).map Prod.fst) (cid.map cidObs)
      (cid.bind (fun c => obsCid (ofCidK id.kind c)))
      (cid.bind (fun c => (Cid.read c.toBytes).bind (fun c' => obsCid (ofCidK id.kind c'))))

theorem validRaw_length (ns : Bytes) (h : Lumina.Spec.C14.validRaw ns = true) : ns.length = 29 := by
  simp only [Lumina.Spec.C14.validRaw, Lumina.Spec.C14.validV0, Lumina.Spec.C14.validV255, Bool.or_eq_true,
    Bool.and_eq_true, beq_iff_eq] at h
  rcases h with h | h <;> exact h.1.1

theorem parse_eds (h : Nat) (hh : h < 2 ^ 64) (h0 : h ≠ 0) : parse .eds (be 8 h) = some ⟨.eds, h, 0, 0, []⟩ := by
  unfold parse
  have e : (be 8 h).take 8 = be 8 h := List.take_of_length_le (by rw [be_length]; exact Nat.le_refl _)
  simp only [be_length, Kind.size, ne_eq, not_true_eq_false, ↓reduceIte, e, beVal_be 8 h (by simpa using hh), h0,
    Kind.hasRow, Kind.hasCol, Kind.hasNs, Bool.false_eq_true, Bool.false_and]

theorem parse_row (h r : Nat) (hh : h < 2 ^ 64) (h0 : h ≠ 0) (hr : r < 2 ^ 16) :
    parse .row (be 8 h ++ be 2 r) = some ⟨.row, h, r, 0, []⟩ := by
  unfold parse
  have hl : (be 8 h ++ be 2 r).length = 10 := by simp [be_length]
  simp only [hl, Kind.size, ne_eq, not_true_eq_false, ↓reduceIte, take_be_append, drop_be_append,
    Kind.hasRow, Kind.hasCol, Kind.hasNs, Bool.false_eq_true, Bool.false_and]
  have e2 : (be 2 r).take 2 = be 2 r := List.take_of_length_le (by rw [be_length]; exact Nat.le_refl _)
  rw [e2, beVal_be 8 h (by simpa using hh), beVal_be 2 r (by simpa using hr)]
  simp [h0]

theorem drop10 (h r : Nat) (x : Bytes) : (be 8 h ++ be 2 r ++ x).drop 10 = x := by
  rw [List.drop_append_of_le_length (by simp [be_length])]
  rw [List.drop_of_length_le (by simp [be_length])]; rfl

theorem parse_sample (h r c : Nat) (hh : h < 2 ^ 64) (h0 : h ≠ 0) (hr : r < 2 ^ 16) (hc : c < 2 ^ 16) :
    parse .sample (be 8 h ++ be 2 r ++ be 2 c) = some ⟨.sample, h, r, c, []⟩ := by
  unfold parse
  have hl : (be 8 h ++ be 2 r ++ be 2 c).length = 12 := by simp [be_length]
  have e3 := drop10 h r (be 2 c)
  simp only [hl, Kind.size, ne_eq, not_true_eq_false, ↓reduceIte, e3,
    Kind.hasRow, Kind.hasCol, Kind.hasNs, Bool.false_eq_true, Bool.false_and]
  simp only [List.append_assoc, take_be_append, drop_be_append]
  have e2 : (be 2 c).take 2 = be 2 c := List.take_of_length_le (by rw [be_length]; exact Nat.le_refl _)
  rw [e2, beVal_be 8 h (by simpa using hh), beVal_be 2 r (by simpa using hr), beVal_be 2 c (by simpa using hc)]
  simp [h0]

theorem parse_rnd (h r : Nat) (ns : Bytes) (hh : h < 2 ^ 64) (h0 : h ≠ 0) (hr : r < 2 ^ 16)
    (hns : Lumina.Spec.C14.validRaw ns = true) :
    parse .rowNsData (be 8 h ++ be 2 r ++ ns) = some ⟨.rowNsData, h, r, 0, ns⟩ := by
  unfold parse
  have hl : (be 8 h ++ be 2 r ++ ns).length = 39 := by simp [be_length, validRaw_length ns hns]
  have e3 := drop10 h r ns
  simp only [hl, Kind.size, ne_eq, not_true_eq_false, ↓reduceIte, Kind.hasRow, Kind.hasCol, Kind.hasNs,
    Bool.false_eq_true, Bool.true_and, e3, hns, Bool.not_true]
  simp only [List.append_assoc, take_be_append, drop_be_append]
  rw [beVal_be 8 h (by simpa using hh), beVal_be 2 r (by simpa using hr)]
  simp [h0]

theorem parse_nd (h : Nat) (ns : Bytes) (hh : h < 2 ^ 64) (h0 : h ≠ 0)
    (hns : Lumina.Spec.C14.validRaw ns = true) :
    parse .nsData (be 8 h ++ ns) = some ⟨.nsData, h, 0, 0, ns⟩ := by
  unfold parse
  have hl : (be 8 h ++ ns).length = 37 := by simp [be_length, validRaw_length ns hns]
  simp only [hl, Kind.size, ne_eq, not_true_eq_false, ↓reduceIte, Kind.hasRow, Kind.hasCol, Kind.hasNs,
    Bool.false_eq_true, Bool.true_and, take_be_append, drop_be_append, hns, Bool.not_true]
  rw [beVal_be 8 h (by simpa using hh)]
  simp [h0]

theorem back_of_parse (k : Kind) (enc : Bytes) (id : Id) (hp : parse k enc = some id) :
    (obsDecode (decodeK k enc)).map Prod.fst = some id := by
  rw [decodeK_eq_parse, hp]; rfl

theorem cidBack_of_parse (k : Kind) (codec code : Nat) (enc : Bytes) (id : Id) (hk : k.cidCodes = some (codec, code))
    (hp : parse k enc = some id) : obsCid (ofCidK k ⟨1, codec, code, enc⟩) = some id := by
  rw [ofCidK_eq, hk]
  simp [hp]


end Lumina.Proofs.C15

/-
  Multi-leaf range proofs of the nmt-rs model, part 1: arithmetic of `compute_tree_size`.

  * `treeSizeOf e t = (e / 2^t + 1) · 2^t`: the candidate sizes `compute_tree_size` runs through.
  * `computeTreeSize_fwd`: the loop SUCCEEDS (forward direction; `computeTreeSize_char` in `NmtRange.lean` is the inversion)
    whenever some `t` has the requested number of zero bits and the candidate size stays below `u32::MAX`.
  * `Compat n size r`: the verifier's derived tree of `size` leaves has the same shape as the real tree of `n` leaves
    along the path to leaf `r` (the last leaf of the range).  The derived size is in general NOT the real size
    (6 leaves, range 0..1: three right siblings, derived size 8).
  * `nRight_compat`: the size derived from the real number of right siblings is compatible.
-/
import Lumina.Proofs.NmtRange

namespace Lumina.Proofs.NmtMulti
open Lumina.Util Lumina.Model.Nmt Lumina.Proofs.Nmt Lumina.Proofs.NmtRange

/-- candidate tree size after filling the low `t` bits of the last index `e` -/
def treeSizeOf (e t : Nat) : Nat := (e / 2 ^ t + 1) * 2 ^ t

theorem treeSizeOf_zero (e : Nat) : treeSizeOf e 0 = e + 1 := by simp [treeSizeOf]

theorem div_pow_succ (e t : Nat) : e / 2 ^ (t + 1) = e / 2 ^ t / 2 := by
  rw [Nat.div_div_eq_div_mul, Nat.pow_succ]

theorem ts_even (h P : Nat) : (h + 1) * (P * 2) = (2 * h + 1) * P + P := by
  have e1 : (h + 1) * (P * 2) = 2 * (h * P) + 2 * P := by
    rw [Nat.add_mul, Nat.one_mul, ← Nat.mul_assoc, Nat.mul_comm (h * P) 2, Nat.mul_comm P 2]
  have e2 : (2 * h + 1) * P = 2 * (h * P) + P := by rw [Nat.add_mul, Nat.mul_assoc, Nat.one_mul]
  rw [e1, e2]; omega

theorem ts_odd (h P : Nat) : (h + 1) * (P * 2) = (2 * h + 1 + 1) * P := by
  have e1 : (h + 1) * (P * 2) = 2 * (h * P) + 2 * P := by
    rw [Nat.add_mul, Nat.one_mul, ← Nat.mul_assoc, Nat.mul_comm (h * P) 2, Nat.mul_comm P 2]
  have e2 : (2 * h + 1 + 1) * P = 2 * (h * P) + P + P := by
    rw [Nat.add_mul, Nat.add_mul, Nat.mul_assoc, Nat.one_mul]
  rw [e1, e2]; omega

/-- one more bit: the candidate grows iff the bit is zero -/
theorem treeSizeOf_succ (e t : Nat) :
    treeSizeOf e (t + 1) = treeSizeOf e t + (if (e / 2 ^ t) % 2 = 0 then 2 ^ t else 0) := by
  unfold treeSizeOf
  rw [div_pow_succ, Nat.pow_succ]
  generalize e / 2 ^ t = q
  generalize 2 ^ t = P
  by_cases h : q % 2 = 0
  · simp only [h, ↓reduceIte]
    have hq : q = 2 * (q / 2) := by omega
    rw [ts_even, ← hq]
  · simp only [h, ↓reduceIte, Nat.add_zero]
    have hq : q = 2 * (q / 2) + 1 := by omega
    rw [ts_odd, ← hq]

theorem treeSizeOf_mono (e : Nat) : ∀ (d t : Nat), treeSizeOf e t ≤ treeSizeOf e (t + d) := by
  intro d
  induction d with
  | zero => intro t; exact Nat.le_refl _
  | succ d ih =>
    intro t
    have h1 := ih t
    have h2 := treeSizeOf_succ e (t + d)
    have : t + (d + 1) = t + d + 1 := by omega
    rw [this, h2]; omega

theorem zerosLow_mono (e : Nat) : ∀ (d t : Nat), zerosLow e t ≤ zerosLow e (t + d) := by
  intro d
  induction d with
  | zero => intro t; exact Nat.le_refl _
  | succ d ih =>
    intro t
    have h1 := ih t
    have : t + (d + 1) = t + d + 1 := by omega
    rw [this, zerosLow_succ']; omega

/-- candidates with the same number of filled zero bits are equal (the bits in between are ones) -/
theorem treeSizeOf_eq_of_zeros (e : Nat) : ∀ (d t : Nat), zerosLow e (t + d) = zerosLow e t →
    treeSizeOf e (t + d) = treeSizeOf e t := by
  intro d
  induction d with
  | zero => intro t _; rfl
  | succ d ih =>
    intro t h
    have e1 : t + (d + 1) = t + 1 + d := by omega
    rw [e1] at h ⊢
    have hm := zerosLow_mono e d (t + 1)
    have hs := zerosLow_succ' t e
    have hbit : ¬ ((e / 2 ^ t) % 2 = 0) := by
      intro hb; rw [if_pos hb] at hs; omega
    rw [if_neg hbit] at hs
    rw [ih (t + 1) (by omega), treeSizeOf_succ, if_neg hbit]; rfl

theorem treeSizeOf_eq_of_zeros' (e a b : Nat) (h : zerosLow e a = zerosLow e b) : treeSizeOf e a = treeSizeOf e b := by
  rcases Nat.le_total a b with hab | hab
  · obtain ⟨d, rfl⟩ : ∃ d, b = a + d := ⟨b - a, by omega⟩
    exact (treeSizeOf_eq_of_zeros e d a h.symm).symm
  · obtain ⟨d, rfl⟩ : ∃ d, a = b + d := ⟨a - b, by omega⟩
    exact treeSizeOf_eq_of_zeros e d b h

theorem two_pow_le_treeSizeOf (e t : Nat) : 2 ^ t ≤ treeSizeOf e t := by
  unfold treeSizeOf
  have : 1 * 2 ^ t ≤ (e / 2 ^ t + 1) * 2 ^ t := Nat.mul_le_mul_right _ (Nat.le_add_left 1 _)
  omega

theorem lt_treeSizeOf (e t : Nat) : e < treeSizeOf e t := by
  have := treeSizeOf_mono e t 0
  rw [treeSizeOf_zero, Nat.zero_add] at this; omega

/-- **the loop of `compute_tree_size` succeeds**: started at bit `t0` with `rem` zero bits still to fill, when some
    `t0 + d` has exactly that many more zero bits and its candidate size is at most `u32::MAX` -/
theorem computeTreeSizeAux_fwd (e : Nat) : ∀ (d t0 rem fuel : Nat),
    zerosLow e (t0 + d) = zerosLow e t0 + rem → treeSizeOf e (t0 + d) ≤ U32_MAX → d < fuel →
    ∃ t2, computeTreeSizeAux fuel rem (treeSizeOf e t0 - 1) (2 ^ t0) = .ok (treeSizeOf e t2) ∧
      zerosLow e t2 = zerosLow e t0 + rem := by
  intro d
  induction d with
  | zero =>
    intro t0 rem fuel hz _ hf
    obtain ⟨f, rfl⟩ : ∃ f, fuel = f + 1 := ⟨fuel - 1, by omega⟩
    have hr : rem = 0 := by simp at hz; omega
    subst hr
    refine ⟨t0, ?_, by simp⟩
    have := two_pow_le_treeSizeOf e t0
    have : 1 ≤ 2 ^ t0 := Nat.one_le_two_pow
    unfold computeTreeSizeAux
    simp only [↓reduceIte, Except.ok.injEq]; omega
  | succ d ih =>
    intro t0 rem fuel hz hT hf
    obtain ⟨f, rfl⟩ : ∃ f, fuel = f + 1 := ⟨fuel - 1, by omega⟩
    have hpt : 1 ≤ 2 ^ t0 := Nat.one_le_two_pow
    have hge := two_pow_le_treeSizeOf e t0
    by_cases hr : rem = 0
    · subst hr
      refine ⟨t0, ?_, by simp⟩
      unfold computeTreeSizeAux
      simp only [↓reduceIte, Except.ok.injEq]; omega
    · have e1 : t0 + (d + 1) = t0 + 1 + d := by omega
      rw [e1] at hz hT
      -- bounds: 2^(t0+1) ≤ candidate ≤ u32::MAX, so the mask does not wrap
      have hmono := treeSizeOf_mono e d (t0 + 1)
      have hge1 := two_pow_le_treeSizeOf e (t0 + 1)
      have ht32 : t0 + 1 < 64 := by
        have : 2 ^ (t0 + 1) < 2 ^ 64 := by simp [U32_MAX] at hT; omega
        exact (Nat.pow_lt_pow_iff_right (by omega)).mp this
      have hmask : 2 ^ t0 * 2 % USIZE_MOD = 2 ^ (t0 + 1) := by
        rw [← Nat.pow_succ]
        apply Nat.mod_eq_of_lt
        have : 2 ^ (t0 + 1) < 2 ^ 64 := Nat.pow_lt_pow_right (by omega) ht32
        simpa [USIZE_MOD] using this
      have hdiv : (treeSizeOf e t0 - 1) / 2 ^ t0 = e / 2 ^ t0 := by
        have : treeSizeOf e t0 - 1 = (e / 2 ^ t0) * 2 ^ t0 + (2 ^ t0 - 1) := by
          unfold treeSizeOf; rw [Nat.add_mul]; omega
        rw [this]; exact fill_div _ _ hpt
      have hs := treeSizeOf_succ e t0
      have hzs := zerosLow_succ' t0 e
      unfold computeTreeSizeAux
      have hm0 : ¬ (2 ^ t0 = 0) := by omega
      simp only [hr, ↓reduceIte, hm0, hdiv, hmask]
      by_cases hb : (e / 2 ^ t0) % 2 = 0
      · rw [if_pos hb] at hs hzs
        simp only [hb, beq_self_eq_true, ↓reduceIte]
        have hidx : treeSizeOf e t0 - 1 + 2 ^ t0 = treeSizeOf e (t0 + 1) - 1 := by omega
        have hne : ¬ (treeSizeOf e (t0 + 1) - 1 = U32_MAX) := by omega
        rw [hidx]
        simp only [hne, ↓reduceIte]
        obtain ⟨t2, h1, h2⟩ := ih (t0 + 1) (rem - 1) f (by omega) hT (by omega)
        exact ⟨t2, h1, by omega⟩
      · rw [if_neg hb] at hs hzs
        have h1' : (e / 2 ^ t0) % 2 = 1 := by omega
        have hbq : ((1 : Nat) == 0) = false := rfl
        simp only [h1', hbq, Bool.false_eq_true, ↓reduceIte]
        have hne : ¬ (treeSizeOf e t0 - 1 = U32_MAX) := by omega
        simp only [hne, ↓reduceIte]
        have hidx : treeSizeOf e t0 - 1 = treeSizeOf e (t0 + 1) - 1 := by omega
        rw [hidx]
        obtain ⟨t2, h1, h2⟩ := ih (t0 + 1) rem f (by omega) hT (by omega)
        exact ⟨t2, h1, by omega⟩

/-- `compute_tree_size(c, e)` returns the candidate of any `t` with `c` zero bits below it, provided that candidate
    is at most `u32::MAX` -/
theorem computeTreeSize_fwd {c e t : Nat} (hz : zerosLow e t = c) (hT : treeSizeOf e t ≤ U32_MAX) (ht : t < 70) :
    computeTreeSize c e = .ok (treeSizeOf e t) := by
  obtain ⟨t2, h1, h2⟩ := computeTreeSizeAux_fwd e t 0 c (c + 70) (by simpa [zerosLow] using hz)
    (by simpa using hT) (by omega)
  unfold computeTreeSize
  have h0 : treeSizeOf e 0 - 1 = e := by rw [treeSizeOf_zero]; omega
  rw [h0] at h1
  simp only [Nat.pow_zero] at h1
  rw [h1]
  congr 1
  apply treeSizeOf_eq_of_zeros'
  simp [zerosLow] at h2
  omega

theorem split_pow (t u x : Nat) :
    2 ^ (t + u) + x = (2 ^ u + x / 2 ^ t) * 2 ^ t + x % 2 ^ t := by
  have hd := Nat.div_add_mod x (2 ^ t)
  rw [Nat.add_mul, ← Nat.pow_add, Nat.add_comm u t, Nat.mul_comm (x / 2 ^ t)]; omega

theorem zerosLow_add_pow (t u x : Nat) : zerosLow (2 ^ (t + u) + x) t = zerosLow x t := by
  have hml := Nat.mod_lt x (Nat.two_pow_pos t)
  rw [split_pow, zerosLow_add_mul t _ _ hml]
  have e2 : x = (x / 2 ^ t) * 2 ^ t + x % 2 ^ t := by
    have hd := Nat.div_add_mod x (2 ^ t)
    rw [Nat.mul_comm]; omega
  conv => rhs; rw [e2, zerosLow_add_mul t _ _ hml]

theorem treeSizeOf_add_pow (t u x : Nat) : treeSizeOf (2 ^ (t + u) + x) t = 2 ^ (t + u) + treeSizeOf x t := by
  unfold treeSizeOf
  have hdiv : (2 ^ (t + u) + x) / 2 ^ t = 2 ^ u + x / 2 ^ t := by
    rw [Nat.pow_add, Nat.mul_comm, Nat.add_comm, Nat.add_mul_div_right _ _ (Nat.two_pow_pos t), Nat.add_comm]
  rw [hdiv, Nat.add_assoc, Nat.add_mul, ← Nat.pow_add, Nat.add_comm u t]

/-! ### shape compatibility of the derived tree with the real tree -/

/-- the verifier's tree of `size` leaves splits like the real tree of `n` leaves on the way to (relative) leaf `r` -/
inductive Compat : Nat → Nat → Nat → Prop where
  | refl (n r : Nat) : Compat n n r
  | left {n size r : Nat} : 2 ≤ n → n ≤ size → nextSmallerPo2 size = nextSmallerPo2 n → r < nextSmallerPo2 n →
      Compat n size r
  | right {n size r : Nat} : 2 ≤ n → nextSmallerPo2 size = nextSmallerPo2 n → nextSmallerPo2 n ≤ r →
      Compat (n - nextSmallerPo2 n) (size - nextSmallerPo2 n) (r - nextSmallerPo2 n) → Compat n size r

theorem Compat.le {n size r : Nat} (h : Compat n size r) : n ≤ size := by
  induction h with
  | refl => exact Nat.le_refl _
  | left _ h _ _ => exact h
  | @right n size r h2 hs _ _ ih =>
    obtain ⟨m, hm, hlt, _⟩ := nextSmallerPo2_spec n h2
    omega

/-- `next_smaller_po2` is determined by the bracket `2^m < n ≤ 2^(m+1)` -/
theorem nextSmallerPo2_unique {n m : Nat} (h1 : 2 ^ m < n) (h2 : n ≤ 2 ^ (m + 1)) : nextSmallerPo2 n = 2 ^ m := by
  have hn : 2 ≤ n := by have : 1 ≤ 2 ^ m := Nat.one_le_two_pow; omega
  obtain ⟨m', hm', hlt, hle⟩ := nextSmallerPo2_spec n hn
  rw [hm']
  have a : m' < m + 1 := (Nat.pow_lt_pow_iff_right (by omega)).mp (Nat.lt_of_lt_of_le hlt h2)
  have b : m < m' + 1 := (Nat.pow_lt_pow_iff_right (by omega)).mp (Nat.lt_of_lt_of_le h1 hle)
  have : m' = m := by omega
  rw [this]

theorem nRight_fuel : ∀ (f f' e size : Nat), size ≤ f → size ≤ f' → nRight f e size = nRight f' e size := by
  intro f
  induction f with
  | zero =>
    intro f' e size h _
    have : size = 0 := by omega
    subst this
    cases f' <;> simp [nRight]
  | succ f ih =>
    intro f' e size h h'
    by_cases h1 : size ≤ 1
    · cases f' <;> simp [nRight, h1]
    · obtain ⟨g, rfl⟩ : ∃ g, f' = g + 1 := ⟨f' - 1, by omega⟩
      obtain ⟨m, hm, hlt, _⟩ := nextSmallerPo2_spec size (by omega)
      have hp : 1 ≤ 2 ^ m := Nat.one_le_two_pow
      unfold nRight
      simp only [h1, ↓reduceIte]
      rw [ih g _ _ (by omega) (by omega), ih g e _ (by omega) (by omega)]

theorem nLeft_fuel : ∀ (f f' s size : Nat), size ≤ f → size ≤ f' → nLeft f s size = nLeft f' s size := by
  intro f
  induction f with
  | zero =>
    intro f' s size h _
    have : size = 0 := by omega
    subst this
    cases f' <;> simp [nLeft]
  | succ f ih =>
    intro f' s size h h'
    by_cases h1 : size ≤ 1
    · cases f' <;> simp [nLeft, h1]
    · obtain ⟨g, rfl⟩ : ∃ g, f' = g + 1 := ⟨f' - 1, by omega⟩
      obtain ⟨m, hm, hlt, _⟩ := nextSmallerPo2_spec size (by omega)
      have hp : 1 ≤ 2 ^ m := Nat.one_le_two_pow
      unfold nLeft
      simp only [h1, ↓reduceIte]
      rw [ih g _ _ (by omega) (by omega), ih g s _ (by omega) (by omega)]

/-- **the derived size is compatible with the real tree**: in a real tree of `n` leaves, for the last index `r`, some
    bit position `t` has exactly as many zero bits below it as `r` has right siblings; the candidate size of that `t`
    is compatible with `n`, and is at most every power of two that is at least `n` -/
theorem nRight_compat : ∀ (n r : Nat), r < n →
    ∃ t, zerosLow r t = nRight n r n ∧ Compat n (treeSizeOf r t) r ∧ ∀ j, n ≤ 2 ^ j → treeSizeOf r t ≤ 2 ^ j := by
  intro n
  induction n using Nat.strongRecOn with
  | _ n ih =>
    intro r hr
    by_cases h1 : n = 1
    · subst h1
      have : r = 0 := by omega
      subst this
      refine ⟨0, by simp [zerosLow, nRight], ?_, ?_⟩
      · rw [treeSizeOf_zero]; exact Compat.refl _ _
      · intro j _; rw [treeSizeOf_zero]; exact Nat.one_le_two_pow
    · have h2 : 2 ≤ n := by omega
      obtain ⟨m, hm, hlt, hle⟩ := nextSmallerPo2_spec n h2
      have hp : 1 ≤ 2 ^ m := Nat.one_le_two_pow
      have hpow : 2 ^ (m + 1) = 2 * 2 ^ m := by rw [Nat.pow_succ]; omega
      obtain ⟨f, hf⟩ : ∃ f, n = f + 1 := ⟨n - 1, by omega⟩
      have hnr : nRight n r n = (if r ≥ 2 ^ m then nRight f (r - 2 ^ m) (n - 2 ^ m) else 1 + nRight f r (2 ^ m)) := by
        conv => lhs; rw [hf]; unfold nRight
        have : ¬ (f + 1 ≤ 1) := by omega
        rw [← hf]
        simp only [show ¬ (n ≤ 1) by omega, ↓reduceIte, hm]
      have hjm : ∀ j, n ≤ 2 ^ j → m + 1 ≤ j := by
        intro j hj
        have : 2 ^ m < 2 ^ j := by omega
        have := (Nat.pow_lt_pow_iff_right (by omega)).mp this
        omega
      by_cases hge : r ≥ 2 ^ m
      · -- the last leaf is in the right child
        obtain ⟨t, hz, hc, hb⟩ := ih (n - 2 ^ m) (by omega) (r - 2 ^ m) (by omega)
        have hTle : treeSizeOf (r - 2 ^ m) t ≤ 2 ^ m := hb m (by omega)
        have htm : t ≤ m := by
          have := two_pow_le_treeSizeOf (r - 2 ^ m) t
          have : 2 ^ t ≤ 2 ^ m := by omega
          exact (Nat.pow_le_pow_iff_right (by omega)).mp this
        obtain ⟨u, rfl⟩ : ∃ u, m = t + u := ⟨m - t, by omega⟩
        have hrr : 2 ^ (t + u) + (r - 2 ^ (t + u)) = r := by omega
        have hz' : zerosLow r t = zerosLow (r - 2 ^ (t + u)) t := by
          have := zerosLow_add_pow t u (r - 2 ^ (t + u))
          rw [hrr] at this; exact this
        have hT : treeSizeOf r t = 2 ^ (t + u) + treeSizeOf (r - 2 ^ (t + u)) t := by
          have := treeSizeOf_add_pow t u (r - 2 ^ (t + u))
          rw [hrr] at this; exact this
        refine ⟨t, ?_, ?_, ?_⟩
        · rw [hz', hz, hnr, if_pos hge]
          exact nRight_fuel _ _ _ _ (Nat.le_refl _) (by omega)
        · rw [hT]
          have hcle := hc.le
          by_cases heq : treeSizeOf (r - 2 ^ (t + u)) t = n - 2 ^ (t + u)
          · rw [heq]
            have : 2 ^ (t + u) + (n - 2 ^ (t + u)) = n := by omega
            rw [this]; exact Compat.refl _ _
          · have hTpos : 1 ≤ treeSizeOf (r - 2 ^ (t + u)) t := by
              have := two_pow_le_treeSizeOf (r - 2 ^ (t + u)) t
              have : 1 ≤ 2 ^ t := Nat.one_le_two_pow
              omega
            have hsz : nextSmallerPo2 (2 ^ (t + u) + treeSizeOf (r - 2 ^ (t + u)) t) = 2 ^ (t + u) :=
              nextSmallerPo2_unique (by omega) (by omega)
            refine Compat.right h2 (by rw [hsz, hm]) (by rw [hm]; exact hge) ?_
            rw [hm]
            have : 2 ^ (t + u) + treeSizeOf (r - 2 ^ (t + u)) t - 2 ^ (t + u) = treeSizeOf (r - 2 ^ (t + u)) t := by omega
            rw [this]; exact hc
        · intro j hj
          have := hjm j hj
          have : 2 ^ (t + u + 1) ≤ 2 ^ j := Nat.pow_le_pow_right (by omega) this
          rw [hT]; omega
      · -- the last leaf is in the (perfect) left child: one right sibling, then the zero bits of `r` below bit `m`
        have hrl : r < 2 ^ m := by omega
        have hT : treeSizeOf r (m + 1) = 2 ^ (m + 1) := by
          unfold treeSizeOf
          have : r / 2 ^ (m + 1) = 0 := Nat.div_eq_of_lt (by omega)
          rw [this]; omega
        refine ⟨m + 1, ?_, ?_, ?_⟩
        · rw [hnr, if_neg hge, nRight_perfect m f r (by omega) hrl, zerosLow_succ']
          have : r / 2 ^ m = 0 := Nat.div_eq_of_lt hrl
          simp [this]; omega
        · rw [hT]
          by_cases heq : n = 2 ^ (m + 1)
          · rw [← heq]; exact Compat.refl _ _
          · exact Compat.left h2 hle (by rw [nextSmallerPo2_pow, hm]) (by rw [hm]; exact hrl)
        · intro j hj
          rw [hT]
          exact Nat.pow_le_pow_right (by omega) (hjm j hj)

end Lumina.Proofs.NmtMulti

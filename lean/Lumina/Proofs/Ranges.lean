/-
  Lemmas about the `BlockRanges` model (`Lumina/Model/Ranges.lean`): membership, the
  representation invariant `Inv`, canonical form, `find_affected_ranges`, `insert_relaxed`,
  `remove_relaxed`, and the simple queries.  Shared with the store / pruner / syncer proofs.

  Core Lean only (no Mathlib).
-/
import Lumina.Model.Ranges

namespace Lumina.Proofs.Ranges
open Lumina.Model.Ranges hiding Inv

/-- `Inv` clashes with core's `_root_.Inv` once the model namespace is opened -/
local notation "RInv" => Lumina.Model.Ranges.Inv

/-! ### `Except` monad unfolding -/

theorem ok_bind {ε α β} (a : α) (f : α → Except ε β) : (Except.ok a >>= f) = f a := rfl
theorem err_bind {ε α β} (e : ε) (f : α → Except ε β) :
    ((Except.error e : Except ε α) >>= f) = Except.error e := rfl
theorem map_ok {ε α β} (a : α) (f : α → β) : (f <$> (Except.ok a : Except ε α)) = Except.ok (f a) := rfl
theorem map_err {ε α β} (e : ε) (f : α → β) : (f <$> (Except.error e : Except ε α)) = Except.error e := rfl
theorem pure_eq {ε α} (a : α) : (pure a : Except ε α) = Except.ok a := rfl
theorem throw_eq {ε α} (e : ε) : (throw e : Except ε α) = Except.error e := rfl

attribute [local simp] ok_bind err_bind map_ok map_err pure_eq throw_eq

/-! ### basic vocabulary -/

/-- a valid block range inside `u64` -/
def ValidR (r : Range) : Prop := 1 ≤ r.1 ∧ r.1 ≤ r.2 ∧ r.2 ≤ U64_MAX

/-- `x` overlaps `r` or is adjacent to it -/
def touches (x r : Range) : Bool := !(decide (x.2 + 1 < r.1)) && !(decide (r.2 + 1 < x.1))

theorem valid_iff (r : Range) : Range.valid r = true ↔ 1 ≤ r.1 ∧ r.1 ≤ r.2 := by
  simp [Range.valid]; omega

theorem ValidR.valid {r : Range} (h : ValidR r) : Range.valid r = true :=
  (valid_iff r).2 ⟨h.1, h.2.1⟩

theorem validate_ok {r : Range} (h : Range.valid r = true) : Range.validate r = .ok () := by
  simp [Range.validate, h]

theorem validate_err {r : Range} (h : Range.valid r = false) : Range.validate r = .error (.invalid r) := by
  simp [Range.validate, h]

theorem memB_iff_mem (rs : Ranges) (h : Nat) : memB rs h = true ↔ mem rs h := by
  simp [memB, mem]

theorem contains_iff_mem (rs : Ranges) (h : Nat) : contains rs h = true ↔ mem rs h := by
  simp [contains, Range.contains, mem]

theorem mem_nil (h : Nat) : ¬ mem [] h := by simp [mem]

theorem mem_cons (r : Range) (rs : Ranges) (h : Nat) :
    mem (r :: rs) h ↔ (r.1 ≤ h ∧ h ≤ r.2) ∨ mem rs h := by
  simp [mem]

theorem mem_append (a b : Ranges) (h : Nat) : mem (a ++ b) h ↔ mem a h ∨ mem b h := by
  simp only [mem, List.mem_append]
  constructor
  · rintro ⟨r, hr | hr, hh⟩
    · exact Or.inl ⟨r, hr, hh⟩
    · exact Or.inr ⟨r, hr, hh⟩
  · rintro (⟨r, hr, hh⟩ | ⟨r, hr, hh⟩)
    · exact ⟨r, Or.inl hr, hh⟩
    · exact ⟨r, Or.inr hr, hh⟩

theorem mem_singleton (r : Range) (h : Nat) : mem [r] h ↔ (r.1 ≤ h ∧ h ≤ r.2) := by
  simp [mem]

/-! ### `Inv` -/

theorem inv_nil : RInv [] := ⟨List.Pairwise.nil, by simp [AllValid]⟩

theorem allValid_cons {r : Range} {rs : Ranges} :
    AllValid (r :: rs) ↔ (1 ≤ r.1 ∧ r.1 ≤ r.2 ∧ r.2 ≤ U64_MAX) ∧ AllValid rs := by
  simp [AllValid]

theorem allValid_append {a b : Ranges} : AllValid (a ++ b) ↔ AllValid a ∧ AllValid b := by
  simp only [AllValid, List.mem_append]
  constructor
  · intro h; exact ⟨fun r hr => h r (Or.inl hr), fun r hr => h r (Or.inr hr)⟩
  · rintro ⟨h1, h2⟩ r (hr | hr)
    · exact h1 r hr
    · exact h2 r hr

theorem inv_cons {r : Range} {rs : Ranges} :
    RInv (r :: rs) ↔ (∀ x ∈ rs, r.2 + 1 < x.1) ∧ ValidR r ∧ RInv rs := by
  simp only [Lumina.Model.Ranges.Inv, List.pairwise_cons, allValid_cons, ValidR]
  constructor
  · rintro ⟨⟨h1, h2⟩, h3, h4⟩; exact ⟨h1, h3, h2, h4⟩
  · rintro ⟨h1, h3, h2, h4⟩; exact ⟨⟨h1, h2⟩, h3, h4⟩

theorem inv_tail {r : Range} {rs : Ranges} (h : RInv (r :: rs)) : RInv rs := (inv_cons.1 h).2.2

theorem inv_validR {rs : Ranges} (h : RInv rs) {r : Range} (hr : r ∈ rs) : ValidR r := h.2 r hr

theorem inv_append {a b : Ranges} :
    RInv (a ++ b) ↔ RInv a ∧ RInv b ∧ ∀ x ∈ a, ∀ y ∈ b, x.2 + 1 < y.1 := by
  simp only [Lumina.Model.Ranges.Inv, List.pairwise_append, allValid_append]
  constructor
  · rintro ⟨⟨h1, h2, h3⟩, h4, h5⟩; exact ⟨⟨h1, h4⟩, ⟨h2, h5⟩, h3⟩
  · rintro ⟨⟨h1, h4⟩, ⟨h2, h5⟩, h3⟩; exact ⟨⟨h1, h2, h3⟩, h4, h5⟩

theorem inv_singleton {r : Range} : RInv [r] ↔ ValidR r := by
  simp [Lumina.Model.Ranges.Inv, AllValid, ValidR]

/-- every member of an `Inv` value is a height in `[1, u64::MAX]` -/
theorem mem_bounds {rs : Ranges} (hi : RInv rs) {h : Nat} (hm : mem rs h) : 1 ≤ h ∧ h ≤ U64_MAX := by
  obtain ⟨r, hr, h1, h2⟩ := hm
  have := hi.2 r hr
  omega

/-- in an `Inv` list the head range is the lowest -/
theorem inv_head_le {r : Range} {rs : Ranges} (hi : RInv (r :: rs)) :
    ∀ x ∈ r :: rs, r.1 ≤ x.1 ∧ r.2 ≤ x.2 := by
  intro x hx
  rcases List.mem_cons.1 hx with rfl | hx
  · exact ⟨Nat.le_refl _, Nat.le_refl _⟩
  · have h1 := (inv_cons.1 hi).1 x hx
    have h2 := (inv_cons.1 hi).2.1
    have h3 := hi.2 x (List.mem_cons_of_mem _ hx)
    unfold ValidR at h2
    omega

/-- in an `Inv` list the last range is the highest -/
theorem inv_le_last {rs : Ranges} {r : Range} (hi : RInv (rs ++ [r])) :
    ∀ x ∈ rs ++ [r], x.1 ≤ r.1 ∧ x.2 ≤ r.2 := by
  intro x hx
  rcases List.mem_append.1 hx with hx | hx
  · have h1 := (inv_append.1 hi).2.2 x hx r (by simp)
    have h2 := hi.2 r (by simp)
    have h3 := hi.2 x (List.mem_append_left _ hx)
    omega
  · simp at hx; subst hx; exact ⟨Nat.le_refl _, Nat.le_refl _⟩

/-! ### canonical form: an `Inv` representation is determined by the set it denotes -/

theorem canonical : ∀ {a b : Ranges}, RInv a → RInv b → (∀ h, mem a h ↔ mem b h) → a = b
  | [], [], _, _, _ => rfl
  | [], r :: rs, _, hb, hm => by
    have hv := (inv_cons.1 hb).2.1
    exact absurd ((hm r.1).2 ((mem_cons _ _ _).2 (Or.inl ⟨Nat.le_refl _, hv.2.1⟩))) (mem_nil _)
  | r :: rs, [], ha, _, hm => by
    have hv := (inv_cons.1 ha).2.1
    exact absurd ((hm r.1).1 ((mem_cons _ _ _).2 (Or.inl ⟨Nat.le_refl _, hv.2.1⟩))) (mem_nil _)
  | r :: rs, s :: ss, ha, hb, hm => by
    obtain ⟨ha1, hvr, ha3⟩ := inv_cons.1 ha
    obtain ⟨hb1, hvs, hb3⟩ := inv_cons.1 hb
    unfold ValidR at hvr hvs
    -- which range contains a member `h` of the other list's head
    have key : ∀ (p q : Range) (ps qs : Ranges), RInv (p :: ps) → RInv (q :: qs) →
        (∀ h, mem (p :: ps) h → mem (q :: qs) h) → (∀ h, mem (q :: qs) h → mem (p :: ps) h) →
        q.1 ≤ p.1 ∧ p.2 ≤ q.2 := by
      intro p q ps qs hp hq h1 h2
      have hvp := (inv_cons.1 hp).2.1
      have hvq := (inv_cons.1 hq).2.1
      unfold ValidR at hvp hvq
      -- p.1 is a member of q :: qs, in some range x ≥ q
      obtain ⟨x, hx, hx1, hx2⟩ := h1 p.1 ((mem_cons _ _ _).2 (Or.inl ⟨Nat.le_refl _, hvp.2.1⟩))
      have hqx := inv_head_le hq x hx
      -- q.1 is a member of p :: ps, in some range y ≥ p
      obtain ⟨y, hy, hy1, hy2⟩ := h2 q.1 ((mem_cons _ _ _).2 (Or.inl ⟨Nat.le_refl _, hvq.2.1⟩))
      have hpy := inv_head_le hp y hy
      have hqp : q.1 ≤ p.1 := by omega
      refine ⟨hqp, ?_⟩
      -- every height of [p.1, p.2] is in one range of q :: qs; show it is q by walking: p.1 ∈ x
      -- x = q, otherwise q.2 + 1 < x.1 ≤ p.1 and q.1 would not be ≥ p.1 unless p.1 ≤ q.1 < ...
      -- the height p.2 is a member; suppose p.2 > q.2, then q.2 + 1 is in [p.1, p.2] or q.2 + 1 < p.1
      by_cases hlt : p.2 ≤ q.2
      · exact hlt
      · exfalso
        -- q.1 ∈ y with y ∈ p :: ps; q.1 ≤ p.1 ≤ y.1 ≤ q.1 so y.1 = q.1 = p.1 … and y = p or p.2 + 1 < y.1
        have hyp : y = p := by
          rcases List.mem_cons.1 hy with rfl | hy'
          · rfl
          · have := (inv_cons.1 hp).1 y hy'; omega
        subst hyp
        -- q.2 + 1 ≤ p.2 and q.2 + 1 ≥ p.1: member of p, hence of q :: qs, in some z
        obtain ⟨z, hz, hz1, hz2⟩ := h1 (q.2 + 1) ((mem_cons _ _ _).2 (Or.inl ⟨by omega, by omega⟩))
        rcases List.mem_cons.1 hz with rfl | hz'
        · omega
        · have := (inv_cons.1 hq).1 z hz'; omega
    have k1 := key r s rs ss ha hb (fun h => (hm h).1) (fun h => (hm h).2)
    have k2 := key s r ss rs hb ha (fun h => (hm h).2) (fun h => (hm h).1)
    have hrs : r = s := Prod.ext (by omega) (by omega)
    subst hrs
    congr 1
    apply canonical ha3 hb3
    intro h
    have hmh := hm h
    rw [mem_cons, mem_cons] at hmh
    constructor
    · intro hh
      rcases hmh.1 (Or.inr hh) with hc | hc
      · obtain ⟨x, hx, hx1, hx2⟩ := hh
        have := ha1 x hx; omega
      · exact hc
    · intro hh
      rcases hmh.2 (Or.inr hh) with hc | hc
      · obtain ⟨x, hx, hx1, hx2⟩ := hh
        have := hb1 x hx; omega
      · exact hc

/-! ### single-range predicates -/

theorem isOverlapping_ok {a b : Range} (ha : Range.valid a = true) (hb : Range.valid b = true) :
    Range.isOverlapping a b = .ok (Range.overlapping a b) := by
  simp [Range.isOverlapping, debugAssert, ha, hb]

theorem isAdjacent_ok {a b : Range} (ha : Range.valid a = true) (hb : Range.valid b = true) :
    Range.isAdjacent a b = .ok (Range.adjacent a b) := by
  simp [Range.isAdjacent, debugAssert, ha, hb]

theorem isLeftOf_ok {a b : Range} (ha : Range.valid a = true) (hb : Range.valid b = true) :
    Range.isLeftOf a b = .ok (decide (a.2 < b.1)) := by
  simp [Range.isLeftOf, debugAssert, ha, hb]

theorem isRightOf_ok {a b : Range} (ha : Range.valid a = true) (hb : Range.valid b = true) :
    Range.isRightOf a b = .ok (decide (b.2 < a.1)) := by
  simp [Range.isRightOf, debugAssert, ha, hb]

theorem overlapping_iff {a b : Range} (ha : Range.valid a = true) (hb : Range.valid b = true) :
    Range.overlapping a b = true ↔ a.1 ≤ b.2 ∧ b.1 ≤ a.2 := by
  rw [valid_iff] at ha hb
  simp only [Range.overlapping, Range.contains]
  by_cases h1 : a.1 < b.1 <;> by_cases h2 : b.1 ≤ a.2 <;> by_cases h3 : a.2 ≤ b.2 <;>
    by_cases h4 : b.2 < a.2 <;> by_cases h5 : b.1 ≤ a.1 <;> by_cases h6 : a.1 ≤ b.2 <;>
    simp [*] <;> try omega

theorem adjacent_iff {a b : Range} (ha : Range.valid a = true) (hb : Range.valid b = true) :
    Range.adjacent a b = true ↔ a.2 + 1 = b.1 ∨ b.2 + 1 = a.1 := by
  rw [valid_iff] at ha hb
  simp only [Range.adjacent, satSub]
  by_cases h1 : a.2 = b.1 - 1 <;> by_cases h2 : a.1 - 1 = b.2 <;> simp [*] <;> omega

theorem touches_iff {x r : Range} : touches x r = true ↔ r.1 ≤ x.2 + 1 ∧ x.1 ≤ r.2 + 1 := by
  simp [touches]

theorem hit_eq_touches {x r : Range} (hx : Range.valid x = true) (hr : Range.valid r = true) :
    (Range.overlapping x r || Range.adjacent x r) = touches x r := by
  rw [Bool.eq_iff_iff, Bool.or_eq_true, overlapping_iff hx hr, adjacent_iff hx hr, touches_iff]
  rw [valid_iff] at hx hr
  omega

/-! ### `find_affected_ranges` -/

/-- one loop step on a valid range -/
theorem findAffectedGo_cons {range r : Range} (hr : Range.valid r = true) (hv : Range.valid range = true)
    (rest : List Range) (i : Nat) (s e : Option Nat) :
    findAffectedGo range (r :: rest) i s e =
      if touches r range then
        findAffectedGo range rest (i + 1) (if s.isNone then some i else s) (some i)
      else if e.isSome then .ok (s, e)
      else findAffectedGo range rest (i + 1) s e := by
  have hh := hit_eq_touches hr hv
  rw [findAffectedGo, isOverlapping_ok hr hv]
  by_cases ho : Range.overlapping r range = true
  · have ht : touches r range = true := by rw [← hh, ho]; rfl
    simp [ho, ht]
  · have ho' : Range.overlapping r range = false := by simpa using ho
    rw [ho'] at hh
    simp [ho', isAdjacent_ok hr hv]
    simp at hh
    rw [hh]

/-- phase 1: ranges that do not touch are skipped while nothing has been found -/
theorem findAffectedGo_skip {range : Range} (hv : Range.valid range = true) :
    ∀ (L T : List Range) (i : Nat), (∀ x ∈ L, Range.valid x = true ∧ touches x range = false) →
      findAffectedGo range (L ++ T) i none none = findAffectedGo range T (i + L.length) none none
  | [], T, i, _ => by simp
  | x :: L, T, i, h => by
    have hx := h x (by simp)
    rw [List.cons_append, findAffectedGo_cons hx.1 hv, hx.2]
    simp only [Bool.false_eq_true, ↓reduceIte, Option.isSome_none]
    rw [findAffectedGo_skip hv L T (i + 1) (fun y hy => h y (List.mem_cons_of_mem _ hy))]
    simp only [List.length_cons]
    congr 1; omega

/-- phase 2: ranges that touch extend the affected block -/
theorem findAffectedGo_take {range : Range} (hv : Range.valid range = true) :
    ∀ (M T : List Range) (s e : Nat), (∀ x ∈ M, Range.valid x = true ∧ touches x range = true) →
      findAffectedGo range (M ++ T) (e + 1) (some s) (some e) =
        findAffectedGo range T (e + 1 + M.length) (some s) (some (e + M.length))
  | [], T, s, e, _ => by simp
  | x :: M, T, s, e, h => by
    have hx := h x (by simp)
    rw [List.cons_append, findAffectedGo_cons hx.1 hv, hx.2]
    simp only [↓reduceIte, Option.isNone_some, Bool.false_eq_true]
    rw [findAffectedGo_take hv M T s (e + 1) (fun y hy => h y (List.mem_cons_of_mem _ hy))]
    simp only [List.length_cons]
    congr 1
    · omega
    · congr 1; omega

/-- phase 3: the first range that does not touch ends the loop -/
theorem findAffectedGo_stop {range : Range} (hv : Range.valid range = true)
    (R : List Range) (i s e : Nat) (h : ∀ x ∈ R, Range.valid x = true ∧ touches x range = false) :
    findAffectedGo range R i (some s) (some e) = .ok (some s, some e) := by
  cases R with
  | nil => simp [findAffectedGo]
  | cons x R =>
    have hx := h x (by simp)
    rw [findAffectedGo_cons hx.1 hv, hx.2]
    simp

theorem findAffectedGo_none {range : Range} (hv : Range.valid range = true) :
    ∀ (R : List Range) (i : Nat), (∀ x ∈ R, Range.valid x = true ∧ touches x range = false) →
      findAffectedGo range R i none none = .ok (none, none)
  | [], i, _ => by simp [findAffectedGo]
  | x :: R, i, h => by
    have hx := h x (by simp)
    rw [findAffectedGo_cons hx.1 hv, hx.2]
    simp only [Bool.false_eq_true, ↓reduceIte, Option.isSome_none]
    exact findAffectedGo_none hv R (i + 1) (fun y hy => h y (List.mem_cons_of_mem _ hy))

/-- `find_affected_ranges` on a list split into non-touching / touching / non-touching parts -/
theorem findAffected_decomp {range : Range} (hv : Range.valid range = true) (L M R : List Range)
    (hL : ∀ x ∈ L, Range.valid x = true ∧ touches x range = false)
    (hM : ∀ x ∈ M, Range.valid x = true ∧ touches x range = true)
    (hR : ∀ x ∈ R, Range.valid x = true ∧ touches x range = false) :
    findAffectedRanges (L ++ M ++ R) range =
      .ok (if M = [] then none else some (L.length, L.length + M.length - 1)) := by
  unfold findAffectedRanges
  simp only [debugAssert, hv, ↓reduceIte, ok_bind]
  rw [List.append_assoc, findAffectedGo_skip hv L (M ++ R) 0 hL]
  cases M with
  | nil =>
    simp only [List.nil_append, ↓reduceIte]
    rw [findAffectedGo_none hv R _ hR]
    simp
  | cons m M =>
    have hm := hM m (by simp)
    rw [List.cons_append, findAffectedGo_cons hm.1 hv, hm.2]
    simp only [↓reduceIte, Option.isNone_none]
    rw [findAffectedGo_take hv M R _ _ (fun y hy => hM y (List.mem_cons_of_mem _ hy))]
    rw [findAffectedGo_stop hv R _ _ _ hR]
    simp only [ok_bind, pure_eq, reduceCtorEq, ↓reduceIte, List.length_cons]
    congr 3 <;> omega

/-- an `Inv` list splits around a valid range: strictly-left / touching / strictly-right -/
theorem inv_decomp {range : Range} (hv : ValidR range) :
    ∀ {rs : Ranges}, RInv rs → ∃ L M R, rs = L ++ M ++ R ∧
      (∀ x ∈ L, x.2 + 1 < range.1) ∧ (∀ x ∈ M, touches x range = true) ∧
      (∀ x ∈ R, range.2 + 1 < x.1)
  | [], _ => ⟨[], [], [], rfl, by simp, by simp, by simp⟩
  | x :: xs, hi => by
    obtain ⟨h1, hvx, hxs⟩ := inv_cons.1 hi
    obtain ⟨L, M, R, rfl, hL, hM, hR⟩ := inv_decomp hv hxs
    unfold ValidR at hvx hv
    by_cases c1 : x.2 + 1 < range.1
    · refine ⟨x :: L, M, R, by simp, ?_, hM, hR⟩
      intro y hy
      rcases List.mem_cons.1 hy with rfl | hy
      · exact c1
      · exact hL y hy
    · by_cases c2 : range.2 + 1 < x.1
      · refine ⟨[], [], x :: (L ++ M ++ R), by simp, by simp, by simp, ?_⟩
        intro y hy
        rcases List.mem_cons.1 hy with rfl | hy
        · exact c2
        · have := h1 y hy; omega
      · -- x touches; nothing of xs can be strictly left
        have hLnil : L = [] := by
          cases L with
          | nil => rfl
          | cons l L =>
            exfalso
            have := hL l (by simp)
            have := h1 l (by simp)
            have := hi.2 l (by simp)
            omega
        subst hLnil
        refine ⟨[], x :: M, R, by simp, by simp, ?_, hR⟩
        intro y hy
        rcases List.mem_cons.1 hy with rfl | hy
        · rw [touches_iff]; omega
        · exact hM y hy

theorem not_touches_of_left {x r : Range} (h : x.2 + 1 < r.1) : touches x r = false := by
  simp [touches]; omega

theorem not_touches_of_right {x r : Range} (h : r.2 + 1 < x.1) : touches x r = false := by
  simp [touches]; omega

/-- the decomposition together with the value of `find_affected_ranges` -/
theorem find_decomp {rs : Ranges} {range : Range} (hi : RInv rs) (hv : ValidR range) :
    ∃ L M R, rs = L ++ M ++ R ∧
      (∀ x ∈ L, x.2 + 1 < range.1) ∧ (∀ x ∈ M, touches x range = true) ∧
      (∀ x ∈ R, range.2 + 1 < x.1) ∧
      findAffectedRanges rs range =
        .ok (if M = [] then none else some (L.length, L.length + M.length - 1)) := by
  obtain ⟨L, M, R, rfl, hL, hM, hR⟩ := inv_decomp hv hi
  refine ⟨L, M, R, rfl, hL, hM, hR, ?_⟩
  have hval : ∀ x ∈ L ++ M ++ R, Range.valid x = true := fun x hx => (inv_validR hi hx).valid
  apply findAffected_decomp hv.valid
  · intro x hx
    exact ⟨hval x (by simp [hx]), not_touches_of_left (hL x hx)⟩
  · intro x hx
    exact ⟨hval x (by simp [hx]), hM x hx⟩
  · intro x hx
    exact ⟨hval x (by simp [hx]), not_touches_of_right (hR x hx)⟩

/-! ### list surgery on the decomposition -/

theorem decomp_surgery (L M R : List Range) (hM : M ≠ []) :
    ∃ a b M' M'', M = a :: M' ∧ M = M'' ++ [b] ∧
      (L ++ M ++ R)[L.length]? = some a ∧ (L ++ M ++ R)[L.length + M.length - 1]? = some b ∧
      (L ++ M ++ R).take L.length = L ∧ (L ++ M ++ R).drop (L.length + M.length - 1 + 1) = R := by
  cases M with
  | nil => exact absurd rfl hM
  | cons a M' =>
    obtain ⟨M'', hb⟩ := List.getLast?_eq_some_iff.1 (List.getLast?_eq_some_getLast (l := a :: M') (by simp))
    refine ⟨a, (a :: M').getLast (by simp), M', M'', rfl, hb, ?_, ?_, ?_, ?_⟩
    · rw [List.append_assoc, List.getElem?_append_right (Nat.le_refl _)]; simp
    · rw [List.append_assoc, List.getElem?_append_right (by simp only [List.length_cons]; omega)]
      have e : L.length + (a :: M').length - 1 - L.length = (a :: M').length - 1 := by
        simp only [List.length_cons]; omega
      rw [e, List.getElem?_append_left (by simp)]
      rw [← List.getLast?_eq_getElem?, List.getLast?_eq_some_getLast]
    · rw [List.append_assoc, List.take_left]
    · exact List.drop_left' (by simp only [List.length_append, List.length_cons]; omega)

/-- facts about the touching block `M` of an `Inv` list -/
theorem block_facts {L M R : List Range} {a b : Range} {M' M'' : List Range}
    (hi : RInv (L ++ M ++ R)) (ha : M = a :: M') (hb : M = M'' ++ [b]) :
    a ∈ M ∧ b ∈ M ∧ (∀ x ∈ M, a.1 ≤ x.1 ∧ x.2 ≤ b.2) ∧ RInv L ∧ RInv M ∧ RInv R ∧
      (∀ x ∈ L, ∀ y ∈ M, x.2 + 1 < y.1) ∧ (∀ x ∈ L, ∀ y ∈ R, x.2 + 1 < y.1) ∧
      (∀ x ∈ M, ∀ y ∈ R, x.2 + 1 < y.1) := by
  obtain ⟨h1, hR, c1⟩ := inv_append.1 hi
  obtain ⟨hL, hMi, c2⟩ := inv_append.1 h1
  refine ⟨by simp [ha], by simp [hb], ?_, hL, hMi, hR, c2, ?_, ?_⟩
  · intro x hx
    have k1 := inv_head_le (ha ▸ hMi) x (ha ▸ hx)
    have k2 := inv_le_last (hb ▸ hMi) x (hb ▸ hx)
    exact ⟨k1.1, k2.2⟩
  · intro x hx y hy; exact c1 x (List.mem_append_left _ hx) y hy
  · intro x hx y hy; exact c1 x (List.mem_append_right _ hx) y hy

/-! ### `insert_relaxed` -/

theorem insertSorted_decomp {r : Range} (hr : r.1 ≤ r.2) :
    ∀ (L R : List Range), (∀ x ∈ L, x.1 ≤ x.2 ∧ x.2 + 1 < r.1) → (∀ x ∈ R, r.2 + 1 < x.1) →
      insertSorted r (L ++ R) = L ++ r :: R
  | [], [], _, _ => rfl
  | [], y :: R, _, hR => by
    have := hR y (by simp)
    simp only [List.nil_append, insertSorted]
    rw [if_pos (by omega)]
  | x :: L, R, hL, hR => by
    have := hL x (by simp)
    simp only [List.cons_append, insertSorted]
    rw [if_neg (by omega), insertSorted_decomp hr L R (fun y hy => hL y (List.mem_cons_of_mem _ hy)) hR]

theorem insertRelaxed_invalid {rs : Ranges} {r : Range} (h : Range.valid r = false) :
    insertRelaxed rs r = .error (.invalid r) := by
  simp [insertRelaxed, validate_err h]

/-- `insert_relaxed` on an `Inv` value and a valid range: succeeds, keeps `Inv`, is set union -/
theorem insertRelaxed_spec {rs : Ranges} {r : Range} (hi : RInv rs) (hv : ValidR r) :
    ∃ rs', insertRelaxed rs r = .ok rs' ∧ RInv rs' ∧
      ∀ h, mem rs' h ↔ mem rs h ∨ (r.1 ≤ h ∧ h ≤ r.2) := by
  obtain ⟨L, M, R, rfl, hL, hM, hR, hfind⟩ := find_decomp hi hv
  have hvr := hv
  unfold ValidR at hvr
  by_cases hMnil : M = []
  · subst hMnil
    simp only [List.append_nil, ↓reduceIte] at hfind hi ⊢
    obtain ⟨hLi, hRi, c⟩ := inv_append.1 hi
    have hins : insertSorted r (L ++ R) = L ++ r :: R :=
      insertSorted_decomp hvr.2.1 L R
        (fun x hx => ⟨(inv_validR hLi hx).2.1, hL x hx⟩) hR
    refine ⟨L ++ r :: R, ?_, ?_, ?_⟩
    · simp [insertRelaxed, validate_ok hv.valid, hfind, hins]
    · refine inv_append.2 ⟨hLi, inv_cons.2 ⟨hR, hv, hRi⟩, ?_⟩
      intro x hx y hy
      rcases List.mem_cons.1 hy with rfl | hy
      · exact hL x hx
      · exact c x hx y hy
    · intro h
      simp only [mem_append, mem_cons]
      constructor
      · rintro (h1 | h1 | h1)
        · exact Or.inl (Or.inl h1)
        · exact Or.inr h1
        · exact Or.inl (Or.inr h1)
      · rintro ((h1 | h1) | h1)
        · exact Or.inl h1
        · exact Or.inr (Or.inr h1)
        · exact Or.inr (Or.inl h1)
  · obtain ⟨a, b, M', M'', ha, hb, ga, gb, gt, gd⟩ := decomp_surgery L M R hMnil
    obtain ⟨haM, hbM, hMb, hLi, hMi, hRi, cLM, cLR, cMR⟩ := block_facts hi ha hb
    have hva := inv_validR hMi haM
    have hvb := inv_validR hMi hbM
    have hta := touches_iff.1 (hM a haM)
    have htb := touches_iff.1 (hM b hbM)
    unfold ValidR at hva hvb
    refine ⟨L ++ (min a.1 r.1, max b.2 r.2) :: R, ?_, ?_, ?_⟩
    · simp only [insertRelaxed, validate_ok hv.valid, ok_bind, hfind, hMnil, ↓reduceIte, ga, gb,
        gt, gd, pure_eq]
    · refine inv_append.2 ⟨hLi, inv_cons.2 ⟨?_, ?_, hRi⟩, ?_⟩
      · intro y hy
        have := cMR b hbM y hy
        have := hR y hy
        show max b.2 r.2 + 1 < y.1
        omega
      · show 1 ≤ min a.1 r.1 ∧ min a.1 r.1 ≤ max b.2 r.2 ∧ max b.2 r.2 ≤ U64_MAX
        omega
      · intro x hx y hy
        rcases List.mem_cons.1 hy with rfl | hy
        · have := cLM x hx a haM
          have := hL x hx
          show x.2 + 1 < min a.1 r.1
          omega
        · exact cLR x hx y hy
    · intro h
      have hkey : (min a.1 r.1 ≤ h ∧ h ≤ max b.2 r.2) ↔ mem M h ∨ (r.1 ≤ h ∧ h ≤ r.2) := by
        constructor
        · rintro ⟨h1, h2⟩
          by_cases hr : r.1 ≤ h ∧ h ≤ r.2
          · exact Or.inr hr
          · left
            by_cases hlt : h < r.1
            · exact ⟨a, haM, by omega, by omega⟩
            · exact ⟨b, hbM, by omega, by omega⟩
        · rintro (⟨x, hx, hx1, hx2⟩ | ⟨h1, h2⟩)
          · have := hMb x hx; omega
          · omega
      simp only [mem_append, mem_cons]
      rw [hkey]
      constructor
      · rintro (h1 | (h1 | h1) | h1)
        · exact Or.inl (Or.inl (Or.inl h1))
        · exact Or.inl (Or.inl (Or.inr h1))
        · exact Or.inr h1
        · exact Or.inl (Or.inr h1)
      · rintro (((h1 | h1) | h1) | h1)
        · exact Or.inl h1
        · exact Or.inr (Or.inl (Or.inl h1))
        · exact Or.inr (Or.inr h1)
        · exact Or.inr (Or.inl (Or.inr h1))

/-! ### `remove_relaxed` -/

theorem removeRelaxed_invalid {rs : Ranges} {r : Range} (h : Range.valid r = false) :
    removeRelaxed rs r = .error (.invalid r) := by
  simp [removeRelaxed, validate_err h]

/-- `remove_relaxed` on an `Inv` value and a valid range: succeeds, keeps `Inv`, is set difference -/
theorem removeRelaxed_spec {rs : Ranges} {r : Range} (hi : RInv rs) (hv : ValidR r) :
    ∃ rs', removeRelaxed rs r = .ok rs' ∧ RInv rs' ∧
      ∀ h, mem rs' h ↔ mem rs h ∧ ¬ (r.1 ≤ h ∧ h ≤ r.2) := by
  obtain ⟨L, M, R, rfl, hL, hM, hR, hfind⟩ := find_decomp hi hv
  have hvr := hv
  unfold ValidR at hvr
  have hLout : ∀ h, mem L h → ¬ (r.1 ≤ h ∧ h ≤ r.2) := by
    rintro h ⟨x, hx, h1, h2⟩; have := hL x hx; omega
  have hRout : ∀ h, mem R h → ¬ (r.1 ≤ h ∧ h ≤ r.2) := by
    rintro h ⟨x, hx, h1, h2⟩; have := hR x hx; omega
  by_cases hMnil : M = []
  · subst hMnil
    simp only [List.append_nil, ↓reduceIte] at hfind hi ⊢
    refine ⟨L ++ R, ?_, hi, ?_⟩
    · simp [removeRelaxed, validate_ok hv.valid, hfind]
    · intro h
      simp only [mem_append]
      constructor
      · rintro (h1 | h1)
        · exact ⟨Or.inl h1, hLout h h1⟩
        · exact ⟨Or.inr h1, hRout h h1⟩
      · rintro ⟨h1, _⟩; exact h1
  · obtain ⟨a, b, M', M'', ha, hb, ga, gb, gt, gd⟩ := decomp_surgery L M R hMnil
    obtain ⟨haM, hbM, hMb, hLi, hMi, hRi, cLM, cLR, cMR⟩ := block_facts hi ha hb
    have hva := inv_validR hMi haM
    have hvb := inv_validR hMi hbM
    have hta := touches_iff.1 (hM a haM)
    have htb := touches_iff.1 (hM b hbM)
    unfold ValidR at hva hvb
    let left : Ranges := if a.1 < r.1 then [(a.1, r.1 - 1)] else []
    let right : Ranges := if r.2 < b.2 then [(r.2 + 1, b.2)] else []
    have hleft : ∀ x ∈ left, x = (a.1, r.1 - 1) ∧ a.1 < r.1 := by
      intro x hx
      by_cases c : a.1 < r.1
      · simp only [left, c, ↓reduceIte, List.mem_singleton] at hx; exact ⟨hx, c⟩
      · simp [left, c] at hx
    have hright : ∀ x ∈ right, x = (r.2 + 1, b.2) ∧ r.2 < b.2 := by
      intro x hx
      by_cases c : r.2 < b.2
      · simp only [right, c, ↓reduceIte, List.mem_singleton] at hx; exact ⟨hx, c⟩
      · simp [right, c] at hx
    refine ⟨L ++ left ++ right ++ R, ?_, ?_, ?_⟩
    · simp only [removeRelaxed, validate_ok hv.valid, ok_bind, hfind, hMnil, ↓reduceIte, ga, gb,
        gt, gd, left, right]
      have e2 : 1 ≤ r.1 := hvr.1
      by_cases c1 : r.2 < b.2
      · have e1 : r.2 + 1 ≤ U64_MAX := by omega
        by_cases c2 : a.1 < r.1 <;> simp [c1, c2, addU64, subU64, e1, e2]
      · by_cases c2 : a.1 < r.1 <;> simp [c1, c2, subU64, e2]
    · refine inv_append.2 ⟨inv_append.2 ⟨inv_append.2 ⟨hLi, ?_, ?_⟩, ?_, ?_⟩, hRi, ?_⟩
      · -- Inv left
        by_cases c : a.1 < r.1
        · simp only [left, c, ↓reduceIte]; exact inv_singleton.2 ⟨by omega, by show a.1 ≤ r.1 - 1; omega, by show r.1 - 1 ≤ U64_MAX; omega⟩
        · simp only [left, c, ↓reduceIte]; exact inv_nil
      · intro x hx y hy
        obtain ⟨rfl, c⟩ := hleft y hy
        exact cLM x hx a haM
      · -- Inv right
        by_cases c : r.2 < b.2
        · simp only [right, c, ↓reduceIte]; exact inv_singleton.2 ⟨by show 1 ≤ r.2 + 1; omega, by show r.2 + 1 ≤ b.2; omega, hvb.2.2⟩
        · simp only [right, c, ↓reduceIte]; exact inv_nil
      · intro x hx y hy
        obtain ⟨rfl, c⟩ := hright y hy
        rcases List.mem_append.1 hx with hx | hx
        · have := hL x hx
          show x.2 + 1 < r.2 + 1
          omega
        · obtain ⟨rfl, c'⟩ := hleft x hx
          show r.1 - 1 + 1 < r.2 + 1
          omega
      · intro x hx y hy
        rcases List.mem_append.1 hx with hx | hx
        · rcases List.mem_append.1 hx with hx | hx
          · exact cLR x hx y hy
          · obtain ⟨rfl, c'⟩ := hleft x hx
            have := hR y hy
            show r.1 - 1 + 1 < y.1
            omega
        · obtain ⟨rfl, c'⟩ := hright x hx
          exact cMR b hbM y hy
    · intro h
      have hkey : (mem left h ∨ mem right h) ↔ mem M h ∧ ¬ (r.1 ≤ h ∧ h ≤ r.2) := by
        constructor
        · rintro (⟨x, hx, h1, h2⟩ | ⟨x, hx, h1, h2⟩)
          · obtain ⟨rfl, c⟩ := hleft x hx
            simp only at h1 h2
            exact ⟨⟨a, haM, h1, by omega⟩, by omega⟩
          · obtain ⟨rfl, c⟩ := hright x hx
            simp only at h1 h2
            exact ⟨⟨b, hbM, by omega, h2⟩, by omega⟩
        · rintro ⟨⟨x, hx, h1, h2⟩, hn⟩
          have := hMb x hx
          by_cases hlt : h < r.1
          · left
            have c : a.1 < r.1 := by omega
            exact ⟨(a.1, r.1 - 1), by simp [left, c], by show a.1 ≤ h; omega, by show h ≤ r.1 - 1; omega⟩
          · right
            have c : r.2 < b.2 := by omega
            exact ⟨(r.2 + 1, b.2), by simp [right, c], by show r.2 + 1 ≤ h; omega, by show h ≤ b.2; omega⟩
      simp only [mem_append]
      constructor
      · rintro (((h1 | h1) | h1) | h1)
        · exact ⟨Or.inl (Or.inl h1), hLout h h1⟩
        · have := hkey.1 (Or.inl h1); exact ⟨Or.inl (Or.inr this.1), this.2⟩
        · have := hkey.1 (Or.inr h1); exact ⟨Or.inl (Or.inr this.1), this.2⟩
        · exact ⟨Or.inr h1, hRout h h1⟩
      · rintro ⟨(h1 | h1) | h1, hn⟩
        · exact Or.inl (Or.inl (Or.inl h1))
        · rcases hkey.2 ⟨h1, hn⟩ with h2 | h2
          · exact Or.inl (Or.inl (Or.inr h2))
          · exact Or.inl (Or.inr h2)
        · exact Or.inr h1

/-! ### simple queries -/

theorem head_eq_none_iff {rs : Ranges} : head rs = none ↔ rs = [] := by
  simp [head]

theorem tail_eq_none_iff {rs : Ranges} : tail rs = none ↔ rs = [] := by
  simp [tail]

/-- `head` is the greatest member -/
theorem head_spec {rs : Ranges} (hi : RInv rs) {x : Nat} (hx : head rs = some x) :
    mem rs x ∧ ∀ h, mem rs h → h ≤ x := by
  simp only [head, Option.map_eq_some_iff] at hx
  obtain ⟨r, hr, rfl⟩ := hx
  obtain ⟨ys, rfl⟩ := List.getLast?_eq_some_iff.1 hr
  have hv := inv_validR hi (r := r) (by simp)
  refine ⟨⟨r, by simp, hv.2.1, Nat.le_refl _⟩, ?_⟩
  rintro h ⟨y, hy, h1, h2⟩
  have := inv_le_last hi y hy
  omega

/-- `tail` is the least member -/
theorem tail_spec {rs : Ranges} (hi : RInv rs) {x : Nat} (hx : tail rs = some x) :
    mem rs x ∧ ∀ h, mem rs h → x ≤ h := by
  cases rs with
  | nil => simp [tail] at hx
  | cons r rs =>
    simp only [tail, List.head?_cons, Option.map_some, Option.some.injEq] at hx
    subst hx
    have hv := inv_validR hi (r := r) (by simp)
    refine ⟨⟨r, by simp, Nat.le_refl _, hv.2.1⟩, ?_⟩
    rintro h ⟨y, hy, h1, h2⟩
    have := inv_head_le hi y hy
    omega

theorem isEmpty_iff {rs : Ranges} (hi : RInv rs) : isEmpty rs = true ↔ rs = [] := by
  cases rs with
  | nil => simp [isEmpty]
  | cons r rs =>
    have hv := inv_validR hi (r := r) (by simp)
    unfold ValidR at hv
    simp [isEmpty, Range.isEmpty]
    intro h; omega

/-- `from_vec` accepts every `Inv` vector unchanged -/
theorem fromVecMerge_of_inv : ∀ {rs : Ranges} (acc : Ranges), RInv (acc.reverse ++ rs) →
    fromVecMerge acc rs = .ok (acc.reverse ++ rs)
  | [], acc, _ => by simp [fromVecMerge]
  | r :: rs, acc, hi => by
    have hv : ValidR r := inv_validR hi (by simp)
    have hi' : RInv ((r :: acc).reverse ++ rs) := by
      simpa [List.append_assoc] using hi
    have ih := fromVecMerge_of_inv (r :: acc) hi'
    cases acc with
    | nil => simpa [fromVecMerge, validate_ok hv.valid] using ih
    | cons prev t =>
      have hgap : prev.2 + 1 < r.1 := by
        have h1 := (inv_append.1 hi).2.2 prev (by simp) r (by simp)
        exact h1
      have hvv := hv
      unfold ValidR at hvv
      have h1 : ¬ r.1 ≤ prev.2 := by omega
      have h2 : prev.2 + 1 ≤ U64_MAX := by omega
      have h3 : ¬ prev.2 + 1 = r.1 := by omega
      simp only [fromVecMerge, validate_ok hv.valid, ok_bind, h1, ↓reduceIte, addU64, h2, beq_iff_eq, h3]
      simpa [List.append_assoc] using ih

theorem fromVec_of_inv {rs : Ranges} (hi : RInv rs) : fromVec rs = .ok rs := by
  simpa [fromVec] using fromVecMerge_of_inv (rs := rs) [] (by simpa using hi)

/-! ### the decidable invariant -/

theorem sortedB_pairwise : ∀ {rs : Ranges}, sortedB rs = true → (∀ r ∈ rs, r.1 ≤ r.2) →
    rs.Pairwise (fun a b => a.2 + 1 < b.1)
  | [], _, _ => List.Pairwise.nil
  | [a], _, _ => by simp
  | a :: b :: rest, hs, hv => by
    simp only [sortedB, Bool.and_eq_true, decide_eq_true_eq] at hs
    have ih := sortedB_pairwise hs.2 (fun r hr => hv r (List.mem_cons_of_mem _ hr))
    refine List.pairwise_cons.2 ⟨?_, ih⟩
    intro y hy
    rcases List.mem_cons.1 hy with rfl | hy
    · exact hs.1
    · have h1 := (List.pairwise_cons.1 ih).1 y hy
      have h2 := hv b (by simp)
      omega

theorem pairwise_sortedB : ∀ {rs : Ranges}, rs.Pairwise (fun a b => a.2 + 1 < b.1) → sortedB rs = true
  | [], _ => rfl
  | [a], _ => rfl
  | a :: b :: rest, h => by
    simp only [sortedB, Bool.and_eq_true, decide_eq_true_eq]
    exact ⟨(List.pairwise_cons.1 h).1 b (by simp), pairwise_sortedB (List.pairwise_cons.1 h).2⟩

theorem invB_iff (rs : Ranges) : invB rs = true ↔ RInv rs := by
  simp only [invB, Bool.and_eq_true, Lumina.Model.Ranges.Inv, AllValid, allValidB, List.all_eq_true,
    decide_eq_true_eq]
  constructor
  · rintro ⟨h1, h2⟩
    have h2' : ∀ r ∈ rs, 1 ≤ r.1 ∧ r.1 ≤ r.2 ∧ r.2 ≤ U64_MAX := fun r hr => by
      have := h2 r hr; omega
    exact ⟨sortedB_pairwise h1 (fun r hr => (h2' r hr).2.1), h2'⟩
  · rintro ⟨h1, h2⟩
    exact ⟨pairwise_sortedB h1, fun r hr => by have := h2 r hr; omega⟩

theorem inv_of_invB {rs : Ranges} (h : invB rs = true) : RInv rs := (invB_iff rs).1 h

/-! ### union / difference / complement / intersection -/

theorem expectOk_ok {α} (a : α) : expectOk (.ok a : Res α) = .ok a := rfl

/-- `Add` / `BitOr`: set union -/
theorem add_spec : ∀ {b a : Ranges}, RInv a → RInv b →
    ∃ c, add a b = .ok c ∧ RInv c ∧ ∀ h, mem c h ↔ mem a h ∨ mem b h
  | [], a, ha, _ => ⟨a, rfl, ha, fun h => by simp [mem_nil]⟩
  | r :: b, a, ha, hb => by
    obtain ⟨_, hv, hb'⟩ := inv_cons.1 hb
    obtain ⟨a', h1, h2, h3⟩ := insertRelaxed_spec ha hv
    obtain ⟨c, h4, h5, h6⟩ := add_spec (b := b) h2 hb'
    refine ⟨c, by simp [add, h1, expectOk_ok, h4], h5, ?_⟩
    intro h
    rw [h6, h3, mem_cons]
    constructor
    · rintro ((h | h) | h)
      · exact Or.inl h
      · exact Or.inr (Or.inl h)
      · exact Or.inr (Or.inr h)
    · rintro (h | h | h)
      · exact Or.inl (Or.inl h)
      · exact Or.inl (Or.inr h)
      · exact Or.inr h

/-- `Sub`: set difference -/
theorem sub_spec : ∀ {b a : Ranges}, RInv a → RInv b →
    ∃ c, sub a b = .ok c ∧ RInv c ∧ ∀ h, mem c h ↔ mem a h ∧ ¬ mem b h
  | [], a, ha, _ => ⟨a, rfl, ha, fun h => by simp [mem_nil]⟩
  | r :: b, a, ha, hb => by
    obtain ⟨_, hv, hb'⟩ := inv_cons.1 hb
    obtain ⟨a', h1, h2, h3⟩ := removeRelaxed_spec ha hv
    obtain ⟨c, h4, h5, h6⟩ := sub_spec (b := b) h2 hb'
    refine ⟨c, by simp [sub, h1, expectOk_ok, h4], h5, ?_⟩
    intro h
    rw [h6, h3, mem_cons]
    constructor
    · rintro ⟨⟨h1, h2⟩, h3⟩
      exact ⟨h1, fun hc => hc.elim h2 h3⟩
    · rintro ⟨h1, h2⟩
      exact ⟨⟨h1, fun hc => h2 (Or.inl hc)⟩, fun hc => h2 (Or.inr hc)⟩

theorem bitOr_spec {a b : Ranges} (ha : RInv a) (hb : RInv b) :
    ∃ c, bitOr a b = .ok c ∧ RInv c ∧ ∀ h, mem c h ↔ mem a h ∨ mem b h := add_spec ha hb

/-- `Not`: complement within the universe of heights `[1, u64::MAX]` -/
theorem bitNot_spec {a : Ranges} (ha : RInv a) :
    ∃ c, bitNot a = .ok c ∧ RInv c ∧ ∀ h, mem c h ↔ (1 ≤ h ∧ h ≤ U64_MAX) ∧ ¬ mem a h := by
  have hv : ValidR (1, U64_MAX) := ⟨Nat.le_refl _, by decide, Nat.le_refl _⟩
  obtain ⟨u, h1, h2, h3⟩ := insertRelaxed_spec inv_nil hv
  obtain ⟨c, h4, h5, h6⟩ := sub_spec h2 ha
  refine ⟨c, by simp [bitNot, h1, expectOk_ok, h4], h5, ?_⟩
  intro h
  rw [h6, h3]
  simp [mem_nil]

/-- `BitAnd` (`!(!a | !b)`): set intersection -/
theorem bitAnd_spec {a b : Ranges} (ha : RInv a) (hb : RInv b) :
    ∃ c, bitAnd a b = .ok c ∧ RInv c ∧ ∀ h, mem c h ↔ mem a h ∧ mem b h := by
  obtain ⟨na, h1, h2, h3⟩ := bitNot_spec ha
  obtain ⟨nb, h4, h5, h6⟩ := bitNot_spec hb
  obtain ⟨u, h7, h8, h9⟩ := bitOr_spec h2 h5
  obtain ⟨c, h10, h11, h12⟩ := bitNot_spec h8
  refine ⟨c, by simp [bitAnd, h1, h4, h7, h10], h11, ?_⟩
  intro h
  rw [h12, h9, h3, h6]
  constructor
  · rintro ⟨hb', hn⟩
    have hma : mem a h := Classical.byContradiction fun hc => hn (Or.inl ⟨hb', hc⟩)
    have hmb : mem b h := Classical.byContradiction fun hc => hn (Or.inr ⟨hb', hc⟩)
    exact ⟨hma, hmb⟩
  · rintro ⟨hma, hmb⟩
    refine ⟨mem_bounds ha hma, ?_⟩
    rintro (⟨_, hc⟩ | ⟨_, hc⟩)
    · exact hc hma
    · exact hc hmb

end Lumina.Proofs.Ranges

/-
  Bridge between the two transcriptions of lumina's `NamespaceProof` wrappers (fix 07cb5f3): group D's
  `Nmt.validateShape` / `luminaVerifyRange` / `luminaVerifyCompleteNamespace` and group D3's
  `Decoders.validateShape` / `safeVerifyRange` / `safeVerifyCompleteNamespace` are the same functions, so the
  C16 no-panic theorems transfer.  Not imported by any `Props` file (kept apart so that an edit of either
  model cannot break a property build).
-/
import Lumina.Proofs.DecodersMain

namespace Lumina.Proofs.Decoders
open Lumina.Util Lumina.Model.Eds
open Lumina.Model

theorem adjacentBad_eq : ∀ l : List Nmt.NsHash, Nmt.adjacentBad l = !Decoders.siblingsOrdered l := by
  intro l
  induction l with
  | nil => rfl
  | cons a t ih =>
    cases t with
    | nil => rfl
    | cons b r =>
      simp only [Nmt.adjacentBad, Decoders.siblingsOrdered, ih, Nmt.leB]
      cases Nmt.ltB b.minNs a.maxNs <;> simp

theorem validateShape_bridge (p : Nmt.NsProof) (a b : Bytes) :
    Nmt.validateShape p a b = if Decoders.validateShape p a b then .ok () else .error .malformedProof := by
  unfold Nmt.validateShape Decoders.validateShape
  simp only [adjacentBad_eq, Nmt.leB]
  repeat' split
  all_goals simp_all

theorem luminaVerifyRange_eq (H : Nmt.HashFn) (p : Nmt.NsProof) (root : Nmt.NsHash) (leaves : List Bytes) (ns : Bytes) :
    Nmt.luminaVerifyRange H p root leaves ns = Decoders.safeVerifyRange H p root leaves ns := by
  unfold Nmt.luminaVerifyRange Decoders.safeVerifyRange
  rw [validateShape_bridge]
  cases Decoders.validateShape p ns ns <;> simp

theorem completeNamespaceShape_bridge (p : Nmt.NsProof) (ns : Bytes) :
    Nmt.completeNamespaceShape p ns = if Decoders.completeNsShapeOk p ns then .ok () else .error .malformedProof := by
  unfold Nmt.completeNamespaceShape Decoders.completeNsShapeOk
  cases (if p.isAbsence = true then p.leaf else none) with
  | none => simp only [validateShape_bridge]
  | some leaf =>
    simp only [validateShape_bridge]
    by_cases h : Nmt.ltB leaf.maxNs leaf.minNs = true
    · simp [h]
    · simp [h]

theorem luminaVerifyCompleteNamespace_eq (H : Nmt.HashFn) (p : Nmt.NsProof) (root : Nmt.NsHash) (leaves : List Bytes)
    (ns : Bytes) :
    Nmt.luminaVerifyCompleteNamespace H p root leaves ns = Decoders.safeVerifyCompleteNamespace H p root leaves ns := by
  unfold Nmt.luminaVerifyCompleteNamespace Decoders.safeVerifyCompleteNamespace
  rw [completeNamespaceShape_bridge]
  cases Decoders.completeNsShapeOk p ns <;> simp

/-- group D's transcription of the wrappers never panics either -/
theorem luminaVerifyRange_ne_panic (H : Nmt.HashFn) (p : Nmt.NsProof) (hu : U32 p) (root : Nmt.NsHash)
    (leaves : List Bytes) (ns : Bytes) : Nmt.luminaVerifyRange H p root leaves ns ≠ .error .panic := by
  rw [luminaVerifyRange_eq]; exact safeVerifyRange_ne_panic H p hu root leaves ns

theorem luminaVerifyCompleteNamespace_ne_panic (H : Nmt.HashFn) (p : Nmt.NsProof) (hu : U32 p) (root : Nmt.NsHash)
    (leaves : List Bytes) (ns : Bytes) : Nmt.luminaVerifyCompleteNamespace H p root leaves ns ≠ .error .panic := by
  rw [luminaVerifyCompleteNamespace_eq]; exact safeVerifyCompleteNamespace_ne_panic H p hu root leaves ns

end Lumina.Proofs.Decoders

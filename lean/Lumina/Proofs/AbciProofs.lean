/-
  Helper lemmas for C45 (ABCI proof chains).
-/
import Lumina.Model.AbciProofs
import Lumina.Spec.C45

namespace Lumina.Proofs.AbciProofs
open Lumina.Util Lumina.Model.AbciProofs
open Lumina.Spec.C45 (linked nextRoots candidates opsOf decimal backed)

theorem findExist_mem (key : Bytes) (es : List BatchEntry) (e : ExistenceProof)
    (h : findExist key es = some e) :
    e.value ∈ es.filterMap (fun | .exist e => some e.value | .other => none) := by
  induction es with
  | nil => simp [findExist] at h
  | cons x es ih =>
    cases x with
    | exist e' =>
      simp only [findExist] at h
      split at h
      · cases h; simp
      · simp [ih h]
    | other =>
      simp only [findExist] at h
      simp [ih h]

theorem getExistenceProof_mem (op : CommitmentOp) (key : Bytes) (e : ExistenceProof)
    (h : getExistenceProof op key = some e) : e.value ∈ candidates op.proof := by
  unfold getExistenceProof at h
  unfold candidates
  cases hp : op.proof with
  | exist e' => simp [hp] at h; simp [h]
  | batch es => simp only [hp] at h; exact findExist_mem key es e h
  | other => simp [hp] at h

theorem verifyLoop_sound (vm : VM) (chain : ProofChain) (root : Bytes) (keys : List Bytes)
    (leaf : Bytes) (idx : Nat) (h : verifyLoop vm chain root keys leaf idx = .ok ()) :
    linked vm root (chain.drop idx) keys leaf = true := by
  induction keys generalizing leaf idx with
  | nil =>
    unfold verifyLoop at h
    split at h
    · split at h <;> simp at h
    · rename_i hnone
      have : chain.drop idx = [] := by
        apply List.drop_eq_nil_of_le
        cases hg : chain[idx]? with
        | some x => simp [hg] at hnone
        | none => exact List.getElem?_eq_none_iff.mp hg
      simp [this, linked]
  | cons key keys ih =>
    unfold verifyLoop at h
    cases hg : chain[idx]? with
    | none => simp [hg] at h
    | some proof =>
      simp only [hg] at h
      have hidx : idx < chain.length := by
        cases Nat.lt_or_ge idx chain.length with
        | inl h => exact h
        | inr h' => rw [List.getElem?_eq_none_iff.mpr h'] at hg; cases hg
      have hproof : chain[idx] = proof := by
        rw [List.getElem?_eq_getElem hidx] at hg; exact Option.some.inj hg
      have hdrop : chain.drop idx = proof :: chain.drop (idx + 1) := by
        rw [← hproof]; exact List.drop_eq_getElem_cons hidx
      split at h
      · simp at h
      · rename_i hkey
        simp only [ne_eq, Decidable.not_not] at hkey
        subst hkey
        split at h
        · simp at h
        · rw [hdrop]
          simp only [linked]
          have hk : (proof.key == proof.key) = true := by simp
          rw [hk, Bool.true_and, List.any_eq_true]
          cases hn : chain[idx + 1]? with
          | some nxt =>
            simp only [hn] at h
            have hidx' : idx + 1 < chain.length := by
              cases Nat.lt_or_ge (idx + 1) chain.length with
              | inl h => exact h
              | inr h' => rw [List.getElem?_eq_none_iff.mpr h'] at hn; cases hn
            have hnxt : chain[idx + 1] = nxt := by
              rw [List.getElem?_eq_getElem hidx'] at hn; exact Option.some.inj hn
            have hdrop' : chain.drop (idx + 1) = nxt :: chain.drop (idx + 1 + 1) := by
              rw [← hnxt]; exact List.drop_eq_getElem_cons hidx'
            cases he : getExistenceProof nxt proof.key with
            | none => simp [he] at h
            | some e =>
              simp only [he] at h
              split at h
              · simp at h
              · rename_i hvm
                refine ⟨e.value, ?_, ?_⟩
                · rw [hdrop']; simp only [nextRoots]
                  exact getExistenceProof_mem nxt proof.key e he
                · have := ih _ _ h
                  simp only [Bool.not_eq_true, Bool.not_eq_false'] at hvm
                  simp [hvm, this]
          | none =>
            simp only [hn] at h
            have hdrop' : chain.drop (idx + 1) = [] :=
              List.drop_eq_nil_of_le (List.getElem?_eq_none_iff.mp hn)
            cases hke : keys.isEmpty with
            | false => simp [hke] at h
            | true =>
              simp only [hke, Bool.not_true, Bool.false_eq_true, ↓reduceIte] at h
              split at h
              · simp at h
              · rename_i hvm
                refine ⟨root, ?_, ?_⟩
                · rw [hdrop']; simp [nextRoots]
                · have := ih _ _ h
                  simp only [Bool.not_eq_true, Bool.not_eq_false'] at hvm
                  simp [hvm, this]

theorem tryFromOps_eq (ops : List RawOp) (chain : ProofChain) (h : tryFromOps ops = .ok chain) :
    opsOf ops = some chain := by
  induction ops generalizing chain with
  | nil => simp [tryFromOps] at h; simp [opsOf, h]
  | cons op rest ih =>
    unfold tryFromOps at h
    cases hc : CommitmentOp.tryFrom op with
    | error e => simp [hc] at h
    | ok c =>
      simp only [hc] at h
      cases hr : tryFromOps rest with
      | error e => simp [hr] at h
      | ok cs =>
        simp only [hr, Except.ok.injEq] at h
        subst h
        have := ih cs hr
        unfold CommitmentOp.tryFrom at hc
        unfold opsOf
        cases ht : op.type <;> cases hd : op.data <;> simp_all

theorem digitsToNat_eq (ds : List UInt8) (acc n : Nat) (h : digitsToNat ds acc = some n) :
    ds.all (fun c => decide (48 ≤ c.toNat) && decide (c.toNat ≤ 57)) = true ∧
    ds.foldl (fun acc c => acc * 10 + (c.toNat - 48)) acc = n := by
  induction ds generalizing acc with
  | nil => simp [digitsToNat] at h; simp [h]
  | cons c ds ih =>
    unfold digitsToNat at h
    split at h
    · rename_i hc
      have := ih _ h
      simp [hc, this]
    · simp at h

theorem parseU64_decimal (bs : Bytes) (n : Nat) (h : parseU64 bs = some n) : decimal bs = some n := by
  have key : ∀ ds : List UInt8,
      (if ds.isEmpty then none else match digitsToNat ds 0 with
        | some n => if n ≤ U64_MAX then some n else none
        | none => none) = some n →
      (if (ds.isEmpty || !ds.all (fun c => decide (48 ≤ c.toNat) && decide (c.toNat ≤ 57))) = true then none
        else some (ds.foldl (fun acc c => acc * 10 + (c.toNat - 48)) 0)) = some n := by
    intro ds h
    split at h
    · simp at h
    · rename_i hne
      cases hd : digitsToNat ds 0 with
      | none => simp [hd] at h
      | some m =>
        simp only [hd] at h
        split at h
        · cases h
          obtain ⟨h1, h2⟩ := digitsToNat_eq ds 0 n hd
          simp only [Bool.not_eq_true] at hne
          simp [hne, h1, h2]
        · simp at h
  unfold parseU64 at h
  unfold decimal
  exact key _ h

theorem bankKey_eq (addr : Bytes) : Lumina.Spec.C45.bankKey addr = bankKey addr := by
  unfold Lumina.Spec.C45.bankKey bankKey
  rw [show Lumina.Spec.C45.ascii "utia" = BOND_DENOM by decide]

theorem bank_eq : Lumina.Spec.C45.bank = BANK := by decide


/-- what `backed` says, spelled out -/
theorem backed_links (vm : VM) (addr appHash : Bytes) (r : AbciResponse) (n : Nat)
    (h : Lumina.Spec.C45.backed vm addr appHash (some r) n = true) :
    ∃ op0 op1 r0, opsOf (r.proofOps.getD []) = some [op0, op1] ∧ op0.key = bankKey addr ∧ op1.key = BANK ∧
      r0 ∈ candidates op1.proof ∧ vm op0.proof op0.spec r0 (bankKey addr) r.value = true ∧
      vm op1.proof op1.spec appHash BANK r0 = true ∧ decimal r.value = some n := by
  simp only [backed, Bool.and_eq_true, beq_iff_eq] at h
  obtain ⟨⟨-, hch⟩, hdec⟩ := h
  cases hops : opsOf (r.proofOps.getD []) with
  | none => simp [hops] at hch
  | some chain =>
    simp only [hops, Bool.and_eq_true] at hch
    obtain ⟨-, hl⟩ := hch
    rw [bankKey_eq, bank_eq] at hl
    match chain, hl with
    | [], hl => simp [linked] at hl
    | [op0], hl =>
      simp only [linked, nextRoots, Bool.and_eq_true, beq_iff_eq, List.any_eq_true] at hl
      obtain ⟨-, x, -, -, hx⟩ := hl
      simp [linked] at hx
    | op0 :: op1 :: op2 :: rest, hl =>
      simp only [linked, nextRoots, Bool.and_eq_true, beq_iff_eq, List.any_eq_true] at hl
      obtain ⟨-, x, -, -, -, y, -, -, hy⟩ := hl
      simp [linked] at hy
    | [op0, op1], hl =>
      simp only [linked, nextRoots, Bool.and_eq_true, beq_iff_eq, List.any_eq_true, List.mem_singleton] at hl
      obtain ⟨hk0, r0, hr0, hv0, hk1, x, rfl, hv1, -⟩ := hl
      exact ⟨op0, op1, r0, rfl, hk0, hk1, hr0, hv0, hv1, hdec⟩


end Lumina.Proofs.AbciProofs

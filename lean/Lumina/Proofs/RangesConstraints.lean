/-
  `BlockRanges::check_insertion_constraints` (C18): complete case analysis on `Inv` values.
  Core Lean only.
-/
import Lumina.Proofs.Ranges

namespace Lumina.Proofs.Ranges
open Lumina.Model.Ranges hiding Inv

local notation "RInv" => Lumina.Model.Ranges.Inv

attribute [local simp] ok_bind err_bind map_ok map_err pure_eq throw_eq

/-- the candidate range shares a height with the stored set -/
def Overlap (rs : Ranges) (r : Range) : Prop := ∃ h, mem rs h ∧ r.1 ≤ h ∧ h ≤ r.2

/-- nothing stored, or the candidate lies entirely above the highest stored height -/
def AboveHead (rs : Ranges) (r : Range) : Prop := ∀ h, mem rs h → h < r.1

theorem memB_eq_false_iff (rs : Ranges) (h : Nat) : memB rs h = false ↔ ¬ mem rs h := by
  rw [← memB_iff_mem]; simp

theorem checkInsertionConstraints_invalid {rs : Ranges} {r : Range} (h : Range.valid r = false) :
    checkInsertionConstraints rs r = .error (.invalid r) := by
  simp [checkInsertionConstraints, validate_err h]

/-- heights next to or inside `r` can only belong to the touching block -/
theorem mem_mid {L M R : Ranges} {r : Range}
    (hL : ∀ x ∈ L, x.2 + 1 < r.1) (hR : ∀ x ∈ R, r.2 + 1 < x.1) {h : Nat}
    (hh : r.1 ≤ h + 1 ∧ h ≤ r.2 + 1) : mem (L ++ M ++ R) h ↔ mem M h := by
  simp only [mem_append]
  constructor
  · rintro ((⟨x, hx, h1, h2⟩ | hm) | ⟨x, hx, h1, h2⟩)
    · have := hL x hx; omega
    · exact hm
    · have := hR x hx; omega
  · intro hm; exact Or.inl (Or.inr hm)

theorem subU64_idx (l m : Nat) (hm : 1 ≤ m) : subU64 (l + m - 1) l = .ok (m - 1) := by
  unfold subU64
  rw [if_pos (by omega)]
  congr 1
  omega

/-- complete case analysis of `check_insertion_constraints` on an `Inv` value and a valid range:
    exactly one of *admitted* (with the two flags), *overlap*, *no adjacent neighbour*. -/
theorem checkInsertionConstraints_cases {rs : Ranges} {r : Range} (hi : RInv rs) (hv : ValidR r) :
    (checkInsertionConstraints rs r = .ok (memB rs (r.1 - 1), memB rs (r.2 + 1)) ∧
        ¬ Overlap rs r ∧ (AboveHead rs r ∨ mem rs (r.1 - 1) ∨ mem rs (r.2 + 1))) ∨
    ((∃ o, checkInsertionConstraints rs r = .error (.overlap r o)) ∧ Overlap rs r) ∨
    (checkInsertionConstraints rs r = .error (.noAdjacent r) ∧
        ¬ Overlap rs r ∧ ¬ AboveHead rs r ∧ ¬ mem rs (r.1 - 1) ∧ ¬ mem rs (r.2 + 1)) := by
  have hvr := hv
  unfold ValidR at hvr
  have hvalid := hv.valid
  rcases List.eq_nil_or_concat rs with rfl | ⟨ys, hd, rfl⟩
  · -- empty store
    left
    refine ⟨by simp [checkInsertionConstraints, validate_ok hvalid, memB], ?_, Or.inl ?_⟩
    · rintro ⟨h, hm, _⟩; exact mem_nil h hm
    · intro h hm; exact absurd hm (mem_nil h)
  · simp only [List.concat_eq_append] at hi ⊢
    have hlast : (ys ++ [hd]).getLast? = some hd := List.getLast?_concat
    have hvhd := inv_validR hi (r := hd) (by simp)
    have hmax : ∀ h, mem (ys ++ [hd]) h → h ≤ hd.2 := by
      rintro h ⟨x, hx, h1, h2⟩
      have := inv_le_last hi x hx; omega
    have hhdmem : mem (ys ++ [hd]) hd.2 := ⟨hd, by simp, hvhd.2.1, Nat.le_refl _⟩
    by_cases habove : hd.2 < r.1
    · -- a new head range
      left
      have hN : memB (ys ++ [hd]) (r.2 + 1) = false := by
        rw [memB_eq_false_iff]; intro hm; have := hmax _ hm; omega
      have hP : memB (ys ++ [hd]) (r.1 - 1) = Range.adjacent hd r := by
        rw [Bool.eq_iff_iff, memB_iff_mem, adjacent_iff hvhd.valid hvalid]
        unfold ValidR at hvhd
        constructor
        · intro hm
          have := hmax _ hm
          left
          -- r.1 - 1 ≤ hd.2 < r.1 : it is hd.2; need it to be exactly hd.2
          omega
        · intro hadj
          have : r.1 - 1 = hd.2 := by omega
          rw [this]; exact hhdmem
      refine ⟨?_, ?_, Or.inl ?_⟩
      · simp [checkInsertionConstraints, validate_ok hvalid, hlast, isLeftOf_ok hvhd.valid hvalid,
          habove, isAdjacent_ok hvhd.valid hvalid, hN, hP]
      · rintro ⟨h, hm, h1, _⟩; have := hmax _ hm; omega
      · intro h hm; have := hmax _ hm; omega
    · -- not above the head: the affected block decides
      have hnotabove : ¬ AboveHead (ys ++ [hd]) r := fun ha => by
        have := ha _ hhdmem; omega
      obtain ⟨L, M, R, hrs, hL, hM, hR, hfind⟩ := find_decomp hi hv
      have hstart : checkInsertionConstraints (ys ++ [hd]) r =
          (match (if M = [] then none else some (L.length, L.length + M.length - 1)) with
          | none => Except.error (.noAdjacent r)
          | some (firstIdx, lastIdx) =>
            match (ys ++ [hd])[firstIdx]?, (ys ++ [hd])[lastIdx]? with
            | some first, some last => do
              let d ← subU64 lastIdx firstIdx
              let num := d + 1
              if num == 1 then
                if ← Range.isOverlapping first r then
                  throw (.overlap r (calcOverlap r first last))
                else if ← Range.isLeftOf first r then
                  pure (true, false)
                else
                  pure (false, true)
              else if num == 2 then
                let a ← Range.isAdjacent first r
                let b ← if a then Range.isAdjacent last r else pure false
                if b then pure (true, true)
                else throw (.overlap r (calcOverlap r first last))
              else
                throw (.overlap r (calcOverlap r first last))
            | _, _ => throw .panic) := by
        simp only [checkInsertionConstraints, validate_ok hvalid, ok_bind, hlast,
          isLeftOf_ok hvhd.valid hvalid, habove, decide_false, Bool.false_eq_true, ↓reduceIte, hfind]
        rfl
      rw [hstart, hrs]
      rw [hrs] at hi hnotabove
      clear hstart hfind hlast hmax hhdmem hrs
      have hmidP : mem (L ++ M ++ R) (r.1 - 1) ↔ mem M (r.1 - 1) := mem_mid hL hR (by omega)
      have hmidN : mem (L ++ M ++ R) (r.2 + 1) ↔ mem M (r.2 + 1) := mem_mid hL hR (by omega)
      have hmidO : Overlap (L ++ M ++ R) r ↔ ∃ h, mem M h ∧ r.1 ≤ h ∧ h ≤ r.2 := by
        constructor
        · rintro ⟨h, hm, h1, h2⟩; exact ⟨h, (mem_mid hL hR (by omega)).1 hm, h1, h2⟩
        · rintro ⟨h, hm, h1, h2⟩; exact ⟨h, (mem_mid hL hR (by omega)).2 hm, h1, h2⟩
      by_cases hMnil : M = []
      · -- nothing touches
        subst hMnil
        right; right
        refine ⟨by simp, ?_, hnotabove, ?_, ?_⟩
        · rw [hmidO]; rintro ⟨h, hm, _⟩; exact mem_nil h hm
        · rw [hmidP]; exact mem_nil _
        · rw [hmidN]; exact mem_nil _
      · obtain ⟨a, b, M', M'', ha, hb, ga, gb, gt, gd⟩ := decomp_surgery L M R hMnil
        obtain ⟨haM, hbM, hMb, hLi, hMi, hRi, cLM, cLR, cMR⟩ := block_facts hi ha hb
        have hva := inv_validR hMi haM
        have hvb := inv_validR hMi hbM
        have hta := touches_iff.1 (hM a haM)
        have htb := touches_iff.1 (hM b hbM)
        have hlen : 1 ≤ M.length := by rw [ha]; simp
        simp only [hMnil, ↓reduceIte, ga, gb, subU64_idx _ _ hlen, ok_bind,
          isOverlapping_ok hva.valid hvalid, isLeftOf_ok hva.valid hvalid,
          isAdjacent_ok hva.valid hvalid, isAdjacent_ok hvb.valid hvalid]
        have hbl : M.getLast? = some b := by rw [hb]; simp
        have hPb : memB (L ++ M ++ R) (r.1 - 1) = memB M (r.1 - 1) := by
          rw [Bool.eq_iff_iff, memB_iff_mem, memB_iff_mem]; exact hmidP
        have hNb : memB (L ++ M ++ R) (r.2 + 1) = memB M (r.2 + 1) := by
          rw [Bool.eq_iff_iff, memB_iff_mem, memB_iff_mem]; exact hmidN
        rw [hPb, hNb, hmidO, hmidP, hmidN]
        clear hPb hNb hmidO hmidP hmidN hnotabove gt gd ga gb
        have hova := overlapping_iff hva.valid hvalid
        have hadja := adjacent_iff hva.valid hvalid
        have hadjb := adjacent_iff hvb.valid hvalid
        unfold ValidR at hva hvb
        subst ha
        cases M' with
        | nil =>
          -- one affected range
          simp only [List.getLast?_singleton, Option.some.injEq] at hbl
          subst hbl
          have hmemM : ∀ h, mem [a] h ↔ a.1 ≤ h ∧ h ≤ a.2 := fun h => mem_singleton a h
          simp only [List.length_cons, List.length_nil, Nat.zero_add, Nat.sub_self, beq_self_eq_true,
            ↓reduceIte]
          by_cases ho : Range.overlapping a r = true
          · right; left
            have := hova.1 ho
            refine ⟨⟨calcOverlap r a a, by simp [ho]⟩, max a.1 r.1, (hmemM _).2 ⟨by omega, by omega⟩, by omega, by omega⟩
          · have hno : ¬ (a.1 ≤ r.2 ∧ r.1 ≤ a.2) := fun h => ho (hova.2 h)
            have ho' : Range.overlapping a r = false := by simpa using ho
            left
            by_cases hl : a.2 < r.1
            · have e1 : memB [a] (r.1 - 1) = true := (memB_iff_mem _ _).2 ((hmemM _).2 ⟨by omega, by omega⟩)
              have e2 : memB [a] (r.2 + 1) = false :=
                (memB_eq_false_iff _ _).2 (fun h => by have := (hmemM _).1 h; omega)
              refine ⟨by simp [ho', hl, e1, e2], ?_, Or.inr (Or.inl ((hmemM _).2 ⟨by omega, by omega⟩))⟩
              rintro ⟨h, hm, h1, h2⟩; have := (hmemM _).1 hm; omega
            · have e1 : memB [a] (r.1 - 1) = false :=
                (memB_eq_false_iff _ _).2 (fun h => by have := (hmemM _).1 h; omega)
              have e2 : memB [a] (r.2 + 1) = true := (memB_iff_mem _ _).2 ((hmemM _).2 ⟨by omega, by omega⟩)
              refine ⟨by simp [ho', hl, e1, e2], ?_, Or.inr (Or.inr ((hmemM _).2 ⟨by omega, by omega⟩))⟩
              rintro ⟨h, hm, h1, h2⟩; have := (hmemM _).1 hm; omega
        | cons m M2 =>
          have hgap : a.2 + 1 < m.1 := (inv_cons.1 hMi).1 m (by simp)
          have hvm := inv_validR hMi (r := m) (by simp)
          unfold ValidR at hvm
          cases M2 with
          | nil =>
            -- two affected ranges
            simp only [List.getLast?_cons_cons, List.getLast?_singleton, Option.some.injEq] at hbl
            subst hbl
            have hmemM : ∀ h, mem [a, m] h ↔ (a.1 ≤ h ∧ h ≤ a.2) ∨ (m.1 ≤ h ∧ h ≤ m.2) := by
              intro h; rw [mem_cons, mem_singleton]
            simp only [List.length_cons, List.length_nil, Nat.zero_add, Nat.add_one_sub_one,
              Nat.reduceBEq, Bool.false_eq_true, ↓reduceIte, beq_self_eq_true]
            by_cases hboth : Range.adjacent a r = true ∧ Range.adjacent m r = true
            · left
              have h1 := hadja.1 hboth.1
              have h2 := hadjb.1 hboth.2
              have e1 : memB [a, m] (r.1 - 1) = true :=
                (memB_iff_mem _ _).2 ((hmemM _).2 (Or.inl ⟨by omega, by omega⟩))
              have e2 : memB [a, m] (r.2 + 1) = true :=
                (memB_iff_mem _ _).2 ((hmemM _).2 (Or.inr ⟨by omega, by omega⟩))
              refine ⟨by simp [hboth.1, hboth.2, e1, e2], ?_,
                Or.inr (Or.inl ((hmemM _).2 (Or.inl ⟨by omega, by omega⟩)))⟩
              rintro ⟨h, hm, h3, h4⟩; have := (hmemM _).1 hm; omega
            · right; left
              refine ⟨⟨calcOverlap r a m, ?_⟩, ?_⟩
              · by_cases c1 : Range.adjacent a r = true
                · have c2 : Range.adjacent m r = false := by
                    by_cases c2 : Range.adjacent m r = true
                    · exact absurd ⟨c1, c2⟩ hboth
                    · simpa using c2
                  simp [c1, c2]
                · have c1' : Range.adjacent a r = false := by simpa using c1
                  simp [c1']
              · by_cases c : a.1 ≤ r.2 ∧ r.1 ≤ a.2
                · exact ⟨max a.1 r.1, (hmemM _).2 (Or.inl ⟨by omega, by omega⟩), by omega, by omega⟩
                · have c1 : ¬ (Range.adjacent a r = true ∧ Range.adjacent m r = true) := hboth
                  rw [hadja, hadjb] at c1
                  exact ⟨max m.1 r.1, (hmemM _).2 (Or.inr ⟨by omega, by omega⟩), by omega, by omega⟩
          | cons x M3 =>
            -- three or more affected ranges: the middle one is covered
            right; left
            have hbin : b ∈ x :: M3 := by
              have : (x :: M3).getLast? = some b := by simpa using hbl
              obtain ⟨zs, hz⟩ := List.getLast?_eq_some_iff.1 this
              rw [hz]; simp
            have hmb : m.2 + 1 < b.1 := (inv_cons.1 (inv_tail hMi)).1 b hbin
            refine ⟨⟨calcOverlap r a b, by simp⟩, m.1, ⟨m, by simp, Nat.le_refl _, hvm.2.1⟩, by omega, by omega⟩

end Lumina.Proofs.Ranges
